(* Model of ExactSolution.dump (csv.writer: header row, one row per record, "," separator, line
   terminator) and of reading the file back with csv.reader, for cells that need no quoting (field names
   and repr of floats never contain the separator, a quote or a line break).  Text = list of characters. *)
From Coq Require Import List Ascii Bool.
Import ListNotations.

Definition text := list ascii.

Fixpoint join (sep : text) (l : list text) : text :=
  match l with
  | [] => []
  | [x] => x
  | x :: rest => x ++ sep ++ join sep rest
  end.

(* split on a single character *)
Fixpoint split_aux (c : ascii) (s : text) (cur : text) : list text :=
  match s with
  | [] => [cur]
  | a :: rest => if Ascii.eqb a c then cur :: split_aux c rest [] else split_aux c rest (cur ++ [a])
  end.
Definition split (c : ascii) (s : text) : list text := split_aux c s [].

Definition has_char (c : ascii) (s : text) : bool := existsb (fun a => Ascii.eqb a c) s.

Definition comma : ascii := ","%char.
Definition newline : ascii := "010"%char.

Definition plain_cell (s : text) : bool := negb (has_char comma s) && negb (has_char newline s).
Definition plain_row (r : list text) : bool := forallb plain_cell r && negb (match r with [] => true | _ => false end).

Definition print_row (r : list text) : text := join [comma] r.
Definition print_table (t : list (list text)) : text := join [newline] (map print_row t).
Definition parse_table (s : text) : list (list text) := map (split comma) (split newline s).
