(* Hand-written models of the programmed-burn / DSD burn-time solvers (vector code, modelled per point):
   kenamond1.py, kenamond2.py, kenamond3.py (_run loops) and dsd/cylexpansion.py.  Tied to the implementation
   by the correspondence check of C13 (tools/burn_corr.py, decided inside Coq with Interval). *)
From Coq Require Import Reals.
From EP Require Import lib.Base lib.Euclid.
Open Scope R_scope.

(* ---- Kenamond 1: btime = t_d + |x - x_d| / D *)
Definition k1_bt2 (D xd yd td x y : R) : R := td + norm2 (x - xd) (y - yd) / D.
Definition k1_bt3 (D xd yd zd td x y z : R) : R := td + norm3 (x - xd) (y - yd) (z - zd) / D.

(* ---- Kenamond 2 (2-D: detonators on the y axis at d1 d2 d4 d5, detonator 3 at the origin; 3-D: on the z axis) *)
Definition k2_core (R_ D1 D2 t3 dist : R) : R :=
  Rmax (t3 + dist / D1) (t3 + dist / D2 + R_ * (1 / D1 - 1 / D2)).
Definition k2_bt2 (R_ D1 D2 d1 d2 d4 d5 t1 t2 t3 t4 t5 x y : R) : R :=
  Rmin (Rmin (Rmin (Rmin (k2_core R_ D1 D2 t3 (norm2 x y))
                         (t1 + norm2 x (y - d1) / D2))
                   (t2 + norm2 x (y - d2) / D2))
             (t4 + norm2 x (y - d4) / D2))
       (t5 + norm2 x (y - d5) / D2).
Definition k2_bt3 (R_ D1 D2 d1 d2 d4 d5 t1 t2 t3 t4 t5 x y z : R) : R :=
  Rmin (Rmin (Rmin (Rmin (k2_core R_ D1 D2 t3 (norm3 x y z))
                         (t1 + norm3 x y (z - d1) / D2))
                   (t2 + norm3 x y (z - d2) / D2))
             (t4 + norm3 x y (z - d4) / D2))
       (t5 + norm3 x y (z - d5) / D2).

(* ---- Kenamond 3 (2-D): inert disc of radius R_ at the origin, detonator at (xd, yd) *)
Definition k3_theta (R_ xd yd x y : R) : R :=
  let l_op := norm2 x y in let l_od := norm2 xd yd in
  PI - acos (- (x * xd + y * yd) / (l_od * l_op)) - acos (R_ / l_op) - acos (R_ / l_od).
Definition k3_bt2 (R_ D xd yd td x y : R) : R :=
  let l_op := norm2 x y in let l_od := norm2 xd yd in
  if Rlt_dec 0 (k3_theta R_ xd yd x y)
  then td + (sqrt (l_od ^ 2 - R_ ^ 2) + R_ * k3_theta R_ xd yd x y + sqrt (l_op ^ 2 - R_ ^ 2)) / D
  else td + norm2 (x - xd) (y - yd) / D.

(* 3-D: inert sphere, detonator at (xd, yd, zd); same formulas with 3-D norms and dot product *)
Definition k3_theta3 (R_ xd yd zd x y z : R) : R :=
  let l_op := norm3 x y z in let l_od := norm3 xd yd zd in
  PI - acos (- (x * xd + y * yd + z * zd) / (l_od * l_op)) - acos (R_ / l_op) - acos (R_ / l_od).
Definition k3_bt3 (R_ D xd yd zd td x y z : R) : R :=
  let l_op := norm3 x y z in let l_od := norm3 xd yd zd in
  if Rlt_dec 0 (k3_theta3 R_ xd yd zd x y z)
  then td + (sqrt (l_od ^ 2 - R_ ^ 2) + R_ * k3_theta3 R_ xd yd zd x y z + sqrt (l_op ^ 2 - R_ ^ 2)) / D
  else td + norm3 (x - xd) (y - yd) (z - zd) / D.

(* ---- DSD cylindrical expansion *)
Definition dsd_leg (r ra vd DCJ : R) : R := ((r - ra) + vd * ln ((r - vd) / (ra - vd))) / DCJ.
Definition dsd_bt (r_1 r_2 D_CJ_1 D_CJ_2 alpha_1 alpha_2 t_d x y : R) : R :=
  let rpt := norm2 x y in
  if Rlt_dec rpt r_1 then t_d
  else if Rlt_dec rpt r_2 then t_d + dsd_leg rpt r_1 (alpha_1 / D_CJ_1) D_CJ_1
  else t_d + dsd_leg r_2 r_1 (alpha_1 / D_CJ_1) D_CJ_1 + dsd_leg rpt r_2 (alpha_2 / D_CJ_2) D_CJ_2.
