(* C06: abstract model of hidden state (module-level globals) and of one evaluation ("activation") as a
   program of accesses to that state.  If every read is dominated by a write earlier in the same activation,
   what the activation reads - hence everything it computes from its own inputs - does not depend on the
   state left behind by earlier calls, of this or of any other solver, in any interleaving. *)
From Coq Require Import List String Bool ZArith Lia.
Import ListNotations.
Open Scope string_scope.

Definition value := Z.
Definition store := string -> value.

Inductive access :=
| Rd (x : string)                              (* read global x *)
| Wr (x : string)                              (* write global x (value computed from inputs and earlier reads) *)
| WrC (x : string) (c : Z)                     (* write the literal constant c to x *)
| RdIf (g : string) (c : Z) (x : string).      (* `if g == c: ... read x ...`  (g is read, x only when g = c) *)

Definition upd (s : store) (x : string) (v : value) : store := fun y => if String.eqb y x then v else s y.

Section Exec.
(* the value written by a `Wr x`: any function of the activation's own inputs (closed over) and of the
   values read so far *)
Variable compute : list value -> string -> value.

Fixpoint exec (p : list access) (st : store) (trace : list value) : store * list value :=
  match p with
  | [] => (st, trace)
  | Rd x :: r => exec r st (trace ++ [st x])
  | Wr x :: r => exec r (upd st x (compute trace x)) trace
  | WrC x c :: r => exec r (upd st x c) trace
  | RdIf g c x :: r =>
      if Z.eqb (st g) c then exec r st (trace ++ [st g; st x]) else exec r st (trace ++ [st g])
  end.
End Exec.

(* static knowledge about a global during the domination check *)
Inductive known := Unknown | Const (c : Z).

Fixpoint lookup (w : list (string * known)) (x : string) : option known :=
  match w with
  | [] => None
  | (y, k) :: r => if String.eqb y x then Some k else lookup r x
  end.

Fixpoint dominated_from (w : list (string * known)) (p : list access) : bool :=
  match p with
  | [] => true
  | Rd x :: r => match lookup w x with Some _ => dominated_from w r | None => false end
  | Wr x :: r => dominated_from ((x, Unknown) :: w) r
  | WrC x c :: r => dominated_from ((x, Const c) :: w) r
  | RdIf g c x :: r =>
      match lookup w g with
      | None => false
      | Some (Const c') => if Z.eqb c' c then (match lookup w x with Some _ => dominated_from w r | None => false end)
                           else dominated_from w r
      | Some Unknown => match lookup w x with Some _ => dominated_from w r | None => false end
      end
  end.

Definition dominated (p : list access) : bool := dominated_from [] p.

(* two stores agree with the static knowledge w *)
Definition agree (w : list (string * known)) (s1 s2 : store) : Prop :=
  forall x k, lookup w x = Some k -> s1 x = s2 x /\ (forall c, k = Const c -> s1 x = c).
