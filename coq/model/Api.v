(* Hand-written model of exactpack/base.py: ExactSolver.__init__ (parameter checking),
   ExactSolver.__call__ (asarray + _run of an element-wise solver) and ExactSolution construction.
   Tied to the implementation by the correspondence check of C05 (random parameter dictionaries,
   containers and point lists against every public solver class). *)
From Coq Require Import List String Bool Arith Lia.
Import ListNotations.
Open Scope string_scope.

Definition mem (s : string) (l : list string) : bool := existsb (String.eqb s) l.

Inductive init_result := InitOk | UnknownParameter (k : string) | MissingParameter (k : string).

(* base.ExactSolver.__init__:
     if not params.keys() <= set(self.parameters): raise ValueError("Unknown parameters ...")
     self.__dict__.update(params)
     for param in self.parameters: if not hasattr(self, param): raise ValueError("Missing parameter ...")
   declared = keys of the class's `parameters`, class_attrs = names that resolve as class attributes
   (defaults, possibly inherited), given = keyword names passed by the caller *)
Definition base_init (declared class_attrs given : list string) : init_result :=
  match find (fun k => negb (mem k declared)) given with
  | Some k => UnknownParameter k
  | None =>
      match find (fun q => negb (mem q given) && negb (mem q class_attrs)) declared with
      | Some q => MissingParameter q
      | None => InitOk
      end
  end.

Definition raises_ValueError (r : init_result) : bool :=
  match r with InitOk => false | _ => true end.

(* a solution: ordered named columns of equal length *)
Record solution (V : Type) := { sol_names : list string; sol_cols : list (list V) }.
Arguments sol_names {V}. Arguments sol_cols {V}.

(* __call__ of an element-wise solver: the first column is the input itself, the others are maps *)
Definition call_elementwise {V : Type} (names : list string) (fields : list (V -> V)) (pts : list V) : solution V :=
  {| sol_names := names; sol_cols := pts :: map (fun f => map f pts) fields |}.

Definition well_formed {V : Type} (s : solution V) (n : nat) : Prop :=
  List.length (sol_names s) = List.length (sol_cols s) /\ Forall (fun c => List.length c = n) (sol_cols s).
