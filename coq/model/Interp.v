(* numpy.interp(x, xp, fp) for increasing knots xp (the single most reused piece of glue: radiative-shock
   wrappers, Riemann wrappers, Sedov, SDRZ).  Knots and values as a list of pairs. *)
From Coq Require Import Reals List Lra.
Import ListNotations.
Open Scope R_scope.

Fixpoint interp_aux (x k0 v0 : R) (rest : list (R * R)) : R :=
  match rest with
  | [] => v0                                       (* right of the last knot: clamp *)
  | (k1, v1) :: r =>
      if Rle_dec x k1 then v0 + (v1 - v0) * (x - k0) / (k1 - k0)
      else interp_aux x k1 v1 r
  end.

Definition interp (x : R) (pts : list (R * R)) : R :=
  match pts with
  | [] => 0
  | (k0, v0) :: r => if Rle_dec x k0 then v0 else interp_aux x k0 v0 r   (* left of the first knot: clamp *)
  end.

Definition shift_knots (c : R) (pts : list (R * R)) : list (R * R) := map (fun kv => (fst kv + c, snd kv)) pts.
