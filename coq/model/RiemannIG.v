(* Hand-written model of riemann.py:RiemannIGEOS.driver (glue around the generated wave functions of
   riemann/utils.py): wave-pattern selection, star states, wave speeds, and the region assembly by
   successive overwriting (reg_state).  The star pressure px is an input: it is the value SciPy's
   bisect returns for the pattern's *_call function (see the theorems' hypotheses).
   Tied to the implementation by the correspondence check (tools/props/riemann_corr.py). *)
From Coq Require Import Reals List.
From EP Require Import lib.Base gen.Riemann.
Open Scope R_scope.
Import ListNotations.

Inductive pattern := SCS | SCR | RCS | RCR | RCVCR.

Section Driver.
Variables pl rl ul gl pr rr ur gr : R.

Definition ig_al : R := rie_sound_speed pl rl gl.
Definition ig_ar : R := rie_sound_speed pr rr gr.
Definition ig_ul_tilde : R := ul + 2 * ig_al / (gl - 1).

(* the if/elif chain of the driver (Gottlieb & Groth fig. 3) *)
Definition ig_classify : pattern :=
  if Rle_dec pl pr then
    (if Rle_dec ur (rie_u_SCN pr ig_al gl pl ul) then SCS
     else if Rle_dec ur (rie_u_NCR pr gr pl rr ul) then SCR
     else if Rle_dec ur (rie_u_RCVR pr gr rr ig_ul_tilde) then RCR else RCVCR)
  else
    (if Rle_dec ur (rie_u_NCS pr gr pl rr ul) then SCS
     else if Rle_dec ur (rie_u_RCN pr ig_al gl pl ul) then RCS
     else if Rle_dec ur (rie_u_RCVR pr gr rr ig_ul_tilde) then RCR else RCVCR).

(* the equation whose root bisect(…, 0, 10 max(pl,pr)) returns *)
Definition ig_call (pat : pattern) (px : R) : R :=
  match pat with
  | SCS => rie_SCS_call px gl gr pl pr rl rr ul ur
  | SCR => rie_SCR_call px gl gr pl pr rl rr ul ur
  | RCS => rie_RCS_call px gl gr pl pr rl rr ul ur
  | RCR => rie_RCR_call px gl gr pl pr rl rr ul ur
  | RCVCR => 0
  end.

Variable pat : pattern.
Variable px : R.

Definition ig_ux : R :=
  match pat with
  | SCS | SCR => ul + (-1) * rie_shock px pl rl 0 gl
  | _ => ul + 1 * rie_rarefaction px pl rl 0 gl
  end.
Definition ig_rx1 : R :=
  match pat with
  | SCS | SCR => rie_rho_star_shock px pl rl gl
  | _ => rie_rho_star_rarefaction px pl rl gl
  end.
Definition ig_rx2 : R :=
  match pat with
  | SCS | RCS => rie_rho_star_shock px pr rr gr
  | _ => rie_rho_star_rarefaction px pr rr gr
  end.
Definition ig_ax1 : R := rie_sound_speed px ig_rx1 gl.
Definition ig_ax2 : R := rie_sound_speed px ig_rx2 gr.

Definition ig_Vregs : list R :=
  match pat with
  | SCS => [rie_shock_velocityL px gl pl rl ul; ig_ux; rie_shock_velocityR px gr pl pr rl rr ul ur]
  | SCR => [rie_shock_velocityL px gl pl rl ul; ig_ux; ig_ux + ig_ax2; ur + ig_ar]
  | RCS => [ul - ig_al; ig_ux - ig_ax1; ig_ux; rie_shock_velocityR px gr pl pr rl rr ul ur]
  | RCR => [ul - ig_al; ig_ux - ig_ax1; ig_ux; ig_ux + ig_ax2; ur + ig_ar]
  | RCVCR => []
  end.

Variables xd0 t : R.
Definition ig_Xregs : list R := map (fun v => xd0 + t * v) ig_Vregs.

(* a region: its left edge and the four fields (p, rho, u, e) as functions of x *)
Record region := { edge : R; f_p : R -> R; f_r : R -> R; f_u : R -> R; f_e : R -> R }.

Definition const_region (e p r u g : R) : region :=
  {| edge := e; f_p := fun _ => p; f_r := fun _ => r; f_u := fun _ => u; f_e := fun _ => rie_sie p r g |}.
Definition fanL_region (e : R) : region :=
  {| edge := e;
     f_p := fun x => rie_fanL_p x xd0 t gl pl rl ul; f_r := fun x => rie_fanL_rho x xd0 t gl pl rl ul;
     f_u := fun x => rie_fanL_u x xd0 t gl pl rl ul;
     f_e := fun x => rie_sie (rie_fanL_p x xd0 t gl pl rl ul) (rie_fanL_rho x xd0 t gl pl rl ul) gl |}.
Definition fanR_region (e : R) : region :=
  {| edge := e;
     f_p := fun x => rie_fanR_p x xd0 t gr pl pr rl rr ul ur; f_r := fun x => rie_fanR_rho x xd0 t gr pl pr rl rr ul ur;
     f_u := fun x => rie_fanR_u x xd0 t gr pl pr rl rr ul ur;
     f_e := fun x => rie_sie (rie_fanR_p x xd0 t gr pl pr rl rr ul ur) (rie_fanR_rho x xd0 t gr pl pr rl rr ul ur) gr |}.

Definition X (i : nat) : R := nth i ig_Xregs 0.
Definition star1 (e : R) := const_region e px ig_rx1 ig_ux gl.
Definition star2 (e : R) := const_region e px ig_rx2 ig_ux gr.

(* regions in the order in which the driver overwrites them; the right state is always last *)
Definition ig_regions : list region :=
  match pat with
  | SCS => [star1 (X 0); star2 (X 1); const_region (X 2) pr rr ur gr]
  | SCR => [star1 (X 0); star2 (X 1); fanR_region (X 2); const_region (X 3) pr rr ur gr]
  | RCS => [fanL_region (X 0); star1 (X 1); star2 (X 2); const_region (X 3) pr rr ur gr]
  | RCR => [fanL_region (X 0); star1 (X 1); star2 (X 2); fanR_region (X 3); const_region (X 4) pr rr ur gr]
  | RCVCR => []
  end.

(* reg_state: where(edge <= x, region value, previous value), applied in order *)
Definition overwrite (sel : region -> R -> R) (x : R) (acc : R) (rg : region) : R :=
  if Rle_dec (edge rg) x then sel rg x else acc.

Definition ig_p (x : R) : R := fold_left (overwrite f_p x) ig_regions pl.
Definition ig_rho (x : R) : R := fold_left (overwrite f_r x) ig_regions rl.
Definition ig_u (x : R) : R := fold_left (overwrite f_u x) ig_regions ul.
Definition ig_e (x : R) : R := fold_left (overwrite f_e x) ig_regions (rie_sie pl rl gl).
End Driver.
