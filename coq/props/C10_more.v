From Coq Require Import Reals.
From Coquelicot Require Import Coquelicot.
From EP Require Import lib.Base gen.Cog19 gen.Mader gen.Ehep proofs.C17_mader proofs.C01_ehep proofs.C10_more.
Open Scope R_scope.

(* Coggeshall 19, every geometry (geometry is any real here): the generated fields, region selection included,
   depend on (r, t) through r / t only. *)
Theorem cog19_selfsimilar :
  forall lam geometry gamma rho0 u0 Gamma r t : R,
         0 < lam ->
         0 < r ->
         cog19_density geometry gamma rho0 u0 Gamma (lam * r) (lam * t) = cog19_density geometry gamma rho0 u0 Gamma r t /\
         cog19_velocity geometry gamma rho0 u0 Gamma (lam * r) (lam * t) = cog19_velocity geometry gamma rho0 u0 Gamma r t /\
         cog19_temperature geometry gamma rho0 u0 Gamma (lam * r) (lam * t) = cog19_temperature geometry gamma rho0 u0 Gamma r t /\
         cog19_pressure geometry gamma rho0 u0 Gamma (lam * r) (lam * t) = cog19_pressure geometry gamma rho0 u0 Gamma r t /\
         cog19_specific_internal_energy geometry gamma rho0 u0 Gamma (lam * r) (lam * t) =
         cog19_specific_internal_energy geometry gamma rho0 u0 Gamma r t.
Proof. exact cog19_selfsimilar_proof. Qed.
Print Assumptions cog19_selfsimilar.

(* Mader: rare() returns cell averages, so the similarity image scales the cell size dx with t as well.  dxp is the
   distance from the tail of the Taylor wave to the front edge of the cell (the coded transition cell divides by it;
   at dxp = 0 the real code evaluates 0/0). *)
Theorem mader_selfsimilar :
  forall lam t xlab dx p_cj d_cj gam u_piston : R,
         0 < lam -> 0 < t -> 0 < dx -> 1 < gam -> 0 < d_cj ->
         dxp t xlab dx d_cj gam u_piston <> 0 ->
         mader_u (lam * t) (lam * xlab) (lam * dx) p_cj d_cj gam u_piston = mader_u t xlab dx p_cj d_cj gam u_piston /\
         mader_p (lam * t) (lam * xlab) (lam * dx) p_cj d_cj gam u_piston = mader_p t xlab dx p_cj d_cj gam u_piston /\
         mader_c (lam * t) (lam * xlab) (lam * dx) p_cj d_cj gam u_piston = mader_c t xlab dx p_cj d_cj gam u_piston /\
         mader_rho (lam * t) (lam * xlab) (lam * dx) p_cj d_cj gam u_piston = mader_rho t xlab dx p_cj d_cj gam u_piston /\
         mader_xdet (lam * t) (lam * xlab) (lam * dx) p_cj d_cj gam u_piston = lam * mader_xdet t xlab dx p_cj d_cj gam u_piston.
Proof. exact mader_selfsimilar_proof. Qed.
Print Assumptions mader_selfsimilar.

(* Escape of HE products, region I (the Taylor wave behind the detonation front). *)
Theorem ehep_region_I_selfsimilar :
  forall D rho_0 lam x t : R,
         lam <> 0 -> t <> 0 ->
         ehep_I_cs (lam * x) (lam * t) D = ehep_I_cs x t D /\
         ehep_I_u (lam * x) (lam * t) D = ehep_I_u x t D /\
         ehep_I_p (lam * x) (lam * t) D rho_0 = ehep_I_p x t D rho_0 /\
         ehep_I_rho (lam * x) (lam * t) D rho_0 = ehep_I_rho x t D rho_0.
Proof. exact ehep_I_selfsimilar. Qed.
Print Assumptions ehep_region_I_selfsimilar.
