From Coq Require Import Reals.
From EP Require Import lib.Base gen.Cog5 proofs.C03_cog5.
Open Scope R_scope.

(* cog5: at every point where the returned expressions are defined (no division by zero, see cog5_defined)
   the returned pressure, density, temperature and specific internal energy satisfy the declared EOS. P = Gamma rho T, e = Gamma T/(gamma-1) with the built-in gamma = (1 / 2) *)
Theorem cog5_eos :
  forall rho0 u0 Gamma r t,
  cog5_defined rho0 u0 Gamma r t ->
  cog5_density rho0 u0 Gamma r t <> 0 ->
  (1 / 2) - 1 <> 0 ->
  cog5_pressure rho0 u0 Gamma r t = Gamma * (cog5_density rho0 u0 Gamma r t) * (cog5_temperature rho0 u0 Gamma r t) /\
  cog5_specific_internal_energy rho0 u0 Gamma r t = Gamma * (cog5_temperature rho0 u0 Gamma r t) / ((1 / 2) - 1) /\
  cog5_pressure rho0 u0 Gamma r t = ((1 / 2) - 1) * (cog5_density rho0 u0 Gamma r t) * (cog5_specific_internal_energy rho0 u0 Gamma r t).
Proof. exact cog5_eos_proof. Qed.
Print Assumptions cog5_eos.
