From Coq Require Import Reals.
From Coquelicot Require Import Coquelicot.
From EP Require Import lib.Base lib.RH lib.Euler gen.Guderley proofs.Guderley_alg proofs.Guderley_time proofs.C01_guderley.
Open Scope R_scope.

(* KNOWN FINDING guderley-lazarus-time-units (C02 form): the solver places the converging shock at r_s(t) = (1 - t/0.750024322)^(1/lambda) (first conjunct); with the
   speed D = d r_s / dt implied by that placement (second conjunct) the returned states on the two sides do not conserve mass - for every gamma, lambda, rho0, t. *)
Theorem guderley_converging_shock_trajectory_refuted :
  forall rho0 gamma lambda_ t : R,
  1 < gamma ->
  rho0 <> 0 ->
  lambda_ <> 0 ->
  t < fC ->
  let r := gud_rs lambda_ t in
  let D := - (1 / fC) * (1 / lambda_) * Rpower (1 - t / fC) (1 / lambda_ - 1) in
  gud_targetx r lambda_ t = -1 /\
  is_derive (gud_rs lambda_) t D /\
  ~
  rh_jump D (gud_ahead_den rho0) gud_ahead_vel gud_ahead_pres gud_ahead_sie (gud_conv_den rho0 (gud_start_R gamma))
  (gud_conv_vel r lambda_ (-1) (gud_start_V gamma)) (gud_conv_pres r rho0 gamma lambda_ (-1) (gud_start_C gamma) (gud_start_R gamma))
  (gud_conv_sie r rho0 gamma lambda_ (-1) (gud_start_C gamma) (gud_start_R gamma)).
Proof. exact guderley_converging_shock_trajectory_refuted_proof. Qed.
Print Assumptions guderley_converging_shock_trajectory_refuted.
