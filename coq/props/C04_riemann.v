From Coq Require Import Reals List.
From Coquelicot Require Import Coquelicot.
From EP Require Import lib.Base lib.SimpleWaveInt lib.Conservation gen.Riemann model.RiemannIG proofs.C04_riemann.
Open Scope R_scope.
Import ListNotations.

(* C04.  dens c / flux c (lib/SimpleWaveInt.v): c = Mass: rho, rho u;  Mom: rho u, rho u^2 + p;
   Ener: rho (e + u^2/2), (rho (e + u^2/2) + p) u.
   sol_dens c pat x is that density formed from the four fields the driver model returns at x;
   balance c = (xd0 - xa) U_L + (xb - xd0) U_R + t (F(U_L) - F(U_R)). *)

Theorem igeos_conservation :
  forall (pl rl ul gl pr rr ur gr px xd0 t xa xb : R) (pat : pattern) (c : comp),
    0 < pl -> 0 < rl -> 1 < gl -> 0 < pr -> 0 < rr -> 1 < gr -> 0 < px -> 0 < t ->
    ~ (pr = pl /\ ur = ul /\ rr = rl) ->
    pat <> RCVCR ->
    ig_call pl rl ul gl pr rr ur gr pat px = 0 ->
    ((pat = RCS \/ pat = RCR) -> px <= pl) ->
    ((pat = SCR \/ pat = RCR) -> px <= pr) ->
    List.Forall (fun Xw => xa <= Xw <= xb) (ig_Xregs pl rl ul gl pr rr ur gr pat px xd0 t) ->
    is_RInt (sol_dens pl rl ul gl pr rr ur gr px xd0 t c pat) xa xb
            (balance pl rl ul gl pr rr ur gr xd0 t xa xb c).
Proof. exact igeos_conservation_proof. Qed.
Print Assumptions igeos_conservation.


(* the same statement with the pattern chosen by the driver's own if/elif chain: no hypothesis on the side of the star pressure
   is left (it is theorem igeos_classification_admissible of C17) *)
Theorem igeos_conservation_classified :
  forall (pl rl ul gl pr rr ur gr px xd0 t xa xb : R) (c : comp),
    0 < pl -> 0 < rl -> 1 < gl -> 0 < pr -> 0 < rr -> 1 < gr -> 0 < px -> 0 < t ->
    ~ (pr = pl /\ ur = ul /\ rr = rl) ->
    let pat := ig_classify pl rl ul gl pr rr ur gr in
    pat <> RCVCR ->
    ig_call pl rl ul gl pr rr ur gr pat px = 0 ->
    List.Forall (fun Xw => xa <= Xw <= xb) (ig_Xregs pl rl ul gl pr rr ur gr pat px xd0 t) ->
    is_RInt (sol_dens pl rl ul gl pr rr ur gr px xd0 t c pat) xa xb
            (balance pl rl ul gl pr rr ur gr xd0 t xa xb c).
Proof. exact igeos_conservation_classified_proof. Qed.
Print Assumptions igeos_conservation_classified.

Theorem conservation_chain :
  forall (ps : list piece) (q0 : piece) (xa xb : R),
    chain q0 ps xa xb -> is_RInt (asm q0 ps) xa xb (pH (last_piece q0 ps) xb - pH q0 xa).
Proof. exact chain_integral. Qed.
Print Assumptions conservation_chain.

(* non-vacuity: a concrete shock-contact-shock problem whose star pressure is an exact root *)
Example igeos_conservation_nonvacuous :
  ig_call 2 (1/2) (1/2) 3 2 (1/2) (-1/2) 3 SCS 3 = 0 /\ ~ ((2:R) = 2 /\ (-1/2:R) = 1/2 /\ (1/2:R) = 1/2).
Proof. exact igeos_nonvacuous_proof. Qed.
