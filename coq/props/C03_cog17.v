From Coq Require Import Reals.
From EP Require Import lib.Base gen.Cog17 proofs.C03_cog17.
Open Scope R_scope.

(* cog17: at every point where the returned expressions are defined (no division by zero, see cog17_defined)
   the returned pressure, density, temperature and specific internal energy satisfy the declared EOS. P = Gamma rho T, e = Gamma T/(gamma-1) *)
Theorem cog17_eos :
  forall geometry gamma alpha beta lambda0 Gamma r t,
  cog17_defined geometry gamma alpha beta lambda0 Gamma r t ->
  cog17_density geometry gamma alpha beta lambda0 Gamma r t <> 0 ->
  gamma - 1 <> 0 ->
  cog17_pressure geometry gamma alpha beta lambda0 Gamma r t = Gamma * (cog17_density geometry gamma alpha beta lambda0 Gamma r t) * (cog17_temperature geometry gamma alpha beta lambda0 Gamma r t) /\
  cog17_specific_internal_energy geometry gamma alpha beta lambda0 Gamma r t = Gamma * (cog17_temperature geometry gamma alpha beta lambda0 Gamma r t) / (gamma - 1) /\
  cog17_pressure geometry gamma alpha beta lambda0 Gamma r t = (gamma - 1) * (cog17_density geometry gamma alpha beta lambda0 Gamma r t) * (cog17_specific_internal_energy geometry gamma alpha beta lambda0 Gamma r t).
Proof. exact cog17_eos_proof. Qed.
Print Assumptions cog17_eos.
