From Coq Require Import Reals.
From Coquelicot Require Import Coquelicot.
From EP Require Import lib.Base lib.Euler lib.RH lib.Euclid gen.Init spec.Restrictions proofs.C20_init.
Open Scope R_scope.

Theorem noh_guards :
  forall geometry gamma u0 rho0 : R, i_Noh geometry gamma u0 rho0 <-> noh_doc_ok geometry gamma u0 rho0.
Proof. exact noh_guards_proof. Qed.
Print Assumptions noh_guards.

Theorem noh2_guards :
  forall geometry gamma rho0 e0 : R,
         i_Noh2 geometry gamma rho0 e0 <-> noh2_doc_ok geometry gamma rho0 e0.
Proof. exact noh2_guards_proof. Qed.
Print Assumptions noh2_guards.

Theorem cog_geometry_guards :
  (forall geometry gamma rho0 temp0 b Gamma : R,
          i_Cog1 geometry gamma rho0 temp0 b Gamma <-> cog_any_geom geometry) /\
         (forall geometry gamma rho0 b Gamma : R, i_Cog2 geometry gamma rho0 b Gamma <-> cog_any_geom geometry) /\
         (forall geometry rho0 b v Gamma : R, i_Cog3 geometry rho0 b v Gamma <-> cog_any_geom geometry) /\
         (forall geometry gamma rho0 u0 Gamma : R,
          i_Cog4 geometry gamma rho0 u0 Gamma <-> cog_any_geom geometry) /\
         (forall geometry rho0 tau b Gamma : R, i_Cog6 geometry rho0 tau b Gamma <-> cog_any_geom geometry) /\
         (forall geometry tau b R0 Ri Gamma : R, i_Cog7 geometry tau b R0 Ri Gamma <-> cog_any_geom geometry) /\
         (forall geometry gamma alpha beta rho0 temp0 Gamma : R,
          i_Cog8 geometry gamma alpha beta rho0 temp0 Gamma <-> cog_any_geom geometry) /\
         (forall geometry gamma alpha beta rho0 Gamma : R,
          i_Cog9 geometry gamma alpha beta rho0 Gamma <-> cog_any_geom geometry) /\
         (forall geometry gamma beta lambda0 rho0 temp0 Gamma : R,
          i_Cog10 geometry gamma beta lambda0 rho0 temp0 Gamma <-> cog_23_geom geometry) /\
         (forall geometry gamma beta rho0 temp0 Gamma : R,
          i_Cog11 geometry gamma beta rho0 temp0 Gamma <-> cog_any_geom geometry) /\
         (forall geometry gamma beta rho0 u0 Gamma : R,
          i_Cog12 geometry gamma beta rho0 u0 Gamma <-> cog_23_geom geometry) /\
         (forall geometry gamma alpha beta lambda0 Gamma : R,
          i_Cog17 geometry gamma alpha beta lambda0 Gamma <-> cog_any_geom geometry).
Proof. exact cog_geometry_guards_proof. Qed.
Print Assumptions cog_geometry_guards.

Theorem cog_special_guards :
  (forall geometry gamma rho0 alpha beta lambda0 Gamma : R,
          i_Cog13 geometry gamma rho0 alpha beta lambda0 Gamma <-> cog13_doc_ok geometry gamma) /\
         (forall geometry gamma u0 b lambda0 Gamma : R,
          i_Cog16 geometry gamma u0 b lambda0 Gamma <-> cog16_doc_ok geometry b) /\
         (forall geometry alpha beta rho0 tau Gamma : R,
          i_Cog18 geometry alpha beta rho0 tau Gamma <-> cog18_doc_ok geometry alpha) /\
         (forall geometry gamma rho0 u0 Gamma : R,
          i_Cog19 geometry gamma rho0 u0 Gamma <-> cog19_doc_ok geometry u0) /\
         (forall geometry gamma rho0 u0 a Gamma : R,
          i_Cog20 geometry gamma rho0 u0 a Gamma <-> cog20_doc_ok geometry a).
Proof. exact cog_special_guards_proof. Qed.
Print Assumptions cog_special_guards.

(* Coggeshall 14: the constructor accepts exactly the parameter sets for which the documented temperature amplitude is a real
   positive number (b / (k - b) > 0; in particular never planar geometry). *)
Theorem cog14_guards : forall geometry gamma rho0 alpha beta lambda0 Gamma,
  i_Cog14 geometry gamma rho0 alpha beta lambda0 Gamma <-> cog14_doc_ok geometry alpha beta.
Proof. exact cog14_guards_proof. Qed.
Print Assumptions cog14_guards.

Theorem ehep_guards :
  forall geometry gamma D_ rho_0 up xtilde xmax tmax : R,
         i_EscapeOfHEProducts geometry gamma D_ rho_0 up xtilde xmax tmax <->
         ehep_doc_ok geometry gamma D_ rho_0 up xtilde xmax tmax.
Proof. exact ehep_guards_proof. Qed.
Print Assumptions ehep_guards.

Theorem sdrz_guards :
  forall geometry D_ rho_0 gamma : R,
         i_SteadyDetonationReactionZone geometry D_ rho_0 gamma <-> sdrz_doc_ok geometry D_ rho_0 gamma.
Proof. exact sdrz_guards_proof. Qed.
Print Assumptions sdrz_guards.

Theorem cylexp_guards :
  forall geometry r_1 r_2 D_CJ_1 D_CJ_2 alpha_1 alpha_2 t_d : R,
         i_CylindricalExpansion geometry r_1 r_2 D_CJ_1 D_CJ_2 alpha_1 alpha_2 t_d <->
         cylexp_doc_ok geometry r_1 r_2 D_CJ_1 D_CJ_2 alpha_1 alpha_2 t_d.
Proof. exact cylexp_guards_proof. Qed.
Print Assumptions cylexp_guards.

Theorem ratestick_guards :
  forall geometry R_ omega_c D_CJ alpha IC r_d t_f xnodes ynodes : R,
         i_RateStick geometry R_ omega_c D_CJ alpha IC r_d t_f xnodes ynodes <->
         ratestick_doc_ok geometry R_ omega_c D_CJ alpha IC r_d t_f xnodes ynodes.
Proof. exact ratestick_guards_proof. Qed.
Print Assumptions ratestick_guards.

Theorem explosivearc_guards :
  forall geometry r_1 r_2 omega_in omega_out x_d D_CJ alpha t_f xnodes ynodes : R,
         i_ExplosiveArc geometry r_1 r_2 omega_in omega_out x_d D_CJ alpha t_f xnodes ynodes <->
         explosivearc_doc_ok geometry r_1 r_2 omega_in omega_out x_d D_CJ alpha t_f xnodes ynodes.
Proof. exact explosivearc_guards_proof. Qed.
Print Assumptions explosivearc_guards.

