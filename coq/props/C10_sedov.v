From Coq Require Import Reals.
From EP Require Import lib.Base gen.Sedov proofs.Sedov_shock.
Open Scope R_scope.

(* Sedov similarity exponents on the regenerated shock radius and post-shock state *)
Theorem sedov_r2_scaling :
  forall lam t rho0 eblast alpha xg2 : R, 0 < lam -> 0 < t ->
  sed_r2 (lam * t) rho0 eblast alpha xg2 = Rpower lam (2 / xg2) * sed_r2 t rho0 eblast alpha xg2.
Proof. exact sedov_r2_scaling_proof. Qed.
Print Assumptions sedov_r2_scaling.

Theorem sedov_amplitudes :
  forall t rho0 eblast alpha omega xg2 gamp1 gpogm : R, 0 < t -> xg2 <> 0 -> gamp1 <> 0 ->
  let r2 := sed_r2 t rho0 eblast alpha xg2 in
  sed_rho2 t rho0 eblast alpha omega xg2 gpogm = gpogm * rho0 * Rpower r2 (- omega) /\
  sed_u2 t rho0 eblast alpha xg2 gamp1 = 4 / (xg2 * gamp1) * (r2 / t) /\
  sed_p2 t rho0 eblast alpha omega xg2 gamp1 = 8 / (xg2 ^ 2 * gamp1) * rho0 * Rpower r2 (- omega) * (r2 / t) ^ 2.
Proof. exact sedov_amplitudes_proof. Qed.
Print Assumptions sedov_amplitudes.
