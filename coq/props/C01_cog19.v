From Coq Require Import Reals.
From Coquelicot Require Import Coquelicot.
From EP Require Import lib.Base lib.Euler gen.Cog19 proofs.C01_cog19.
Open Scope R_scope.

Theorem cog19_post :
  forall geometry gamma rho0 u0 Gamma : R,
         Gamma <> 0 ->
         rho0 <> 0 ->
         forall r t : R,
         0 < r ->
         0 < t ->
         r < cog19_shock gamma u0 t ->
         euler_at (geometry - 1) (cog19_density geometry gamma rho0 u0 Gamma)
           (cog19_velocity geometry gamma rho0 u0 Gamma) (cog19_pressure geometry gamma rho0 u0 Gamma)
           (cog19_specific_internal_energy geometry gamma rho0 u0 Gamma) r t.
Proof. exact cog19_post_proof. Qed.
Print Assumptions cog19_post.

Theorem cog19_pre :
  forall geometry gamma rho0 u0 Gamma : R,
         u0 < 0 ->
         1 < gamma ->
         rho0 <> 0 ->
         forall r t : R,
         0 < r ->
         0 < t ->
         cog19_shock gamma u0 t < r ->
         euler_at (geometry - 1) (cog19_density geometry gamma rho0 u0 Gamma)
           (cog19_velocity geometry gamma rho0 u0 Gamma) (cog19_pressure geometry gamma rho0 u0 Gamma)
           (cog19_specific_internal_energy geometry gamma rho0 u0 Gamma) r t.
Proof. exact cog19_pre_proof. Qed.
Print Assumptions cog19_pre.

