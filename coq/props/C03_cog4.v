From Coq Require Import Reals.
From EP Require Import lib.Base gen.Cog4 proofs.C03_cog4.
Open Scope R_scope.

(* cog4: at every point where the returned expressions are defined (no division by zero, see cog4_defined)
   the returned pressure, density, temperature and specific internal energy satisfy the declared EOS. P = Gamma rho T, e = Gamma T/(gamma-1) *)
Theorem cog4_eos :
  forall geometry gamma rho0 u0 Gamma r t,
  cog4_defined geometry gamma rho0 u0 Gamma r t ->
  cog4_density geometry gamma rho0 u0 Gamma r t <> 0 ->
  gamma - 1 <> 0 ->
  cog4_pressure geometry gamma rho0 u0 Gamma r t = Gamma * (cog4_density geometry gamma rho0 u0 Gamma r t) * (cog4_temperature geometry gamma rho0 u0 Gamma r t) /\
  cog4_specific_internal_energy geometry gamma rho0 u0 Gamma r t = Gamma * (cog4_temperature geometry gamma rho0 u0 Gamma r t) / (gamma - 1) /\
  cog4_pressure geometry gamma rho0 u0 Gamma r t = (gamma - 1) * (cog4_density geometry gamma rho0 u0 Gamma r t) * (cog4_specific_internal_energy geometry gamma rho0 u0 Gamma r t).
Proof. exact cog4_eos_proof. Qed.
Print Assumptions cog4_eos.
