From Coq Require Import Reals.
From Coquelicot Require Import Coquelicot.
From EP Require Import lib.Base lib.Euler lib.RH gen.Riemann proofs.C08_riemann.
Open Scope R_scope.

Theorem calls_units :
  forall pi ro v : R,
         0 < pi ->
         0 < ro ->
         0 < v ->
         v * v = pi / ro ->
         forall px gl gr pl pr rl rr ul ur : R,
         0 < px ->
         0 < pl ->
         0 < pr ->
         0 < rl ->
         0 < rr ->
         1 < gl ->
         1 < gr ->
         rie_SCS_call (pi * px) gl gr (pi * pl) (pi * pr) (ro * rl) (ro * rr) (v * ul) (v * ur) =
         v * rie_SCS_call px gl gr pl pr rl rr ul ur /\
         rie_SCR_call (pi * px) gl gr (pi * pl) (pi * pr) (ro * rl) (ro * rr) (v * ul) (v * ur) =
         v * rie_SCR_call px gl gr pl pr rl rr ul ur /\
         rie_RCS_call (pi * px) gl gr (pi * pl) (pi * pr) (ro * rl) (ro * rr) (v * ul) (v * ur) =
         v * rie_RCS_call px gl gr pl pr rl rr ul ur /\
         rie_RCR_call (pi * px) gl gr (pi * pl) (pi * pr) (ro * rl) (ro * rr) (v * ul) (v * ur) =
         v * rie_RCR_call px gl gr pl pr rl rr ul ur.
Proof. exact calls_units_proof. Qed.
Print Assumptions calls_units.

