From Coq Require Import Reals.
From Coquelicot Require Import Coquelicot.
From EP Require Import lib.Base lib.Series gen.Rectangle proofs.C14_rectangle.
Open Scope R_scope.

(* KNOWN FINDING rectangle-sides-not-insulated: the module documentation declares zero heat flux on the sides x = 0 and x = a; the x-derivative of the returned
   field at x = 0 is not zero (kappa = 1, a = b = 2, Ttop = 1, Nsum = 2, y = 1, t = 1) *)
Theorem rectangle_side_flux_refuted :
  exists d : R_NormedModule, is_derive (fun z : R_AbsRing => rect_temperature 1 2 2 1 (INR 2) z 1 1) 0 d /\ d <> 0.
Proof. exact rectangle_side_flux_refuted_proof. Qed.
Print Assumptions rectangle_side_flux_refuted.
