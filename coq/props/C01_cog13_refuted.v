From Coq Require Import Reals.
From Coquelicot Require Import Coquelicot.
From EP Require Import lib.Base lib.Euler gen.Cog13 proofs.C01_cog13.
Open Scope R_scope.

Theorem cog13_energy_refuted :
  let geometry := cog13_default_geometry in
         let gamma := cog13_default_gamma in
         let rho0 := cog13_default_rho0 in
         let alpha := cog13_default_alpha in
         let beta := cog13_default_beta in
         let lambda0 := cog13_default_lambda0 in
         let Gamma := cog13_default_Gamma in
         let r := 1 in
         let t := 1 in
         cog13_init_ok geometry gamma rho0 alpha beta lambda0 Gamma /\
         ~
         (exists F : R -> R -> R,
            is_heat_flux (cog_K0 lambda0) alpha beta
              (cog13_density geometry gamma rho0 alpha beta lambda0 Gamma)
              (cog13_temperature geometry gamma rho0 alpha beta lambda0 Gamma) F t /\
            energy_eq (geometry - 1) (cog13_density geometry gamma rho0 alpha beta lambda0 Gamma)
              (cog13_velocity geometry gamma rho0 alpha beta lambda0 Gamma)
              (cog13_pressure geometry gamma rho0 alpha beta lambda0 Gamma)
              (cog13_specific_internal_energy geometry gamma rho0 alpha beta lambda0 Gamma) F r t).
Proof. exact cog13_energy_refuted_proof. Qed.
Print Assumptions cog13_energy_refuted.

