From Coq Require Import Reals.
From Coquelicot Require Import Coquelicot.
From EP Require Import lib.Base lib.Euler gen.Cog17 proofs.C01_cog17.
Open Scope R_scope.

Theorem cog17_momentum :
  forall geometry gamma alpha beta lambda0 Gamma r t : R,
         0 < r ->
         0 < t ->
         gamma <> 1 ->
         Gamma <> 0 ->
         alpha <> 1 ->
         2 * beta - 4 + (1 - alpha) * (geometry - 1 + 1) <> 0 ->
         2 * beta - 4 + 2 * (1 - alpha) <> 0 ->
         0 < cog17_density geometry gamma alpha beta lambda0 Gamma r t ->
         momentum_eq (cog17_density geometry gamma alpha beta lambda0 Gamma)
           (cog17_velocity geometry gamma alpha beta lambda0 Gamma)
           (cog17_pressure geometry gamma alpha beta lambda0 Gamma) r t.
Proof. exact cog17_momentum_proof. Qed.
Print Assumptions cog17_momentum.

