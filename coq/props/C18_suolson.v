From Coq Require Import Reals.
From Coquelicot Require Import Coquelicot.
From EP Require Import lib.Base gen.SuOlson proofs.C18_suolson.
Open Scope R_scope.

(* C18.  FULL statement: the functions u, v obtained from the returned temperatures satisfy eps u_t = u_xx + (v - u), v_t = u - v,
   the Marshak condition u - (2/sqrt 3) u_x = 1 at x = 0 and decay as x -> infinity.
   PROVED: the transform solution coded in timmes.py is  u = 1 + sum over three families of  weight x integral over eta of
   A(eta) exp(s tau) sin(gamma x + theta)  (combine_linear, the is_mode lemmas); every such mode, for every eta inside the clamps and every
   eps > 0, satisfies the two equations together with its material partner U/(1+s) (mode_solves_system + the three dispersion
   theorems on the generated gamma functions), satisfies the homogeneous Marshak condition (mode_marshak + theta_is_marshak_phase; the constant
   1 supplies the inhomogeneous part), and the v-quadratures carry exactly the material partners (family2_partner, family13_partner);
   the dimensionalisation of so_wave is the documented one (so_wave_arguments, so_wave_temperatures).
   MISSING (hence `suolson_pde_partial` for the assembled statement): differentiation under the improper oscillatory integrals and
   their convergence (no dominated-convergence theorem for such integrals in Coquelicot); accuracy of quad / brentq and of the
   splitting at the zeros; behaviour inside the 1e-14 clamps. The oracle checks the assembled PDE on the real code. *)

Theorem suolson_mode_solves_system :
  forall eps s g th x t : R, 1 + s <> 0 -> g * g = - (eps * s + s / (1 + s)) ->
  exists ut ux uxx vt,
    is_derive (fun y => mode_u s g th x y) t ut /\ is_derive (fun y => mode_u s g th y t) x ux /\
    is_derive (fun y => g * (exp (s * t) * cos (g * y + th))) x uxx /\ ux = g * (exp (s * t) * cos (g * x + th)) /\
    is_derive (fun y => mode_v s g th x y) t vt /\
    eps * ut = uxx + (mode_v s g th x t - mode_u s g th x t) /\ vt = mode_u s g th x t - mode_v s g th x t.
Proof. exact mode_solves_system. Qed.
Print Assumptions suolson_mode_solves_system.

Theorem suolson_mode_marshak :
  forall s g th t : R, 0 <= g -> th = acos (sqrt (3 / (3 + 4 * g ^ 2))) ->
  mode_u s g th 0 t - 2 / sqrt 3 * (g * (exp (s * t) * cos (g * 0 + th))) = 0.
Proof. exact mode_marshak. Qed.
Print Assumptions suolson_mode_marshak.

Theorem suolson_dispersion :
  forall eta eps : R, inside eta -> 0 < eps ->
  (0 <= so_gamma_one eta eps /\ so_gamma_one eta eps * so_gamma_one eta eps = - (eps * s_one eta + s_one eta / (1 + s_one eta)) /\ 1 + s_one eta <> 0) /\
  (0 <= so_gamma_two eta eps /\ so_gamma_two eta eps * so_gamma_two eta eps = - (eps * s_two eta eps + s_two eta eps / (1 + s_two eta eps)) /\ 1 + s_two eta eps <> 0) /\
  (0 <= so_gamma_three eta eps /\ so_gamma_three eta eps * so_gamma_three eta eps = - (eps * s_three eta + s_three eta / (1 + s_three eta)) /\ 1 + s_three eta <> 0).
Proof. intros eta eps Hin He. split; [ apply gamma_one_dispersion | split; [ apply gamma_two_dispersion | apply gamma_three_dispersion ] ]; assumption. Qed.
Print Assumptions suolson_dispersion.

Theorem suolson_phases :
  forall eta eps : R,
  so_theta_one eta eps = acos (sqrt (3 / (3 + 4 * so_gamma_one eta eps ^ 2))) /\
  so_theta_two eta eps = acos (sqrt (3 / (3 + 4 * so_gamma_two eta eps ^ 2))) /\
  so_theta_three eta eps = acos (sqrt (3 / (3 + 4 * so_gamma_three eta eps ^ 2))).
Proof. exact theta_is_marshak_phase. Qed.
Print Assumptions suolson_phases.

Theorem suolson_integrands_are_modes :
  forall eta x tau eps : R,
  so_upart1 eta x tau eps = mode_u (s_one eta) (so_gamma_one eta eps) (so_theta_one eta eps) x tau
                            / Rmax (1 / 100000000000000) (eta * sqrt (3 + 4 * so_gamma_one eta eps ^ 2)) /\
  (tiny14 <= eta * eps ->
   exp (- tau) * so_upart2 eta x tau eps = mode_u (s_two eta eps) (so_gamma_two eta eps) (so_theta_two eta eps) x tau
                            / Rmax (1 / 100000000000000) (eta * (1 + eps * eta) * sqrt (3 + 4 * so_gamma_two eta eps ^ 2))) /\
  so_vpart1 eta x tau eps = mode_u (s_three eta) (so_gamma_three eta eps) (so_theta_three eta eps) x tau
                            / Rmax (1 / 100000000000000) (sqrt (4 - eta * eta + 4 * eps * (eta * eta) * (1 - eta * eta))).
Proof. intros. split; [ apply upart1_is_mode | split; [ apply upart2_is_mode | apply vpart1_is_mode ] ]. Qed.
Print Assumptions suolson_integrands_are_modes.

Theorem suolson_combination :
  forall uans sum1 sum2 tau : R,
  so_usolution_combine sum1 sum2 tau = 1 + (- 2 * rt3opi) * sum1 + (- rt3opi) * (exp (- tau) * sum2) /\
  so_vsolution_combine uans sum1 sum2 tau = uans + (- 2 * rt3opi) * sum1 + rt3opi * (exp (- tau) * sum2).
Proof. exact combine_linear. Qed.
Print Assumptions suolson_combination.

Theorem suolson_family2_partner :
  forall eta x tau eps : R, inside eta -> 0 < eps ->
  tiny14 <= eta * sqrt (3 + 4 * so_gamma_two eta eps ^ 2) ->
  let U := (- rt3opi) * (exp (- tau) * so_upart2 eta x tau eps) in
  rt3opi * (exp (- tau) * so_vpart2 eta x tau eps) = U / (1 + s_two eta eps) - U.
Proof. exact family2_partner. Qed.
Print Assumptions suolson_family2_partner.

Theorem suolson_family13_partner :
  forall eta3 x tau eps : R, inside eta3 -> inside (sqrt (1 - eta3 * eta3)) -> 0 < eps ->
  tiny14 <= sqrt (4 - eta3 * eta3 + 4 * eps * (eta3 * eta3) * (1 - eta3 * eta3)) ->
  tiny14 <= sqrt (1 - eta3 * eta3) * sqrt (3 + 4 * so_gamma_one (sqrt (1 - eta3 * eta3)) eps ^ 2) ->
  let eta1 := sqrt (1 - eta3 * eta3) in
  s_one eta1 = s_three eta3 /\ so_gamma_one eta1 eps = so_gamma_three eta3 eps /\ so_theta_one eta1 eps = so_theta_three eta3 eps /\
  so_vpart1 eta3 x tau eps = so_upart1 eta1 x tau eps * (1 / (1 + s_one eta1) - 1) * (eta3 / eta1).
Proof. exact family13_partner. Qed.
Print Assumptions suolson_family13_partner.

Theorem suolson_dimensionalisation :
  forall time zpos opac alpha : R, alpha <> 0 ->
  so_wave_epsilon alpha = 4 * asol / alpha /\
  so_wave_tau time opac alpha = 4 * asol * clight * opac * time / alpha /\
  (exists rt3, so_wave_xpos zpos opac = rt3 * opac * zpos /\ Rabs (rt3 - sqrt 3) <= 1 / 1000000000000000).
Proof. exact so_wave_arguments. Qed.
Print Assumptions suolson_dimensionalisation.

Theorem suolson_temperatures :
  forall tbc uans vans : R, 0 < tbc -> 0 < uans -> 0 < vans ->
  asol * (so_wave_trad_ev tbc uans / kev) ^ 4 = uans * (asol * (tbc / kev) ^ 4) /\
  asol * (so_wave_tmat_ev tbc vans / kev) ^ 4 = vans * (asol * (tbc / kev) ^ 4) /\
  so_wave_erad tbc uans = uans * (asol * (tbc / kev) ^ 4).
Proof. exact so_wave_temperatures. Qed.
Print Assumptions suolson_temperatures.

(* non-vacuity: eta = 1/2 lies inside the clamps and meets the amplitude side conditions for eps = 1 *)
Example suolson_inside_nonempty : inside (1 / 2) /\ inside (sqrt (1 - 1 / 2 * (1 / 2))).
Proof. exact inside_example. Qed.
