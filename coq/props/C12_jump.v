From Coq Require Import Reals.
From EP Require Import lib.Base gen.RadShock proofs.C12_jump.
Open Scope R_scope.

(* the two residuals handed to fsolve in RadShockProfile.downstream_equilibrium vanish at (rho, T) exactly when the state (rho, speed M0/rho, T) has the same total momentum
   flux and total energy flux (gas + radiation) as the upstream state (1, M0, 1): the far-downstream state is related to the far-upstream state by the radiation-modified jump conditions *)
Theorem radshock_downstream_is_jump :
  forall M0 gamma P0 rho T : R,
  rho <> 0 ->
  gamma <> 0 ->
  gamma - 1 <> 0 ->
  M0 <> 0 ->
  rs_down_momentum M0 gamma P0 rho T = 0 /\ rs_down_energy M0 gamma P0 rho T = 0 <->
  nd_momentum gamma P0 rho (M0 / rho) T = nd_momentum gamma P0 1 M0 1 /\ nd_energy gamma P0 rho (M0 / rho) T = nd_energy gamma P0 1 M0 1.
Proof. exact radshock_downstream_is_jump_proof. Qed.
Print Assumptions radshock_downstream_is_jump.

(* attributes computed from the root: mass flux rho1 speed1 = M0, Mach number M1 = speed1 / sqrt(T1), radiation energy T1^4 and pressure Er1 / 3 *)
Theorem radshock_downstream_attributes :
  forall M0 rho1 T1 : R,
  rho1 <> 0 ->
  0 < T1 ->
  nd_mass (rs_down_rho1 rho1) (rs_down_speed1 M0 rho1) = nd_mass 1 M0 /\
  rs_down_M1 M0 rho1 T1 * sqrt (rs_down_T1 T1) = rs_down_speed1 M0 rho1 /\
  rs_down_Er1 T1 = rs_down_T1 T1 ^ 4 /\ rs_down_Pr1 T1 = rs_down_Er1 T1 / 3.
Proof. exact radshock_downstream_attributes_proof. Qed.
Print Assumptions radshock_downstream_attributes.

(* the non-dimensional fluxes are the physical ones (rho_p = rho0 rho, v_p = c0 v, T_p = Tref T, ideal gas with Cv, radiation constant a_r) divided by rho0 c0, rho0 c0^2, rho0 c0^3,
   with c0 = self.sound and P0 = self.P0 as coded in RadShock.__init__; c0^2 = gamma (gamma - 1) Cv Tref *)
Theorem radshock_physical_fluxes :
  forall Cv Tref gamma rho0 rho v T : R,
  0 < Cv ->
  0 < Tref ->
  1 < gamma ->
  0 < rho0 ->
  let c0 := rs_sound Cv Tref gamma in
  let P0 := rs_P0 Cv Tref gamma rho0 in
  c0 ^ 2 = gamma * (gamma - 1) * Cv * Tref /\
  rho0 * rho * (c0 * v) = rho0 * c0 * nd_mass rho v /\
  rho0 * rho * (c0 * v) ^ 2 + (gamma - 1) * (rho0 * rho) * Cv * (Tref * T) + rs_const_ar * (Tref * T) ^ 4 / 3 =
  rho0 * c0 ^ 2 * nd_momentum gamma P0 rho v T /\
  c0 * v *
  (rho0 * rho * ((c0 * v) ^ 2 / 2 + Cv * (Tref * T)) + (gamma - 1) * (rho0 * rho) * Cv * (Tref * T) + rs_const_ar * (Tref * T) ^ 4 +
  rs_const_ar * (Tref * T) ^ 4 / 3) = rho0 * c0 ^ 3 * nd_energy gamma P0 rho v T.
Proof. exact radshock_physical_fluxes_proof. Qed.
Print Assumptions radshock_physical_fluxes.
