From Coq Require Import Reals.
From Coquelicot Require Import Coquelicot.
From EP Require Import lib.Base lib.Euler gen.Ehep proofs.C01_ehep.
Open Scope R_scope.

(* Escape of HE products: the fields of regions I, III, IV, V as coded, and of region II where its clamped sound speed is positive,
   satisfy the planar Euler equations (mass, momentum, energy with e = p / rho / (gamma - 1), gamma = 3). *)
Theorem ehep_region_I_euler :
  forall D rho_0 gamma x t : R, 0 < D -> 0 < rho_0 -> gamma = 3 -> 0 < t -> x <> 0 -> 0 < ehep_I_cs x t D ->
  euler_at 0 (fun x t => ehep_I_rho x t D rho_0) (fun x t => ehep_I_u x t D) (fun x t => ehep_I_p x t D rho_0)
             (e_of gamma (fun x t => ehep_I_p x t D rho_0) (fun x t => ehep_I_rho x t D rho_0)) x t.
Proof. intros D rho_0 gamma x t HD Hr Hg. exact (ehep_I_euler D rho_0 gamma HD Hr Hg x t). Qed.
Print Assumptions ehep_region_I_euler.

Theorem ehep_region_II_euler :
  forall D rho_0 xtilde ttilde gamma x t : R, 0 < D -> 0 < rho_0 -> gamma = 3 -> t <> 0 -> t - ttilde <> 0 -> x <> 0 -> 0 < cs2 xtilde ttilde x t ->
  (ehep_II_cs x t xtilde ttilde = cs2 xtilde ttilde x t /\ ehep_II_rho x t D rho_0 xtilde ttilde = rho2u D rho_0 xtilde ttilde x t /\
   ehep_II_p x t D rho_0 xtilde ttilde = p2u D rho_0 xtilde ttilde x t) /\
  euler_at 0 (rho2u D rho_0 xtilde ttilde) (fun x t => ehep_II_u x t xtilde ttilde) (p2u D rho_0 xtilde ttilde)
             (e_of gamma (p2u D rho_0 xtilde ttilde) (rho2u D rho_0 xtilde ttilde)) x t.
Proof.
  intros D rho_0 xtilde ttilde gamma x t HD Hr Hg Ht Hd Hx Hc. split.
  - apply ehep_II_unclamped. apply Rlt_le. exact Hc.
  - exact (ehep_II_euler D rho_0 xtilde ttilde gamma HD Hr Hg x t Ht Hd Hx Hc).
Qed.
Print Assumptions ehep_region_II_euler.

Theorem ehep_region_III_euler :
  forall D rho_0 up gamma x t : R, 0 < D -> 0 < rho_0 -> gamma = 3 -> x <> 0 -> 0 < ehep_III_cs D up ->
  euler_at 0 (fun _ _ => ehep_III_rho D rho_0 up) (fun _ _ => ehep_III_u up) (fun _ _ => ehep_III_p D rho_0 up)
             (e_of gamma (fun _ _ => ehep_III_p D rho_0 up) (fun _ _ => ehep_III_rho D rho_0 up)) x t.
Proof. intros D rho_0 up gamma x t HD Hr Hg. exact (ehep_III_euler D rho_0 up gamma HD Hr Hg x t). Qed.
Print Assumptions ehep_region_III_euler.

Theorem ehep_region_IV_euler :
  forall D rho_0 up xtilde gamma x t : R, 0 < D -> 0 < rho_0 -> gamma = 3 -> x <> 0 -> D * t - xtilde <> 0 -> 0 < ehep_IV_cs x t D up xtilde ->
  euler_at 0 (fun x t => ehep_IV_rho x t D rho_0 up xtilde) (fun x t => ehep_IV_u x t D up xtilde) (fun x t => ehep_IV_p x t D rho_0 up xtilde)
             (e_of gamma (fun x t => ehep_IV_p x t D rho_0 up xtilde) (fun x t => ehep_IV_rho x t D rho_0 up xtilde)) x t.
Proof. intros D rho_0 up xtilde gamma x t HD Hr Hg. exact (ehep_IV_euler D rho_0 up xtilde gamma HD Hr Hg x t). Qed.
Print Assumptions ehep_region_IV_euler.

Theorem ehep_region_V_euler :
  forall D rho_0 up ttilde gamma x t : R, 0 < D -> 0 < rho_0 -> gamma = 3 -> x <> 0 -> t - ttilde <> 0 -> 0 < ehep_V_cs t D up ttilde ->
  euler_at 0 (fun x t => ehep_V_rho t D rho_0 up ttilde) (fun x t => ehep_V_u x t up ttilde) (fun x t => ehep_V_p t D rho_0 up ttilde)
             (e_of gamma (fun x t => ehep_V_p t D rho_0 up ttilde) (fun x t => ehep_V_rho t D rho_0 up ttilde)) x t.
Proof. intros D rho_0 up ttilde gamma x t HD Hr Hg. exact (ehep_V_euler D rho_0 up ttilde gamma HD Hr Hg x t). Qed.
Print Assumptions ehep_region_V_euler.

(* regions join continuously along the separating characteristics *)
Theorem ehep_region_boundaries :
  forall D up xtilde ttilde t : R, t <> 0 -> t - ttilde <> 0 -> ttilde = xtilde / D ->
  (let x := (2 * up + D / 2) * t in ehep_I_cs x t D = ehep_III_cs D up /\ ehep_I_u x t D = ehep_III_u up) /\
  (let x := xtilde - D / 2 * (t - ttilde) in ehep_I_cs x t D = cs2 xtilde ttilde x t /\ ehep_I_u x t D = ehep_II_u x t xtilde ttilde).
Proof.
  intros D up xtilde ttilde t Ht Hd Htt. split.
  - exact (ehep_I_III_boundary D up t Ht).
  - exact (ehep_I_II_boundary D xtilde ttilde t Ht Hd Htt).
Qed.
Print Assumptions ehep_region_boundaries.
