From Coq Require Import Reals.
From Coquelicot Require Import Coquelicot.
From EP Require Import lib.Base lib.Euler lib.RH gen.Noh1 gen.Noh2 gen.Cog1 gen.Cog19 spec.Restrictions proofs.C20_defined.
Open Scope R_scope.

Theorem noh_defined :
  forall geometry gamma u0 rho0 r t : R,
         noh_doc_ok geometry gamma u0 rho0 ->
         1 < gamma -> 0 < r -> 0 < t -> noh_defined geometry gamma u0 rho0 r t.
Proof. exact noh_defined_proof. Qed.
Print Assumptions noh_defined.

Theorem noh2_defined :
  forall geometry gamma rho0 e0 r t : R,
         noh2_doc_ok geometry gamma rho0 e0 -> t < 1 -> noh2_defined geometry gamma rho0 e0 r t.
Proof. exact noh2_defined_proof. Qed.
Print Assumptions noh2_defined.

Theorem cog1_defined :
  forall geometry gamma rho0 temp0 b Gamma r t : R,
         cog_any_geom geometry ->
         gamma <> 1 -> rho0 <> 0 -> 0 < r -> 0 < t -> cog1_defined geometry gamma rho0 temp0 b Gamma r t.
Proof. exact cog1_defined_proof. Qed.
Print Assumptions cog1_defined.

Theorem cog19_defined :
  forall geometry gamma rho0 u0 Gamma r t : R,
         cog19_doc_ok geometry u0 ->
         1 < gamma ->
         rho0 <> 0 -> Gamma <> 0 -> 0 < r -> 0 < t -> cog19_defined geometry gamma rho0 u0 Gamma r t.
Proof. exact cog19_defined_proof. Qed.
Print Assumptions cog19_defined.

