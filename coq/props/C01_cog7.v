From Coq Require Import Reals.
From EP Require Import lib.Euler gen.Cog7 proofs.C01_cog7.
Open Scope R_scope.

(* Coggeshall 7: the returned fields satisfy the documented conservation equations at every point where
   the nested powers of the coded formulas are defined (cog7_hyps), every geometry value, b, R0, Ri, tau.  *)
Theorem cog7_pde :
  forall geometry tau b R0 Ri Gamma r t, cog7_hyps geometry tau b R0 Ri Gamma r t ->
  euler_at (geometry - 1)
    (cog7_density geometry tau b R0 Ri Gamma) (cog7_velocity geometry tau b R0 Ri Gamma)
    (cog7_pressure geometry tau b R0 Ri Gamma) (cog7_specific_internal_energy geometry tau b R0 Ri Gamma) r t.
Proof. exact cog7_pde_proof. Qed.
Print Assumptions cog7_pde.

Example cog7_hyps_satisfiable : cog7_hyps 3 (5/4) (6/5) 2 (1/10) 40 1 (1/2).
Proof. exact cog7_hyps_example. Qed.
