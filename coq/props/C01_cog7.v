From Coq Require Import Reals.
From EP Require Import lib.Euler gen.Cog7 proofs.C01_cog7.
Open Scope R_scope.

(* Coggeshall 7: the returned fields satisfy the documented conservation equations.  *)
Theorem cog7_pde :
  forall geometry tau b R0 Ri Gamma r t,
  0 < r -> 0 < t -> t < tau -> 0 < tau -> 0 < Ri -> 0 < R0 -> 0 < Gamma -> geometry = 1 \/ geometry = 2 \/ geometry = 3 -> 0 < Rpower (r / sqrt (tau ^ 2 - t ^ 2)) (2 - b / ((geometry - 1 + 3) / (geometry - 1 + 1))) - Rpower (Ri / tau) (2 - b / ((geometry - 1 + 3) / (geometry - 1 + 1))) -> 0 < Rpower R0 (2 - b / ((geometry - 1 + 3) / (geometry - 1 + 1))) - Rpower Ri (2 - b / ((geometry - 1 + 3) / (geometry - 1 + 1))) -> 2 * ((geometry - 1 + 3) / (geometry - 1 + 1)) - b <> 0 ->
  euler_at (geometry - 1)
    (cog7_density geometry tau b R0 Ri Gamma)
    (cog7_velocity geometry tau b R0 Ri Gamma)
    (cog7_pressure geometry tau b R0 Ri Gamma)
    (cog7_specific_internal_energy geometry tau b R0 Ri Gamma) r t.
Proof. exact cog7_pde_proof. Qed.
Print Assumptions cog7_pde.
