From Coq Require Import Reals.
From Coquelicot Require Import Coquelicot.
From EP Require Import lib.Base lib.Euler lib.RH lib.RH gen.Riemann model.RiemannIG proofs.Riemann_shock proofs.Riemann_sym.
Open Scope R_scope.

Theorem igeos_left_shock_rh :
  forall pl rl ul gl px : R,
         0 < pl ->
         0 < rl ->
         1 < gl ->
         0 < px ->
         rh_jump (rie_shock_velocityL px gl pl rl ul) rl ul pl (rie_sie pl rl gl)
           (rie_rho_star_shock px pl rl gl) (ul + -1 * rie_shock px pl rl 0 gl) px
           (rie_sie px (rie_rho_star_shock px pl rl gl) gl).
Proof. exact igeos_left_shock_rh_proof. Qed.
Print Assumptions igeos_left_shock_rh.

Theorem igeos_right_shock_rh :
  forall pl rl ul pr rr ur gr px : R,
         0 < pr ->
         0 < rr ->
         1 < gr ->
         0 < px ->
         ~ (pr = pl /\ ur = ul /\ rr = rl) ->
         rh_jump (rie_shock_velocityR px gr pl pr rl rr ul ur) (rie_rho_star_shock px pr rr gr)
           (ur + rie_shock px pr rr 0 gr) px (rie_sie px (rie_rho_star_shock px pr rr gr) gr) rr ur pr
           (rie_sie pr rr gr).
Proof. exact igeos_right_shock_rh_proof. Qed.
Print Assumptions igeos_right_shock_rh.

Theorem igeos_contact :
  forall (pl rl ul gl pr rr gr : R) (pat : pattern) (px e1 e2 x : R),
         f_p (star1 pl rl ul gl pat px e1) x = f_p (star2 pl rl ul gl pr rr gr pat px e2) x /\
         f_u (star1 pl rl ul gl pat px e1) x = f_u (star2 pl rl ul gl pr rr gr pat px e2) x.
Proof. exact igeos_contact_proof. Qed.
Print Assumptions igeos_contact.

Theorem igeos_left_fan_head :
  forall xd0 t pl rl ul gl : R,
         0 < t ->
         0 < pl ->
         0 < rl ->
         1 < gl ->
         let x := xd0 + t * (ul - rie_sound_speed pl rl gl) in
         rie_fanL_rho x xd0 t gl pl rl ul = rl /\
         rie_fanL_p x xd0 t gl pl rl ul = pl /\ rie_fanL_u x xd0 t gl pl rl ul = ul.
Proof. exact igeos_left_fan_head_proof. Qed.
Print Assumptions igeos_left_fan_head.

