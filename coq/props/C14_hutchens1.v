From Coq Require Import Reals.
From Coquelicot Require Import Coquelicot.
From EP Require Import lib.Base lib.Series gen.Hutchens1 proofs.C14_hutchens1.
Open Scope R_scope.

(* Hutchens 1, every Nsum: at every r <> 0 the returned temperature has r-derivative Tr (near r), second derivative Trr and time derivative Tt with
   Tt = k / (rho cp) (Trr + 2 Tr / r): the spherically symmetric heat equation *)
Theorem hutchens1_heat_equation :
  forall k cp rho b Tb T0 Nsum : R,
  b <> 0 ->
  forall r t : R,
  r <> 0 ->
  exists (Tr : R -> R) (Trr Tt : R),
  locally r (fun y : R_UniformSpace => is_derive (fun z : R_AbsRing => h1_temperature T0 Tb b cp k rho Nsum z t) y (Tr y)) /\
  is_derive Tr r Trr /\
  is_derive (fun s : R_AbsRing => h1_temperature T0 Tb b cp k rho Nsum r s) t Tt /\ Tt = k / (rho * cp) * (Trr + 2 / r * Tr r).
Proof. exact hutchens1_heat_equation_proof. Qed.
Print Assumptions hutchens1_heat_equation.

(* Hutchens 1, every Nsum: the surface r = b is held at Tb for all t *)
Theorem hutchens1_boundary :
  forall k cp rho b Tb T0 Nsum : R, b <> 0 -> forall t : R, h1_temperature T0 Tb b cp k rho Nsum b t = Tb.
Proof. exact hutchens1_boundary_proof. Qed.
Print Assumptions hutchens1_boundary.

(* Hutchens 1, every Nsum: the value returned at r = 0 (separate branch of np.where) is the limit of the values at r <> 0 as r -> 0 *)
Theorem hutchens1_centre :
  forall k cp rho b Tb T0 Nsum t : R,
  filterlim (fun r : R => h1_temperature T0 Tb b cp k rho Nsum r t) (locally' 0) (locally (h1_temperature T0 Tb b cp k rho Nsum 0 t)).
Proof. exact hutchens1_centre_proof. Qed.
Print Assumptions hutchens1_centre.
