From Coq Require Import Reals.
From EP Require Import gen.Piston proofs.C17_piston.
Open Scope R_scope.

(* Elastic-plastic piston: the plastic wave is compressive (density behind it exceeds the density at yield) for every piston speed between the
   particle velocity behind the elastic precursor and the plastic wave speed, and a compressive precursor moves the material forward. *)
Theorem piston_waves_compressive : forall gamma c0 s0 Y rho0 up rho_y wv_pl,
  0 < rho_y ->
  (epp_vel_y gamma c0 s0 Y rho0 rho_y < up -> up < wv_pl -> rho_y < epp_rho2 gamma c0 s0 Y rho0 up rho_y wv_pl) /\
  (rho0 <= rho_y -> 0 <= epp_vel_y gamma c0 s0 Y rho0 rho_y).
Proof. exact piston_waves_compressive_proof. Qed.
Print Assumptions piston_waves_compressive.
