From Coq Require Import Reals.
From EP Require Import lib.Base gen.Ehep proofs.C01_ehep.
Open Scope R_scope.

(* detonation front x = D t of the EHEP problem: region I returns the Chapman-Jouguet state of a gamma = 3 gas; mass and momentum
   are conserved across the front with the explosive at rest (the heat of reaction is not part of the output, so the energy
   relation is not observable), and the flow behind it is sonic relative to the front *)
Theorem ehep_front :
  forall D rho_0 t : R, 0 < D -> t <> 0 ->
  let x := D * t in
  (ehep_I_u x t D = D / 4 /\ ehep_I_cs x t D = 3 * D / 4 /\ ehep_I_rho x t D rho_0 = 4 / 3 * rho_0 /\ ehep_I_p x t D rho_0 = rho_0 * D ^ 2 / 4) /\
  ehep_I_rho x t D rho_0 * (ehep_I_u x t D - D) = rho_0 * (0 - D) /\
  ehep_I_rho x t D rho_0 * (ehep_I_u x t D - D) * ehep_I_u x t D + ehep_I_p x t D rho_0 = rho_0 * (0 - D) * 0 + 0 /\
  ehep_I_u x t D + ehep_I_cs x t D = D.
Proof.
  intros D rho_0 t HD Ht x. split; [ exact (ehep_front_cj D rho_0 HD t Ht) | exact (ehep_front_rh D rho_0 HD t Ht) ].
Qed.
Print Assumptions ehep_front.

(* C03: gamma-law energy and c^2 = 3 p / rho, isentropic (p / rho^3 constant) in every region; C10: region I depends on x/t only;
   C17: pressure and density non-negative whenever the sound speed is *)
Theorem ehep_eos_all_regions :
  forall D rho_0 up xtilde ttilde gamma x t : R, 0 < D -> 0 < rho_0 -> gamma = 3 ->
  (forall p rho, rho <> 0 -> p = (gamma - 1) * rho * ehep_sie gamma p rho) /\
  (forall cs, 0 < cs -> let p := 16 / 27 * rho_0 * D ^ 2 * (cs / D) ^ 3 in let rho := 16 / 9 * rho_0 * cs / D in
      cs ^ 2 = 3 * p / rho /\ p / rho ^ 3 = 16 / 27 * rho_0 * D ^ 2 / D ^ 3 / (16 / 9 * rho_0 / D) ^ 3) /\
  (forall cs, 0 <= cs -> 0 <= 16 / 27 * rho_0 * D ^ 2 * (cs / D) ^ 3 /\ 0 <= 16 / 9 * rho_0 * cs / D) /\
  (ehep_I_p x t D rho_0 = 16 / 27 * rho_0 * D ^ 2 * (ehep_I_cs x t D / D) ^ 3 /\ ehep_I_rho x t D rho_0 = 16 / 9 * rho_0 * ehep_I_cs x t D / D /\
   ehep_II_p x t D rho_0 xtilde ttilde = 16 / 27 * rho_0 * D ^ 2 * (ehep_II_cs x t xtilde ttilde / D) ^ 3 /\
   ehep_II_rho x t D rho_0 xtilde ttilde = 16 / 9 * rho_0 * ehep_II_cs x t xtilde ttilde / D /\
   ehep_III_p D rho_0 up = 16 / 27 * rho_0 * D ^ 2 * (ehep_III_cs D up / D) ^ 3 /\ ehep_III_rho D rho_0 up = 16 / 9 * rho_0 * ehep_III_cs D up / D /\
   ehep_IV_p x t D rho_0 up xtilde = 16 / 27 * rho_0 * D ^ 2 * (ehep_IV_cs x t D up xtilde / D) ^ 3 /\
   ehep_IV_rho x t D rho_0 up xtilde = 16 / 9 * rho_0 * ehep_IV_cs x t D up xtilde / D /\
   ehep_V_p t D rho_0 up ttilde = 16 / 27 * rho_0 * D ^ 2 * (ehep_V_cs t D up ttilde / D) ^ 3 /\
   ehep_V_rho t D rho_0 up ttilde = 16 / 9 * rho_0 * ehep_V_cs t D up ttilde / D).
Proof.
  intros D rho_0 up xtilde ttilde gamma x t HD Hr Hg.
  split; [ exact (ehep_eos gamma Hg) | ]. split; [ exact (ehep_sound_speed D rho_0 HD Hr) | ].
  split; [ exact (ehep_positive D rho_0 HD Hr) | exact (ehep_p_rho_of_cs D rho_0 up xtilde ttilde x t) ].
Qed.
Print Assumptions ehep_eos_all_regions.

Theorem ehep_region_I_selfsimilar :
  forall D rho_0 lam x t : R, lam <> 0 -> t <> 0 ->
  ehep_I_cs (lam * x) (lam * t) D = ehep_I_cs x t D /\ ehep_I_u (lam * x) (lam * t) D = ehep_I_u x t D /\
  ehep_I_p (lam * x) (lam * t) D rho_0 = ehep_I_p x t D rho_0 /\ ehep_I_rho (lam * x) (lam * t) D rho_0 = ehep_I_rho x t D rho_0.
Proof. exact ehep_I_selfsimilar. Qed.
Print Assumptions ehep_region_I_selfsimilar.
