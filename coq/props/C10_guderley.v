From Coq Require Import Reals.
From Coquelicot Require Import Coquelicot.
From EP Require Import lib.Base lib.RH gen.Guderley proofs.Guderley_alg.
Open Scope R_scope.

(* Guderley: at equal similarity coordinate x (and therefore equal y0, y1, y2) the fields at radius s r are the fields at r times the documented
   powers: density 1, velocity and sound speed s^(1-lambda), pressure and specific internal energy s^(2(1-lambda)). *)
Theorem guderley_selfsimilar :
  forall s r rho0 gamma lambda_ x y0 y1 y2 : R,
  0 < s ->
  0 < r ->
  gamma <> 0 ->
  gamma - 1 <> 0 ->
  rho0 <> 0 ->
  y2 <> 0 ->
  lambda_ <> 0 ->
  x <> 0 ->
  let a := Rpower s (1 - lambda_) in
  (gud_conv_den rho0 y2 = gud_conv_den rho0 y2 /\
  gud_conv_vel (s * r) lambda_ x y0 = a * gud_conv_vel r lambda_ x y0 /\
  gud_conv_snd (s * r) lambda_ x y1 = a * gud_conv_snd r lambda_ x y1 /\
  gud_conv_pres (s * r) rho0 gamma lambda_ x y1 y2 = a ^ 2 * gud_conv_pres r rho0 gamma lambda_ x y1 y2 /\
  gud_conv_sie (s * r) rho0 gamma lambda_ x y1 y2 = a ^ 2 * gud_conv_sie r rho0 gamma lambda_ x y1 y2) /\
  (gud_pre_vel (s * r) lambda_ x y0 = a * gud_pre_vel r lambda_ x y0 /\
  gud_pre_snd (s * r) lambda_ x y1 = a * gud_pre_snd r lambda_ x y1 /\
  gud_pre_pres (s * r) rho0 gamma lambda_ x y1 y2 = a ^ 2 * gud_pre_pres r rho0 gamma lambda_ x y1 y2 /\
  gud_pre_sie (s * r) rho0 gamma lambda_ x y1 y2 = a ^ 2 * gud_pre_sie r rho0 gamma lambda_ x y1 y2) /\
  gud_refl_vel (s * r) lambda_ x y0 = a * gud_refl_vel r lambda_ x y0 /\
  gud_refl_snd (s * r) lambda_ x y1 = a * gud_refl_snd r lambda_ x y1 /\
  gud_refl_pres (s * r) rho0 gamma lambda_ x y1 y2 = a ^ 2 * gud_refl_pres r rho0 gamma lambda_ x y1 y2 /\
  gud_refl_sie (s * r) rho0 gamma lambda_ x y1 y2 = a ^ 2 * gud_refl_sie r rho0 gamma lambda_ x y1 y2.
Proof. exact guderley_selfsimilar_proof. Qed.
Print Assumptions guderley_selfsimilar.

(* the similarity coordinate computed by guderley_1d is the same at (s r, t') and (r, t) when the Lazarus times are in the ratio s^lambda *)
Theorem guderley_targetx :
  forall s r lambda_ t t' : R,
  0 < s ->
  0 < r ->
  t' / (375012161 / 500000000) - 1 = Rpower s lambda_ * (t / (375012161 / 500000000) - 1) ->
  gud_targetx (s * r) lambda_ t' = gud_targetx r lambda_ t.
Proof. exact guderley_targetx_proof. Qed.
Print Assumptions guderley_targetx.
