From Coq Require Import Reals.
From EP Require Import lib.Euler gen.Cog11 proofs.C01_cog11.
Open Scope R_scope.

(* Coggeshall 11: the returned fields satisfy the documented conservation equations.  *)
Theorem cog11_pde :
  forall geometry gamma beta rho0 temp0 Gamma K0 r t,
  0 < r -> 0 < t -> 0 < rho0 -> 0 < temp0 -> gamma <> 1 -> Gamma <> 0 -> (2 - (gamma - 1) * (geometry - 1 + 1)) <> 0 ->
  euler_heat_at (geometry - 1) K0 (beta + 4 + (geometry - 1 - 1) / (2 - (gamma - 1) * (geometry - 1 + 1))) beta
    (cog11_density geometry gamma beta rho0 temp0 Gamma)
    (cog11_velocity geometry gamma beta rho0 temp0 Gamma)
    (cog11_temperature geometry gamma beta rho0 temp0 Gamma)
    (cog11_pressure geometry gamma beta rho0 temp0 Gamma)
    (cog11_specific_internal_energy geometry gamma beta rho0 temp0 Gamma) r t.
Proof. exact cog11_pde_proof. Qed.
Print Assumptions cog11_pde.
