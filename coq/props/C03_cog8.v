From Coq Require Import Reals.
From EP Require Import lib.Base gen.Cog8 proofs.C03_cog8.
Open Scope R_scope.

(* cog8: at every point where the returned expressions are defined (no division by zero, see cog8_defined)
   the returned pressure, density, temperature and specific internal energy satisfy the declared EOS. P = Gamma rho T, e = Gamma T/(gamma-1) *)
Theorem cog8_eos :
  forall geometry gamma alpha beta rho0 temp0 Gamma r t,
  cog8_defined geometry gamma alpha beta rho0 temp0 Gamma r t ->
  cog8_density geometry gamma alpha beta rho0 temp0 Gamma r t <> 0 ->
  gamma - 1 <> 0 ->
  cog8_pressure geometry gamma alpha beta rho0 temp0 Gamma r t = Gamma * (cog8_density geometry gamma alpha beta rho0 temp0 Gamma r t) * (cog8_temperature geometry gamma alpha beta rho0 temp0 Gamma r t) /\
  cog8_specific_internal_energy geometry gamma alpha beta rho0 temp0 Gamma r t = Gamma * (cog8_temperature geometry gamma alpha beta rho0 temp0 Gamma r t) / (gamma - 1) /\
  cog8_pressure geometry gamma alpha beta rho0 temp0 Gamma r t = (gamma - 1) * (cog8_density geometry gamma alpha beta rho0 temp0 Gamma r t) * (cog8_specific_internal_energy geometry gamma alpha beta rho0 temp0 Gamma r t).
Proof. exact cog8_eos_proof. Qed.
Print Assumptions cog8_eos.
