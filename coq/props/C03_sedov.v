From Coq Require Import Reals.
From EP Require Import lib.Base gen.SedovEos proofs.C03_sedov.
Open Scope R_scope.

(* Sedov._run: energy and sound speed computed from the interpolated pressure and density obey the gamma law *)
Theorem sedov_run_eos :
  forall gamma pressure density : R, gamma - 1 <> 0 -> 0 < density -> 0 <= gamma * pressure ->
  pressure = (gamma - 1) * density * sed_run_sie gamma pressure density /\
  sed_run_snd gamma pressure density ^ 2 = gamma * pressure / density.
Proof. exact sedov_run_eos_proof. Qed.
Print Assumptions sedov_run_eos.

(* Sedov.physical (returned jump state, single similarity values) *)
Theorem sedov_physical_eos :
  forall gamma rho2 p2 g_fun h_fun : R, gamma - 1 <> 0 -> 0 < rho2 * g_fun -> 0 <= gamma * (p2 * h_fun) ->
  sed_phys_prs p2 h_fun = (gamma - 1) * sed_phys_den rho2 g_fun * sed_phys_sie gamma rho2 p2 g_fun h_fun /\
  sed_phys_snd gamma rho2 p2 g_fun h_fun ^ 2 = gamma * sed_phys_prs p2 h_fun / sed_phys_den rho2 g_fun.
Proof. exact sedov_physical_eos_proof. Qed.
Print Assumptions sedov_physical_eos.

Theorem sedov_physical_vacuum :
  forall gamma rho2 p2 g_fun h_fun : R, rho2 * g_fun <= 0 ->
  sed_phys_sie gamma rho2 p2 g_fun h_fun = 0 /\ sed_phys_snd gamma rho2 p2 g_fun h_fun = 0.
Proof. exact sedov_physical_vacuum_proof. Qed.
Print Assumptions sedov_physical_vacuum.
