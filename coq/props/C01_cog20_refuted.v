From Coq Require Import Reals.
From Coquelicot Require Import Coquelicot.
From EP Require Import lib.Base lib.Euler gen.Cog20 proofs.C01_cog20 proofs.C01_cog20_refuted.
Open Scope R_scope.

Theorem cog20_energy_refuted :
  let geometry := cog20_default_geometry in
         let gamma := cog20_default_gamma in
         let rho0 := cog20_default_rho0 in
         let u0 := cog20_default_u0 in
         let a := cog20_default_a in
         let Gamma := cog20_default_Gamma in
         let r := 1 / 10 in
         let t := 1 in
         cog20_init_ok geometry gamma rho0 u0 a Gamma /\
         0 < r /\
         0 < 1 - a * t /\
         r < cog20_shock gamma u0 a t /\
         ~
         energy_eq (geometry - 1) (cog20_density geometry gamma rho0 u0 a Gamma)
           (cog20_velocity geometry gamma rho0 u0 a Gamma) (cog20_pressure geometry gamma rho0 u0 a Gamma)
           (cog20_specific_internal_energy geometry gamma rho0 u0 a Gamma) (fun _ _ : R => 0) r t.
Proof. exact cog20_energy_refuted_proof. Qed.
Print Assumptions cog20_energy_refuted.

