From Coq Require Import Reals.
From Coquelicot Require Import Coquelicot.
From EP Require Import lib.Base lib.Euler lib.RH lib.Euclid lib.Series gen.Heat proofs.C07_heat.
Open Scope R_scope.

Theorem rod_bc4_is_mirrored_bc3 :
  forall L Nsum TL TR alpha2 beta1 gamma1 gamma2 kappa x t : R,
         L <> 0 ->
         alpha2 <> 0 ->
         beta1 <> 0 ->
         rod_bc4_temperature L Nsum TL TR alpha2 beta1 gamma1 gamma2 kappa x t =
         rod_bc3_temperature L Nsum TR TL alpha2 (- beta1) gamma2 gamma1 kappa (L - x) t.
Proof. exact rod_bc4_is_mirrored_bc3_proof. Qed.
Print Assumptions rod_bc4_is_mirrored_bc3.

Theorem sandwiches_are_rods :
  forall L Nsum TL TR kappa a b x t : R,
         psandwich_temperature L Nsum TL TR kappa a b x t = rod_bc1_temperature L Nsum TL TR 1 1 a b kappa x t /\
         psandwich_hot_temperature L Nsum TL TR kappa a x t =
         rod_bc2_temperature L Nsum TL TR 1 1 a a kappa x t /\
         psandwich_half_temperature L Nsum TL TR kappa b a x t =
         rod_bc3_temperature L Nsum TL TR 1 1 a b kappa x t.
Proof. exact sandwiches_are_rods_proof. Qed.
Print Assumptions sandwiches_are_rods.

