From Coq Require Import Reals.
From EP Require Import lib.Euler gen.Cog6 proofs.C01_cog6.
Open Scope R_scope.

(* Coggeshall 6: the returned fields satisfy the documented conservation equations.  *)
Theorem cog6_pde :
  forall geometry rho0 tau b Gamma r t,
  0 < r -> 0 < t -> rho0 <> 0 -> Gamma <> 0 -> b + 2 <> 0 -> t < tau -> geometry - 1 + 1 <> 0 ->
  euler_at (geometry - 1)
    (cog6_density geometry rho0 tau b Gamma)
    (cog6_velocity geometry rho0 tau b Gamma)
    (cog6_pressure geometry rho0 tau b Gamma)
    (cog6_specific_internal_energy geometry rho0 tau b Gamma) r t.
Proof. exact cog6_pde_proof. Qed.
Print Assumptions cog6_pde.
