From Coq Require Import Reals.
From Coquelicot Require Import Coquelicot.
From EP Require Import lib.Base lib.Euler lib.RH lib.Euclid spec.Elasticity gen.Elastic proofs.C15_elastic.
Open Scope R_scope.

Theorem elastic_case_0 :
  forall g0 g1 : R,
         elastic_0_pre g0 g1 ->
         elastic_0_ok g0 g1 ->
         iso_material (elastic_0_plda g0 g1) (elastic_0_pg g0 g1) (elastic_0_pe g0 g1) 
           (elastic_0_pnu g0 g1) (elastic_0_pk g0 g1) (elastic_0_pm g0 g1) /\
         elastic_0_plda g0 g1 = g0 /\ elastic_0_pg g0 g1 = g1.
Proof. exact elastic_case_0_proof. Qed.
Print Assumptions elastic_case_0.

Theorem elastic_case_0_total :
  forall g0 g1 : R, elastic_0_pre g0 g1 -> elastic_0_defined g0 g1.
Proof. exact elastic_case_0_total_proof. Qed.
Print Assumptions elastic_case_0_total.

Theorem elastic_case_1 :
  forall g0 g1 : R,
         elastic_1_pre g0 g1 ->
         elastic_1_ok g0 g1 ->
         iso_material (elastic_1_plda g0 g1) (elastic_1_pg g0 g1) (elastic_1_pe g0 g1) 
           (elastic_1_pnu g0 g1) (elastic_1_pk g0 g1) (elastic_1_pm g0 g1) /\
         elastic_1_plda g0 g1 = g0 /\ elastic_1_pe g0 g1 = g1.
Proof. exact elastic_case_1_proof. Qed.
Print Assumptions elastic_case_1.

Theorem elastic_case_1_total :
  forall g0 g1 : R, elastic_1_pre g0 g1 -> elastic_1_defined g0 g1.
Proof. exact elastic_case_1_total_proof. Qed.
Print Assumptions elastic_case_1_total.

Theorem elastic_case_2 :
  forall g0 g1 : R,
         elastic_2_pre g0 g1 ->
         elastic_2_ok g0 g1 ->
         iso_material (elastic_2_plda g0 g1) (elastic_2_pg g0 g1) (elastic_2_pe g0 g1) 
           (elastic_2_pnu g0 g1) (elastic_2_pk g0 g1) (elastic_2_pm g0 g1) /\
         elastic_2_plda g0 g1 = g0 /\ elastic_2_pnu g0 g1 = g1.
Proof. exact elastic_case_2_proof. Qed.
Print Assumptions elastic_case_2.

Theorem elastic_case_2_total :
  forall g0 g1 : R, elastic_2_pre g0 g1 -> elastic_2_defined g0 g1.
Proof. exact elastic_case_2_total_proof. Qed.
Print Assumptions elastic_case_2_total.

Theorem elastic_case_3 :
  forall g0 g1 : R,
         elastic_3_pre g0 g1 ->
         elastic_3_ok g0 g1 ->
         iso_material (elastic_3_plda g0 g1) (elastic_3_pg g0 g1) (elastic_3_pe g0 g1) 
           (elastic_3_pnu g0 g1) (elastic_3_pk g0 g1) (elastic_3_pm g0 g1) /\
         elastic_3_plda g0 g1 = g0 /\ elastic_3_pk g0 g1 = g1.
Proof. exact elastic_case_3_proof. Qed.
Print Assumptions elastic_case_3.

Theorem elastic_case_3_total :
  forall g0 g1 : R, elastic_3_pre g0 g1 -> elastic_3_defined g0 g1.
Proof. exact elastic_case_3_total_proof. Qed.
Print Assumptions elastic_case_3_total.

Theorem elastic_case_4 :
  forall g0 g1 : R,
         elastic_4_pre g0 g1 ->
         elastic_4_ok g0 g1 ->
         iso_material (elastic_4_plda g0 g1) (elastic_4_pg g0 g1) (elastic_4_pe g0 g1) 
           (elastic_4_pnu g0 g1) (elastic_4_pk g0 g1) (elastic_4_pm g0 g1) /\
         elastic_4_plda g0 g1 = g0 /\ elastic_4_pm g0 g1 = g1.
Proof. exact elastic_case_4_proof. Qed.
Print Assumptions elastic_case_4.

Theorem elastic_case_4_total :
  forall g0 g1 : R, elastic_4_pre g0 g1 -> elastic_4_defined g0 g1.
Proof. exact elastic_case_4_total_proof. Qed.
Print Assumptions elastic_case_4_total.

Theorem elastic_case_5 :
  forall g0 g1 : R,
         elastic_5_pre g0 g1 ->
         elastic_5_ok g0 g1 ->
         iso_material (elastic_5_plda g0 g1) (elastic_5_pg g0 g1) (elastic_5_pe g0 g1) 
           (elastic_5_pnu g0 g1) (elastic_5_pk g0 g1) (elastic_5_pm g0 g1) /\
         elastic_5_pg g0 g1 = g0 /\ elastic_5_pe g0 g1 = g1.
Proof. exact elastic_case_5_proof. Qed.
Print Assumptions elastic_case_5.

Theorem elastic_case_5_total :
  forall g0 g1 : R, elastic_5_pre g0 g1 -> elastic_5_defined g0 g1.
Proof. exact elastic_case_5_total_proof. Qed.
Print Assumptions elastic_case_5_total.

Theorem elastic_case_6 :
  forall g0 g1 : R,
         elastic_6_pre g0 g1 ->
         elastic_6_ok g0 g1 ->
         iso_material (elastic_6_plda g0 g1) (elastic_6_pg g0 g1) (elastic_6_pe g0 g1) 
           (elastic_6_pnu g0 g1) (elastic_6_pk g0 g1) (elastic_6_pm g0 g1) /\
         elastic_6_pg g0 g1 = g0 /\ elastic_6_pnu g0 g1 = g1.
Proof. exact elastic_case_6_proof. Qed.
Print Assumptions elastic_case_6.

Theorem elastic_case_6_total :
  forall g0 g1 : R, elastic_6_pre g0 g1 -> elastic_6_defined g0 g1.
Proof. exact elastic_case_6_total_proof. Qed.
Print Assumptions elastic_case_6_total.

Theorem elastic_case_7 :
  forall g0 g1 : R,
         elastic_7_pre g0 g1 ->
         elastic_7_ok g0 g1 ->
         iso_material (elastic_7_plda g0 g1) (elastic_7_pg g0 g1) (elastic_7_pe g0 g1) 
           (elastic_7_pnu g0 g1) (elastic_7_pk g0 g1) (elastic_7_pm g0 g1) /\
         elastic_7_pg g0 g1 = g0 /\ elastic_7_pk g0 g1 = g1.
Proof. exact elastic_case_7_proof. Qed.
Print Assumptions elastic_case_7.

Theorem elastic_case_7_total :
  forall g0 g1 : R, elastic_7_pre g0 g1 -> elastic_7_defined g0 g1.
Proof. exact elastic_case_7_total_proof. Qed.
Print Assumptions elastic_case_7_total.

Theorem elastic_case_8 :
  forall g0 g1 : R,
         elastic_8_pre g0 g1 ->
         elastic_8_ok g0 g1 ->
         iso_material (elastic_8_plda g0 g1) (elastic_8_pg g0 g1) (elastic_8_pe g0 g1) 
           (elastic_8_pnu g0 g1) (elastic_8_pk g0 g1) (elastic_8_pm g0 g1) /\
         elastic_8_pg g0 g1 = g0 /\ elastic_8_pm g0 g1 = g1.
Proof. exact elastic_case_8_proof. Qed.
Print Assumptions elastic_case_8.

Theorem elastic_case_8_total :
  forall g0 g1 : R, elastic_8_pre g0 g1 -> elastic_8_defined g0 g1.
Proof. exact elastic_case_8_total_proof. Qed.
Print Assumptions elastic_case_8_total.

Theorem elastic_case_9 :
  forall g0 g1 : R,
         elastic_9_pre g0 g1 ->
         elastic_9_ok g0 g1 ->
         iso_material (elastic_9_plda g0 g1) (elastic_9_pg g0 g1) (elastic_9_pe g0 g1) 
           (elastic_9_pnu g0 g1) (elastic_9_pk g0 g1) (elastic_9_pm g0 g1) /\
         elastic_9_pe g0 g1 = g0 /\ elastic_9_pnu g0 g1 = g1.
Proof. exact elastic_case_9_proof. Qed.
Print Assumptions elastic_case_9.

Theorem elastic_case_9_total :
  forall g0 g1 : R, elastic_9_pre g0 g1 -> elastic_9_defined g0 g1.
Proof. exact elastic_case_9_total_proof. Qed.
Print Assumptions elastic_case_9_total.

Theorem elastic_case_10 :
  forall g0 g1 : R,
         elastic_10_pre g0 g1 ->
         elastic_10_ok g0 g1 ->
         iso_material (elastic_10_plda g0 g1) (elastic_10_pg g0 g1) (elastic_10_pe g0 g1)
           (elastic_10_pnu g0 g1) (elastic_10_pk g0 g1) (elastic_10_pm g0 g1) /\
         elastic_10_pe g0 g1 = g0 /\ elastic_10_pk g0 g1 = g1.
Proof. exact elastic_case_10_proof. Qed.
Print Assumptions elastic_case_10.

Theorem elastic_case_10_total :
  forall g0 g1 : R, elastic_10_pre g0 g1 -> elastic_10_defined g0 g1.
Proof. exact elastic_case_10_total_proof. Qed.
Print Assumptions elastic_case_10_total.

Theorem elastic_case_11 :
  forall g0 g1 : R,
         elastic_11_pre g0 g1 ->
         elastic_11_ok g0 g1 ->
         iso_material (elastic_11_plda g0 g1) (elastic_11_pg g0 g1) (elastic_11_pe g0 g1)
           (elastic_11_pnu g0 g1) (elastic_11_pk g0 g1) (elastic_11_pm g0 g1) /\
         elastic_11_pe g0 g1 = g0 /\ elastic_11_pm g0 g1 = g1.
Proof. exact elastic_case_11_proof. Qed.
Print Assumptions elastic_case_11.

Theorem elastic_case_11_total :
  forall g0 g1 : R, elastic_11_pre g0 g1 -> elastic_11_defined g0 g1.
Proof. exact elastic_case_11_total_proof. Qed.
Print Assumptions elastic_case_11_total.

Theorem elastic_case_12 :
  forall g0 g1 : R,
         elastic_12_pre g0 g1 ->
         elastic_12_ok g0 g1 ->
         iso_material (elastic_12_plda g0 g1) (elastic_12_pg g0 g1) (elastic_12_pe g0 g1)
           (elastic_12_pnu g0 g1) (elastic_12_pk g0 g1) (elastic_12_pm g0 g1) /\
         elastic_12_pnu g0 g1 = g0 /\ elastic_12_pk g0 g1 = g1.
Proof. exact elastic_case_12_proof. Qed.
Print Assumptions elastic_case_12.

Theorem elastic_case_12_total :
  forall g0 g1 : R, elastic_12_pre g0 g1 -> elastic_12_defined g0 g1.
Proof. exact elastic_case_12_total_proof. Qed.
Print Assumptions elastic_case_12_total.

Theorem elastic_case_13 :
  forall g0 g1 : R,
         elastic_13_pre g0 g1 ->
         elastic_13_ok g0 g1 ->
         iso_material (elastic_13_plda g0 g1) (elastic_13_pg g0 g1) (elastic_13_pe g0 g1)
           (elastic_13_pnu g0 g1) (elastic_13_pk g0 g1) (elastic_13_pm g0 g1) /\
         elastic_13_pnu g0 g1 = g0 /\ elastic_13_pm g0 g1 = g1.
Proof. exact elastic_case_13_proof. Qed.
Print Assumptions elastic_case_13.

Theorem elastic_case_13_total :
  forall g0 g1 : R, elastic_13_pre g0 g1 -> elastic_13_defined g0 g1.
Proof. exact elastic_case_13_total_proof. Qed.
Print Assumptions elastic_case_13_total.

Theorem elastic_case_14 :
  forall g0 g1 : R,
         elastic_14_pre g0 g1 ->
         elastic_14_ok g0 g1 ->
         iso_material (elastic_14_plda g0 g1) (elastic_14_pg g0 g1) (elastic_14_pe g0 g1)
           (elastic_14_pnu g0 g1) (elastic_14_pk g0 g1) (elastic_14_pm g0 g1) /\
         elastic_14_pk g0 g1 = g0 /\ elastic_14_pm g0 g1 = g1.
Proof. exact elastic_case_14_proof. Qed.
Print Assumptions elastic_case_14.

Theorem elastic_case_14_total :
  forall g0 g1 : R, elastic_14_pre g0 g1 -> elastic_14_defined g0 g1.
Proof. exact elastic_case_14_total_proof. Qed.
Print Assumptions elastic_case_14_total.

