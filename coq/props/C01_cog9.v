From Coq Require Import Reals.
From EP Require Import lib.Euler gen.Cog9 proofs.C01_cog9.
Open Scope R_scope.

(* Coggeshall 9: the returned fields satisfy the documented conservation equations.  *)
Theorem cog9_pde :
  forall geometry gamma alpha beta rho0 Gamma K0 r t,
  0 < r -> 0 < t -> 0 < rho0 -> gamma <> 1 -> Gamma <> 0 -> alpha <> 0 -> 2 + (gamma - 1) * (geometry - 1 + 1) <> 0 -> 2 * alpha - 2 * beta - (geometry - 1) - 7 <> 0 -> geometry - 1 + 1 <> 0 -> 0 < 2 * alpha * (gamma - 1) * (geometry - 1 + 1) / Gamma / (2 + (gamma - 1) * (geometry - 1 + 1)) ^ 2 / (2 * alpha - 2 * beta - (geometry - 1) - 7) ->
  euler_heat_at (geometry - 1) K0 alpha beta
    (cog9_density geometry gamma alpha beta rho0 Gamma)
    (cog9_velocity geometry gamma alpha beta rho0 Gamma)
    (cog9_temperature geometry gamma alpha beta rho0 Gamma)
    (cog9_pressure geometry gamma alpha beta rho0 Gamma)
    (cog9_specific_internal_energy geometry gamma alpha beta rho0 Gamma) r t.
Proof. exact cog9_pde_proof. Qed.
Print Assumptions cog9_pde.
