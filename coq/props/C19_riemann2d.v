From Coq Require Import Reals.
From Coquelicot Require Import Coquelicot.
From EP Require Import lib.Base lib.Euler lib.RH lib.Euclid gen.Riemann2D proofs.C19_riemann2d.
Open Scope R_scope.

Theorem r2d_shock_hugoniot :
  forall ps p0 r0 g : R,
         0 < p0 ->
         0 < ps ->
         0 < r0 ->
         1 < g ->
         ps / ((g - 1) * r2d_shock_density ps p0 r0 g) - p0 / ((g - 1) * r0) =
         (p0 + ps) / 2 * (1 / r0 - 1 / r2d_shock_density ps p0 r0 g).
Proof. exact r2d_shock_hugoniot_proof. Qed.
Print Assumptions r2d_shock_hugoniot.

Theorem r2d_shock_total_enthalpy :
  forall ps p0 r0 M0 th g : R,
         0 < p0 ->
         0 < ps ->
         0 < r0 ->
         1 < g ->
         0 <=
         (M0 ^ 2 * ((g + 1) * (ps / p0) + g - 1) - 2 * ((ps / p0) ^ 2 - 1)) / (ps / p0) /
         ((g - 1) * (ps / p0) + g + 1) ->
         g * p0 / r0 / (g - 1) + M0 ^ 2 * (g * p0 / r0) / 2 =
         g * ps / r2d_shock_density ps p0 r0 g / (g - 1) +
         r2d_shock_Mach ps p0 r0 M0 th g ^ 2 * (g * ps / r2d_shock_density ps p0 r0 g) / 2.
Proof. exact r2d_shock_total_enthalpy_proof. Qed.
Print Assumptions r2d_shock_total_enthalpy.

Theorem r2d_shock_theta_beta_M :
  forall ps p0 r0 M0 th g : R,
         0 < p0 ->
         0 < r0 ->
         1 < g ->
         forall beta : R,
         0 < M0 ->
         0 < beta < PI / 2 ->
         sin beta ^ 2 = ((g + 1) * (ps / p0) + g - 1) / (2 * g * M0 ^ 2) ->
         g * M0 ^ 2 - ps / p0 + 1 <> 0 ->
         tan (r2d_shock_deflection ps p0 r0 M0 th g) = r2d_theta_beta_M beta M0 g.
Proof. exact r2d_shock_theta_beta_M_proof. Qed.
Print Assumptions r2d_shock_theta_beta_M.

Theorem r2d_fan_isentropic :
  forall ps p0 r0 g : R,
         0 < p0 -> 0 < ps -> 0 < r0 -> 1 < g -> ps / Rpower (r2d_fan_density ps p0 r0 g) g = p0 / Rpower r0 g.
Proof. exact r2d_fan_isentropic_proof. Qed.
Print Assumptions r2d_fan_isentropic.

Theorem r2d_fan_total_enthalpy :
  forall ps p0 r0 M0 th g : R,
         0 < p0 ->
         0 < ps ->
         0 < r0 ->
         1 < g ->
         0 <= (((g - 1) * M0 ^ 2 / 2 + 1) / Rpower (ps / p0) ((g - 1) / g) - 1) * 2 / (g - 1) ->
         g * p0 / r0 / (g - 1) + M0 ^ 2 * (g * p0 / r0) / 2 =
         g * ps / r2d_fan_density ps p0 r0 g / (g - 1) +
         r2d_fan_Mach ps p0 r0 M0 th g ^ 2 * (g * ps / r2d_fan_density ps p0 r0 g) / 2.
Proof. exact r2d_fan_total_enthalpy_proof. Qed.
Print Assumptions r2d_fan_total_enthalpy.

Theorem r2d_prandtl_meyer_difference :
  forall M g : R,
         1 < g ->
         1 <= M -> r2d_prandtl_meyer M g - prandtl_meyer M g = atan (sqrt (M ^ 2 - 1)) - atan (M ^ 2 - 1).
Proof. exact r2d_prandtl_meyer_difference_proof. Qed.
Print Assumptions r2d_prandtl_meyer_difference.

Theorem prandtl_meyer_ode :
  forall M g : R,
         1 < g ->
         1 < M ->
         is_derive (fun m : R_AbsRing => prandtl_meyer m g) M
           (sqrt (M ^ 2 - 1) / (M * (1 + (g - 1) / 2 * M ^ 2))).
Proof. exact prandtl_meyer_ode_proof. Qed.
Print Assumptions prandtl_meyer_ode.

