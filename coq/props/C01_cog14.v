From Coq Require Import Reals.
From EP Require Import lib.Euler gen.Cog14 proofs.C01_cog14.
Open Scope R_scope.

(* Coggeshall 14: mass, momentum and energy conservation with the conduction flux F = -K0 rho^alpha T^(beta+3) dT/dr, K0 = 4 a c lambda0 / 3, wherever the
   coded amplitudes are real (cog14_hyps: b/(k-b) > 0 - what the constructor now enforces -, 2b + (gamma-1)(k+b) > 0, gamma > 1, positive Gamma, rho0, lambda0). *)
Theorem cog14_pde :
  forall geometry gamma rho0 alpha beta lambda0 Gamma r t,
  cog14_hyps geometry gamma rho0 alpha beta lambda0 Gamma -> 0 < r ->
  euler_heat_at (geometry - 1) (KC14 lambda0) alpha beta
    (cog14_density geometry gamma rho0 alpha beta lambda0 Gamma)
    (cog14_velocity geometry gamma rho0 alpha beta lambda0 Gamma)
    (cog14_temperature geometry gamma rho0 alpha beta lambda0 Gamma)
    (cog14_pressure geometry gamma rho0 alpha beta lambda0 Gamma)
    (cog14_specific_internal_energy geometry gamma rho0 alpha beta lambda0 Gamma) r t.
Proof. exact cog14_pde_proof. Qed.
Print Assumptions cog14_pde.

Example cog14_hyps_satisfiable : cog14_hyps 3 (7/5) (9/5) 2 1 (1/10) 40.
Proof. exact cog14_hyps_example. Qed.
