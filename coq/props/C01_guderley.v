From Coq Require Import Reals.
From Coquelicot Require Import Coquelicot.
From EP Require Import lib.Base lib.RH lib.Euler gen.Guderley proofs.Guderley_alg proofs.Guderley_time proofs.C01_guderley.
Open Scope R_scope.

(* Guderley, pre- and post-reflection flow: whenever the similarity variables (V, C, Rf as functions of x = tau / r^lambda) have the derivatives that the
   coded right-hand side g(x, y) prescribes at the point, the fields that state() builds from them satisfy mass, momentum and energy conservation
   (geometry nu + 1) in the variables (r, tau), tau = Lazarus time.  The three integrated branches of state() use the same field formulas (conv = pre = refl,
   see guderley_eos / the generated definitions), so this covers all of them.  Not covered: that solve_ivp returns a solution of the ODEs. *)
Theorem guderley_euler :
  forall (rho0 gamma lambda_ nu : R) (V C Rf : R -> R) (r tau : R),
  0 < r ->
  tau <> 0 ->
  rho0 <> 0 ->
  gamma <> 0 ->
  gamma - 1 <> 0 ->
  lambda_ <> 0 ->
  let x := xs lambda_ r tau in
  is_derive V x (gud_g_V x (V x) (C x) nu gamma lambda_) ->
  is_derive C x (gud_g_C x (V x) (C x) nu gamma lambda_) ->
  is_derive Rf x (gud_g_R x (V x) (C x) (Rf x) nu gamma lambda_) ->
  C x * C x - (V x + 1) ^ 2 <> 0 ->
  V x + 1 <> 0 ->
  Rf x <> 0 -> euler_at nu (g_den rho0 lambda_ Rf) (g_vel lambda_ V) (g_prs rho0 gamma lambda_ C Rf) (g_sie rho0 gamma lambda_ C Rf) r tau.
Proof. exact guderley_euler_proof. Qed.
Print Assumptions guderley_euler.

(* the branches behind the converging shock (conv), ahead of the reflected shock (pre) and behind it (refl) use the same map to physical fields *)
Theorem guderley_branches_same :
  forall r rho0 gamma lambda_ x y0 y1 y2 : R,
  (gud_pre_den rho0 y2 = gud_conv_den rho0 y2 /\ gud_pre_vel r lambda_ x y0 = gud_conv_vel r lambda_ x y0 /\
   gud_pre_pres r rho0 gamma lambda_ x y1 y2 = gud_conv_pres r rho0 gamma lambda_ x y1 y2 /\
   gud_pre_snd r lambda_ x y1 = gud_conv_snd r lambda_ x y1 /\ gud_pre_sie r rho0 gamma lambda_ x y1 y2 = gud_conv_sie r rho0 gamma lambda_ x y1 y2) /\
  (gud_refl_den rho0 y2 = gud_conv_den rho0 y2 /\ gud_refl_vel r lambda_ x y0 = gud_conv_vel r lambda_ x y0 /\
   gud_refl_pres r rho0 gamma lambda_ x y1 y2 = gud_conv_pres r rho0 gamma lambda_ x y1 y2 /\
   gud_refl_snd r lambda_ x y1 = gud_conv_snd r lambda_ x y1 /\ gud_refl_sie r rho0 gamma lambda_ x y1 y2 = gud_conv_sie r rho0 gamma lambda_ x y1 y2).
Proof. exact guderley_branches_same_proof. Qed.
Print Assumptions guderley_branches_same.
