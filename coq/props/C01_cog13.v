From Coq Require Import Reals.
From Coquelicot Require Import Coquelicot.
From EP Require Import lib.Base lib.Euler gen.Cog13 proofs.C01_cog13.
Open Scope R_scope.

Theorem cog13_mass_momentum :
  forall geometry gamma rho0 alpha beta lambda0 Gamma r t : R,
         0 < r ->
         0 < t ->
         rho0 <> 0 ->
         gamma <> 1 ->
         alpha - beta - 4 <> 0 ->
         mass_eq (geometry - 1) (cog13_density geometry gamma rho0 alpha beta lambda0 Gamma)
           (cog13_velocity geometry gamma rho0 alpha beta lambda0 Gamma) r t /\
         momentum_eq (cog13_density geometry gamma rho0 alpha beta lambda0 Gamma)
           (cog13_velocity geometry gamma rho0 alpha beta lambda0 Gamma)
           (cog13_pressure geometry gamma rho0 alpha beta lambda0 Gamma) r t.
Proof. exact cog13_mass_momentum_proof. Qed.
Print Assumptions cog13_mass_momentum.

