From Coq Require Import Reals.
From EP Require Import lib.Base gen.Cog20 proofs.C03_cog20.
Open Scope R_scope.

(* cog20: at every point where the returned expressions are defined (no division by zero, see cog20_defined)
   the returned pressure, density, temperature and specific internal energy satisfy the declared EOS. P = Gamma rho T, e = Gamma T/(gamma-1) *)
Theorem cog20_eos :
  forall geometry gamma rho0 u0 a Gamma r t,
  cog20_defined geometry gamma rho0 u0 a Gamma r t ->
  cog20_density geometry gamma rho0 u0 a Gamma r t <> 0 ->
  gamma - 1 <> 0 ->
  cog20_pressure geometry gamma rho0 u0 a Gamma r t = Gamma * (cog20_density geometry gamma rho0 u0 a Gamma r t) * (cog20_temperature geometry gamma rho0 u0 a Gamma r t) /\
  cog20_specific_internal_energy geometry gamma rho0 u0 a Gamma r t = Gamma * (cog20_temperature geometry gamma rho0 u0 a Gamma r t) / (gamma - 1) /\
  cog20_pressure geometry gamma rho0 u0 a Gamma r t = (gamma - 1) * (cog20_density geometry gamma rho0 u0 a Gamma r t) * (cog20_specific_internal_energy geometry gamma rho0 u0 a Gamma r t).
Proof. exact cog20_eos_proof. Qed.
Print Assumptions cog20_eos.
