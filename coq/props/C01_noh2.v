From Coq Require Import Reals.
From Coquelicot Require Import Coquelicot.
From EP Require Import lib.Base lib.Euler gen.Noh2 gen.Noh2Cog proofs.C01_noh2.
Open Scope R_scope.

Theorem noh2_pde :
  forall geometry gamma rho0 e0 r t : R,
         0 < r ->
         t < 1 ->
         rho0 <> 0 ->
         gamma <> 1 ->
         euler_at (geometry - 1) (noh2_density geometry gamma rho0 e0) (noh2_velocity geometry gamma rho0 e0)
           (noh2_pressure geometry gamma rho0 e0) (noh2_specific_internal_energy geometry gamma rho0 e0) r t.
Proof. exact noh2_pde_proof. Qed.
Print Assumptions noh2_pde.

Theorem noh2cog_pde :
  forall geometry gamma rho0 e0 r t : R,
         0 < r ->
         t < 1 ->
         rho0 <> 0 ->
         gamma <> 1 ->
         euler_at (geometry - 1) (noh2cog_density geometry gamma rho0 e0)
           (noh2cog_velocity geometry gamma rho0 e0) (noh2cog_pressure geometry gamma rho0 e0)
           (noh2cog_specific_internal_energy geometry gamma rho0 e0) r t.
Proof. exact noh2cog_pde_proof. Qed.
Print Assumptions noh2cog_pde.

