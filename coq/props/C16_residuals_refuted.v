From Coq Require Import Reals.
From Coquelicot Require Import Coquelicot.
From EP Require Import lib.Base gen.Residuals proofs.C16_residuals.
Open Scope R_scope.

(* known finding pressure-residual-jacobian-sign: the coded pressure_noh_residual.F_prime[2,0] is not the derivative of F[2] *)
Theorem pressure_residual_DF20_refuted :
  exists rho e D u_0 P_0 e_0 : R, rho <> 0 /\ D <> 0 /\
    ~ is_derive (fun x => res_pr3_F2 x e D u_0 P_0 e_0) rho (res_pr3_DF20 rho D u_0 P_0).
Proof. exact pr3_DF20_refuted_proof. Qed.
Print Assumptions pressure_residual_DF20_refuted.
