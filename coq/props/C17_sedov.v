From Coq Require Import Reals.
From EP Require Import gen.Sedov proofs.C17_sedov.
Open Scope R_scope.

(* Sedov blast front: the post-shock density regenerated from sedov.py is (gamma+1)/(gamma-1) times the ambient profile rho0 r^-omega
   at the coded shock radius (a compression, for every omega and every time), the front moves outward, the gas behind it moves outward
   more slowly than the front, and the post-shock pressure is positive. *)
Theorem sedov_shock_compressive :
  forall t rho0 eblast alpha omega xg2 gamma,
  0 < t -> 1 < gamma -> 0 < xg2 -> 0 < rho0 ->
  let r2 := sed_r2 t rho0 eblast alpha xg2 in
  let ambient := rho0 * Rpower r2 (- omega) in
  let rho2 := sed_rho2 t rho0 eblast alpha omega xg2 ((gamma + 1) / (gamma - 1)) in
  0 < r2 /\ 0 < ambient /\
  rho2 = (gamma + 1) / (gamma - 1) * ambient /\ ambient < rho2 /\
  0 < sed_us t rho0 eblast alpha xg2 /\
  0 < sed_u2 t rho0 eblast alpha xg2 (gamma + 1) /\ sed_u2 t rho0 eblast alpha xg2 (gamma + 1) < sed_us t rho0 eblast alpha xg2 /\
  0 < sed_p2 t rho0 eblast alpha omega xg2 (gamma + 1).
Proof. exact sedov_shock_compressive_proof. Qed.
Print Assumptions sedov_shock_compressive.
