From Coq Require Import Reals Lra.
From EP Require Import lib.Euler gen.Cog16 proofs.C01_cog16.
Open Scope R_scope.

(* Coggeshall 16: mass, momentum and energy conservation with the conduction flux F = -K0 rho^alpha T^(beta+3) dT/dr, alpha = 1 - 1/k, beta = alpha/2 - 3,
   K0 = 4 a c lambda0 / 3, for every k > 0, 0 < b < k, gamma > 1, positive Gamma, u0, lambda0, every r > 0, t. *)
Theorem cog16_pde :
  forall geometry gamma u0 b lambda0 Gamma r t,
  0 < geometry - 1 -> 0 < b -> 0 < geometry - 1 - b -> 1 < gamma -> 0 < Gamma -> 0 < u0 -> 0 < lambda0 -> 0 < r ->
  euler_heat_at (geometry - 1) (KC16 lambda0) (1 - 1 / (geometry - 1)) ((1 - 1 / (geometry - 1)) / 2 - 3)
    (cog16_density geometry gamma u0 b lambda0 Gamma)
    (cog16_velocity geometry gamma u0 b lambda0 Gamma)
    (cog16_temperature geometry gamma u0 b lambda0 Gamma)
    (cog16_pressure geometry gamma u0 b lambda0 Gamma)
    (cog16_specific_internal_energy geometry gamma u0 b lambda0 Gamma) r t.
Proof. exact cog16_pde_proof. Qed.
Print Assumptions cog16_pde.

Example cog16_hyps_satisfiable : 0 < 3 - 1 /\ 0 < 6/5 /\ 0 < 3 - 1 - 6/5 /\ 1 < 7/5.
Proof. repeat split; lra. Qed.
