From Coq Require Import List String Bool Arith.
From EP Require Import gen.Catalogue model.Api proofs.C07_wrappers.
Import ListNotations.

(* every Planar*/Cylindrical*/Spherical* wrapper in the regenerated catalogue has no _run of its own and fixes
   geometry = 1 / 2 / 3 respectively (finite list, bound = length all_solvers) *)
Theorem wrappers_are_general_class : forall s, In s all_solvers -> wrapper_ok s = true.
Proof. apply forallb_forall. exact wrappers_are_general_class_proof. Qed.
Print Assumptions wrappers_are_general_class.

Theorem wrappers_counted : 60 <= List.length (filter is_geometry_wrapper all_solvers).
Proof. exact wrappers_counted_proof. Qed.
