From Coq Require Import Reals.
From Coquelicot Require Import Coquelicot.
From EP Require Import lib.Base gen.Mader proofs.C17_mader.
Open Scope R_scope.

(* mr_* (proofs/C17_mader.v) is a readable mirror of rare(); it is definitionally equal to the generated code *)
Theorem mader_mirror :
  forall t xlab dx p_cj d_cj gam u_piston : R,
    mader_u t xlab dx p_cj d_cj gam u_piston = mr_u t xlab dx d_cj gam u_piston /\
    mader_p t xlab dx p_cj d_cj gam u_piston = mr_p t xlab dx p_cj d_cj gam u_piston /\
    mader_c t xlab dx p_cj d_cj gam u_piston = mr_c t xlab dx d_cj gam u_piston /\
    mader_rho t xlab dx p_cj d_cj gam u_piston = mr_rho t xlab dx p_cj d_cj gam u_piston.
Proof. intros. repeat split; reflexivity. Qed.
Print Assumptions mader_mirror.

(* the cell that straddles the tail of the Taylor wave: every returned field lies between the constant state behind
   the wave and the point value of the wave at the cell's front edge *)
Theorem mader_transition_cell_between :
  forall t xlab dx p_cj d_cj gam u_piston : R,
    0 < t -> 0 < dx -> 0 < p_cj -> 0 < d_cj -> 1 < gam ->
    in_transition t xlab dx d_cj gam u_piston -> 0 < cs_arg d_cj gam u_piston ->
    let xb := x2 t xlab dx d_cj in
    cs_p p_cj d_cj gam u_piston <= mader_p t xlab dx p_cj d_cj gam u_piston <= fan_p t p_cj d_cj gam xb /\
    cs_rho p_cj d_cj gam u_piston <= mader_rho t xlab dx p_cj d_cj gam u_piston <= fan_rho t p_cj d_cj gam xb /\
    u_piston <= mader_u t xlab dx p_cj d_cj gam u_piston <= fan_u t d_cj gam xb /\
    cs_c d_cj gam u_piston <= mader_c t xlab dx p_cj d_cj gam u_piston <= fan_c t d_cj gam xb.
Proof. exact transition_cell_between. Qed.
Print Assumptions mader_transition_cell_between.

(* a cell inside the wave: averaged fields between the point values at the cell's two edges *)
Theorem mader_fan_cell_between :
  forall t xlab dx p_cj d_cj gam u_piston : R,
    0 < t -> 0 < dx -> 0 < p_cj -> 0 < d_cj -> 1 < gam ->
    in_fan t xlab dx d_cj gam u_piston -> 0 < fan_arg t d_cj gam (x1 t xlab dx d_cj) ->
    let xa := x1 t xlab dx d_cj in let xb := x2 t xlab dx d_cj in
    fan_p t p_cj d_cj gam xa <= mader_p t xlab dx p_cj d_cj gam u_piston <= fan_p t p_cj d_cj gam xb /\
    fan_rho t p_cj d_cj gam xa <= mader_rho t xlab dx p_cj d_cj gam u_piston <= fan_rho t p_cj d_cj gam xb /\
    fan_u t d_cj gam xa <= mader_u t xlab dx p_cj d_cj gam u_piston <= fan_u t d_cj gam xb /\
    fan_c t d_cj gam xa <= mader_c t xlab dx p_cj d_cj gam u_piston <= fan_c t d_cj gam xb.
Proof. exact fan_cell_between. Qed.
Print Assumptions mader_fan_cell_between.

Theorem mader_constant_state_positive :
  forall p_cj d_cj gam u_piston : R, 0 < p_cj -> 0 < d_cj -> 1 < gam -> 0 < cs_arg d_cj gam u_piston ->
    0 < cs_p p_cj d_cj gam u_piston /\ 0 < cs_c d_cj gam u_piston /\ 0 < cs_rho p_cj d_cj gam u_piston.
Proof. exact const_state_positive. Qed.
Print Assumptions mader_constant_state_positive.

(* the wave joins the constant state continuously, for every gamma *)
Theorem mader_wave_joins_constant_state :
  forall t d_cj gam u_piston : R, 0 < t -> 0 < d_cj -> 1 < gam ->
    fan_arg t d_cj gam (xp t d_cj gam u_piston) = cs_arg d_cj gam u_piston /\
    fan_u t d_cj gam (xp t d_cj gam u_piston) = u_piston.
Proof. intros. split; [ apply fan_arg_xp | apply fan_u_xp ]; assumption. Qed.
Print Assumptions mader_wave_joins_constant_state.
