From Coq Require Import Reals.
From Coquelicot Require Import Coquelicot.
From EP Require Import lib.Base lib.Euler lib.RH lib.SimpleWave gen.Riemann proofs.Riemann_fan.
Open Scope R_scope.

Theorem igeos_left_fan_euler :
  forall xd0 gl pl rl ul x t : R,
         0 < t ->
         0 < pl ->
         0 < rl ->
         1 < gl ->
         0 < sw_Y gl pl rl ul xd0 1 x t ->
         euler_at 0 (fun x0 t0 : R => rie_fanL_rho x0 xd0 t0 gl pl rl ul)
           (fun x0 t0 : R => rie_fanL_u x0 xd0 t0 gl pl rl ul)
           (fun x0 t0 : R => rie_fanL_p x0 xd0 t0 gl pl rl ul)
           (fan_sie gl (fun x0 t0 : R => rie_fanL_p x0 xd0 t0 gl pl rl ul)
              (fun x0 t0 : R => rie_fanL_rho x0 xd0 t0 gl pl rl ul)) x t.
Proof. exact igeos_left_fan_euler_proof. Qed.
Print Assumptions igeos_left_fan_euler.

Theorem igeos_right_fan_euler :
  forall xd0 gr pl pr rl rr ul ur x t : R,
         0 < t ->
         0 < pr ->
         0 < rr ->
         1 < gr ->
         ~ (pr = pl /\ ur = ul /\ rr = rl) ->
         0 < sw_Y gr pr rr ur xd0 (-1) x t ->
         euler_at 0 (fun x0 t0 : R => rie_fanR_rho x0 xd0 t0 gr pl pr rl rr ul ur)
           (fun x0 t0 : R => rie_fanR_u x0 xd0 t0 gr pl pr rl rr ul ur)
           (fun x0 t0 : R => rie_fanR_p x0 xd0 t0 gr pl pr rl rr ul ur)
           (fan_sie gr (fun x0 t0 : R => rie_fanR_p x0 xd0 t0 gr pl pr rl rr ul ur)
              (fun x0 t0 : R => rie_fanR_rho x0 xd0 t0 gr pl pr rl rr ul ur)) x t.
Proof. exact igeos_right_fan_euler_proof. Qed.
Print Assumptions igeos_right_fan_euler.

Theorem igeos_left_fan_isentropic :
  forall xd0 gl pl rl ul x t : R,
         0 < pl ->
         0 < rl ->
         1 < gl ->
         0 < sw_Y gl pl rl ul xd0 1 x t ->
         rie_fanL_p x xd0 t gl pl rl ul / Rpower (rie_fanL_rho x xd0 t gl pl rl ul) gl = pl / Rpower rl gl.
Proof. exact igeos_left_fan_isentropic_proof. Qed.
Print Assumptions igeos_left_fan_isentropic.

