From Coq Require Import Reals.
From EP Require Import lib.Base gen.Sdrz proofs.Sdrz_state.
Open Scope R_scope.

(* steady reaction zone: mass and momentum flux in the frame of the front are those of the unreacted explosive, at every reaction progress *)
Theorem sdrz_fluxes :
  forall lam D rho_0 gamma : R, 0 < D -> 0 < rho_0 -> 1 < gamma -> 0 <= lam <= 1 ->
  sdrz_rho lam D rho_0 gamma * (D - sdrz_u lam D rho_0 gamma) = rho_0 * D /\
  sdrz_p lam D rho_0 gamma + sdrz_rho lam D rho_0 gamma * (D - sdrz_u lam D rho_0 gamma) ^ 2 = rho_0 * D ^ 2.
Proof. exact sdrz_fluxes_proof. Qed.
Print Assumptions sdrz_fluxes.

(* C17: positive pressure and density, compression (rho > rho_0), particle velocity between 0 and D;  C03: c^2 = gamma p / rho *)
Theorem sdrz_admissible :
  forall lam D rho_0 gamma : R, 0 < D -> 0 < rho_0 -> 1 < gamma -> 0 <= lam <= 1 ->
  0 < sdrz_p lam D rho_0 gamma /\ 0 < sdrz_rho lam D rho_0 gamma /\ rho_0 < sdrz_rho lam D rho_0 gamma /\
  0 < sdrz_u lam D rho_0 gamma < D.
Proof. exact sdrz_admissible_proof. Qed.
Print Assumptions sdrz_admissible.

Theorem sdrz_sound_speed :
  forall lam D rho_0 gamma : R, 0 < D -> 0 < rho_0 -> 1 < gamma -> 0 <= lam <= 1 ->
  sdrz_cs lam D rho_0 gamma ^ 2 = gamma * sdrz_p lam D rho_0 gamma / sdrz_rho lam D rho_0 gamma.
Proof. exact sdrz_sound_speed_proof. Qed.
Print Assumptions sdrz_sound_speed.
