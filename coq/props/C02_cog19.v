From Coq Require Import Reals.
From Coquelicot Require Import Coquelicot.
From EP Require Import lib.Base lib.Euler lib.RH gen.Cog19 proofs.C01_cog19 proofs.C02_cog19.
Open Scope R_scope.

Theorem cog19_rh :
  forall geometry gamma rho0 u0 Gamma t : R,
         u0 < 0 ->
         1 < gamma ->
         0 < t ->
         Gamma <> 0 ->
         rho0 <> 0 ->
         exists (s : R_NormedModule) (J : jump_states),
           is_derive (cog19_shock gamma u0) t s /\
           fields_jump (fun r : R => cog19_density geometry gamma rho0 u0 Gamma r t)
             (fun r : R => cog19_velocity geometry gamma rho0 u0 Gamma r t)
             (fun r : R => cog19_pressure geometry gamma rho0 u0 Gamma r t)
             (fun r : R => cog19_specific_internal_energy geometry gamma rho0 u0 Gamma r t)
             (cog19_shock gamma u0 t) J /\ rh_holds s J.
Proof. exact cog19_rh_proof. Qed.
Print Assumptions cog19_rh.

