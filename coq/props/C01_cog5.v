From Coq Require Import Reals.
From EP Require Import lib.Euler gen.Cog5 proofs.C01_cog5.
Open Scope R_scope.

(* Coggeshall 5: the returned fields satisfy the documented conservation equations.  *)
Theorem cog5_pde :
  forall rho0 u0 Gamma r t,
  0 < r -> 0 < t -> rho0 <> 0 -> u0 <> 0 -> Gamma <> 0 ->
  euler_at 2
    (cog5_density rho0 u0 Gamma)
    (cog5_velocity rho0 u0 Gamma)
    (cog5_pressure rho0 u0 Gamma)
    (cog5_specific_internal_energy rho0 u0 Gamma) r t.
Proof. exact cog5_pde_proof. Qed.
Print Assumptions cog5_pde.
