From Coq Require Import Reals.
From Coquelicot Require Import Coquelicot.
From EP Require Import lib.Base gen.Residuals proofs.C16_residuals.
Open Scope R_scope.

(* Residual functions of the black-box Noh solver, for an ARBITRARY equation of state (closure f with partial derivatives f_rho, f_y):
   every coded Jacobian entry is the partial derivative of the matching coded residual component. *)
Theorem energy_residual_jacobian :
  forall (f f_rho f_y : R -> R -> R),
    (forall rho y, is_derive (fun r => f r y) rho (f_rho rho y)) -> (forall rho y, is_derive (fun z => f rho z) y (f_y rho y)) ->
  forall u_0 rho_0 P_0 symmetry e_0 rho P D : R, rho <> 0 -> D <> 0 -> 0 < 1 - u_0 / D ->
  is_derive (fun x => en3_F0 u_0 rho_0 symmetry x P D) rho res_en3_DF00 /\ is_derive (fun x => en3_F0 u_0 rho_0 symmetry rho x D) P res_en3_DF01 /\
  is_derive (fun x => en3_F0 u_0 rho_0 symmetry rho P x) D (res_en3_DF02 D u_0 rho_0 symmetry) /\
  is_derive (fun x => en3_F1 u_0 P_0 x P D) rho (res_en3_DF10 D u_0) /\ is_derive (fun x => en3_F1 u_0 P_0 rho x D) P res_en3_DF11 /\
  is_derive (fun x => en3_F1 u_0 P_0 rho P x) D (res_en3_DF12 rho u_0) /\
  is_derive (fun x => en3_F2 f u_0 P_0 e_0 x P D) rho (res_en3_DF20 rho D u_0 P_0 (f_rho rho P)) /\
  is_derive (fun x => en3_F2 f u_0 P_0 e_0 rho x D) P (res_en3_DF21 (f_y rho P)) /\
  is_derive (fun x => en3_F2 f u_0 P_0 e_0 rho P x) D (res_en3_DF22 rho D u_0 P_0).
Proof. intros f f_rho f_y H1 H2 u_0 rho_0 P_0 symmetry e_0. exact (en3_jacobian f f_rho f_y H1 H2 u_0 rho_0 P_0 symmetry e_0). Qed.
Print Assumptions energy_residual_jacobian.

Theorem simplified_energy_residual_jacobian :
  forall (f f_rho f_y : R -> R -> R),
    (forall rho y, is_derive (fun r => f r y) rho (f_rho rho y)) -> (forall rho y, is_derive (fun z => f rho z) y (f_y rho y)) ->
  forall u_0 rho_0 e_0 rho P : R, rho <> 0 ->
  is_derive (fun x => en2_F0 u_0 rho_0 x P) rho (res_en2_DF00 rho P rho_0) /\ is_derive (fun x => en2_F0 u_0 rho_0 rho x) P (res_en2_DF01 rho rho_0) /\
  is_derive (fun x => en2_F1 f u_0 e_0 x P) rho (res_en2_DF10 (f_rho rho P)) /\ is_derive (fun x => en2_F1 f u_0 e_0 rho x) P (res_en2_DF11 (f_y rho P)).
Proof. intros f f_rho f_y H1 H2 u_0 rho_0 e_0. exact (en2_jacobian f f_rho f_y H1 H2 u_0 rho_0 e_0). Qed.
Print Assumptions simplified_energy_residual_jacobian.

Theorem simplified_energy_residual_inverse :
  forall rho_0 rho P a b : R,
  let d00 := res_en2_DF00 rho P rho_0 in let d01 := res_en2_DF01 rho rho_0 in let d10 := res_en2_DF10 a in let d11 := res_en2_DF11 b in
  let det := res_en2_det rho P rho_0 b a in
  det = d00 * d11 - d01 * d10 /\
  (det <> 0 ->
   let i00 := 1 / det * res_en2_ADJ00 b in let i01 := 1 / det * res_en2_ADJ01 rho rho_0 in
   let i10 := 1 / det * res_en2_ADJ10 a in let i11 := 1 / det * res_en2_ADJ11 rho P rho_0 in
   i00 * d00 + i01 * d10 = 1 /\ i00 * d01 + i01 * d11 = 0 /\ i10 * d00 + i11 * d10 = 0 /\ i10 * d01 + i11 * d11 = 1).
Proof. exact en2_inverse. Qed.
Print Assumptions simplified_energy_residual_inverse.

(* pressure_noh_residual: every entry except F_prime[2,0], whose true value is the NEGATIVE of the coded one *)
Theorem pressure_residual_jacobian_partial :
  forall (f f_rho f_y : R -> R -> R),
    (forall rho y, is_derive (fun r => f r y) rho (f_rho rho y)) -> (forall rho y, is_derive (fun z => f rho z) y (f_y rho y)) ->
  forall u_0 rho_0 P_0 symmetry e_0 rho e D : R, rho <> 0 -> D <> 0 -> 0 < 1 - u_0 / D ->
  is_derive (fun x => pr3_F0 u_0 rho_0 symmetry x e D) rho res_pr3_DF00 /\ is_derive (fun x => pr3_F0 u_0 rho_0 symmetry rho x D) e res_pr3_DF01 /\
  is_derive (fun x => pr3_F0 u_0 rho_0 symmetry rho e x) D (res_pr3_DF02 D u_0 rho_0 symmetry) /\
  is_derive (fun x => pr3_F1 f u_0 P_0 x e D) rho (res_pr3_DF10 D u_0 (f_rho rho e)) /\ is_derive (fun x => pr3_F1 f u_0 P_0 rho x D) e (res_pr3_DF11 (f_y rho e)) /\
  is_derive (fun x => pr3_F1 f u_0 P_0 rho e x) D (res_pr3_DF12 rho u_0) /\
  is_derive (fun x => pr3_F2 u_0 P_0 e_0 rho x D) e res_pr3_DF21 /\
  is_derive (fun x => pr3_F2 u_0 P_0 e_0 rho e x) D (res_pr3_DF22 rho D u_0 P_0) /\
  is_derive (fun x => pr3_F2 u_0 P_0 e_0 x e D) rho (- res_pr3_DF20 rho D u_0 P_0).
Proof. intros f f_rho f_y H1 H2 u_0 rho_0 P_0 symmetry e_0. exact (pr3_jacobian_partial f f_rho f_y H1 H2 u_0 rho_0 P_0 symmetry e_0). Qed.
Print Assumptions pressure_residual_jacobian_partial.

Theorem simplified_pressure_residual_jacobian :
  forall (f f_rho f_y : R -> R -> R),
    (forall rho y, is_derive (fun r => f r y) rho (f_rho rho y)) -> (forall rho y, is_derive (fun z => f rho z) y (f_y rho y)) ->
  forall u_0 rho_0 e_0 rho e : R, rho <> 0 ->
  is_derive (fun x => pr2_F0 f u_0 rho_0 x e) rho (res_pr2_DF00 rho rho_0 (f rho e) (f_rho rho e)) /\
  is_derive (fun x => pr2_F0 f u_0 rho_0 rho x) e (res_pr2_DF01 rho rho_0 (f_y rho e)) /\
  is_derive (fun x => pr2_F1 u_0 e_0 x e) rho res_pr2_DF10 /\ is_derive (fun x => pr2_F1 u_0 e_0 rho x) e res_pr2_DF11.
Proof. intros f f_rho f_y H1 H2 u_0 rho_0 e_0. exact (pr2_jacobian f f_rho f_y H1 H2 u_0 rho_0 e_0). Qed.
Print Assumptions simplified_pressure_residual_jacobian.

Theorem simplified_pressure_residual_inverse :
  forall rho_0 rho pv a b : R,
  let d00 := res_pr2_DF00 rho rho_0 pv a in let d01 := res_pr2_DF01 rho rho_0 b in let d10 := res_pr2_DF10 in let d11 := res_pr2_DF11 in
  let det := res_pr2_det rho rho_0 pv a in
  det = d00 * d11 - d01 * d10 /\
  (det <> 0 ->
   let i00 := 1 / det * res_pr2_ADJ00 in let i01 := 1 / det * res_pr2_ADJ01 rho rho_0 b in
   let i10 := 1 / det * res_pr2_ADJ10 in let i11 := 1 / det * res_pr2_ADJ11 rho rho_0 pv a in
   i00 * d00 + i01 * d10 = 1 /\ i00 * d01 + i01 * d11 = 0 /\ i10 * d00 + i11 * d10 = 0 /\ i10 * d01 + i11 * d11 = 1).
Proof. exact pr2_inverse. Qed.
Print Assumptions simplified_pressure_residual_inverse.
