From Coq Require Import List String Bool.
From EP Require Import gen.Catalogue spec.FieldNames model.Api proofs.C05_catalogue.
Import ListNotations.

(* For every public solver class found in the source (finite list, regenerated on every run; bound: the length
   of all_solvers): field names are known statically, drawn from the documented names, the first is a position
   name bound to the untouched input, and _run never mutates its input. *)
Theorem catalogue_contract : forall s, In s all_solvers -> solver_ok s = true.
Proof. exact catalogue_contract_forall_proof. Qed.
Print Assumptions catalogue_contract.

Theorem catalogue_nonempty : 100 <= List.length all_solvers.
Proof. exact catalogue_nonempty_proof. Qed.
