From Coq Require Import Reals.
From EP Require Import lib.Euler gen.Cog2 proofs.C01_cog2.
Open Scope R_scope.

(* Coggeshall 2: the returned fields satisfy the documented conservation equations.  *)
Theorem cog2_pde :
  forall geometry gamma rho0 b Gamma r t,
  0 < r -> 0 < t -> rho0 <> 0 -> gamma <> 1 -> Gamma <> 0 -> b + 2 <> 0 -> 2 + (gamma - 1) * (geometry - 1 + 1) <> 0 -> geometry - 1 + 1 <> 0 ->
  euler_at (geometry - 1)
    (cog2_density geometry gamma rho0 b Gamma)
    (cog2_velocity geometry gamma rho0 b Gamma)
    (cog2_pressure geometry gamma rho0 b Gamma)
    (cog2_specific_internal_energy geometry gamma rho0 b Gamma) r t.
Proof. exact cog2_pde_proof. Qed.
Print Assumptions cog2_pde.
