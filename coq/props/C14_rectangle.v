From Coq Require Import Reals.
From Coquelicot Require Import Coquelicot.
From EP Require Import lib.Base lib.Series gen.Rectangle proofs.C14_rectangle.
Open Scope R_scope.

(* heat2 kappa T Tx Txx Ty Tyy Tt (proofs/C14_rectangle.v): Tx, Ty are the x- and y-derivatives of T everywhere, Txx, Tyy their derivatives, Tt the time derivative,
   and Tt = kappa (Txx + Tyy) at every (x, y, t). *)
(* Rectangle, every Nsum (NonHomogeneousOnly = False): the returned temperature satisfies the 2-D heat equation everywhere *)
Theorem rectangle_heat_equation :
  forall kappa a b Ttop Nsum : R,
  exists Tx Txx Ty Tyy Tt : R -> R -> R -> R, heat2 kappa (fun x y t : R => rect_temperature kappa a b Ttop Nsum x y t) Tx Txx Ty Tyy Tt.
Proof. exact rectangle_heat_equation_proof. Qed.
Print Assumptions rectangle_heat_equation.

(* Rectangle, every Nsum: T = 0 on the bottom y = 0 and on both sides x = 0, x = a *)
Theorem rectangle_boundary :
  forall kappa a b Ttop Nsum : R,
  a <> 0 ->
  forall x y t : R,
  rect_temperature kappa a b Ttop Nsum x 0 t = 0 /\
  rect_temperature kappa a b Ttop Nsum 0 y t = 0 /\ rect_temperature kappa a b Ttop Nsum a y t = 0.
Proof. exact rectangle_boundary_proof. Qed.
Print Assumptions rectangle_boundary.

(* the x-derivative of the returned temperature, explicitly (TX: term-by-term derivative of the regenerated double series) *)
Theorem rectangle_x_derivative :
  forall (kappa a b Ttop Nsum : R) (x : R_AbsRing) (y t : R),
  is_derive (fun z : R_AbsRing => rect_temperature kappa a b Ttop Nsum z y t) x (TX kappa a b Ttop Nsum x y t).
Proof. exact rectangle_x_derivative. Qed.
Print Assumptions rectangle_x_derivative.
