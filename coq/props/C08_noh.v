From Coq Require Import Reals.
From Coquelicot Require Import Coquelicot.
From EP Require Import lib.Base lib.Euler lib.RH gen.Noh1 gen.Noh2 proofs.C08_noh.
Open Scope R_scope.

Theorem noh_units :
  forall mu ell tau geometry gamma u0 rho0 r t : R,
         0 < mu ->
         0 < ell ->
         0 < tau ->
         0 < r ->
         let u0' := ell / tau * u0 in
         let rho0' := mu / ell ^ 3 * rho0 in
         noh_density geometry gamma u0' rho0' (ell * r) (tau * t) =
         mu / ell ^ 3 * noh_density geometry gamma u0 rho0 r t /\
         noh_velocity geometry gamma u0' rho0' (ell * r) (tau * t) =
         ell / tau * noh_velocity geometry gamma u0 rho0 r t /\
         noh_pressure geometry gamma u0' rho0' (ell * r) (tau * t) =
         mu / ell / tau ^ 2 * noh_pressure geometry gamma u0 rho0 r t /\
         noh_specific_internal_energy geometry gamma u0' rho0' (ell * r) (tau * t) =
         (ell / tau) ^ 2 * noh_specific_internal_energy geometry gamma u0 rho0 r t.
Proof. exact noh_units_proof. Qed.
Print Assumptions noh_units.

Theorem noh2_units :
  forall mu ell geometry gamma rho0 e0 r t : R,
         0 < mu ->
         0 < ell ->
         t < 1 ->
         noh2_density geometry gamma (mu / ell ^ 3 * rho0) (ell ^ 2 * e0) (ell * r) t =
         mu / ell ^ 3 * noh2_density geometry gamma rho0 e0 r t /\
         noh2_velocity geometry gamma (mu / ell ^ 3 * rho0) (ell ^ 2 * e0) (ell * r) t =
         ell * noh2_velocity geometry gamma rho0 e0 r t /\
         noh2_pressure geometry gamma (mu / ell ^ 3 * rho0) (ell ^ 2 * e0) (ell * r) t =
         mu / ell * noh2_pressure geometry gamma rho0 e0 r t /\
         noh2_specific_internal_energy geometry gamma (mu / ell ^ 3 * rho0) (ell ^ 2 * e0) (ell * r) t =
         ell ^ 2 * noh2_specific_internal_energy geometry gamma rho0 e0 r t.
Proof. exact noh2_units_proof. Qed.
Print Assumptions noh2_units.

