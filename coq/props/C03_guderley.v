From Coq Require Import Reals.
From Coquelicot Require Import Coquelicot.
From EP Require Import lib.Base lib.RH gen.Guderley proofs.Guderley_alg.
Open Scope R_scope.

(* Guderley: in each of the three integrated branches the returned fields satisfy p = (gamma - 1) rho e and c^2 = gamma p / rho,
   whatever the integrator returns. *)
Theorem guderley_eos :
  forall r rho0 gamma lambda_ x y1 y2 : R,
  gamma <> 0 ->
  gamma - 1 <> 0 ->
  rho0 <> 0 ->
  y2 <> 0 ->
  lambda_ <> 0 ->
  x <> 0 ->
  (gud_conv_pres r rho0 gamma lambda_ x y1 y2 = (gamma - 1) * gud_conv_den rho0 y2 * gud_conv_sie r rho0 gamma lambda_ x y1 y2 /\
  gud_conv_snd r lambda_ x y1 ^ 2 = gamma * gud_conv_pres r rho0 gamma lambda_ x y1 y2 / gud_conv_den rho0 y2) /\
  (gud_pre_pres r rho0 gamma lambda_ x y1 y2 = (gamma - 1) * gud_pre_den rho0 y2 * gud_pre_sie r rho0 gamma lambda_ x y1 y2 /\
  gud_pre_snd r lambda_ x y1 ^ 2 = gamma * gud_pre_pres r rho0 gamma lambda_ x y1 y2 / gud_pre_den rho0 y2) /\
  gud_refl_pres r rho0 gamma lambda_ x y1 y2 = (gamma - 1) * gud_refl_den rho0 y2 * gud_refl_sie r rho0 gamma lambda_ x y1 y2 /\
  gud_refl_snd r lambda_ x y1 ^ 2 = gamma * gud_refl_pres r rho0 gamma lambda_ x y1 y2 / gud_refl_den rho0 y2.
Proof. exact guderley_eos_proof. Qed.
Print Assumptions guderley_eos.
