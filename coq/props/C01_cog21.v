From Coq Require Import Reals.
From Coquelicot Require Import Coquelicot.
From EP Require Import lib.Base lib.Euler gen.Cog21 proofs.C01_cog21.
Open Scope R_scope.

Theorem cog21_post :
  forall rho0 temp0 Gamma : R,
         0 < Gamma ->
         0 < temp0 ->
         rho0 <> 0 ->
         forall r t : R,
         0 < r ->
         0 < t ->
         r < cog21_shock temp0 Gamma t ->
         euler_at 2 (cog21_density rho0 temp0 Gamma) (cog21_velocity rho0 temp0 Gamma)
           (cog21_pressure rho0 temp0 Gamma) (cog21_specific_internal_energy rho0 temp0 Gamma) r t.
Proof. exact cog21_post_proof. Qed.
Print Assumptions cog21_post.

Theorem cog21_pre :
  forall rho0 temp0 Gamma : R,
         0 < Gamma ->
         0 < temp0 ->
         rho0 <> 0 ->
         forall r t : R,
         0 < r ->
         0 < t ->
         cog21_shock temp0 Gamma t < r ->
         euler_at 2 (cog21_density rho0 temp0 Gamma) (cog21_velocity rho0 temp0 Gamma)
           (cog21_pressure rho0 temp0 Gamma) (cog21_specific_internal_energy rho0 temp0 Gamma) r t.
Proof. exact cog21_pre_proof. Qed.
Print Assumptions cog21_pre.

