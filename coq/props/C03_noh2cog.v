From Coq Require Import Reals.
From EP Require Import lib.Base gen.Noh2Cog proofs.C03_noh2cog.
Open Scope R_scope.

(* noh2cog: at every point where the returned expressions are defined (no division by zero, see noh2cog_defined)
   the returned pressure, density, temperature and specific internal energy satisfy the declared EOS. P = Gamma rho T with Gamma = 1 class default *)
Theorem noh2cog_eos :
  forall geometry gamma rho0 e0 r t,
  noh2cog_defined geometry gamma rho0 e0 r t ->
  noh2cog_density geometry gamma rho0 e0 r t <> 0 ->
  gamma - 1 <> 0 ->
  noh2cog_pressure geometry gamma rho0 e0 r t = 1 * (noh2cog_density geometry gamma rho0 e0 r t) * (noh2cog_temperature geometry gamma rho0 e0 r t) /\
  noh2cog_specific_internal_energy geometry gamma rho0 e0 r t = 1 * (noh2cog_temperature geometry gamma rho0 e0 r t) / (gamma - 1) /\
  noh2cog_pressure geometry gamma rho0 e0 r t = (gamma - 1) * (noh2cog_density geometry gamma rho0 e0 r t) * (noh2cog_specific_internal_energy geometry gamma rho0 e0 r t).
Proof. exact noh2cog_eos_proof. Qed.
Print Assumptions noh2cog_eos.
