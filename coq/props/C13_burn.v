From Coq Require Import Reals.
From Coquelicot Require Import Coquelicot.
From EP Require Import lib.Base lib.Euler lib.RH lib.Euclid model.Burn proofs.C13_burn.
Open Scope R_scope.

Theorem k1_causal :
  forall D xd yd td : R,
         0 < D ->
         k1_bt2 D xd yd td xd yd = td /\
         (forall x y : R, td <= k1_bt2 D xd yd td x y) /\
         (forall x y x' y' : R,
          Rabs (k1_bt2 D xd yd td x y - k1_bt2 D xd yd td x' y') <= norm2 (x - x') (y - y') / D).
Proof. exact k1_causal_proof. Qed.
Print Assumptions k1_causal.

Theorem k1_causal3 :
  forall D xd yd zd td : R,
         0 < D ->
         k1_bt3 D xd yd zd td xd yd zd = td /\
         (forall x y z : R, td <= k1_bt3 D xd yd zd td x y z) /\
         (forall x y z x' y' z' : R,
          Rabs (k1_bt3 D xd yd zd td x y z - k1_bt3 D xd yd zd td x' y' z') <=
          norm3 (x - x') (y - y') (z - z') / D).
Proof. exact k1_causal3_proof. Qed.
Print Assumptions k1_causal3.

Theorem k1_eikonal :
  forall D xd yd td x y : R,
         0 < D ->
         (x - xd) ^ 2 + (y - yd) ^ 2 <> 0 ->
         exists gx gy : R_NormedModule,
           is_derive (fun u : R_AbsRing => k1_bt2 D xd yd td u y) x gx /\
           is_derive (fun v : R_AbsRing => k1_bt2 D xd yd td x v) y gy /\ gx ^ 2 + gy ^ 2 = (1 / D) ^ 2.
Proof. exact k1_eikonal_proof. Qed.
Print Assumptions k1_eikonal.

Theorem k2_lipschitz :
  forall R_ D1 D2 d1 d2 d4 d5 t1 t2 t3 t4 t5 : R,
         0 < D2 ->
         D2 <= D1 ->
         forall x y x' y' : R,
         Rabs
           (k2_bt2 R_ D1 D2 d1 d2 d4 d5 t1 t2 t3 t4 t5 x y - k2_bt2 R_ D1 D2 d1 d2 d4 d5 t1 t2 t3 t4 t5 x' y') <=
         norm2 (x - x') (y - y') / D2.
Proof. exact k2_lipschitz_proof. Qed.
Print Assumptions k2_lipschitz.

Theorem k2_causal :
  forall R_ D1 D2 d1 d2 d4 d5 t1 t2 t3 t4 t5 x y : R,
         0 < D2 ->
         0 < D1 -> Rmin (Rmin (Rmin (Rmin t3 t1) t2) t4) t5 <= k2_bt2 R_ D1 D2 d1 d2 d4 d5 t1 t2 t3 t4 t5 x y.
Proof. exact k2_causal_proof. Qed.
Print Assumptions k2_causal.

Theorem dsd_leg_derivative :
  forall ra alpha DCJ r : R,
         0 < DCJ ->
         0 <= alpha ->
         alpha / DCJ < ra ->
         ra <= r ->
         is_derive (fun s : R_AbsRing => dsd_leg s ra (alpha / DCJ) DCJ) r (1 / (DCJ - alpha / r)) /\
         0 < 1 / (DCJ - alpha / r).
Proof. exact dsd_leg_derivative_proof. Qed.
Print Assumptions dsd_leg_derivative.

Theorem dsd_continuity :
  forall r_1 r_2 D1 D2 a1 a2 t_d : R,
         0 < D1 ->
         0 < D2 ->
         a1 / D1 < r_1 ->
         a2 / D2 < r_2 ->
         r_1 < r_2 ->
         (forall x y : R, norm2 x y < r_1 -> dsd_bt r_1 r_2 D1 D2 a1 a2 t_d x y = t_d) /\
         (forall x y : R, norm2 x y = r_1 -> dsd_bt r_1 r_2 D1 D2 a1 a2 t_d x y = t_d) /\
         (forall x y : R,
          norm2 x y = r_2 -> dsd_bt r_1 r_2 D1 D2 a1 a2 t_d x y = t_d + dsd_leg r_2 r_1 (a1 / D1) D1).
Proof. exact dsd_continuity_proof. Qed.
Print Assumptions dsd_continuity.

