From Coq Require Import Reals.
From Coquelicot Require Import Coquelicot.
From EP Require Import lib.Base lib.Euler lib.RH gen.Cog20 proofs.C01_cog20 proofs.C02_cog20_refuted.
Open Scope R_scope.

Theorem cog20_rh_refuted :
  let geometry := cog20_default_geometry in
         let gamma := cog20_default_gamma in
         let rho0 := cog20_default_rho0 in
         let u0 := cog20_default_u0 in
         let a := 1 / 20 in
         let Gamma := cog20_default_Gamma in
         let t := 1 in
         cog20_init_ok geometry gamma rho0 u0 a Gamma /\
         0 < cog20_shock gamma u0 a t /\
         (exists (s : R_NormedModule) (J : jump_states),
            is_derive (cog20_shock gamma u0 a) t s /\
            fields_jump (fun r : R => cog20_density geometry gamma rho0 u0 a Gamma r t)
              (fun r : R => cog20_velocity geometry gamma rho0 u0 a Gamma r t)
              (fun r : R => cog20_pressure geometry gamma rho0 u0 a Gamma r t)
              (fun r : R => cog20_specific_internal_energy geometry gamma rho0 u0 a Gamma r t)
              (cog20_shock gamma u0 a t) J /\ jl_rho J * (jl_u J - s) <> jr_rho J * (jr_u J - s)).
Proof. exact cog20_rh_refuted_proof. Qed.
Print Assumptions cog20_rh_refuted.

