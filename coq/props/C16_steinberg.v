From Coq Require Import Reals.
From Coquelicot Require Import Coquelicot.
From EP Require Import lib.Base lib.Euler lib.RH lib.Euclid gen.EosLibrary proofs.C16_eos proofs.C16_steinberg.
Open Scope R_scope.

Theorem eos_st_dP_drho_expansion :
  forall rd rp rg b c0 s1 s2 s3 rho e : R,
         0 < rho ->
         rho < rd ->
         is_derive (fun x : R_AbsRing => eos_st_P x e rd rp rg b c0 s1 s2 s3) rho
           (eos_st_dP_drho rho e rd rp rg b c0 s1 s2 s3).
Proof. exact eos_st_dP_drho_expansion_proof. Qed.
Print Assumptions eos_st_dP_drho_expansion.

Theorem eos_st_dP_drho_compression :
  forall rd rp rg b c0 s1 s2 s3 rho e : R,
         0 < rd ->
         rd < rho ->
         1 - s1 * (1 - rd / rho) - s2 * (1 - rd / rho) ^ 2 - s3 * (1 - rd / rho) ^ 3 <> 0 ->
         is_derive (fun x : R_AbsRing => eos_st_P x e rd rp rg b c0 s1 s2 s3) rho
           (eos_st_dP_drho rho e rd rp rg b c0 s1 s2 s3).
Proof. exact eos_st_dP_drho_compression_proof. Qed.
Print Assumptions eos_st_dP_drho_compression.

Theorem eos_st_dP_de :
  forall (rd rp rg b c0 s1 s2 s3 rho : R) (e : R_AbsRing),
         is_derive (fun y : R_AbsRing => eos_st_P rho y rd rp rg b c0 s1 s2 s3) e
           (eos_st_dP_de rho e rd rp rg b c0 s1 s2 s3).
Proof. exact eos_st_dP_de_proof. Qed.
Print Assumptions eos_st_dP_de.

Theorem eos_st_de_drho_expansion :
  forall rd rp rg b c0 s1 s2 s3 rho P : R,
         0 < rho ->
         rho < rd ->
         eos_st_gruneisen rho rd rp rg b c0 s1 s2 s3 <> 0 ->
         is_derive (fun x : R_AbsRing => eos_st_e x P rd rp rg b c0 s1 s2 s3) rho
           (eos_st_de_drho rho P rd rp rg b c0 s1 s2 s3).
Proof. exact eos_st_de_drho_expansion_proof. Qed.
Print Assumptions eos_st_de_drho_expansion.

Theorem eos_st_de_drho_compression :
  forall rd rp rg b c0 s1 s2 s3 rho P : R,
         0 < rd ->
         rd < rho ->
         eos_st_gruneisen rho rd rp rg b c0 s1 s2 s3 <> 0 ->
         1 - s1 * (1 - rd / rho) - s2 * (1 - rd / rho) ^ 2 - s3 * (1 - rd / rho) ^ 3 <> 0 ->
         is_derive (fun x : R_AbsRing => eos_st_e x P rd rp rg b c0 s1 s2 s3) rho
           (eos_st_de_drho rho P rd rp rg b c0 s1 s2 s3).
Proof. exact eos_st_de_drho_compression_proof. Qed.
Print Assumptions eos_st_de_drho_compression.

Theorem eos_st_de_dP :
  forall (rd rp rg b c0 s1 s2 s3 rho : R) (P : R_AbsRing),
         rho <> 0 ->
         eos_st_gruneisen rho rd rp rg b c0 s1 s2 s3 <> 0 ->
         is_derive (fun y : R_AbsRing => eos_st_e rho y rd rp rg b c0 s1 s2 s3) P
           (eos_st_de_dP rho P rd rp rg b c0 s1 s2 s3).
Proof. exact eos_st_de_dP_proof. Qed.
Print Assumptions eos_st_de_dP.

