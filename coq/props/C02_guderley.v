From Coq Require Import Reals.
From Coquelicot Require Import Coquelicot.
From EP Require Import lib.Base lib.RH gen.Guderley proofs.Guderley_alg.
Open Scope R_scope.

(* Guderley, converging shock (x = -1, shock at r = (t/x)^(1/lambda), speed r^(1-lambda)/(lambda x)): the ambient state of branch `ahead` and the
   start values of the integration, mapped to physical fields by branch `conv`, satisfy the three jump conditions. *)
Theorem guderley_converging_shock_rh :
  forall r rho0 gamma lambda_ : R,
  1 < gamma ->
  rho0 <> 0 ->
  lambda_ <> 0 ->
  let V := gud_start_V gamma in
  let C := gud_start_C gamma in
  let Rr := gud_start_R gamma in
  rh_jump (Rpower r (1 - lambda_) / (lambda_ * -1)) (gud_ahead_den rho0) gud_ahead_vel gud_ahead_pres gud_ahead_sie
  (gud_conv_den rho0 Rr) (gud_conv_vel r lambda_ (-1) V) (gud_conv_pres r rho0 gamma lambda_ (-1) C Rr)
  (gud_conv_sie r rho0 gamma lambda_ (-1) C Rr).
Proof. exact guderley_converging_shock_rh_proof. Qed.
Print Assumptions guderley_converging_shock_rh.

(* Guderley, reflected shock (x = B): for ANY values (y0, y1, y2) the integrator delivers just ahead of the shock, the state of branch `pre` and the state of
   branch `refl` built from the coded jump satisfy mass, momentum and energy conservation across a shock moving with r^(1-lambda)/(lambda B).
   Hypotheses: nonzero denominators, and the coded square root has a non-negative argument (numpy would return nan otherwise). *)
Theorem guderley_reflected_shock_rh :
  forall r rho0 gamma lambda_ B y0 y1 y2 : R,
  1 < gamma ->
  rho0 <> 0 ->
  lambda_ <> 0 ->
  B <> 0 ->
  y2 <> 0 ->
  y1 <> 0 ->
  1 + y0 <> 0 ->
  1 + gud_jump_V gamma y0 y1 <> 0 ->
  0 <= y1 ^ 2 + 1 / 2 * (gamma - 1) * ((1 + y0) ^ 2 - (1 + gud_jump_V gamma y0 y1) ^ 2) ->
  let V1 := gud_jump_V gamma y0 y1 in
  let C1 := gud_jump_C gamma y0 y1 in
  let R1 := gud_jump_R gamma y0 y1 y2 in
  rh_jump (Rpower r (1 - lambda_) / (lambda_ * B)) (gud_pre_den rho0 y2) (gud_pre_vel r lambda_ B y0)
  (gud_pre_pres r rho0 gamma lambda_ B y1 y2) (gud_pre_sie r rho0 gamma lambda_ B y1 y2) (gud_refl_den rho0 R1) (gud_refl_vel r lambda_ B V1)
  (gud_refl_pres r rho0 gamma lambda_ B C1 R1) (gud_refl_sie r rho0 gamma lambda_ B C1 R1).
Proof. exact guderley_reflected_shock_rh_proof. Qed.
Print Assumptions guderley_reflected_shock_rh.
