From Coq Require Import Reals.
From EP Require Import lib.Base gen.Cog3 proofs.C03_cog3.
Open Scope R_scope.

(* cog3: at every point where the returned expressions are defined (no division by zero, see cog3_defined)
   the returned pressure, density, temperature and specific internal energy satisfy the declared EOS. P = Gamma rho T, e = Gamma T/(gamma-1) with the built-in gamma = (((geometry - 1) - 1) / ((geometry - 1) + 1)) *)
Theorem cog3_eos :
  forall geometry rho0 b v Gamma r t,
  cog3_defined geometry rho0 b v Gamma r t ->
  cog3_density geometry rho0 b v Gamma r t <> 0 ->
  (((geometry - 1) - 1) / ((geometry - 1) + 1)) - 1 <> 0 ->
  cog3_pressure geometry rho0 b v Gamma r t = Gamma * (cog3_density geometry rho0 b v Gamma r t) * (cog3_temperature geometry rho0 b v Gamma r t) /\
  cog3_specific_internal_energy geometry rho0 b v Gamma r t = Gamma * (cog3_temperature geometry rho0 b v Gamma r t) / ((((geometry - 1) - 1) / ((geometry - 1) + 1)) - 1) /\
  cog3_pressure geometry rho0 b v Gamma r t = ((((geometry - 1) - 1) / ((geometry - 1) + 1)) - 1) * (cog3_density geometry rho0 b v Gamma r t) * (cog3_specific_internal_energy geometry rho0 b v Gamma r t).
Proof. exact cog3_eos_proof. Qed.
Print Assumptions cog3_eos.
