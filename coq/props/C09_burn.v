From Coq Require Import Reals.
From Coquelicot Require Import Coquelicot.
From EP Require Import lib.Base lib.Euler lib.RH lib.Euclid model.Burn proofs.C13_burn.
Open Scope R_scope.

Theorem k1_rigid_motion :
  forall D xd yd td x y a b c d e f : R,
         a * a + c * c = 1 ->
         b * b + d * d = 1 ->
         a * b + c * d = 0 ->
         k1_bt2 D (a * xd + b * yd + e) (c * xd + d * yd + f) td (a * x + b * y + e) (c * x + d * y + f) =
         k1_bt2 D xd yd td x y.
Proof. exact k1_rigid_motion_proof. Qed.
Print Assumptions k1_rigid_motion.

Theorem k2_reflection :
  forall R_ D1 D2 d1 d2 d4 d5 t1 t2 t3 t4 t5 x y : R,
         k2_bt2 R_ D1 D2 d1 d2 d4 d5 t1 t2 t3 t4 t5 (- x) y = k2_bt2 R_ D1 D2 d1 d2 d4 d5 t1 t2 t3 t4 t5 x y.
Proof. exact k2_reflection_proof. Qed.
Print Assumptions k2_reflection.

Theorem dsd_rotation :
  forall r_1 r_2 D1 D2 a1 a2 t_d x y a b c d : R,
         a * a + c * c = 1 ->
         b * b + d * d = 1 ->
         a * b + c * d = 0 ->
         dsd_bt r_1 r_2 D1 D2 a1 a2 t_d (a * x + b * y) (c * x + d * y) = dsd_bt r_1 r_2 D1 D2 a1 a2 t_d x y.
Proof. exact dsd_rotation_proof. Qed.
Print Assumptions dsd_rotation.

