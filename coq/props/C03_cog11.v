From Coq Require Import Reals.
From EP Require Import lib.Base gen.Cog11 proofs.C03_cog11.
Open Scope R_scope.

(* cog11: at every point where the returned expressions are defined (no division by zero, see cog11_defined)
   the returned pressure, density, temperature and specific internal energy satisfy the declared EOS. P = Gamma rho T, e = Gamma T/(gamma-1) *)
Theorem cog11_eos :
  forall geometry gamma beta rho0 temp0 Gamma r t,
  cog11_defined geometry gamma beta rho0 temp0 Gamma r t ->
  cog11_density geometry gamma beta rho0 temp0 Gamma r t <> 0 ->
  gamma - 1 <> 0 ->
  cog11_pressure geometry gamma beta rho0 temp0 Gamma r t = Gamma * (cog11_density geometry gamma beta rho0 temp0 Gamma r t) * (cog11_temperature geometry gamma beta rho0 temp0 Gamma r t) /\
  cog11_specific_internal_energy geometry gamma beta rho0 temp0 Gamma r t = Gamma * (cog11_temperature geometry gamma beta rho0 temp0 Gamma r t) / (gamma - 1) /\
  cog11_pressure geometry gamma beta rho0 temp0 Gamma r t = (gamma - 1) * (cog11_density geometry gamma beta rho0 temp0 Gamma r t) * (cog11_specific_internal_energy geometry gamma beta rho0 temp0 Gamma r t).
Proof. exact cog11_eos_proof. Qed.
Print Assumptions cog11_eos.
