From Coq Require Import Reals.
From EP Require Import lib.Base gen.Cog7 proofs.C03_cog7.
Open Scope R_scope.

(* cog7: at every point where the returned expressions are defined (no division by zero, see cog7_defined)
   the returned pressure, density, temperature and specific internal energy satisfy the declared EOS. P = Gamma rho T, e = Gamma T/(gamma-1) with the built-in gamma = (((geometry - 1) + 3) / ((geometry - 1) + 1)) *)
Theorem cog7_eos :
  forall geometry tau b R0 Ri Gamma r t,
  cog7_defined geometry tau b R0 Ri Gamma r t ->
  cog7_density geometry tau b R0 Ri Gamma r t <> 0 ->
  (((geometry - 1) + 3) / ((geometry - 1) + 1)) - 1 <> 0 ->
  cog7_pressure geometry tau b R0 Ri Gamma r t = Gamma * (cog7_density geometry tau b R0 Ri Gamma r t) * (cog7_temperature geometry tau b R0 Ri Gamma r t) /\
  cog7_specific_internal_energy geometry tau b R0 Ri Gamma r t = Gamma * (cog7_temperature geometry tau b R0 Ri Gamma r t) / ((((geometry - 1) + 3) / ((geometry - 1) + 1)) - 1) /\
  cog7_pressure geometry tau b R0 Ri Gamma r t = ((((geometry - 1) + 3) / ((geometry - 1) + 1)) - 1) * (cog7_density geometry tau b R0 Ri Gamma r t) * (cog7_specific_internal_energy geometry tau b R0 Ri Gamma r t).
Proof. exact cog7_eos_proof. Qed.
Print Assumptions cog7_eos.
