From Coq Require Import Reals.
From EP Require Import lib.Base gen.Cog18 proofs.C03_cog18.
Open Scope R_scope.

(* cog18: at every point where the returned expressions are defined (no division by zero, see cog18_defined)
   the returned pressure, density, temperature and specific internal energy satisfy the declared EOS. P = Gamma rho T, e = Gamma T/(gamma-1) with the built-in gamma = (((geometry - 1) + 3) / ((geometry - 1) + 1)) *)
Theorem cog18_eos :
  forall geometry alpha beta rho0 tau Gamma r t,
  cog18_defined geometry alpha beta rho0 tau Gamma r t ->
  cog18_density geometry alpha beta rho0 tau Gamma r t <> 0 ->
  (((geometry - 1) + 3) / ((geometry - 1) + 1)) - 1 <> 0 ->
  cog18_pressure geometry alpha beta rho0 tau Gamma r t = Gamma * (cog18_density geometry alpha beta rho0 tau Gamma r t) * (cog18_temperature geometry alpha beta rho0 tau Gamma r t) /\
  cog18_specific_internal_energy geometry alpha beta rho0 tau Gamma r t = Gamma * (cog18_temperature geometry alpha beta rho0 tau Gamma r t) / ((((geometry - 1) + 3) / ((geometry - 1) + 1)) - 1) /\
  cog18_pressure geometry alpha beta rho0 tau Gamma r t = ((((geometry - 1) + 3) / ((geometry - 1) + 1)) - 1) * (cog18_density geometry alpha beta rho0 tau Gamma r t) * (cog18_specific_internal_energy geometry alpha beta rho0 tau Gamma r t).
Proof. exact cog18_eos_proof. Qed.
Print Assumptions cog18_eos.
