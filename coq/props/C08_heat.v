From Coq Require Import Reals.
From Coquelicot Require Import Coquelicot.
From EP Require Import lib.Base lib.Euler lib.RH lib.Euclid lib.Series gen.Heat proofs.C08_heat.
Open Scope R_scope.

Theorem rod_bc1_units :
  forall ell tau th L Nsum TL TR alpha1 alpha2 gamma1 gamma2 kappa x t : R,
         0 < ell ->
         0 < tau ->
         L <> 0 ->
         alpha1 <> 0 ->
         alpha2 <> 0 ->
         rod_bc1_temperature (ell * L) Nsum (th * TL) (th * TR) alpha1 alpha2 (th * gamma1) 
           (th * gamma2) (kappa * ell ^ 2 / tau) (ell * x) (tau * t) =
         th * rod_bc1_temperature L Nsum TL TR alpha1 alpha2 gamma1 gamma2 kappa x t.
Proof. exact rod_bc1_units_proof. Qed.
Print Assumptions rod_bc1_units.

Theorem rod_bc2_units :
  forall ell tau th L Nsum TL TR beta1 beta2 gamma1 gamma2 kappa x t : R,
         0 < ell ->
         0 < tau ->
         L <> 0 ->
         beta1 <> 0 ->
         rod_bc2_temperature (ell * L) Nsum (th * TL) (th * TR) (ell * beta1) (ell * beta2) 
           (th * gamma1) (th * gamma2) (kappa * ell ^ 2 / tau) (ell * x) (tau * t) =
         th * rod_bc2_temperature L Nsum TL TR beta1 beta2 gamma1 gamma2 kappa x t.
Proof. exact rod_bc2_units_proof. Qed.
Print Assumptions rod_bc2_units.

Theorem rod_bc3_units :
  forall ell tau th L Nsum TL TR alpha1 beta2 gamma1 gamma2 kappa x t : R,
         0 < ell ->
         0 < tau ->
         L <> 0 ->
         alpha1 <> 0 ->
         beta2 <> 0 ->
         rod_bc3_temperature (ell * L) Nsum (th * TL) (th * TR) alpha1 (ell * beta2) 
           (th * gamma1) (th * gamma2) (kappa * ell ^ 2 / tau) (ell * x) (tau * t) =
         th * rod_bc3_temperature L Nsum TL TR alpha1 beta2 gamma1 gamma2 kappa x t.
Proof. exact rod_bc3_units_proof. Qed.
Print Assumptions rod_bc3_units.

Theorem rod_bc4_units :
  forall ell tau th L Nsum TL TR alpha2 beta1 gamma1 gamma2 kappa x t : R,
         0 < ell ->
         0 < tau ->
         L <> 0 ->
         alpha2 <> 0 ->
         beta1 <> 0 ->
         rod_bc4_temperature (ell * L) Nsum (th * TL) (th * TR) alpha2 (ell * beta1) 
           (th * gamma1) (th * gamma2) (kappa * ell ^ 2 / tau) (ell * x) (tau * t) =
         th * rod_bc4_temperature L Nsum TL TR alpha2 beta1 gamma1 gamma2 kappa x t.
Proof. exact rod_bc4_units_proof. Qed.
Print Assumptions rod_bc4_units.

