From Coq Require Import Reals.
From EP Require Import lib.Base gen.Cog21 proofs.C03_cog21.
Open Scope R_scope.

(* cog21: at every point where the returned expressions are defined (no division by zero, see cog21_defined)
   the returned pressure, density, temperature and specific internal energy satisfy the declared EOS. P = Gamma rho T, e = Gamma T/(gamma-1) with the built-in gamma = 5 *)
Theorem cog21_eos :
  forall rho0 temp0 Gamma r t,
  cog21_defined rho0 temp0 Gamma r t ->
  cog21_density rho0 temp0 Gamma r t <> 0 ->
  5 - 1 <> 0 ->
  cog21_pressure rho0 temp0 Gamma r t = Gamma * (cog21_density rho0 temp0 Gamma r t) * (cog21_temperature rho0 temp0 Gamma r t) /\
  cog21_specific_internal_energy rho0 temp0 Gamma r t = Gamma * (cog21_temperature rho0 temp0 Gamma r t) / (5 - 1) /\
  cog21_pressure rho0 temp0 Gamma r t = (5 - 1) * (cog21_density rho0 temp0 Gamma r t) * (cog21_specific_internal_energy rho0 temp0 Gamma r t).
Proof. exact cog21_eos_proof. Qed.
Print Assumptions cog21_eos.
