From Coq Require Import Reals.
From Coquelicot Require Import Coquelicot.
From EP Require Import lib.Base lib.Euler lib.RH gen.Cog21 proofs.C01_cog21 proofs.C02_cog21.
Open Scope R_scope.

Theorem cog21_rh :
  forall rho0 temp0 Gamma t : R,
         0 < t ->
         0 < Gamma ->
         0 < temp0 ->
         rho0 <> 0 ->
         exists (s : R_NormedModule) (J : jump_states),
           is_derive (cog21_shock temp0 Gamma) t s /\
           fields_jump (fun r : R => cog21_density rho0 temp0 Gamma r t)
             (fun r : R => cog21_velocity rho0 temp0 Gamma r t)
             (fun r : R => cog21_pressure rho0 temp0 Gamma r t)
             (fun r : R => cog21_specific_internal_energy rho0 temp0 Gamma r t) (cog21_shock temp0 Gamma t) J /\
           rh_holds s J.
Proof. exact cog21_rh_proof. Qed.
Print Assumptions cog21_rh.

