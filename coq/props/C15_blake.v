From Coq Require Import Reals.
From Coquelicot Require Import Coquelicot.
From EP Require Import lib.Base lib.Euler lib.RH lib.Euclid spec.Elasticity gen.Blake proofs.C15_blake.
Open Scope R_scope.

Theorem blake_strain_rr_is_derivative :
  forall b a cl k1 n r t : R,
         0 < cl ->
         b <> 0 ->
         n <> 0 ->
         0 < a ->
         a < r ->
         0 < t - (r - a) / cl ->
         is_derive (fun x : R_AbsRing => blake_displacement b a cl k1 n x t) r
           (blake_strain_rr b a cl k1 n r t).
Proof. exact blake_strain_rr_is_derivative_proof. Qed.
Print Assumptions blake_strain_rr_is_derivative.

Theorem blake_wave_equation :
  forall b a cl k1 n r t : R,
         0 < cl ->
         b <> 0 ->
         n <> 0 ->
         0 < a ->
         a < r ->
         0 < t - (r - a) / cl ->
         exists (ut : R -> R) (urr utt : R),
           (forall s : R,
            0 < s - (r - a) / cl ->
            is_derive (fun s' : R_AbsRing => blake_displacement b a cl k1 n r s') s (ut s)) /\
           is_derive ut t utt /\
           is_derive (fun y : R_AbsRing => blake_strain_rr b a cl k1 n y t) r urr /\
           utt =
           cl ^ 2 *
           (urr + 2 * blake_strain_rr b a cl k1 n r t / r - 2 * blake_displacement b a cl k1 n r t / r ^ 2).
Proof. exact blake_wave_equation_proof. Qed.
Print Assumptions blake_wave_equation.

Theorem blake_elasticity :
  forall b a cl k1 n lam G rho0 r t : R,
         let u := blake_displacement b a cl k1 n r t in
         let err := blake_strain_rr b a cl k1 n r t in
         let eqq := blake_strain_qq b a cl k1 n r t in
         let srr := blake_stress_rr b a cl k1 lam n r G t in
         let sqq := blake_stress_qq b a cl k1 lam n r G t in
         let p := blake_pressure b a cl k1 lam n r G t in
         eqq = u / r /\
         blake_strain_vol b a cl k1 n r t = err + 2 * eqq /\
         srr = (lam + 2 * G) * err + 2 * lam * eqq /\
         sqq = lam * err + 2 * (lam + G) * eqq /\
         p = - (1 / 3) * (srr + 2 * sqq) /\
         blake_stress_dev_rr b a cl k1 lam n r G t = srr + p /\
         blake_stress_dev_qq b a cl k1 lam n r G t = sqq + p /\
         blake_stress_diff b a cl k1 lam n r G t = Rabs (srr - sqq) /\
         blake_density b a cl k1 n r rho0 t = rho0 / (1 + blake_strain_vol b a cl k1 n r t) /\
         blake_curr_posn b a cl k1 n r t = r + u.
Proof. exact blake_elasticity_proof. Qed.
Print Assumptions blake_elasticity.

Theorem blake_zero_ahead :
  forall b a cl k1 n lam G r t : R,
         t - (r - a) / cl <= 0 \/ r < a ->
         blake_displacement b a cl k1 n r t = 0 /\
         blake_strain_rr b a cl k1 n r t = 0 /\
         blake_stress_rr b a cl k1 lam n r G t = 0 /\ blake_pressure b a cl k1 lam n r G t = 0.
Proof. exact blake_zero_ahead_proof. Qed.
Print Assumptions blake_zero_ahead.

Theorem blake_cavity_condition :
  forall a cl nu pscl rho0 lam G t : R,
         0 < a ->
         0 < cl ->
         0 < rho0 ->
         -1 < nu ->
         nu < 1 / 2 ->
         0 < t ->
         lam + 2 * G = rho0 * cl ^ 2 ->
         lam = nu / (1 - nu) * (lam + 2 * G) ->
         let n := blake_n a cl nu in
         let b := blake_b a cl nu in
         let k1 := blake_k1 b a n pscl rho0 in blake_stress_rr b a cl k1 lam n a G t = - pscl.
Proof. exact blake_cavity_condition_proof. Qed.
Print Assumptions blake_cavity_condition.

Theorem blake_material :
  forall lam G E nu K M a pscl rho0 t : R,
         iso_material lam G E nu K M ->
         0 < a ->
         0 < rho0 ->
         0 < t ->
         let cl := blake_cl M rho0 in
         let n := blake_n a cl nu in
         let b := blake_b a cl nu in
         let k1 := blake_k1 b a n pscl rho0 in
         0 < cl /\ 0 < n /\ 0 < b /\ blake_stress_rr b a cl k1 lam n a G t = - pscl.
Proof. exact blake_material_proof. Qed.
Print Assumptions blake_material.

