From Coq Require Import Reals.
From Coquelicot Require Import Coquelicot.
From EP Require Import lib.Base gen.Guderley proofs.Guderley_alg.
Open Scope R_scope.

(* Guderley, reflected shock: whenever the flow the integrator delivers ahead of the shock is supersonic relative to it (C^2 < (1 + V)^2), the coded jump
   raises the density, leaves the flow behind subsonic relative to the shock ((1 + V1)^2 < (1 + V)^2 with the same direction) - an admissible compressive shock. *)
Theorem guderley_reflected_shock_compressive :
  forall gamma y0 y1 y2 : R,
  1 < gamma -> 1 + y0 <> 0 -> 0 < y2 -> y1 ^ 2 < (1 + y0) ^ 2 ->
  y2 < gud_jump_R gamma y0 y1 y2 /\
  (1 + gud_jump_V gamma y0 y1) ^ 2 < (1 + y0) ^ 2 /\ 0 < (1 + gud_jump_V gamma y0 y1) * (1 + y0).
Proof. exact guderley_reflected_shock_compressive_proof. Qed.
Print Assumptions guderley_reflected_shock_compressive.

(* Guderley, converging shock: density ratio (gamma+1)/(gamma-1) > 1, gas set in motion towards the axis, positive sound speed *)
Theorem guderley_converging_shock_compressive :
  forall gamma : R, 1 < gamma -> 1 < gud_start_R gamma /\ gud_start_V gamma < 0 /\ 0 < gud_start_C gamma.
Proof. exact guderley_converging_shock_compressive_proof. Qed.
Print Assumptions guderley_converging_shock_compressive.
