From Coq Require Import Reals.
From EP Require Import lib.Euler gen.Cog1 proofs.C01_cog1.
Open Scope R_scope.

(* Cog1: for every geometry value, gamma<>1, rho0<>0, any b, temp0, Gamma, at every r>0, t>0 the
   returned density, velocity, pressure and specific internal energy satisfy mass, momentum and
   energy conservation. *)
Theorem cog1_euler :
  forall geometry gamma rho0 temp0 b Gamma r t,
  0 < r -> 0 < t -> rho0 <> 0 -> gamma <> 1 ->
  euler_at (geometry - 1)
    (cog1_density geometry gamma rho0 temp0 b Gamma)
    (cog1_velocity geometry gamma rho0 temp0 b Gamma)
    (cog1_pressure geometry gamma rho0 temp0 b Gamma)
    (cog1_specific_internal_energy geometry gamma rho0 temp0 b Gamma) r t.
Proof. exact cog1_euler_proof. Qed.
Print Assumptions cog1_euler.
