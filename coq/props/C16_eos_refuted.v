From Coq Require Import Reals.
From Coquelicot Require Import Coquelicot.
From EP Require Import lib.Base lib.Euler lib.RH lib.Euclid gen.EosLibrary proofs.C16_eos.
Open Scope R_scope.

Theorem eos_cs_de_drho_refuted :
  let gamma := 5 / 3 in
         let b := 1 in
         let rho := 1 / 2 in
         let P := 2 in
         rho <> 0 /\
         1 - b * rho <> 0 /\
         ~ is_derive (fun x : R_AbsRing => eos_cs_e x P gamma b) rho (eos_cs_de_drho rho P gamma b).
Proof. exact eos_cs_de_drho_refuted_proof. Qed.
Print Assumptions eos_cs_de_drho_refuted.

