From Coq Require Import Reals.
From EP Require Import lib.Base gen.Noh1 proofs.C03_noh.
Open Scope R_scope.

(* noh: at every point where the returned expressions are defined (no division by zero, see noh_defined)
   the returned pressure, density, temperature and specific internal energy satisfy the declared EOS. P = (gamma-1) rho e *)
Theorem noh_eos :
  forall geometry gamma u0 rho0 r t,
  noh_defined geometry gamma u0 rho0 r t ->
  noh_density geometry gamma u0 rho0 r t <> 0 ->
  gamma - 1 <> 0 ->
  noh_pressure geometry gamma u0 rho0 r t = (gamma - 1) * (noh_density geometry gamma u0 rho0 r t) * (noh_specific_internal_energy geometry gamma u0 rho0 r t).
Proof. exact noh_eos_proof. Qed.
Print Assumptions noh_eos.
