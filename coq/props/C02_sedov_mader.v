From Coq Require Import Reals.
From Coquelicot Require Import Coquelicot.
From EP Require Import lib.Base lib.RH gen.Sedov gen.Mader proofs.Sedov_shock proofs.C17_mader.
Open Scope R_scope.

(* Sedov: strong-shock jump conditions between the coded post-shock state and the undisturbed profile rho0 r^-omega,
   with the shock speed that is the time derivative of the coded shock radius *)
Theorem sedov_shock_rh :
  forall t rho0 eblast alpha omega xg2 gamma : R, 0 < t -> 1 < gamma -> xg2 <> 0 -> 0 < rho0 ->
    rh_jump (sed_us t rho0 eblast alpha xg2)
      (sed_rho2 t rho0 eblast alpha omega xg2 ((gamma + 1) / (gamma - 1))) (sed_u2 t rho0 eblast alpha xg2 (gamma + 1))
      (sed_p2 t rho0 eblast alpha omega xg2 (gamma + 1))
      (sed_p2 t rho0 eblast alpha omega xg2 (gamma + 1) / (gamma - 1) / sed_rho2 t rho0 eblast alpha omega xg2 ((gamma + 1) / (gamma - 1)))
      (sed_rho1 t rho0 eblast alpha omega xg2) 0 0 0.
Proof. intros t rho0 eblast alpha omega xg2 gamma Ht Hg Hx Hr. exact (sedov_shock_rh_proof t rho0 eblast alpha omega xg2 gamma Hg Hr). Qed.
Print Assumptions sedov_shock_rh.

Theorem sedov_shock_speed :
  forall t rho0 eblast alpha xg2 : R, 0 < t -> xg2 <> 0 ->
    is_derive (fun y => sed_r2 y rho0 eblast alpha xg2) t (sed_us t rho0 eblast alpha xg2).
Proof. intros t rho0 eblast alpha xg2 Ht Hx. exact (sedov_shock_speed_proof t rho0 eblast alpha xg2 Ht Hx). Qed.
Print Assumptions sedov_shock_speed.

(* Mader: the CJ state coded in rare() satisfies mass and momentum conservation across the detonation front and the sonic condition *)
Theorem mader_cj_state :
  forall p_cj d_cj gam : R, 0 < p_cj -> 0 < d_cj -> 1 < gam ->
    rho_0 p_cj d_cj gam * d_cj = rho_cj p_cj d_cj gam * (d_cj - u_cj d_cj gam) /\
    p_cj = rho_0 p_cj d_cj gam * d_cj * u_cj d_cj gam /\
    u_cj d_cj gam + c_cj d_cj gam = d_cj /\
    c_cj d_cj gam ^ 2 = gam * p_cj / rho_cj p_cj d_cj gam.
Proof. exact mader_cj_state_proof. Qed.
Print Assumptions mader_cj_state.
