From Coq Require Import Reals.
From Coquelicot Require Import Coquelicot.
From EP Require Import lib.Base lib.Euler gen.Cog17 proofs.C01_cog17.
Open Scope R_scope.

Theorem cog17_mass_refuted :
  let geometry := 3 in
         let gamma := 2 in
         let alpha := -1 in
         let beta := - (1 / 2) in
         let lambda0 := 1 / 10 in
         let Gamma := 40 in
         let r := 1 in
         let t := 1 in
         cog17_init_ok geometry gamma alpha beta lambda0 Gamma /\
         0 < cog17_density geometry gamma alpha beta lambda0 Gamma r t /\
         0 < cog17_temperature geometry gamma alpha beta lambda0 Gamma r t /\
         ~
         mass_eq (geometry - 1) (cog17_density geometry gamma alpha beta lambda0 Gamma)
           (cog17_velocity geometry gamma alpha beta lambda0 Gamma) r t.
Proof. exact cog17_mass_refuted_proof. Qed.
Print Assumptions cog17_mass_refuted.

