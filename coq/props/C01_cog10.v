From Coq Require Import Reals.
From EP Require Import lib.Euler gen.Cog10 proofs.C01_cog10.
Open Scope R_scope.

(* Coggeshall 10: mass, momentum and energy conservation with the conduction flux F = -K0 rho^alpha T^(beta+3) dT/dr, alpha = beta + 4 - 1/k,
   K0 = 4 a c lambda0 / 3, for every k <> 0, gamma, beta, lambda0, rho0 > 0, temp0 > 0, r > 0, t. *)
Theorem cog10_pde :
  forall geometry gamma beta lambda0 rho0 temp0 Gamma r t,
  0 < r -> geometry - 1 <> 0 -> gamma <> 1 -> gamma <> 0 -> Gamma <> 0 -> 0 < rho0 -> 0 < temp0 ->
  euler_heat_at (geometry - 1) (KC10 lambda0) (beta + 4 - 1 / (geometry - 1)) beta
    (cog10_density geometry gamma beta lambda0 rho0 temp0 Gamma)
    (cog10_velocity geometry gamma beta lambda0 rho0 temp0 Gamma)
    (cog10_temperature geometry gamma beta lambda0 rho0 temp0 Gamma)
    (cog10_pressure geometry gamma beta lambda0 rho0 temp0 Gamma)
    (cog10_specific_internal_energy geometry gamma beta lambda0 rho0 temp0 Gamma) r t.
Proof. exact cog10_pde_proof. Qed.
Print Assumptions cog10_pde.

Example cog10_hyps_satisfiable : 0 < 1 /\ cog10_default_geometry - 1 <> 0 /\ cog10_default_gamma <> 1 /\ cog10_default_gamma <> 0 /\ cog10_default_Gamma <> 0 /\
  0 < cog10_default_rho0 /\ 0 < cog10_default_temp0.
Proof. exact cog10_hyps_example. Qed.
