From Coq Require Import Reals.
From EP Require Import lib.Euler gen.Cog3 proofs.C01_cog3.
Open Scope R_scope.

(* Coggeshall 3: the returned fields satisfy the documented conservation equations.  *)
Theorem cog3_pde :
  forall geometry rho0 b v Gamma r t,
  0 < r -> 0 < t -> rho0 <> 0 -> v <> 0 -> b <> 0 -> Gamma <> 0 -> geometry - 1 - v - 1 <> 0 -> geometry <> 0 -> geometry <> 2 ->
  euler_at (geometry - 1)
    (cog3_density geometry rho0 b v Gamma)
    (cog3_velocity geometry rho0 b v Gamma)
    (cog3_pressure geometry rho0 b v Gamma)
    (cog3_specific_internal_energy geometry rho0 b v Gamma) r t.
Proof. exact cog3_pde_proof. Qed.
Print Assumptions cog3_pde.
