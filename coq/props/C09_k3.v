From Coq Require Import Reals.
From Coquelicot Require Import Coquelicot.
From EP Require Import lib.Base lib.Euclid model.Burn proofs.C13_k3.
Open Scope R_scope.

(* Kenamond 3 (2-D): rotating or reflecting detonator and evaluation point together (any orthogonal matrix) leaves the burn time unchanged *)
Theorem k3_orthogonal2 :
  forall R_ D xd yd td x y a b c d : R,
  a * a + c * c = 1 ->
  b * b + d * d = 1 ->
  a * b + c * d = 0 -> k3_bt2 R_ D (a * xd + b * yd) (c * xd + d * yd) td (a * x + b * y) (c * x + d * y) = k3_bt2 R_ D xd yd td x y.
Proof. exact k3_orthogonal2_proof. Qed.
Print Assumptions k3_orthogonal2.

(* Kenamond 3 (3-D): any orthogonal map of space (matrix with orthonormal columns) applied to detonator and evaluation point leaves the burn time unchanged *)
Theorem k3_orthogonal3 :
  forall R_ D xd yd zd td x y z m11 m12 m13 m21 m22 m23 m31 m32 m33 : R,
  m11 * m11 + m21 * m21 + m31 * m31 = 1 ->
  m12 * m12 + m22 * m22 + m32 * m32 = 1 ->
  m13 * m13 + m23 * m23 + m33 * m33 = 1 ->
  m11 * m12 + m21 * m22 + m31 * m32 = 0 ->
  m11 * m13 + m21 * m23 + m31 * m33 = 0 ->
  m12 * m13 + m22 * m23 + m32 * m33 = 0 ->
  k3_bt3 R_ D (m11 * xd + m12 * yd + m13 * zd) (m21 * xd + m22 * yd + m23 * zd) (m31 * xd + m32 * yd + m33 * zd) td
  (m11 * x + m12 * y + m13 * z) (m21 * x + m22 * y + m23 * z) (m31 * x + m32 * y + m33 * z) = k3_bt3 R_ D xd yd zd td x y z.
Proof. exact k3_orthogonal3_proof. Qed.
Print Assumptions k3_orthogonal3.
