From Coq Require Import List String Bool ZArith.
From EP Require Import model.History model.Api gen.Footprint proofs.C06_history proofs.C06_footprint.
Import ListNotations.

(* One activation whose reads are all dominated by its own writes reads the same values from any two stores. *)
Theorem activation_independent : forall compute p, dominated p = true ->
  forall s1 s2, snd (exec compute p s1 []) = snd (exec compute p s2 []).
Proof. exact activation_independent_proof. Qed.
Print Assumptions activation_independent.

(* Any finite history of dominated activations (any solvers, any inputs, any interleaving), started from any
   store: the k-th activation reads exactly what it would read in a fresh interpreter. *)
Theorem history_independent : forall h st,
  Forall (fun a => dominated (snd a) = true) h ->
  snd (run_history h st) = map (fun a => snd (exec (fst a) (snd a) fresh [])) h.
Proof. exact history_independent_proof. Qed.
Print Assumptions history_independent.

(* Every function of /repo/exactpack/solvers that declares module-level globals (Guderley, eexp, RMTV, Su-Olson):
   its access program, helper callbacks inlined, is dominated. *)
Theorem all_global_programs_dominated : forall e, In e global_programs -> dominated (snd e) = true.
Proof. apply forallb_forall. exact all_global_programs_dominated_proof. Qed.

Theorem global_programs_nonempty : 5 <= List.length global_programs.
Proof. exact global_programs_nonempty_proof. Qed.

(* No solver class carries class-level mutable objects other than the reviewed ones. *)
Theorem class_shared_state_reviewed : forall e, In e class_shared_state -> mem (fst e) reviewed_shared_state = true.
Proof. apply forallb_forall. exact class_shared_state_reviewed_proof. Qed.

(* No module of exactpack/solvers keeps a module-level container (dict / list / set / array) that one of its functions mutates:
   there is no cache or registry that could survive from one evaluation to the next. *)
Theorem no_module_level_caches : module_mutated_containers = [].
Proof. exact no_module_caches_proof. Qed.

(* No solver method other than a constructor reads an attribute of its object before writing it in the same method, except the
   reviewed idempotent re-stores: no per-object cache carried from one call to the next. *)
Theorem instance_carried_state_reviewed : forall e, In e instance_carried_state -> mem (fst e) reviewed_carried_state = true.
Proof. apply forallb_forall. exact instance_carried_state_reviewed_proof. Qed.
