From Coq Require Import List String Bool ZArith.
From EP Require Import model.History model.Api gen.Footprint proofs.C06_history proofs.C06_footprint.
Import ListNotations.

(* One activation whose reads are all dominated by its own writes reads the same values from any two stores. *)
Theorem activation_independent : forall compute p, dominated p = true ->
  forall s1 s2, snd (exec compute p s1 []) = snd (exec compute p s2 []).
Proof. exact activation_independent_proof. Qed.
Print Assumptions activation_independent.

(* Any finite history of dominated activations (any solvers, any inputs, any interleaving), started from any
   store: the k-th activation reads exactly what it would read in a fresh interpreter. *)
Theorem history_independent : forall h st,
  Forall (fun a => dominated (snd a) = true) h ->
  snd (run_history h st) = map (fun a => snd (exec (fst a) (snd a) fresh [])) h.
Proof. exact history_independent_proof. Qed.
Print Assumptions history_independent.

(* Every function of /repo/exactpack/solvers that declares module-level globals (Guderley, eexp, RMTV, Su-Olson):
   its access program, helper callbacks inlined, is dominated. *)
Theorem all_global_programs_dominated : forall e, In e global_programs -> dominated (snd e) = true.
Proof. apply forallb_forall. exact all_global_programs_dominated_proof. Qed.

Theorem global_programs_nonempty : 5 <= List.length global_programs.
Proof. exact global_programs_nonempty_proof. Qed.

(* No solver class carries class-level mutable objects other than the reviewed ones. *)
Theorem class_shared_state_reviewed : forall e, In e class_shared_state -> mem (fst e) reviewed_shared_state = true.
Proof. apply forallb_forall. exact class_shared_state_reviewed_proof. Qed.
