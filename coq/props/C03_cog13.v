From Coq Require Import Reals.
From EP Require Import lib.Base gen.Cog13 proofs.C03_cog13.
Open Scope R_scope.

(* cog13: at every point where the returned expressions are defined (no division by zero, see cog13_defined)
   the returned pressure, density, temperature and specific internal energy satisfy the declared EOS. P = Gamma rho T, e = Gamma T/(gamma-1) *)
Theorem cog13_eos :
  forall geometry gamma rho0 alpha beta lambda0 Gamma r t,
  cog13_defined geometry gamma rho0 alpha beta lambda0 Gamma r t ->
  cog13_density geometry gamma rho0 alpha beta lambda0 Gamma r t <> 0 ->
  gamma - 1 <> 0 ->
  cog13_pressure geometry gamma rho0 alpha beta lambda0 Gamma r t = Gamma * (cog13_density geometry gamma rho0 alpha beta lambda0 Gamma r t) * (cog13_temperature geometry gamma rho0 alpha beta lambda0 Gamma r t) /\
  cog13_specific_internal_energy geometry gamma rho0 alpha beta lambda0 Gamma r t = Gamma * (cog13_temperature geometry gamma rho0 alpha beta lambda0 Gamma r t) / (gamma - 1) /\
  cog13_pressure geometry gamma rho0 alpha beta lambda0 Gamma r t = (gamma - 1) * (cog13_density geometry gamma rho0 alpha beta lambda0 Gamma r t) * (cog13_specific_internal_energy geometry gamma rho0 alpha beta lambda0 Gamma r t).
Proof. exact cog13_eos_proof. Qed.
Print Assumptions cog13_eos.
