From Coq Require Import Reals.
From EP Require Import lib.Base gen.Cog9 proofs.C03_cog9.
Open Scope R_scope.

(* cog9: at every point where the returned expressions are defined (no division by zero, see cog9_defined)
   the returned pressure, density, temperature and specific internal energy satisfy the declared EOS. P = Gamma rho T, e = Gamma T/(gamma-1) *)
Theorem cog9_eos :
  forall geometry gamma alpha beta rho0 Gamma r t,
  cog9_defined geometry gamma alpha beta rho0 Gamma r t ->
  cog9_density geometry gamma alpha beta rho0 Gamma r t <> 0 ->
  gamma - 1 <> 0 ->
  cog9_pressure geometry gamma alpha beta rho0 Gamma r t = Gamma * (cog9_density geometry gamma alpha beta rho0 Gamma r t) * (cog9_temperature geometry gamma alpha beta rho0 Gamma r t) /\
  cog9_specific_internal_energy geometry gamma alpha beta rho0 Gamma r t = Gamma * (cog9_temperature geometry gamma alpha beta rho0 Gamma r t) / (gamma - 1) /\
  cog9_pressure geometry gamma alpha beta rho0 Gamma r t = (gamma - 1) * (cog9_density geometry gamma alpha beta rho0 Gamma r t) * (cog9_specific_internal_energy geometry gamma alpha beta rho0 Gamma r t).
Proof. exact cog9_eos_proof. Qed.
Print Assumptions cog9_eos.
