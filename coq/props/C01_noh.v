From Coq Require Import Reals.
From Coquelicot Require Import Coquelicot.
From EP Require Import lib.Base lib.Euler gen.Noh1 proofs.C01_noh.
Open Scope R_scope.

Theorem noh_post :
  forall geometry gamma u0 rho0 r t : R,
         0 < r ->
         0 < t ->
         rho0 <> 0 ->
         r < noh_shock gamma u0 t ->
         euler_at (geometry - 1) (noh_density geometry gamma u0 rho0) (noh_velocity geometry gamma u0 rho0)
           (noh_pressure geometry gamma u0 rho0) (noh_specific_internal_energy geometry gamma u0 rho0) r t.
Proof. exact noh_post_proof. Qed.
Print Assumptions noh_post.

Theorem noh_pre :
  forall geometry gamma u0 rho0 : R,
         u0 < 0 ->
         forall r t : R,
         0 < r ->
         0 < t ->
         rho0 <> 0 ->
         noh_shock gamma u0 t < r ->
         euler_at (geometry - 1) (noh_density geometry gamma u0 rho0) (noh_velocity geometry gamma u0 rho0)
           (noh_pressure geometry gamma u0 rho0) (noh_specific_internal_energy geometry gamma u0 rho0) r t.
Proof. exact noh_pre_proof. Qed.
Print Assumptions noh_pre.

