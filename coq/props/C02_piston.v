From Coq Require Import Reals.
From EP Require Import lib.Base lib.RH gen.Piston proofs.Piston_rh.
Open Scope R_scope.

(* EP piston: jump conditions with the total stress sigma = p - s_dev.  rh_jump s rhoL uL sigmaL eL rhoR uR sigmaR eR. *)
Theorem piston_elastic_precursor_rh :
  forall gamma c0 s0 Y rho0 rho_y : R,
    0 < rho0 -> rho0 < rho_y -> 2 * rho0 * rho_y - rho_y * gamma * (rho_y - rho0) <> 0 ->
    0 <= epp_p_y gamma c0 s0 Y rho0 rho_y - epp_sdev_y Y ->
    rh_jump (epp_wv_el gamma c0 s0 Y rho0 rho_y) rho_y (epp_vel_y gamma c0 s0 Y rho0 rho_y)
      (epp_p_y gamma c0 s0 Y rho0 rho_y - epp_sdev_y Y) (epp_e_y gamma c0 s0 Y rho0 rho_y) rho0 0 0 0.
Proof. intros gamma c0 s0 Y rho0 rho_y. exact (elastic_precursor_rh gamma c0 s0 Y rho0 0 rho_y 0). Qed.
Print Assumptions piston_elastic_precursor_rh.

Theorem piston_plastic_wave_rh :
  forall gamma c0 s0 Y rho0 up rho_y wv_pl : R,
    0 < rho0 -> rho0 < rho_y -> wv_pl <> up -> wv_pl <> epp_vel_y gamma c0 s0 Y rho0 rho_y ->
    rh_jump wv_pl (epp_rho2 gamma c0 s0 Y rho0 up rho_y wv_pl) up (epp_p2 gamma c0 s0 Y rho0 up rho_y wv_pl - epp_sdev_y Y)
      (epp_e2 gamma c0 s0 Y rho0 up rho_y wv_pl) rho_y (epp_vel_y gamma c0 s0 Y rho0 rho_y)
      (epp_p_y gamma c0 s0 Y rho0 rho_y - epp_sdev_y Y) (epp_e_y gamma c0 s0 Y rho0 rho_y).
Proof. exact plastic_wave_rh. Qed.
Print Assumptions piston_plastic_wave_rh.
