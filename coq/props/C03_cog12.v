From Coq Require Import Reals.
From EP Require Import lib.Base gen.Cog12 proofs.C03_cog12.
Open Scope R_scope.

(* cog12: at every point where the returned expressions are defined (no division by zero, see cog12_defined)
   the returned pressure, density, temperature and specific internal energy satisfy the declared EOS. P = Gamma rho T, e = Gamma T/(gamma-1) *)
Theorem cog12_eos :
  forall geometry gamma beta rho0 u0 Gamma r t,
  cog12_defined geometry gamma beta rho0 u0 Gamma r t ->
  cog12_density geometry gamma beta rho0 u0 Gamma r t <> 0 ->
  gamma - 1 <> 0 ->
  cog12_pressure geometry gamma beta rho0 u0 Gamma r t = Gamma * (cog12_density geometry gamma beta rho0 u0 Gamma r t) * (cog12_temperature geometry gamma beta rho0 u0 Gamma r t) /\
  cog12_specific_internal_energy geometry gamma beta rho0 u0 Gamma r t = Gamma * (cog12_temperature geometry gamma beta rho0 u0 Gamma r t) / (gamma - 1) /\
  cog12_pressure geometry gamma beta rho0 u0 Gamma r t = (gamma - 1) * (cog12_density geometry gamma beta rho0 u0 Gamma r t) * (cog12_specific_internal_energy geometry gamma beta rho0 u0 Gamma r t).
Proof. exact cog12_eos_proof. Qed.
Print Assumptions cog12_eos.
