From Coq Require Import Reals List Sorted.
From Coquelicot Require Import Coquelicot.
From EP Require Import lib.Base lib.Euler lib.RH lib.Euclid model.Interp gen.RadShock proofs.C12_interp proofs.C12_wave.
Open Scope R_scope.

Theorem interp_shift :
  forall (c : R) (pts : list (R * R)) (x : R), interp (x + c) (shift_knots c pts) = interp x pts.
Proof. exact interp_shift_proof. Qed.
Print Assumptions interp_shift.

Theorem travelling_wave :
  forall (c : R) (pts : list (R * R)) (x : R), interp x (shift_knots c pts) = interp (x - c) pts.
Proof. exact travelling_wave_proof. Qed.
Print Assumptions travelling_wave.

Theorem interp_between :
  forall (rest : list (R * R)) (x k0 v0 lo hi : R),
         k0 < x ->
         lo <= v0 <= hi ->
         List.Forall (fun kv : R * R => lo <= snd kv <= hi) rest ->
         (forall (k1 v1 : R) (r : list (R * R)), rest = ((k1, v1) :: r)%list -> k0 < k1) ->
         Sorted.StronglySorted (fun a b : R * R => fst a < fst b) rest -> lo <= interp_aux x k0 v0 rest <= hi.
Proof. exact interp_between_proof. Qed.
Print Assumptions interp_between.

Theorem radshock_travelling_wave :
  forall (M0 sound t : R) (profile : list (R * R)) (x : R),
         wrapper_field (rs_ed_shift M0 sound t) profile x = interp (x - M0 * sound * t) profile /\
         wrapper_field (rs_ned_shift M0 sound t) profile x = interp (x - M0 * sound * t) profile /\
         wrapper_field (rs_sn_shift M0 sound t) profile x = interp (x - M0 * sound * t) profile /\
         wrapper_field (rs_ie_shift M0 sound t) profile x = interp (x - M0 * sound * t) profile.
Proof. exact radshock_travelling_wave_proof. Qed.
Print Assumptions radshock_travelling_wave.

Theorem radshock_speed :
  forall M0 gamma Cv Tref t : R,
         rs_ed_shift M0 (rs_sound Cv Tref gamma) t = M0 * sqrt (gamma * (gamma - 1) * Cv * Tref) * t /\
         rs_ie_shift M0 (rs_sound_ie Cv Tref gamma) t = M0 * sqrt (gamma * (gamma - 1) * Cv * Tref) * t.
Proof. exact radshock_speed_proof. Qed.
Print Assumptions radshock_speed.

Theorem radshock_time_only_displaces :
  forall (M0 sound t1 t2 : R) (profile : list (R * R)) (x : R),
         wrapper_field (rs_ed_shift M0 sound t2) profile x =
         wrapper_field (rs_ed_shift M0 sound t1) profile (x - M0 * sound * (t2 - t1)).
Proof. exact radshock_time_only_displaces_proof. Qed.
Print Assumptions radshock_time_only_displaces.

