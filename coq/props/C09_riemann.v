From Coq Require Import Reals.
From Coquelicot Require Import Coquelicot.
From EP Require Import lib.Base lib.Euler lib.RH gen.Riemann model.RiemannIG proofs.Riemann_sym.
Open Scope R_scope.

Theorem igeos_mirror_calls :
  forall px gl gr pl pr rl rr ul ur : R,
         rie_SCS_call px gr gl pr pl rr rl (- ur) (- ul) = rie_SCS_call px gl gr pl pr rl rr ul ur /\
         rie_RCR_call px gr gl pr pl rr rl (- ur) (- ul) = rie_RCR_call px gl gr pl pr rl rr ul ur /\
         rie_RCS_call px gr gl pr pl rr rl (- ur) (- ul) = rie_SCR_call px gl gr pl pr rl rr ul ur /\
         rie_SCR_call px gr gl pr pl rr rl (- ur) (- ul) = rie_RCS_call px gl gr pl pr rl rr ul ur.
Proof. exact igeos_mirror_calls_proof. Qed.
Print Assumptions igeos_mirror_calls.

Theorem igeos_boost_calls :
  forall v px gl gr pl pr rl rr ul ur : R,
         rie_SCS_call px gl gr pl pr rl rr (ul + v) (ur + v) = rie_SCS_call px gl gr pl pr rl rr ul ur /\
         rie_SCR_call px gl gr pl pr rl rr (ul + v) (ur + v) = rie_SCR_call px gl gr pl pr rl rr ul ur /\
         rie_RCS_call px gl gr pl pr rl rr (ul + v) (ur + v) = rie_RCS_call px gl gr pl pr rl rr ul ur /\
         rie_RCR_call px gl gr pl pr rl rr (ul + v) (ur + v) = rie_RCR_call px gl gr pl pr rl rr ul ur.
Proof. exact igeos_boost_calls_proof. Qed.
Print Assumptions igeos_boost_calls.

Theorem igeos_boost_classify :
  forall v pl rl ul gl pr rr ur gr : R,
         ig_classify pl rl (ul + v) gl pr rr (ur + v) gr = ig_classify pl rl ul gl pr rr ur gr.
Proof. exact igeos_boost_classify_proof. Qed.
Print Assumptions igeos_boost_classify.

Theorem igeos_boost_speeds :
  forall (v pl rl ul gl pr rr ur gr : R) (pat : pattern) (px : R),
         List.map (fun w : R => w + v) (ig_Vregs pl rl ul gl pr rr ur gr pat px) =
         ig_Vregs pl rl (ul + v) gl pr rr (ur + v) gr pat px /\
         ig_ux pl rl (ul + v) gl pat px = ig_ux pl rl ul gl pat px + v /\
         ig_rx1 pl rl gl pat px = ig_rx1 pl rl gl pat px.
Proof. exact igeos_boost_speeds_proof. Qed.
Print Assumptions igeos_boost_speeds.

