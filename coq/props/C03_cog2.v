From Coq Require Import Reals.
From EP Require Import lib.Base gen.Cog2 proofs.C03_cog2.
Open Scope R_scope.

(* cog2: at every point where the returned expressions are defined (no division by zero, see cog2_defined)
   the returned pressure, density, temperature and specific internal energy satisfy the declared EOS. P = Gamma rho T, e = Gamma T/(gamma-1) *)
Theorem cog2_eos :
  forall geometry gamma rho0 b Gamma r t,
  cog2_defined geometry gamma rho0 b Gamma r t ->
  cog2_density geometry gamma rho0 b Gamma r t <> 0 ->
  gamma - 1 <> 0 ->
  cog2_pressure geometry gamma rho0 b Gamma r t = Gamma * (cog2_density geometry gamma rho0 b Gamma r t) * (cog2_temperature geometry gamma rho0 b Gamma r t) /\
  cog2_specific_internal_energy geometry gamma rho0 b Gamma r t = Gamma * (cog2_temperature geometry gamma rho0 b Gamma r t) / (gamma - 1) /\
  cog2_pressure geometry gamma rho0 b Gamma r t = (gamma - 1) * (cog2_density geometry gamma rho0 b Gamma r t) * (cog2_specific_internal_energy geometry gamma rho0 b Gamma r t).
Proof. exact cog2_eos_proof. Qed.
Print Assumptions cog2_eos.
