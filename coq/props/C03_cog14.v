From Coq Require Import Reals.
From EP Require Import lib.Base gen.Cog14 proofs.C03_cog14.
Open Scope R_scope.

(* cog14: at every point where the returned expressions are defined (no division by zero, see cog14_defined)
   the returned pressure, density, temperature and specific internal energy satisfy the declared EOS. P = Gamma rho T, e = Gamma T/(gamma-1) *)
Theorem cog14_eos :
  forall geometry gamma rho0 alpha beta lambda0 Gamma r t,
  cog14_defined geometry gamma rho0 alpha beta lambda0 Gamma r t ->
  cog14_density geometry gamma rho0 alpha beta lambda0 Gamma r t <> 0 ->
  gamma - 1 <> 0 ->
  cog14_pressure geometry gamma rho0 alpha beta lambda0 Gamma r t = Gamma * (cog14_density geometry gamma rho0 alpha beta lambda0 Gamma r t) * (cog14_temperature geometry gamma rho0 alpha beta lambda0 Gamma r t) /\
  cog14_specific_internal_energy geometry gamma rho0 alpha beta lambda0 Gamma r t = Gamma * (cog14_temperature geometry gamma rho0 alpha beta lambda0 Gamma r t) / (gamma - 1) /\
  cog14_pressure geometry gamma rho0 alpha beta lambda0 Gamma r t = (gamma - 1) * (cog14_density geometry gamma rho0 alpha beta lambda0 Gamma r t) * (cog14_specific_internal_energy geometry gamma rho0 alpha beta lambda0 Gamma r t).
Proof. exact cog14_eos_proof. Qed.
Print Assumptions cog14_eos.
