From Coq Require Import Reals.
From EP Require Import lib.Base gen.Cog16 proofs.C03_cog16.
Open Scope R_scope.

(* cog16: at every point where the returned expressions are defined (no division by zero, see cog16_defined)
   the returned pressure, density, temperature and specific internal energy satisfy the declared EOS. P = Gamma rho T, e = Gamma T/(gamma-1) *)
Theorem cog16_eos :
  forall geometry gamma u0 b lambda0 Gamma r t,
  cog16_defined geometry gamma u0 b lambda0 Gamma r t ->
  cog16_density geometry gamma u0 b lambda0 Gamma r t <> 0 ->
  gamma - 1 <> 0 ->
  cog16_pressure geometry gamma u0 b lambda0 Gamma r t = Gamma * (cog16_density geometry gamma u0 b lambda0 Gamma r t) * (cog16_temperature geometry gamma u0 b lambda0 Gamma r t) /\
  cog16_specific_internal_energy geometry gamma u0 b lambda0 Gamma r t = Gamma * (cog16_temperature geometry gamma u0 b lambda0 Gamma r t) / (gamma - 1) /\
  cog16_pressure geometry gamma u0 b lambda0 Gamma r t = (gamma - 1) * (cog16_density geometry gamma u0 b lambda0 Gamma r t) * (cog16_specific_internal_energy geometry gamma u0 b lambda0 Gamma r t).
Proof. exact cog16_eos_proof. Qed.
Print Assumptions cog16_eos.
