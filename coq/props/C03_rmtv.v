From Coq Require Import Reals.
From Coquelicot Require Import Coquelicot.
From EP Require Import lib.Base lib.Euler lib.RH lib.Euclid gen.Rmtv proofs.C03_rmtv.
Open Scope R_scope.

Theorem rmtv_eos :
  forall alpha bigamma g0 gamma kappa rpos sigma time xi_end y1 y3 : R,
         gamma <> 1 ->
         bigamma <> 0 ->
         time <> 0 ->
         let rho := rmtv_density g0 kappa rpos sigma xi_end y1 in
         let T := rmtv_temperature alpha bigamma rpos time y3 in
         let e := rmtv_energy alpha gamma rpos time y3 in
         let P := rmtv_pressure alpha g0 gamma kappa rpos sigma time xi_end y1 y3 in
         P = (gamma - 1) * rho * e /\
         P = 10 ^ 13 * (bigamma * rho * T) /\ e = 10 ^ 13 * (bigamma * T / (gamma - 1)).
Proof. exact rmtv_eos_proof. Qed.
Print Assumptions rmtv_eos.

