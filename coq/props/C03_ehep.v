From Coq Require Import Reals.
From EP Require Import gen.Ehep proofs.C03_ehep.
Open Scope R_scope.

(* Escape of HE products: in each of the five regions the regenerated pressure, density and sound speed satisfy cs^2 rho = 3 p (gamma = 3 gas)
   and lie on the CJ isentrope 256 rho_0^2 p = 27 D^2 rho^3 - every x, t, D <> 0, rho_0, piston speed, xtilde (vacuum edge of region II included). *)
Theorem ehep_eos : forall x t D_ rho_0 up xtilde ttilde, D_ <> 0 ->
  (ehep_I_cs x t D_ ^ 2 * ehep_I_rho x t D_ rho_0 = 3 * ehep_I_p x t D_ rho_0 /\
   256 * rho_0 ^ 2 * ehep_I_p x t D_ rho_0 = 27 * D_ ^ 2 * ehep_I_rho x t D_ rho_0 ^ 3) /\
  (ehep_II_cs x t xtilde ttilde ^ 2 * ehep_II_rho x t D_ rho_0 xtilde ttilde = 3 * ehep_II_p x t D_ rho_0 xtilde ttilde /\
   256 * rho_0 ^ 2 * ehep_II_p x t D_ rho_0 xtilde ttilde = 27 * D_ ^ 2 * ehep_II_rho x t D_ rho_0 xtilde ttilde ^ 3) /\
  (ehep_III_cs D_ up ^ 2 * ehep_III_rho D_ rho_0 up = 3 * ehep_III_p D_ rho_0 up /\
   256 * rho_0 ^ 2 * ehep_III_p D_ rho_0 up = 27 * D_ ^ 2 * ehep_III_rho D_ rho_0 up ^ 3) /\
  (ehep_IV_cs x t D_ up xtilde ^ 2 * ehep_IV_rho x t D_ rho_0 up xtilde = 3 * ehep_IV_p x t D_ rho_0 up xtilde /\
   256 * rho_0 ^ 2 * ehep_IV_p x t D_ rho_0 up xtilde = 27 * D_ ^ 2 * ehep_IV_rho x t D_ rho_0 up xtilde ^ 3) /\
  (ehep_V_cs t D_ up ttilde ^ 2 * ehep_V_rho t D_ rho_0 up ttilde = 3 * ehep_V_p t D_ rho_0 up ttilde /\
   256 * rho_0 ^ 2 * ehep_V_p t D_ rho_0 up ttilde = 27 * D_ ^ 2 * ehep_V_rho t D_ rho_0 up ttilde ^ 3).
Proof. exact ehep_eos_proof. Qed.
Print Assumptions ehep_eos.

(* the returned specific internal energy is the gamma-law energy of the returned pressure and density *)
Theorem ehep_sie_eos : forall gamma p rho, rho <> 0 -> gamma <> 1 -> p = (gamma - 1) * rho * ehep_sie gamma p rho.
Proof. exact ehep_sie_eos_proof. Qed.
Print Assumptions ehep_sie_eos.
