From Coq Require Import Reals.
From Coquelicot Require Import Coquelicot.
From EP Require Import lib.Base lib.SimpleWave gen.Riemann model.RiemannIG proofs.C17_riemann.
Open Scope R_scope.

(* the wave pattern chosen by the driver's if/elif chain puts the star pressure on the admissible side of every wave:
   shocks compress (p* >= p0), fans expand (p* <= p0) - for every left/right state and every root of the chosen equation *)
Theorem igeos_classification_admissible :
  forall pl rl ul gl pr rr ur gr px : R,
    0 < pl -> 0 < rl -> 1 < gl -> 0 < pr -> 0 < rr -> 1 < gr -> 0 < px ->
    let pat := ig_classify pl rl ul gl pr rr ur gr in
    pat <> RCVCR ->
    ig_call pl rl ul gl pr rr ur gr pat px = 0 ->
    (left_shock pat -> pl <= px) /\ (left_fan pat -> px <= pl) /\
    (right_shock pat -> pr <= px) /\ (right_fan pat -> px <= pr).
Proof. exact classification_admissible. Qed.
Print Assumptions igeos_classification_admissible.

Theorem igeos_shock_density_rise :
  forall p r g px : R, 0 < p -> 0 < r -> 1 < g -> p <= px -> r <= rie_rho_star_shock px p r g.
Proof. exact shock_density_rise_proof. Qed.
Print Assumptions igeos_shock_density_rise.

Theorem igeos_fan_density_drop :
  forall p r g px : R, 0 < p -> 0 < r -> 1 < g -> 0 < px -> px <= p -> rie_rho_star_rarefaction px p r g <= r.
Proof. exact fan_density_drop_proof. Qed.
Print Assumptions igeos_fan_density_drop.

Theorem igeos_star_states_positive :
  forall p r g px : R, 0 < p -> 0 < r -> 1 < g -> 0 < px ->
  0 < rie_rho_star_shock px p r g /\ 0 < rie_rho_star_rarefaction px p r g /\
  0 < rie_sie px (rie_rho_star_shock px p r g) g /\ 0 < rie_sie px (rie_rho_star_rarefaction px p r g) g /\
  0 < rie_sound_speed px (rie_rho_star_shock px p r g) g /\ 0 < rie_sound_speed px (rie_rho_star_rarefaction px p r g) g.
Proof. exact star_states_positive_proof. Qed.
Print Assumptions igeos_star_states_positive.

Theorem igeos_left_fan_monotone :
  forall xd0 t gl pl rl ul x1 x2 : R,
  0 < t -> 0 < pl -> 0 < rl -> 1 < gl -> x1 < x2 -> 0 < sw_Y gl pl rl ul xd0 1 x2 t ->
  rie_fanL_rho x2 xd0 t gl pl rl ul < rie_fanL_rho x1 xd0 t gl pl rl ul /\
  rie_fanL_p x2 xd0 t gl pl rl ul < rie_fanL_p x1 xd0 t gl pl rl ul /\
  rie_fanL_u x1 xd0 t gl pl rl ul < rie_fanL_u x2 xd0 t gl pl rl ul.
Proof. exact igeos_left_fan_monotone_proof. Qed.
Print Assumptions igeos_left_fan_monotone.

Theorem igeos_right_fan_monotone :
  forall xd0 t gr pl pr rl rr ul ur x1 x2 : R,
  0 < t -> 0 < pr -> 0 < rr -> 1 < gr -> ~ (pr = pl /\ ur = ul /\ rr = rl) ->
  x1 < x2 -> 0 < sw_Y gr pr rr ur xd0 (-1) x1 t ->
  rie_fanR_rho x1 xd0 t gr pl pr rl rr ul ur < rie_fanR_rho x2 xd0 t gr pl pr rl rr ul ur /\
  rie_fanR_p x1 xd0 t gr pl pr rl rr ul ur < rie_fanR_p x2 xd0 t gr pl pr rl rr ul ur /\
  rie_fanR_u x1 xd0 t gr pl pr rl rr ul ur < rie_fanR_u x2 xd0 t gr pl pr rl rr ul ur.
Proof. exact igeos_right_fan_monotone_proof. Qed.
Print Assumptions igeos_right_fan_monotone.
