From Coq Require Import Reals.
From Coquelicot Require Import Coquelicot.
From EP Require Import lib.Base lib.Euler lib.RH gen.Noh1 gen.Riemann proofs.C08_noh proofs.C08_riemann.
Open Scope R_scope.

Theorem noh_selfsimilar :
  forall lam geometry gamma u0 rho0 r t : R,
         0 < lam ->
         0 < r ->
         noh_density geometry gamma u0 rho0 (lam * r) (lam * t) = noh_density geometry gamma u0 rho0 r t /\
         noh_velocity geometry gamma u0 rho0 (lam * r) (lam * t) = noh_velocity geometry gamma u0 rho0 r t /\
         noh_pressure geometry gamma u0 rho0 (lam * r) (lam * t) = noh_pressure geometry gamma u0 rho0 r t /\
         noh_specific_internal_energy geometry gamma u0 rho0 (lam * r) (lam * t) =
         noh_specific_internal_energy geometry gamma u0 rho0 r t.
Proof. exact noh_selfsimilar_proof. Qed.
Print Assumptions noh_selfsimilar.

Theorem fans_selfsimilar :
  forall lam x xd0 t gl pl rl ul gr pr rr ur : R,
         0 < lam ->
         t <> 0 ->
         rie_fanL_rho (xd0 + lam * (x - xd0)) xd0 (lam * t) gl pl rl ul = rie_fanL_rho x xd0 t gl pl rl ul /\
         rie_fanL_p (xd0 + lam * (x - xd0)) xd0 (lam * t) gl pl rl ul = rie_fanL_p x xd0 t gl pl rl ul /\
         rie_fanL_u (xd0 + lam * (x - xd0)) xd0 (lam * t) gl pl rl ul = rie_fanL_u x xd0 t gl pl rl ul /\
         rie_fanR_rho (xd0 + lam * (x - xd0)) xd0 (lam * t) gr pl pr rl rr ul ur =
         rie_fanR_rho x xd0 t gr pl pr rl rr ul ur /\
         rie_fanR_p (xd0 + lam * (x - xd0)) xd0 (lam * t) gr pl pr rl rr ul ur =
         rie_fanR_p x xd0 t gr pl pr rl rr ul ur /\
         rie_fanR_u (xd0 + lam * (x - xd0)) xd0 (lam * t) gr pl pr rl rr ul ur =
         rie_fanR_u x xd0 t gr pl pr rl rr ul ur.
Proof. exact fans_selfsimilar_proof. Qed.
Print Assumptions fans_selfsimilar.

