From Coq Require Import Reals.
From Coquelicot Require Import Coquelicot.
From EP Require Import lib.Base lib.Euclid model.Burn proofs.C13_k3.
Open Scope R_scope.

(* Kenamond 3 (2-D): the burn time at the detonator is t_d and nowhere earlier *)
Theorem k3_causal :
  forall R_ D xd yd td : R,
  0 < D -> 0 < R_ -> 0 < norm2 xd yd -> k3_bt2 R_ D xd yd td xd yd = td /\ (forall x y : R, td <= k3_bt2 R_ D xd yd td x y).
Proof. exact k3_causal_proof. Qed.
Print Assumptions k3_causal.

(* Kenamond 3 (3-D): the burn time at the detonator is t_d and nowhere earlier *)
Theorem k3_causal3 :
  forall R_ D xd yd zd td : R,
  0 < D -> 0 < R_ -> 0 < norm3 xd yd zd -> k3_bt3 R_ D xd yd zd td xd yd zd = td /\ (forall x y z : R, td <= k3_bt3 R_ D xd yd zd td x y z).
Proof. exact k3_causal3_proof. Qed.
Print Assumptions k3_causal3.

(* Kenamond 3: on the shadow boundary (theta = 0) the tangent-arc-tangent time equals the line-of-sight time: the two branches of the model join continuously *)
Theorem k3_shadow_boundary :
  forall R_ D xd yd td x y : R,
  0 < R_ ->
  R_ <= norm2 x y ->
  R_ <= norm2 xd yd ->
  k3_theta R_ xd yd x y = 0 ->
  td + (sqrt (norm2 xd yd ^ 2 - R_ ^ 2) + R_ * k3_theta R_ xd yd x y + sqrt (norm2 x y ^ 2 - R_ ^ 2)) / D = td + norm2 (x - xd) (y - yd) / D.
Proof. exact k3_shadow_boundary_proof. Qed.
Print Assumptions k3_shadow_boundary.

(* the coded theta = pi - alpha - beta - psi is (angle between p and x_d) - acos(R/|p|) - acos(R/|x_d|) *)
Theorem k3_theta_is_angle_excess :
  forall R_ a d c : R, -1 <= c / (d * a) <= 1 -> k3_theta_core R_ a d c = acos (c / (d * a)) - acos (R_ / a) - acos (R_ / d).
Proof. exact k3_theta_as_angle. Qed.
Print Assumptions k3_theta_is_angle_excess.

(* Kenamond 3, shadow zone: as a function of the polar coordinates (a, phi) of the point about the axis origin-detonator the tangent-arc-tangent time has
   d/da = sqrt(a^2 - R^2) / (a D), d/dphi = R / D, so the gradient has magnitude exactly 1 / D *)
Theorem k3_shadow_eikonal :
  forall R_ D td d a phi : R,
  0 < D ->
  0 < R_ ->
  R_ < a ->
  is_derive (fun a' : R_AbsRing => k3_shadow_time R_ D td d a' phi) a (sqrt (a ^ 2 - R_ ^ 2) / (a * D)) /\
  is_derive (fun phi' : R_AbsRing => k3_shadow_time R_ D td d a phi') phi (R_ / D) /\
  (sqrt (a ^ 2 - R_ ^ 2) / (a * D)) ^ 2 + (/ a * (R_ / D)) ^ 2 = (/ D) ^ 2.
Proof. exact k3_shadow_eikonal_proof. Qed.
Print Assumptions k3_shadow_eikonal.
