From Coq Require Import Reals.
From EP Require Import gen.Cog2 gen.Cog3 gen.Cog4 gen.Cog5 gen.Cog6 gen.Cog8 gen.Cog9 gen.Cog10 gen.Cog11 gen.Cog12 gen.Cog13 gen.Cog14 gen.Cog16 gen.Cog17 gen.Cog18 gen.Cog21 proofs.C20_defined_cog.
Open Scope R_scope.

(* Inside the documented domain (r > 0, t > 0, t < tau where there is a collapse time) every generated Coggeshall field
   expression is defined - no division by zero, no real power of a non-positive base, no root of a negative number - as soon as
   the conjuncts of the generated definedness condition that constrain the PARAMETERS ALONE hold: no valid request can hit a
   position- or time-dependent singularity. *)

Theorem cog2_defined_inside : forall geometry gamma rho0 b Gamma r t,
  cog2_defined_params geometry gamma rho0 b Gamma -> rho0 <> 0 -> 0 < r -> 0 < t ->
  cog2_defined geometry gamma rho0 b Gamma r t.
Proof. exact cog2_defined_proof. Qed.
Print Assumptions cog2_defined_inside.

Theorem cog3_defined_inside : forall geometry rho0 b v Gamma r t,
  cog3_defined_params geometry rho0 b v Gamma -> rho0 <> 0 -> 0 < r -> 0 < t ->
  cog3_defined geometry rho0 b v Gamma r t.
Proof. exact cog3_defined_proof. Qed.
Print Assumptions cog3_defined_inside.

Theorem cog4_defined_inside : forall geometry gamma rho0 u0 Gamma r t,
  cog4_defined_params geometry gamma rho0 u0 Gamma -> rho0 <> 0 -> 0 < r -> 0 < t ->
  cog4_defined geometry gamma rho0 u0 Gamma r t.
Proof. exact cog4_defined_proof. Qed.
Print Assumptions cog4_defined_inside.

Theorem cog5_defined_inside : forall rho0 u0 Gamma r t,
  cog5_defined_params rho0 u0 Gamma -> rho0 <> 0 -> 0 < r -> 0 < t ->
  cog5_defined rho0 u0 Gamma r t.
Proof. exact cog5_defined_proof. Qed.
Print Assumptions cog5_defined_inside.

Theorem cog6_defined_inside : forall geometry rho0 tau b Gamma r t,
  cog6_defined_params geometry rho0 tau b Gamma -> rho0 <> 0 -> 0 < r -> 0 < t -> t < tau ->
  cog6_defined geometry rho0 tau b Gamma r t.
Proof. exact cog6_defined_proof. Qed.
Print Assumptions cog6_defined_inside.

Theorem cog8_defined_inside : forall geometry gamma alpha beta rho0 temp0 Gamma r t,
  cog8_defined_params geometry gamma alpha beta rho0 temp0 Gamma -> rho0 <> 0 -> 0 < r -> 0 < t ->
  cog8_defined geometry gamma alpha beta rho0 temp0 Gamma r t.
Proof. exact cog8_defined_proof. Qed.
Print Assumptions cog8_defined_inside.

Theorem cog9_defined_inside : forall geometry gamma alpha beta rho0 Gamma r t,
  cog9_defined_params geometry gamma alpha beta rho0 Gamma -> rho0 <> 0 -> 0 < r -> 0 < t ->
  cog9_defined geometry gamma alpha beta rho0 Gamma r t.
Proof. exact cog9_defined_proof. Qed.
Print Assumptions cog9_defined_inside.

Theorem cog10_defined_inside : forall geometry gamma beta lambda0 rho0 temp0 Gamma r t,
  cog10_defined_params geometry gamma beta lambda0 rho0 temp0 Gamma -> rho0 <> 0 -> 0 < r -> 0 < t ->
  cog10_defined geometry gamma beta lambda0 rho0 temp0 Gamma r t.
Proof. exact cog10_defined_proof. Qed.
Print Assumptions cog10_defined_inside.

Theorem cog11_defined_inside : forall geometry gamma beta rho0 temp0 Gamma r t,
  cog11_defined_params geometry gamma beta rho0 temp0 Gamma -> rho0 <> 0 -> 0 < r -> 0 < t ->
  cog11_defined geometry gamma beta rho0 temp0 Gamma r t.
Proof. exact cog11_defined_proof. Qed.
Print Assumptions cog11_defined_inside.

Theorem cog12_defined_inside : forall geometry gamma beta rho0 u0 Gamma r t,
  cog12_defined_params geometry gamma beta rho0 u0 Gamma -> rho0 <> 0 -> 0 < r -> 0 < t ->
  cog12_defined geometry gamma beta rho0 u0 Gamma r t.
Proof. exact cog12_defined_proof. Qed.
Print Assumptions cog12_defined_inside.

Theorem cog13_defined_inside : forall geometry gamma rho0 alpha beta lambda0 Gamma r t,
  cog13_defined_params geometry gamma rho0 alpha beta lambda0 Gamma -> rho0 <> 0 -> 0 < r -> 0 < t ->
  cog13_defined geometry gamma rho0 alpha beta lambda0 Gamma r t.
Proof. exact cog13_defined_proof. Qed.
Print Assumptions cog13_defined_inside.

Theorem cog14_defined_inside : forall geometry gamma rho0 alpha beta lambda0 Gamma r t,
  cog14_defined_params geometry gamma rho0 alpha beta lambda0 Gamma -> rho0 <> 0 -> 0 < r -> 0 < t ->
  cog14_defined geometry gamma rho0 alpha beta lambda0 Gamma r t.
Proof. exact cog14_defined_proof. Qed.
Print Assumptions cog14_defined_inside.

Theorem cog16_defined_inside : forall geometry gamma u0 b lambda0 Gamma r t,
  cog16_defined_params geometry gamma u0 b lambda0 Gamma -> 0 < r -> 0 < t ->
  cog16_defined geometry gamma u0 b lambda0 Gamma r t.
Proof. exact cog16_defined_proof. Qed.
Print Assumptions cog16_defined_inside.

Theorem cog17_defined_inside : forall geometry gamma alpha beta lambda0 Gamma r t,
  cog17_defined_params geometry gamma alpha beta lambda0 Gamma -> 0 < r -> 0 < t ->
  cog17_defined geometry gamma alpha beta lambda0 Gamma r t.
Proof. exact cog17_defined_proof. Qed.
Print Assumptions cog17_defined_inside.

Theorem cog18_defined_inside : forall geometry alpha beta rho0 tau Gamma r t,
  cog18_defined_params geometry alpha beta rho0 tau Gamma -> rho0 <> 0 -> 0 < r -> 0 < t -> t < tau ->
  cog18_defined geometry alpha beta rho0 tau Gamma r t.
Proof. exact cog18_defined_proof. Qed.
Print Assumptions cog18_defined_inside.

Theorem cog21_defined_inside : forall rho0 temp0 Gamma r t,
  cog21_defined_params rho0 temp0 Gamma -> rho0 <> 0 -> Gamma <> 0 -> temp0 <> 0 -> 0 < r -> 0 < t ->
  cog21_defined rho0 temp0 Gamma r t.
Proof. exact cog21_defined_proof. Qed.
Print Assumptions cog21_defined_inside.

Example cog2_defaults_defined : cog2_defined_params cog2_default_geometry cog2_default_gamma cog2_default_rho0 cog2_default_b cog2_default_Gamma.
Proof. exact cog2_defaults_defined_proof. Qed.

Example cog3_defaults_defined : cog3_defined_params cog3_default_geometry cog3_default_rho0 cog3_default_b cog3_default_v cog3_default_Gamma.
Proof. exact cog3_defaults_defined_proof. Qed.

Example cog4_defaults_defined : cog4_defined_params cog4_default_geometry cog4_default_gamma cog4_default_rho0 cog4_default_u0 cog4_default_Gamma.
Proof. exact cog4_defaults_defined_proof. Qed.

Example cog5_defaults_defined : cog5_defined_params cog5_default_rho0 cog5_default_u0 cog5_default_Gamma.
Proof. exact cog5_defaults_defined_proof. Qed.

Example cog6_defaults_defined : cog6_defined_params cog6_default_geometry cog6_default_rho0 cog6_default_tau cog6_default_b cog6_default_Gamma.
Proof. exact cog6_defaults_defined_proof. Qed.

Example cog8_defaults_defined : cog8_defined_params cog8_default_geometry cog8_default_gamma cog8_default_alpha cog8_default_beta cog8_default_rho0 cog8_default_temp0 cog8_default_Gamma.
Proof. exact cog8_defaults_defined_proof. Qed.

Example cog9_defaults_defined : cog9_defined_params cog9_default_geometry cog9_default_gamma cog9_default_alpha cog9_default_beta cog9_default_rho0 cog9_default_Gamma.
Proof. exact cog9_defaults_defined_proof. Qed.

Example cog10_defaults_defined : cog10_defined_params cog10_default_geometry cog10_default_gamma cog10_default_beta cog10_default_lambda0 cog10_default_rho0 cog10_default_temp0 cog10_default_Gamma.
Proof. exact cog10_defaults_defined_proof. Qed.

Example cog11_defaults_defined : cog11_defined_params cog11_default_geometry cog11_default_gamma cog11_default_beta cog11_default_rho0 cog11_default_temp0 40.
Proof. exact cog11_defaults_defined_proof. Qed.

Example cog12_defaults_defined : cog12_defined_params cog12_default_geometry cog12_default_gamma cog12_default_beta cog12_default_rho0 cog12_default_u0 cog12_default_Gamma.
Proof. exact cog12_defaults_defined_proof. Qed.

Example cog13_defaults_defined : cog13_defined_params cog13_default_geometry cog13_default_gamma cog13_default_rho0 cog13_default_alpha cog13_default_beta cog13_default_lambda0 cog13_default_Gamma.
Proof. exact cog13_defaults_defined_proof. Qed.

Example cog14_defaults_defined : cog14_defined_params cog14_default_geometry cog14_default_gamma cog14_default_rho0 cog14_default_alpha cog14_default_beta cog14_default_lambda0 cog14_default_Gamma.
Proof. exact cog14_defaults_defined_proof. Qed.

Example cog16_defaults_defined : cog16_defined_params cog16_default_geometry cog16_default_gamma cog16_default_u0 cog16_default_b cog16_default_lambda0 cog16_default_Gamma.
Proof. exact cog16_defaults_defined_proof. Qed.

Example cog18_defaults_defined : cog18_defined_params cog18_default_geometry cog18_default_alpha cog18_default_beta cog18_default_rho0 cog18_default_tau cog18_default_Gamma.
Proof. exact cog18_defaults_defined_proof. Qed.

Example cog21_defaults_defined : cog21_defined_params cog21_default_rho0 cog21_default_temp0 cog21_default_Gamma.
Proof. exact cog21_defaults_defined_proof. Qed.
