From Coq Require Import Reals.
From Coquelicot Require Import Coquelicot.
From EP Require Import lib.Base lib.Euler gen.Cog20 proofs.C01_cog20.
Open Scope R_scope.

Theorem cog20_post :
  forall geometry gamma rho0 u0 a Gamma : R,
         1 < gamma ->
         Gamma <> 0 ->
         rho0 <> 0 ->
         forall r t : R,
         0 < r ->
         0 < 1 - a * t ->
         geometry * (gamma - 1) = 2 ->
         r < cog20_shock gamma u0 a t ->
         euler_at (geometry - 1) (cog20_density geometry gamma rho0 u0 a Gamma)
           (cog20_velocity geometry gamma rho0 u0 a Gamma) (cog20_pressure geometry gamma rho0 u0 a Gamma)
           (cog20_specific_internal_energy geometry gamma rho0 u0 a Gamma) r t.
Proof. exact cog20_post_proof. Qed.
Print Assumptions cog20_post.

Theorem cog20_pre :
  forall geometry gamma rho0 u0 a Gamma : R,
         1 < gamma ->
         rho0 <> 0 ->
         forall r t : R,
         0 < r ->
         0 < 1 - a * t ->
         0 < (r - u0 * t) / r ->
         cog20_shock gamma u0 a t < r ->
         euler_at (geometry - 1) (cog20_density geometry gamma rho0 u0 a Gamma)
           (cog20_velocity geometry gamma rho0 u0 a Gamma) (cog20_pressure geometry gamma rho0 u0 a Gamma)
           (cog20_specific_internal_energy geometry gamma rho0 u0 a Gamma) r t.
Proof. exact cog20_pre_proof. Qed.
Print Assumptions cog20_pre.

