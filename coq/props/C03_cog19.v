From Coq Require Import Reals.
From EP Require Import lib.Base gen.Cog19 proofs.C03_cog19.
Open Scope R_scope.

(* cog19: at every point where the returned expressions are defined (no division by zero, see cog19_defined)
   the returned pressure, density, temperature and specific internal energy satisfy the declared EOS. P = Gamma rho T, e = Gamma T/(gamma-1) *)
Theorem cog19_eos :
  forall geometry gamma rho0 u0 Gamma r t,
  cog19_defined geometry gamma rho0 u0 Gamma r t ->
  cog19_density geometry gamma rho0 u0 Gamma r t <> 0 ->
  gamma - 1 <> 0 ->
  cog19_pressure geometry gamma rho0 u0 Gamma r t = Gamma * (cog19_density geometry gamma rho0 u0 Gamma r t) * (cog19_temperature geometry gamma rho0 u0 Gamma r t) /\
  cog19_specific_internal_energy geometry gamma rho0 u0 Gamma r t = Gamma * (cog19_temperature geometry gamma rho0 u0 Gamma r t) / (gamma - 1) /\
  cog19_pressure geometry gamma rho0 u0 Gamma r t = (gamma - 1) * (cog19_density geometry gamma rho0 u0 Gamma r t) * (cog19_specific_internal_energy geometry gamma rho0 u0 Gamma r t).
Proof. exact cog19_eos_proof. Qed.
Print Assumptions cog19_eos.
