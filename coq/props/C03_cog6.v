From Coq Require Import Reals.
From EP Require Import lib.Base gen.Cog6 proofs.C03_cog6.
Open Scope R_scope.

(* cog6: at every point where the returned expressions are defined (no division by zero, see cog6_defined)
   the returned pressure, density, temperature and specific internal energy satisfy the declared EOS. P = Gamma rho T, e = Gamma T/(gamma-1) with the built-in gamma = (((geometry - 1) + 3) / ((geometry - 1) + 1)) *)
Theorem cog6_eos :
  forall geometry rho0 tau b Gamma r t,
  cog6_defined geometry rho0 tau b Gamma r t ->
  cog6_density geometry rho0 tau b Gamma r t <> 0 ->
  (((geometry - 1) + 3) / ((geometry - 1) + 1)) - 1 <> 0 ->
  cog6_pressure geometry rho0 tau b Gamma r t = Gamma * (cog6_density geometry rho0 tau b Gamma r t) * (cog6_temperature geometry rho0 tau b Gamma r t) /\
  cog6_specific_internal_energy geometry rho0 tau b Gamma r t = Gamma * (cog6_temperature geometry rho0 tau b Gamma r t) / ((((geometry - 1) + 3) / ((geometry - 1) + 1)) - 1) /\
  cog6_pressure geometry rho0 tau b Gamma r t = ((((geometry - 1) + 3) / ((geometry - 1) + 1)) - 1) * (cog6_density geometry rho0 tau b Gamma r t) * (cog6_specific_internal_energy geometry rho0 tau b Gamma r t).
Proof. exact cog6_eos_proof. Qed.
Print Assumptions cog6_eos.
