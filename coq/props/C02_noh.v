From Coq Require Import Reals.
From Coquelicot Require Import Coquelicot.
From EP Require Import lib.Base lib.Euler lib.RH gen.Noh1 proofs.C01_noh proofs.C02_noh.
Open Scope R_scope.

Theorem noh_rh :
  forall geometry gamma u0 rho0 t : R,
         u0 < 0 ->
         1 < gamma ->
         0 < t ->
         exists (s : R_NormedModule) (J : jump_states),
           is_derive (noh_shock gamma u0) t s /\
           fields_jump (fun r : R => noh_density geometry gamma u0 rho0 r t)
             (fun r : R => noh_velocity geometry gamma u0 rho0 r t)
             (fun r : R => noh_pressure geometry gamma u0 rho0 r t)
             (fun r : R => noh_specific_internal_energy geometry gamma u0 rho0 r t) 
             (noh_shock gamma u0 t) J /\ rh_holds s J.
Proof. exact noh_rh_proof. Qed.
Print Assumptions noh_rh.

