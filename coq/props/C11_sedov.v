From Coq Require Import Reals Lra.
From Coquelicot Require Import Coquelicot.
From EP Require Import lib.Base gen.Sedov proofs.C11_sedov proofs.C11_sedov_mass.
Open Scope R_scope.

(* C11 (standard, non-special Sedov solutions; all definitions regenerated from sedov.py).
   FULL statement of the property: the integral over 0 < r < r2 of (rho u^2/2 + p/(gamma-1)) S_j r^(j-1) dr equals eblast and
   the mass integral equals rho0 S_j r2^(j-omega)/(j-omega).
   PROVED (partial): in the similarity variable v (r = r2 lambda(v), dr = r2 dlambda/dv dv) the energy carried between vmin and v2
   is exactly eblast, for every geometry, gamma, omega, rho0, eblast and t, GIVEN that the two numbers eval1, eval2 the constructor
   obtains from scipy.quad are the integrals of the coded efun01, efun02 (theorem sedov_energy_partial); the coded dlamdv is the
   derivative of the coded lambda; the mass has the closed-form antiderivative g lambda^j x4 / (b_val (j-omega)) and at the shock
   equals the initial mass inside r2; at v2 all similarity functions are 1.
   MISSING: accuracy of quad / fminbound / the 3001-point interpolation; the substitution r = r2 lambda(v) down to r = 0 (the coded
   lambda does not reach 0 because of the 1e-30 clamp); the special (omega2, omega3), singular and vacuum branches: oracle only. *)

Theorem sedov_energy_partial :
  forall j gamma omega rho0 eblast t I1 I2 vmin : R,
    1 < gamma -> 0 < rho0 -> 0 < eblast -> 0 < t -> j + 2 - omega <> 0 ->
    0 < alpha_of j gamma I1 I2 ->
    is_RInt (sed_efun01_of j gamma omega) vmin (sed_v2 j gamma omega) I1 ->
    is_RInt (sed_efun02_of j gamma omega) vmin (sed_v2 j gamma omega) I2 ->
    is_RInt (energy_dv j gamma omega rho0 eblast t I1 I2) vmin (sed_v2 j gamma omega) eblast.
Proof. exact sedov_energy_similarity_proof. Qed.
Print Assumptions sedov_energy_partial.

Theorem sedov_dlamdv_is_derivative :
  forall a0 a1 a2 a_val b_val c_val d_val e_val v : R,
    no_clamp2 c_val v -> 0 < a_val * v -> 0 < b_val * (c_val * v - 1) -> 0 < d_val * (1 - e_val * v) ->
    is_derive (fun y => sed_std_lam y a0 a1 a2 a_val b_val c_val d_val e_val) v (sed_std_dlamdv v a0 a1 a2 a_val b_val c_val d_val e_val).
Proof. exact dlamdv_is_derivative. Qed.
Print Assumptions sedov_dlamdv_is_derivative.

Theorem sedov_mass_antiderivative :
  forall j gamma omega v : R,
    1 < gamma -> j <> omega -> j + 2 - omega <> 0 -> 2 + j * (gamma - 1) <> 0 ->
    2 * (gamma - 1) + j - gamma * omega <> 0 -> j * (2 - gamma) - omega <> 0 ->
    (j + 2 - omega) * (gamma + 1) - 2 * (2 + j * (gamma - 1)) <> 0 ->
    no_clamp2 (sed_c_val j gamma omega) v -> no_clamp4 j gamma omega v ->
    0 < sed_a_val j gamma omega * v -> 0 < sed_b_val gamma * (sed_c_val j gamma omega * v - 1) ->
    0 < sed_d_val j gamma omega * (1 - sed_e_val j gamma * v) ->
    is_derive (mass_fn j gamma omega) v
      (sed_std_g v omega (sed_xg2 j omega) (sed_a0 j omega) (sed_a1 j gamma omega) (sed_a2 j gamma omega) (sed_a3 j gamma omega)
         (sed_a4 j gamma omega) (sed_a5 j gamma omega) (sed_a_val j gamma omega) (sed_b_val gamma) (sed_c_val j gamma omega)
         (sed_d_val j gamma omega) (sed_e_val j gamma) *
       Rpower (sed_std_lam v (sed_a0 j omega) (sed_a1 j gamma omega) (sed_a2 j gamma omega) (sed_a_val j gamma omega) (sed_b_val gamma)
                 (sed_c_val j gamma omega) (sed_d_val j gamma omega) (sed_e_val j gamma)) (j - 1) *
       sed_std_dlamdv v (sed_a0 j omega) (sed_a1 j gamma omega) (sed_a2 j gamma omega) (sed_a_val j gamma omega) (sed_b_val gamma)
         (sed_c_val j gamma omega) (sed_d_val j gamma omega) (sed_e_val j gamma)).
Proof. intros j gamma omega v Hg. exact (mass_antiderivative j gamma omega Hg v). Qed.
Print Assumptions sedov_mass_antiderivative.

Theorem sedov_mass_at_shock :
  forall j gamma omega t rho0 eblast alpha : R,
    1 < gamma -> 0 < j + 2 - omega -> (j + 2 - omega) * (gamma + 1) - 2 * (2 + j * (gamma - 1)) <> 0 ->
    tiny30 < (gamma - 1) / (gamma + 1) -> j <> omega ->
    sed_rho2 t rho0 eblast alpha omega (sed_xg2 j omega) (sed_gpogm gamma) * Rpower (sed_r2 t rho0 eblast alpha (sed_xg2 j omega)) j *
      mass_fn j gamma omega (sed_v2 j gamma omega)
    = rho0 * Rpower (sed_r2 t rho0 eblast alpha (sed_xg2 j omega)) (j - omega) / (j - omega).
Proof. intros j gamma omega t rho0 eblast alpha Hg. exact (mass_at_shock j gamma omega Hg t rho0 eblast alpha). Qed.
Print Assumptions sedov_mass_at_shock.

Theorem sedov_shock_values :
  forall j gamma omega : R,
    1 < gamma -> 0 < j + 2 - omega -> (j + 2 - omega) * (gamma + 1) - 2 * (2 + j * (gamma - 1)) <> 0 ->
    tiny30 < (gamma - 1) / (gamma + 1) ->
    let v2 := sed_v2 j gamma omega in
    sed_std_lam v2 (sed_a0 j omega) (sed_a1 j gamma omega) (sed_a2 j gamma omega) (sed_a_val j gamma omega) (sed_b_val gamma)
      (sed_c_val j gamma omega) (sed_d_val j gamma omega) (sed_e_val j gamma) = 1 /\
    sed_std_f v2 (sed_a0 j omega) (sed_a1 j gamma omega) (sed_a2 j gamma omega) (sed_a_val j gamma omega) (sed_b_val gamma)
      (sed_c_val j gamma omega) (sed_d_val j gamma omega) (sed_e_val j gamma) = 1 /\
    sed_std_g v2 omega (sed_xg2 j omega) (sed_a0 j omega) (sed_a1 j gamma omega) (sed_a2 j gamma omega) (sed_a3 j gamma omega)
      (sed_a4 j gamma omega) (sed_a5 j gamma omega) (sed_a_val j gamma omega) (sed_b_val gamma) (sed_c_val j gamma omega)
      (sed_d_val j gamma omega) (sed_e_val j gamma) = 1 /\
    sed_std_h v2 j omega (sed_xg2 j omega) (sed_a0 j omega) (sed_a1 j gamma omega) (sed_a4 j gamma omega) (sed_a5 j gamma omega)
      (sed_a_val j gamma omega) (sed_b_val gamma) (sed_d_val j gamma omega) (sed_e_val j gamma) = 1 /\
    x4_of j gamma omega v2 = 1.
Proof. intros j gamma omega Hg. exact (shock_values j gamma omega Hg). Qed.
Print Assumptions sedov_shock_values.

(* non-vacuity: the default problem (spherical, gamma = 7/5, omega = 0) meets the side conditions *)
Example sedov_side_conditions_default :
  let j := 3 in let gamma := 7 / 5 in let omega := 0 in
  1 < gamma /\ 0 < j + 2 - omega /\ j <> omega /\ 2 + j * (gamma - 1) <> 0 /\ 2 * (gamma - 1) + j - gamma * omega <> 0 /\
  j * (2 - gamma) - omega <> 0 /\ (j + 2 - omega) * (gamma + 1) - 2 * (2 + j * (gamma - 1)) <> 0 /\ tiny30 < (gamma - 1) / (gamma + 1).
Proof. cbv zeta. unfold tiny30. repeat split; lra. Qed.
