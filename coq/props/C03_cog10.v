From Coq Require Import Reals.
From EP Require Import lib.Base gen.Cog10 proofs.C03_cog10.
Open Scope R_scope.

(* cog10: at every point where the returned expressions are defined (no division by zero, see cog10_defined)
   the returned pressure, density, temperature and specific internal energy satisfy the declared EOS. P = Gamma rho T, e = Gamma T/(gamma-1) *)
Theorem cog10_eos :
  forall geometry gamma beta lambda0 rho0 temp0 Gamma r t,
  cog10_defined geometry gamma beta lambda0 rho0 temp0 Gamma r t ->
  cog10_density geometry gamma beta lambda0 rho0 temp0 Gamma r t <> 0 ->
  gamma - 1 <> 0 ->
  cog10_pressure geometry gamma beta lambda0 rho0 temp0 Gamma r t = Gamma * (cog10_density geometry gamma beta lambda0 rho0 temp0 Gamma r t) * (cog10_temperature geometry gamma beta lambda0 rho0 temp0 Gamma r t) /\
  cog10_specific_internal_energy geometry gamma beta lambda0 rho0 temp0 Gamma r t = Gamma * (cog10_temperature geometry gamma beta lambda0 rho0 temp0 Gamma r t) / (gamma - 1) /\
  cog10_pressure geometry gamma beta lambda0 rho0 temp0 Gamma r t = (gamma - 1) * (cog10_density geometry gamma beta lambda0 rho0 temp0 Gamma r t) * (cog10_specific_internal_energy geometry gamma beta lambda0 rho0 temp0 Gamma r t).
Proof. exact cog10_eos_proof. Qed.
Print Assumptions cog10_eos.
