From Coq Require Import Reals.
From Coquelicot Require Import Coquelicot.
From EP Require Import lib.Base lib.Euler lib.RH lib.Euclid lib.Piecewise gen.EosLibrary proofs.C16_eos.
Open Scope R_scope.

Theorem eos_ideal_consistent :
  forall gamma rho e P : R,
         gamma <> 1 ->
         rho <> 0 ->
         eos_ideal_P rho (eos_ideal_e rho P gamma) gamma = P /\
         eos_ideal_e rho (eos_ideal_P rho e gamma) gamma = e /\
         is_derive (fun x : R_AbsRing => eos_ideal_P x e gamma) rho (eos_ideal_dP_drho rho e gamma) /\
         is_derive (fun x : R_AbsRing => eos_ideal_P rho x gamma) e (eos_ideal_dP_de rho e gamma) /\
         is_derive (fun x : R_AbsRing => eos_ideal_e x P gamma) rho (eos_ideal_de_drho rho P gamma) /\
         is_derive (fun x : R_AbsRing => eos_ideal_e rho x gamma) P (eos_ideal_de_dP rho P gamma).
Proof. exact eos_ideal_consistent_proof. Qed.
Print Assumptions eos_ideal_consistent.

Theorem eos_stiff_consistent :
  forall gamma c_s rho_inf rho e P : R,
         gamma <> 1 ->
         rho <> 0 ->
         eos_stiff_P rho (eos_stiff_e rho P gamma c_s rho_inf) gamma c_s rho_inf = P /\
         eos_stiff_e rho (eos_stiff_P rho e gamma c_s rho_inf) gamma c_s rho_inf = e /\
         is_derive (fun x : R_AbsRing => eos_stiff_P x e gamma c_s rho_inf) rho
           (eos_stiff_dP_drho rho e gamma c_s rho_inf) /\
         is_derive (fun x : R_AbsRing => eos_stiff_P rho x gamma c_s rho_inf) e
           (eos_stiff_dP_de rho e gamma c_s rho_inf) /\
         is_derive (fun x : R_AbsRing => eos_stiff_e x P gamma c_s rho_inf) rho
           (eos_stiff_de_drho rho P gamma c_s rho_inf) /\
         is_derive (fun x : R_AbsRing => eos_stiff_e rho x gamma c_s rho_inf) P
           (eos_stiff_de_dP rho P gamma c_s rho_inf).
Proof. exact eos_stiff_consistent_proof. Qed.
Print Assumptions eos_stiff_consistent.

Theorem eos_na_consistent :
  forall gamma b rho e P : R,
         gamma <> 1 ->
         rho <> 0 ->
         1 - b * rho <> 0 ->
         eos_na_P rho (eos_na_e rho P gamma b) gamma b = P /\
         eos_na_e rho (eos_na_P rho e gamma b) gamma b = e /\
         is_derive (fun x : R_AbsRing => eos_na_P x e gamma b) rho (eos_na_dP_drho rho e gamma b) /\
         is_derive (fun x : R_AbsRing => eos_na_P rho x gamma b) e (eos_na_dP_de rho e gamma b) /\
         is_derive (fun x : R_AbsRing => eos_na_e x P gamma b) rho (eos_na_de_drho rho P gamma b) /\
         is_derive (fun x : R_AbsRing => eos_na_e rho x gamma b) P (eos_na_de_dP rho P gamma b).
Proof. exact eos_na_consistent_proof. Qed.
Print Assumptions eos_na_consistent.

Theorem eos_cs_consistent :
  forall gamma b rho e P : R,
         gamma <> 1 ->
         rho <> 0 ->
         1 - b * rho <> 0 ->
         1 + b * rho + (b * rho) ^ 2 - (b * rho) ^ 3 <> 0 ->
         eos_cs_P rho (eos_cs_e rho P gamma b) gamma b = P /\
         eos_cs_e rho (eos_cs_P rho e gamma b) gamma b = e /\
         is_derive (fun x : R_AbsRing => eos_cs_P x e gamma b) rho (eos_cs_dP_drho rho e gamma b) /\
         is_derive (fun x : R_AbsRing => eos_cs_P rho x gamma b) e (eos_cs_dP_de rho e gamma b) /\
         is_derive (fun x : R_AbsRing => eos_cs_e rho x gamma b) P (eos_cs_de_dP rho P gamma b) /\
         is_derive (fun x : R_AbsRing => eos_cs_Z x gamma b) (b * rho) (eos_cs_dZ_deta (b * rho) gamma b).
Proof. exact eos_cs_consistent_proof. Qed.
Print Assumptions eos_cs_consistent.

Theorem eos_st_closures :
  forall rd rp rg b c0 s1 s2 s3 rho e P : R,
         rho <> 0 ->
         eos_st_gruneisen rho rd rp rg b c0 s1 s2 s3 <> 0 ->
         eos_st_P rho (eos_st_e rho P rd rp rg b c0 s1 s2 s3) rd rp rg b c0 s1 s2 s3 = P /\
         eos_st_e rho (eos_st_P rho e rd rp rg b c0 s1 s2 s3) rd rp rg b c0 s1 s2 s3 = e.
Proof. exact eos_st_closures_proof. Qed.
Print Assumptions eos_st_closures.

Theorem eos_st_dPinf_expansion :
  forall rd rp rg b c0 s1 s2 s3 rho : R,
         0 < rho ->
         rho < rd ->
         is_derive (fun x : R_AbsRing => eos_st_P_inf x rd rp rg b c0 s1 s2 s3) rho
           (eos_st_dPinf_drho rho rd rp rg b c0 s1 s2 s3).
Proof. exact eos_st_dPinf_expansion_proof. Qed.
Print Assumptions eos_st_dPinf_expansion.

Theorem eos_st_dPinf_compression :
  forall rd rp rg b c0 s1 s2 s3 rho : R,
         0 < rd ->
         rd < rho ->
         1 - s1 * (1 - rd / rho) - s2 * (1 - rd / rho) ^ 2 - s3 * (1 - rd / rho) ^ 3 <> 0 ->
         is_derive (fun x : R_AbsRing => eos_st_P_inf x rd rp rg b c0 s1 s2 s3) rho
           (eos_st_dPinf_drho rho rd rp rg b c0 s1 s2 s3).
Proof. exact eos_st_dPinf_compression_proof. Qed.
Print Assumptions eos_st_dPinf_compression.

