From Coq Require Import Reals.
From Coquelicot Require Import Coquelicot.
From EP Require Import lib.Base lib.Euler lib.RH lib.Euclid model.Burn proofs.C13_burn.
Open Scope R_scope.

Theorem k1_2d_is_3d_on_plane :
  forall D xd yd zd td x y : R, k1_bt3 D xd yd zd td x y zd = k1_bt2 D xd yd td x y.
Proof. exact k1_2d_is_3d_on_plane_proof. Qed.
Print Assumptions k1_2d_is_3d_on_plane.

