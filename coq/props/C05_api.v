From Coq Require Import List String Ascii Bool Arith.
From EP Require Import model.Api model.Csv proofs.C05_api proofs.C05_csv.
Import ListNotations.

(* Constructor: ValueError exactly when a given name is not declared, or a declared name is neither given nor
   a class attribute (model of base.ExactSolver.__init__; all lists). *)
Theorem base_init_spec : forall declared class_attrs given,
  raises_ValueError (base_init declared class_attrs given) = true <->
  (exists k, In k given /\ ~ In k declared) \/
  (exists q, In q declared /\ ~ In q given /\ ~ In q class_attrs).
Proof. exact base_init_spec_proof. Qed.
Print Assumptions base_init_spec.

(* Call of an element-wise solver: N records, names and columns agree in number, first column is the input
   unchanged, record j of every field is f(point j) - for every N and every order of the points. *)
Theorem call_elementwise_contract : forall (V : Type) names (fields : list (V -> V)) (pts : list V),
  List.length names = S (List.length fields) ->
  let s := call_elementwise names fields pts in
  well_formed s (List.length pts) /\
  hd [] (sol_cols s) = pts /\
  (forall i f d, nth_error fields i = Some f ->
     nth i (nth (S i) (sol_cols s) []) (f d) = f (nth i pts d) /\
     forall j, nth j (nth (S i) (sol_cols s) []) (f d) = f (nth j pts d)).
Proof. exact call_elementwise_contract_proof. Qed.
Print Assumptions call_elementwise_contract.

(* Any selection (permutation, subset, duplicates) of the points selects the records in the same way. *)
Theorem call_elementwise_batch : forall (V : Type) names (fields : list (V -> V)) (pts : list V) (sel : list nat) d,
  Forall (fun i => i < List.length pts) sel ->
  sol_cols (call_elementwise names fields (map (fun i => nth i pts d) sel)) =
  map (fun col => map (fun i => nth i col d) sel) (sol_cols (call_elementwise names fields pts)).
Proof. exact call_elementwise_batch_proof. Qed.
Print Assumptions call_elementwise_batch.

(* CSV: printing a table of plain cells (no separator / line break) and parsing it back is the identity.
   csv_roundtrip_partial: that Python's repr/float round-trips every double exactly and that repr never emits a
   separator is CPython's documented guarantee, checked dynamically, not a theorem. *)
Theorem csv_roundtrip_partial : forall t : list (list text),
  t <> [] -> forallb plain_row t = true -> parse_table (print_table t) = t.
Proof. exact csv_roundtrip_proof. Qed.
Print Assumptions csv_roundtrip_partial.
