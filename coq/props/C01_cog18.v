From Coq Require Import Reals.
From EP Require Import lib.Euler gen.Cog18 proofs.C01_cog18.
Open Scope R_scope.

(* Coggeshall 18: the returned fields satisfy the documented conservation equations.  *)
Theorem cog18_pde :
  forall geometry alpha beta rho0 tau Gamma K0 r t,
  0 < r -> 0 < t -> t < tau -> 0 < rho0 -> 0 < Gamma -> alpha <> 0 -> geometry - 1 + 1 <> 0 -> 2 * alpha - 2 * beta - (geometry - 1) - 7 <> 0 -> 0 < alpha * tau ^ 2 / Gamma / (2 * alpha - 2 * beta - (geometry - 1) - 7) ->
  euler_heat_at (geometry - 1) K0 alpha beta
    (cog18_density geometry alpha beta rho0 tau Gamma)
    (cog18_velocity geometry alpha beta rho0 tau Gamma)
    (cog18_temperature geometry alpha beta rho0 tau Gamma)
    (cog18_pressure geometry alpha beta rho0 tau Gamma)
    (cog18_specific_internal_energy geometry alpha beta rho0 tau Gamma) r t.
Proof. exact cog18_pde_proof. Qed.
Print Assumptions cog18_pde.
