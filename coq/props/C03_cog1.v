From Coq Require Import Reals.
From EP Require Import lib.Base gen.Cog1 proofs.C03_cog1.
Open Scope R_scope.

(* cog1: at every point where the returned expressions are defined (no division by zero, see cog1_defined)
   the returned pressure, density, temperature and specific internal energy satisfy the declared EOS. P = Gamma rho T, e = Gamma T/(gamma-1) *)
Theorem cog1_eos :
  forall geometry gamma rho0 temp0 b Gamma r t,
  cog1_defined geometry gamma rho0 temp0 b Gamma r t ->
  cog1_density geometry gamma rho0 temp0 b Gamma r t <> 0 ->
  gamma - 1 <> 0 ->
  cog1_pressure geometry gamma rho0 temp0 b Gamma r t = Gamma * (cog1_density geometry gamma rho0 temp0 b Gamma r t) * (cog1_temperature geometry gamma rho0 temp0 b Gamma r t) /\
  cog1_specific_internal_energy geometry gamma rho0 temp0 b Gamma r t = Gamma * (cog1_temperature geometry gamma rho0 temp0 b Gamma r t) / (gamma - 1) /\
  cog1_pressure geometry gamma rho0 temp0 b Gamma r t = (gamma - 1) * (cog1_density geometry gamma rho0 temp0 b Gamma r t) * (cog1_specific_internal_energy geometry gamma rho0 temp0 b Gamma r t).
Proof. exact cog1_eos_proof. Qed.
Print Assumptions cog1_eos.
