From Coq Require Import Reals.
From Coquelicot Require Import Coquelicot.
From EP Require Import lib.Base lib.Euler lib.RH gen.Noh1 gen.Cog19 gen.Noh2 gen.Noh2Cog proofs.C07_noh.
Open Scope R_scope.

Theorem noh_equals_cog19 :
  forall geometry gamma u0 rho0 Gamma r t : R,
         u0 < 0 ->
         1 < gamma ->
         Gamma <> 0 ->
         rho0 <> 0 ->
         0 < r ->
         0 <= t ->
         noh_density geometry gamma u0 rho0 r t = cog19_density geometry gamma rho0 u0 Gamma r t /\
         noh_velocity geometry gamma u0 rho0 r t = cog19_velocity geometry gamma rho0 u0 Gamma r t /\
         noh_pressure geometry gamma u0 rho0 r t = cog19_pressure geometry gamma rho0 u0 Gamma r t /\
         noh_specific_internal_energy geometry gamma u0 rho0 r t =
         cog19_specific_internal_energy geometry gamma rho0 u0 Gamma r t.
Proof. exact noh_equals_cog19_proof. Qed.
Print Assumptions noh_equals_cog19.

Theorem noh2_equals_noh2cog :
  forall geometry gamma rho0 e0 r t : R,
         t < 1 ->
         gamma <> 1 ->
         rho0 <> 0 ->
         0 < r ->
         noh2_density geometry gamma rho0 e0 r t = noh2cog_density geometry gamma rho0 e0 r t /\
         noh2_velocity geometry gamma rho0 e0 r t = noh2cog_velocity geometry gamma rho0 e0 r t /\
         noh2_pressure geometry gamma rho0 e0 r t = noh2cog_pressure geometry gamma rho0 e0 r t /\
         noh2_specific_internal_energy geometry gamma rho0 e0 r t =
         noh2cog_specific_internal_energy geometry gamma rho0 e0 r t.
Proof. exact noh2_equals_noh2cog_proof. Qed.
Print Assumptions noh2_equals_noh2cog.

