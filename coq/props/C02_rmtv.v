From Coq Require Import Reals.
From EP Require Import gen.Rmtv proofs.C02_rmtv.
Open Scope R_scope.

(* RMTV isothermal shock: the states on either side, built by the regenerated shock map and conversion tail of rmtv_1d, conserve mass and
   momentum with the similarity shock speed and carry the same temperature. *)
Theorem rmtv_shock_jump :
  forall alpha bigamma gamma g0 kappa sigma rs time xis u1 h1 t1,
  0 < time -> 0 < rs -> alpha <> 0 -> gamma <> 1 -> t1 <> 0 -> u1 <> 1 ->
  let s := alpha * rs / time * 100000000 in
  let rhoA := rmtv_density g0 kappa rs sigma xis h1 in
  let uA := rmtv_velocity alpha rs time u1 in
  let pA := rmtv_pressure alpha g0 gamma kappa rs sigma time xis h1 t1 in
  let rhoB := rmtv_density g0 kappa rs sigma xis (rmtv_shock_y1 h1 t1 u1) in
  let uB := rmtv_velocity alpha rs time (rmtv_shock_y0 t1 u1) in
  let pB := rmtv_pressure alpha g0 gamma kappa rs sigma time xis (rmtv_shock_y1 h1 t1 u1) (rmtv_shock_y3 t1) in
  rhoB * (uB - s) = rhoA * (uA - s) /\
  pB + rhoB * (uB - s) ^ 2 = pA + rhoA * (uA - s) ^ 2 /\
  rmtv_temperature alpha bigamma rs time (rmtv_shock_y3 t1) = rmtv_temperature alpha bigamma rs time t1.
Proof. exact rmtv_shock_jump_proof. Qed.
Print Assumptions rmtv_shock_jump.

Theorem rmtv_shock_compressive :
  forall h1 t1 u1, 0 < h1 -> 0 < t1 -> t1 < (1 - u1) ^ 2 -> h1 < rmtv_shock_y1 h1 t1 u1.
Proof. exact rmtv_shock_compressive_proof. Qed.
Print Assumptions rmtv_shock_compressive.
