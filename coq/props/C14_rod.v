From Coq Require Import Reals.
From Coquelicot Require Import Coquelicot.
From EP Require Import lib.Base lib.Euler lib.RH lib.Euclid lib.Series gen.Heat proofs.C14_rod.
Open Scope R_scope.

Theorem rod_bc1_heat_equation :
  forall L Nsum TL TR alpha1 alpha2 gamma1 gamma2 kappa : R,
         alpha1 <> 0 ->
         alpha2 <> 0 ->
         L <> 0 ->
         forall (x : R_AbsRing) (t : R),
         exists (Tx : R -> R) (Txx Tt : R),
           (forall y : R_AbsRing,
            is_derive
              (fun z : R_AbsRing => rod_bc1_temperature L Nsum TL TR alpha1 alpha2 gamma1 gamma2 kappa z t) y
              (Tx y)) /\
           is_derive Tx x Txx /\
           is_derive
             (fun s : R_AbsRing => rod_bc1_temperature L Nsum TL TR alpha1 alpha2 gamma1 gamma2 kappa x s) t Tt /\
           Tt = kappa * Txx.
Proof. exact rod_bc1_heat_equation_proof. Qed.
Print Assumptions rod_bc1_heat_equation.

Theorem rod_bc1_boundary :
  forall L Nsum TL TR alpha1 alpha2 gamma1 gamma2 kappa : R,
         alpha1 <> 0 ->
         alpha2 <> 0 ->
         L <> 0 ->
         forall t : R,
         rod_bc1_temperature L Nsum TL TR alpha1 alpha2 gamma1 gamma2 kappa 0 t = gamma1 / alpha1 /\
         rod_bc1_temperature L Nsum TL TR alpha1 alpha2 gamma1 gamma2 kappa L t = gamma2 / alpha2.
Proof. exact rod_bc1_boundary_proof. Qed.
Print Assumptions rod_bc1_boundary.

Theorem rod_bc1_steady :
  forall L Nsum TL TR alpha1 alpha2 gamma1 gamma2 kappa x : R,
         0 < kappa ->
         is_lim (fun t : R => rod_bc1_temperature L Nsum TL TR alpha1 alpha2 gamma1 gamma2 kappa x t) p_infty
           (rod_bc1_static L TL TR alpha1 alpha2 gamma1 gamma2 x).
Proof. exact rod_bc1_steady_proof. Qed.
Print Assumptions rod_bc1_steady.

Theorem rod_bc1_fourier :
  forall L TL TR alpha1 alpha2 gamma1 gamma2 : R,
         alpha1 <> 0 ->
         alpha2 <> 0 ->
         L <> 0 ->
         forall m : nat,
         (1 <= m)%nat ->
         is_RInt
           (fun x : R =>
            (TL + (TR - TL) * x / L - rod_bc1_static L TL TR alpha1 alpha2 gamma1 gamma2 x) *
            sin (rod_bc1_kn L TL TR alpha1 alpha2 gamma1 gamma2 (INR m) * x)) 0 L
           (L / 2 * rod_bc1_Bn L TL TR alpha1 alpha2 gamma1 gamma2 (INR m)).
Proof. exact rod_bc1_fourier_proof. Qed.
Print Assumptions rod_bc1_fourier.

Theorem rod_bc2_heat_equation :
  forall L Nsum TL TR beta1 beta2 gamma1 gamma2 kappa : R,
         beta1 <> 0 ->
         forall (x : R_AbsRing) (t : R),
         exists (Tx : R -> R) (Txx Tt : R),
           (forall y : R_AbsRing,
            is_derive
              (fun z : R_AbsRing => rod_bc2_temperature L Nsum TL TR beta1 beta2 gamma1 gamma2 kappa z t) y
              (Tx y)) /\
           is_derive Tx x Txx /\
           is_derive
             (fun s : R_AbsRing => rod_bc2_temperature L Nsum TL TR beta1 beta2 gamma1 gamma2 kappa x s) t Tt /\
           Tt = kappa * Txx.
Proof. exact rod_bc2_heat_equation_proof. Qed.
Print Assumptions rod_bc2_heat_equation.

Theorem rod_bc2_boundary :
  forall L Nsum TL TR beta1 beta2 gamma1 gamma2 kappa : R,
         beta1 <> 0 ->
         L <> 0 ->
         forall t : R,
         is_derive (fun z : R_AbsRing => rod_bc2_temperature L Nsum TL TR beta1 beta2 gamma1 gamma2 kappa z t)
           0 (gamma1 / beta1) /\
         is_derive (fun z : R_AbsRing => rod_bc2_temperature L Nsum TL TR beta1 beta2 gamma1 gamma2 kappa z t)
           L (gamma1 / beta1).
Proof. exact rod_bc2_boundary_proof. Qed.
Print Assumptions rod_bc2_boundary.

Theorem rod_bc2_steady :
  forall L Nsum TL TR beta1 beta2 gamma1 gamma2 kappa : R,
         L <> 0 ->
         forall (N : nat) (x : R),
         Nsum = INR (S N) ->
         0 < kappa ->
         is_lim (fun t : R => rod_bc2_temperature L Nsum TL TR beta1 beta2 gamma1 gamma2 kappa x t) p_infty
           (rod_bc2_static L TL TR beta1 beta2 gamma1 gamma2 x + (TL + (TR - gamma1 / beta1 * L)) / 2).
Proof. exact rod_bc2_steady_proof. Qed.
Print Assumptions rod_bc2_steady.

Theorem rod_bc2_fourier :
  forall L TL TR beta1 beta2 gamma1 gamma2 : R,
         beta1 <> 0 ->
         L <> 0 ->
         forall m : nat,
         (1 <= m)%nat ->
         is_RInt
           (fun x : R =>
            (TL + (TR - TL) * x / L - rod_bc2_static L TL TR beta1 beta2 gamma1 gamma2 x) *
            cos (rod_bc2_kn L TL TR beta1 beta2 gamma1 gamma2 (INR m) * x)) 0 L
           (L / 2 * rod_bc2_An L TL TR beta1 beta2 gamma1 gamma2 (INR m)).
Proof. exact rod_bc2_fourier_proof. Qed.
Print Assumptions rod_bc2_fourier.

Theorem rod_bc2_fourier0 :
  forall L TL TR beta1 beta2 gamma1 gamma2 : R,
         beta1 <> 0 ->
         L <> 0 ->
         is_RInt (fun x : R => TL + (TR - TL) * x / L - rod_bc2_static L TL TR beta1 beta2 gamma1 gamma2 x) 0 L
           (L * rod_bc2_An L TL TR beta1 beta2 gamma1 gamma2 0).
Proof. exact rod_bc2_fourier0_proof. Qed.
Print Assumptions rod_bc2_fourier0.

Theorem rod_bc3_heat_equation :
  forall L Nsum TL TR alpha1 beta2 gamma1 gamma2 kappa : R,
         beta2 <> 0 ->
         forall (x : R_AbsRing) (t : R),
         exists (Tx : R -> R) (Txx Tt : R),
           (forall y : R_AbsRing,
            is_derive
              (fun z : R_AbsRing => rod_bc3_temperature L Nsum TL TR alpha1 beta2 gamma1 gamma2 kappa z t) y
              (Tx y)) /\
           is_derive Tx x Txx /\
           is_derive
             (fun s : R_AbsRing => rod_bc3_temperature L Nsum TL TR alpha1 beta2 gamma1 gamma2 kappa x s) t Tt /\
           Tt = kappa * Txx.
Proof. exact rod_bc3_heat_equation_proof. Qed.
Print Assumptions rod_bc3_heat_equation.

Theorem rod_bc3_boundary :
  forall L Nsum TL TR alpha1 beta2 gamma1 gamma2 kappa : R,
         alpha1 <> 0 ->
         beta2 <> 0 ->
         L <> 0 ->
         forall t : R,
         rod_bc3_temperature L Nsum TL TR alpha1 beta2 gamma1 gamma2 kappa 0 t = gamma1 / alpha1 /\
         is_derive (fun z : R_AbsRing => rod_bc3_temperature L Nsum TL TR alpha1 beta2 gamma1 gamma2 kappa z t)
           L (gamma2 / beta2).
Proof. exact rod_bc3_boundary_proof. Qed.
Print Assumptions rod_bc3_boundary.

Theorem rod_bc3_steady :
  forall L Nsum TL TR alpha1 beta2 gamma1 gamma2 kappa x : R,
         0 < kappa ->
         is_lim (fun t : R => rod_bc3_temperature L Nsum TL TR alpha1 beta2 gamma1 gamma2 kappa x t) p_infty
           (rod_bc3_static L TL TR alpha1 beta2 gamma1 gamma2 x).
Proof. exact rod_bc3_steady_proof. Qed.
Print Assumptions rod_bc3_steady.

Theorem rod_bc3_fourier :
  forall L TL TR alpha1 beta2 gamma1 gamma2 : R,
         alpha1 <> 0 ->
         beta2 <> 0 ->
         L <> 0 ->
         forall m : nat,
         is_RInt
           (fun x : R =>
            (TL + (TR - TL) * x / L - rod_bc3_static L TL TR alpha1 beta2 gamma1 gamma2 x) *
            sin (rod_bc3_kn L TL TR alpha1 beta2 gamma1 gamma2 (INR m) * x)) 0 L
           (L / 2 * rod_bc3_Bn L TL TR alpha1 beta2 gamma1 gamma2 (INR m)).
Proof. exact rod_bc3_fourier_proof. Qed.
Print Assumptions rod_bc3_fourier.

Theorem rod_bc4_heat_equation :
  forall L Nsum TL TR alpha2 beta1 gamma1 gamma2 kappa : R,
         beta1 <> 0 ->
         forall (x : R_AbsRing) (t : R),
         exists (Tx : R -> R) (Txx Tt : R),
           (forall y : R_AbsRing,
            is_derive
              (fun z : R_AbsRing => rod_bc4_temperature L Nsum TL TR alpha2 beta1 gamma1 gamma2 kappa z t) y
              (Tx y)) /\
           is_derive Tx x Txx /\
           is_derive
             (fun s : R_AbsRing => rod_bc4_temperature L Nsum TL TR alpha2 beta1 gamma1 gamma2 kappa x s) t Tt /\
           Tt = kappa * Txx.
Proof. exact rod_bc4_heat_equation_proof. Qed.
Print Assumptions rod_bc4_heat_equation.

Theorem rod_bc4_boundary :
  forall L Nsum TL TR alpha2 beta1 gamma1 gamma2 kappa : R,
         alpha2 <> 0 ->
         beta1 <> 0 ->
         L <> 0 ->
         forall t : R,
         is_derive (fun z : R_AbsRing => rod_bc4_temperature L Nsum TL TR alpha2 beta1 gamma1 gamma2 kappa z t)
           0 (gamma1 / beta1) /\
         rod_bc4_temperature L Nsum TL TR alpha2 beta1 gamma1 gamma2 kappa L t = gamma2 / alpha2.
Proof. exact rod_bc4_boundary_proof. Qed.
Print Assumptions rod_bc4_boundary.

Theorem rod_bc4_steady :
  forall L Nsum TL TR alpha2 beta1 gamma1 gamma2 kappa : R,
         L <> 0 ->
         forall x : R,
         0 < kappa ->
         is_lim (fun t : R => rod_bc4_temperature L Nsum TL TR alpha2 beta1 gamma1 gamma2 kappa x t) p_infty
           (rod_bc4_static L TL TR alpha2 beta1 gamma1 gamma2 x).
Proof. exact rod_bc4_steady_proof. Qed.
Print Assumptions rod_bc4_steady.

Theorem rod_bc4_fourier :
  forall L TL TR alpha2 beta1 gamma1 gamma2 : R,
         alpha2 <> 0 ->
         beta1 <> 0 ->
         L <> 0 ->
         forall m : nat,
         is_RInt
           (fun x : R =>
            (TL + (TR - TL) * x / L - rod_bc4_static L TL TR alpha2 beta1 gamma1 gamma2 x) *
            cos (rod_bc4_kn L TL TR alpha2 beta1 gamma1 gamma2 (INR m) * x)) 0 L
           (L / 2 * rod_bc4_An L TL TR alpha2 beta1 gamma1 gamma2 (INR m)).
Proof. exact rod_bc4_fourier_proof. Qed.
Print Assumptions rod_bc4_fourier.

Theorem psandwich :
  forall (L Nsum TL TR kappa TB TT : R) (x : R_AbsRing) (t : R),
         L <> 0 ->
         let T := psandwich_temperature L Nsum TL TR kappa TB TT in
         (exists (Tx : R -> R) (Txx Tt : R),
            (forall y : R_AbsRing, is_derive (fun z : R_AbsRing => T z t) y (Tx y)) /\
            is_derive Tx x Txx /\ is_derive (fun s : R_AbsRing => T x s) t Tt /\ Tt = kappa * Txx) /\
         T 0 t = TB /\
         T L t = TT /\ (0 < kappa -> is_lim (fun s : R => T x s) p_infty (TB + (TT - TB) * x / L)).
Proof. exact psandwich_proof. Qed.
Print Assumptions psandwich.

Theorem psandwich_hot :
  forall (L Nsum TL TR kappa F : R) (x : R_AbsRing) (t : R),
         L <> 0 ->
         let T := psandwich_hot_temperature L Nsum TL TR kappa F in
         (exists (Tx : R -> R) (Txx Tt : R),
            (forall y : R_AbsRing, is_derive (fun z : R_AbsRing => T z t) y (Tx y)) /\
            is_derive Tx x Txx /\ is_derive (fun s : R_AbsRing => T x s) t Tt /\ Tt = kappa * Txx) /\
         is_derive (fun z : R_AbsRing => T z t) 0 F /\ is_derive (fun z : R_AbsRing => T z t) L F.
Proof. exact psandwich_hot_proof. Qed.
Print Assumptions psandwich_hot.

Theorem psandwich_half :
  forall (L Nsum TL TR kappa FT TB : R) (x : R_AbsRing) (t : R),
         L <> 0 ->
         let T := psandwich_half_temperature L Nsum TL TR kappa FT TB in
         (exists (Tx : R -> R) (Txx Tt : R),
            (forall y : R_AbsRing, is_derive (fun z : R_AbsRing => T z t) y (Tx y)) /\
            is_derive Tx x Txx /\ is_derive (fun s : R_AbsRing => T x s) t Tt /\ Tt = kappa * Txx) /\
         T 0 t = TB /\
         is_derive (fun z : R_AbsRing => T z t) L FT /\
         (0 < kappa -> is_lim (fun s : R => T x s) p_infty (TB + FT * x)).
Proof. exact psandwich_half_proof. Qed.
Print Assumptions psandwich_half.

