From Coq Require Import Reals.
From Coquelicot Require Import Coquelicot.
From EP Require Import lib.Base lib.Euler lib.RH lib.Euclid gen.Riemann2D proofs.C19_riemann2d.
Open Scope R_scope.

Theorem r2d_prandtl_meyer_refuted :
  Rabs (prandtl_meyer 2 (7 / 5) - 4604 / 10000) <= 1 / 10000 /\
         Rabs (r2d_prandtl_meyer 2 (7 / 5) - 2586 / 10000) <= 1 / 10000.
Proof. exact r2d_prandtl_meyer_refuted_proof. Qed.
Print Assumptions r2d_prandtl_meyer_refuted.

