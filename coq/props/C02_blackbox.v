From Coq Require Import Reals.
From EP Require Import lib.RH gen.Residuals proofs.C02_blackbox.
Open Scope R_scope.

(* Noh problem with a black-box EOS: the residuals handed to the Newton solver vanish exactly when the post-shock state at rest and the
   converging pre-shock state rho_0 (1 - u_0/D)^symmetry, u_0, P_0, e_0 satisfy the mass, momentum and energy jump conditions for a shock
   of speed D - for every EOS (its values are free variables), every symmetry exponent and every upstream pressure. *)
Theorem pressure_residual_iff_rh :
  forall rho e_ D_ u_0 rho_0 P_0 e_0 symmetry eos_P,
  D_ <> 0 -> rho <> 0 -> 0 < 1 - u_0 / D_ ->
  ( (res_pr3_F0 rho D_ u_0 rho_0 symmetry = 0 /\ res_pr3_F1 rho D_ u_0 P_0 eos_P = 0 /\ res_pr3_F2 rho e_ D_ u_0 P_0 e_0 = 0)
    <-> rh_jump D_ rho 0 eos_P e_ (bb_rho1 D_ u_0 rho_0 symmetry) u_0 P_0 e_0 ).
Proof. exact pressure_residual_iff_rh_proof. Qed.
Print Assumptions pressure_residual_iff_rh.

Theorem energy_residual_iff_rh :
  forall rho P D_ u_0 rho_0 P_0 e_0 symmetry eos_e,
  D_ <> 0 -> rho <> 0 -> 0 < 1 - u_0 / D_ ->
  ( (res_en3_F0 rho D_ u_0 rho_0 symmetry = 0 /\ res_en3_F1 rho P D_ u_0 P_0 = 0 /\ res_en3_F2 rho D_ u_0 P_0 e_0 eos_e = 0)
    <-> rh_jump D_ rho 0 P eos_e (bb_rho1 D_ u_0 rho_0 symmetry) u_0 P_0 e_0 ).
Proof. exact energy_residual_iff_rh_proof. Qed.
Print Assumptions energy_residual_iff_rh.

(* the hypotheses are satisfiable and the equivalence is not vacuous: ideal gas gamma = 5/3, rho_0 = 1, u_0 = -1, P_0 = 0, planar:
   rho = 4, D = 1/3, P = 4/3, e = 1/2 is the classical Noh state *)
Example noh_state_is_a_root :
  res_pr3_F0 4 (1/3) (-1) 1 0 = 0 /\ res_pr3_F1 4 (1/3) (-1) 0 (4/3) = 0 /\ res_pr3_F2 4 (1/2) (1/3) (-1) 0 0 = 0.
Proof. exact noh_state_is_a_root_proof. Qed.
