From Coq Require Import Reals.
From EP Require Import lib.Base gen.Noh1 proofs.C17_noh.
Open Scope R_scope.

Theorem noh_admissible :
  forall geometry gamma u0 rho0 r t : R,
  1 < gamma -> 0 < rho0 -> 0 < r -> 0 <= t ->
  0 < noh_density geometry gamma u0 rho0 r t /\ 0 <= noh_pressure geometry gamma u0 rho0 r t /\
  0 <= noh_specific_internal_energy geometry gamma u0 rho0 r t.
Proof. exact noh_admissible_proof. Qed.
Print Assumptions noh_admissible.

Theorem noh_shock_compressive :
  forall geometry gamma u0 rho0 t : R,
  1 < gamma -> 0 < rho0 -> u0 < 0 -> 0 < t -> 1 <= geometry ->
  let rs := Rabs u0 * t * (gamma - 1) / 2 in
  rho0 * Rpower (1 + Rabs u0 * t / rs) (geometry - 1) < rho0 * Rpower ((gamma + 1) / (gamma - 1)) geometry /\
  0 < (gamma - 1) * rho0 * Rpower ((gamma + 1) / (gamma - 1)) geometry * u0 ^ 2 * (1 / 2).
Proof. exact noh_shock_compressive_proof. Qed.
Print Assumptions noh_shock_compressive.

Theorem noh_compressive_fields :
  forall geometry gamma u0 rho0 t r_in r_out : R,
  1 < gamma -> 0 < rho0 -> u0 < 0 -> 0 < t -> 1 <= geometry ->
  0 < r_in -> r_in < Rabs u0 * t * (gamma - 1) / 2 -> Rabs u0 * t * (gamma - 1) / 2 <= r_out ->
  noh_density geometry gamma u0 rho0 r_out t < noh_density geometry gamma u0 rho0 r_in t /\
  noh_pressure geometry gamma u0 rho0 r_out t < noh_pressure geometry gamma u0 rho0 r_in t.
Proof. exact noh_compressive_fields_proof. Qed.
Print Assumptions noh_compressive_fields.
