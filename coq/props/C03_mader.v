From Coq Require Import Reals.
From EP Require Import lib.Base gen.Mader proofs.C17_mader.
Open Scope R_scope.

(* Mader Taylor wave (point values of the wave coded in rare(); the mirror is definitionally the generated code, see
   props/C17_mader.v): c^2 = gamma p / rho and the isentrope through the CJ state *)
Theorem mader_fan_eos :
  forall t p_cj d_cj gam y : R, 0 < p_cj -> 0 < d_cj -> 1 < gam -> 0 < fan_arg t d_cj gam y ->
  fan_c t d_cj gam y ^ 2 = gam * fan_p t p_cj d_cj gam y / fan_rho t p_cj d_cj gam y /\
  fan_p t p_cj d_cj gam y / Rpower (fan_rho t p_cj d_cj gam y) gam = p_cj / Rpower (rho_cj p_cj d_cj gam) gam.
Proof. exact mader_fan_sound_speed_proof. Qed.
Print Assumptions mader_fan_eos.
