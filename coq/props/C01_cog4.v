From Coq Require Import Reals.
From EP Require Import lib.Euler gen.Cog4 proofs.C01_cog4.
Open Scope R_scope.

(* Coggeshall 4: the returned fields satisfy the documented conservation equations.  *)
Theorem cog4_pde :
  forall geometry gamma rho0 u0 Gamma r t,
  0 < r -> 0 < t -> rho0 <> 0 -> u0 <> 0 -> gamma <> 1 -> gamma <> 0 -> gamma + 1 <> 0 -> Gamma <> 0 ->
  euler_at (geometry - 1)
    (cog4_density geometry gamma rho0 u0 Gamma)
    (cog4_velocity geometry gamma rho0 u0 Gamma)
    (cog4_pressure geometry gamma rho0 u0 Gamma)
    (cog4_specific_internal_energy geometry gamma rho0 u0 Gamma) r t.
Proof. exact cog4_pde_proof. Qed.
Print Assumptions cog4_pde.
