From Coq Require Import Reals.
From EP Require Import lib.Base gen.Noh2 proofs.C03_noh2.
Open Scope R_scope.

(* noh2: at every point where the returned expressions are defined (no division by zero, see noh2_defined)
   the returned pressure, density, temperature and specific internal energy satisfy the declared EOS. P = (gamma-1) rho e *)
Theorem noh2_eos :
  forall geometry gamma rho0 e0 r t,
  noh2_defined geometry gamma rho0 e0 r t ->
  noh2_density geometry gamma rho0 e0 r t <> 0 ->
  gamma - 1 <> 0 ->
  noh2_pressure geometry gamma rho0 e0 r t = (gamma - 1) * (noh2_density geometry gamma rho0 e0 r t) * (noh2_specific_internal_energy geometry gamma rho0 e0 r t).
Proof. exact noh2_eos_proof. Qed.
Print Assumptions noh2_eos.
