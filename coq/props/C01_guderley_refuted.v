From Coq Require Import Reals.
From Coquelicot Require Import Coquelicot.
From EP Require Import lib.Base lib.RH lib.Euler gen.Guderley proofs.Guderley_alg proofs.Guderley_time proofs.C01_guderley.
Open Scope R_scope.

(* KNOWN FINDING guderley-lazarus-time-units: the solver converts the caller's time t to Lazarus time tau = t / 0.750024322 - 1 but returns velocities per unit of
   Lazarus time, so read as functions of the caller's (r, t) the fields violate the mass equation wherever the similarity density profile is not stationary. *)
Theorem guderley_caller_time_mass_refuted :
  forall (rho0 gamma lambda_ nu : R) (V C Rf : R -> R) (r t : R),
  let tau := lazarus t in
  0 < r ->
  tau <> 0 ->
  rho0 <> 0 ->
  gamma <> 0 ->
  gamma - 1 <> 0 ->
  lambda_ <> 0 ->
  let x := xs lambda_ r tau in
  is_derive V x (gud_g_V x (V x) (C x) nu gamma lambda_) ->
  is_derive C x (gud_g_C x (V x) (C x) nu gamma lambda_) ->
  is_derive Rf x (gud_g_R x (V x) (C x) (Rf x) nu gamma lambda_) ->
  C x * C x - (V x + 1) ^ 2 <> 0 ->
  V x + 1 <> 0 -> Rf x <> 0 -> gud_g_R x (V x) (C x) (Rf x) nu gamma lambda_ <> 0 -> ~ mass_eq nu (c_den rho0 lambda_ Rf) (c_vel lambda_ V) r t.
Proof. exact guderley_caller_time_mass_refuted_proof. Qed.
Print Assumptions guderley_caller_time_mass_refuted.
