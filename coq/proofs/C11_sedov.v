(* C11 - Sedov: the interplay of the alpha normalisation, the shock-radius formula, the post-shock state and the
   similarity functions (all regenerated from sedov.py: gen/Sedov.v) makes the energy behind the shock equal eblast.
   The two quadratures (scipy quad) enter as the numbers I1, I2 they approximate. *)
From Coq Require Import Reals Lra Psatz.
From Coquelicot Require Import Coquelicot.
From EP Require Import lib.Base lib.Tactics gen.Sedov.
Open Scope R_scope.

(* surface factor of the geometry: planar 1 (one side), cylindrical 2 pi, spherical 4 pi *)
Definition Sj (j : R) : R := if Req_EM_T j 1 then 1 else 2 * (j - 1) * PI.

(* alpha as the constructor assembles it *)
Definition sed_alpha (j I1 I2 gamm1 : R) : R :=
  if Req_EM_T j 1 then sed_alpha_planar I1 I2 gamm1 else sed_alpha_curved j I1 I2 gamm1.

Lemma alpha_Sj : forall j I1 I2 gamm1, gamm1 <> 0 -> sed_alpha j I1 I2 gamm1 = Sj j * (1 / 2 * I1 + I2 / gamm1).
Proof.
  intros j I1 I2 gamm1 Hg. unfold sed_alpha, Sj, sed_alpha_planar, sed_alpha_curved.
  destruct (Req_EM_T j 1); field; assumption.
Qed.

(* the energy integrands are built from the similarity functions exactly as written here *)
Lemma efun01_struct : forall v geometry omega gpogm xg2 a0 a1 a2 a3 a4 a5 a_val b_val c_val d_val e_val,
  sed_std_efun01 v geometry omega gpogm xg2 a0 a1 a2 a3 a4 a5 a_val b_val c_val d_val e_val =
  sed_std_dlamdv v a0 a1 a2 a_val b_val c_val d_val e_val *
  Rpower (sed_std_lam v a0 a1 a2 a_val b_val c_val d_val e_val) (geometry + 1) * gpogm *
  sed_std_g v omega xg2 a0 a1 a2 a3 a4 a5 a_val b_val c_val d_val e_val * v ^ 2.
Proof. intros. reflexivity. Qed.

Lemma efun02_struct : forall v geometry omega gamp1 xg2 a0 a1 a2 a4 a5 a_val b_val c_val d_val e_val,
  sed_std_efun02 v geometry omega gamp1 xg2 a0 a1 a2 a4 a5 a_val b_val c_val d_val e_val =
  sed_std_dlamdv v a0 a1 a2 a_val b_val c_val d_val e_val *
  Rpower (sed_std_lam v a0 a1 a2 a_val b_val c_val d_val e_val) (geometry - 1) *
  sed_std_h v geometry omega xg2 a0 a1 a4 a5 a_val b_val d_val e_val * (8 / ((geometry + 2 - omega) ^ 2 * gamp1)).
Proof. intros. reflexivity. Qed.

Lemma f_struct : forall v a0 a1 a2 a_val b_val c_val d_val e_val,
  sed_std_f v a0 a1 a2 a_val b_val c_val d_val e_val = a_val * v * sed_std_lam v a0 a1 a2 a_val b_val c_val d_val e_val.
Proof. intros. reflexivity. Qed.

Lemma lam_pos : forall v a0 a1 a2 a_val b_val c_val d_val e_val, 0 < sed_std_lam v a0 a1 a2 a_val b_val c_val d_val e_val.
Proof. intros. unfold sed_std_lam, Rpower. repeat apply Rmult_lt_0_compat; apply exp_pos. Qed.

(* ---- the shock radius: r2^(j+2-omega) = eblast t^2 / (alpha rho0) ---- *)
Lemma r2_pos : forall t rho0 eblast alpha xg2, 0 < sed_r2 t rho0 eblast alpha xg2.
Proof. intros. unfold sed_r2, Rpower. apply Rmult_lt_0_compat; apply exp_pos. Qed.

Lemma r2_power : forall t rho0 eblast alpha xg2, 0 < t -> 0 < rho0 -> 0 < eblast -> 0 < alpha -> xg2 <> 0 ->
  Rpower (sed_r2 t rho0 eblast alpha xg2) xg2 = eblast * (t * t) / (alpha * rho0).
Proof.
  intros t rho0 eblast alpha xg2 Ht Hr He Ha Hx. unfold sed_r2.
  assert (Hq : 0 < eblast / (alpha * rho0)) by (apply Rdiv_lt_0_compat; [ lra | apply Rmult_lt_0_compat; lra ]).
  rewrite <- Rpower_mult_distr; [ | unfold Rpower; apply exp_pos | unfold Rpower; apply exp_pos ].
  rewrite !Rpower_mult.
  replace (1 / xg2 * xg2) with 1 by (field; exact Hx). replace (2 / xg2 * xg2) with (1 + 1) by (field; exact Hx).
  rewrite Rpower_plus, !Rpower_1 by assumption. field. split; lra.
Qed.

(* ---- the pointwise identity, with the similarity functions as opaque numbers ---- *)
Lemma energy_density_identity :
  forall j gamma omega rho0 eblast alpha t v L dL G H,
  1 < gamma -> 0 < rho0 -> 0 < eblast -> 0 < alpha -> 0 < t -> 0 < L -> j + 2 - omega <> 0 ->
  let xg2 := j + 2 - omega in
  let gamp1 := gamma + 1 in let gamm1 := gamma - 1 in let gpogm := gamp1 / gamm1 in
  let a_val := 1 / 4 * xg2 * gamp1 in
  let R2 := sed_r2 t rho0 eblast alpha xg2 in
  let rho2 := sed_rho2 t rho0 eblast alpha omega xg2 gpogm in
  let u2 := sed_u2 t rho0 eblast alpha xg2 gamp1 in
  let p2 := sed_p2 t rho0 eblast alpha omega xg2 gamp1 in
  let dens := sed_phys_density G rho2 in let vel := sed_phys_velocity (a_val * v * L) u2 in let pres := sed_phys_pressure H p2 in
  (1 / 2 * dens * vel ^ 2 + pres / gamm1) * (Rpower (R2 * L) (j - 1) * R2 * dL) =
  eblast / alpha * (1 / 2 * (dL * Rpower L (j + 1) * gpogm * G * v ^ 2) + (dL * Rpower L (j - 1) * H * (8 / (xg2 ^ 2 * gamp1))) / gamm1).
Proof.
  intros j gamma omega rho0 eblast alpha t v L dL G H Hg Hr He Ha Ht HL Hx xg2 gamp1 gamm1 gpogm a_val R2 rho2 u2 p2 dens vel pres.
  pose proof (r2_pos t rho0 eblast alpha xg2) as HR2.
  pose proof (r2_power t rho0 eblast alpha xg2 Ht Hr He Ha Hx) as HK.
  unfold dens, vel, pres, sed_phys_density, sed_phys_velocity, sed_phys_pressure, rho2, u2, p2, sed_rho2, sed_u2, sed_p2.
  change (Rpower (eblast / (alpha * rho0)) (1 / xg2) * Rpower t (2 / xg2)) with R2.
  rewrite <- (Rpower_mult_distr R2 L (j - 1)) by assumption.
  replace (Rpower L (j + 1)) with (Rpower L (j - 1) * (L * L)).
  2:{ replace (j + 1) with (j - 1 + 1 + 1) by ring. rewrite !Rpower_plus, Rpower_1 by exact HL. ring. }
  (* r2^(-omega) r2^(j-1) r2^3 = r2^xg2 *)
  assert (HK' : Rpower R2 (- omega) * Rpower R2 (j - 1) * (R2 * R2 * R2) = eblast * (t * t) / (alpha * rho0)).
  { rewrite <- HK. fold R2. fold R2 in HR2.
    transitivity (Rpower R2 (- omega + (j - 1) + 1 + 1 + 1)); [ rewrite !Rpower_plus, Rpower_1 by exact HR2; ring | f_equal; unfold xg2; ring ]. }
  fold R2 in HR2.
  set (A := Rpower R2 (- omega)) in *. set (B := Rpower R2 (j - 1)) in *. set (P := Rpower L (j - 1)) in *.
  assert (HB : 0 < B) by (unfold B, Rpower; apply exp_pos).
  assert (HA : A = eblast * (t * t) / (alpha * rho0) / (B * (R2 * R2 * R2))).
  { rewrite <- HK'. field. split; lra. }
  clearbody A B P R2. subst A.
  unfold a_val, gpogm, gamp1, gamm1. fold xg2.
  field. repeat split; try lra; try exact Hx.
Qed.

(* ---- the energy integral in the similarity variable, on the regenerated functions ---- *)
Section Energy.
Variables j gamma omega rho0 eblast t I1 I2 vmin : R.
Hypothesis Hg : 1 < gamma.
Hypothesis Hr : 0 < rho0.
Hypothesis He : 0 < eblast.
Hypothesis Ht : 0 < t.
Hypothesis Hx : j + 2 - omega <> 0.

Let gamm1 := sed_gamm1 gamma.
Let gamp1 := sed_gamp1 gamma.
Let gpogm := sed_gpogm gamma.
Let xg2 := sed_xg2 j omega.
Let a0 := sed_a0 j omega.
Let a1 := sed_a1 j gamma omega.
Let a2 := sed_a2 j gamma omega.
Let a3 := sed_a3 j gamma omega.
Let a4 := sed_a4 j gamma omega.
Let a5 := sed_a5 j gamma omega.
Let a_val := sed_a_val j gamma omega.
Let b_val := sed_b_val gamma.
Let c_val := sed_c_val j gamma omega.
Let d_val := sed_d_val j gamma omega.
Let e_val := sed_e_val j gamma.
Let v2 := sed_v2 j gamma omega.

Definition sed_lam_of (v : R) := sed_std_lam v a0 a1 a2 a_val b_val c_val d_val e_val.
Definition sed_dlam_of (v : R) := sed_std_dlamdv v a0 a1 a2 a_val b_val c_val d_val e_val.
Definition sed_f_of (v : R) := sed_std_f v a0 a1 a2 a_val b_val c_val d_val e_val.
Definition sed_g_of (v : R) := sed_std_g v omega xg2 a0 a1 a2 a3 a4 a5 a_val b_val c_val d_val e_val.
Definition sed_h_of (v : R) := sed_std_h v j omega xg2 a0 a1 a4 a5 a_val b_val d_val e_val.
Definition sed_efun01_of (v : R) := sed_std_efun01 v j omega gpogm xg2 a0 a1 a2 a3 a4 a5 a_val b_val c_val d_val e_val.
Definition sed_efun02_of (v : R) := sed_std_efun02 v j omega gamp1 xg2 a0 a1 a2 a4 a5 a_val b_val c_val d_val e_val.

Definition alpha_of : R := sed_alpha j I1 I2 gamm1.
Definition r2_of : R := sed_r2 t rho0 eblast alpha_of xg2.
(* returned fields at the point r = r2 * lambda(v), through physical() *)
Definition dens_of (v : R) := sed_phys_density (sed_g_of v) (sed_rho2 t rho0 eblast alpha_of omega xg2 gpogm).
Definition vel_of (v : R) := sed_phys_velocity (sed_f_of v) (sed_u2 t rho0 eblast alpha_of xg2 gamp1).
Definition pres_of (v : R) := sed_phys_pressure (sed_h_of v) (sed_p2 t rho0 eblast alpha_of omega xg2 gamp1).
(* energy per unit similarity variable: (kinetic + internal) * S_j r^(j-1) dr/dv with r = r2 lambda(v) *)
Definition energy_dv (v : R) : R :=
  Sj j * ((1 / 2 * dens_of v * vel_of v ^ 2 + pres_of v / gamm1) * (Rpower (r2_of * sed_lam_of v) (j - 1) * r2_of * sed_dlam_of v)).

Theorem sedov_energy_similarity_proof :
  0 < alpha_of ->
  is_RInt sed_efun01_of vmin v2 I1 -> is_RInt sed_efun02_of vmin v2 I2 ->
  is_RInt energy_dv vmin v2 eblast.
Proof.
  intros Ha H1 H2.
  assert (Hgm : gamm1 <> 0) by (unfold gamm1, sed_gamm1; lra).
  apply (is_RInt_ext (fun v => Sj j * (eblast / alpha_of * (1 / 2 * sed_efun01_of v + sed_efun02_of v / gamm1)))).
  { intros v _. unfold energy_dv. f_equal.
    unfold sed_efun01_of, sed_efun02_of. rewrite efun01_struct, efun02_struct.
    unfold dens_of, vel_of, pres_of, sed_f_of. rewrite f_struct.
    fold (sed_lam_of v) (sed_dlam_of v) (sed_g_of v) (sed_h_of v).
    pose proof (lam_pos v a0 a1 a2 a_val b_val c_val d_val e_val) as HL. fold (sed_lam_of v) in HL.
    pose proof (energy_density_identity j gamma omega rho0 eblast alpha_of t v (sed_lam_of v) (sed_dlam_of v) (sed_g_of v) (sed_h_of v)
                  Hg Hr He Ha Ht HL Hx) as Hid.
    cbv zeta in Hid. symmetry. exact Hid. }
  evar_last.
  - apply (is_RInt_scal (fun v => eblast / alpha_of * (1 / 2 * sed_efun01_of v + sed_efun02_of v / gamm1)) vmin v2 (Sj j)).
    apply (is_RInt_scal (fun v => 1 / 2 * sed_efun01_of v + sed_efun02_of v / gamm1) vmin v2 (eblast / alpha_of)).
    apply (is_RInt_plus (fun v => 1 / 2 * sed_efun01_of v) (fun v => sed_efun02_of v / gamm1)).
    + apply (is_RInt_scal sed_efun01_of vmin v2 (1 / 2)). exact H1.
    + apply (is_RInt_ext (fun v => / gamm1 * sed_efun02_of v)); [ intros x _; unfold Rdiv; apply Rmult_comm | ].
      apply (is_RInt_scal sed_efun02_of vmin v2 (/ gamm1)). exact H2.
  - unfold scal, plus; simpl; unfold mult; simpl.
    pose proof (alpha_Sj j I1 I2 gamm1 Hgm) as HS. fold alpha_of in HS.
    assert (HSn : Sj j * (1 / 2 * I1 + I2 / gamm1) <> 0) by (rewrite <- HS; lra).
    replace (Sj j * (eblast / alpha_of * (1 / 2 * I1 + / gamm1 * I2))) with (eblast * (Sj j * (1 / 2 * I1 + I2 / gamm1)) / alpha_of) by (field; split; lra).
    rewrite <- HS. field. lra.
Qed.
End Energy.
