(* C03 for cog21: returned thermodynamic fields satisfy the declared EOS. P = Gamma rho T, e = Gamma T/(gamma-1) with the built-in gamma = 5 *)
From Coq Require Import Reals Lra.
From EP Require Import lib.Base lib.Tactics gen.Cog21.
Open Scope R_scope.

Lemma cog21_eos_proof :
  forall rho0 temp0 Gamma r t,
  cog21_defined rho0 temp0 Gamma r t ->
  cog21_density rho0 temp0 Gamma r t <> 0 ->
  5 - 1 <> 0 ->
  cog21_pressure rho0 temp0 Gamma r t = Gamma * (cog21_density rho0 temp0 Gamma r t) * (cog21_temperature rho0 temp0 Gamma r t) /\
  cog21_specific_internal_energy rho0 temp0 Gamma r t = Gamma * (cog21_temperature rho0 temp0 Gamma r t) / (5 - 1) /\
  cog21_pressure rho0 temp0 Gamma r t = (5 - 1) * (cog21_density rho0 temp0 Gamma r t) * (cog21_specific_internal_energy rho0 temp0 Gamma r t).
Proof. unfold cog21_defined. eos_solve. Qed.
