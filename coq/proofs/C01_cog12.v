(* C01 for Coggeshall 12. alpha as documented: (beta+4)(1-gamma) + (k-1)(gamma+1)/(2k). *)
From Coq Require Import Reals Lra.
From Coquelicot Require Import Coquelicot.
From EP Require Import lib.Base lib.Euler lib.Tactics gen.Cog12.
Open Scope R_scope.

Lemma cog12_pde_proof :
  forall geometry gamma beta rho0 u0 Gamma K0 r t,
  0 < r -> 0 < t -> 0 < rho0 -> u0 <> 0 -> 0 < gamma -> gamma < 1 -> 0 < Gamma -> geometry - 1 <> 0 -> 0 < u0 ^ 2 * (1 - gamma) / (2 * Gamma * gamma) ->
  euler_heat_at (geometry - 1) K0 ((beta + 4) * (1 - gamma) + (geometry - 1 - 1) * (gamma + 1) / (2 * (geometry - 1))) beta
    (cog12_density geometry gamma beta rho0 u0 Gamma)
    (cog12_velocity geometry gamma beta rho0 u0 Gamma)
    (cog12_temperature geometry gamma beta rho0 u0 Gamma)
    (cog12_pressure geometry gamma beta rho0 u0 Gamma)
    (cog12_specific_internal_energy geometry gamma beta rho0 u0 Gamma) r t.
Proof. intros. heat_solve (2 * ((geometry - 1) * (1 - gamma) / (1 + gamma))). Qed.
