(* C12: the far-downstream equilibrium state of the radiative-shock solvers.
   The two residuals handed to fsolve in RadShockProfile.downstream_equilibrium (regenerated: rs_down_momentum, rs_down_energy)
   vanish exactly when the state (rho, T) moving with speed M0 / rho carries the same total momentum flux and total energy flux
   (gas + radiation pressure P0 T^4 / 3 + radiation energy P0 T^4, no radiation flux at equilibrium) as the upstream state (1, 1) moving with M0;
   the mass flux is M0 on both sides by speed1 = M0 / rho1; and the non-dimensional fluxes are the physical ones divided by rho0 c0^2
   (rho0 c0^3) with c0, P0 as coded in RadShock.__init__. *)
From Coq Require Import Reals Lra Psatz.
From EP Require Import lib.Base lib.Tactics gen.RadShock.
Open Scope R_scope.

(* non-dimensional fluxes of the grey radiation-hydrodynamics model at equilibrium (T_rad = T, F_rad = 0): p = rho T / gamma, e = T / (gamma (gamma - 1)) *)
Definition nd_mass (rho v : R) : R := rho * v.
Definition nd_momentum (gamma P0 rho v T : R) : R := rho * v ^ 2 + rho * T / gamma + P0 * T ^ 4 / 3.
Definition nd_energy (gamma P0 rho v T : R) : R :=
  v * (rho * (v ^ 2 / 2 + T / (gamma * (gamma - 1))) + rho * T / gamma + P0 * T ^ 4 + P0 * T ^ 4 / 3).

Lemma radshock_downstream_is_jump_proof : forall M0 gamma P0 rho T,
  rho <> 0 -> gamma <> 0 -> gamma - 1 <> 0 -> M0 <> 0 ->
  (rs_down_momentum M0 gamma P0 rho T = 0 /\ rs_down_energy M0 gamma P0 rho T = 0) <->
  (nd_momentum gamma P0 rho (M0 / rho) T = nd_momentum gamma P0 1 M0 1 /\
   nd_energy gamma P0 rho (M0 / rho) T = nd_energy gamma P0 1 M0 1).
Proof.
  intros M0 gamma P0 rho T Hr Hg Hg1 HM.
  assert (Em : nd_momentum gamma P0 rho (M0 / rho) T - nd_momentum gamma P0 1 M0 1 = rs_down_momentum M0 gamma P0 rho T / rho).
  { unfold nd_momentum, rs_down_momentum. field. split; assumption. }
  assert (Ee : nd_energy gamma P0 rho (M0 / rho) T - nd_energy gamma P0 1 M0 1 = rs_down_energy M0 gamma P0 rho T * (M0 / rho ^ 2)).
  { unfold nd_energy, rs_down_energy. field. repeat split; assumption. }
  split.
  - intros [H1 H2]. rewrite H1 in Em. rewrite H2 in Ee. split; [ | ]; lra || (unfold Rdiv in *; nra).
  - intros [H1 H2]. rewrite H1 in Em. rewrite H2 in Ee.
    replace (nd_momentum gamma P0 1 M0 1 - nd_momentum gamma P0 1 M0 1) with 0 in Em by ring.
    replace (nd_energy gamma P0 1 M0 1 - nd_energy gamma P0 1 M0 1) with 0 in Ee by ring.
    split.
    + symmetry in Em. unfold Rdiv in Em. apply Rmult_integral in Em. destruct Em as [E | E]; [ exact E | ].
      exfalso. revert E. apply Rinv_neq_0_compat. exact Hr.
    + symmetry in Ee. apply Rmult_integral in Ee. destruct Ee as [E | E]; [ exact E | ].
      exfalso. unfold Rdiv in E. apply Rmult_integral in E. destruct E as [E | E]; [ exact (HM E) | ].
      revert E. apply Rinv_neq_0_compat. apply pow_nonzero. exact Hr.
Qed.

Lemma radshock_downstream_attributes_proof : forall M0 rho1 T1, rho1 <> 0 -> 0 < T1 ->
  nd_mass (rs_down_rho1 rho1) (rs_down_speed1 M0 rho1) = nd_mass 1 M0 /\
  rs_down_M1 M0 rho1 T1 * sqrt (rs_down_T1 T1) = rs_down_speed1 M0 rho1 /\
  rs_down_Er1 T1 = rs_down_T1 T1 ^ 4 /\ rs_down_Pr1 T1 = rs_down_Er1 T1 / 3.
Proof.
  intros M0 rho1 T1 Hr HT. unfold nd_mass, rs_down_rho1, rs_down_speed1, rs_down_M1, rs_down_T1, rs_down_Er1, rs_down_Pr1.
  assert (Hs : sqrt T1 <> 0) by (apply Rgt_not_eq, sqrt_lt_R0; exact HT).
  repeat split; field; try assumption. split; assumption.
Qed.

(* physical fluxes: rho_p = rho0 rho, v_p = c0 v, T_p = Tref T, p = (gamma - 1) rho_p Cv T_p, e = Cv T_p, radiation a_r T_p^4 *)
Lemma radshock_physical_fluxes_proof : forall Cv Tref gamma rho0 rho v T,
  0 < Cv -> 0 < Tref -> 1 < gamma -> 0 < rho0 ->
  let c0 := rs_sound Cv Tref gamma in
  let P0 := rs_P0 Cv Tref gamma rho0 in
  c0 ^ 2 = gamma * (gamma - 1) * Cv * Tref /\
  (rho0 * rho) * (c0 * v) = rho0 * c0 * nd_mass rho v /\
  (rho0 * rho) * (c0 * v) ^ 2 + (gamma - 1) * (rho0 * rho) * Cv * (Tref * T) + rs_const_ar * (Tref * T) ^ 4 / 3
    = rho0 * c0 ^ 2 * nd_momentum gamma P0 rho v T /\
  (c0 * v) * ((rho0 * rho) * ((c0 * v) ^ 2 / 2 + Cv * (Tref * T)) + (gamma - 1) * (rho0 * rho) * Cv * (Tref * T)
              + rs_const_ar * (Tref * T) ^ 4 + rs_const_ar * (Tref * T) ^ 4 / 3)
    = rho0 * c0 ^ 3 * nd_energy gamma P0 rho v T.
Proof.
  intros Cv Tref gamma rho0 rho v T HCv HT Hg Hr0 c0 P0.
  assert (HX : 0 < gamma * (gamma - 1) * Cv * Tref) by (repeat apply Rmult_lt_0_compat; lra).
  assert (Hc2 : c0 ^ 2 = gamma * (gamma - 1) * Cv * Tref).
  { unfold c0, rs_sound. simpl. rewrite Rmult_1_r. apply sqrt_sqrt. lra. }
  assert (HP : P0 = rs_const_ar * Tref ^ 4 / (rho0 * c0 ^ 2)).
  { unfold P0, rs_P0, rs_const_ar, c0, rs_sound. reflexivity. }
  split; [ exact Hc2 | ]. split; [ unfold nd_mass; ring | ].
  assert (Hc0 : c0 <> 0). { intro E. rewrite E in Hc2. lra. }
  set (ar := rs_const_ar) in *. clearbody ar. clearbody P0. clearbody c0.
  split.
  - unfold nd_momentum. rewrite HP. replace ((gamma - 1) * (rho0 * rho) * Cv * (Tref * T)) with (rho0 * (gamma * (gamma - 1) * Cv * Tref) * (rho * T / gamma)) by (field; lra).
    rewrite <- Hc2. field_simplify_eq; [ first [ ring | reflexivity | lra | nra ] | repeat split; first [ assumption | lra ] ].
  - unfold nd_energy. rewrite HP.
    replace (Cv * (Tref * T)) with ((gamma * (gamma - 1) * Cv * Tref) * (T / (gamma * (gamma - 1)))) by (field; lra).
    replace ((gamma - 1) * (rho0 * rho) * Cv * (Tref * T)) with (rho0 * (gamma * (gamma - 1) * Cv * Tref) * (rho * T / gamma)) by (field; lra).
    rewrite <- Hc2. field_simplify_eq; [ first [ ring | reflexivity | lra | nra ] | repeat split; first [ assumption | lra ] ].
Qed.
