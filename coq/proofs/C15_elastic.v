(* C15 (moduli): whichever two of the six elastic parameters are given, the six values set_elastic_params returns
   reproduce the two given values and are the parameters of one positive-definite isotropic material
   (spec.Elasticity.iso_material), whenever the case's acceptance condition holds (otherwise ValueError). *)
From Coq Require Import Reals Lra Psatz.
From EP Require Import lib.Base lib.Quot spec.Elasticity gen.Elastic.
Open Scope R_scope.

Ltac el_given :=
  unfold elastic_given_lame_mod, elastic_given_shear_mod, elastic_given_youngs_mod, elastic_given_poisson_ratio,
         elastic_given_bulk_mod, elastic_given_long_mod in *.
Ltac el_defined :=
  repeat split; intros;
  repeat match goal with H : _ /\ _ |- _ => destruct H end;
  try match goal with H : ~ (Rabs _ <= _) |- _ => apply not_isclose_neq in H; [ | lra ] end;
  try lra; try nra;
  try (match goal with |- context [sqrt ?x] => pose proof (sqrt_pos x) end; nra).
Ltac el_finish := autounfold with epgen; unfold iso_material; repeat split; try lra; try (field; lra); try (field; repeat split; nra).

(* prmcase 0: lame_mod, shear_mod given *)
Lemma elastic_case_0_proof : forall g0 g1, elastic_0_pre g0 g1 -> elastic_0_ok g0 g1 ->
  iso_material (elastic_0_plda g0 g1) (elastic_0_pg g0 g1) (elastic_0_pe g0 g1) (elastic_0_pnu g0 g1) (elastic_0_pk g0 g1) (elastic_0_pm g0 g1) /\
  elastic_0_plda g0 g1 = g0 /\ elastic_0_pg g0 g1 = g1.
Proof.
  intros g0 g1 Hpre Hok. unfold elastic_0_pre, elastic_0_ok in *. el_given.
  el_finish.
Qed.

(* every division and square root prmcase 0 evaluates is defined for every accepted pair of given values:
   no ZeroDivisionError and no complex intermediate, so the only failure mode is the ValueError of elastic_0_ok *)
Lemma elastic_case_0_total_proof : forall g0 g1, elastic_0_pre g0 g1 -> elastic_0_defined g0 g1.
Proof. intros g0 g1 Hpre. unfold elastic_0_pre, elastic_0_defined in *. el_given. el_defined. Qed.

(* prmcase 1: lame_mod, youngs_mod given *)
Lemma elastic_case_1_proof : forall g0 g1, elastic_1_pre g0 g1 -> elastic_1_ok g0 g1 ->
  iso_material (elastic_1_plda g0 g1) (elastic_1_pg g0 g1) (elastic_1_pe g0 g1) (elastic_1_pnu g0 g1) (elastic_1_pk g0 g1) (elastic_1_pm g0 g1) /\
  elastic_1_plda g0 g1 = g0 /\ elastic_1_pe g0 g1 = g1.
Proof.
  intros g0 g1 Hpre Hok. unfold elastic_1_pre, elastic_1_ok in *. el_given.
  destruct Hpre as [Hl HE]. destruct Hok as [HG HK].
  assert (HX : 0 <= g1 ^ 2 + 9 * g0 ^ 2 + 2 * g1 * g0) by nra.
  destruct (sqrt_sq_eq _ HX) as [HRR HR0].
  autounfold with epgen; unfold iso_material.
  set (S := sqrt (g1 ^ 2 + 9 * g0 ^ 2 + 2 * g1 * g0)) in *.
  repeat split; try lra.
  - field_simplify_eq; [ | nra ]. nra.
  - field; nra.
Qed.

(* every division and square root prmcase 1 evaluates is defined for every accepted pair of given values:
   no ZeroDivisionError and no complex intermediate, so the only failure mode is the ValueError of elastic_1_ok *)
Lemma elastic_case_1_total_proof : forall g0 g1, elastic_1_pre g0 g1 -> elastic_1_defined g0 g1.
Proof. intros g0 g1 Hpre. unfold elastic_1_pre, elastic_1_defined in *. el_given. el_defined. Qed.

(* prmcase 2: lame_mod, poisson_ratio given *)
Lemma elastic_case_2_proof : forall g0 g1, elastic_2_pre g0 g1 -> elastic_2_ok g0 g1 ->
  iso_material (elastic_2_plda g0 g1) (elastic_2_pg g0 g1) (elastic_2_pe g0 g1) (elastic_2_pnu g0 g1) (elastic_2_pk g0 g1) (elastic_2_pm g0 g1) /\
  elastic_2_plda g0 g1 = g0 /\ elastic_2_pnu g0 g1 = g1.
Proof.
  intros g0 g1 Hpre Hok. unfold elastic_2_pre, elastic_2_ok in *. el_given.
  destruct Hpre as [Hl [Hn1 Hn2]]. destruct Hok as [_ [HG HK]].
  assert (Hnu : 0 < g1).
  { assert (H : 0 < 2 * g1) by (apply (div_pos_den (g0 * (1 - 2 * g1))); [ nra | lra ]). lra. }
  el_finish.
Qed.

(* every division and square root prmcase 2 evaluates is defined for every accepted pair of given values:
   no ZeroDivisionError and no complex intermediate, so the only failure mode is the ValueError of elastic_2_ok *)
Lemma elastic_case_2_total_proof : forall g0 g1, elastic_2_pre g0 g1 -> elastic_2_defined g0 g1.
Proof. intros g0 g1 Hpre. unfold elastic_2_pre, elastic_2_defined in *. el_given. el_defined. Qed.

(* prmcase 3: lame_mod, bulk_mod given *)
Lemma elastic_case_3_proof : forall g0 g1, elastic_3_pre g0 g1 -> elastic_3_ok g0 g1 ->
  iso_material (elastic_3_plda g0 g1) (elastic_3_pg g0 g1) (elastic_3_pe g0 g1) (elastic_3_pnu g0 g1) (elastic_3_pk g0 g1) (elastic_3_pm g0 g1) /\
  elastic_3_plda g0 g1 = g0 /\ elastic_3_pk g0 g1 = g1.
Proof.
  intros g0 g1 Hpre Hok. unfold elastic_3_pre, elastic_3_ok in *. el_given.
  el_finish.
Qed.

(* every division and square root prmcase 3 evaluates is defined for every accepted pair of given values:
   no ZeroDivisionError and no complex intermediate, so the only failure mode is the ValueError of elastic_3_ok *)
Lemma elastic_case_3_total_proof : forall g0 g1, elastic_3_pre g0 g1 -> elastic_3_defined g0 g1.
Proof. intros g0 g1 Hpre. unfold elastic_3_pre, elastic_3_defined in *. el_given. el_defined. Qed.

(* prmcase 4: lame_mod, long_mod given *)
Lemma elastic_case_4_proof : forall g0 g1, elastic_4_pre g0 g1 -> elastic_4_ok g0 g1 ->
  iso_material (elastic_4_plda g0 g1) (elastic_4_pg g0 g1) (elastic_4_pe g0 g1) (elastic_4_pnu g0 g1) (elastic_4_pk g0 g1) (elastic_4_pm g0 g1) /\
  elastic_4_plda g0 g1 = g0 /\ elastic_4_pm g0 g1 = g1.
Proof.
  intros g0 g1 Hpre Hok. unfold elastic_4_pre, elastic_4_ok in *. el_given.
  el_finish.
Qed.

(* every division and square root prmcase 4 evaluates is defined for every accepted pair of given values:
   no ZeroDivisionError and no complex intermediate, so the only failure mode is the ValueError of elastic_4_ok *)
Lemma elastic_case_4_total_proof : forall g0 g1, elastic_4_pre g0 g1 -> elastic_4_defined g0 g1.
Proof. intros g0 g1 Hpre. unfold elastic_4_pre, elastic_4_defined in *. el_given. el_defined. Qed.

(* prmcase 5: shear_mod, youngs_mod given *)
Lemma elastic_case_5_proof : forall g0 g1, elastic_5_pre g0 g1 -> elastic_5_ok g0 g1 ->
  iso_material (elastic_5_plda g0 g1) (elastic_5_pg g0 g1) (elastic_5_pe g0 g1) (elastic_5_pnu g0 g1) (elastic_5_pk g0 g1) (elastic_5_pm g0 g1) /\
  elastic_5_pg g0 g1 = g0 /\ elastic_5_pe g0 g1 = g1.
Proof.
  intros g0 g1 Hpre Hok. unfold elastic_5_pre, elastic_5_ok in *. el_given.
  destruct Hpre as [Hg HE]. destruct Hok as [_ [_ [Hn1 Hn2]]].
  assert (Hd : 0 < 3 * g0 - g1) by (pose proof (div_lt_den g1 (2 * g0) (3 / 2) ltac:(lra) ltac:(lra)); lra).
  el_finish.
  replace (3 * (g0 * (g1 - 2 * g0) / (3 * g0 - g1)) + 2 * g0) with (g0 * g1 / (3 * g0 - g1)) by (field; lra).
  apply Rdiv_lt_0_compat; nra.
Qed.

(* every division and square root prmcase 5 evaluates is defined for every accepted pair of given values:
   no ZeroDivisionError and no complex intermediate, so the only failure mode is the ValueError of elastic_5_ok *)
Lemma elastic_case_5_total_proof : forall g0 g1, elastic_5_pre g0 g1 -> elastic_5_defined g0 g1.
Proof. intros g0 g1 Hpre. unfold elastic_5_pre, elastic_5_defined in *. el_given. el_defined. Qed.

(* prmcase 6: shear_mod, poisson_ratio given *)
Lemma elastic_case_6_proof : forall g0 g1, elastic_6_pre g0 g1 -> elastic_6_ok g0 g1 ->
  iso_material (elastic_6_plda g0 g1) (elastic_6_pg g0 g1) (elastic_6_pe g0 g1) (elastic_6_pnu g0 g1) (elastic_6_pk g0 g1) (elastic_6_pm g0 g1) /\
  elastic_6_pg g0 g1 = g0 /\ elastic_6_pnu g0 g1 = g1.
Proof.
  intros g0 g1 Hpre Hok. unfold elastic_6_pre, elastic_6_ok in *. el_given.
  destruct Hpre as [Hg [Hn1 Hn2]].
  el_finish.
  replace (3 * (2 * g0 * g1 / (1 - 2 * g1)) + 2 * g0) with (2 * g0 * (1 + g1) / (1 - 2 * g1)) by (field; lra).
  apply Rdiv_lt_0_compat; nra.
Qed.

(* every division and square root prmcase 6 evaluates is defined for every accepted pair of given values:
   no ZeroDivisionError and no complex intermediate, so the only failure mode is the ValueError of elastic_6_ok *)
Lemma elastic_case_6_total_proof : forall g0 g1, elastic_6_pre g0 g1 -> elastic_6_defined g0 g1.
Proof. intros g0 g1 Hpre. unfold elastic_6_pre, elastic_6_defined in *. el_given. el_defined. Qed.

(* prmcase 7: shear_mod, bulk_mod given *)
Lemma elastic_case_7_proof : forall g0 g1, elastic_7_pre g0 g1 -> elastic_7_ok g0 g1 ->
  iso_material (elastic_7_plda g0 g1) (elastic_7_pg g0 g1) (elastic_7_pe g0 g1) (elastic_7_pnu g0 g1) (elastic_7_pk g0 g1) (elastic_7_pm g0 g1) /\
  elastic_7_pg g0 g1 = g0 /\ elastic_7_pk g0 g1 = g1.
Proof.
  intros g0 g1 Hpre Hok. unfold elastic_7_pre, elastic_7_ok in *. el_given.
  el_finish.
Qed.

(* every division and square root prmcase 7 evaluates is defined for every accepted pair of given values:
   no ZeroDivisionError and no complex intermediate, so the only failure mode is the ValueError of elastic_7_ok *)
Lemma elastic_case_7_total_proof : forall g0 g1, elastic_7_pre g0 g1 -> elastic_7_defined g0 g1.
Proof. intros g0 g1 Hpre. unfold elastic_7_pre, elastic_7_defined in *. el_given. el_defined. Qed.

(* prmcase 8: shear_mod, long_mod given *)
Lemma elastic_case_8_proof : forall g0 g1, elastic_8_pre g0 g1 -> elastic_8_ok g0 g1 ->
  iso_material (elastic_8_plda g0 g1) (elastic_8_pg g0 g1) (elastic_8_pe g0 g1) (elastic_8_pnu g0 g1) (elastic_8_pk g0 g1) (elastic_8_pm g0 g1) /\
  elastic_8_pg g0 g1 = g0 /\ elastic_8_pm g0 g1 = g1.
Proof.
  intros g0 g1 Hpre Hok. unfold elastic_8_pre, elastic_8_ok in *. el_given.
  destruct Hpre as [Hg HM]. destruct Hok as [Hc [_ [Hn1 Hn2]]].
  apply not_isclose_neq in Hc; [ | lra ].
  assert (Hd : 0 < 2 * g1 - 2 * g0).
  { destruct (Rtotal_order (2 * g1 - 2 * g0) 0) as [H | [H | H]]; [ | lra | exact H ].
    pose proof (div_lt_neg_den _ _ _ H Hn2). lra. }
  pose proof (div_gt_den _ _ _ Hd Hn1).
  el_finish.
Qed.

(* every division and square root prmcase 8 evaluates is defined for every accepted pair of given values:
   no ZeroDivisionError and no complex intermediate, so the only failure mode is the ValueError of elastic_8_ok *)
Lemma elastic_case_8_total_proof : forall g0 g1, elastic_8_pre g0 g1 -> elastic_8_defined g0 g1.
Proof. intros g0 g1 Hpre. unfold elastic_8_pre, elastic_8_defined in *. el_given. el_defined. Qed.

(* prmcase 9: youngs_mod, poisson_ratio given *)
Lemma elastic_case_9_proof : forall g0 g1, elastic_9_pre g0 g1 -> elastic_9_ok g0 g1 ->
  iso_material (elastic_9_plda g0 g1) (elastic_9_pg g0 g1) (elastic_9_pe g0 g1) (elastic_9_pnu g0 g1) (elastic_9_pk g0 g1) (elastic_9_pm g0 g1) /\
  elastic_9_pe g0 g1 = g0 /\ elastic_9_pnu g0 g1 = g1.
Proof.
  intros g0 g1 Hpre Hok. unfold elastic_9_pre, elastic_9_ok in *. el_given.
  destruct Hpre as [Hg [Hn1 Hn2]].
  assert (Hp : 0 < (1 + g1) * (1 - 2 * g1)) by nra.
  el_finish.
  - apply Rmult_lt_0_compat; [ lra | apply Rinv_0_lt_compat; lra ].
  - replace (3 * (g0 * g1 / ((1 + g1) * (1 - 2 * g1))) + 2 * (1 / 2 * g0 / (1 + g1))) with (g0 / (1 - 2 * g1)) by (field; lra).
    apply Rdiv_lt_0_compat; lra.
Qed.

(* every division and square root prmcase 9 evaluates is defined for every accepted pair of given values:
   no ZeroDivisionError and no complex intermediate, so the only failure mode is the ValueError of elastic_9_ok *)
Lemma elastic_case_9_total_proof : forall g0 g1, elastic_9_pre g0 g1 -> elastic_9_defined g0 g1.
Proof. intros g0 g1 Hpre. unfold elastic_9_pre, elastic_9_defined in *. el_given. el_defined. Qed.

(* prmcase 10: youngs_mod, bulk_mod given *)
Lemma elastic_case_10_proof : forall g0 g1, elastic_10_pre g0 g1 -> elastic_10_ok g0 g1 ->
  iso_material (elastic_10_plda g0 g1) (elastic_10_pg g0 g1) (elastic_10_pe g0 g1) (elastic_10_pnu g0 g1) (elastic_10_pk g0 g1) (elastic_10_pm g0 g1) /\
  elastic_10_pe g0 g1 = g0 /\ elastic_10_pk g0 g1 = g1.
Proof.
  intros g0 g1 Hpre Hok. unfold elastic_10_pre, elastic_10_ok in *. el_given.
  destruct Hpre as [HE HK]. destruct Hok as [_ [_ [Hn1 Hn2]]].
  assert (H6 : 0 < 6 * g1) by lra.
  assert (Hd : 0 < 9 * g1 - g0) by (pose proof (div_gt_den _ _ _ H6 Hn1); lra).
  el_finish.
  - apply Rdiv_lt_0_compat; nra.
  - replace (3 * (3 * g1 * (3 * g1 - g0) / (9 * g1 - g0)) + 2 * (3 * g1 * g0 / (9 * g1 - g0))) with (3 * g1) by (field; lra). lra.
Qed.

(* every division and square root prmcase 10 evaluates is defined for every accepted pair of given values:
   no ZeroDivisionError and no complex intermediate, so the only failure mode is the ValueError of elastic_10_ok *)
Lemma elastic_case_10_total_proof : forall g0 g1, elastic_10_pre g0 g1 -> elastic_10_defined g0 g1.
Proof. intros g0 g1 Hpre. unfold elastic_10_pre, elastic_10_defined in *. el_given. el_defined. Qed.

(* prmcase 11: youngs_mod, long_mod given *)
Lemma elastic_case_11_proof : forall g0 g1, elastic_11_pre g0 g1 -> elastic_11_ok g0 g1 ->
  iso_material (elastic_11_plda g0 g1) (elastic_11_pg g0 g1) (elastic_11_pe g0 g1) (elastic_11_pnu g0 g1) (elastic_11_pk g0 g1) (elastic_11_pm g0 g1) /\
  elastic_11_pe g0 g1 = g0 /\ elastic_11_pm g0 g1 = g1.
Proof.
  intros g0 g1 Hpre Hok. unfold elastic_11_pre, elastic_11_ok in *. el_given.
  destruct Hpre as [HE HM]. destruct Hok as [HX [_ [Hn1 Hn2]]].
  apply Rnot_lt_le in HX.
  destruct (sqrt_sq_eq _ HX) as [HRR HR0].
  autounfold with epgen; unfold iso_material.
  set (S := sqrt (g0 ^ 2 + 9 * g1 ^ 2 - 10 * g0 * g1)) in *.
  assert (HM' : 0 < g1) by lra.
  pose proof (div_lt_den _ _ _ HM' Hn2) as Hu.
  assert (HS : S < 3 * g1 + g0) by nra.
  repeat split; try lra.
  - field_simplify_eq; [ | nra ]. nra.
  - field_simplify_eq; [ | split; nra ]. nra.
Qed.

(* every division and square root prmcase 11 evaluates is defined for every accepted pair of given values:
   no ZeroDivisionError and no complex intermediate, so the only failure mode is the ValueError of elastic_11_ok *)
Lemma elastic_case_11_total_proof : forall g0 g1, elastic_11_pre g0 g1 -> elastic_11_defined g0 g1.
Proof. intros g0 g1 Hpre. unfold elastic_11_pre, elastic_11_defined in *. el_given. el_defined. Qed.

(* prmcase 12: poisson_ratio, bulk_mod given *)
Lemma elastic_case_12_proof : forall g0 g1, elastic_12_pre g0 g1 -> elastic_12_ok g0 g1 ->
  iso_material (elastic_12_plda g0 g1) (elastic_12_pg g0 g1) (elastic_12_pe g0 g1) (elastic_12_pnu g0 g1) (elastic_12_pk g0 g1) (elastic_12_pm g0 g1) /\
  elastic_12_pnu g0 g1 = g0 /\ elastic_12_pk g0 g1 = g1.
Proof.
  intros g0 g1 Hpre Hok. unfold elastic_12_pre, elastic_12_ok in *. el_given.
  destruct Hpre as [[Hn1 Hn2] HK]. destruct Hok as [HG _].
  el_finish.
  replace (3 * (3 * g1 * g0 / (1 + g0)) + 2 * (3 * g1 * (1 - 2 * g0) / (2 * (1 + g0)))) with (3 * g1) by (field; lra). lra.
Qed.

(* every division and square root prmcase 12 evaluates is defined for every accepted pair of given values:
   no ZeroDivisionError and no complex intermediate, so the only failure mode is the ValueError of elastic_12_ok *)
Lemma elastic_case_12_total_proof : forall g0 g1, elastic_12_pre g0 g1 -> elastic_12_defined g0 g1.
Proof. intros g0 g1 Hpre. unfold elastic_12_pre, elastic_12_defined in *. el_given. el_defined. Qed.

(* prmcase 13: poisson_ratio, long_mod given *)
Lemma elastic_case_13_proof : forall g0 g1, elastic_13_pre g0 g1 -> elastic_13_ok g0 g1 ->
  iso_material (elastic_13_plda g0 g1) (elastic_13_pg g0 g1) (elastic_13_pe g0 g1) (elastic_13_pnu g0 g1) (elastic_13_pk g0 g1) (elastic_13_pm g0 g1) /\
  elastic_13_pnu g0 g1 = g0 /\ elastic_13_pm g0 g1 = g1.
Proof.
  intros g0 g1 Hpre Hok. unfold elastic_13_pre, elastic_13_ok in *. el_given.
  destruct Hpre as [[Hn1 Hn2] HM]. destruct Hok as [HG _].
  el_finish.
  replace (3 * (g1 * g0 / (1 - g0)) + 2 * (1 / 2 * g1 * (1 - 2 * g0) / (1 - g0))) with (g1 * (1 + g0) / (1 - g0)) by (field; lra).
  apply Rdiv_lt_0_compat; nra.
Qed.

(* every division and square root prmcase 13 evaluates is defined for every accepted pair of given values:
   no ZeroDivisionError and no complex intermediate, so the only failure mode is the ValueError of elastic_13_ok *)
Lemma elastic_case_13_total_proof : forall g0 g1, elastic_13_pre g0 g1 -> elastic_13_defined g0 g1.
Proof. intros g0 g1 Hpre. unfold elastic_13_pre, elastic_13_defined in *. el_given. el_defined. Qed.

(* prmcase 14: bulk_mod, long_mod given *)
Lemma elastic_case_14_proof : forall g0 g1, elastic_14_pre g0 g1 -> elastic_14_ok g0 g1 ->
  iso_material (elastic_14_plda g0 g1) (elastic_14_pg g0 g1) (elastic_14_pe g0 g1) (elastic_14_pnu g0 g1) (elastic_14_pk g0 g1) (elastic_14_pm g0 g1) /\
  elastic_14_pk g0 g1 = g0 /\ elastic_14_pm g0 g1 = g1.
Proof.
  intros g0 g1 Hpre Hok. unfold elastic_14_pre, elastic_14_ok in *. el_given.
  el_finish.
Qed.

(* every division and square root prmcase 14 evaluates is defined for every accepted pair of given values:
   no ZeroDivisionError and no complex intermediate, so the only failure mode is the ValueError of elastic_14_ok *)
Lemma elastic_case_14_total_proof : forall g0 g1, elastic_14_pre g0 g1 -> elastic_14_defined g0 g1.
Proof. intros g0 g1 Hpre. unfold elastic_14_pre, elastic_14_defined in *. el_given. el_defined. Qed.
