(* C16 - residual functions of the black-box Noh solver (generated: gen/Residuals.v): every entry of each coded Jacobian F_prime
   is the partial derivative of the matching component of the coded residual F, for an ARBITRARY equation of state given by a
   closure and its two partial derivatives; the hand-coded 2x2 determinant is the determinant of F_prime and the hand-coded inverse
   (adjugate / det) times F_prime is the identity.  One entry is wrong in the code: pressure_noh_residual.F_prime[2,0] has the
   opposite sign when P_0 <> 0 (known finding; refuted here). *)
From Coq Require Import Reals Lra Psatz.
From Coquelicot Require Import Coquelicot.
From EP Require Import lib.Base lib.Tactics gen.Residuals.
Open Scope R_scope.

Section AnyEos.
(* an equation of state: closure f(rho, y) (y = P for the energy form, y = e for the pressure form) with its partial derivatives *)
Variables f f_rho f_y : R -> R -> R.
Hypothesis Hf_rho : forall rho y, is_derive (fun r => f r y) rho (f_rho rho y).
Hypothesis Hf_y : forall rho y, is_derive (fun z => f rho z) y (f_y rho y).
Variables u_0 rho_0 P_0 symmetry e_0 : R.

(* ---------------- energy_noh_residual: unknowns (rho, P, D), closure e(rho, P) ---------------- *)
Definition en3_F0 (rho P D : R) := res_en3_F0 rho D u_0 rho_0 symmetry.
Definition en3_F1 (rho P D : R) := res_en3_F1 rho P D u_0 P_0.
Definition en3_F2 (rho P D : R) := res_en3_F2 rho D u_0 P_0 e_0 (f rho P).

Theorem en3_jacobian : forall rho P D, rho <> 0 -> D <> 0 -> 0 < 1 - u_0 / D ->
  is_derive (fun x => en3_F0 x P D) rho res_en3_DF00 /\ is_derive (fun x => en3_F0 rho x D) P res_en3_DF01 /\
  is_derive (fun x => en3_F0 rho P x) D (res_en3_DF02 D u_0 rho_0 symmetry) /\
  is_derive (fun x => en3_F1 x P D) rho (res_en3_DF10 D u_0) /\ is_derive (fun x => en3_F1 rho x D) P res_en3_DF11 /\
  is_derive (fun x => en3_F1 rho P x) D (res_en3_DF12 rho u_0) /\
  is_derive (fun x => en3_F2 x P D) rho (res_en3_DF20 rho D u_0 P_0 (f_rho rho P)) /\
  is_derive (fun x => en3_F2 rho x D) P (res_en3_DF21 (f_y rho P)) /\
  is_derive (fun x => en3_F2 rho P x) D (res_en3_DF22 rho D u_0 P_0).
Proof.
  intros rho P D Hr HD Hpos.
  unfold en3_F0, en3_F1, en3_F2, res_en3_F0, res_en3_F1, res_en3_F2, res_en3_DF00, res_en3_DF01, res_en3_DF02, res_en3_DF10,
    res_en3_DF11, res_en3_DF12, res_en3_DF20, res_en3_DF21, res_en3_DF22.
  split; [ auto_derive; [ exact I | ring ] | ].
  split; [ auto_derive; [ exact I | ring ] | ].
  split.
  { unfold Rpower. auto_derive; [ repeat split; first [ exact HD | exact Hpos | exact I ] | ].
    change (1 + - (u_0 * / D)) with (1 - u_0 / D).
    replace ((symmetry + 1) * ln (1 - u_0 / D)) with (symmetry * ln (1 - u_0 / D) + ln (1 - u_0 / D)) by ring.
    rewrite exp_plus, exp_ln by exact Hpos.
    set (E := exp (symmetry * ln (1 - u_0 / D))). clearbody E. field. split; [ exact HD | ].
    intro Ez. assert (1 - u_0 / D = (D - u_0) / D) by (field; exact HD). rewrite H, Ez in Hpos. unfold Rdiv in Hpos. rewrite Rmult_0_l in Hpos. lra. }
  split; [ auto_derive; [ exact I | ring ] | ].
  split; [ auto_derive; [ exact I | ring ] | ].
  split; [ auto_derive; [ exact I | ring ] | ].
  split.
  { assert (Ed : Derive (fun x : R => f x P) rho = f_rho rho P) by (apply is_derive_unique; apply Hf_rho).
    auto_derive; [ repeat split; first [ exact Hr | exact I | (eexists; apply Hf_rho) ] | ].
    rewrite Ed. field. split; assumption. }
  split.
  { assert (Ed : Derive (fun x : R => f rho x) P = f_y rho P) by (apply is_derive_unique; apply Hf_y).
    auto_derive; [ repeat split; first [ exact I | (eexists; apply Hf_y) ] | ].
    rewrite Ed. ring. }
  auto_derive; [ exact HD | field; split; assumption ].
Qed.

(* ---------------- simplified_energy_noh_residual: unknowns (rho, P), closure e(rho, P) ---------------- *)
Definition en2_F0 (rho P : R) := res_en2_F0 rho P u_0 rho_0.
Definition en2_F1 (rho P : R) := res_en2_F1 u_0 e_0 (f rho P).

Theorem en2_jacobian : forall rho P, rho <> 0 ->
  is_derive (fun x => en2_F0 x P) rho (res_en2_DF00 rho P rho_0) /\ is_derive (fun x => en2_F0 rho x) P (res_en2_DF01 rho rho_0) /\
  is_derive (fun x => en2_F1 x P) rho (res_en2_DF10 (f_rho rho P)) /\ is_derive (fun x => en2_F1 rho x) P (res_en2_DF11 (f_y rho P)).
Proof.
  intros rho P Hr.
  unfold en2_F0, en2_F1, res_en2_F0, res_en2_F1, res_en2_DF00, res_en2_DF01, res_en2_DF10, res_en2_DF11.
  split; [ auto_derive; [ exact Hr | field; exact Hr ] | ].
  split; [ auto_derive; [ exact I | field; exact Hr ] | ].
  split.
  { assert (Ed : Derive (fun x : R => f x P) rho = f_rho rho P) by (apply is_derive_unique; apply Hf_rho).
    auto_derive; [ repeat split; first [ exact I | (eexists; apply Hf_rho) ] | ]. rewrite Ed. ring. }
  { assert (Ed : Derive (fun x : R => f rho x) P = f_y rho P) by (apply is_derive_unique; apply Hf_y).
    auto_derive; [ repeat split; first [ exact I | (eexists; apply Hf_y) ] | ]. rewrite Ed. ring. }
Qed.

(* hand-coded determinant and inverse (adjugate scaled by 1/det) *)
Theorem en2_inverse : forall rho P a b, 
  let d00 := res_en2_DF00 rho P rho_0 in let d01 := res_en2_DF01 rho rho_0 in let d10 := res_en2_DF10 a in let d11 := res_en2_DF11 b in
  let det := res_en2_det rho P rho_0 b a in
  det = d00 * d11 - d01 * d10 /\
  (det <> 0 ->
   let i00 := 1 / det * res_en2_ADJ00 b in let i01 := 1 / det * res_en2_ADJ01 rho rho_0 in
   let i10 := 1 / det * res_en2_ADJ10 a in let i11 := 1 / det * res_en2_ADJ11 rho P rho_0 in
   i00 * d00 + i01 * d10 = 1 /\ i00 * d01 + i01 * d11 = 0 /\ i10 * d00 + i11 * d10 = 0 /\ i10 * d01 + i11 * d11 = 1).
Proof.
  intros rho P a b. cbv zeta.
  unfold res_en2_det, res_en2_DF00, res_en2_DF01, res_en2_DF10, res_en2_DF11, res_en2_ADJ00, res_en2_ADJ01, res_en2_ADJ10, res_en2_ADJ11.
  split; [ ring | ].
  intros Hdet. set (A := P / rho ^ 2) in *. set (B := 1 / rho) in *. clearbody A B.
  repeat split; field; exact Hdet.
Qed.

(* ---------------- pressure_noh_residual: unknowns (rho, e, D), closure P(rho, e) ---------------- *)
Definition pr3_F0 (rho e D : R) := res_pr3_F0 rho D u_0 rho_0 symmetry.
Definition pr3_F1 (rho e D : R) := res_pr3_F1 rho D u_0 P_0 (f rho e).
Definition pr3_F2 (rho e D : R) := res_pr3_F2 rho e D u_0 P_0 e_0.

(* all entries except F_prime[2,0] *)
Theorem pr3_jacobian_partial : forall rho e D, rho <> 0 -> D <> 0 -> 0 < 1 - u_0 / D ->
  is_derive (fun x => pr3_F0 x e D) rho res_pr3_DF00 /\ is_derive (fun x => pr3_F0 rho x D) e res_pr3_DF01 /\
  is_derive (fun x => pr3_F0 rho e x) D (res_pr3_DF02 D u_0 rho_0 symmetry) /\
  is_derive (fun x => pr3_F1 x e D) rho (res_pr3_DF10 D u_0 (f_rho rho e)) /\ is_derive (fun x => pr3_F1 rho x D) e (res_pr3_DF11 (f_y rho e)) /\
  is_derive (fun x => pr3_F1 rho e x) D (res_pr3_DF12 rho u_0) /\
  is_derive (fun x => pr3_F2 rho x D) e res_pr3_DF21 /\
  is_derive (fun x => pr3_F2 rho e x) D (res_pr3_DF22 rho D u_0 P_0) /\
  (* the coded [2,0] entry is right exactly when P_0 = 0; in general the derivative is its negative *)
  is_derive (fun x => pr3_F2 x e D) rho (- res_pr3_DF20 rho D u_0 P_0).
Proof.
  intros rho e D Hr HD Hpos.
  unfold pr3_F0, pr3_F1, pr3_F2, res_pr3_F0, res_pr3_F1, res_pr3_F2, res_pr3_DF00, res_pr3_DF01, res_pr3_DF02, res_pr3_DF10,
    res_pr3_DF11, res_pr3_DF12, res_pr3_DF20, res_pr3_DF21, res_pr3_DF22.
  split; [ auto_derive; [ exact I | ring ] | ].
  split; [ auto_derive; [ exact I | ring ] | ].
  split.
  { unfold Rpower. auto_derive; [ repeat split; first [ exact HD | exact Hpos | exact I ] | ].
    change (1 + - (u_0 * / D)) with (1 - u_0 / D).
    replace ((symmetry + 1) * ln (1 - u_0 / D)) with (symmetry * ln (1 - u_0 / D) + ln (1 - u_0 / D)) by ring.
    rewrite exp_plus, exp_ln by exact Hpos.
    set (E := exp (symmetry * ln (1 - u_0 / D))). clearbody E. field. split; [ exact HD | ].
    intro Ez. assert (1 - u_0 / D = (D - u_0) / D) by (field; exact HD). rewrite H, Ez in Hpos. unfold Rdiv in Hpos. rewrite Rmult_0_l in Hpos. lra. }
  split.
  { assert (Ed : Derive (fun x : R => f x e) rho = f_rho rho e) by (apply is_derive_unique; apply Hf_rho).
    auto_derive; [ repeat split; first [ exact I | (eexists; apply Hf_rho) ] | ]. rewrite Ed. ring. }
  split.
  { assert (Ed : Derive (fun x : R => f rho x) e = f_y rho e) by (apply is_derive_unique; apply Hf_y).
    auto_derive; [ repeat split; first [ exact I | (eexists; apply Hf_y) ] | ]. rewrite Ed. ring. }
  split; [ auto_derive; [ exact I | ring ] | ].
  split; [ auto_derive; [ exact I | ring ] | ].
  split; [ auto_derive; [ exact HD | field; split; assumption ] | ].
  auto_derive; [ exact Hr | field; split; assumption ].
Qed.

(* ---------------- simplified_pressure_noh_residual: unknowns (rho, e), closure P(rho, e) ---------------- *)
Definition pr2_F0 (rho e : R) := res_pr2_F0 rho u_0 rho_0 (f rho e).
Definition pr2_F1 (rho e : R) := res_pr2_F1 e u_0 e_0.

Theorem pr2_jacobian : forall rho e, rho <> 0 ->
  is_derive (fun x => pr2_F0 x e) rho (res_pr2_DF00 rho rho_0 (f rho e) (f_rho rho e)) /\
  is_derive (fun x => pr2_F0 rho x) e (res_pr2_DF01 rho rho_0 (f_y rho e)) /\
  is_derive (fun x => pr2_F1 x e) rho res_pr2_DF10 /\ is_derive (fun x => pr2_F1 rho x) e res_pr2_DF11.
Proof.
  intros rho e Hr.
  unfold pr2_F0, pr2_F1, res_pr2_F0, res_pr2_F1, res_pr2_DF00, res_pr2_DF01, res_pr2_DF10, res_pr2_DF11.
  split.
  { assert (Ed : Derive (fun x : R => f x e) rho = f_rho rho e) by (apply is_derive_unique; apply Hf_rho).
    auto_derive; [ repeat split; first [ exact Hr | exact I | (eexists; apply Hf_rho) ] | ]. rewrite Ed. field. exact Hr. }
  split.
  { assert (Ed : Derive (fun x : R => f rho x) e = f_y rho e) by (apply is_derive_unique; apply Hf_y).
    auto_derive; [ repeat split; first [ exact I | (eexists; apply Hf_y) ] | ]. rewrite Ed. field. exact Hr. }
  split; [ auto_derive; [ exact I | ring ] | auto_derive; [ exact I | ring ] ].
Qed.

Theorem pr2_inverse : forall rho pv a b,
  let d00 := res_pr2_DF00 rho rho_0 pv a in let d01 := res_pr2_DF01 rho rho_0 b in let d10 := res_pr2_DF10 in let d11 := res_pr2_DF11 in
  let det := res_pr2_det rho rho_0 pv a in
  det = d00 * d11 - d01 * d10 /\
  (det <> 0 ->
   let i00 := 1 / det * res_pr2_ADJ00 in let i01 := 1 / det * res_pr2_ADJ01 rho rho_0 b in
   let i10 := 1 / det * res_pr2_ADJ10 in let i11 := 1 / det * res_pr2_ADJ11 rho rho_0 pv a in
   i00 * d00 + i01 * d10 = 1 /\ i00 * d01 + i01 * d11 = 0 /\ i10 * d00 + i11 * d10 = 0 /\ i10 * d01 + i11 * d11 = 1).
Proof.
  intros rho pv a b. cbv zeta.
  unfold res_pr2_det, res_pr2_DF00, res_pr2_DF01, res_pr2_DF10, res_pr2_DF11, res_pr2_ADJ00, res_pr2_ADJ01, res_pr2_ADJ10, res_pr2_ADJ11.
  split; [ ring | ].
  intros Hdet. set (A := a - rho_0 * ((a * rho - pv) / rho ^ 2)) in *. set (B := b - rho_0 * (b / rho)) in *. clearbody A B.
  repeat split; field; exact Hdet.
Qed.
End AnyEos.

(* the coded entry pressure_noh_residual.F_prime[2,0] is NOT the derivative when P_0 <> 0: witness *)
Lemma pr3_DF20_refuted_proof :
  exists rho e D u_0 P_0 e_0 : R, rho <> 0 /\ D <> 0 /\
    ~ is_derive (fun x => res_pr3_F2 x e D u_0 P_0 e_0) rho (res_pr3_DF20 rho D u_0 P_0).
Proof.
  exists 2, 1, 3, (-1), (1/2), 0. split; [ lra | split; [ lra | ] ].
  intros H.
  assert (G : is_derive (fun x => res_pr3_F2 x 1 3 (-1) (1/2) 0) 2 (- res_pr3_DF20 2 3 (-1) (1/2))).
  { unfold res_pr3_F2, res_pr3_DF20. auto_derive; [ lra | field ]. }
  pose proof (is_derive_unique _ _ _ H) as U1. pose proof (is_derive_unique _ _ _ G) as U2.
  rewrite U1 in U2. unfold res_pr3_DF20 in U2. lra.
Qed.
