(* C14 for Rectangle (heat/rectangle.py), on the regenerated terms (gen/Rectangle.v), for EVERY Nsum:
   T_t = kappa (T_xx + T_yy) at every point and time; T = 0 on the bottom y = 0 and on both sides x = 0, x = a.
   (The module documentation declares zero heat FLUX on the sides: recorded finding rectangle-sides-not-insulated.) *)
From Coq Require Import Reals Lra Lia Psatz.
From Coquelicot Require Import Coquelicot.
From EP Require Import lib.Base lib.Tactics lib.Series gen.Rectangle.
Open Scope R_scope.

(* a field with all the derivatives the 2-D heat equation needs, as functions *)
Ltac split6 := split; [ | split; [ | split; [ | split; [ | split ] ] ] ].

Definition heat2 (kappa : R) (f fx fxx fy fyy ft : R -> R -> R -> R) : Prop :=
  (forall x y t, is_derive (fun z => f z y t) x (fx x y t)) /\ (forall x y t, is_derive (fun z => fx z y t) x (fxx x y t)) /\
  (forall x y t, is_derive (fun z => f x z t) y (fy x y t)) /\ (forall x y t, is_derive (fun z => fy x z t) y (fyy x y t)) /\
  (forall x y t, is_derive (fun s => f x y s) t (ft x y t)) /\
  (forall x y t, ft x y t = kappa * (fxx x y t + fyy x y t)).

Lemma heat2_sum : forall kappa (f fx fxx fy fyy ft : R -> R -> R -> R -> R) lo hi,
  (forall n : nat, heat2 kappa (f (INR n)) (fx (INR n)) (fxx (INR n)) (fy (INR n)) (fyy (INR n)) (ft (INR n))) ->
  heat2 kappa (fun x y t => sum_range (fun n => f n x y t) lo hi) (fun x y t => sum_range (fun n => fx n x y t) lo hi)
              (fun x y t => sum_range (fun n => fxx n x y t) lo hi) (fun x y t => sum_range (fun n => fy n x y t) lo hi)
              (fun x y t => sum_range (fun n => fyy n x y t) lo hi) (fun x y t => sum_range (fun n => ft n x y t) lo hi).
Proof.
  intros kappa f fx fxx fy fyy ft lo hi H. unfold heat2. split6.
  - intros x y t. apply (is_derive_sum_range (fun n z => f n z y t)). intros n. apply (H n).
  - intros x y t. apply (is_derive_sum_range (fun n z => fx n z y t)). intros n. apply (H n).
  - intros x y t. apply (is_derive_sum_range (fun n z => f n x z t)). intros n. apply (H n).
  - intros x y t. apply (is_derive_sum_range (fun n z => fy n x z t)). intros n. apply (H n).
  - intros x y t. apply (is_derive_sum_range (fun n s => f n x y s)). intros n. apply (H n).
  - intros x y t. rewrite Rmult_plus_distr_l, <- !sum_range_scal. unfold sum_range. rewrite <- sum_from_plus. apply sum_from_ext. intros n _.
    destruct (H n) as (_ & _ & _ & _ & _ & E). rewrite E. ring.
Qed.

Lemma heat2_plus : forall kappa f fx fxx fy fyy ft g gx gxx gy gyy gt,
  heat2 kappa f fx fxx fy fyy ft -> heat2 kappa g gx gxx gy gyy gt ->
  heat2 kappa (fun x y t => f x y t + g x y t) (fun x y t => fx x y t + gx x y t) (fun x y t => fxx x y t + gxx x y t)
              (fun x y t => fy x y t + gy x y t) (fun x y t => fyy x y t + gyy x y t) (fun x y t => ft x y t + gt x y t).
Proof.
  intros kappa f fx fxx fy fyy ft g gx gxx gy gyy gt (F1 & F2 & F3 & F4 & F5 & F6) (G1 & G2 & G3 & G4 & G5 & G6). unfold heat2. split6; intros x y t.
  - apply (is_derive_plus (fun z => f z y t) (fun z => g z y t)); [ apply F1 | apply G1 ].
  - apply (is_derive_plus (fun z => fx z y t) (fun z => gx z y t)); [ apply F2 | apply G2 ].
  - apply (is_derive_plus (fun z => f x z t) (fun z => g x z t)); [ apply F3 | apply G3 ].
  - apply (is_derive_plus (fun z => fy x z t) (fun z => gy x z t)); [ apply F4 | apply G4 ].
  - apply (is_derive_plus (fun s => f x y s) (fun s => g x y s)); [ apply F5 | apply G5 ].
  - rewrite F6, G6. ring.
Qed.

Section Rect.
Variables kappa a b Ttop Nsum : R.

(* ---- transient term: A sin(kn x) sin(km y) exp(-kappa (kn^2 + km^2) t) ---- *)
Definition kn (n : R) : R := (2 * n + 1) * PI / a.
Definition km (m : R) : R := m * PI / b.
Definition Anm (n m : R) : R := 4 * Ttop * 2 * altsign m * (m / (2 * n + 1)) / (kn n ^ 2 + km m ^ 2) / b ^ 2.
Definition tr (n m x y t : R) : R := Anm n m * sin (kn n * x) * sin (km m * y) * exp (- kappa * (kn n ^ 2 + km m ^ 2) * t).

Lemma trans_term_form : forall n m x y t, rect_trans_term kappa a b Ttop n m x y t = tr n m x y t.
Proof. intros. reflexivity. Qed.

Definition tr_x (n m x y t : R) : R := Anm n m * (kn n * cos (kn n * x)) * sin (km m * y) * exp (- kappa * (kn n ^ 2 + km m ^ 2) * t).
Definition tr_xx (n m x y t : R) : R := - kn n ^ 2 * tr n m x y t.
Definition tr_y (n m x y t : R) : R := Anm n m * sin (kn n * x) * (km m * cos (km m * y)) * exp (- kappa * (kn n ^ 2 + km m ^ 2) * t).
Definition tr_yy (n m x y t : R) : R := - km m ^ 2 * tr n m x y t.
Definition tr_t (n m x y t : R) : R := - kappa * (kn n ^ 2 + km m ^ 2) * tr n m x y t.

Lemma tr_heat2 : forall n m, heat2 kappa (tr n m) (tr_x n m) (tr_xx n m) (tr_y n m) (tr_yy n m) (tr_t n m).
Proof.
  intros n m. unfold heat2, tr_x, tr_xx, tr_y, tr_yy, tr_t, tr. set (A := Anm n m). set (p := kn n). set (q := km m).
  split6; intros x y t.
  - auto_derive; [ exact I | match goal with |- @eq _ ?u ?v => change (@eq R u v) end; exp_merge; ring ].
  - auto_derive; [ exact I | match goal with |- @eq _ ?u ?v => change (@eq R u v) end; exp_merge; ring ].
  - auto_derive; [ exact I | match goal with |- @eq _ ?u ?v => change (@eq R u v) end; exp_merge; ring ].
  - auto_derive; [ exact I | match goal with |- @eq _ ?u ?v => change (@eq R u v) end; exp_merge; ring ].
  - auto_derive; [ exact I | match goal with |- @eq _ ?u ?v => change (@eq R u v) end; exp_merge; ring ].
  - ring.
Qed.

(* ---- static term: C sin(k x) sinh(k y) / sinh(k b) ---- *)
Definition ks (n : R) : R := n * PI / a.
Definition Cn (n : R) : R := 2 * Ttop * (1 - altsign n) / (n * PI).
Definition st (n x y : R) : R := Cn n * sin (ks n * x) * sinh (ks n * y) / sinh (ks n * b).

Lemma static_term_form : forall n x y, rect_static_term a b Ttop n x y = st n x y.
Proof. intros. reflexivity. Qed.

Definition st_x (n x y t : R) : R := Cn n * (ks n * cos (ks n * x)) * sinh (ks n * y) / sinh (ks n * b).
Definition st_xx (n x y t : R) : R := - ks n ^ 2 * st n x y.
Definition st_y (n x y t : R) : R := Cn n * sin (ks n * x) * (ks n * cosh (ks n * y)) / sinh (ks n * b).
Definition st_yy (n x y t : R) : R := ks n ^ 2 * st n x y.

Lemma st_heat2 : forall n, heat2 kappa (fun x y _ => st n x y) (st_x n) (st_xx n) (st_y n) (st_yy n) (fun _ _ _ => 0).
Proof.
  intros n. unfold heat2, st_x, st_xx, st_y, st_yy, st. set (C := Cn n). set (p := ks n). set (D := sinh (p * b)).
  split6; intros x y t.
  - auto_derive; [ exact I | match goal with |- @eq _ ?u ?v => change (@eq R u v) end; unfold Rdiv; ring ].
  - auto_derive; [ exact I | match goal with |- @eq _ ?u ?v => change (@eq R u v) end; unfold Rdiv; ring ].
  - unfold sinh, cosh. auto_derive; [ exact I | match goal with |- @eq _ ?u ?v => change (@eq R u v) end; unfold Rdiv; ring ].
  - unfold sinh, cosh. auto_derive; [ exact I | match goal with |- @eq _ ?u ?v => change (@eq R u v) end; unfold Rdiv; ring ].
  - apply (is_derive_const (C * sin (p * x) * sinh (p * y) / D) t).
  - ring.
Qed.

Let T := fun x y t => rect_temperature kappa a b Ttop Nsum x y t.

Lemma rectangle_heat_equation_proof : exists Tx Txx Ty Tyy Tt, heat2 kappa T Tx Txx Ty Tyy Tt.
Proof.
  assert (Hin : forall n : nat, heat2 kappa (fun x y t => sum_range (fun m => tr (INR n) m x y t) 1 Nsum) (fun x y t => sum_range (fun m => tr_x (INR n) m x y t) 1 Nsum)
                  (fun x y t => sum_range (fun m => tr_xx (INR n) m x y t) 1 Nsum) (fun x y t => sum_range (fun m => tr_y (INR n) m x y t) 1 Nsum)
                  (fun x y t => sum_range (fun m => tr_yy (INR n) m x y t) 1 Nsum) (fun x y t => sum_range (fun m => tr_t (INR n) m x y t) 1 Nsum)).
  { intros n. apply (heat2_sum kappa (fun m => tr (INR n) m) (fun m => tr_x (INR n) m) (fun m => tr_xx (INR n) m) (fun m => tr_y (INR n) m) (fun m => tr_yy (INR n) m) (fun m => tr_t (INR n) m)).
    intros m. apply tr_heat2. }
  assert (Hout := heat2_sum kappa (fun n x y t => sum_range (fun m => tr n m x y t) 1 Nsum) (fun n x y t => sum_range (fun m => tr_x n m x y t) 1 Nsum)
                    (fun n x y t => sum_range (fun m => tr_xx n m x y t) 1 Nsum) (fun n x y t => sum_range (fun m => tr_y n m x y t) 1 Nsum)
                    (fun n x y t => sum_range (fun m => tr_yy n m x y t) 1 Nsum) (fun n x y t => sum_range (fun m => tr_t n m x y t) 1 Nsum) 0 Nsum Hin).
  assert (Hst := heat2_sum kappa (fun n x y (_ : R) => st n x y) st_x st_xx st_y st_yy (fun _ _ _ _ => 0) 1 Nsum (fun n => st_heat2 (INR n))).
  assert (H := heat2_plus kappa _ _ _ _ _ _ _ _ _ _ _ _ Hout Hst).
  do 5 eexists. exact H.
Qed.

(* the x-derivative, explicitly *)
Definition TX (x y t : R) : R :=
  sum_range (fun n => sum_range (fun m => tr_x n m x y t) 1 Nsum) 0 Nsum + sum_range (fun n => st_x n x y t) 1 Nsum.

Lemma rectangle_x_derivative : forall x y t, is_derive (fun z => T z y t) x (TX x y t).
Proof.
  intros x y t. unfold T, TX, rect_temperature, rect_transient, rect_static.
  apply (is_derive_plus (fun z => sum_range (fun n => sum_range (fun m => rect_trans_term kappa a b Ttop n m z y t) 1 Nsum) 0 Nsum)
                        (fun z => sum_range (fun n => rect_static_term a b Ttop n z y) 1 Nsum)).
  - apply (is_derive_sum_range (fun n z => sum_range (fun m => rect_trans_term kappa a b Ttop n m z y t) 1 Nsum)). intros n.
    apply (is_derive_sum_range (fun m z => rect_trans_term kappa a b Ttop (INR n) m z y t)). intros m.
    destruct (tr_heat2 (INR n) (INR m)) as (D & _). apply D.
  - apply (is_derive_sum_range (fun n z => rect_static_term a b Ttop n z y)). intros n.
    destruct (st_heat2 (INR n)) as (D & _). apply (D x y t).
Qed.

(* ---- boundary values ---- *)
Hypothesis Ha : a <> 0.

Lemma rectangle_boundary_proof : forall x y t, T x 0 t = 0 /\ T 0 y t = 0 /\ T a y t = 0.
Proof.
  intros x y t. unfold T, rect_temperature, rect_transient, rect_static. repeat split.
  - rewrite !sum_range_zero; [ ring | | ].
    + intros n. unfold rect_static_term. rewrite Rmult_0_r. unfold sinh. rewrite Ropp_0, exp_0. unfold Rdiv. ring.
    + intros n. apply sum_range_zero. intros m. unfold rect_trans_term. rewrite Rmult_0_r, sin_0. ring.
  - rewrite !sum_range_zero; [ ring | | ].
    + intros n. unfold rect_static_term. rewrite Rmult_0_r, sin_0. unfold Rdiv. ring.
    + intros n. apply sum_range_zero. intros m. unfold rect_trans_term. rewrite Rmult_0_r, sin_0. ring.
  - rewrite !sum_range_zero; [ ring | | ].
    + intros n. unfold rect_static_term. replace (INR n * PI / a * a) with (INR n * PI) by (field; exact Ha). rewrite sin_INR_PI. unfold Rdiv. ring.
    + intros n. apply sum_range_zero. intros m. unfold rect_trans_term.
      replace ((2 * INR n + 1) * PI / a * a) with (INR (2 * n + 1) * PI) by (rewrite plus_INR, mult_INR; simpl; field; exact Ha).
      rewrite sin_INR_PI. ring.
Qed.
End Rect.

(* KNOWN FINDING rectangle-sides-not-insulated: the documentation declares zero heat flux on the sides x = 0, x = a; the returned field has a non-zero
   x-derivative there (witness kappa = 1, a = b = 2, Ttop = 1, Nsum = 2, y = 1, t = 1) *)
From Interval Require Import Tactic.
Lemma rectangle_side_flux_refuted_proof :
  exists d, is_derive (fun z => rect_temperature 1 2 2 1 (INR 2) z 1 1) 0 d /\ d <> 0.
Proof.
  exists (TX 1 2 2 1 (INR 2) 0 1 1). split; [ apply rectangle_x_derivative | ].
  apply Rgt_not_eq. unfold TX.
  rewrite sum_range_0_INR, !sum_range_1_INR. cbn [sum_from Nat.sub]. rewrite !sum_range_1_INR. cbn [sum_from Nat.sub].
  unfold tr_x, st_x, Anm, Cn, kn, km, ks. rewrite !altsign_INR. cbn [INR pow]. unfold sinh.
  interval with (i_prec 60).
Qed.
