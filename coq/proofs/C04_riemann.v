(* C04 - the solution assembled by RiemannIGEOS.driver (model/RiemannIG.v over the generated wave functions of
   riemann/utils.py) conserves mass, momentum and total energy in integral form, for each of the four wave
   patterns, for every left/right state, every star pressure that is a root of the pattern's equation, every
   membrane position, time and window that contains the waves. *)
From Coq Require Import Reals Lra Psatz List.
From Coquelicot Require Import Coquelicot.
From EP Require Import lib.Base lib.Tactics lib.RH lib.SimpleWave lib.SimpleWaveInt lib.Conservation
  gen.Riemann model.RiemannIG proofs.Riemann_shock proofs.Riemann_fan.
Open Scope R_scope.
Import ListNotations.

(* ---- a region of the model as a piece with its conservation-form antiderivative ---- *)
Definition rpiece (c : comp) (xd0 t : R) (rg : region) : piece :=
  {| pe := edge rg;
     pU := fun x => dens c (f_p rg x) (f_r rg x) (f_u rg x) (f_e rg x);
     pH := Hanti c xd0 t (f_p rg) (f_r rg) (f_u rg) (f_e rg) |}.

Lemma fold_overwrite_dens : forall c xd0 t x regs a b cc d,
  dens c (fold_left (overwrite f_p x) regs a) (fold_left (overwrite f_r x) regs b)
         (fold_left (overwrite f_u x) regs cc) (fold_left (overwrite f_e x) regs d)
  = fold_left (over x) (map (rpiece c xd0 t) regs) (dens c a b cc d).
Proof.
  intros c xd0 t x regs. induction regs as [|rg rest IH]; intros a b cc d; [ reflexivity | ].
  cbn [fold_left map]. rewrite IH. f_equal.
  unfold overwrite, over, rpiece; cbn [pe pU]. destruct (Rle_dec (edge rg) x); reflexivity.
Qed.

(* ---- constant pieces ---- *)
Lemma const_piece_derive : forall c xd0 t e0 p r u g x, t <> 0 ->
  is_derive (pH (rpiece c xd0 t (const_region e0 p r u g))) x (pU (rpiece c xd0 t (const_region e0 p r u g)) x).
Proof. intros. unfold rpiece, const_region; cbn [pH pU f_p f_r f_u f_e]. apply Hanti_const. assumption. Qed.

Lemma const_piece_cont : forall c xd0 t e0 p r u g x,
  continuous (pU (rpiece c xd0 t (const_region e0 p r u g))) x.
Proof. intros. unfold rpiece, const_region; cbn [pU f_p f_r f_u f_e]. apply continuous_const. Qed.

(* value of the antiderivative depends on the fields at that point only *)
Lemma Hanti_at : forall c xd0 t fp fr fu fe x p r u e,
  fp x = p -> fr x = r -> fu x = u -> fe x = e ->
  Hanti c xd0 t fp fr fu fe x = Hanti c xd0 t (fun _ => p) (fun _ => r) (fun _ => u) (fun _ => e) x.
Proof. intros. unfold Hanti. congruence. Qed.

(* a discontinuity moving with speed s that satisfies the jump conditions does not change H *)
Lemma Hanti_rh : forall c xd0 t s r1 u1 p1 e1 r2 u2 p2 e2, t <> 0 ->
  rh_jump s r1 u1 p1 e1 r2 u2 p2 e2 ->
  Hanti c xd0 t (fun _ => p1) (fun _ => r1) (fun _ => u1) (fun _ => e1) (xd0 + t * s) =
  Hanti c xd0 t (fun _ => p2) (fun _ => r2) (fun _ => u2) (fun _ => e2) (xd0 + t * s).
Proof.
  intros c xd0 t s r1 u1 p1 e1 r2 u2 p2 e2 Ht (Hm & Hp & He). unfold Hanti.
  replace ((xd0 + t * s - xd0) / t) with s by (field; exact Ht).
  f_equal. destruct c; unfold dens, pflux.
  - lra.
  - replace (r1 * u1 * (u1 - s) + p1) with (r1 * (u1 - s) * u1 + p1) by ring.
    replace (r2 * u2 * (u2 - s) + p2) with (r2 * (u2 - s) * u2 + p2) by ring. exact Hp.
  - replace (r1 * (e1 + u1 ^ 2 / 2) * (u1 - s) + p1 * u1) with (r1 * (u1 - s) * (e1 + u1 ^ 2 / 2) + p1 * u1) by ring.
    replace (r2 * (e2 + u2 ^ 2 / 2) * (u2 - s) + p2 * u2) with (r2 * (u2 - s) * (e2 + u2 ^ 2 / 2) + p2 * u2) by ring.
    exact He.
Qed.

(* a contact: equal pressure and velocity, moving with the fluid *)
Lemma Hanti_contact : forall c xd0 t u p r1 e1 r2 e2, t <> 0 ->
  Hanti c xd0 t (fun _ => p) (fun _ => r1) (fun _ => u) (fun _ => e1) (xd0 + t * u) =
  Hanti c xd0 t (fun _ => p) (fun _ => r2) (fun _ => u) (fun _ => e2) (xd0 + t * u).
Proof.
  intros c xd0 t u p r1 e1 r2 e2 Ht. unfold Hanti.
  replace ((xd0 + t * u - xd0) / t) with u by (field; exact Ht).
  destruct c; unfold dens, pflux; ring.
Qed.

(* ---- the star sound speed behind a fan ---- *)
Lemma star_sound_fan : forall p r g px, 0 < p -> 0 < r -> 1 < g -> 0 < px ->
  rie_sound_speed px (rie_rho_star_rarefaction px p r g) g = sw_a g p r * Rpower (px / p) ((g - 1) / 2 / g).
Proof.
  intros p r g px Hp Hr Hg Hpx.
  assert (Hq : 0 < px / p) by (apply Rdiv_lt_0_compat; assumption).
  pose proof (sw_a_pos g p r Hg Hp Hr) as Ha. pose proof (sw_a_sq g p r Hg Hp Hr) as Ha2.
  set (q := px / p) in *.
  assert (Hpi : 0 < Rpower q ((g - 1) / 2 / g)) by (unfold Rpower; apply exp_pos).
  assert (Hr1 : 0 < Rpower q (1 / g)) by (unfold Rpower; apply exp_pos).
  unfold rie_sound_speed, rie_rho_star_rarefaction. fold q.
  apply Rsqr_inj; [ apply sqrt_pos | apply Rlt_le, Rmult_lt_0_compat; assumption | ].
  unfold Rsqr. rewrite sqrt_sqrt.
  2:{ apply Rlt_le. apply Rdiv_lt_0_compat; [ nra | apply Rmult_lt_0_compat; assumption ]. }
  replace (sw_a g p r * Rpower q ((g - 1) / 2 / g) * (sw_a g p r * Rpower q ((g - 1) / 2 / g)))
    with (sw_a g p r * sw_a g p r * (Rpower q ((g - 1) / 2 / g) * Rpower q ((g - 1) / 2 / g))) by ring.
  rewrite Ha2, <- Rpower_plus.
  replace ((g - 1) / 2 / g + (g - 1) / 2 / g) with (1 + - (1 / g)) by (field; lra).
  rewrite Rpower_plus, Rpower_1, Rpower_Ropp by exact Hq.
  unfold q. field. repeat split; try lra. fold q. lra.
Qed.

Section Problem.
Variables pl rl ul gl pr rr ur gr px xd0 t : R.
Hypothesis Hpl : 0 < pl.
Hypothesis Hrl : 0 < rl.
Hypothesis Hgl : 1 < gl.
Hypothesis Hpr : 0 < pr.
Hypothesis Hrr : 0 < rr.
Hypothesis Hgr : 1 < gr.
Hypothesis Hpx : 0 < px.
Hypothesis Ht : 0 < t.
Hypothesis Hdiff : ~ (pr = pl /\ ur = ul /\ rr = rl).

Let tn : t <> 0. Proof. lra. Qed.

(* ---- the generated fan regions are the simple wave ---- *)
Lemma fanL_pt : forall x,
  rie_fanL_rho x xd0 t gl pl rl ul = sw_rho gl pl rl ul xd0 1 x t /\
  rie_fanL_u x xd0 t gl pl rl ul = sw_u gl pl rl ul xd0 1 x t /\
  rie_fanL_p x xd0 t gl pl rl ul = sw_p gl pl rl ul xd0 1 x t.
Proof.
  intros x. destruct (fanL_is_simple_wave xd0 gl pl rl ul) as (E1 & E2 & E3).
  repeat split.
  - exact (f_equal (fun f => f x t) E1).
  - exact (f_equal (fun f => f x t) E2).
  - exact (f_equal (fun f => f x t) E3).
Qed.

Lemma fanR_pt : forall x,
  rie_fanR_rho x xd0 t gr pl pr rl rr ul ur = sw_rho gr pr rr ur xd0 (-1) x t /\
  rie_fanR_u x xd0 t gr pl pr rl rr ul ur = sw_u gr pr rr ur xd0 (-1) x t /\
  rie_fanR_p x xd0 t gr pl pr rl rr ul ur = sw_p gr pr rr ur xd0 (-1) x t.
Proof.
  intros x. destruct (fanR_is_simple_wave xd0 gr pl pr rl rr ul ur Hdiff) as (E1 & E2 & E3).
  repeat split.
  - exact (f_equal (fun f => f x t) E1).
  - exact (f_equal (fun f => f x t) E2).
  - exact (f_equal (fun f => f x t) E3).
Qed.

Lemma fanL_piece_H : forall c e0 x,
  pH (rpiece c xd0 t (fanL_region pl rl ul gl xd0 t e0)) x = fanH gl pl rl ul xd0 1 c t x.
Proof.
  intros c e0 x. unfold rpiece, fanL_region, fanH; cbn [pH f_p f_r f_u f_e]. unfold Hanti.
  destruct (fanL_pt x) as (E1 & E2 & E3). rewrite E1, E2, E3. unfold rie_sie, sw_e. reflexivity.
Qed.

Lemma fanL_piece_U : forall c e0 x,
  pU (rpiece c xd0 t (fanL_region pl rl ul gl xd0 t e0)) x =
  dens c (sw_p gl pl rl ul xd0 1 x t) (sw_rho gl pl rl ul xd0 1 x t) (sw_u gl pl rl ul xd0 1 x t) (sw_e gl pl rl ul xd0 1 x t).
Proof.
  intros c e0 x. unfold rpiece, fanL_region; cbn [pU f_p f_r f_u f_e].
  destruct (fanL_pt x) as (E1 & E2 & E3). rewrite E1, E2, E3. unfold rie_sie, sw_e. reflexivity.
Qed.

Lemma fanR_piece_H : forall c e0 x,
  pH (rpiece c xd0 t (fanR_region pl rl ul pr rr ur gr xd0 t e0)) x = fanH gr pr rr ur xd0 (-1) c t x.
Proof.
  intros c e0 x. unfold rpiece, fanR_region, fanH; cbn [pH f_p f_r f_u f_e]. unfold Hanti.
  destruct (fanR_pt x) as (E1 & E2 & E3). rewrite E1, E2, E3. unfold rie_sie, sw_e. reflexivity.
Qed.

Lemma fanR_piece_U : forall c e0 x,
  pU (rpiece c xd0 t (fanR_region pl rl ul pr rr ur gr xd0 t e0)) x =
  dens c (sw_p gr pr rr ur xd0 (-1) x t) (sw_rho gr pr rr ur xd0 (-1) x t) (sw_u gr pr rr ur xd0 (-1) x t) (sw_e gr pr rr ur xd0 (-1) x t).
Proof.
  intros c e0 x. unfold rpiece, fanR_region; cbn [pU f_p f_r f_u f_e].
  destruct (fanR_pt x) as (E1 & E2 & E3). rewrite E1, E2, E3. unfold rie_sie, sw_e. reflexivity.
Qed.

Lemma fanL_piece_derive : forall c e0 x, 0 < sw_Y gl pl rl ul xd0 1 x t ->
  is_derive (pH (rpiece c xd0 t (fanL_region pl rl ul gl xd0 t e0))) x (pU (rpiece c xd0 t (fanL_region pl rl ul gl xd0 t e0)) x).
Proof.
  intros c e0 x HY. rewrite fanL_piece_U.
  apply (is_derive_ext (fanH gl pl rl ul xd0 1 c t)); [ intros y; symmetry; apply fanL_piece_H | ].
  apply fanH_derive; try assumption; try ring.
Qed.

Lemma fanR_piece_derive : forall c e0 x, 0 < sw_Y gr pr rr ur xd0 (-1) x t ->
  is_derive (pH (rpiece c xd0 t (fanR_region pl rl ul pr rr ur gr xd0 t e0))) x (pU (rpiece c xd0 t (fanR_region pl rl ul pr rr ur gr xd0 t e0)) x).
Proof.
  intros c e0 x HY. rewrite fanR_piece_U.
  apply (is_derive_ext (fanH gr pr rr ur xd0 (-1) c t)); [ intros y; symmetry; apply fanR_piece_H | ].
  apply fanH_derive; try assumption; try ring.
Qed.

Lemma fanL_piece_cont : forall c e0 x, 0 < sw_Y gl pl rl ul xd0 1 x t ->
  continuous (pU (rpiece c xd0 t (fanL_region pl rl ul gl xd0 t e0))) x.
Proof.
  intros c e0 x HY.
  apply (continuous_ext (fun y => dens c (sw_p gl pl rl ul xd0 1 y t) (sw_rho gl pl rl ul xd0 1 y t) (sw_u gl pl rl ul xd0 1 y t) (sw_e gl pl rl ul xd0 1 y t))).
  { intros y. symmetry. apply fanL_piece_U. }
  apply fan_dens_continuous; try assumption; try ring; try lra.
Qed.

Lemma fanR_piece_cont : forall c e0 x, 0 < sw_Y gr pr rr ur xd0 (-1) x t ->
  continuous (pU (rpiece c xd0 t (fanR_region pl rl ul pr rr ur gr xd0 t e0))) x.
Proof.
  intros c e0 x HY.
  apply (continuous_ext (fun y => dens c (sw_p gr pr rr ur xd0 (-1) y t) (sw_rho gr pr rr ur xd0 (-1) y t) (sw_u gr pr rr ur xd0 (-1) y t) (sw_e gr pr rr ur xd0 (-1) y t))).
  { intros y. symmetry. apply fanR_piece_U. }
  apply fan_dens_continuous; try assumption; try ring; try lra.
Qed.
End Problem.

(* ---- shock speeds and orderings ---- *)
Lemma shockL_speed_eq : forall px gl pl rl ul, 0 < pl -> 0 < rl -> 1 < gl -> 0 < px ->
  rie_shock_velocityL px gl pl rl ul = ul - mflux pl rl gl px / rl.
Proof.
  intros px gl pl rl ul Hp Hr Hg Hpx. unfold rie_shock_velocityL.
  rewrite <- (sound_times_sqrt pl rl gl px Hp Hr Hg Hpx). unfold rie_sound_speed. ring.
Qed.

Lemma shockR_speed_eq : forall px gr pl pr rl rr ul ur, 0 < pr -> 0 < rr -> 1 < gr -> 0 < px ->
  ~ (pr = pl /\ ur = ul /\ rr = rl) ->
  rie_shock_velocityR px gr pl pr rl rr ul ur = ur + mflux pr rr gr px / rr.
Proof.
  intros px gr pl pr rl rr ul ur Hp Hr Hg Hpx Hd. unfold rie_shock_velocityR.
  rewrite <- (sound_times_sqrt pr rr gr px Hp Hr Hg Hpx). unfold rie_sound_speed.
  destruct (Req_EM_T pr pl); [ destruct (Req_EM_T ur ul); [ destruct (Req_EM_T rr rl) | ] | ]; try ring.
  exfalso. apply Hd. auto.
Qed.

Lemma shock_order : forall p r g px, 0 < p -> 0 < r -> 1 < g -> 0 < px ->
  (px - p) / mflux p r g px < mflux p r g px / r.
Proof.
  intros p r g px Hp Hr Hg Hpx.
  pose proof (mflux_pos p r g px Hp Hr Hg Hpx) as Hm. pose proof (mflux_sq p r g px Hp Hr Hg Hpx) as Hm2.
  apply (Rmult_lt_reg_r (mflux p r g px * r)); [ apply Rmult_lt_0_compat; assumption | ].
  replace ((px - p) / mflux p r g px * (mflux p r g px * r)) with ((px - p) * r) by (field; lra).
  replace (mflux p r g px / r * (mflux p r g px * r)) with (mflux p r g px * mflux p r g px) by (field; lra).
  rewrite Hm2. rewrite (Rmult_comm (px - p) r). apply Rmult_lt_compat_l; [ exact Hr | ].
  assert (0 < (g - 1) * px) by (apply Rmult_lt_0_compat; lra).
  assert (0 < (g + 1) * p) by (apply Rmult_lt_0_compat; lra). lra.
Qed.

(* the value of the telescoped sum *)
Lemma Hanti_ends : forall c xd0 t pl rl ul el pr rr ur er xa xb, t <> 0 ->
  Hanti c xd0 t (fun _ => pr) (fun _ => rr) (fun _ => ur) (fun _ => er) xb -
  Hanti c xd0 t (fun _ => pl) (fun _ => rl) (fun _ => ul) (fun _ => el) xa =
  (xd0 - xa) * dens c pl rl ul el + (xb - xd0) * dens c pr rr ur er + t * (flux c pl rl ul el - flux c pr rr ur er).
Proof. intros. unfold Hanti, flux. field. assumption. Qed.

Section Patterns.
Variables pl rl ul gl pr rr ur gr px xd0 t xa xb : R.
Hypothesis Hpl : 0 < pl.
Hypothesis Hrl : 0 < rl.
Hypothesis Hgl : 1 < gl.
Hypothesis Hpr : 0 < pr.
Hypothesis Hrr : 0 < rr.
Hypothesis Hgr : 1 < gr.
Hypothesis Hpx : 0 < px.
Hypothesis Ht : 0 < t.
Hypothesis Hdiff : ~ (pr = pl /\ ur = ul /\ rr = rl).

Let tn : t <> 0. Proof. lra. Qed.

(* the conserved density of the assembled solution and the claimed value of its integral *)
Definition sol_dens (c : comp) (pat : pattern) (x : R) : R :=
  dens c (ig_p pl rl ul gl pr rr ur gr pat px xd0 t x) (ig_rho pl rl ul gl pr rr ur gr pat px xd0 t x)
         (ig_u pl rl ul gl pr rr ur gr pat px xd0 t x) (ig_e pl rl ul gl pr rr ur gr pat px xd0 t x).

Definition balance (c : comp) : R :=
  (xd0 - xa) * dens c pl rl ul (rie_sie pl rl gl) + (xb - xd0) * dens c pr rr ur (rie_sie pr rr gr)
  + t * (flux c pl rl ul (rie_sie pl rl gl) - flux c pr rr ur (rie_sie pr rr gr)).

Let q0 (c : comp) : piece := rpiece c xd0 t (const_region xa pl rl ul gl).

Lemma sol_dens_asm : forall c pat x,
  sol_dens c pat x = asm (q0 c) (map (rpiece c xd0 t) (ig_regions pl rl ul gl pr rr ur gr pat px xd0 t)) x.
Proof.
  intros c pat x. unfold sol_dens, ig_p, ig_rho, ig_u, ig_e, asm.
  rewrite (fold_overwrite_dens c xd0 t). reflexivity.
Qed.

Ltac const_obl :=
  match goal with
  | |- forall x, _ -> is_derive _ _ _ => intros ? _; apply const_piece_derive; exact tn
  | |- forall x, _ -> continuous _ _ => intros ? _; apply const_piece_cont
  end.

Theorem scs_conservation : forall c,
  rie_SCS_call px gl gr pl pr rl rr ul ur = 0 ->
  xa <= X pl rl ul gl pr rr ur gr SCS px xd0 t 0 -> X pl rl ul gl pr rr ur gr SCS px xd0 t 2 <= xb ->
  is_RInt (sol_dens c SCS) xa xb (balance c).
Proof.
  intros c Hcall Hxa Hxb.
  apply (is_RInt_ext (asm (q0 c) (map (rpiece c xd0 t) (ig_regions pl rl ul gl pr rr ur gr SCS px xd0 t)))).
  { intros x _. symmetry. apply sol_dens_asm. }
  pose proof (shockL_speed_eq px gl pl rl ul Hpl Hrl Hgl Hpx) as EsL.
  pose proof (shockR_speed_eq px gr pl pr rl rr ul ur Hpr Hrr Hgr Hpx Hdiff) as EsR.
  pose proof (shock_fn_eq pl rl 0 gl px Hpl Hrl Hgl Hpx) as EfL.
  pose proof (shock_fn_eq pr rr 0 gr px Hpr Hrr Hgr Hpx) as EfR.
  pose proof (shock_order pl rl gl px Hpl Hrl Hgl Hpx) as OL.
  pose proof (shock_order pr rr gr px Hpr Hrr Hgr Hpx) as OR.
  assert (Hu : ul + -1 * rie_shock px pl rl 0 gl = ur + rie_shock px pr rr 0 gr).
  { revert Hcall. unfold rie_SCS_call, rie_shock. intros Hcall. lra. }
  unfold X, ig_Xregs, ig_Vregs, ig_ux in Hxa, Hxb. cbn [map nth] in Hxa, Hxb.
  evar_last.
  - apply chain_integral.
    unfold ig_regions, star1, star2, X, ig_Xregs, ig_Vregs. unfold ig_ux, ig_rx1, ig_rx2. cbn [map nth].
    unfold q0.
    apply chain_cons; [ exact Hxa | const_obl | const_obl | | ].
    { (* left shock *)
      unfold rpiece, const_region; cbn [pH pe edge f_p f_r f_u f_e].
      apply Hanti_rh; [ exact tn | ]. apply igeos_left_shock_rh_proof; assumption. }
    apply chain_cons; [ | const_obl | const_obl | | ].
    { cbn [pe rpiece const_region edge]. apply Rplus_le_compat_l, Rmult_le_compat_l; [ lra | ]. rewrite EsL, EfL. lra. }
    { (* contact *)
      unfold rpiece, const_region; cbn [pH pe edge f_p f_r f_u f_e]. apply Hanti_contact. exact tn. }
    apply chain_cons; [ | const_obl | const_obl | | ].
    { cbn [pe rpiece const_region edge]. apply Rplus_le_compat_l, Rmult_le_compat_l; [ lra | ]. rewrite EsR, Hu, EfR. lra. }
    { (* right shock *)
      unfold rpiece, const_region; cbn [pH pe edge f_p f_r f_u f_e].
      set (ustar := ul + -1 * rie_shock px pl rl 0 gl) in *. clearbody ustar. subst ustar.
      apply Hanti_rh; [ exact tn | ]. apply igeos_right_shock_rh_proof; assumption. }
    apply chain_nil; [ exact Hxb | const_obl | const_obl ].
  - unfold last_piece, ig_regions. cbn [map last]. unfold q0, rpiece, const_region; cbn [pH f_p f_r f_u f_e].
    unfold balance. apply Hanti_ends. exact tn.
Qed.

(* ---- left fan block (s = +1), anchored at the left state ---- *)
Definition uxL : R := ul + 1 * rie_rarefaction px pl rl 0 gl.
Definition XhL : R := xd0 + t * (ul - rie_sound_speed pl rl gl).
Definition XtL : R := xd0 + t * (uxL - rie_sound_speed px (rie_rho_star_rarefaction px pl rl gl) gl).

Lemma one_sq : 1 * 1 = 1. Proof. ring. Qed.
Lemma mone_sq : -1 * -1 = 1. Proof. ring. Qed.

Lemma uxL_ustar : uxL = fan_ustar gl pl rl ul 1 px.
Proof. unfold uxL, fan_ustar, rie_rarefaction, fan_pi, sw_a. ring. Qed.

Lemma XtL_tail : XtL = fan_xtail gl pl rl ul xd0 1 px t.
Proof.
  unfold XtL, fan_xtail. rewrite uxL_ustar, (star_sound_fan pl rl gl px Hpl Hrl Hgl Hpx). unfold fan_pi. ring.
Qed.

Lemma XhL_head : XhL = xd0 + t * (ul - 1 * sw_a gl pl rl).
Proof. unfold XhL, rie_sound_speed, sw_a. ring. Qed.

Lemma fanL_order : px <= pl -> XhL <= XtL.
Proof.
  intros Hle. pose proof (fan_head_tail_order gl pl rl ul xd0 1 Hgl Hpl Hrl one_sq px Hpx t Ht Hle) as H.
  rewrite XhL_head, XtL_tail. lra.
Qed.

Lemma fanL_inside : forall x, x <= XtL -> 0 < sw_Y gl pl rl ul xd0 1 x t.
Proof.
  intros x Hx. rewrite XtL_tail in Hx.
  pose proof (fan_Y_inside gl pl rl ul xd0 1 Hgl Hpl Hrl one_sq px x t Ht) as H.
  pose proof (fan_pi_pos gl pl px) as Hq.
  assert (fan_pi gl pl px <= sw_Y gl pl rl ul xd0 1 x t) by (apply H; lra). lra.
Qed.

Lemma fanL_head_match : forall c e0 e1,
  pH (rpiece c xd0 t (const_region e0 pl rl ul gl)) XhL = pH (rpiece c xd0 t (fanL_region pl rl ul gl xd0 t e1)) XhL.
Proof.
  intros c e0 e1. rewrite fanL_piece_H by assumption. unfold fanH.
  unfold rpiece, const_region; cbn [pH f_p f_r f_u f_e]. symmetry.
  rewrite XhL_head.
  apply Hanti_at.
  - apply (fan_p_head gl pl rl ul xd0 1 Hgl Hpl Hrl one_sq t tn).
  - apply (fan_rho_head gl pl rl ul xd0 1 Hgl Hpl Hrl one_sq t tn).
  - apply (fan_u_head gl pl rl ul xd0 1 Hgl Hpl Hrl one_sq t tn).
  - unfold sw_e. rewrite (fan_p_head gl pl rl ul xd0 1 Hgl Hpl Hrl one_sq t tn), (fan_rho_head gl pl rl ul xd0 1 Hgl Hpl Hrl one_sq t tn).
    reflexivity.
Qed.

Lemma fanL_tail_match : forall c e0 e1,
  pH (rpiece c xd0 t (fanL_region pl rl ul gl xd0 t e0)) XtL =
  pH (rpiece c xd0 t (const_region e1 px (rie_rho_star_rarefaction px pl rl gl) uxL gl)) XtL.
Proof.
  intros c e0 e1. rewrite fanL_piece_H by assumption. unfold fanH.
  unfold rpiece, const_region; cbn [pH f_p f_r f_u f_e].
  rewrite XtL_tail.
  apply Hanti_at.
  - apply (fan_p_tail gl pl rl ul xd0 1 Hgl Hpl Hrl one_sq px Hpx t tn).
  - apply (fan_rho_tail gl pl rl ul xd0 1 Hgl Hpl Hrl one_sq px t tn).
  - rewrite uxL_ustar. apply (fan_u_tail gl pl rl ul xd0 1 Hgl Hpl Hrl one_sq px t tn).
  - unfold sw_e. rewrite (fan_p_tail gl pl rl ul xd0 1 Hgl Hpl Hrl one_sq px Hpx t tn), (fan_rho_tail gl pl rl ul xd0 1 Hgl Hpl Hrl one_sq px t tn).
    reflexivity.
Qed.

(* ---- right fan block (s = -1), anchored at the right state ---- *)
Definition uxR : R := ur - rie_rarefaction px pr rr 0 gr.
Definition XhR : R := xd0 + t * (ur + rie_sound_speed pr rr gr).
Definition XtR : R := xd0 + t * (uxR + rie_sound_speed px (rie_rho_star_rarefaction px pr rr gr) gr).

Lemma uxR_ustar : uxR = fan_ustar gr pr rr ur (-1) px.
Proof. unfold uxR, fan_ustar, rie_rarefaction, fan_pi, sw_a. ring. Qed.

Lemma XtR_tail : XtR = fan_xtail gr pr rr ur xd0 (-1) px t.
Proof.
  unfold XtR, fan_xtail. rewrite uxR_ustar, (star_sound_fan pr rr gr px Hpr Hrr Hgr Hpx). unfold fan_pi. ring.
Qed.

Lemma XhR_head : XhR = xd0 + t * (ur - -1 * sw_a gr pr rr).
Proof. unfold XhR, rie_sound_speed, sw_a. ring. Qed.

Lemma fanR_order : px <= pr -> XtR <= XhR.
Proof.
  intros Hle. pose proof (fan_head_tail_order gr pr rr ur xd0 (-1) Hgr Hpr Hrr mone_sq px Hpx t Ht Hle) as H.
  rewrite XhR_head, XtR_tail. lra.
Qed.

Lemma fanR_inside : forall x, XtR <= x -> 0 < sw_Y gr pr rr ur xd0 (-1) x t.
Proof.
  intros x Hx. rewrite XtR_tail in Hx.
  pose proof (fan_Y_inside gr pr rr ur xd0 (-1) Hgr Hpr Hrr mone_sq px x t Ht) as H.
  pose proof (fan_pi_pos gr pr px) as Hq.
  assert (fan_pi gr pr px <= sw_Y gr pr rr ur xd0 (-1) x t) by (apply H; lra). lra.
Qed.

Lemma fanR_head_match : forall c e0 e1,
  pH (rpiece c xd0 t (fanR_region pl rl ul pr rr ur gr xd0 t e0)) XhR = pH (rpiece c xd0 t (const_region e1 pr rr ur gr)) XhR.
Proof.
  intros c e0 e1. rewrite fanR_piece_H by assumption. unfold fanH.
  unfold rpiece, const_region; cbn [pH f_p f_r f_u f_e].
  rewrite XhR_head.
  apply Hanti_at.
  - apply (fan_p_head gr pr rr ur xd0 (-1) Hgr Hpr Hrr mone_sq t tn).
  - apply (fan_rho_head gr pr rr ur xd0 (-1) Hgr Hpr Hrr mone_sq t tn).
  - apply (fan_u_head gr pr rr ur xd0 (-1) Hgr Hpr Hrr mone_sq t tn).
  - unfold sw_e. rewrite (fan_p_head gr pr rr ur xd0 (-1) Hgr Hpr Hrr mone_sq t tn), (fan_rho_head gr pr rr ur xd0 (-1) Hgr Hpr Hrr mone_sq t tn).
    reflexivity.
Qed.

Lemma fanR_tail_match : forall c e0 e1,
  pH (rpiece c xd0 t (const_region e0 px (rie_rho_star_rarefaction px pr rr gr) uxR gr)) XtR =
  pH (rpiece c xd0 t (fanR_region pl rl ul pr rr ur gr xd0 t e1)) XtR.
Proof.
  intros c e0 e1. rewrite fanR_piece_H by assumption. unfold fanH.
  unfold rpiece, const_region; cbn [pH f_p f_r f_u f_e]. symmetry.
  rewrite XtR_tail.
  apply Hanti_at.
  - apply (fan_p_tail gr pr rr ur xd0 (-1) Hgr Hpr Hrr mone_sq px Hpx t tn).
  - apply (fan_rho_tail gr pr rr ur xd0 (-1) Hgr Hpr Hrr mone_sq px t tn).
  - rewrite uxR_ustar. apply (fan_u_tail gr pr rr ur xd0 (-1) Hgr Hpr Hrr mone_sq px t tn).
  - unfold sw_e. rewrite (fan_p_tail gr pr rr ur xd0 (-1) Hgr Hpr Hrr mone_sq px Hpx t tn), (fan_rho_tail gr pr rr ur xd0 (-1) Hgr Hpr Hrr mone_sq px t tn).
    reflexivity.
Qed.

Lemma sound_nonneg : forall p r g, 0 <= rie_sound_speed p r g.
Proof. intros. unfold rie_sound_speed. apply sqrt_pos. Qed.

Ltac fanL_obl :=
  match goal with
  | |- forall x, _ -> is_derive _ _ _ => intros ? [_ ?]; apply fanL_piece_derive; try assumption; apply fanL_inside; assumption
  | |- forall x, _ -> continuous _ _ => intros ? [_ ?]; apply fanL_piece_cont; try assumption; apply fanL_inside; assumption
  end.
Ltac fanR_obl :=
  match goal with
  | |- forall x, _ -> is_derive _ _ _ => intros ? [? _]; apply fanR_piece_derive; try assumption; apply fanR_inside; assumption
  | |- forall x, _ -> continuous _ _ => intros ? [? _]; apply fanR_piece_cont; try assumption; apply fanR_inside; assumption
  end.

Theorem rcs_conservation : forall c,
  rie_RCS_call px gl gr pl pr rl rr ul ur = 0 -> px <= pl ->
  xa <= X pl rl ul gl pr rr ur gr RCS px xd0 t 0 -> X pl rl ul gl pr rr ur gr RCS px xd0 t 3 <= xb ->
  is_RInt (sol_dens c RCS) xa xb (balance c).
Proof.
  intros c Hcall Hple Hxa Hxb.
  apply (is_RInt_ext (asm (q0 c) (map (rpiece c xd0 t) (ig_regions pl rl ul gl pr rr ur gr RCS px xd0 t)))).
  { intros x _. symmetry. apply sol_dens_asm. }
  pose proof (shockR_speed_eq px gr pl pr rl rr ul ur Hpr Hrr Hgr Hpx Hdiff) as EsR.
  pose proof (shock_fn_eq pr rr 0 gr px Hpr Hrr Hgr Hpx) as EfR.
  pose proof (shock_order pr rr gr px Hpr Hrr Hgr Hpx) as OR.
  assert (Hu : uxL = ur + rie_shock px pr rr 0 gr).
  { revert Hcall. unfold uxL, rie_RCS_call, rie_shock, rie_rarefaction. intros Hcall. lra. }
  unfold X, ig_Xregs, ig_Vregs, ig_ux, ig_ax1, ig_rx1, ig_al in Hxa, Hxb. cbn [map nth] in Hxa, Hxb.
  fold XhL in Hxa.
  evar_last.
  - apply chain_integral.
    unfold ig_regions, star1, star2, X, ig_Xregs, ig_Vregs. unfold ig_ax1, ig_ux, ig_rx1, ig_rx2, ig_al. cbn [map nth].
    fold uxL. fold XhL. fold XtL.
    unfold q0.
    apply chain_cons; [ exact Hxa | const_obl | const_obl | | ].
    { cbn [pe rpiece fanL_region edge]. apply fanL_head_match. }
    apply chain_cons; [ | | | | ].
    { cbn [pe rpiece const_region fanL_region edge]. apply fanL_order. exact Hple. }
    { cbn [pe rpiece const_region fanL_region edge]. fanL_obl. }
    { cbn [pe rpiece const_region fanL_region edge]. fanL_obl. }
    { cbn [pe rpiece const_region edge]. apply fanL_tail_match. }
    apply chain_cons; [ | const_obl | const_obl | | ].
    { cbn [pe rpiece const_region edge]. unfold XtL.
      pose proof (sound_nonneg px (rie_rho_star_rarefaction px pl rl gl) gl).
      apply Rplus_le_compat_l, Rmult_le_compat_l; lra. }
    { unfold rpiece, const_region; cbn [pH pe edge f_p f_r f_u f_e]. apply Hanti_contact. exact tn. }
    apply chain_cons; [ | const_obl | const_obl | | ].
    { cbn [pe rpiece const_region edge]. apply Rplus_le_compat_l, Rmult_le_compat_l; [ lra | ]. rewrite EsR, Hu, EfR. lra. }
    { unfold rpiece, const_region; cbn [pH pe edge f_p f_r f_u f_e].
      clear Hxa. set (ustar := uxL) in *. clearbody ustar. subst ustar.
      apply Hanti_rh; [ exact tn | ]. apply igeos_right_shock_rh_proof; assumption. }
    apply chain_nil; [ exact Hxb | const_obl | const_obl ].
  - unfold last_piece, ig_regions. cbn [map last]. unfold q0, rpiece, const_region; cbn [pH f_p f_r f_u f_e].
    unfold balance. apply Hanti_ends. exact tn.
Qed.

Theorem scr_conservation : forall c,
  rie_SCR_call px gl gr pl pr rl rr ul ur = 0 -> px <= pr ->
  xa <= X pl rl ul gl pr rr ur gr SCR px xd0 t 0 -> X pl rl ul gl pr rr ur gr SCR px xd0 t 3 <= xb ->
  is_RInt (sol_dens c SCR) xa xb (balance c).
Proof.
  intros c Hcall Hple Hxa Hxb.
  apply (is_RInt_ext (asm (q0 c) (map (rpiece c xd0 t) (ig_regions pl rl ul gl pr rr ur gr SCR px xd0 t)))).
  { intros x _. symmetry. apply sol_dens_asm. }
  pose proof (shockL_speed_eq px gl pl rl ul Hpl Hrl Hgl Hpx) as EsL.
  pose proof (shock_fn_eq pl rl 0 gl px Hpl Hrl Hgl Hpx) as EfL.
  pose proof (shock_order pl rl gl px Hpl Hrl Hgl Hpx) as OL.
  assert (Hu : ul + -1 * rie_shock px pl rl 0 gl = uxR).
  { revert Hcall. unfold uxR, rie_SCR_call, rie_shock, rie_rarefaction. intros Hcall. lra. }
  unfold X, ig_Xregs, ig_Vregs, ig_ux, ig_ax2, ig_rx2, ig_ar in Hxa, Hxb. cbn [map nth] in Hxa, Hxb.
  fold XhR in Hxb.
  evar_last.
  - apply chain_integral.
    unfold ig_regions, star1, star2, X, ig_Xregs, ig_Vregs. unfold ig_ax2, ig_ux, ig_rx1, ig_rx2, ig_ar. cbn [map nth].
    fold XhR. rewrite Hu. fold XtR.
    unfold q0.
    apply chain_cons; [ exact Hxa | const_obl | const_obl | | ].
    { unfold rpiece, const_region; cbn [pH pe edge f_p f_r f_u f_e]. rewrite <- Hu.
      apply Hanti_rh; [ exact tn | ]. apply igeos_left_shock_rh_proof; assumption. }
    apply chain_cons; [ | const_obl | const_obl | | ].
    { cbn [pe rpiece const_region edge]. apply Rplus_le_compat_l, Rmult_le_compat_l; [ lra | ]. rewrite <- Hu, EsL, EfL. lra. }
    { unfold rpiece, const_region; cbn [pH pe edge f_p f_r f_u f_e]. apply Hanti_contact. exact tn. }
    apply chain_cons; [ | const_obl | const_obl | | ].
    { cbn [pe rpiece const_region fanR_region edge]. unfold XtR.
      pose proof (sound_nonneg px (rie_rho_star_rarefaction px pr rr gr) gr).
      apply Rplus_le_compat_l, Rmult_le_compat_l; lra. }
    { cbn [pe rpiece fanR_region edge]. apply fanR_tail_match. }
    apply chain_cons; [ | | | | ].
    { cbn [pe rpiece const_region fanR_region edge]. apply fanR_order. exact Hple. }
    { cbn [pe rpiece const_region fanR_region edge]. fanR_obl. }
    { cbn [pe rpiece const_region fanR_region edge]. fanR_obl. }
    { cbn [pe rpiece const_region edge]. apply fanR_head_match. }
    apply chain_nil; [ exact Hxb | const_obl | const_obl ].
  - unfold last_piece, ig_regions. cbn [map last]. unfold q0, rpiece, const_region; cbn [pH f_p f_r f_u f_e].
    unfold balance. apply Hanti_ends. exact tn.
Qed.

Theorem rcr_conservation : forall c,
  rie_RCR_call px gl gr pl pr rl rr ul ur = 0 -> px <= pl -> px <= pr ->
  xa <= X pl rl ul gl pr rr ur gr RCR px xd0 t 0 -> X pl rl ul gl pr rr ur gr RCR px xd0 t 4 <= xb ->
  is_RInt (sol_dens c RCR) xa xb (balance c).
Proof.
  intros c Hcall Hplel Hpler Hxa Hxb.
  apply (is_RInt_ext (asm (q0 c) (map (rpiece c xd0 t) (ig_regions pl rl ul gl pr rr ur gr RCR px xd0 t)))).
  { intros x _. symmetry. apply sol_dens_asm. }
  assert (Hu : uxL = uxR).
  { revert Hcall. unfold uxL, uxR, rie_RCR_call, rie_rarefaction. intros Hcall. lra. }
  unfold X, ig_Xregs, ig_Vregs, ig_ux, ig_ax1, ig_ax2, ig_rx1, ig_rx2, ig_al, ig_ar in Hxa, Hxb. cbn [map nth] in Hxa, Hxb.
  fold XhL in Hxa. fold XhR in Hxb.
  evar_last.
  - apply chain_integral.
    unfold ig_regions, star1, star2, X, ig_Xregs, ig_Vregs. unfold ig_ax1, ig_ax2, ig_ux, ig_rx1, ig_rx2, ig_al, ig_ar. cbn [map nth].
    fold uxL. fold XhL. fold XtL. fold XhR.
    unfold q0.
    apply chain_cons; [ exact Hxa | const_obl | const_obl | | ].
    { cbn [pe rpiece fanL_region edge]. apply fanL_head_match. }
    apply chain_cons; [ | | | | ].
    { cbn [pe rpiece const_region fanL_region edge]. apply fanL_order. exact Hplel. }
    { cbn [pe rpiece const_region fanL_region edge]. fanL_obl. }
    { cbn [pe rpiece const_region fanL_region edge]. fanL_obl. }
    { cbn [pe rpiece const_region edge]. apply fanL_tail_match. }
    apply chain_cons; [ | const_obl | const_obl | | ].
    { cbn [pe rpiece const_region edge]. unfold XtL.
      pose proof (sound_nonneg px (rie_rho_star_rarefaction px pl rl gl) gl).
      apply Rplus_le_compat_l, Rmult_le_compat_l; lra. }
    { unfold rpiece, const_region; cbn [pH pe edge f_p f_r f_u f_e]. apply Hanti_contact. exact tn. }
    rewrite Hu. fold XtR.
    apply chain_cons; [ | const_obl | const_obl | | ].
    { cbn [pe rpiece const_region fanR_region edge]. unfold XtR.
      pose proof (sound_nonneg px (rie_rho_star_rarefaction px pr rr gr) gr).
      apply Rplus_le_compat_l, Rmult_le_compat_l; lra. }
    { cbn [pe rpiece fanR_region edge]. apply fanR_tail_match. }
    apply chain_cons; [ | | | | ].
    { cbn [pe rpiece const_region fanR_region edge]. apply fanR_order. exact Hpler. }
    { cbn [pe rpiece const_region fanR_region edge]. fanR_obl. }
    { cbn [pe rpiece const_region fanR_region edge]. fanR_obl. }
    { cbn [pe rpiece const_region edge]. apply fanR_head_match. }
    apply chain_nil; [ exact Hxb | const_obl | const_obl ].
  - unfold last_piece, ig_regions. cbn [map last]. unfold q0, rpiece, const_region; cbn [pH f_p f_r f_u f_e].
    unfold balance. apply Hanti_ends. exact tn.
Qed.
End Patterns.

Lemma igeos_conservation_proof :
  forall (pl rl ul gl pr rr ur gr px xd0 t xa xb : R) (pat : pattern) (c : comp),
    0 < pl -> 0 < rl -> 1 < gl -> 0 < pr -> 0 < rr -> 1 < gr -> 0 < px -> 0 < t ->
    ~ (pr = pl /\ ur = ul /\ rr = rl) ->
    pat <> RCVCR ->
    ig_call pl rl ul gl pr rr ur gr pat px = 0 ->
    ((pat = RCS \/ pat = RCR) -> px <= pl) ->
    ((pat = SCR \/ pat = RCR) -> px <= pr) ->
    List.Forall (fun Xw => xa <= Xw <= xb) (ig_Xregs pl rl ul gl pr rr ur gr pat px xd0 t) ->
    is_RInt (sol_dens pl rl ul gl pr rr ur gr px xd0 t c pat) xa xb
            (balance pl rl ul gl pr rr ur gr xd0 t xa xb c).
Proof.
  intros pl rl ul gl pr rr ur gr px xd0 t xa xb pat c Hpl Hrl Hgl Hpr Hrr Hgr Hpx Ht Hd Hpat Hcall HL HR HX.
  destruct pat; try (exfalso; apply Hpat; reflexivity); cbn [ig_call] in Hcall;
    unfold ig_Xregs, ig_Vregs in HX; cbn [map] in HX;
    repeat match goal with H : List.Forall _ (_ :: _) |- _ => inversion H; clear H; subst end.
  - apply scs_conservation; try assumption; unfold X, ig_Xregs, ig_Vregs; cbn [map nth]; tauto.
  - apply scr_conservation; try assumption; try (apply HR; auto); unfold X, ig_Xregs, ig_Vregs; cbn [map nth]; tauto.
  - apply rcs_conservation; try assumption; try (apply HL; auto); unfold X, ig_Xregs, ig_Vregs; cbn [map nth]; tauto.
  - apply rcr_conservation; try assumption; try (apply HL; auto); try (apply HR; auto); unfold X, ig_Xregs, ig_Vregs; cbn [map nth]; tauto.
Qed.

Lemma igeos_nonvacuous_proof :
  ig_call 2 (1/2) (1/2) 3 2 (1/2) (-1/2) 3 SCS 3 = 0 /\ ~ ((2:R) = 2 /\ (-1/2:R) = 1/2 /\ (1/2:R) = 1/2).
Proof.
  split; [ | intros (_ & H & _); lra ].
  cbn [ig_call]. unfold rie_SCS_call.
  replace (2 / (3 + 1) / (1 / 2) / (3 + (3 - 1) / (3 + 1) * 2)) with (/ 2 * / 2) by field.
  rewrite sqrt_square by lra. field.
Qed.

(* ---- with the pattern chosen by the driver's own if/elif chain the fan-side hypotheses are theorems (C17) ---- *)
From EP Require Import proofs.C17_riemann.

Lemma igeos_conservation_classified_proof :
  forall (pl rl ul gl pr rr ur gr px xd0 t xa xb : R) (c : comp),
    0 < pl -> 0 < rl -> 1 < gl -> 0 < pr -> 0 < rr -> 1 < gr -> 0 < px -> 0 < t ->
    ~ (pr = pl /\ ur = ul /\ rr = rl) ->
    let pat := ig_classify pl rl ul gl pr rr ur gr in
    pat <> RCVCR ->
    ig_call pl rl ul gl pr rr ur gr pat px = 0 ->
    List.Forall (fun Xw => xa <= Xw <= xb) (ig_Xregs pl rl ul gl pr rr ur gr pat px xd0 t) ->
    is_RInt (sol_dens pl rl ul gl pr rr ur gr px xd0 t c pat) xa xb
            (balance pl rl ul gl pr rr ur gr xd0 t xa xb c).
Proof.
  intros pl rl ul gl pr rr ur gr px xd0 t xa xb c Hpl Hrl Hgl Hpr Hrr Hgr Hpx Ht Hd pat Hpat Hcall HX.
  destruct (classification_admissible pl rl ul gl pr rr ur gr px Hpl Hrl Hgl Hpr Hrr Hgr Hpx Hpat Hcall) as (_ & HLf & _ & HRf).
  apply igeos_conservation_proof; try assumption; intros H; first [ apply HLf; exact H | apply HRf; exact H ].
Qed.
