(* C03 for the escape of HE products: in every region the returned pressure, density and sound speed are those of the gamma = 3 product gas on the
   CJ isentrope: cs^2 rho = 3 p (sound speed of a gamma-law gas with gamma = 3) and 256 rho_0^2 p = 27 D^2 rho^3 (one isentrope for all five regions,
   the one through the CJ state rho_cj = 4/3 rho_0, p_cj = rho_0 D^2 / 4); stated without division so that the vacuum edge of region II (clamped sound
   speed 0) is included.  The specific internal energy is p / (rho (gamma - 1)) with the user's gamma (the constructor enforces gamma = 3). *)
From Coq Require Import Reals Lra.
From EP Require Import lib.Base gen.Ehep.
Open Scope R_scope.

Lemma ehep_gas_generic : forall c D_ rho_0, D_ <> 0 ->
  let rho := 16 / 9 * rho_0 * c / D_ in
  let p := 16 / 27 * rho_0 * D_ ^ 2 * (c / D_) ^ 3 in
  c ^ 2 * rho = 3 * p /\ 256 * rho_0 ^ 2 * p = 27 * D_ ^ 2 * rho ^ 3.
Proof. intros c D_ rho_0 HD. cbv zeta. split; field; exact HD. Qed.

Lemma ehep_eos_proof : forall x t D_ rho_0 up xtilde ttilde, D_ <> 0 ->
  (ehep_I_cs x t D_ ^ 2 * ehep_I_rho x t D_ rho_0 = 3 * ehep_I_p x t D_ rho_0 /\
   256 * rho_0 ^ 2 * ehep_I_p x t D_ rho_0 = 27 * D_ ^ 2 * ehep_I_rho x t D_ rho_0 ^ 3) /\
  (ehep_II_cs x t xtilde ttilde ^ 2 * ehep_II_rho x t D_ rho_0 xtilde ttilde = 3 * ehep_II_p x t D_ rho_0 xtilde ttilde /\
   256 * rho_0 ^ 2 * ehep_II_p x t D_ rho_0 xtilde ttilde = 27 * D_ ^ 2 * ehep_II_rho x t D_ rho_0 xtilde ttilde ^ 3) /\
  (ehep_III_cs D_ up ^ 2 * ehep_III_rho D_ rho_0 up = 3 * ehep_III_p D_ rho_0 up /\
   256 * rho_0 ^ 2 * ehep_III_p D_ rho_0 up = 27 * D_ ^ 2 * ehep_III_rho D_ rho_0 up ^ 3) /\
  (ehep_IV_cs x t D_ up xtilde ^ 2 * ehep_IV_rho x t D_ rho_0 up xtilde = 3 * ehep_IV_p x t D_ rho_0 up xtilde /\
   256 * rho_0 ^ 2 * ehep_IV_p x t D_ rho_0 up xtilde = 27 * D_ ^ 2 * ehep_IV_rho x t D_ rho_0 up xtilde ^ 3) /\
  (ehep_V_cs t D_ up ttilde ^ 2 * ehep_V_rho t D_ rho_0 up ttilde = 3 * ehep_V_p t D_ rho_0 up ttilde /\
   256 * rho_0 ^ 2 * ehep_V_p t D_ rho_0 up ttilde = 27 * D_ ^ 2 * ehep_V_rho t D_ rho_0 up ttilde ^ 3).
Proof.
  intros x t D_ rho_0 up xtilde ttilde HD.
  repeat split.
  - exact (proj1 (ehep_gas_generic (ehep_I_cs x t D_) D_ rho_0 HD)).
  - exact (proj2 (ehep_gas_generic (ehep_I_cs x t D_) D_ rho_0 HD)).
  - exact (proj1 (ehep_gas_generic (ehep_II_cs x t xtilde ttilde) D_ rho_0 HD)).
  - exact (proj2 (ehep_gas_generic (ehep_II_cs x t xtilde ttilde) D_ rho_0 HD)).
  - exact (proj1 (ehep_gas_generic (ehep_III_cs D_ up) D_ rho_0 HD)).
  - exact (proj2 (ehep_gas_generic (ehep_III_cs D_ up) D_ rho_0 HD)).
  - exact (proj1 (ehep_gas_generic (ehep_IV_cs x t D_ up xtilde) D_ rho_0 HD)).
  - exact (proj2 (ehep_gas_generic (ehep_IV_cs x t D_ up xtilde) D_ rho_0 HD)).
  - exact (proj1 (ehep_gas_generic (ehep_V_cs t D_ up ttilde) D_ rho_0 HD)).
  - exact (proj2 (ehep_gas_generic (ehep_V_cs t D_ up ttilde) D_ rho_0 HD)).
Qed.

Lemma ehep_sie_eos_proof : forall gamma p rho, rho <> 0 -> gamma <> 1 -> p = (gamma - 1) * rho * ehep_sie gamma p rho.
Proof. intros. unfold ehep_sie. field. split; lra. Qed.
