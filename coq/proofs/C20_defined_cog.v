(* C20: definedness of the Coggeshall closed forms inside their documented domain (generated statements, dev/mk_c20_defined.py). *)
From Coq Require Import Reals Lra Psatz.
From EP Require Import lib.Base lib.Tactics lib.Defined gen.Cog2 gen.Cog3 gen.Cog4 gen.Cog5 gen.Cog6 gen.Cog8 gen.Cog9 gen.Cog10 gen.Cog11 gen.Cog12 gen.Cog13 gen.Cog14 gen.Cog16 gen.Cog17 gen.Cog18 gen.Cog21.
Open Scope R_scope.

Lemma cog2_defined_proof : forall geometry gamma rho0 b Gamma r t,
  cog2_defined_params geometry gamma rho0 b Gamma -> rho0 <> 0 -> 0 < r -> 0 < t ->
  cog2_defined geometry gamma rho0 b Gamma r t.
Proof. intros geometry gamma rho0 b Gamma r t HP HM0 Hr Ht. unfold cog2_defined, cog2_defined_params in *. defined_solve. Qed.

Lemma cog3_defined_proof : forall geometry rho0 b v Gamma r t,
  cog3_defined_params geometry rho0 b v Gamma -> rho0 <> 0 -> 0 < r -> 0 < t ->
  cog3_defined geometry rho0 b v Gamma r t.
Proof. intros geometry rho0 b v Gamma r t HP HM0 Hr Ht. unfold cog3_defined, cog3_defined_params in *. defined_solve. Qed.

Lemma cog4_defined_proof : forall geometry gamma rho0 u0 Gamma r t,
  cog4_defined_params geometry gamma rho0 u0 Gamma -> rho0 <> 0 -> 0 < r -> 0 < t ->
  cog4_defined geometry gamma rho0 u0 Gamma r t.
Proof. intros geometry gamma rho0 u0 Gamma r t HP HM0 Hr Ht. unfold cog4_defined, cog4_defined_params in *. defined_solve. Qed.

Lemma cog5_defined_proof : forall rho0 u0 Gamma r t,
  cog5_defined_params rho0 u0 Gamma -> rho0 <> 0 -> 0 < r -> 0 < t ->
  cog5_defined rho0 u0 Gamma r t.
Proof. intros rho0 u0 Gamma r t HP HM0 Hr Ht. unfold cog5_defined, cog5_defined_params in *. defined_solve. Qed.

Lemma cog6_defined_proof : forall geometry rho0 tau b Gamma r t,
  cog6_defined_params geometry rho0 tau b Gamma -> rho0 <> 0 -> 0 < r -> 0 < t -> t < tau ->
  cog6_defined geometry rho0 tau b Gamma r t.
Proof. intros geometry rho0 tau b Gamma r t HP HM0 Hr Ht Htau. unfold cog6_defined, cog6_defined_params in *. defined_solve. Qed.

Lemma cog8_defined_proof : forall geometry gamma alpha beta rho0 temp0 Gamma r t,
  cog8_defined_params geometry gamma alpha beta rho0 temp0 Gamma -> rho0 <> 0 -> 0 < r -> 0 < t ->
  cog8_defined geometry gamma alpha beta rho0 temp0 Gamma r t.
Proof. intros geometry gamma alpha beta rho0 temp0 Gamma r t HP HM0 Hr Ht. unfold cog8_defined, cog8_defined_params in *. defined_solve. Qed.

Lemma cog9_defined_proof : forall geometry gamma alpha beta rho0 Gamma r t,
  cog9_defined_params geometry gamma alpha beta rho0 Gamma -> rho0 <> 0 -> 0 < r -> 0 < t ->
  cog9_defined geometry gamma alpha beta rho0 Gamma r t.
Proof. intros geometry gamma alpha beta rho0 Gamma r t HP HM0 Hr Ht. unfold cog9_defined, cog9_defined_params in *. defined_solve. Qed.

Lemma cog10_defined_proof : forall geometry gamma beta lambda0 rho0 temp0 Gamma r t,
  cog10_defined_params geometry gamma beta lambda0 rho0 temp0 Gamma -> rho0 <> 0 -> 0 < r -> 0 < t ->
  cog10_defined geometry gamma beta lambda0 rho0 temp0 Gamma r t.
Proof. intros geometry gamma beta lambda0 rho0 temp0 Gamma r t HP HM0 Hr Ht. unfold cog10_defined, cog10_defined_params in *. defined_solve. Qed.

Lemma cog11_defined_proof : forall geometry gamma beta rho0 temp0 Gamma r t,
  cog11_defined_params geometry gamma beta rho0 temp0 Gamma -> rho0 <> 0 -> 0 < r -> 0 < t ->
  cog11_defined geometry gamma beta rho0 temp0 Gamma r t.
Proof. intros geometry gamma beta rho0 temp0 Gamma r t HP HM0 Hr Ht. unfold cog11_defined, cog11_defined_params in *. defined_solve. Qed.

Lemma cog12_defined_proof : forall geometry gamma beta rho0 u0 Gamma r t,
  cog12_defined_params geometry gamma beta rho0 u0 Gamma -> rho0 <> 0 -> 0 < r -> 0 < t ->
  cog12_defined geometry gamma beta rho0 u0 Gamma r t.
Proof. intros geometry gamma beta rho0 u0 Gamma r t HP HM0 Hr Ht. unfold cog12_defined, cog12_defined_params in *. defined_solve. Qed.

Lemma cog13_defined_proof : forall geometry gamma rho0 alpha beta lambda0 Gamma r t,
  cog13_defined_params geometry gamma rho0 alpha beta lambda0 Gamma -> rho0 <> 0 -> 0 < r -> 0 < t ->
  cog13_defined geometry gamma rho0 alpha beta lambda0 Gamma r t.
Proof. intros geometry gamma rho0 alpha beta lambda0 Gamma r t HP HM0 Hr Ht. unfold cog13_defined, cog13_defined_params in *. defined_solve. Qed.

Lemma cog14_defined_proof : forall geometry gamma rho0 alpha beta lambda0 Gamma r t,
  cog14_defined_params geometry gamma rho0 alpha beta lambda0 Gamma -> rho0 <> 0 -> 0 < r -> 0 < t ->
  cog14_defined geometry gamma rho0 alpha beta lambda0 Gamma r t.
Proof. intros geometry gamma rho0 alpha beta lambda0 Gamma r t HP HM0 Hr Ht. unfold cog14_defined, cog14_defined_params in *. defined_solve. Qed.

Lemma cog16_defined_proof : forall geometry gamma u0 b lambda0 Gamma r t,
  cog16_defined_params geometry gamma u0 b lambda0 Gamma -> 0 < r -> 0 < t ->
  cog16_defined geometry gamma u0 b lambda0 Gamma r t.
Proof. intros geometry gamma u0 b lambda0 Gamma r t HP  Hr Ht. unfold cog16_defined, cog16_defined_params in *. defined_solve. Qed.

Lemma cog17_defined_proof : forall geometry gamma alpha beta lambda0 Gamma r t,
  cog17_defined_params geometry gamma alpha beta lambda0 Gamma -> 0 < r -> 0 < t ->
  cog17_defined geometry gamma alpha beta lambda0 Gamma r t.
Proof. intros geometry gamma alpha beta lambda0 Gamma r t HP  Hr Ht. unfold cog17_defined, cog17_defined_params in *. defined_solve. Qed.

Lemma cog18_defined_proof : forall geometry alpha beta rho0 tau Gamma r t,
  cog18_defined_params geometry alpha beta rho0 tau Gamma -> rho0 <> 0 -> 0 < r -> 0 < t -> t < tau ->
  cog18_defined geometry alpha beta rho0 tau Gamma r t.
Proof. intros geometry alpha beta rho0 tau Gamma r t HP HM0 Hr Ht Htau. unfold cog18_defined, cog18_defined_params in *. defined_solve. Qed.

Lemma cog21_defined_proof : forall rho0 temp0 Gamma r t,
  cog21_defined_params rho0 temp0 Gamma -> rho0 <> 0 -> Gamma <> 0 -> temp0 <> 0 -> 0 < r -> 0 < t ->
  cog21_defined rho0 temp0 Gamma r t.
Proof. intros rho0 temp0 Gamma r t HP HM0 HM1 HM2 Hr Ht. unfold cog21_defined, cog21_defined_params in *. defined_solve. Qed.

(* non-vacuity: the class defaults satisfy the parameter-only conjuncts *)
From Interval Require Import Tactic.
Lemma cog2_defaults_defined_proof : cog2_defined_params cog2_default_geometry cog2_default_gamma cog2_default_rho0 cog2_default_b cog2_default_Gamma.
Proof. unfold cog2_defined_params, cog2_default_geometry, cog2_default_gamma, cog2_default_rho0, cog2_default_b, cog2_default_Gamma. repeat split; try lra; try interval; try (apply Rlt_gt, exp_pos). Qed.

Lemma cog3_defaults_defined_proof : cog3_defined_params cog3_default_geometry cog3_default_rho0 cog3_default_b cog3_default_v cog3_default_Gamma.
Proof. unfold cog3_defined_params, cog3_default_geometry, cog3_default_rho0, cog3_default_b, cog3_default_v, cog3_default_Gamma. repeat split; try lra; try interval; try (apply Rlt_gt, exp_pos). Qed.

Lemma cog4_defaults_defined_proof : cog4_defined_params cog4_default_geometry cog4_default_gamma cog4_default_rho0 cog4_default_u0 cog4_default_Gamma.
Proof. unfold cog4_defined_params, cog4_default_geometry, cog4_default_gamma, cog4_default_rho0, cog4_default_u0, cog4_default_Gamma. repeat split; try lra; try interval; try (apply Rlt_gt, exp_pos). Qed.

Lemma cog5_defaults_defined_proof : cog5_defined_params cog5_default_rho0 cog5_default_u0 cog5_default_Gamma.
Proof. unfold cog5_defined_params, cog5_default_rho0, cog5_default_u0, cog5_default_Gamma. repeat split; try lra; try interval; try (apply Rlt_gt, exp_pos). Qed.

Lemma cog6_defaults_defined_proof : cog6_defined_params cog6_default_geometry cog6_default_rho0 cog6_default_tau cog6_default_b cog6_default_Gamma.
Proof. unfold cog6_defined_params, cog6_default_geometry, cog6_default_rho0, cog6_default_tau, cog6_default_b, cog6_default_Gamma. repeat split; try lra; try interval; try (apply Rlt_gt, exp_pos). Qed.

Lemma cog8_defaults_defined_proof : cog8_defined_params cog8_default_geometry cog8_default_gamma cog8_default_alpha cog8_default_beta cog8_default_rho0 cog8_default_temp0 cog8_default_Gamma.
Proof. unfold cog8_defined_params, cog8_default_geometry, cog8_default_gamma, cog8_default_alpha, cog8_default_beta, cog8_default_rho0, cog8_default_temp0, cog8_default_Gamma. repeat split; try lra; try interval; try (apply Rlt_gt, exp_pos). Qed.

Lemma cog9_defaults_defined_proof : cog9_defined_params cog9_default_geometry cog9_default_gamma cog9_default_alpha cog9_default_beta cog9_default_rho0 cog9_default_Gamma.
Proof. unfold cog9_defined_params, cog9_default_geometry, cog9_default_gamma, cog9_default_alpha, cog9_default_beta, cog9_default_rho0, cog9_default_Gamma. repeat split; try lra; try interval; try (apply Rlt_gt, exp_pos). Qed.

Lemma cog10_defaults_defined_proof : cog10_defined_params cog10_default_geometry cog10_default_gamma cog10_default_beta cog10_default_lambda0 cog10_default_rho0 cog10_default_temp0 cog10_default_Gamma.
Proof. unfold cog10_defined_params, cog10_default_geometry, cog10_default_gamma, cog10_default_beta, cog10_default_lambda0, cog10_default_rho0, cog10_default_temp0, cog10_default_Gamma. repeat split; try lra; try interval; try (apply Rlt_gt, exp_pos). Qed.

Lemma cog11_defaults_defined_proof : cog11_defined_params cog11_default_geometry cog11_default_gamma cog11_default_beta cog11_default_rho0 cog11_default_temp0 40.
Proof. unfold cog11_defined_params, cog11_default_geometry, cog11_default_gamma, cog11_default_beta, cog11_default_rho0, cog11_default_temp0. repeat split; try lra; try interval; try (apply Rlt_gt, exp_pos). Qed.

Lemma cog12_defaults_defined_proof : cog12_defined_params cog12_default_geometry cog12_default_gamma cog12_default_beta cog12_default_rho0 cog12_default_u0 cog12_default_Gamma.
Proof. unfold cog12_defined_params, cog12_default_geometry, cog12_default_gamma, cog12_default_beta, cog12_default_rho0, cog12_default_u0, cog12_default_Gamma. repeat split; try lra; try interval; try (apply Rlt_gt, exp_pos). Qed.

Lemma cog13_defaults_defined_proof : cog13_defined_params cog13_default_geometry cog13_default_gamma cog13_default_rho0 cog13_default_alpha cog13_default_beta cog13_default_lambda0 cog13_default_Gamma.
Proof. unfold cog13_defined_params, cog13_default_geometry, cog13_default_gamma, cog13_default_rho0, cog13_default_alpha, cog13_default_beta, cog13_default_lambda0, cog13_default_Gamma. repeat split; try lra; try interval; try (apply Rlt_gt, exp_pos). Qed.

Lemma cog14_defaults_defined_proof : cog14_defined_params cog14_default_geometry cog14_default_gamma cog14_default_rho0 cog14_default_alpha cog14_default_beta cog14_default_lambda0 cog14_default_Gamma.
Proof. unfold cog14_defined_params, cog14_default_geometry, cog14_default_gamma, cog14_default_rho0, cog14_default_alpha, cog14_default_beta, cog14_default_lambda0, cog14_default_Gamma. repeat split; try lra; try interval; try (apply Rlt_gt, exp_pos). Qed.

Lemma cog16_defaults_defined_proof : cog16_defined_params cog16_default_geometry cog16_default_gamma cog16_default_u0 cog16_default_b cog16_default_lambda0 cog16_default_Gamma.
Proof. unfold cog16_defined_params, cog16_default_geometry, cog16_default_gamma, cog16_default_u0, cog16_default_b, cog16_default_lambda0, cog16_default_Gamma. repeat split; try lra; try interval; try (apply Rlt_gt, exp_pos). Qed.

Lemma cog18_defaults_defined_proof : cog18_defined_params cog18_default_geometry cog18_default_alpha cog18_default_beta cog18_default_rho0 cog18_default_tau cog18_default_Gamma.
Proof. unfold cog18_defined_params, cog18_default_geometry, cog18_default_alpha, cog18_default_beta, cog18_default_rho0, cog18_default_tau, cog18_default_Gamma. repeat split; try lra; try interval; try (apply Rlt_gt, exp_pos). Qed.

Lemma cog21_defaults_defined_proof : cog21_defined_params cog21_default_rho0 cog21_default_temp0 cog21_default_Gamma.
Proof. unfold cog21_defined_params, cog21_default_rho0, cog21_default_temp0, cog21_default_Gamma. repeat split; try lra; try interval; try (apply Rlt_gt, exp_pos). Qed.
