(* C08 / C10 for the ideal-gas Riemann solver: the star-pressure equations are homogeneous under a change
   of pressure/density units (so their roots, the star states and the wave speeds scale), and the fan
   formulas depend on (x - xd0)/t only. *)
From Coq Require Import Reals Lra Psatz.
From EP Require Import lib.Base lib.Tactics gen.Riemann.
Open Scope R_scope.

Lemma sqrt_scale : forall v x, 0 < v -> 0 <= x -> sqrt (v * v * x) = v * sqrt x.
Proof.
  intros v x Hv Hx. rewrite sqrt_mult; [ | nra | lra ]. rewrite sqrt_square; lra.
Qed.

Section Units.
(* pi: pressure unit factor, ro: density unit factor, v = sqrt(pi/ro): velocity unit factor *)
Variables pi ro v : R.
Hypothesis Hpi : 0 < pi.
Hypothesis Hro : 0 < ro.
Hypothesis Hv : 0 < v.
Hypothesis Hv2 : v * v = pi / ro.

Lemma sound_speed_units : forall p r g, 0 < p -> 0 < r -> 0 < g ->
  rie_sound_speed (pi * p) (ro * r) g = v * rie_sound_speed p r g.
Proof.
  intros p r g Hp Hr Hg. unfold rie_sound_speed.
  replace (g * (pi * p) / (ro * r)) with (v * v * (g * p / r)) by (rewrite Hv2; field; lra).
  apply sqrt_scale; [ exact Hv | ]. apply Rlt_le. apply Rdiv_lt_0_compat; nra.
Qed.

Lemma shock_units : forall px p r u g, 0 < px -> 0 < p -> 0 < r -> 1 < g ->
  rie_shock (pi * px) (pi * p) (ro * r) (v * u) g = v * rie_shock px p r u g.
Proof.
  intros px p r u g Hpx Hp Hr Hg. unfold rie_shock.
  assert (HB : 0 < px + (g - 1) / (g + 1) * p).
  { assert (0 < (g - 1) / (g + 1)) by (apply Rdiv_lt_0_compat; lra). nra. }
  replace (2 / (g + 1) / (ro * r) / (pi * px + (g - 1) / (g + 1) * (pi * p)))
    with (/ (v * v) * / (pi * pi) * (v * v * (v * v)) * (2 / (g + 1) / r / (px + (g - 1) / (g + 1) * p))).
  2:{ rewrite Hv2. assert (0 < px * (g + 1) + (g - 1) * p) by nra. assert (0 < pi * px * (g + 1) + (g - 1) * (pi * p)) by nra.
      field. repeat split; try lra; try nra. }
  replace (/ (v * v) * / (pi * pi) * (v * v * (v * v))) with ((v / pi) * (v / pi)) by (field; lra).
  rewrite sqrt_scale.
  - field. lra.
  - apply Rdiv_lt_0_compat; lra.
  - apply Rlt_le. apply Rdiv_lt_0_compat; [ apply Rdiv_lt_0_compat; [ apply Rdiv_lt_0_compat; lra | lra ] | exact HB ].
Qed.

Lemma rarefaction_units : forall px p r u g, 0 < px -> 0 < p -> 0 < r -> 1 < g ->
  rie_rarefaction (pi * px) (pi * p) (ro * r) (v * u) g = v * rie_rarefaction px p r u g.
Proof.
  intros px p r u g Hpx Hp Hr Hg. unfold rie_rarefaction.
  replace (sqrt (g * (pi * p) / (ro * r))) with (v * sqrt (g * p / r)).
  2:{ symmetry. replace (g * (pi * p) / (ro * r)) with (v * v * (g * p / r)) by (rewrite Hv2; field; lra).
      apply sqrt_scale; [ exact Hv | ]. apply Rlt_le. apply Rdiv_lt_0_compat; nra. }
  replace (pi * px / (pi * p)) with (px / p) by (field; lra).
  field. lra.
Qed.

Lemma calls_units_proof : forall px gl gr pl pr rl rr ul ur,
  0 < px -> 0 < pl -> 0 < pr -> 0 < rl -> 0 < rr -> 1 < gl -> 1 < gr ->
  rie_SCS_call (pi * px) gl gr (pi * pl) (pi * pr) (ro * rl) (ro * rr) (v * ul) (v * ur) = v * rie_SCS_call px gl gr pl pr rl rr ul ur /\
  rie_SCR_call (pi * px) gl gr (pi * pl) (pi * pr) (ro * rl) (ro * rr) (v * ul) (v * ur) = v * rie_SCR_call px gl gr pl pr rl rr ul ur /\
  rie_RCS_call (pi * px) gl gr (pi * pl) (pi * pr) (ro * rl) (ro * rr) (v * ul) (v * ur) = v * rie_RCS_call px gl gr pl pr rl rr ul ur /\
  rie_RCR_call (pi * px) gl gr (pi * pl) (pi * pr) (ro * rl) (ro * rr) (v * ul) (v * ur) = v * rie_RCR_call px gl gr pl pr rl rr ul ur.
Proof.
  intros px gl gr pl pr rl rr ul ur Hpx Hpl Hpr Hrl Hrr Hgl Hgr.
  pose proof (shock_units px pl rl) as SL. pose proof (shock_units px pr rr) as SR.
  pose proof (rarefaction_units px pl rl) as RL. pose proof (rarefaction_units px pr rr) as RR.
  assert (E1 : forall p r u g, rie_shock px p r u g = rie_shock px p r 0 g + u) by (intros; unfold rie_shock; ring).
  assert (E2 : forall p r u g, rie_rarefaction px p r u g = rie_rarefaction px p r 0 g + u) by (intros; unfold rie_rarefaction; ring).
  assert (E1' : forall p r u g, rie_shock (pi * px) p r u g = rie_shock (pi * px) p r 0 g + u) by (intros; unfold rie_shock; ring).
  assert (E2' : forall p r u g, rie_rarefaction (pi * px) p r u g = rie_rarefaction (pi * px) p r 0 g + u) by (intros; unfold rie_rarefaction; ring).
  assert (S0L : rie_shock (pi * px) (pi * pl) (ro * rl) 0 gl = v * rie_shock px pl rl 0 gl)
    by (replace 0 with (v * 0) at 1 by ring; apply SL; assumption).
  assert (S0R : rie_shock (pi * px) (pi * pr) (ro * rr) 0 gr = v * rie_shock px pr rr 0 gr)
    by (replace 0 with (v * 0) at 1 by ring; apply SR; assumption).
  assert (R0L : rie_rarefaction (pi * px) (pi * pl) (ro * rl) 0 gl = v * rie_rarefaction px pl rl 0 gl)
    by (replace 0 with (v * 0) at 1 by ring; apply RL; assumption).
  assert (R0R : rie_rarefaction (pi * px) (pi * pr) (ro * rr) 0 gr = v * rie_rarefaction px pr rr 0 gr)
    by (replace 0 with (v * 0) at 1 by ring; apply RR; assumption).
  change (rie_SCS_call (pi * px) gl gr (pi * pl) (pi * pr) (ro * rl) (ro * rr) (v * ul) (v * ur))
    with (rie_shock (pi * px) (pi * pr) (ro * rr) (v * ur) gr + rie_shock (pi * px) (pi * pl) (ro * rl) (- (v * ul)) gl).
  change (rie_SCS_call px gl gr pl pr rl rr ul ur) with (rie_shock px pr rr ur gr + rie_shock px pl rl (- ul) gl).
  change (rie_SCR_call (pi * px) gl gr (pi * pl) (pi * pr) (ro * rl) (ro * rr) (v * ul) (v * ur))
    with (rie_shock (pi * px) (pi * pl) (ro * rl) (- (v * ul)) gl - rie_rarefaction (pi * px) (pi * pr) (ro * rr) (- (v * ur)) gr).
  change (rie_SCR_call px gl gr pl pr rl rr ul ur) with (rie_shock px pl rl (- ul) gl - rie_rarefaction px pr rr (- ur) gr).
  change (rie_RCS_call (pi * px) gl gr (pi * pl) (pi * pr) (ro * rl) (ro * rr) (v * ul) (v * ur))
    with (rie_shock (pi * px) (pi * pr) (ro * rr) (v * ur) gr - rie_rarefaction (pi * px) (pi * pl) (ro * rl) (v * ul) gl).
  change (rie_RCS_call px gl gr pl pr rl rr ul ur) with (rie_shock px pr rr ur gr - rie_rarefaction px pl rl ul gl).
  change (rie_RCR_call (pi * px) gl gr (pi * pl) (pi * pr) (ro * rl) (ro * rr) (v * ul) (v * ur))
    with (rie_rarefaction (pi * px) (pi * pr) (ro * rr) (- (v * ur)) gr + rie_rarefaction (pi * px) (pi * pl) (ro * rl) (v * ul) gl).
  change (rie_RCR_call px gl gr pl pr rl rr ul ur) with (rie_rarefaction px pr rr (- ur) gr + rie_rarefaction px pl rl ul gl).
  repeat split.
  - rewrite (E1' (pi * pr)), (E1' (pi * pl)), (E1 pr), (E1 pl), S0L, S0R. ring.
  - rewrite (E1' (pi * pl)), (E2' (pi * pr)), (E1 pl), (E2 pr), S0L, R0R. ring.
  - rewrite (E1' (pi * pr)), (E2' (pi * pl)), (E1 pr), (E2 pl), S0R, R0L. ring.
  - rewrite (E2' (pi * pr)), (E2' (pi * pl)), (E2 pr), (E2 pl), R0L, R0R. ring.
Qed.
End Units.

(* C10: the fan formulas depend on position and time only through (x - xd0)/t *)
Lemma fans_selfsimilar_proof : forall lam x xd0 t gl pl rl ul gr pr rr ur, 0 < lam -> t <> 0 ->
  rie_fanL_rho (xd0 + lam * (x - xd0)) xd0 (lam * t) gl pl rl ul = rie_fanL_rho x xd0 t gl pl rl ul /\
  rie_fanL_p (xd0 + lam * (x - xd0)) xd0 (lam * t) gl pl rl ul = rie_fanL_p x xd0 t gl pl rl ul /\
  rie_fanL_u (xd0 + lam * (x - xd0)) xd0 (lam * t) gl pl rl ul = rie_fanL_u x xd0 t gl pl rl ul /\
  rie_fanR_rho (xd0 + lam * (x - xd0)) xd0 (lam * t) gr pl pr rl rr ul ur = rie_fanR_rho x xd0 t gr pl pr rl rr ul ur /\
  rie_fanR_p (xd0 + lam * (x - xd0)) xd0 (lam * t) gr pl pr rl rr ul ur = rie_fanR_p x xd0 t gr pl pr rl rr ul ur /\
  rie_fanR_u (xd0 + lam * (x - xd0)) xd0 (lam * t) gr pl pr rl rr ul ur = rie_fanR_u x xd0 t gr pl pr rl rr ul ur.
Proof.
  intros lam x xd0 t gl pl rl ul gr pr rr ur Hl Ht.
  assert (E : (xd0 + lam * (x - xd0) - xd0) / (lam * t) = (x - xd0) / t) by (field; split; lra).
  unfold rie_fanL_rho, rie_fanL_p, rie_fanL_u, rie_fanR_rho, rie_fanR_p, rie_fanR_u. rewrite E.
  repeat split; reflexivity.
Qed.
