(* C01 for Coggeshall 10 (steady flow with conduction; density ~ r^-k, constant velocity, temperature ~ r^k): the heat flux is constant in r.
   K0 = 4 a c lambda0 / 3 with the constants hard-coded in the solver. *)
From Coq Require Import Reals Lra Psatz.
From Coquelicot Require Import Coquelicot.
From EP Require Import lib.Base lib.Euler lib.Tactics lib.ExpAtoms lib.SteadyPowerLaw gen.Cog10.
Open Scope R_scope.


Definition KC10 (lambda0 : R) : R := 119880000000 * lambda0 * (686 / 5) / 3.

Lemma cog10_pde_proof :
  forall geometry gamma beta lambda0 rho0 temp0 Gamma r t,
  0 < r -> geometry - 1 <> 0 -> gamma <> 1 -> gamma <> 0 -> Gamma <> 0 -> 0 < rho0 -> 0 < temp0 ->
  euler_heat_at (geometry - 1) (KC10 lambda0) (beta + 4 - 1 / (geometry - 1)) beta
    (cog10_density geometry gamma beta lambda0 rho0 temp0 Gamma)
    (cog10_velocity geometry gamma beta lambda0 rho0 temp0 Gamma)
    (cog10_temperature geometry gamma beta lambda0 rho0 temp0 Gamma)
    (cog10_pressure geometry gamma beta lambda0 rho0 temp0 Gamma)
    (cog10_specific_internal_energy geometry gamma beta lambda0 rho0 temp0 Gamma) r t.
Proof.
  intros geometry gamma beta lambda0 rho0 temp0 Gamma r t Hr Hk Hg Hg0 HG Hrho HT.
  set (k := geometry - 1) in *.
  set (al := beta + 4 - 1 / k).
  split; [ | split ].
  - unfold mass_eq; autounfold with epgen; fold k. exders. fsolveA.
  - unfold momentum_eq; autounfold with epgen; fold k. exders. fsolveA.
  - exists (fun _ _ => - KC10 lambda0 * (Rpower rho0 (al - 1) * rho0) * (Rpower temp0 (beta + 3) * temp0) * k).
    split.
    + intros r' Hr'. exists (k / r' * cog10_temperature geometry gamma beta lambda0 rho0 temp0 Gamma r' t). split.
      * unfold cog10_temperature; fold k. unfold Rpower. auto_derive; [ exact Hr' | ]. field. lra.
      * unfold cog10_density, cog10_temperature; fold k.
        rewrite (Rpower_scaled rho0 r' (- k) al Hrho Hr'), (Rpower_scaled temp0 r' k (beta + 3) HT Hr').
        replace (Rpower rho0 al) with (Rpower rho0 (al - 1) * rho0)
          by (rewrite <- (Rpower_1 rho0 Hrho) at 2; rewrite <- Rpower_plus; f_equal; ring).
        assert (Hone : Rpower r' (- k * al) * Rpower r' (k * (beta + 3)) * Rpower r' k = r').
        { rewrite <- !Rpower_plus. rewrite <- (Rpower_1 r' Hr') at 2. f_equal. unfold al. field. exact Hk. }
        transitivity (- KC10 lambda0 * (Rpower rho0 (al - 1) * rho0) * (Rpower temp0 (beta + 3) * temp0) * k *
                      ((Rpower r' (- k * al) * Rpower r' (k * (beta + 3)) * Rpower r' k) / r')).
        { rewrite Hone. field. lra. }
        field. lra.
    + unfold energy_eq; autounfold with epgen; fold k. exders.
      unfold KC10, al. fsolveA.
Qed.

(* the hypotheses are satisfiable: class defaults (geometry 3) *)
Lemma cog10_hyps_example : 0 < 1 /\ cog10_default_geometry - 1 <> 0 /\ cog10_default_gamma <> 1 /\ cog10_default_gamma <> 0 /\ cog10_default_Gamma <> 0 /\
  0 < cog10_default_rho0 /\ 0 < cog10_default_temp0.
Proof. unfold cog10_default_geometry, cog10_default_gamma, cog10_default_Gamma, cog10_default_rho0, cog10_default_temp0. repeat split; lra. Qed.
