From Coq Require Import List String Bool ZArith Lia.
From EP Require Import model.History.
Import ListNotations.
Open Scope string_scope.

Lemma agree_upd : forall w s1 s2 x v k, agree w s1 s2 -> (forall c, k = Const c -> v = c) ->
  agree ((x, k) :: w) (upd s1 x v) (upd s2 x v).
Proof.
  intros w s1 s2 x v k H Hk y k' Hl. simpl in Hl. unfold upd.
  destruct (String.eqb x y) eqn:E.
  - apply String.eqb_eq in E. subst y. rewrite String.eqb_refl. injection Hl as <-. split; [ reflexivity | exact Hk ].
  - assert (E' : String.eqb y x = false).
    { apply String.eqb_neq. apply String.eqb_neq in E. congruence. }
    rewrite E'. apply H. exact Hl.
Qed.

(* one activation: the trace of values read does not depend on the incoming store *)
Lemma dominated_trace_proof : forall compute p w s1 s2 tr,
  agree w s1 s2 -> dominated_from w p = true ->
  snd (exec compute p s1 tr) = snd (exec compute p s2 tr).
Proof.
  intros compute p. induction p as [| a r IH]; intros w s1 s2 tr Hag Hd; [ reflexivity | ].
  destruct a as [x | x | x c | g c x]; cbn [exec dominated_from] in *.
  - destruct (lookup w x) as [k|] eqn:L; [ | discriminate ].
    destruct (Hag x k L) as [E _]. rewrite E. apply (IH w); assumption.
  - apply (IH ((x, Unknown) :: w)); [ | exact Hd ].
    apply agree_upd; [ exact Hag | intros c Hc; discriminate ].
  - apply (IH ((x, Const c) :: w)); [ | exact Hd ].
    apply agree_upd; [ exact Hag | intros c' Hc; injection Hc as ->; reflexivity ].
  - destruct (lookup w g) as [kg|] eqn:Lg; [ | discriminate ].
    destruct (Hag g kg Lg) as [Eg Hc]. rewrite <- Eg.
    destruct kg as [| c'].
    + destruct (lookup w x) as [kx|] eqn:Lx; [ | discriminate ].
      destruct (Hag x kx Lx) as [Ex _]. rewrite <- Ex.
      destruct (Z.eqb (s1 g) c); apply (IH w); assumption.
    + specialize (Hc c' eq_refl). rewrite Hc.
      destruct (Z.eqb c' c) eqn:Ec.
      * destruct (lookup w x) as [kx|] eqn:Lx; [ | discriminate ].
        destruct (Hag x kx Lx) as [Ex _]. rewrite <- Ex. apply (IH w); assumption.
      * apply (IH w); assumption.
Qed.

Lemma agree_nil : forall s1 s2, agree [] s1 s2.
Proof. intros s1 s2 x k H. discriminate. Qed.

Lemma activation_independent_proof : forall compute p, dominated p = true ->
  forall s1 s2, snd (exec compute p s1 []) = snd (exec compute p s2 []).
Proof. intros compute p Hd s1 s2. apply (dominated_trace_proof compute p [] s1 s2 []); [ apply agree_nil | exact Hd ]. Qed.

(* a history: any finite sequence of activations of any dominated programs (each with its own inputs, hence
   its own `compute`), threaded through one shared store.  The trace read by the k-th activation is the one it
   would read in a fresh interpreter (empty store), whatever ran before. *)
Definition activation := ((list value -> string -> value) * list access)%type.

Fixpoint run_history (h : list activation) (st : store) : store * list (list value) :=
  match h with
  | [] => (st, [])
  | (compute, p) :: r =>
      let '(st', tr) := exec compute p st [] in
      let '(st'', trs) := run_history r st' in (st'', tr :: trs)
  end.

Definition fresh : store := fun _ => 0%Z.

Lemma history_independent_proof : forall h st,
  Forall (fun a => dominated (snd a) = true) h ->
  snd (run_history h st) = map (fun a => snd (exec (fst a) (snd a) fresh [])) h.
Proof.
  induction h as [| [compute p] r IH]; intros st HF; [ reflexivity | ].
  inversion HF as [| a l Hd Hr]; subst. cbn [run_history map fst snd].
  destruct (exec compute p st []) as [st' tr] eqn:E1.
  destruct (run_history r st') as [st'' trs] eqn:E2. cbn [snd].
  f_equal.
  - pose proof (activation_independent_proof compute p Hd st fresh) as H. rewrite E1 in H. exact H.
  - specialize (IH st' Hr). rewrite E2 in IH. exact IH.
Qed.
