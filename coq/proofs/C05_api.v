From Coq Require Import List String Ascii Bool Arith Lia.
From EP Require Import model.Api model.Csv.
Import ListNotations.
Open Scope string_scope.

(* ---- constructor ---- *)
Lemma mem_In : forall s l, mem s l = true <-> In s l.
Proof.
  intros s l. unfold mem. rewrite existsb_exists. split.
  - intros [x [Hin Heq]]. apply String.eqb_eq in Heq. subst. exact Hin.
  - intros H. exists s. split; [ exact H | apply String.eqb_refl ].
Qed.

Lemma base_init_spec_proof : forall declared class_attrs given,
  raises_ValueError (base_init declared class_attrs given) = true <->
  (exists k, In k given /\ ~ In k declared) \/
  (exists q, In q declared /\ ~ In q given /\ ~ In q class_attrs).
Proof.
  intros declared class_attrs given. unfold base_init.
  destruct (find (fun k => negb (mem k declared)) given) as [k|] eqn:F1.
  - simpl. split; [ intros _ | reflexivity ].
    left. apply find_some in F1. destruct F1 as [Hin Hn]. exists k. split; [ exact Hin | ].
    intro Hd. apply mem_In in Hd. rewrite Hd in Hn. discriminate.
  - destruct (find (fun q => negb (mem q given) && negb (mem q class_attrs)) declared) as [q|] eqn:F2.
    + simpl. split; [ intros _ | reflexivity ].
      right. apply find_some in F2. destruct F2 as [Hin Hn]. apply andb_prop in Hn. destruct Hn as [H1 H2].
      exists q. split; [ exact Hin | split ]; intro H; apply mem_In in H; rewrite H in *; discriminate.
    + simpl. split; [ discriminate | ].
      intros [[k [Hin Hnd]] | [q [Hin [Hng Hnc]]]].
      * pose proof (find_none _ _ F1 k Hin) as Hk. simpl in Hk.
        apply negb_false_iff in Hk. apply mem_In in Hk. contradiction.
      * pose proof (find_none _ _ F2 q Hin) as Hq. simpl in Hq.
        apply andb_false_iff in Hq. destruct Hq as [Hq | Hq]; apply negb_false_iff in Hq; apply mem_In in Hq; contradiction.
Qed.

(* ---- call: N records, in order, positions unchanged ---- *)
Lemma call_elementwise_contract_proof : forall (V : Type) names (fields : list (V -> V)) (pts : list V),
  List.length names = S (List.length fields) ->
  let s := call_elementwise names fields pts in
  well_formed s (List.length pts) /\
  hd [] (sol_cols s) = pts /\
  (forall i f d, nth_error fields i = Some f ->
     nth i (nth (S i) (sol_cols s) []) (f d) = f (nth i pts d) /\
     forall j, nth j (nth (S i) (sol_cols s) []) (f d) = f (nth j pts d)).
Proof.
  intros V names fields pts Hlen s. unfold s, call_elementwise, well_formed. cbn [sol_names sol_cols].
  split; [ split | split ].
  - cbn [List.length]. rewrite map_length. exact Hlen.
  - constructor; [ reflexivity | ]. apply Forall_forall. intros c Hc.
    apply in_map_iff in Hc. destruct Hc as [f [Hf _]]. subst c. apply map_length.
  - reflexivity.
  - intros i f d Hnth. cbn [nth].
    assert (Hcol : nth i (map (fun f0 : V -> V => map f0 pts) fields) [] = map f pts).
    { clear Hlen s. revert i Hnth. induction fields as [|g gs IH]; intros [|i] Hn; cbn in *; try discriminate.
      - injection Hn as ->. reflexivity.
      - apply IH. exact Hn. }
    rewrite Hcol. split; [ apply map_nth | intro j; apply map_nth ].
Qed.

(* permuting / duplicating / subsetting the points acts on every column in the same way:
   the value at a point does not depend on the batch (element-wise solvers) *)
Lemma call_elementwise_batch_proof : forall (V : Type) names (fields : list (V -> V)) (pts : list V) (sel : list nat) d,
  Forall (fun i => i < List.length pts) sel ->
  sol_cols (call_elementwise names fields (map (fun i => nth i pts d) sel)) =
  map (fun col => map (fun i => nth i col d) sel) (sol_cols (call_elementwise names fields pts)).
Proof.
  intros V names fields pts sel d Hsel. unfold call_elementwise. cbn [sol_cols map]. f_equal.
  rewrite map_map. apply map_ext. intro f. rewrite !map_map. apply map_ext_in. intros i Hi.
  rewrite Forall_forall in Hsel. specialize (Hsel i Hi).
  rewrite (nth_indep (map f pts) d (f d)); [ | rewrite map_length; exact Hsel ].
  symmetry. apply map_nth.
Qed.

