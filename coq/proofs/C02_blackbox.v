(* C02 for the Noh problem with a black-box EOS: the residual functions handed to the Newton solver vanish exactly when the
   post-shock state (rho, 0, P, e) and the converging pre-shock state at the shock (rho_0 (1 - u_0/D)^symmetry, u_0, P_0, e_0)
   satisfy the three Rankine-Hugoniot conditions for a shock of speed D.  The EOS enters only through the values
   P = eos.P(rho, e) (pressure form) or e = eos.e(rho, P) (energy form), which are free variables of the regenerated residuals. *)
From Coq Require Import Reals Lra Psatz.
From Coquelicot Require Import Coquelicot.
From EP Require Import lib.Base lib.Tactics lib.RH gen.Residuals.
Open Scope R_scope.

Definition bb_rho1 (D_ u_0 rho_0 symmetry : R) : R := rho_0 * Rpower (1 - u_0 / D_) symmetry.

Lemma bb_rpower_succ : forall x s, 0 < x -> Rpower x (s + 1) = Rpower x s * x.
Proof. intros x s Hx. rewrite Rpower_plus, Rpower_1 by exact Hx. reflexivity. Qed.

(* post-shock state on the left of rh_jump (at rest), pre-shock state on the right *)
Lemma blackbox_residual_iff_rh_generic :
  forall rho P e_ D_ u_0 rho_0 P_0 e_0 symmetry,
  D_ <> 0 -> rho <> 0 -> 0 < 1 - u_0 / D_ ->
  ( (rho - rho_0 * Rpower (1 - u_0 / D_) (symmetry + 1) = 0 /\
     (P - P_0) + (rho * u_0) * D_ = 0 /\
     ((e_ - e_0) - (1 / 2) * u_0 ^ 2) + (u_0 / rho) * (P_0 / D_) = 0)
    <-> rh_jump D_ rho 0 P e_ (bb_rho1 D_ u_0 rho_0 symmetry) u_0 P_0 e_0 ).
Proof.
  intros rho P e_ D_ u_0 rho_0 P_0 e_0 symmetry HD Hrho Hx.
  unfold rh_jump, bb_rho1. rewrite (bb_rpower_succ _ _ Hx).
  set (A := Rpower (1 - u_0 / D_) symmetry).
  assert (HA : 0 < A) by (unfold A, Rpower; apply exp_pos).
  clearbody A.
  split.
  - intros (H0 & H1 & H2).
    assert (Hm : rho = rho_0 * A * (1 - u_0 / D_)) by lra.
    assert (Hmass : rho * (0 - D_) = rho_0 * A * (u_0 - D_)) by (rewrite Hm; field; exact HD).
    split; [ exact Hmass | ].
    assert (HP : P = P_0 - rho * u_0 * D_) by lra.
    split.
    + rewrite <- Hmass, HP. ring.
    + rewrite <- Hmass, HP.
      assert (He : e_ = e_0 + 1 / 2 * u_0 ^ 2 - u_0 / rho * (P_0 / D_)) by lra.
      rewrite He. field. split; assumption.
  - intros (Hmass & Hmom & Hen).
    assert (H0 : rho - rho_0 * (A * (1 - u_0 / D_)) = 0).
    { apply Rmult_eq_reg_r with (- D_); [ | lra ].
      replace ((rho - rho_0 * (A * (1 - u_0 / D_))) * - D_) with (rho * (0 - D_) - rho_0 * A * (u_0 - D_)) by (field; exact HD). lra. }
    split; [ exact H0 | ].
    rewrite <- Hmass in Hmom, Hen.
    assert (H1 : P - P_0 + rho * u_0 * D_ = 0) by lra.
    split; [ exact H1 | ].
    assert (HP : P = P_0 - rho * u_0 * D_) by lra.
    rewrite HP in Hen.
    apply Rmult_eq_reg_r with (rho * D_); [ | apply Rmult_integral_contrapositive_currified; assumption ].
    replace ((e_ - e_0 - 1 / 2 * u_0 ^ 2 + u_0 / rho * (P_0 / D_)) * (rho * D_))
      with (rho * D_ * (e_ - e_0 - 1 / 2 * u_0 ^ 2) + u_0 * P_0) by (field; split; assumption).
    lra.
Qed.

(* pressure form: unknowns (rho, e, D), P = eos.P(rho, e) *)
Lemma pressure_residual_iff_rh_proof :
  forall rho e_ D_ u_0 rho_0 P_0 e_0 symmetry eos_P,
  D_ <> 0 -> rho <> 0 -> 0 < 1 - u_0 / D_ ->
  ( (res_pr3_F0 rho D_ u_0 rho_0 symmetry = 0 /\ res_pr3_F1 rho D_ u_0 P_0 eos_P = 0 /\ res_pr3_F2 rho e_ D_ u_0 P_0 e_0 = 0)
    <-> rh_jump D_ rho 0 eos_P e_ (bb_rho1 D_ u_0 rho_0 symmetry) u_0 P_0 e_0 ).
Proof. intros. unfold res_pr3_F0, res_pr3_F1, res_pr3_F2. apply blackbox_residual_iff_rh_generic; assumption. Qed.

(* energy form: unknowns (rho, P, D), e = eos.e(rho, P) *)
Lemma energy_residual_iff_rh_proof :
  forall rho P D_ u_0 rho_0 P_0 e_0 symmetry eos_e,
  D_ <> 0 -> rho <> 0 -> 0 < 1 - u_0 / D_ ->
  ( (res_en3_F0 rho D_ u_0 rho_0 symmetry = 0 /\ res_en3_F1 rho P D_ u_0 P_0 = 0 /\ res_en3_F2 rho D_ u_0 P_0 e_0 eos_e = 0)
    <-> rh_jump D_ rho 0 P eos_e (bb_rho1 D_ u_0 rho_0 symmetry) u_0 P_0 e_0 ).
Proof. intros. unfold res_en3_F0, res_en3_F1, res_en3_F2. apply blackbox_residual_iff_rh_generic; assumption. Qed.

Lemma noh_state_is_a_root_proof :
  res_pr3_F0 4 (1/3) (-1) 1 0 = 0 /\ res_pr3_F1 4 (1/3) (-1) 0 (4/3) = 0 /\ res_pr3_F2 4 (1/2) (1/3) (-1) 0 0 = 0.
Proof.
  unfold res_pr3_F0, res_pr3_F1, res_pr3_F2. repeat split; try (field; lra).
  replace (0 + 1) with 1 by ring. rewrite Rpower_1 by lra. field.
Qed.
