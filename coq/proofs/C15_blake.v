(* C15 (fields): the Blake strains are the derivatives of the displacement, stresses follow from the strains
   by isotropic linear elasticity, nothing moves ahead of the wave front, and the cavity wall carries the applied
   pressure. *)
From Coq Require Import Reals Lra Psatz.
From Coquelicot Require Import Coquelicot.
From EP Require Import lib.Base lib.Tactics lib.Piecewise spec.Elasticity gen.Blake.
Open Scope R_scope.

Definition blake_displ_core (b a cl k1 n x t : R) : R :=
  (k1 / (x ^ 2)) * (1 - ((exp ((- n) * (t - ((x - a) / cl)))) * ((cos (b * (t - ((x - a) / cl)))) - (((n / b) * (((((b ^ 2) + (n ^ 2)) / (n * cl)) * x) - 1)) * (sin (b * (t - ((x - a) / cl)))))))).

Lemma blake_core_derivative : forall b a cl k1 n r t,
  0 < cl -> b <> 0 -> n <> 0 -> 0 < r ->
  is_derive (fun x => blake_displ_core b a cl k1 n x t) r
   ((((exp ((- n) * (t + (a / cl)))) * (k1 / (r ^ 2))) * (((((- 2) * (exp (n * (t + (a / cl))))) * b) * (cl ^ 2)) + ((exp ((n / cl) * r)) * ((((((2 * n) * (cl ^ 2)) - (((2 * cl) * ((b ^ 2) + (n ^ 2))) * r)) + ((n * ((b ^ 2) + (n ^ 2))) * (r ^ 2))) * (sin (b * (t - ((r - a) / cl))))) - ((b * (((- 2) * (cl ^ 2)) + (((b ^ 2) + (n ^ 2)) * (r ^ 2)))) * (cos (b * (t - ((r - a) / cl))))))))) / ((r * b) * (cl ^ 2))).
Proof.
  intros b a cl k1 n r t Hcl Hb Hn Hr. unfold blake_displ_core.
  auto_derive; [ apply Rgt_not_eq; nra | ].
  set (A := exp (n * (t + a / cl))). set (B := exp (n / cl * r)).
  replace (exp (- n * (t + a / cl))) with (/ A) by (unfold A; rewrite <- exp_Ropp; f_equal; ring).
  replace (exp (- n * (t + - ((r + - a) * / cl)))) with (B / A)
    by (unfold A, B, Rdiv; rewrite <- exp_Ropp, <- exp_plus; f_equal; field; lra).
  assert (HA : A <> 0) by (unfold A; apply Rgt_not_eq, exp_pos).
  replace (t + - ((r + - a) * / cl)) with (t - (r - a) / cl) by (field; lra).
  set (S := sin (b * (t - (r - a) / cl))). set (C := cos (b * (t - (r - a) / cl))).
  field. repeat split; lra.
Qed.

(* behind the front (cavity_radius < r < cavity_radius + cl t): strain_rr is the radial derivative of the displacement *)
Lemma blake_strain_rr_is_derivative_proof : forall b a cl k1 n r t,
  0 < cl -> b <> 0 -> n <> 0 -> 0 < a -> a < r -> 0 < t - (r - a) / cl ->
  is_derive (fun x => blake_displacement b a cl k1 n x t) r (blake_strain_rr b a cl k1 n r t).
Proof.
  intros b a cl k1 n r t Hcl Hb Hn Ha Har Htp.
  apply (is_derive_loc_region (fun y => a < y /\ 0 < t - (y - a) / cl) _ (fun x => blake_displ_core b a cl k1 n x t)).
  - apply locally_and; [ apply locally_gt_id_const; exact Har | ].
    apply (locally_lt_cont (fun _ => 0) (fun y => t - (y - a) / cl) r); [ apply continuous_const | | exact Htp ].
    apply continuous_of_ex_derive. auto_derive. exact I.
  - intros y [Hy1 Hy2]. unfold blake_displacement, blake_displ_core.
    destruct (Rle_dec a y); [ | lra ]. destruct (Rlt_dec 0 (t - (y - a) / cl)); [ reflexivity | lra ].
  - unfold blake_strain_rr. destruct (Rle_dec a r); [ | lra ]. destruct (Rlt_dec 0 (t - (r - a) / cl)); [ | lra ].
    apply blake_core_derivative; lra.
Qed.

(* the remaining returned fields follow from displacement and strain_rr by isotropic linear elasticity *)
Lemma blake_elasticity_proof : forall b a cl k1 n lam G rho0 r t,
  let u := blake_displacement b a cl k1 n r t in
  let err := blake_strain_rr b a cl k1 n r t in
  let eqq := blake_strain_qq b a cl k1 n r t in
  let srr := blake_stress_rr b a cl k1 lam n r G t in
  let sqq := blake_stress_qq b a cl k1 lam n r G t in
  let p := blake_pressure b a cl k1 lam n r G t in
  eqq = u / r /\
  blake_strain_vol b a cl k1 n r t = err + 2 * eqq /\
  srr = (lam + 2 * G) * err + 2 * lam * eqq /\
  sqq = lam * err + 2 * (lam + G) * eqq /\
  p = - (1 / 3) * (srr + 2 * sqq) /\
  blake_stress_dev_rr b a cl k1 lam n r G t = srr + p /\
  blake_stress_dev_qq b a cl k1 lam n r G t = sqq + p /\
  blake_stress_diff b a cl k1 lam n r G t = Rabs (srr - sqq) /\
  blake_density b a cl k1 n r rho0 t = rho0 / (1 + blake_strain_vol b a cl k1 n r t) /\
  blake_curr_posn b a cl k1 n r t = r + u.
Proof. intros. repeat split; reflexivity. Qed.

(* nothing has moved ahead of the wave front r = a + cl t, nor inside the cavity *)
Lemma blake_zero_ahead_proof : forall b a cl k1 n lam G r t,
  (t - (r - a) / cl <= 0 \/ r < a) ->
  blake_displacement b a cl k1 n r t = 0 /\ blake_strain_rr b a cl k1 n r t = 0 /\
  blake_stress_rr b a cl k1 lam n r G t = 0 /\ blake_pressure b a cl k1 lam n r G t = 0.
Proof.
  intros b a cl k1 n lam G r t H.
  unfold blake_displacement, blake_strain_rr, blake_stress_rr, blake_pressure.
  destruct (Rle_dec a r); destruct (Rlt_dec 0 (t - (r - a) / cl)); try (exfalso; lra); repeat split; try reflexivity; unfold Rdiv; ring.
Qed.

(* cavity wall: radial stress = - applied pressure for every t > 0, for the n, b, k1 the solver computes and any
   isotropic positive-definite material (-1 < nu < 1/2, lambda + 2G = rho0 cl^2, lambda = nu/(1-nu) (lambda+2G)) *)
Lemma blake_cavity_condition_proof : forall a cl nu pscl rho0 lam G t,
  0 < a -> 0 < cl -> 0 < rho0 -> -1 < nu -> nu < 1 / 2 -> 0 < t ->
  lam + 2 * G = rho0 * cl ^ 2 -> lam = nu / (1 - nu) * (lam + 2 * G) ->
  let n := blake_n a cl nu in let b := blake_b a cl nu in let k1 := blake_k1 b a n pscl rho0 in
  blake_stress_rr b a cl k1 lam n a G t = - pscl.
Proof.
  intros a cl nu pscl rho0 lam G t Ha Hcl Hrho Hnu0 Hnu Ht HM Hlam n b k1.
  assert (Hq : 0 < (1 - 2 * nu) / (1 - nu) ^ 2 * (cl / a) ^ 2).
  { apply Rmult_lt_0_compat; [ apply Rdiv_lt_0_compat; [ lra | apply pow_lt; lra ] | apply pow_lt; apply Rdiv_lt_0_compat; lra ]. }
  assert (Hb2 : b * b = (1 - 2 * nu) / (1 - nu) ^ 2 * (cl / a) ^ 2) by (unfold b, blake_b; apply sqrt_sqrt; lra).
  assert (Hbpos : 0 < b) by (unfold b, blake_b; apply sqrt_lt_R0; exact Hq).
  assert (Hn : n = (1 - 2 * nu) / (1 - nu) * (cl / a)) by reflexivity.
  assert (Hnpos : 0 < n) by (rewrite Hn; apply Rmult_lt_0_compat; [ apply Rdiv_lt_0_compat; lra | apply Rdiv_lt_0_compat; lra ]).
  unfold blake_stress_rr.
  destruct (Rle_dec a a); [ | lra ].
  replace (t - (a - a) / cl) with t by (field; lra).
  destruct (Rlt_dec 0 t); [ | lra ].
  set (A := exp (n * (t + a / cl))).
  replace (exp (- n * (t + a / cl))) with (/ A) by (unfold A; rewrite <- exp_Ropp; f_equal; ring).
  replace (exp (n / cl * a)) with (A * exp (- n * t))
    by (unfold A; rewrite <- exp_plus; f_equal; field; lra).
  assert (HA : A <> 0) by (unfold A; apply Rgt_not_eq, exp_pos).
  set (E := exp (- n * t)). set (S := sin (b * t)). set (C := cos (b * t)).
  assert (HG : G = (rho0 * cl ^ 2 - lam) / 2) by lra.
  assert (Hlam' : lam = nu / (1 - nu) * (rho0 * cl ^ 2)) by (rewrite <- HM; exact Hlam).
  unfold k1, blake_k1. rewrite HG, Hlam'.
  (* eliminate b^2 *)
  assert (Hb2' : b ^ 2 = (1 - 2 * nu) / (1 - nu) ^ 2 * (cl / a) ^ 2) by (rewrite <- Hb2; ring).
  rewrite !Hb2'. rewrite Hn.
  field. repeat split; try lra.
  apply Rgt_not_eq. assert (0 < (1 - 2 * nu) * cl ^ 2) by (apply Rmult_lt_0_compat; [ lra | apply pow_lt; lra ]).
  assert (0 <= ((1 - 2 * nu) * cl) ^ 2) by apply pow2_ge_0. lra.
Qed.


Definition blake_strain_core (b a cl k1 n r t : R) : R :=
 ((((exp ((- n) * (t + (a / cl)))) * (k1 / (r ^ 2))) * (((((- 2) * (exp (n * (t + (a / cl))))) * b) * (cl ^ 2)) + ((exp ((n / cl) * r)) * ((((((2 * n) * (cl ^ 2)) - (((2 * cl) * ((b ^ 2) + (n ^ 2))) * r)) + ((n * ((b ^ 2) + (n ^ 2))) * (r ^ 2))) * (sin (b * (t - ((r - a) / cl))))) - ((b * (((- 2) * (cl ^ 2)) + (((b ^ 2) + (n ^ 2)) * (r ^ 2)))) * (cos (b * (t - ((r - a) / cl))))))))) / ((r * b) * (cl ^ 2))).

(* the closed form satisfies the spherical elastic wave equation u_tt = cl^2 (u_rr + 2 u_r / r - 2 u / r^2), for
   every b, n, k1 (it is the radial derivative of a potential f(t - (r-a)/cl)/r) *)
Lemma blake_wave_core : forall b a cl k1 n r t,
  0 < cl -> b <> 0 -> n <> 0 -> 0 < r ->
  exists (ut : R -> R) (urr utt : R),
    (forall s, is_derive (fun s' => blake_displ_core b a cl k1 n r s') s (ut s)) /\
    is_derive ut t utt /\
    is_derive (fun y => blake_strain_core b a cl k1 n y t) r urr /\
    utt = cl ^ 2 * (urr + 2 * blake_strain_core b a cl k1 n r t / r - 2 * blake_displ_core b a cl k1 n r t / r ^ 2).
Proof.
  intros b a cl k1 n r t Hcl Hb Hn Hr.
  eexists. eexists. eexists.
  split; [ intros s; unfold blake_displ_core; auto_derive; [ exact I | reflexivity ] | ].
  split; [ auto_derive; [ exact I | reflexivity ] | ].
  split; [ unfold blake_strain_core; auto_derive; [ repeat split; try exact I; repeat apply Rmult_integral_contrapositive_currified; lra | reflexivity ] | ].
  unfold blake_strain_core, blake_displ_core.
  set (A := exp (n * (t + a / cl))). set (B := exp (n / cl * r)).
  replace (exp (- n * (t + a / cl))) with (/ A) by (unfold A; rewrite <- exp_Ropp; f_equal; ring).
  replace (t + - ((r + - a) * / cl)) with (t - (r - a) / cl) by (field; lra).
  replace (t + - ((r - a) / cl)) with (t - (r - a) / cl) by (field; lra).
  replace (exp (- n * (t - (r - a) / cl))) with (B / A)
    by (unfold A, B, Rdiv; rewrite <- exp_Ropp, <- exp_plus; f_equal; field; lra).
  assert (HA : A <> 0) by (unfold A; apply Rgt_not_eq, exp_pos).
  set (S := sin (b * (t - (r - a) / cl))). set (C := cos (b * (t - (r - a) / cl))).
  field. repeat split; lra.
Qed.

(* behind the front the returned displacement satisfies the wave equation with wave speed cl; its first radial
   derivative is the returned strain_rr (blake_strain_rr_is_derivative_proof) *)
Lemma blake_wave_equation_proof : forall b a cl k1 n r t,
  0 < cl -> b <> 0 -> n <> 0 -> 0 < a -> a < r -> 0 < t - (r - a) / cl ->
  exists (ut : R -> R) (urr utt : R),
    (forall s, 0 < s - (r - a) / cl -> is_derive (fun s' => blake_displacement b a cl k1 n r s') s (ut s)) /\
    is_derive ut t utt /\
    is_derive (fun y => blake_strain_rr b a cl k1 n y t) r urr /\
    utt = cl ^ 2 * (urr + 2 * blake_strain_rr b a cl k1 n r t / r - 2 * blake_displacement b a cl k1 n r t / r ^ 2).
Proof.
  intros b a cl k1 n r t Hcl Hb Hn Ha Har Htp.
  destruct (blake_wave_core b a cl k1 n r t Hcl Hb Hn ltac:(lra)) as (ut & urr & utt & H1 & H2 & H3 & H4).
  exists ut, urr, utt. split; [ | split; [ exact H2 | split ] ].
  - intros s Hs.
    apply (is_derive_loc_region (fun s' => 0 < s' - (r - a) / cl) _ (fun s' => blake_displ_core b a cl k1 n r s')).
    + apply (locally_lt_cont (fun _ => 0) (fun s' => s' - (r - a) / cl) s); [ apply continuous_const | | exact Hs ].
      apply continuous_of_ex_derive. auto_derive. exact I.
    + intros s' Hs'. unfold blake_displacement, blake_displ_core.
      destruct (Rle_dec a r); [ | lra ]. destruct (Rlt_dec 0 (s' - (r - a) / cl)); [ reflexivity | lra ].
    + apply H1.
  - apply (is_derive_loc_region (fun y => a < y /\ 0 < t - (y - a) / cl) _ (fun y => blake_strain_core b a cl k1 n y t)).
    + apply locally_and; [ apply locally_gt_id_const; exact Har | ].
      apply (locally_lt_cont (fun _ => 0) (fun y => t - (y - a) / cl) r); [ apply continuous_const | | exact Htp ].
      apply continuous_of_ex_derive. auto_derive. exact I.
    + intros y [Hy1 Hy2]. unfold blake_strain_rr, blake_strain_core.
      destruct (Rle_dec a y); [ | lra ]. destruct (Rlt_dec 0 (t - (y - a) / cl)); [ reflexivity | lra ].
    + exact H3.
  - rewrite H4. unfold blake_strain_rr, blake_displacement, blake_strain_core, blake_displ_core.
    destruct (Rle_dec a r); [ | lra ]. destruct (Rlt_dec 0 (t - (r - a) / cl)); [ reflexivity | lra ].
Qed.

(* the same statement for the quantities Blake._run derives from the six moduli of any positive-definite
   material: wave speed cl = sqrt(long_mod / ref_density), and n, b, k1 from cl and poisson_ratio; cl, b, n are
   positive, so the derivative and wave-equation theorems apply to them *)
Lemma blake_material_proof : forall lam G E nu K M a pscl rho0 t,
  iso_material lam G E nu K M -> 0 < a -> 0 < rho0 -> 0 < t ->
  let cl := blake_cl M rho0 in
  let n := blake_n a cl nu in let b := blake_b a cl nu in let k1 := blake_k1 b a n pscl rho0 in
  0 < cl /\ 0 < n /\ 0 < b /\ blake_stress_rr b a cl k1 lam n a G t = - pscl.
Proof.
  intros lam G E nu K M a pscl rho0 t Hm Ha Hrho Ht cl n b k1.
  destruct (iso_material_facts _ _ _ _ _ _ Hm) as (HK & HE & HM & Hn1 & Hn2 & HlG & _ & _ & Hlam).
  destruct Hm as (HG & _ & _ & _ & _ & HMd).
  assert (Hq : 0 < M / rho0) by (apply Rdiv_lt_0_compat; lra).
  assert (Hcl : 0 < cl) by (unfold cl, blake_cl; apply sqrt_lt_R0; exact Hq).
  assert (Hcl2 : cl ^ 2 = M / rho0) by (unfold cl, blake_cl; simpl; rewrite Rmult_1_r; apply sqrt_sqrt; lra).
  assert (Hnpos : 0 < n).
  { unfold n, blake_n. apply Rmult_lt_0_compat; apply Rdiv_lt_0_compat; lra. }
  assert (Hbpos : 0 < b).
  { unfold b, blake_b. apply sqrt_lt_R0. apply Rmult_lt_0_compat; [ apply Rdiv_lt_0_compat; [ lra | apply pow_lt; lra ] | apply pow_lt; apply Rdiv_lt_0_compat; lra ]. }
  repeat split; try assumption.
  apply blake_cavity_condition_proof; try assumption.
  - rewrite Hcl2, <- HMd. field. lra.
  - rewrite <- HMd. exact Hlam.
Qed.
