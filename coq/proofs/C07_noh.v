(* C07: independent routes to the same solution agree (closed-form solvers). *)
From Coq Require Import Reals Lra Psatz.
From EP Require Import lib.Base lib.Tactics gen.Noh1 gen.Cog19 gen.Noh2 gen.Noh2Cog.
Open Scope R_scope.

(* Noh == Coggeshall 19 for every Gamma, gamma > 1, u0 < 0, every geometry value, all r > 0 and t *)
Lemma noh_equals_cog19_proof : forall geometry gamma u0 rho0 Gamma r t,
  u0 < 0 -> 1 < gamma -> Gamma <> 0 -> rho0 <> 0 -> 0 < r -> 0 <= t ->
  noh_density geometry gamma u0 rho0 r t = cog19_density geometry gamma rho0 u0 Gamma r t /\
  noh_velocity geometry gamma u0 rho0 r t = cog19_velocity geometry gamma rho0 u0 Gamma r t /\
  noh_pressure geometry gamma u0 rho0 r t = cog19_pressure geometry gamma rho0 u0 Gamma r t /\
  noh_specific_internal_energy geometry gamma u0 rho0 r t = cog19_specific_internal_energy geometry gamma rho0 u0 Gamma r t.
Proof.
  intros geometry gamma u0 rho0 Gamma r t Hu Hg HG Hrho Hr Ht.
  assert (Habs : Rabs u0 = - u0) by (apply Rabs_left; exact Hu).
  autounfold with epgen. rewrite Habs.
  replace (- u0 * t * (gamma - 1) / 2) with (- (gamma - 1) * u0 * t / 2) by (field).
  replace (geometry - 1 + 1) with geometry by ring.
  replace (1 + - u0 * t / r) with ((r - u0 * t) / r) by (field; lra).
  assert (HX : 0 < Rpower ((gamma + 1) / (gamma - 1)) geometry) by (unfold Rpower; apply exp_pos).
  assert (HY : 0 < Rpower ((r - u0 * t) / r) (geometry - 1)) by (unfold Rpower; apply exp_pos).
  destruct (Rlt_dec r (- (gamma - 1) * u0 * t / 2)); repeat split; try reflexivity; try ring; field; repeat split; lra.
Qed.

(* Noh2 == its Coggeshall form (Cog1 with b = 0 run at time 1 - t with the velocity reversed) *)
Lemma noh2_equals_noh2cog_proof : forall geometry gamma rho0 e0 r t,
  t < 1 -> gamma <> 1 -> rho0 <> 0 -> 0 < r ->
  noh2_density geometry gamma rho0 e0 r t = noh2cog_density geometry gamma rho0 e0 r t /\
  noh2_velocity geometry gamma rho0 e0 r t = noh2cog_velocity geometry gamma rho0 e0 r t /\
  noh2_pressure geometry gamma rho0 e0 r t = noh2cog_pressure geometry gamma rho0 e0 r t /\
  noh2_specific_internal_energy geometry gamma rho0 e0 r t = noh2cog_specific_internal_energy geometry gamma rho0 e0 r t.
Proof.
  intros geometry gamma rho0 e0 r t Ht Hg Hrho Hr.
  assert (H1 : 0 < 1 - t) by lra.
  autounfold with epgen.
  replace (0 - (geometry - 1) - 1) with (- geometry) by ring.
  replace (0 - (gamma - 1) * (geometry - 1 + 1)) with (- ((gamma - 1) * geometry)) by ring.
  rewrite !Rpower_Ropp.
  assert (HA : 0 < Rpower (1 - t) geometry) by (unfold Rpower; apply exp_pos).
  assert (HB : 0 < Rpower (1 - t) ((gamma - 1) * geometry)) by (unfold Rpower; apply exp_pos).
  repeat split; field; repeat split; lra.
Qed.
