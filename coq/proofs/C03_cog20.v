(* C03 for cog20: returned thermodynamic fields satisfy the declared EOS. P = Gamma rho T, e = Gamma T/(gamma-1) *)
From Coq Require Import Reals Lra.
From EP Require Import lib.Base lib.Tactics gen.Cog20.
Open Scope R_scope.

Lemma cog20_eos_proof :
  forall geometry gamma rho0 u0 a Gamma r t,
  cog20_defined geometry gamma rho0 u0 a Gamma r t ->
  cog20_density geometry gamma rho0 u0 a Gamma r t <> 0 ->
  gamma - 1 <> 0 ->
  cog20_pressure geometry gamma rho0 u0 a Gamma r t = Gamma * (cog20_density geometry gamma rho0 u0 a Gamma r t) * (cog20_temperature geometry gamma rho0 u0 a Gamma r t) /\
  cog20_specific_internal_energy geometry gamma rho0 u0 a Gamma r t = Gamma * (cog20_temperature geometry gamma rho0 u0 a Gamma r t) / (gamma - 1) /\
  cog20_pressure geometry gamma rho0 u0 a Gamma r t = (gamma - 1) * (cog20_density geometry gamma rho0 u0 a Gamma r t) * (cog20_specific_internal_energy geometry gamma rho0 u0 a Gamma r t).
Proof. unfold cog20_defined. eos_solve. Qed.
