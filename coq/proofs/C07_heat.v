(* C07 (heat): rod BC4 (flux at x=0, temperature at x=L) is the mirror image x -> L - x of rod BC3 (temperature at
   x=0, flux at x=L) with the ends exchanged, for every truncation order; the planar sandwiches are the rod with the
   matching boundary condition by construction of gen/Heat.v (read from the class definitions). *)
From Coq Require Import Reals Lra Lia.
From Coquelicot Require Import Coquelicot.
From EP Require Import lib.Base lib.Series gen.Heat.
Open Scope R_scope.

Lemma alt_sq : forall n : nat, (-1) ^ n * (-1) ^ n = 1.
Proof. intros n. rewrite <- Rpow_mult_distr. replace (-1 * -1) with 1 by ring. apply pow1. Qed.

Lemma rod_bc4_is_mirrored_bc3_proof : forall L Nsum TL TR alpha2 beta1 gamma1 gamma2 kappa x t,
  L <> 0 -> alpha2 <> 0 -> beta1 <> 0 ->
  rod_bc4_temperature L Nsum TL TR alpha2 beta1 gamma1 gamma2 kappa x t =
  rod_bc3_temperature L Nsum TR TL alpha2 (- beta1) gamma2 gamma1 kappa (L - x) t.
Proof.
  intros L Nsum TL TR alpha2 beta1 gamma1 gamma2 kappa x t HL Ha Hb.
  unfold rod_bc4_temperature, rod_bc3_temperature. f_equal.
  - unfold rod_bc4_static, rod_bc3_static. field. split; assumption.
  - apply sum_range_ext. intros n.
    assert (H2n : 2 * INR n + 1 <> 0) by (pose proof (pos_INR n); lra).
    unfold rod_term, rod_bc4_An, rod_bc4_Bn, rod_bc4_kn, rod_bc3_An, rod_bc3_Bn, rod_bc3_kn.
    rewrite !altsign_INR.
    replace ((2 * INR n + 1) * PI / (2 * L) * (L - x)) with ((2 * INR n + 1) * PI / 2 - (2 * INR n + 1) * PI / (2 * L) * x) by (field; exact HL).
    rewrite sin_minus, sin_half_odd_PI, cos_half_odd_PI.
    set (c := cos ((2 * INR n + 1) * PI / (2 * L) * x)). set (E := exp (- kappa * ((2 * INR n + 1) * PI / (2 * L)) ^ 2 * t)).
    pose proof (alt_sq n) as Hsq. set (a := (-1) ^ n) in *.
    assert (Hpm : a = 1 \/ a = -1).
    { assert (H : (a - 1) * (a + 1) = 0) by nra. apply Rmult_integral in H. destruct H; [ left | right ]; lra. }
    destruct Hpm as [H1 | H1]; rewrite H1; field; repeat split; try assumption; try apply PI_neq0.
Qed.

(* the planar sandwiches ARE the rod with the matching boundary condition *)
Lemma sandwiches_are_rods_proof : forall L Nsum TL TR kappa a b x t,
  psandwich_temperature L Nsum TL TR kappa a b x t = rod_bc1_temperature L Nsum TL TR 1 1 a b kappa x t /\
  psandwich_hot_temperature L Nsum TL TR kappa a x t = rod_bc2_temperature L Nsum TL TR 1 1 a a kappa x t /\
  psandwich_half_temperature L Nsum TL TR kappa b a x t = rod_bc3_temperature L Nsum TL TR 1 1 a b kappa x t.
Proof. intros. repeat split; reflexivity. Qed.
