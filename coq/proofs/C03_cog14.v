(* C03 for cog14: returned thermodynamic fields satisfy the declared EOS. P = Gamma rho T, e = Gamma T/(gamma-1) *)
From Coq Require Import Reals Lra.
From EP Require Import lib.Base lib.Tactics gen.Cog14.
Open Scope R_scope.

Lemma cog14_eos_proof :
  forall geometry gamma rho0 alpha beta lambda0 Gamma r t,
  cog14_defined geometry gamma rho0 alpha beta lambda0 Gamma r t ->
  cog14_density geometry gamma rho0 alpha beta lambda0 Gamma r t <> 0 ->
  gamma - 1 <> 0 ->
  cog14_pressure geometry gamma rho0 alpha beta lambda0 Gamma r t = Gamma * (cog14_density geometry gamma rho0 alpha beta lambda0 Gamma r t) * (cog14_temperature geometry gamma rho0 alpha beta lambda0 Gamma r t) /\
  cog14_specific_internal_energy geometry gamma rho0 alpha beta lambda0 Gamma r t = Gamma * (cog14_temperature geometry gamma rho0 alpha beta lambda0 Gamma r t) / (gamma - 1) /\
  cog14_pressure geometry gamma rho0 alpha beta lambda0 Gamma r t = (gamma - 1) * (cog14_density geometry gamma rho0 alpha beta lambda0 Gamma r t) * (cog14_specific_internal_energy geometry gamma rho0 alpha beta lambda0 Gamma r t).
Proof. unfold cog14_defined. eos_solve. Qed.
