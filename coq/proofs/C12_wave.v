(* C12: the radiative-shock wrappers return, at time t, their steady profile displaced by
   (Mach number) x (upstream sound speed) x t, and nothing else changes with time. *)
From Coq Require Import Reals List Lra.
From EP Require Import lib.Base model.Interp gen.RadShock proofs.C12_interp.
Import ListNotations.
Open Scope R_scope.

(* model of `_run`: every field is np.interp(x, knots0 + SHIFT, values) where knots0 = -flip(self.x) (structure
   extracted from the source by the translator: gen/RadShock.v) *)
Definition wrapper_field (shift : R) (profile : list (R * R)) (x : R) : R := interp x (shift_knots shift profile).

Lemma radshock_travelling_wave_proof : forall M0 sound t profile x,
  wrapper_field (rs_ed_shift M0 sound t) profile x = interp (x - M0 * sound * t) profile /\
  wrapper_field (rs_ned_shift M0 sound t) profile x = interp (x - M0 * sound * t) profile /\
  wrapper_field (rs_sn_shift M0 sound t) profile x = interp (x - M0 * sound * t) profile /\
  wrapper_field (rs_ie_shift M0 sound t) profile x = interp (x - M0 * sound * t) profile.
Proof.
  intros. unfold wrapper_field, rs_ed_shift, rs_ned_shift, rs_sn_shift, rs_ie_shift.
  rewrite !travelling_wave_proof. replace (t * sound * M0) with (M0 * sound * t) by ring. repeat split; reflexivity.
Qed.

(* the displacement speed is M0 times the sound speed of the user's gamma, Cv, Tref *)
Lemma radshock_speed_proof : forall M0 gamma Cv Tref t,
  rs_ed_shift M0 (rs_sound Cv Tref gamma) t = M0 * sqrt (gamma * (gamma - 1) * Cv * Tref) * t /\
  rs_ie_shift M0 (rs_sound_ie Cv Tref gamma) t = M0 * sqrt (gamma * (gamma - 1) * Cv * Tref) * t.
Proof. intros. unfold rs_ed_shift, rs_ie_shift, rs_sound, rs_sound_ie. split; ring. Qed.

(* at t = 0 the wrapper returns the profile itself; two times differ only by the displacement *)
Lemma radshock_time_only_displaces_proof : forall M0 sound t1 t2 profile x,
  wrapper_field (rs_ed_shift M0 sound t2) profile x =
  wrapper_field (rs_ed_shift M0 sound t1) profile (x - M0 * sound * (t2 - t1)).
Proof.
  intros. destruct (radshock_travelling_wave_proof M0 sound t2 profile x) as [E2 _].
  destruct (radshock_travelling_wave_proof M0 sound t1 profile (x - M0 * sound * (t2 - t1))) as [E1 _].
  rewrite E2, E1. f_equal. ring.
Qed.
