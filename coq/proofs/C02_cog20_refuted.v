(* Finding: with the shock location coded in Cog20 the states on the two sides do not satisfy the
   Rankine-Hugoniot relations (default parameters except a = 1/20, so that the pre-shock density base
   (r - u0 t)/r is positive at the coded location; t = 1).  J below is the pair of one-sided limits
   of the returned fields at the coded location (limits are unique), s the derivative of that location. *)
From Coq Require Import Reals Lra Psatz.
From Coquelicot Require Import Coquelicot.
From Interval Require Import Tactic.
From EP Require Import lib.Base lib.Tactics lib.RH gen.Cog20 proofs.C01_cog20.
Open Scope R_scope.

Lemma cog20_rh_refuted_proof :
  let geometry := cog20_default_geometry in let gamma := cog20_default_gamma in
  let rho0 := cog20_default_rho0 in let u0 := cog20_default_u0 in
  let a := 1 / 20 in let Gamma := cog20_default_Gamma in let t := 1 in
  cog20_init_ok geometry gamma rho0 u0 a Gamma /\ 0 < cog20_shock gamma u0 a t /\
  exists s J,
    is_derive (cog20_shock gamma u0 a) t s /\
    fields_jump (fun r => cog20_density geometry gamma rho0 u0 a Gamma r t) (fun r => cog20_velocity geometry gamma rho0 u0 a Gamma r t)
                (fun r => cog20_pressure geometry gamma rho0 u0 a Gamma r t)
                (fun r => cog20_specific_internal_energy geometry gamma rho0 u0 a Gamma r t) (cog20_shock gamma u0 a t) J /\
    ~ (jl_rho J * (jl_u J - s) = jr_rho J * (jr_u J - s)).
Proof.
  cbv zeta. unfold cog20_default_geometry, cog20_default_gamma, cog20_default_rho0, cog20_default_u0,
    cog20_default_Gamma, cog20_init_ok.
  split; [ split; [ right; reflexivity | lra ] | ].
  split; [ unfold cog20_shock; interval | ].
  eexists. eexists (Build_jump_states _ _ _ _ _ _ _ _).
  split; [ unfold cog20_shock; auto_derive; [ lra | reflexivity ] | ].
  split.
  - unfold cog20_shock.
    assert (0 < 1 - 1 / 20 * 1) by lra.
    assert (0 < 1 + - (1 / 20 * 1)) by lra.
    assert (0 < (23 / 10 * (7 / 5 - 1) / (4 * (1 / 20)) * 1 * (1 - 2 * (1 / 20) * 1) / (1 - 1 / 20 * 1) + - (23 / 10 * 1)) *
                / (23 / 10 * (7 / 5 - 1) / (4 * (1 / 20)) * 1 * (1 - 2 * (1 / 20) * 1) / (1 - 1 / 20 * 1))) by interval.
    jump_solve.
  - cbn [jl_rho jl_u jl_p jl_e jr_rho jr_u jr_p jr_e]. unfold cog20_shock, Rpower.
    apply Rlt_not_eq. interval with (i_prec 60).
Qed.
