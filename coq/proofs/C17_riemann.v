(* C17 for the ideal-gas Riemann solver: the wave-pattern chain of RiemannIGEOS.driver (model/RiemannIG.v,
   thresholds u_SCN ... generated from riemann/utils.py) selects a pattern whose star pressure lies on the admissible
   side of the pressure ahead of each wave: shocks are compressive (p* >= p0, hence rho* >= rho0), fans are expansions
   (p* <= p0); inside a fan density and pressure are monotone in x and the velocity increases; star densities,
   pressures and energies are positive. *)
From Coq Require Import Reals Lra Psatz List.
From Coquelicot Require Import Coquelicot.
From EP Require Import lib.Base lib.Tactics lib.SimpleWave lib.SimpleWaveInt gen.Riemann model.RiemannIG
  proofs.Riemann_shock proofs.Riemann_fan.
Open Scope R_scope.

(* ---- monotonicity of the two wave functions in the star pressure ---- *)
Section Mono.
Variables p r g : R.
Hypothesis Hp : 0 < p.
Hypothesis Hr : 0 < r.
Hypothesis Hg : 1 < g.

Lemma mflux_increasing : forall x y, 0 < x -> x < y -> mflux p r g x < mflux p r g y.
Proof.
  intros x y Hx Hxy. unfold mflux. apply sqrt_lt_1.
  - apply Rlt_le. apply Rmult_lt_0_compat; nra.
  - apply Rlt_le. apply Rmult_lt_0_compat; nra.
  - apply Rmult_lt_compat_l; [ exact Hr | ]. nra.
Qed.

(* shock(px) = 2/(g+1) (m/r - g p/m) + u, increasing in the mass flux m *)
Lemma shock_via_mflux : forall u x, 0 < x ->
  rie_shock x p r u g = 2 / (g + 1) * (mflux p r g x / r - g * p / mflux p r g x) + u.
Proof.
  intros u x Hx. rewrite (shock_fn_eq p r u g x Hp Hr Hg Hx).
  pose proof (mflux_pos p r g x Hp Hr Hg Hx) as Hm. pose proof (mflux_sq p r g x Hp Hr Hg Hx) as Hm2.
  assert (Hxm : x = (2 * (mflux p r g x * mflux p r g x) / r - (g - 1) * p) / (g + 1)) by (rewrite Hm2; field; split; lra).
  set (m := mflux p r g x) in *. clearbody m.
  rewrite Hxm at 1. field. repeat split; lra.
Qed.

Lemma shock_increasing : forall u x y, 0 < x -> x < y -> rie_shock x p r u g < rie_shock y p r u g.
Proof.
  intros u x y Hx Hxy. assert (Hy : 0 < y) by lra.
  rewrite (shock_via_mflux u x Hx), (shock_via_mflux u y Hy).
  pose proof (mflux_pos p r g x Hp Hr Hg Hx) as Hmx. pose proof (mflux_pos p r g y Hp Hr Hg Hy) as Hmy.
  pose proof (mflux_increasing x y Hx Hxy) as Hinc.
  set (mx := mflux p r g x) in *. set (my := mflux p r g y) in *. clearbody mx my.
  assert (H1 : mx / r < my / r) by (apply Rmult_lt_compat_r; [ apply Rinv_0_lt_compat; exact Hr | exact Hinc ]).
  assert (H2 : g * p / my < g * p / mx).
  { apply Rmult_lt_compat_l; [ nra | ]. apply Rinv_lt_contravar; [ apply Rmult_lt_0_compat; assumption | exact Hinc ]. }
  assert (H3 : 0 < 2 / (g + 1)) by (apply Rdiv_lt_0_compat; lra).
  assert (mx / r - g * p / mx < my / r - g * p / my) by lra.
  nra.
Qed.

Lemma shock_at_p0 : forall u, rie_shock p p r u g = u.
Proof. intros u. unfold rie_shock. ring. Qed.

Lemma rarefaction_decreasing : forall u x y, 0 < x -> x < y -> rie_rarefaction y p r u g < rie_rarefaction x p r u g.
Proof.
  intros u x y Hx Hxy. unfold rie_rarefaction.
  assert (Ha : 0 < sqrt (g * p / r)) by (apply sqrt_lt_R0; apply Rdiv_lt_0_compat; nra).
  assert (Hk : 0 < (g - 1) / 2 / g) by (repeat apply Rdiv_lt_0_compat; lra).
  assert (Hpw : Rpower (x / p) ((g - 1) / 2 / g) < Rpower (y / p) ((g - 1) / 2 / g)).
  { apply Rlt_Rpower_l; [ exact Hk | ]. split; [ apply Rdiv_lt_0_compat; assumption | ].
    apply Rmult_lt_compat_r; [ apply Rinv_0_lt_compat; exact Hp | exact Hxy ]. }
  assert (Hc : 0 < 2 * sqrt (g * p / r) / (g - 1)) by (apply Rdiv_lt_0_compat; lra).
  nra.
Qed.

Lemma rarefaction_at_p0 : forall u, rie_rarefaction p p r u g = u.
Proof.
  intros u. unfold rie_rarefaction. replace (p / p) with 1 by (field; lra). rewrite Rpower_one_l. ring.
Qed.

(* density behind a shock rises with the star pressure *)
Lemma rho_star_shock_ge : forall x, p <= x -> r <= rie_rho_star_shock x p r g.
Proof.
  intros x Hx. unfold rie_rho_star_shock.
  assert (Hd : 0 < x * (g - 1) + p * (g + 1)) by nra.
  apply (Rmult_le_reg_r (x * (g - 1) + p * (g + 1))); [ exact Hd | ].
  replace (r * (p * (g - 1) + x * (g + 1)) / (x * (g - 1) + p * (g + 1)) * (x * (g - 1) + p * (g + 1)))
    with (r * (p * (g - 1) + x * (g + 1))) by (field; lra).
  nra.
Qed.

Lemma rho_star_fan_le : forall x, 0 < x -> x <= p -> rie_rho_star_rarefaction x p r g <= r.
Proof.
  intros x Hx Hle. unfold rie_rho_star_rarefaction.
  assert (Rpower (x / p) (1 / g) <= 1).
  { apply (Rle_trans _ (Rpower 1 (1 / g))); [ | rewrite Rpower_one_l; lra ].
    apply Rle_Rpower_l; [ apply Rlt_le, Rdiv_lt_0_compat; lra | ].
    split; [ apply Rdiv_lt_0_compat; assumption | ].
    apply (Rmult_le_reg_r p); [ exact Hp | ]. replace (x / p * p) with x by (field; lra). lra. }
  nra.
Qed.
End Mono.

(* ---- the thresholds of the wave-pattern chain are the wave functions evaluated at the other side's pressure ---- *)
Lemma u_SCN_is_shock : forall pl rl ul gl pr, 0 < pl -> 0 < rl -> 1 < gl -> 0 < pr ->
  rie_u_SCN pr (rie_sound_speed pl rl gl) gl pl ul = ul - rie_shock pr pl rl 0 gl.
Proof.
  intros pl rl ul gl pr Hpl Hrl Hgl Hpr.
  rewrite (shock_fn_eq pl rl 0 gl pr Hpl Hrl Hgl Hpr).
  pose proof (sound_times_sqrt pl rl gl pr Hpl Hrl Hgl Hpr) as Hs.
  pose proof (mflux_pos pl rl gl pr Hpl Hrl Hgl Hpr) as Hm.
  unfold rie_u_SCN.
  replace ((gl + 1) / 2 / gl * pr / pl + (gl - 1) / 2 / gl) with ((gl + 1) * pr / 2 / gl / pl + (gl - 1) / 2 / gl) by (field; lra).
  set (S := sqrt ((gl + 1) * pr / 2 / gl / pl + (gl - 1) / 2 / gl)) in *.
  assert (Ha : 0 < rie_sound_speed pl rl gl) by (unfold rie_sound_speed; apply sqrt_lt_R0; apply Rdiv_lt_0_compat; nra).
  assert (Ha2 : rie_sound_speed pl rl gl * rie_sound_speed pl rl gl = gl * pl / rl).
  { unfold rie_sound_speed. apply sqrt_sqrt. apply Rlt_le, Rdiv_lt_0_compat; nra. }
  set (a := rie_sound_speed pl rl gl) in *. clearbody a.
  assert (HS : 0 < S).
  { apply (Rmult_lt_reg_l a); [ exact Ha | ]. rewrite Rmult_0_r, Hs. apply Rdiv_lt_0_compat; assumption. }
  assert (Hmeq : mflux pl rl gl pr = a * S * rl) by (rewrite Hs; field; lra).
  rewrite Hmeq. clearbody S.
  assert (Hrl' : rl = gl * pl / (a * a)) by (rewrite Ha2; field; lra).
  rewrite Hrl' at 1. field. repeat split; lra.
Qed.

Lemma u_NCS_is_shock : forall pl ul pr rr gr, 0 < pr -> 0 < rr -> 1 < gr -> 0 < pl ->
  rie_u_NCS pr gr pl rr ul = ul - rie_shock pl pr rr 0 gr.
Proof.
  intros pl ul pr rr gr Hpr Hrr Hgr Hpl.
  pose proof (u_SCN_is_shock pr rr ul gr pl Hpr Hrr Hgr Hpl) as H.
  rewrite <- H. unfold rie_u_NCS, rie_u_SCN, rie_sound_speed. reflexivity.
Qed.

Lemma u_NCR_is_rarefaction : forall pl ul pr rr gr, rie_u_NCR pr gr pl rr ul = ul + rie_rarefaction pl pr rr 0 gr.
Proof. intros. unfold rie_u_NCR, rie_rarefaction. ring. Qed.

Lemma u_RCN_is_rarefaction : forall pl rl ul gl pr,
  rie_u_RCN pr (rie_sound_speed pl rl gl) gl pl ul = ul + rie_rarefaction pr pl rl 0 gl.
Proof. intros. unfold rie_u_RCN, rie_rarefaction, rie_sound_speed. ring. Qed.

(* the calls in terms of the wave functions with zero velocity offset *)
Lemma calls_split : forall px gl gr pl pr rl rr ul ur,
  rie_SCS_call px gl gr pl pr rl rr ul ur = rie_shock px pr rr 0 gr + rie_shock px pl rl 0 gl + (ur - ul) /\
  rie_SCR_call px gl gr pl pr rl rr ul ur = rie_shock px pl rl 0 gl - rie_rarefaction px pr rr 0 gr + (ur - ul) /\
  rie_RCS_call px gl gr pl pr rl rr ul ur = rie_shock px pr rr 0 gr - rie_rarefaction px pl rl 0 gl + (ur - ul) /\
  rie_RCR_call px gl gr pl pr rl rr ul ur = rie_rarefaction px pr rr 0 gr + rie_rarefaction px pl rl 0 gl - (ur - ul).
Proof.
  intros. unfold rie_SCS_call, rie_SCR_call, rie_RCS_call, rie_RCR_call, rie_shock, rie_rarefaction. repeat split; ring.
Qed.

Section Classify.
Variables pl rl ul gl pr rr ur gr px : R.
Hypothesis Hpl : 0 < pl.
Hypothesis Hrl : 0 < rl.
Hypothesis Hgl : 1 < gl.
Hypothesis Hpr : 0 < pr.
Hypothesis Hrr : 0 < rr.
Hypothesis Hgr : 1 < gr.
Hypothesis Hpx : 0 < px.

Let SL := fun x => rie_shock x pl rl 0 gl.
Let SR := fun x => rie_shock x pr rr 0 gr.
Let RL := fun x => rie_rarefaction x pl rl 0 gl.
Let RR := fun x => rie_rarefaction x pr rr 0 gr.

Lemma SL_inc : forall x y, 0 < x -> x < y -> SL x < SL y. Proof. intros; apply shock_increasing; assumption. Qed.
Lemma SR_inc : forall x y, 0 < x -> x < y -> SR x < SR y. Proof. intros; apply shock_increasing; assumption. Qed.
Lemma RL_dec : forall x y, 0 < x -> x < y -> RL y < RL x. Proof. intros; apply rarefaction_decreasing; assumption. Qed.
Lemma RR_dec : forall x y, 0 < x -> x < y -> RR y < RR x. Proof. intros; apply rarefaction_decreasing; assumption. Qed.
Lemma SL_pl : SL pl = 0. Proof. apply shock_at_p0. Qed.
Lemma SR_pr : SR pr = 0. Proof. apply shock_at_p0. Qed.
Lemma RL_pl : RL pl = 0. Proof. apply rarefaction_at_p0; assumption. Qed.
Lemma RR_pr : RR pr = 0. Proof. apply rarefaction_at_p0; assumption. Qed.

(* a strictly increasing function vanishing at px is <= 0 at q only if q <= px, etc. *)
Lemma inc_root_ge : forall f q, (forall x y, 0 < x -> x < y -> f x < f y) -> 0 < q -> f px = 0 -> f q <= 0 -> q <= px.
Proof. intros f q Hinc Hq Hroot Hle. destruct (Rle_dec q px) as [H | H]; [ exact H | ]. pose proof (Hinc px q Hpx (Rnot_le_lt _ _ H)). lra. Qed.
Lemma inc_root_lt : forall f q, (forall x y, 0 < x -> x < y -> f x < f y) -> 0 < q -> f px = 0 -> 0 < f q -> px < q.
Proof.
  intros f q Hinc Hq Hroot Hgt. destruct (Rlt_dec px q) as [H | H]; [ exact H | ].
  destruct (Req_dec px q) as [E | E]; [ subst q; lra | ].
  assert (q < px) by lra. pose proof (Hinc q px Hq H0). lra.
Qed.
Lemma dec_root_lt : forall f q, (forall x y, 0 < x -> x < y -> f y < f x) -> 0 < q -> f px = 0 -> f q < 0 -> px < q.
Proof.
  intros f q Hdec Hq Hroot Hlt. destruct (Rlt_dec px q) as [H | H]; [ exact H | ].
  destruct (Req_dec px q) as [E | E]; [ subst q; lra | ].
  assert (q < px) by lra. pose proof (Hdec q px Hq H0). lra.
Qed.

Definition left_shock (pat : pattern) : Prop := pat = SCS \/ pat = SCR.
Definition left_fan (pat : pattern) : Prop := pat = RCS \/ pat = RCR.
Definition right_shock (pat : pattern) : Prop := pat = SCS \/ pat = RCS.
Definition right_fan (pat : pattern) : Prop := pat = SCR \/ pat = RCR.

Theorem classification_admissible :
  let pat := ig_classify pl rl ul gl pr rr ur gr in
  pat <> RCVCR ->
  ig_call pl rl ul gl pr rr ur gr pat px = 0 ->
  (left_shock pat -> pl <= px) /\ (left_fan pat -> px <= pl) /\
  (right_shock pat -> pr <= px) /\ (right_fan pat -> px <= pr).
Proof.
  intros pat Hnv Hcall. subst pat.
  destruct (calls_split px gl gr pl pr rl rr ul ur) as (Escs & Escr & Ercs & Ercr).
  pose proof (u_SCN_is_shock pl rl ul gl pr Hpl Hrl Hgl Hpr) as Tscn.
  pose proof (u_NCS_is_shock pl ul pr rr gr Hpr Hrr Hgr Hpl) as Tncs.
  pose proof (u_NCR_is_rarefaction pl ul pr rr gr) as Tncr.
  pose proof (u_RCN_is_rarefaction pl rl ul gl pr) as Trcn.
  pose proof SL_pl as E1. pose proof SR_pr as E2. pose proof RL_pl as E3. pose proof RR_pr as E4.
  unfold left_shock, left_fan, right_shock, right_fan.
  revert Hnv Hcall. unfold ig_classify, ig_al.
  fold (SL pr) in Tscn. fold (SR pl) in Tncs. fold (RR pl) in Tncr. fold (RL pr) in Trcn.
  destruct (Rle_dec pl pr) as [Hlr | Hlr].
  - destruct (Rle_dec ur (rie_u_SCN pr (rie_sound_speed pl rl gl) gl pl ul)) as [C1 | C1].
    + (* SCS *) intros _ Hcall. cbn [ig_call] in Hcall. rewrite Escs in Hcall.
      assert (Hge : pr <= px).
      { apply (inc_root_ge (fun x => SR x + SL x + (ur - ul))); try assumption.
        - intros x y Hx Hxy. pose proof (SL_inc x y Hx Hxy). pose proof (SR_inc x y Hx Hxy). lra.
        - rewrite E2. lra. }
      repeat split; intros [H | H]; try discriminate; lra.
    + destruct (Rle_dec ur (rie_u_NCR pr gr pl rr ul)) as [C2 | C2].
      * (* SCR *) intros _ Hcall. cbn [ig_call] in Hcall. rewrite Escr in Hcall.
        assert (Hinc : forall x y, 0 < x -> x < y -> SL x - RR x + (ur - ul) < SL y - RR y + (ur - ul)).
        { intros x y Hx Hxy. pose proof (SL_inc x y Hx Hxy). pose proof (RR_dec x y Hx Hxy). lra. }
        assert (Hlt : px < pr).
        { apply (inc_root_lt (fun x => SL x - RR x + (ur - ul))); try assumption. rewrite E4. lra. }
        assert (Hge : pl <= px).
        { apply (inc_root_ge (fun x => SL x - RR x + (ur - ul))); try assumption. rewrite E1. lra. }
        repeat split; intros [H | H]; try discriminate; lra.
      * destruct (Rle_dec ur (rie_u_RCVR pr gr rr (ig_ul_tilde pl rl ul gl))) as [C3 | C3]; [ | intros Hn; exfalso; apply Hn; reflexivity ].
        (* RCR *) intros _ Hcall. cbn [ig_call] in Hcall. rewrite Ercr in Hcall.
        assert (Hlt : px < pl).
        { apply (dec_root_lt (fun x => RR x + RL x - (ur - ul))); try assumption.
          - intros x y Hx Hxy. pose proof (RL_dec x y Hx Hxy). pose proof (RR_dec x y Hx Hxy). lra.
          - rewrite E3. lra. }
        repeat split; intros [H | H]; try discriminate; lra.
  - assert (Hrl' : pr < pl) by lra.
    destruct (Rle_dec ur (rie_u_NCS pr gr pl rr ul)) as [C1 | C1].
    + (* SCS *) intros _ Hcall. cbn [ig_call] in Hcall. rewrite Escs in Hcall.
      assert (Hge : pl <= px).
      { apply (inc_root_ge (fun x => SR x + SL x + (ur - ul))); try assumption.
        - intros x y Hx Hxy. pose proof (SL_inc x y Hx Hxy). pose proof (SR_inc x y Hx Hxy). lra.
        - rewrite E1. lra. }
      repeat split; intros [H | H]; try discriminate; lra.
    + destruct (Rle_dec ur (rie_u_RCN pr (rie_sound_speed pl rl gl) gl pl ul)) as [C2 | C2].
      * (* RCS *) intros _ Hcall. cbn [ig_call] in Hcall. rewrite Ercs in Hcall.
        assert (Hinc : forall x y, 0 < x -> x < y -> SR x - RL x + (ur - ul) < SR y - RL y + (ur - ul)).
        { intros x y Hx Hxy. pose proof (SR_inc x y Hx Hxy). pose proof (RL_dec x y Hx Hxy). lra. }
        assert (Hlt : px < pl).
        { apply (inc_root_lt (fun x => SR x - RL x + (ur - ul))); try assumption. rewrite E3. lra. }
        assert (Hge : pr <= px).
        { apply (inc_root_ge (fun x => SR x - RL x + (ur - ul))); try assumption. rewrite E2. lra. }
        repeat split; intros [H | H]; try discriminate; lra.
      * destruct (Rle_dec ur (rie_u_RCVR pr gr rr (ig_ul_tilde pl rl ul gl))) as [C3 | C3]; [ | intros Hn; exfalso; apply Hn; reflexivity ].
        (* RCR *) intros _ Hcall. cbn [ig_call] in Hcall. rewrite Ercr in Hcall.
        assert (Hlt : px < pr).
        { apply (dec_root_lt (fun x => RR x + RL x - (ur - ul))); try assumption.
          - intros x y Hx Hxy. pose proof (RL_dec x y Hx Hxy). pose proof (RR_dec x y Hx Hxy). lra.
          - rewrite E4. lra. }
        repeat split; intros [H | H]; try discriminate; lra.
Qed.
End Classify.

(* ---- monotone fans ---- *)
Section FanMono.
Variables g P0 R0 u0 xd0 s t : R.
Hypothesis Hg : 1 < g.
Hypothesis HP : 0 < P0.
Hypothesis HR : 0 < R0.
Hypothesis Hs : s * s = 1.
Hypothesis Ht : 0 < t.

(* moving in the direction s (from the head towards the tail) lowers Y *)
Lemma fan_Y_decreasing : forall x1 x2, 0 < s * (x2 - x1) -> sw_Y g P0 R0 u0 xd0 s x2 t < sw_Y g P0 R0 u0 xd0 s x1 t.
Proof.
  intros x1 x2 H. pose proof (a_pos g P0 R0 Hg HP HR) as Ha.
  rewrite (fan_Y_affine g P0 R0 u0 xd0 s Hg HP HR x2 x1 t) by lra.
  assert (0 < s * (g - 1) / sw_a g P0 R0 / (g + 1) * (x2 - x1) / t).
  { replace (s * (g - 1) / sw_a g P0 R0 / (g + 1) * (x2 - x1) / t) with (s * (x2 - x1) * ((g - 1) / sw_a g P0 R0 / (g + 1) / t)) by (field; repeat split; lra).
    apply Rmult_lt_0_compat; [ exact H | ]. repeat apply Rdiv_lt_0_compat; lra. }
  lra.
Qed.

Lemma fan_fields_monotone : forall x1 x2, 0 < s * (x2 - x1) -> 0 < sw_Y g P0 R0 u0 xd0 s x2 t ->
  sw_rho g P0 R0 u0 xd0 s x2 t < sw_rho g P0 R0 u0 xd0 s x1 t /\
  sw_p g P0 R0 u0 xd0 s x2 t < sw_p g P0 R0 u0 xd0 s x1 t /\
  (x1 < x2 -> sw_u g P0 R0 u0 xd0 s x1 t < sw_u g P0 R0 u0 xd0 s x2 t).
Proof.
  intros x1 x2 H HY. pose proof (fan_Y_decreasing x1 x2 H) as HYd.
  unfold sw_rho, sw_p, sw_u.
  repeat split.
  - apply Rmult_lt_compat_l; [ exact HR | ]. apply Rlt_Rpower_l; [ apply Rdiv_lt_0_compat; lra | lra ].
  - apply Rmult_lt_compat_l; [ exact HP | ]. apply Rlt_Rpower_l; [ apply Rdiv_lt_0_compat; nra | lra ].
  - intros Hx. apply Rmult_lt_compat_r; [ apply Rinv_0_lt_compat; lra | ].
    apply Rmult_lt_compat_l; [ lra | ]. apply Rplus_lt_compat_l.
    apply Rmult_lt_compat_r; [ apply Rinv_0_lt_compat; exact Ht | lra ].
Qed.
End FanMono.

Lemma igeos_left_fan_monotone_proof : forall xd0 t gl pl rl ul x1 x2,
  0 < t -> 0 < pl -> 0 < rl -> 1 < gl -> x1 < x2 -> 0 < sw_Y gl pl rl ul xd0 1 x2 t ->
  rie_fanL_rho x2 xd0 t gl pl rl ul < rie_fanL_rho x1 xd0 t gl pl rl ul /\
  rie_fanL_p x2 xd0 t gl pl rl ul < rie_fanL_p x1 xd0 t gl pl rl ul /\
  rie_fanL_u x1 xd0 t gl pl rl ul < rie_fanL_u x2 xd0 t gl pl rl ul.
Proof.
  intros xd0 t gl pl rl ul x1 x2 Ht Hp Hr Hg Hx HY.
  destruct (fanL_is_simple_wave xd0 gl pl rl ul) as (E1 & E2 & E3).
  pose proof (fun x => f_equal (fun f => f x t) E1) as F1. pose proof (fun x => f_equal (fun f => f x t) E2) as F2.
  pose proof (fun x => f_equal (fun f => f x t) E3) as F3. cbv beta in F1, F2, F3.
  rewrite !F1, !F2, !F3.
  assert (Hdir : 0 < 1 * (x2 - x1)) by lra.
  destruct (fan_fields_monotone gl pl rl ul xd0 1 t Hg Hp Hr Ht x1 x2 Hdir HY) as (A & B & C).
  split; [ exact A | split; [ exact B | exact (C Hx) ] ].
Qed.

Lemma igeos_right_fan_monotone_proof : forall xd0 t gr pl pr rl rr ul ur x1 x2,
  0 < t -> 0 < pr -> 0 < rr -> 1 < gr -> ~ (pr = pl /\ ur = ul /\ rr = rl) ->
  x1 < x2 -> 0 < sw_Y gr pr rr ur xd0 (-1) x1 t ->
  rie_fanR_rho x1 xd0 t gr pl pr rl rr ul ur < rie_fanR_rho x2 xd0 t gr pl pr rl rr ul ur /\
  rie_fanR_p x1 xd0 t gr pl pr rl rr ul ur < rie_fanR_p x2 xd0 t gr pl pr rl rr ul ur /\
  rie_fanR_u x1 xd0 t gr pl pr rl rr ul ur < rie_fanR_u x2 xd0 t gr pl pr rl rr ul ur.
Proof.
  intros xd0 t gr pl pr rl rr ul ur x1 x2 Ht Hp Hr Hg Hd Hx HY.
  destruct (fanR_is_simple_wave xd0 gr pl pr rl rr ul ur Hd) as (E1 & E2 & E3).
  pose proof (fun x => f_equal (fun f => f x t) E1) as F1. pose proof (fun x => f_equal (fun f => f x t) E2) as F2.
  pose proof (fun x => f_equal (fun f => f x t) E3) as F3. cbv beta in F1, F2, F3.
  rewrite !F1, !F2, !F3.
  assert (Hdir : 0 < -1 * (x1 - x2)) by lra.
  destruct (fan_fields_monotone gr pr rr ur xd0 (-1) t Hg Hp Hr Ht x2 x1 Hdir HY) as (A & B & C).
  split; [ exact A | split; [ exact B | ] ].
  (* u increases with x whatever the family *)
  unfold sw_u. apply Rmult_lt_compat_r; [ apply Rinv_0_lt_compat; lra | ].
  apply Rmult_lt_compat_l; [ lra | ]. apply Rplus_lt_compat_l.
  apply Rmult_lt_compat_r; [ apply Rinv_0_lt_compat; exact Ht | lra ].
Qed.

(* ---- star states are positive ---- *)
Lemma star_states_positive_proof : forall p r g px, 0 < p -> 0 < r -> 1 < g -> 0 < px ->
  0 < rie_rho_star_shock px p r g /\ 0 < rie_rho_star_rarefaction px p r g /\
  0 < rie_sie px (rie_rho_star_shock px p r g) g /\ 0 < rie_sie px (rie_rho_star_rarefaction px p r g) g /\
  0 < rie_sound_speed px (rie_rho_star_shock px p r g) g /\ 0 < rie_sound_speed px (rie_rho_star_rarefaction px p r g) g.
Proof.
  intros p r g px Hp Hr Hg Hpx.
  assert (A : 0 < rie_rho_star_shock px p r g).
  { unfold rie_rho_star_shock. apply Rdiv_lt_0_compat; [ apply Rmult_lt_0_compat; [ exact Hr | nra ] | nra ]. }
  assert (B : 0 < rie_rho_star_rarefaction px p r g).
  { unfold rie_rho_star_rarefaction. apply Rmult_lt_0_compat; [ exact Hr | unfold Rpower; apply exp_pos ]. }
  repeat split; try assumption.
  - unfold rie_sie. apply Rdiv_lt_0_compat; [ apply Rdiv_lt_0_compat; lra | assumption ].
  - unfold rie_sie. apply Rdiv_lt_0_compat; [ apply Rdiv_lt_0_compat; lra | assumption ].
  - unfold rie_sound_speed. apply sqrt_lt_R0. apply Rdiv_lt_0_compat; [ nra | exact A ].
  - unfold rie_sound_speed. apply sqrt_lt_R0. apply Rdiv_lt_0_compat; [ nra | exact B ].
Qed.

(* compressive shocks: with the admissible side of the classification, density rises across each shock *)
Lemma shock_density_rise_proof : forall p r g px, 0 < p -> 0 < r -> 1 < g -> p <= px -> r <= rie_rho_star_shock px p r g.
Proof. intros. apply rho_star_shock_ge; assumption. Qed.

Lemma fan_density_drop_proof : forall p r g px, 0 < p -> 0 < r -> 1 < g -> 0 < px -> px <= p -> rie_rho_star_rarefaction px p r g <= r.
Proof. intros. apply rho_star_fan_le; assumption. Qed.
