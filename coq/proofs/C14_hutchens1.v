(* C14 for Hutchens 1 (sphere of radius b, surface at Tb, uniform initial temperature T0), on the regenerated series (gen/Hutchens1.v):
   for EVERY number of terms Nsum
   - the returned temperature satisfies the spherically symmetric heat equation T_t = alpha (T_rr + 2 T_r / r), alpha = k / (rho cp), at every r > 0;
   - T(b, t) = Tb for all t;
   - the value coded for r = 0 is the limit of the r > 0 expression as r -> 0 (the field is continuous at the centre). *)
From Coq Require Import Reals Lra Lia Psatz.
From Coquelicot Require Import Coquelicot.
From EP Require Import lib.Base lib.Series gen.Hutchens1.
Open Scope R_scope.

Section H1.
Variables k cp rho b Tb T0 Nsum : R.
Hypothesis Hb : b <> 0.
Hypothesis Hrc : rho * cp <> 0.
Let alpha := k / (rho * cp).
Let T := fun r t => h1_temperature T0 Tb b cp k rho Nsum r t.

(* the r <> 0 form of a term and its r-derivatives *)
Definition h1_pos (n r t : R) : R := altsign n / n * (2 * b / (PI * r) * sin (PI * n / b * r)) * exp (- (k / (rho * cp)) * (PI * n / b) ^ 2 * t).
Definition h1_pos_r (n r t : R) : R :=
  altsign n / n * (2 * b / PI) * (PI * n / b * cos (PI * n / b * r) / r - sin (PI * n / b * r) / r ^ 2) * exp (- (k / (rho * cp)) * (PI * n / b) ^ 2 * t).
Definition h1_pos_rr (n r t : R) : R :=
  altsign n / n * (2 * b / PI) * (- (PI * n / b) ^ 2 * sin (PI * n / b * r) / r - 2 * (PI * n / b) * cos (PI * n / b * r) / r ^ 2 + 2 * sin (PI * n / b * r) / r ^ 3)
  * exp (- (k / (rho * cp)) * (PI * n / b) ^ 2 * t).

Lemma h1_term_pos : forall n r t, r <> 0 -> h1_term k cp rho b n r t = h1_pos n r t.
Proof. intros n r t Hr. unfold h1_term, h1_pos. destruct (Req_EM_T r 0) as [E | E]; [ contradiction | reflexivity ]. Qed.

Lemma h1_pos_dr : forall n r t, r <> 0 -> is_derive (fun y => h1_pos n y t) r (h1_pos_r n r t).
Proof.
  intros n r t Hr. unfold h1_pos, h1_pos_r. auto_derive.
  - repeat split; try exact I. apply Rmult_integral_contrapositive_currified; [ apply PI_neq0 | exact Hr ].
  - match goal with |- @eq _ ?x ?y => change (@eq R x y) end. replace (- (k / (rho * cp)) * (PI * n / b * (PI * n / b * 1)) * t) with (- (k / (rho * cp)) * (PI * n / b) ^ 2 * t) by ring. set (c := altsign n / n). field. repeat split; try assumption; apply PI_neq0.
Qed.

Lemma h1_pos_drr : forall n r t, r <> 0 -> is_derive (fun y => h1_pos_r n y t) r (h1_pos_rr n r t).
Proof.
  intros n r t Hr. unfold h1_pos_r, h1_pos_rr. auto_derive.
  - repeat split; try exact I; try exact Hr. apply Rmult_integral_contrapositive_currified; [ exact Hr | lra || (apply Rmult_integral_contrapositive_currified; [ exact Hr | lra ]) ].
  - match goal with |- @eq _ ?x ?y => change (@eq R x y) end. replace (- (k / (rho * cp)) * (PI * n / b * (PI * n / b * 1)) * t) with (- (k / (rho * cp)) * (PI * n / b) ^ 2 * t) by ring. set (c := altsign n / n). field. repeat split; try assumption; apply PI_neq0.
Qed.

Lemma h1_pos_dt : forall n r t, is_derive (fun s => h1_pos n r s) t (- (k / (rho * cp)) * (PI * n / b) ^ 2 * h1_pos n r t).
Proof.
  intros n r t. unfold h1_pos. auto_derive; [ exact I | ].
  match goal with |- @eq _ ?x ?y => change (@eq R x y) end. replace (- (k / (rho * cp)) * (PI * n / b * (PI * n / b * 1)) * t) with (- (k / (rho * cp)) * (PI * n / b) ^ 2 * t) by ring. ring.
Qed.

Lemma h1_pos_pde : forall n r t, r <> 0 -> - (k / (rho * cp)) * (PI * n / b) ^ 2 * h1_pos n r t = k / (rho * cp) * (h1_pos_rr n r t + 2 / r * h1_pos_r n r t).
Proof. intros n r t Hr. unfold h1_pos, h1_pos_r, h1_pos_rr. set (c := altsign n / n). set (al := k / (rho * cp)). field. repeat split; try assumption; apply PI_neq0. Qed.

(* transfer from the r <> 0 form to the generated term (which tests r = 0) in a neighbourhood of r <> 0 *)
Lemma locally_nonzero : forall r : R, r <> 0 -> locally r (fun y : R => y <> 0).
Proof.
  intros r Hr. assert (Hp : 0 < Rabs r / 2) by (assert (0 < Rabs r) by (apply Rabs_pos_lt; exact Hr); lra).
  exists (mkposreal _ Hp). intros y Hy. simpl in Hy. unfold ball in Hy; simpl in Hy. unfold AbsRing_ball, abs, minus, plus, opp in Hy; simpl in Hy.
  intro E. rewrite E in Hy. replace (0 + - r) with (- r) in Hy by ring. rewrite Rabs_Ropp in Hy. lra.
Qed.

Lemma h1_sum_dr : forall r t, r <> 0 ->
  is_derive (fun y => sum_range (fun n => h1_term k cp rho b n y t) 1 Nsum) r (sum_range (fun n => h1_pos_r n r t) 1 Nsum).
Proof.
  intros r t Hr.
  apply (is_derive_ext_loc (fun y => sum_range (fun n => h1_pos n y t) 1 Nsum)).
  - generalize (locally_nonzero r Hr). apply filter_imp. intros y Hy. apply sum_range_ext. intros n. symmetry. apply h1_term_pos. exact Hy.
  - apply (is_derive_sum_range (fun n y => h1_pos n y t)). intros n. apply h1_pos_dr. exact Hr.
Qed.

Lemma hutchens1_heat_equation_proof : forall r t, r <> 0 ->
  exists (Tr : R -> R) (Trr Tt : R),
    locally r (fun y => is_derive (fun z => T z t) y (Tr y)) /\ is_derive Tr r Trr /\ is_derive (fun s => T r s) t Tt /\
    Tt = alpha * (Trr + 2 / r * Tr r).
Proof.
  intros r t Hr.
  exists (fun y => (Tb - T0) * sum_range (fun n => h1_pos_r n y t) 1 Nsum),
         ((Tb - T0) * sum_range (fun n => h1_pos_rr n r t) 1 Nsum),
         ((Tb - T0) * sum_range (fun n => - (k / (rho * cp)) * (PI * n / b) ^ 2 * h1_pos n r t) 1 Nsum).
  split; [ | split; [ | split ] ].
  - generalize (locally_nonzero r Hr). apply filter_imp. intros y Hy. unfold T, h1_temperature, h1_assemble.
    replace ((Tb - T0) * sum_range (fun n => h1_pos_r n y t) 1 Nsum) with (0 + (Tb - T0) * sum_range (fun n => h1_pos_r n y t) 1 Nsum) by ring.
    apply (is_derive_plus (fun _ => Tb) (fun z => (Tb - T0) * sum_range (fun n => h1_term k cp rho b n z t) 1 Nsum)); [ apply (is_derive_const Tb y) | ].
    apply (is_derive_scal (fun z => sum_range (fun n => h1_term k cp rho b n z t) 1 Nsum) y (Tb - T0)). apply h1_sum_dr. exact Hy.
  - apply (is_derive_scal (fun y => sum_range (fun n => h1_pos_r n y t) 1 Nsum) r (Tb - T0)).
    apply (is_derive_sum_range (fun n y => h1_pos_r n y t)). intros n. apply h1_pos_drr. exact Hr.
  - unfold T, h1_temperature, h1_assemble.
    replace ((Tb - T0) * sum_range (fun n => - (k / (rho * cp)) * (PI * n / b) ^ 2 * h1_pos n r t) 1 Nsum)
      with (0 + (Tb - T0) * sum_range (fun n => - (k / (rho * cp)) * (PI * n / b) ^ 2 * h1_pos n r t) 1 Nsum) by ring.
    apply (is_derive_plus (fun _ => Tb) (fun s => (Tb - T0) * sum_range (fun n => h1_term k cp rho b n r s) 1 Nsum)); [ apply (is_derive_const Tb t) | ].
    apply (is_derive_scal (fun s => sum_range (fun n => h1_term k cp rho b n r s) 1 Nsum) t (Tb - T0)).
    apply (is_derive_ext (fun s => sum_range (fun n => h1_pos n r s) 1 Nsum)).
    + intros s. apply sum_range_ext. intros n. symmetry. apply h1_term_pos. exact Hr.
    + apply (is_derive_sum_range (fun n s => h1_pos n r s)). intros n. apply h1_pos_dt.
  - unfold alpha.
    replace (k / (rho * cp) * ((Tb - T0) * sum_range (fun n => h1_pos_rr n r t) 1 Nsum + 2 / r * ((Tb - T0) * sum_range (fun n => h1_pos_r n r t) 1 Nsum)))
      with ((Tb - T0) * (k / (rho * cp) * sum_range (fun n => h1_pos_rr n r t) 1 Nsum + k / (rho * cp) * (2 / r) * sum_range (fun n => h1_pos_r n r t) 1 Nsum)) by ring.
    f_equal. rewrite <- !sum_range_scal. unfold sum_range. rewrite <- sum_from_plus. apply sum_from_ext. intros n _.
    rewrite (h1_pos_pde (INR n) r t Hr). ring.
Qed.

(* surface *)
Lemma hutchens1_boundary_proof : forall t, T b t = Tb.
Proof.
  intros t. unfold T, h1_temperature, h1_assemble. rewrite sum_range_zero; [ ring | ].
  intros n. rewrite h1_term_pos by exact Hb. unfold h1_pos.
  replace (PI * INR n / b * b) with (INR n * PI) by (field; exact Hb). rewrite sin_INR_PI. ring.
Qed.

(* centre: the coded r = 0 branch is the limit of the r <> 0 expression *)
Lemma sinc_lim : forall kk, filterlim (fun r => sin (kk * r) / r) (locally' 0) (locally kk).
Proof.
  intros kk.
  assert (D : derivable_pt_lim (fun r => sin (kk * r)) 0 kk).
  { apply is_derive_Reals. auto_derive; [ exact I | ]. rewrite Rmult_0_r, cos_0. ring. }
  apply filterlim_locally. intros eps. destruct (D eps (cond_pos eps)) as [delta Hd].
  exists delta. intros y Hy Hne.
  assert (Hy' : Rabs y < delta).
  { unfold ball in Hy; simpl in Hy. unfold AbsRing_ball, abs, minus, plus, opp in Hy; simpl in Hy. rewrite Ropp_0, Rplus_0_r in Hy. exact Hy. }
  specialize (Hd y Hne Hy'). rewrite Rplus_0_l, Rmult_0_r, sin_0, Rminus_0_r in Hd.
  unfold ball; simpl. unfold AbsRing_ball, abs, minus, plus, opp; simpl. exact Hd.
Qed.

Definition h1_zero (n t : R) : R := altsign n / n * (2 * b / PI * (PI * n / b)) * exp (- (k / (rho * cp)) * (PI * n / b) ^ 2 * t).

Lemma h1_term_zero : forall n t, h1_term k cp rho b n 0 t = h1_zero n t.
Proof. intros n t. unfold h1_term, h1_zero. destruct (Req_EM_T 0 0) as [E | E]; [ reflexivity | contradiction E; reflexivity ]. Qed.

Lemma h1_term_centre_lim : forall n t, filterlim (fun r => h1_term k cp rho b n r t) (locally' 0) (locally (h1_term k cp rho b n 0 t)).
Proof.
  intros n t. rewrite h1_term_zero.
  apply (filterlim_within_ext (fun y => y <> 0) (fun r => h1_pos n r t)).
  - intros r Hr. symmetry. apply h1_term_pos. exact Hr.
  - set (K := altsign n / n * (2 * b / PI) * exp (- (k / (rho * cp)) * (PI * n / b) ^ 2 * t)).
    apply (filterlim_within_ext (fun y => y <> 0) (fun r => K * (sin (PI * n / b * r) / r))).
    + intros r Hr. unfold h1_pos, K. set (c := altsign n / n). field. split; [ exact Hr | apply PI_neq0 ].
    + replace (h1_zero n t) with (K * (PI * n / b)) by (unfold h1_zero, K; ring).
      apply (filterlim_comp _ _ _ (fun r => sin (PI * n / b * r) / r) (fun z => K * z) (locally' 0) (locally (PI * n / b)) (locally (K * (PI * n / b)))).
      * apply sinc_lim.
      * apply (filterlim_scal_r K (PI * n / b)).
Qed.

Lemma hutchens1_centre_proof : forall t, filterlim (fun r => T r t) (locally' 0) (locally (T 0 t)).
Proof.
  intros t. unfold T, h1_temperature, h1_assemble.
  apply (filterlim_comp _ _ _ (fun r => sum_range (fun n => h1_term k cp rho b n r t) 1 Nsum) (fun s => Tb + (Tb - T0) * s) (locally' 0)
           (locally (sum_range (fun n => h1_term k cp rho b n 0 t) 1 Nsum))).
  - unfold sum_range. apply (filterlim_sum_from (locally' 0) (fun n r => h1_term k cp rho b n r t) (fun n => h1_term k cp rho b n 0 t)).
    intros n _. apply h1_term_centre_lim.
  - apply (continuous_plus (fun _ => Tb) (fun s => (Tb - T0) * s)); [ apply continuous_const | ].
    apply (continuous_scal_r (Tb - T0) (fun s : R => s)). apply continuous_id.
Qed.
End H1.
