(* Steady detonation reaction zone (sdrz.py:run_tvec, generated: gen/Sdrz.v): at every reaction progress 0 <= lambda <= 1 the
   algebraic state conserves the mass flux rho (D - u) = rho_0 D and the momentum flux p + rho (D - u)^2 = rho_0 D^2 in the
   frame of the front (C02); pressure, density and sound speed are positive and 0 <= u < D (C17); c^2 = gamma p / rho (C03). *)
From Coq Require Import Reals Lra Psatz.
From EP Require Import lib.Base gen.Sdrz.
Open Scope R_scope.

Section Zone.
Variables lam D rho_0 gamma : R.
Hypothesis HD : 0 < D.
Hypothesis Hr : 0 < rho_0.
Hypothesis Hg : 1 < gamma.
Hypothesis Hl : 0 <= lam <= 1.

Lemma f_is_one : (D / D) ^ 2 = 1.
Proof. replace (D / D) with 1 by (field; lra). ring. Qed.

Lemma g_range : 0 <= sdrz_g lam D <= 1.
Proof.
  unfold sdrz_g. rewrite f_is_one. replace (lam / 1) with lam by field.
  split; [ apply sqrt_pos | ]. destruct Hl as (L0 & L1). apply (Rle_trans _ (sqrt 1)); [ apply sqrt_le_1_alt; lra | rewrite sqrt_1; lra ].
Qed.

Lemma sdrz_fluxes_proof :
  sdrz_rho lam D rho_0 gamma * (D - sdrz_u lam D rho_0 gamma) = rho_0 * D /\
  sdrz_p lam D rho_0 gamma + sdrz_rho lam D rho_0 gamma * (D - sdrz_u lam D rho_0 gamma) ^ 2 = rho_0 * D ^ 2.
Proof.
  pose proof g_range as (G0 & G1). unfold sdrz_rho, sdrz_u, sdrz_p. fold (sdrz_g lam D).
  set (g := sdrz_g lam D) in *. rewrite f_is_one. clearbody g.
  split; field; repeat split; lra.
Qed.

Lemma sdrz_admissible_proof :
  0 < sdrz_p lam D rho_0 gamma /\ 0 < sdrz_rho lam D rho_0 gamma /\ rho_0 < sdrz_rho lam D rho_0 gamma /\
  0 < sdrz_u lam D rho_0 gamma < D.
Proof.
  pose proof g_range as (G0 & G1). unfold sdrz_rho, sdrz_u, sdrz_p. fold (sdrz_g lam D).
  set (g := sdrz_g lam D) in *. rewrite f_is_one. clearbody g.
  assert (Hden : 0 < gamma - g) by lra.
  assert (Hrho : rho_0 * (gamma + 1) / gamma * gamma / (gamma - g) = rho_0 * (gamma + 1) / (gamma - g)) by (field; split; lra).
  rewrite Hrho.
  assert (Hq : 1 < (gamma + 1) / (gamma - g)).
  { apply (Rmult_lt_reg_r (gamma - g)); [ exact Hden | ]. replace ((gamma + 1) / (gamma - g) * (gamma - g)) with (gamma + 1) by (field; lra). lra. }
  assert (Hrr : rho_0 < rho_0 * (gamma + 1) / (gamma - g)).
  { replace (rho_0 * (gamma + 1) / (gamma - g)) with (rho_0 * ((gamma + 1) / (gamma - g))) by (field; lra). nra. }
  repeat split.
  - apply Rmult_lt_0_compat; [ | lra ]. rewrite Rmult_1_l. apply Rdiv_lt_0_compat; [ apply Rmult_lt_0_compat; [ lra | apply pow_lt; lra ] | lra ].
  - lra.
  - exact Hrr.
  - replace (rho_0 / (rho_0 * (gamma + 1) / (gamma - g))) with ((gamma - g) / (gamma + 1)) by (field; repeat split; lra).
    assert ((gamma - g) / (gamma + 1) < 1).
    { apply (Rmult_lt_reg_r (gamma + 1)); [ lra | ]. replace ((gamma - g) / (gamma + 1) * (gamma + 1)) with (gamma - g) by (field; lra). lra. }
    nra.
  - replace (rho_0 / (rho_0 * (gamma + 1) / (gamma - g))) with ((gamma - g) / (gamma + 1)) by (field; repeat split; lra).
    assert (0 < (gamma - g) / (gamma + 1)) by (apply Rdiv_lt_0_compat; lra). nra.
Qed.

Lemma sdrz_sound_speed_proof :
  sdrz_cs lam D rho_0 gamma ^ 2 = gamma * sdrz_p lam D rho_0 gamma / sdrz_rho lam D rho_0 gamma.
Proof.
  destruct sdrz_admissible_proof as (Hp & Hrho & _ & _).
  unfold sdrz_cs. fold (sdrz_p lam D rho_0 gamma) (sdrz_rho lam D rho_0 gamma).
  replace (sqrt (gamma * sdrz_p lam D rho_0 gamma / sdrz_rho lam D rho_0 gamma) ^ 2)
    with (sqrt (gamma * sdrz_p lam D rho_0 gamma / sdrz_rho lam D rho_0 gamma) * sqrt (gamma * sdrz_p lam D rho_0 gamma / sdrz_rho lam D rho_0 gamma)) by ring.
  apply sqrt_sqrt. apply Rlt_le. apply Rdiv_lt_0_compat; [ nra | exact Hrho ].
Qed.
End Zone.
