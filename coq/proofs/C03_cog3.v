(* C03 for cog3: returned thermodynamic fields satisfy the declared EOS. P = Gamma rho T, e = Gamma T/(gamma-1) with the built-in gamma = (((geometry - 1) - 1) / ((geometry - 1) + 1)) *)
From Coq Require Import Reals Lra.
From EP Require Import lib.Base lib.Tactics gen.Cog3.
Open Scope R_scope.

Lemma cog3_eos_proof :
  forall geometry rho0 b v Gamma r t,
  cog3_defined geometry rho0 b v Gamma r t ->
  cog3_density geometry rho0 b v Gamma r t <> 0 ->
  (((geometry - 1) - 1) / ((geometry - 1) + 1)) - 1 <> 0 ->
  cog3_pressure geometry rho0 b v Gamma r t = Gamma * (cog3_density geometry rho0 b v Gamma r t) * (cog3_temperature geometry rho0 b v Gamma r t) /\
  cog3_specific_internal_energy geometry rho0 b v Gamma r t = Gamma * (cog3_temperature geometry rho0 b v Gamma r t) / ((((geometry - 1) - 1) / ((geometry - 1) + 1)) - 1) /\
  cog3_pressure geometry rho0 b v Gamma r t = ((((geometry - 1) - 1) / ((geometry - 1) + 1)) - 1) * (cog3_density geometry rho0 b v Gamma r t) * (cog3_specific_internal_energy geometry rho0 b v Gamma r t).
Proof. unfold cog3_defined. eos_solve. Qed.
