(* C03 (RMTV): the fields rmtv_1d returns behind the heat front satisfy  P = (gamma-1) rho e,  P = Gamma rho T  and
   e = Gamma T / (gamma-1)  in the solver's output units (T in eV, P and e in cgs: 1 jerk/(g keV) = 1e13 erg/(g eV)). *)
From Coq Require Import Reals Lra.
From EP Require Import lib.Base gen.Rmtv.
Open Scope R_scope.

Lemma rmtv_eos_proof : forall alpha bigamma g0 gamma kappa rpos sigma time xi_end y1 y3,
  gamma <> 1 -> bigamma <> 0 -> time <> 0 ->
  let rho := rmtv_density g0 kappa rpos sigma xi_end y1 in
  let T := rmtv_temperature alpha bigamma rpos time y3 in
  let e := rmtv_energy alpha gamma rpos time y3 in
  let P := rmtv_pressure alpha g0 gamma kappa rpos sigma time xi_end y1 y3 in
  P = (gamma - 1) * rho * e /\ P = 10 ^ 13 * (bigamma * rho * T) /\ e = 10 ^ 13 * (bigamma * T / (gamma - 1)).
Proof.
  intros alpha bigamma g0 gamma kappa rpos sigma time xi_end y1 y3 Hg Hb Ht rho T e P.
  unfold P, rho, T, e, rmtv_pressure, rmtv_density, rmtv_temperature, rmtv_energy.
  set (a := Rpower rpos kappa). set (b := Rpower xi_end sigma).
  assert (gamma - 1 <> 0) by lra.
  repeat split; field; repeat split; assumption.
Qed.
