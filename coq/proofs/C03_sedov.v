(* C03 for Sedov: the energy and sound speed assembled at the end of _run and in physical() satisfy p = (gamma - 1) rho e and c^2 = gamma p / rho. *)
From Coq Require Import Reals Lra Psatz.
From EP Require Import lib.Base gen.SedovEos.
Open Scope R_scope.

Lemma sedov_run_eos_proof : forall gamma pressure density, gamma - 1 <> 0 -> 0 < density -> 0 <= gamma * pressure ->
  pressure = (gamma - 1) * density * sed_run_sie gamma pressure density /\
  sed_run_snd gamma pressure density ^ 2 = gamma * pressure / density.
Proof.
  intros gamma pressure density Hg Hd Hp. unfold sed_run_sie, sed_run_snd. split.
  - field. split; lra.
  - simpl. rewrite Rmult_1_r. apply sqrt_sqrt. apply Rmult_le_pos; [ exact Hp | apply Rlt_le, Rinv_0_lt_compat; exact Hd ].
Qed.

Lemma sedov_physical_eos_proof : forall gamma rho2 p2 g_fun h_fun, gamma - 1 <> 0 -> 0 < rho2 * g_fun -> 0 <= gamma * (p2 * h_fun) ->
  sed_phys_prs p2 h_fun = (gamma - 1) * sed_phys_den rho2 g_fun * sed_phys_sie gamma rho2 p2 g_fun h_fun /\
  sed_phys_snd gamma rho2 p2 g_fun h_fun ^ 2 = gamma * sed_phys_prs p2 h_fun / sed_phys_den rho2 g_fun.
Proof.
  intros gamma rho2 p2 g_fun h_fun Hg Hd Hp. unfold sed_phys_prs, sed_phys_den, sed_phys_sie, sed_phys_snd.
  destruct (Rlt_dec 0 (rho2 * g_fun)) as [H | H]; [ | contradiction ].
  assert (Hr : rho2 <> 0) by (intro E; rewrite E in Hd; lra). assert (Hgf : g_fun <> 0) by (intro E; rewrite E in Hd; lra).
  split.
  - field. repeat split; assumption.
  - simpl. rewrite Rmult_1_r. apply sqrt_sqrt. apply Rmult_le_pos; [ exact Hp | apply Rlt_le, Rinv_0_lt_compat; exact Hd ].
Qed.

(* vacuum (density 0): physical() returns zero energy and sound speed instead of dividing by zero *)
Lemma sedov_physical_vacuum_proof : forall gamma rho2 p2 g_fun h_fun, rho2 * g_fun <= 0 ->
  sed_phys_sie gamma rho2 p2 g_fun h_fun = 0 /\ sed_phys_snd gamma rho2 p2 g_fun h_fun = 0.
Proof.
  intros gamma rho2 p2 g_fun h_fun H. unfold sed_phys_sie, sed_phys_snd. destruct (Rlt_dec 0 (rho2 * g_fun)) as [H' | H']; [ lra | split; reflexivity ].
Qed.
