(* C07: every geometry-specific wrapper class is the general class with that geometry: it defines no _run of
   its own and fixes the class attribute `geometry` to the value its name announces (exhaustive over the
   regenerated catalogue; Python attribute lookup then makes the wrapper behave as the general class with that geometry). *)
From Coq Require Import List String Bool Arith.
From EP Require Import gen.Catalogue model.Api.
Import ListNotations.
Open Scope string_scope.

Definition announced_geometry (cls : string) : option nat :=
  if prefix "Planar" cls then Some 1
  else if prefix "Cylindrical" cls then Some 2
  else if prefix "Spherical" cls then Some 3
  else None.

Definition opt_nat_eqb (a b : option nat) : bool :=
  match a, b with Some x, Some y => Nat.eqb x y | None, None => true | _, _ => false end.

(* PlanarSandwich* are heat problems, not geometry wrappers *)
Definition is_geometry_wrapper (s : solver_desc) : bool :=
  match announced_geometry (s_class s) with
  | Some _ => negb (prefix "PlanarSandwich" (s_class s)) && negb (match s_bases s with [] => true | _ => false end)
  | None => false
  end.

Definition wrapper_ok (s : solver_desc) : bool :=
  negb (is_geometry_wrapper s) ||
  (opt_nat_eqb (s_geometry_default s) (announced_geometry (s_class s)) &&
   negb (mem "_run" (s_own_methods s)) && negb (mem "__call__" (s_own_methods s))).

Lemma wrappers_are_general_class_proof : forallb wrapper_ok all_solvers = true.
Proof. vm_compute. reflexivity. Qed.

Lemma wrappers_counted_proof : 60 <= List.length (filter is_geometry_wrapper all_solvers).
Proof. vm_compute. repeat constructor. Qed.
