(* C13: burn times are causal first-arrival times of a front moving at speed D (and C09/C07 facts about the
   same models: rigid-motion invariance, 2-D = 3-D on the common plane). *)
From Coq Require Import Reals Lra Psatz.
From Coquelicot Require Import Coquelicot.
From EP Require Import lib.Base lib.Euclid lib.Tactics model.Burn.
Open Scope R_scope.

(* ---------------- Kenamond 1 ---------------- *)
Lemma k1_causal_proof : forall D xd yd td, 0 < D ->
  k1_bt2 D xd yd td xd yd = td /\
  (forall x y, td <= k1_bt2 D xd yd td x y) /\
  (forall x y x' y', Rabs (k1_bt2 D xd yd td x y - k1_bt2 D xd yd td x' y') <= norm2 (x - x') (y - y') / D).
Proof.
  intros D xd yd td HD. unfold k1_bt2. repeat split.
  - replace (xd - xd) with 0 by ring. replace (yd - yd) with 0 by ring. unfold norm2.
    replace (0 ^ 2 + 0 ^ 2) with 0 by ring. rewrite sqrt_0. field. lra.
  - intros x y. assert (0 <= norm2 (x - xd) (y - yd) / D) by (apply Rmult_le_pos; [ apply norm2_nonneg | apply Rlt_le, Rinv_0_lt_compat; exact HD ]). lra.
  - intros x y x' y'.
    replace (td + norm2 (x - xd) (y - yd) / D - (td + norm2 (x' - xd) (y' - yd) / D))
      with ((norm2 (x - xd) (y - yd) - norm2 (x' - xd) (y' - yd)) / D) by (field; lra).
    unfold Rdiv. rewrite Rabs_mult, (Rabs_right (/ D)); [ | apply Rle_ge, Rlt_le, Rinv_0_lt_compat; exact HD ].
    apply Rmult_le_compat_r; [ apply Rlt_le, Rinv_0_lt_compat; exact HD | apply norm2_lipschitz ].
Qed.

Lemma k1_causal3_proof : forall D xd yd zd td, 0 < D ->
  k1_bt3 D xd yd zd td xd yd zd = td /\
  (forall x y z, td <= k1_bt3 D xd yd zd td x y z) /\
  (forall x y z x' y' z', Rabs (k1_bt3 D xd yd zd td x y z - k1_bt3 D xd yd zd td x' y' z') <= norm3 (x - x') (y - y') (z - z') / D).
Proof.
  intros D xd yd zd td HD. unfold k1_bt3. repeat split.
  - replace (xd - xd) with 0 by ring. replace (yd - yd) with 0 by ring. replace (zd - zd) with 0 by ring. unfold norm3.
    replace (0 ^ 2 + 0 ^ 2 + 0 ^ 2) with 0 by ring. rewrite sqrt_0. field. lra.
  - intros x y z. assert (0 <= norm3 (x - xd) (y - yd) (z - zd) / D) by (apply Rmult_le_pos; [ apply sqrt_pos | apply Rlt_le, Rinv_0_lt_compat; exact HD ]). lra.
  - intros x y z x' y' z'.
    replace (td + norm3 (x - xd) (y - yd) (z - zd) / D - (td + norm3 (x' - xd) (y' - yd) (z' - zd) / D))
      with ((norm3 (x - xd) (y - yd) (z - zd) - norm3 (x' - xd) (y' - yd) (z' - zd)) / D) by (field; lra).
    unfold Rdiv. rewrite Rabs_mult, (Rabs_right (/ D)); [ | apply Rle_ge, Rlt_le, Rinv_0_lt_compat; exact HD ].
    apply Rmult_le_compat_r; [ apply Rlt_le, Rinv_0_lt_compat; exact HD | apply norm3_lipschitz ].
Qed.

(* eikonal equation |grad bt| = 1/D away from the detonator *)
Lemma k1_eikonal_proof : forall D xd yd td x y, 0 < D -> (x - xd) ^ 2 + (y - yd) ^ 2 <> 0 ->
  exists gx gy, is_derive (fun u => k1_bt2 D xd yd td u y) x gx /\ is_derive (fun v => k1_bt2 D xd yd td x v) y gy /\
                gx ^ 2 + gy ^ 2 = (1 / D) ^ 2.
Proof.
  intros D xd yd td x y HD Hne. unfold k1_bt2, norm2.
  pose proof (pow2_ge_0 (x - xd)) as Hx. pose proof (pow2_ge_0 (y - yd)) as Hy.
  assert (Hpos : 0 < (x - xd) ^ 2 + (y - yd) ^ 2) by lra.
  set (S := (x - xd) ^ 2 + (y - yd) ^ 2) in *.
  assert (Hs : 0 < sqrt S) by (apply sqrt_lt_R0; exact Hpos).
  assert (Hs2 : sqrt S * sqrt S = S) by (apply sqrt_sqrt; lra).
  exists ((x - xd) / sqrt S / D), ((y - yd) / sqrt S / D).
  split; [ | split ].
  - unfold S in *. auto_derive; [ simpl; nra | ].
    repeat match goal with |- context [sqrt ?a] => progress ring_simplify a end.
    assert (Hq : sqrt (x ^ 2 - 2 * x * xd + xd ^ 2 + y ^ 2 - 2 * y * yd + yd ^ 2) <> 0).
    { apply Rgt_not_eq. apply sqrt_lt_R0. nra. }
    field. split; [ exact Hq | lra ].
  - unfold S in *. auto_derive; [ simpl; nra | ].
    repeat match goal with |- context [sqrt ?a] => progress ring_simplify a end.
    assert (Hq : sqrt (x ^ 2 - 2 * x * xd + xd ^ 2 + y ^ 2 - 2 * y * yd + yd ^ 2) <> 0).
    { apply Rgt_not_eq. apply sqrt_lt_R0. nra. }
    field. split; [ exact Hq | lra ].
  - replace (((x - xd) / sqrt S / D) ^ 2 + ((y - yd) / sqrt S / D) ^ 2)
      with (((x - xd) ^ 2 + (y - yd) ^ 2) / (sqrt S * sqrt S) / (D * D)) by (field; split; lra).
    rewrite Hs2. unfold S. field. split; [ lra | fold S; lra ].
Qed.

(* translation and rotation/reflection invariance (C09), and the 3-D solver restricted to the plane of the 2-D one (C07) *)
Lemma k1_rigid_motion_proof : forall D xd yd td x y a b c d e f,
  a * a + c * c = 1 -> b * b + d * d = 1 -> a * b + c * d = 0 ->
  k1_bt2 D (a * xd + b * yd + e) (c * xd + d * yd + f) td (a * x + b * y + e) (c * x + d * y + f) = k1_bt2 D xd yd td x y.
Proof.
  intros D xd yd td x y a b c d e f H1 H2 H3. unfold k1_bt2, norm2. f_equal. f_equal. f_equal.
  replace (a * x + b * y + e - (a * xd + b * yd + e)) with (a * (x - xd) + b * (y - yd)) by ring.
  replace (c * x + d * y + f - (c * xd + d * yd + f)) with (c * (x - xd) + d * (y - yd)) by ring.
  set (u := x - xd). set (v := y - yd).
  replace ((a * u + b * v) ^ 2 + (c * u + d * v) ^ 2)
    with ((a * a + c * c) * u ^ 2 + (b * b + d * d) * v ^ 2 + 2 * (a * b + c * d) * u * v) by ring.
  rewrite H1, H2, H3. ring.
Qed.

Lemma k1_2d_is_3d_on_plane_proof : forall D xd yd zd td x y,
  k1_bt3 D xd yd zd td x y zd = k1_bt2 D xd yd td x y.
Proof.
  intros. unfold k1_bt3, k1_bt2, norm3, norm2. replace (zd - zd) with 0 by ring. do 3 f_equal. ring.
Qed.

(* ---------------- Kenamond 2 ---------------- *)
Lemma affine_dist_lip : forall (t D : R) (a b : R), 0 < D -> forall L, Rabs (a - b) <= L -> Rabs ((t + a / D) - (t + b / D)) <= L / D.
Proof.
  intros t D a b HD L H.
  replace (t + a / D - (t + b / D)) with ((a - b) / D) by (field; lra).
  unfold Rdiv. rewrite Rabs_mult, (Rabs_right (/ D)); [ | apply Rle_ge, Rlt_le, Rinv_0_lt_compat; exact HD ].
  apply Rmult_le_compat_r; [ apply Rlt_le, Rinv_0_lt_compat; exact HD | exact H ].
Qed.

Lemma k2_lipschitz_proof : forall R_ D1 D2 d1 d2 d4 d5 t1 t2 t3 t4 t5, 0 < D2 -> D2 <= D1 ->
  forall x y x' y',
  Rabs (k2_bt2 R_ D1 D2 d1 d2 d4 d5 t1 t2 t3 t4 t5 x y - k2_bt2 R_ D1 D2 d1 d2 d4 d5 t1 t2 t3 t4 t5 x' y')
  <= norm2 (x - x') (y - y') / D2.
Proof.
  intros R_ D1 D2 d1 d2 d4 d5 t1 t2 t3 t4 t5 HD2 HD12 x y x' y'.
  assert (HD1 : 0 < D1) by lra.
  set (L := norm2 (x - x') (y - y')).
  assert (HL : 0 <= L) by apply norm2_nonneg.
  assert (Hdet : forall dd, Rabs (norm2 x (y - dd) - norm2 x' (y' - dd)) <= L).
  { intro dd. pose proof (norm2_lipschitz x y x' y' 0 dd) as H. now rewrite !Rminus_0_r in H. }
  assert (H0 : Rabs (norm2 x y - norm2 x' y') <= L).
  { pose proof (Hdet 0) as H. now rewrite !Rminus_0_r in H. }
  assert (Hle : L / D1 <= L / D2).
  { unfold Rdiv. apply Rmult_le_compat_l; [ exact HL | ]. apply Rinv_le_contravar; assumption. }
  unfold k2_bt2, k2_core.
  repeat apply Rmin_lip; try (apply affine_dist_lip; [ exact HD2 | apply Hdet ]).
  apply Rmax_lip.
  - apply Rle_trans with (L / D1); [ apply affine_dist_lip; assumption | exact Hle ].
  - replace (t3 + norm2 x y / D2 + R_ * (1 / D1 - 1 / D2) - (t3 + norm2 x' y' / D2 + R_ * (1 / D1 - 1 / D2)))
      with ((t3 + norm2 x y / D2) - (t3 + norm2 x' y' / D2)) by ring.
    apply affine_dist_lip; assumption.
Qed.

(* never earlier than the earliest detonation (with bt4 >= t3 because |x| >= 0 and R(1/D1-1/D2) is absorbed by max) *)
Lemma k2_causal_proof : forall R_ D1 D2 d1 d2 d4 d5 t1 t2 t3 t4 t5 x y, 0 < D2 -> 0 < D1 ->
  Rmin (Rmin (Rmin (Rmin t3 t1) t2) t4) t5 <= k2_bt2 R_ D1 D2 d1 d2 d4 d5 t1 t2 t3 t4 t5 x y.
Proof.
  intros R_ D1 D2 d1 d2 d4 d5 t1 t2 t3 t4 t5 x y HD2 HD1. unfold k2_bt2, k2_core.
  assert (P : forall a b D, 0 < D -> 0 <= norm2 a b / D) by (intros; apply Rmult_le_pos; [ apply norm2_nonneg | apply Rlt_le, Rinv_0_lt_compat; assumption ]).
  pose proof (P x y D1 HD1). pose proof (P x (y - d1) D2 HD2). pose proof (P x (y - d2) D2 HD2).
  pose proof (P x (y - d4) D2 HD2). pose proof (P x (y - d5) D2 HD2).
  assert (t3 <= Rmax (t3 + norm2 x y / D1) (t3 + norm2 x y / D2 + R_ * (1 / D1 - 1 / D2))).
  { apply Rle_trans with (t3 + norm2 x y / D1); [ lra | apply Rmax_l ]. }
  unfold Rmin. repeat destruct (Rle_dec _ _); lra.
Qed.

(* reflection through the symmetry axis (C09) *)
Lemma k2_reflection_proof : forall R_ D1 D2 d1 d2 d4 d5 t1 t2 t3 t4 t5 x y,
  k2_bt2 R_ D1 D2 d1 d2 d4 d5 t1 t2 t3 t4 t5 (- x) y = k2_bt2 R_ D1 D2 d1 d2 d4 d5 t1 t2 t3 t4 t5 x y.
Proof.
  intros. unfold k2_bt2, k2_core, norm2. replace ((- x) ^ 2) with (x ^ 2) by ring. reflexivity.
Qed.

(* ---------------- DSD cylindrical expansion ---------------- *)
Lemma dsd_leg_start : forall ra vd DCJ, ra - vd <> 0 -> DCJ <> 0 -> dsd_leg ra ra vd DCJ = 0.
Proof.
  intros ra vd DCJ H HD. unfold dsd_leg. replace ((ra - vd) / (ra - vd)) with 1 by (field; exact H).
  rewrite ln_1. field. exact HD.
Qed.

(* radial derivative 1/(D_CJ - alpha/r) in each material; hence strictly increasing in r *)
Lemma dsd_leg_derivative_proof : forall ra alpha DCJ r, 0 < DCJ -> 0 <= alpha -> alpha / DCJ < ra -> ra <= r ->
  is_derive (fun s => dsd_leg s ra (alpha / DCJ) DCJ) r (1 / (DCJ - alpha / r)) /\ 0 < 1 / (DCJ - alpha / r).
Proof.
  intros ra alpha DCJ r HD Hal Ha Hr. unfold dsd_leg.
  assert (Hvd : 0 <= alpha / DCJ) by (apply Rmult_le_pos; [ exact Hal | apply Rlt_le, Rinv_0_lt_compat; exact HD ]).
  assert (H1 : 0 < r - alpha / DCJ) by lra. assert (H2 : 0 < ra - alpha / DCJ) by lra. assert (H3 : 0 < r) by lra.
  assert (H4 : 0 < DCJ - alpha / r).
  { replace (DCJ - alpha / r) with (DCJ / r * (r - alpha / DCJ)) by (field; split; lra).
    apply Rmult_lt_0_compat; [ apply Rdiv_lt_0_compat; lra | exact H1 ]. }
  split.
  - auto_derive.
    + apply Rmult_lt_0_compat; [ lra | apply Rinv_0_lt_compat; lra ].
    + assert (Hq1 : ra * DCJ - alpha <> 0).
      { replace (ra * DCJ - alpha) with (DCJ * (ra - alpha / DCJ)) by (field; lra). apply Rgt_not_eq. apply Rmult_lt_0_compat; lra. }
      assert (Hq2 : r * DCJ - alpha <> 0).
      { replace (r * DCJ - alpha) with (DCJ * (r - alpha / DCJ)) by (field; lra). apply Rgt_not_eq. apply Rmult_lt_0_compat; lra. }
      assert (Hq3 : DCJ * r - alpha <> 0) by (replace (DCJ * r - alpha) with (r * DCJ - alpha) by ring; exact Hq2).
      field. repeat split; try lra; try assumption.
  - apply Rdiv_lt_0_compat; lra.
Qed.

(* continuity at both interfaces and detonation time inside r_1 *)
Lemma dsd_continuity_proof : forall r_1 r_2 D1 D2 a1 a2 t_d, 0 < D1 -> 0 < D2 -> a1 / D1 < r_1 -> a2 / D2 < r_2 -> r_1 < r_2 ->
  (forall x y, norm2 x y < r_1 -> dsd_bt r_1 r_2 D1 D2 a1 a2 t_d x y = t_d) /\
  (forall x y, norm2 x y = r_1 -> dsd_bt r_1 r_2 D1 D2 a1 a2 t_d x y = t_d) /\
  (forall x y, norm2 x y = r_2 ->
     dsd_bt r_1 r_2 D1 D2 a1 a2 t_d x y = t_d + dsd_leg r_2 r_1 (a1 / D1) D1).
Proof.
  intros r_1 r_2 D1 D2 a1 a2 t_d HD1 HD2 H1 H2 H12. unfold dsd_bt. repeat split; intros x y Hr.
  - destruct (Rlt_dec (norm2 x y) r_1); [ reflexivity | contradiction ].
  - rewrite Hr. destruct (Rlt_dec r_1 r_1); [ lra | ]. destruct (Rlt_dec r_1 r_2); [ | lra ].
    rewrite dsd_leg_start; lra.
  - rewrite Hr. destruct (Rlt_dec r_2 r_1); [ lra | ]. destruct (Rlt_dec r_2 r_2); [ lra | ].
    rewrite (dsd_leg_start r_2); lra.
Qed.

(* rotation / reflection invariance: the DSD burn time depends on the point through its radius only (C09) *)
Lemma dsd_rotation_proof : forall r_1 r_2 D1 D2 a1 a2 t_d x y a b c d,
  a * a + c * c = 1 -> b * b + d * d = 1 -> a * b + c * d = 0 ->
  dsd_bt r_1 r_2 D1 D2 a1 a2 t_d (a * x + b * y) (c * x + d * y) = dsd_bt r_1 r_2 D1 D2 a1 a2 t_d x y.
Proof.
  intros r_1 r_2 D1 D2 a1 a2 t_d x y a b c d H1 H2 H3. unfold dsd_bt.
  replace (norm2 (a * x + b * y) (c * x + d * y)) with (norm2 x y); [ reflexivity | ].
  unfold norm2. f_equal.
  replace ((a * x + b * y) ^ 2 + (c * x + d * y) ^ 2)
    with ((a * a + c * c) * x ^ 2 + (b * b + d * d) * y ^ 2 + 2 * (a * b + c * d) * x * y) by ring.
  rewrite H1, H2, H3. ring.
Qed.
