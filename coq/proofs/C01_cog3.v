(* C01 for Coggeshall 3.  *)
From Coq Require Import Reals Lra.
From Coquelicot Require Import Coquelicot.
From EP Require Import lib.Base lib.Euler lib.Tactics gen.Cog3.
Open Scope R_scope.

Lemma cog3_pde_proof :
  forall geometry rho0 b v Gamma r t,
  0 < r -> 0 < t -> rho0 <> 0 -> v <> 0 -> b <> 0 -> Gamma <> 0 -> geometry - 1 - v - 1 <> 0 -> geometry <> 0 -> geometry <> 2 ->
  euler_at (geometry - 1)
    (cog3_density geometry rho0 b v Gamma)
    (cog3_velocity geometry rho0 b v Gamma)
    (cog3_pressure geometry rho0 b v Gamma)
    (cog3_specific_internal_energy geometry rho0 b v Gamma) r t.
Proof. intros. euler_solve. Qed.
