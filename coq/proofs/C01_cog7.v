(* C01 for Coggeshall 7 (Kidder-type isentropic compression, gamma = (k+3)/(k+1)).
   The density carries a nested power ((r/sqrt(tau^2-t^2))^c1 - (Ri/tau)^c1)^(1/(gamma-1)); the hypotheses
   are exactly the positivity conditions under which numpy's pow returns a number (R0^c1 > Ri^c1 and the
   point lies outside the inner radius in similarity coordinates).  *)
From Coq Require Import Reals Lra.
From Coquelicot Require Import Coquelicot.
From EP Require Import lib.Base lib.Euler lib.Tactics lib.ExpAtoms gen.Cog7.
Open Scope R_scope.

Definition cog7_c1 (geometry b : R) : R := 2 - b / ((geometry - 1 + 3) / (geometry - 1 + 1)).

Definition cog7_hyps (geometry tau b R0 Ri Gamma r t : R) : Prop :=
  0 < r /\ 0 < t /\ t < tau /\ 0 < R0 /\ 0 < Ri /\ 0 < geometry /\ Gamma <> 0 /\
  2 * ((geometry - 1 + 3) / (geometry - 1 + 1)) - b <> 0 /\
  0 < Rpower R0 (cog7_c1 geometry b) - Rpower Ri (cog7_c1 geometry b) /\
  0 < Rpower (r / sqrt (tau ^ 2 - t ^ 2)) (cog7_c1 geometry b) - Rpower (Ri / tau) (cog7_c1 geometry b).

(* common preparation: derivatives by auto_derive, sqrt(tau^2-t^2) generalised to s with s*s = tau^2-t^2 *)
Ltac cog7_prep :=
  match goal with
  | HX0 : 0 < _ - _, HX : 0 < _ - _, Hss : sqrt ?x * sqrt ?x = ?x, Hs : 0 < sqrt ?x |- _ =>
      unfold Rpower in HX0, HX; revert HX Hss Hs
  end.

Lemma cog7_side : forall geometry b, 0 < geometry ->
  2 * ((geometry + - (1) + 3) * / (geometry + - (1) + 1)) + - b <> 0 ->
  2 * (geometry + -1 + 3) + - b * (geometry + -1 + 1) <> 0.
Proof.
  intros geometry b Hg Hgb Hc; apply Hgb.
  match goal with |- ?l = 0 =>
    replace l with ((2 * (geometry + -1 + 3) + - b * (geometry + -1 + 1)) * / (geometry + -1 + 1)) by (field; lra) end.
  rewrite Hc; ring.
Qed.

Lemma cog7_mass_proof :
  forall geometry tau b R0 Ri Gamma r t, cog7_hyps geometry tau b R0 Ri Gamma r t ->
  mass_eq (geometry - 1) (cog7_density geometry tau b R0 Ri Gamma) (cog7_velocity geometry tau b R0 Ri Gamma) r t.
Proof.
  intros geometry tau b R0 Ri Gamma r t (Hr & Ht & Htt & HR0 & HRi & Hg & HG & Hgb & HX0 & HX).
  unfold cog7_c1 in *.
  assert (Hx1 : 0 < tau ^ 2 - t ^ 2) by nra.
  assert (Hs : 0 < sqrt (tau ^ 2 - t ^ 2)) by (apply sqrt_lt_R0; exact Hx1).
  assert (Htau : 0 < tau) by lra.
  unfold mass_eq; autounfold with epgen.
  exders.
  assert (Hss : sqrt (tau ^ 2 - t ^ 2) * sqrt (tau ^ 2 - t ^ 2) = tau ^ 2 - t ^ 2) by (apply sqrt_sqrt; lra).
  unfold Rpower in HX0, HX.
  revert HX Hss Hs.
  replace (tau * (tau * 1) + - (t * (t * 1))) with (tau ^ 2 - t ^ 2) by ring.
  replace (tau * (tau * 1) - t * (t * 1)) with (tau ^ 2 - t ^ 2) by ring.
  generalize (sqrt (tau ^ 2 - t ^ 2)). intros s HX Hss Hs.
  rewrite <- Hss. clear Hss Hx1.
  unfold Rdiv in *. unfold Rpower, Rminus in *.
  abstract_exp.
  field; nz.
Qed.

Lemma cog7_energy_proof :
  forall geometry tau b R0 Ri Gamma r t, cog7_hyps geometry tau b R0 Ri Gamma r t ->
  energy_eq (geometry - 1) (cog7_density geometry tau b R0 Ri Gamma) (cog7_velocity geometry tau b R0 Ri Gamma)
     (cog7_pressure geometry tau b R0 Ri Gamma) (cog7_specific_internal_energy geometry tau b R0 Ri Gamma) (fun _ _ => 0) r t.
Proof.
  intros geometry tau b R0 Ri Gamma r t (Hr & Ht & Htt & HR0 & HRi & Hg & HG & Hgb & HX0 & HX).
  unfold cog7_c1 in *.
  assert (Hx1 : 0 < tau ^ 2 - t ^ 2) by nra.
  assert (Hs : 0 < sqrt (tau ^ 2 - t ^ 2)) by (apply sqrt_lt_R0; exact Hx1).
  assert (Htau : 0 < tau) by lra.
  unfold energy_eq; autounfold with epgen.
  exders.
  assert (Hss : sqrt (tau ^ 2 - t ^ 2) * sqrt (tau ^ 2 - t ^ 2) = tau ^ 2 - t ^ 2) by (apply sqrt_sqrt; lra).
  unfold Rpower in HX0, HX.
  revert HX Hss Hs.
  replace (tau * (tau * 1) + - (t * (t * 1))) with (tau ^ 2 - t ^ 2) by ring.
  replace (tau * (tau * 1) - t * (t * 1)) with (tau ^ 2 - t ^ 2) by ring.
  generalize (sqrt (tau ^ 2 - t ^ 2)). intros s HX Hss Hs.
  rewrite <- Hss. clear Hss Hx1.
  unfold Rdiv in *. unfold Rpower, Rminus in *.
  abstract_exp.
  field; nz.
  apply cog7_side; assumption.
Qed.

Lemma cog7_momentum_proof :
  forall geometry tau b R0 Ri Gamma r t, cog7_hyps geometry tau b R0 Ri Gamma r t ->
  momentum_eq (cog7_density geometry tau b R0 Ri Gamma) (cog7_velocity geometry tau b R0 Ri Gamma)
     (cog7_pressure geometry tau b R0 Ri Gamma) r t.
Proof.
  intros geometry tau b R0 Ri Gamma r t (Hr & Ht & Htt & HR0 & HRi & Hg & HG & Hgb & HX0 & HX).
  unfold cog7_c1 in *.
  assert (Hx1 : 0 < tau ^ 2 - t ^ 2) by nra.
  assert (Hs : 0 < sqrt (tau ^ 2 - t ^ 2)) by (apply sqrt_lt_R0; exact Hx1).
  assert (Htau : 0 < tau) by lra.
  unfold momentum_eq; autounfold with epgen.
  exders.
  assert (Hss : sqrt (tau ^ 2 - t ^ 2) * sqrt (tau ^ 2 - t ^ 2) = tau ^ 2 - t ^ 2) by (apply sqrt_sqrt; lra).
  unfold Rpower in HX0, HX.
  revert HX Hss Hs.
  replace (tau * (tau * 1) + - (t * (t * 1))) with (tau ^ 2 - t ^ 2) by ring.
  replace (tau * (tau * 1) - t * (t * 1)) with (tau ^ 2 - t ^ 2) by ring.
  generalize (sqrt (tau ^ 2 - t ^ 2)). intros s HX Hss Hs.
  rewrite <- Hss.
  unfold Rdiv in *. unfold Rpower, Rminus in *.
  assert (Hy : 0 < r * / s) by nz.
  (* the temperature carries (r/s)^(2 + b/gamma), the density (r/s)^(2 - b/gamma): their product is (r/s)^4 *)
  match goal with |- context [exp ((2 + ?q) * ln (r * / s))] =>
    match goal with |- context [exp ((2 + - q) * ln (r * / s))] =>
      rewrite (exp_ln_pow4 (r * / s) (2 + q) (2 + - q) Hy) by ring
    end
  end.
  abstract_exp.
  field_simplify_eq; [ | nz ].
  - assert (Ht2 : tau ^ 2 = s ^ 2 + t ^ 2) by (replace (s ^ 2) with (s * s) by ring; lra).
    rewrite Ht2; ring.
  - apply cog7_side; assumption.
Qed.

Lemma cog7_pde_proof :
  forall geometry tau b R0 Ri Gamma r t, cog7_hyps geometry tau b R0 Ri Gamma r t ->
  euler_at (geometry - 1)
    (cog7_density geometry tau b R0 Ri Gamma) (cog7_velocity geometry tau b R0 Ri Gamma)
    (cog7_pressure geometry tau b R0 Ri Gamma) (cog7_specific_internal_energy geometry tau b R0 Ri Gamma) r t.
Proof.
  intros; split; [ apply cog7_mass_proof | split; [ apply cog7_momentum_proof | apply cog7_energy_proof ] ]; assumption.
Qed.

(* the hypotheses are satisfiable: class defaults at r = 1, t = 1/2 *)
From Interval Require Import Tactic.
Lemma cog7_hyps_example : cog7_hyps 3 (5/4) (6/5) 2 (1/10) 40 1 (1/2).
Proof.
  unfold cog7_hyps, cog7_c1. repeat split; try lra; try interval.
Qed.
