(* C01 for Coggeshall 7.  *)
From Coq Require Import Reals Lra.
From Coquelicot Require Import Coquelicot.
From EP Require Import lib.Base lib.Euler lib.Tactics gen.Cog7.
Open Scope R_scope.

Lemma cog7_pde_proof :
  forall geometry tau b R0 Ri Gamma r t,
  0 < r -> 0 < t -> t < tau ->
  euler_at (geometry - 1)
    (cog7_density geometry tau b R0 Ri Gamma)
    (cog7_velocity geometry tau b R0 Ri Gamma)
    (cog7_pressure geometry tau b R0 Ri Gamma)
    (cog7_specific_internal_energy geometry tau b R0 Ri Gamma) r t.
Proof. intros. euler_solve. Qed.
