(* C01 for Coggeshall 4.  *)
From Coq Require Import Reals Lra.
From Coquelicot Require Import Coquelicot.
From EP Require Import lib.Base lib.Euler lib.Tactics gen.Cog4.
Open Scope R_scope.

Lemma cog4_pde_proof :
  forall geometry gamma rho0 u0 Gamma r t,
  0 < r -> 0 < t -> rho0 <> 0 -> u0 <> 0 -> gamma <> 1 -> gamma <> 0 -> gamma + 1 <> 0 -> Gamma <> 0 ->
  euler_at (geometry - 1)
    (cog4_density geometry gamma rho0 u0 Gamma)
    (cog4_velocity geometry gamma rho0 u0 Gamma)
    (cog4_pressure geometry gamma rho0 u0 Gamma)
    (cog4_specific_internal_energy geometry gamma rho0 u0 Gamma) r t.
Proof. intros. euler_solve. Qed.
