(* Elastic-plastic piston (ep_piston.py constructor algebra, generated: gen/Piston.v): both waves satisfy the Rankine-Hugoniot
   relations written with the total stress  sigma = p - s_dev : the elastic precursor for every density at yield rho_y > rho0
   (whatever elastic model supplies it), the plastic wave for EVERY plastic wave speed (so in particular for the root fsolve returns). *)
From Coq Require Import Reals Lra Psatz.
From EP Require Import lib.Base lib.RH gen.Piston.
Open Scope R_scope.

Section Piston.
Variables gamma c0 s0 Y rho0 up rho_y wv_pl : R.

(* Hugoniot reference curve of the Mie-Gruneisen EOS, as coded *)
Definition eta_y := 1 - rho0 / rho_y.
Definition Ph_y := rho0 * c0 ^ 2 * eta_y / (1 - s0 * eta_y) ^ 2.
Definition Eh_y := eta_y * Ph_y / (rho0 * 2).

Let e_y := epp_e_y gamma c0 s0 Y rho0 rho_y.
Let p_y := epp_p_y gamma c0 s0 Y rho0 rho_y.
Let s_y := epp_sdev_y Y.
Let w_el := epp_wv_el gamma c0 s0 Y rho0 rho_y.
Let v_y := epp_vel_y gamma c0 s0 Y rho0 rho_y.
Let p2 := epp_p2 gamma c0 s0 Y rho0 up rho_y wv_pl.
Let r2 := epp_rho2 gamma c0 s0 Y rho0 up rho_y wv_pl.
Let e2 := epp_e2 gamma c0 s0 Y rho0 up rho_y wv_pl.

(* the generated definitions are built from one another exactly as the constructor writes them *)
Lemma structure :
  e_y = (Ph_y - rho_y * gamma * Eh_y + 2 / 3 * Y) * (rho_y - rho0) / (2 * rho0 * rho_y - rho_y * gamma * (rho_y - rho0)) /\
  p_y = Ph_y + gamma * rho_y * (e_y - Eh_y) /\
  w_el = sqrt (rho_y * (s_y - p_y) / (rho0 * (rho0 - rho_y))) /\
  v_y = w_el * (rho_y - rho0) / rho_y /\
  p2 = p_y + rho_y * (wv_pl - v_y) * (up - v_y) /\
  r2 = rho_y * ((wv_pl - v_y) / (wv_pl - up)) /\
  e2 = e_y + 1 / (2 * rho_y * r2) * (p_y + p2 - 2 * s_y) * (r2 - rho_y).
Proof. repeat split; reflexivity. Qed.

Hypothesis Hr0 : 0 < rho0.
Hypothesis Hry : rho0 < rho_y.
Hypothesis Hden : 2 * rho0 * rho_y - rho_y * gamma * (rho_y - rho0) <> 0.
Hypothesis Hs0 : 1 - s0 * eta_y <> 0.

(* energy at yield: the coded closed form is the Hugoniot energy with the total stress sigma_y = p_y - s_dev *)
Lemma e_y_hugoniot : e_y = (p_y - s_y) * (rho_y - rho0) / (2 * rho0 * rho_y).
Proof.
  destruct structure as (E1 & E2 & _). unfold s_y, epp_sdev_y.
  set (e := e_y) in *. set (p := p_y) in *. set (Ph := Ph_y) in *. set (Eh := Eh_y) in *. clearbody e p Ph Eh.
  subst p. subst e. field. repeat split; try lra; try assumption.
Qed.

(* elastic precursor: state at yield behind, material at rest and stress free ahead *)
Theorem elastic_precursor_rh : 0 <= p_y - s_y ->
  rh_jump w_el rho_y v_y (p_y - s_y) e_y rho0 0 0 0.
Proof.
  intros Hsig.
  destruct structure as (_ & _ & E3 & E4 & _).
  pose proof e_y_hugoniot as He.
  assert (Hw2 : w_el * w_el = rho_y * (p_y - s_y) / (rho0 * (rho_y - rho0))).
  { rewrite E3. rewrite sqrt_sqrt.
    - field. split; lra.
    - replace (rho_y * (s_y - p_y) / (rho0 * (rho0 - rho_y))) with (rho_y * (p_y - s_y) / (rho0 * (rho_y - rho0))) by (field; split; lra).
      apply Rmult_le_pos; [ apply Rmult_le_pos; lra | apply Rlt_le, Rinv_0_lt_compat; apply Rmult_lt_0_compat; lra ]. }
  set (sg := p_y - s_y) in *. set (w := w_el) in *. clearbody sg w.
  assert (Hsg : sg = w * w * rho0 * (rho_y - rho0) / rho_y) by (rewrite Hw2; field; split; lra).
  unfold rh_jump. rewrite He, E4. rewrite Hsg.
  repeat split; field; repeat split; lra.
Qed.

(* plastic wave, for every plastic wave speed different from the piston speed *)
Theorem plastic_wave_rh : wv_pl <> up -> wv_pl <> v_y ->
  rh_jump wv_pl r2 up (p2 - s_y) e2 rho_y v_y (p_y - s_y) e_y.
Proof.
  intros Hwu Hwv.
  destruct structure as (_ & _ & _ & _ & E5 & E6 & E7).
  unfold rh_jump. rewrite E7, E6, E5.
  set (vy := v_y) in *. set (py := p_y) in *. set (sy := s_y) in *. set (ey := e_y) in *. clearbody vy py sy ey.
  repeat split; field; repeat split; try lra; try assumption;
    try (intro E; apply Hwu; lra); try (intro E; apply Hwv; lra).
Qed.
End Piston.
