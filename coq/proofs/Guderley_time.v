(* Guderley: the solver converts the caller's time t to "Lazarus time" tau = t / factorC - 1 (factorC = 0.750024322) and returns velocities,
   sound speeds, pressures and energies in units of Lazarus time.  The converging shock is therefore PLACED at r_s(t) = (1 - t/factorC)^(1/lambda),
   which moves with d r_s / dt = (1/factorC) x (the speed for which the returned states satisfy the jump conditions).  With the speed implied by
   where the solver places the shock at neighbouring times, mass is not conserved across the converging shock - for every gamma, lambda, rho0, t. *)
From Coq Require Import Reals Lra Psatz.
From Coquelicot Require Import Coquelicot.
From EP Require Import lib.Base lib.Tactics lib.RH gen.Guderley proofs.Guderley_alg.
Open Scope R_scope.

Definition fC : R := 375012161 / 500000000.
Definition gud_rs (lambda_ t : R) : R := Rpower (1 - t / fC) (1 / lambda_).

Lemma fC_pos : 0 < fC. Proof. unfold fC. lra. Qed.

Lemma lazarus_pos : forall t, t < fC -> 0 < 1 - t / fC.
Proof.
  intros t Ht. assert (H := fC_pos). assert (t / fC < 1).
  { apply (Rmult_lt_reg_r fC); [ exact H | ]. replace (t / fC * fC) with t by (field; lra). lra. }
  lra.
Qed.

(* the solver places the converging shock (similarity coordinate -1) at r = gud_rs lambda t *)
Lemma gud_rs_location : forall lambda_ t, t < fC -> lambda_ <> 0 -> gud_targetx (gud_rs lambda_ t) lambda_ t = -1.
Proof.
  intros lambda_ t Ht Hl. assert (Hu := lazarus_pos t Ht). unfold gud_targetx, gud_rs. fold fC.
  rewrite Rpower_mult. replace (1 / lambda_ * lambda_) with 1 by (field; exact Hl). rewrite Rpower_1 by exact Hu.
  field. repeat split; first [ lra | unfold fC in *; lra ].
Qed.

(* its speed in the caller's time *)
Lemma gud_rs_speed : forall lambda_ t, t < fC -> lambda_ <> 0 ->
  is_derive (gud_rs lambda_) t (- (1 / fC) * (1 / lambda_) * Rpower (1 - t / fC) (1 / lambda_ - 1)).
Proof.
  intros lambda_ t Ht Hl. assert (Hu := lazarus_pos t Ht). assert (HfC := fC_pos).
  unfold gud_rs, Rpower. auto_derive.
  - first [ exact Hu | split; [ exact Hu | trivial ] | repeat split; exact Hu ].
  - match goal with |- ?a = ?b => change (@eq R a b) end.
    replace ((1 / lambda_ - 1) * ln (1 - t / fC)) with (1 / lambda_ * ln (1 - t / fC) + - ln (1 - t / fC)) by ring.
    rewrite exp_plus, exp_Ropp, exp_ln by exact Hu. change (1 + - (t * / fC)) with (1 - t / fC). field. repeat split; lra.
Qed.

Lemma rs_power : forall lambda_ t, t < fC -> lambda_ <> 0 ->
  Rpower (gud_rs lambda_ t) (1 - lambda_) = Rpower (1 - t / fC) (1 / lambda_ - 1).
Proof. intros lambda_ t Ht Hl. unfold gud_rs. rewrite Rpower_mult. f_equal. field. exact Hl. Qed.

Lemma guderley_converging_shock_trajectory_refuted_proof : forall rho0 gamma lambda_ t,
  1 < gamma -> rho0 <> 0 -> lambda_ <> 0 -> t < fC ->
  let r := gud_rs lambda_ t in
  let D := - (1 / fC) * (1 / lambda_) * Rpower (1 - t / fC) (1 / lambda_ - 1) in
  gud_targetx r lambda_ t = -1 /\ is_derive (gud_rs lambda_) t D /\
  ~ rh_jump D (gud_ahead_den rho0) gud_ahead_vel gud_ahead_pres gud_ahead_sie
              (gud_conv_den rho0 (gud_start_R gamma)) (gud_conv_vel r lambda_ (-1) (gud_start_V gamma))
              (gud_conv_pres r rho0 gamma lambda_ (-1) (gud_start_C gamma) (gud_start_R gamma))
              (gud_conv_sie r rho0 gamma lambda_ (-1) (gud_start_C gamma) (gud_start_R gamma)).
Proof.
  intros rho0 gamma lambda_ t Hg Hr Hl Ht r D.
  split; [ apply gud_rs_location; assumption | ]. split; [ apply gud_rs_speed; assumption | ].
  intros [Hm _]. unfold gud_ahead_den, gud_ahead_vel, gud_conv_den, gud_conv_vel, gud_start_R, gud_start_V in Hm.
  unfold r in Hm. rewrite rs_power in Hm by assumption. unfold D in Hm.
  set (q := Rpower (1 - t / fC) (1 / lambda_ - 1)) in *.
  assert (Hq : 0 < q) by (unfold q, Rpower; apply exp_pos).
  assert (E : (gamma + 1) / (gamma - 1) * rho0 * (-2 / (gamma + 1) * q / (-1 * -1 * lambda_) - - (1 / fC) * (1 / lambda_) * q)
              - rho0 * (0 - - (1 / fC) * (1 / lambda_) * q) = rho0 * q / lambda_ * (2 / (gamma - 1)) * (1 / fC - 1)).
  { unfold fC. field. repeat split; lra. }
  rewrite <- Hm in E. replace (rho0 * (0 - - (1 / fC) * (1 / lambda_) * q) - rho0 * (0 - - (1 / fC) * (1 / lambda_) * q)) with 0 in E by ring.
  symmetry in E. apply Rmult_integral in E. destruct E as [E | E].
  - apply Rmult_integral in E. destruct E as [E | E].
    + unfold Rdiv in E. apply Rmult_integral in E. destruct E as [E | E].
      * apply Rmult_integral in E. destruct E; lra.
      * revert E. apply Rinv_neq_0_compat. exact Hl.
    + assert (0 < 2 / (gamma - 1)) by (apply Rdiv_lt_0_compat; lra). lra.
  - unfold fC in E. lra.
Qed.
