(* C02 for Noh: the states on the two sides of the coded shock location, with the speed implied by
   that location, satisfy the Rankine-Hugoniot relations. *)
From Coq Require Import Reals Lra Psatz.
From Coquelicot Require Import Coquelicot.
From EP Require Import lib.Base lib.Tactics lib.RH gen.Noh1 proofs.C01_noh.
Open Scope R_scope.

Lemma noh_rh_proof :
  forall geometry gamma u0 rho0 t, u0 < 0 -> 1 < gamma -> 0 < t ->
  exists s J,
    is_derive (noh_shock gamma u0) t s /\
    fields_jump (fun r => noh_density geometry gamma u0 rho0 r t) (fun r => noh_velocity geometry gamma u0 rho0 r t)
                (fun r => noh_pressure geometry gamma u0 rho0 r t)
                (fun r => noh_specific_internal_energy geometry gamma u0 rho0 r t) (noh_shock gamma u0 t) J /\
    rh_holds s J.
Proof.
  intros geometry gamma u0 rho0 t Hu Hg Ht.
  assert (Habs : Rabs u0 = - u0) by (apply Rabs_left; exact Hu).
  assert (Hxs : 0 < noh_shock gamma u0 t).
  { unfold noh_shock; rewrite Habs. apply Rdiv_lt_0_compat; [ | lra ].
    apply Rmult_lt_0_compat; [ apply Rmult_lt_0_compat | ]; lra. }
  eexists. eexists (Build_jump_states _ _ _ _ _ _ _ _).
  split; [ unfold noh_shock; auto_derive; [ exact I | reflexivity ] | ].
  split.
  - unfold noh_shock in *. rewrite Habs in *.
    assert (0 < 1 + - u0 * t / (- u0 * t * (gamma - 1) / 2)).
    { replace (1 + - u0 * t / (- u0 * t * (gamma - 1) / 2)) with ((gamma + 1) / (gamma - 1)) by (field; nra).
      apply Rdiv_lt_0_compat; lra. }
    assert (0 < 1 + - u0 * t * / (- u0 * t * (gamma - 1) / 2)) by assumption.
    jump_solve.
  - unfold rh_holds, rh_jump; cbn [jl_rho jl_u jl_p jl_e jr_rho jr_u jr_p jr_e].
    unfold noh_shock. rewrite Habs.
    replace (1 + - u0 * t / (- u0 * t * (gamma - 1) / 2)) with ((gamma + 1) / (gamma - 1)) by (field; nra).
    replace (Rpower ((gamma + 1) / (gamma - 1)) geometry)
      with (Rpower ((gamma + 1) / (gamma - 1)) (geometry - 1) * ((gamma + 1) / (gamma - 1))).
    2:{ rewrite <- (Rpower_1 ((gamma + 1) / (gamma - 1))) at 2; [ | apply Rdiv_lt_0_compat; lra ].
        rewrite <- Rpower_plus. f_equal. ring. }
    repeat split; field; lra.
Qed.
