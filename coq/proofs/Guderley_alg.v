(* Guderley (ramsey.py:state): theorems about the algebra around the ODE integration, with the values returned by
   solve_ivp as arbitrary reals y0 y1 y2 (= Lazarus' V, C, R at the target similarity coordinate):
   - the start values at x = -1 and the ambient state satisfy the strong-shock jump conditions for a shock at
     r = (t / x)^(1/lambda) (speed r^(1-lambda) / (lambda x));
   - the jump applied at x = B satisfies the general-strength jump conditions (mass, momentum, energy);
   - returned fields obey p = (gamma - 1) rho e and c^2 = gamma p / rho in every branch;
   - the physical fields at equal similarity coordinate scale with the documented powers of r. *)
From Coq Require Import Reals Lra Psatz.
From Coquelicot Require Import Coquelicot.
From EP Require Import lib.Base lib.Tactics lib.RH gen.Guderley.
Open Scope R_scope.

(* jump conditions in similarity variables imply the lab-frame conditions: all velocities carry the common factor
   K = r^(1-lambda) / (-lambda x), the shock moves with -K, densities carry rho0 *)
Lemma rh_of_similarity : forall K rho0 g V0 C0 R0 V1 C1 R1,
  g <> 0 -> g - 1 <> 0 -> rho0 <> 0 -> R0 <> 0 -> R1 <> 0 ->
  R1 * (1 + V1) = R0 * (1 + V0) ->
  R1 * (C1 ^ 2 / g + (1 + V1) ^ 2) = R0 * (C0 ^ 2 / g + (1 + V0) ^ 2) ->
  C1 ^ 2 / (g - 1) + (1 + V1) ^ 2 / 2 = C0 ^ 2 / (g - 1) + (1 + V0) ^ 2 / 2 ->
  rh_jump (- K) (R0 * rho0) (V0 * K) ((C0 * K) ^ 2 / (g * (1 / rho0) * (1 / R0))) ((C0 * K) ^ 2 / (g * (1 / rho0) * (1 / R0)) / ((g - 1) * rho0 * R0))
                (R1 * rho0) (V1 * K) ((C1 * K) ^ 2 / (g * (1 / rho0) * (1 / R1))) ((C1 * K) ^ 2 / (g * (1 / rho0) * (1 / R1)) / ((g - 1) * rho0 * R1)).
Proof.
  intros K rho0 g V0 C0 R0 V1 C1 R1 Hg Hg1 Hr H0 H1 Hm Hp He.
  set (M0 := R0 * (1 + V0)) in *. set (M1 := R1 * (1 + V1)) in *.
  set (P0 := R0 * (C0 ^ 2 / g + (1 + V0) ^ 2)) in *. set (P1 := R1 * (C1 ^ 2 / g + (1 + V1) ^ 2)) in *.
  set (E0 := C0 ^ 2 / (g - 1) + (1 + V0) ^ 2 / 2) in *. set (E1 := C1 ^ 2 / (g - 1) + (1 + V1) ^ 2 / 2) in *.
  unfold rh_jump. split; [ | split ].
  - replace (R0 * rho0 * (V0 * K - - K)) with (rho0 * K * M0) by (unfold M0; ring).
    replace (R1 * rho0 * (V1 * K - - K)) with (rho0 * K * M1) by (unfold M1; ring).
    rewrite Hm. reflexivity.
  - replace (R0 * rho0 * (V0 * K - - K) * (V0 * K) + (C0 * K) ^ 2 / (g * (1 / rho0) * (1 / R0)))
      with (rho0 * K ^ 2 * (P0 - M0)) by (unfold P0, M0; field; repeat split; assumption).
    replace (R1 * rho0 * (V1 * K - - K) * (V1 * K) + (C1 * K) ^ 2 / (g * (1 / rho0) * (1 / R1)))
      with (rho0 * K ^ 2 * (P1 - M1)) by (unfold P1, M1; field; repeat split; assumption).
    rewrite Hm, Hp. reflexivity.
  - replace (R0 * rho0 * (V0 * K - - K) * ((C0 * K) ^ 2 / (g * (1 / rho0) * (1 / R0)) / ((g - 1) * rho0 * R0) + (V0 * K) ^ 2 / 2)
             + (C0 * K) ^ 2 / (g * (1 / rho0) * (1 / R0)) * (V0 * K))
      with (rho0 * K ^ 3 * (M0 * E0 - P0 + M0 / 2)) by (unfold P0, M0, E0; field; repeat split; assumption).
    replace (R1 * rho0 * (V1 * K - - K) * ((C1 * K) ^ 2 / (g * (1 / rho0) * (1 / R1)) / ((g - 1) * rho0 * R1) + (V1 * K) ^ 2 / 2)
             + (C1 * K) ^ 2 / (g * (1 / rho0) * (1 / R1)) * (V1 * K))
      with (rho0 * K ^ 3 * (M1 * E1 - P1 + M1 / 2)) by (unfold P1, M1, E1; field; repeat split; assumption).
    rewrite Hm, Hp, He. reflexivity.
Qed.

(* ---- the jump coded at the reflected shock, in similarity variables ---- *)
Section Jump.
Variables g y0 y1 y2 : R.
Hypothesis Hg : 1 < g.
Hypothesis Hw0 : 1 + y0 <> 0.
Hypothesis Hy1 : y1 <> 0.
Let V1 := gud_jump_V g y0 y1.
Let C1 := gud_jump_C g y0 y1.
Let R1 := gud_jump_R g y0 y1 y2.
Hypothesis Hw1 : 1 + V1 <> 0.
(* the coded square root is taken of a non-negative number (otherwise numpy returns nan) *)
Hypothesis Hz : 0 <= y1 ^ 2 + 1 / 2 * (g - 1) * ((1 + y0) ^ 2 - (1 + V1) ^ 2).

Lemma jump_C_sq : C1 ^ 2 = y1 ^ 2 + 1 / 2 * (g - 1) * ((1 + y0) ^ 2 - (1 + V1) ^ 2).
Proof.
  assert (helper : forall a s, 0 <= a -> s = 1 \/ s = -1 -> (sqrt a * s) ^ 2 = a).
  { intros a s Ha [E | E]; rewrite E; [ replace ((sqrt a * 1) ^ 2) with (sqrt a * sqrt a) by ring
                                     | replace ((sqrt a * -1) ^ 2) with (sqrt a * sqrt a) by ring ]; apply sqrt_sqrt; exact Ha. }
  unfold C1, gud_jump_C. apply helper.
  - exact Hz.
  - destruct (Rlt_dec y1 0) as [Hn | Hn]; [ right; reflexivity | ].
    destruct (Rlt_dec 0 y1) as [Hp | Hp]; [ left; reflexivity | ]. exfalso. apply Hy1. lra.
Qed.

Lemma jump_mass : R1 * (1 + V1) = y2 * (1 + y0).
Proof.
  unfold R1, gud_jump_R.
  match goal with |- context [ _ / ?d ] => set (w := d) end.
  assert (Hw : w <> 0) by exact Hw1. change (1 + V1) with w. field. exact Hw.
Qed.

Lemma jump_energy : C1 ^ 2 / (g - 1) + (1 + V1) ^ 2 / 2 = y1 ^ 2 / (g - 1) + (1 + y0) ^ 2 / 2.
Proof. rewrite jump_C_sq. field. lra. Qed.

(* Prandtl's relation w0 w1 = c*^2 is what the coded V1 expresses *)
Lemma jump_prandtl : (1 + V1) * (1 + y0) = (g - 1) / (g + 1) * (1 + y0) ^ 2 + 2 / (g + 1) * y1 ^ 2.
Proof. unfold V1, gud_jump_V. field. split; [ lra | exact Hw0 ]. Qed.

Lemma jump_momentum : R1 * (C1 ^ 2 / g + (1 + V1) ^ 2) = y2 * (y1 ^ 2 / g + (1 + y0) ^ 2).
Proof.
  rewrite jump_C_sq. unfold R1, gud_jump_R.
  assert (HP := jump_prandtl).
  match goal with |- context [ _ / ?d ] => change d with (1 + V1) end.
  set (w1 := 1 + V1) in *. set (w0 := 1 + y0) in *.
  assert (Hy : y1 ^ 2 = (g + 1) / 2 * (w1 * w0 - (g - 1) / (g + 1) * w0 ^ 2)) by (rewrite HP; field; lra).
  rewrite Hy. field. repeat split; try assumption; lra.
Qed.
End Jump.

(* ---- C02: reflected shock, lab frame: state ahead = branch `pre` at x = B, state behind = branch `refl` at x = B with the jumped values ---- *)
Lemma guderley_reflected_shock_rh_proof : forall r rho0 gamma lambda_ B y0 y1 y2,
  1 < gamma -> rho0 <> 0 -> lambda_ <> 0 -> B <> 0 -> y2 <> 0 -> y1 <> 0 -> 1 + y0 <> 0 ->
  1 + gud_jump_V gamma y0 y1 <> 0 ->
  0 <= y1 ^ 2 + 1 / 2 * (gamma - 1) * ((1 + y0) ^ 2 - (1 + gud_jump_V gamma y0 y1) ^ 2) ->
  let V1 := gud_jump_V gamma y0 y1 in let C1 := gud_jump_C gamma y0 y1 in let R1 := gud_jump_R gamma y0 y1 y2 in
  rh_jump (Rpower r (1 - lambda_) / (lambda_ * B))
          (gud_pre_den rho0 y2) (gud_pre_vel r lambda_ B y0) (gud_pre_pres r rho0 gamma lambda_ B y1 y2) (gud_pre_sie r rho0 gamma lambda_ B y1 y2)
          (gud_refl_den rho0 R1) (gud_refl_vel r lambda_ B V1) (gud_refl_pres r rho0 gamma lambda_ B C1 R1) (gud_refl_sie r rho0 gamma lambda_ B C1 R1).
Proof.
  intros r rho0 gamma lambda_ B y0 y1 y2 Hg Hr Hl HB H2 H1 Hw0 Hw1 Hz V1 C1 R1.
  assert (HR1 : R1 <> 0).
  { unfold R1, gud_jump_R. match goal with |- context [ _ / ?d ] => set (w := d) end.
    assert (Hw : w <> 0) by exact Hw1. unfold Rdiv.
    apply Rmult_integral_contrapositive_currified; [ apply Rmult_integral_contrapositive_currified; assumption | apply Rinv_neq_0_compat; exact Hw ]. }
  autounfold with epgen.
  set (K := Rpower r (1 - lambda_) / (B * -1 * lambda_)).
  replace (Rpower r (1 - lambda_) / (lambda_ * B)) with (- K) by (unfold K; field; split; assumption).
  replace (y0 * Rpower r (1 - lambda_) / (B * -1 * lambda_)) with (y0 * K) by (unfold K; field; split; assumption).
  replace (y1 * Rpower r (1 - lambda_) / (B * -1 * lambda_)) with (y1 * K) by (unfold K; field; split; assumption).
  replace (V1 * Rpower r (1 - lambda_) / (B * -1 * lambda_)) with (V1 * K) by (unfold K; field; split; assumption).
  replace (C1 * Rpower r (1 - lambda_) / (B * -1 * lambda_)) with (C1 * K) by (unfold K; field; split; assumption).
  apply rh_of_similarity; try assumption; try lra.
  - apply jump_mass; assumption.
  - apply jump_momentum; assumption.
  - apply jump_energy; assumption.
Qed.

(* ---- C02: converging shock at x = -1: ambient gas at rest (branch `ahead`) against branch `conv` with the start values ---- *)
Lemma guderley_converging_shock_rh_proof : forall r rho0 gamma lambda_,
  1 < gamma -> rho0 <> 0 -> lambda_ <> 0 ->
  let V := gud_start_V gamma in let C := gud_start_C gamma in let Rr := gud_start_R gamma in
  rh_jump (Rpower r (1 - lambda_) / (lambda_ * -1))
          (gud_ahead_den rho0) gud_ahead_vel gud_ahead_pres gud_ahead_sie
          (gud_conv_den rho0 Rr) (gud_conv_vel r lambda_ (-1) V) (gud_conv_pres r rho0 gamma lambda_ (-1) C Rr) (gud_conv_sie r rho0 gamma lambda_ (-1) C Rr).
Proof.
  intros r rho0 gamma lambda_ Hg Hr Hl V C Rr.
  assert (HC : C ^ 2 = 2 * gamma * (gamma - 1) / (gamma + 1) ^ 2).
  { unfold C, gud_start_C. replace ((sqrt (2 * gamma * (gamma - 1)) / (gamma + 1)) ^ 2) with (sqrt (2 * gamma * (gamma - 1)) * sqrt (2 * gamma * (gamma - 1)) / (gamma + 1) ^ 2) by (field; lra).
    rewrite sqrt_sqrt by nra. reflexivity. }
  unfold gud_ahead_den, gud_ahead_vel, gud_ahead_pres, gud_ahead_sie, gud_conv_den, gud_conv_vel, gud_conv_pres, gud_conv_sie.
  set (K := Rpower r (1 - lambda_) / (-1 * -1 * lambda_)).
  replace (Rpower r (1 - lambda_) / (lambda_ * -1)) with (- K) by (unfold K; field; assumption).
  replace (V * Rpower r (1 - lambda_) / (-1 * -1 * lambda_)) with (V * K) by (unfold K; field; assumption).
  replace (C * Rpower r (1 - lambda_) / (-1 * -1 * lambda_)) with (C * K) by (unfold K; field; assumption).
  replace ((C * K) ^ 2) with (C ^ 2 * K ^ 2) by ring. rewrite HC.
  unfold rh_jump, V, Rr, gud_start_V, gud_start_R. repeat split; field; repeat split; lra.
Qed.

(* ---- C03: ideal-gas relations in every integrated branch ---- *)
Lemma guderley_eos_proof : forall r rho0 gamma lambda_ x y1 y2,
  gamma <> 0 -> gamma - 1 <> 0 -> rho0 <> 0 -> y2 <> 0 -> lambda_ <> 0 -> x <> 0 ->
  (gud_conv_pres r rho0 gamma lambda_ x y1 y2 = (gamma - 1) * gud_conv_den rho0 y2 * gud_conv_sie r rho0 gamma lambda_ x y1 y2 /\
   gud_conv_snd r lambda_ x y1 ^ 2 = gamma * gud_conv_pres r rho0 gamma lambda_ x y1 y2 / gud_conv_den rho0 y2) /\
  (gud_pre_pres r rho0 gamma lambda_ x y1 y2 = (gamma - 1) * gud_pre_den rho0 y2 * gud_pre_sie r rho0 gamma lambda_ x y1 y2 /\
   gud_pre_snd r lambda_ x y1 ^ 2 = gamma * gud_pre_pres r rho0 gamma lambda_ x y1 y2 / gud_pre_den rho0 y2) /\
  (gud_refl_pres r rho0 gamma lambda_ x y1 y2 = (gamma - 1) * gud_refl_den rho0 y2 * gud_refl_sie r rho0 gamma lambda_ x y1 y2 /\
   gud_refl_snd r lambda_ x y1 ^ 2 = gamma * gud_refl_pres r rho0 gamma lambda_ x y1 y2 / gud_refl_den rho0 y2).
Proof.
  intros r rho0 gamma lambda_ x y1 y2 Hg Hg1 Hr H2 Hl Hx.
  autounfold with epgen. set (q := Rpower r (1 - lambda_)).
  split; [ | split ]; (split; field; repeat split; assumption).
Qed.

(* ---- C10: equal similarity coordinate => documented powers of r ---- *)
Lemma Rpower_scale : forall s r a, 0 < s -> 0 < r -> Rpower (s * r) a = Rpower s a * Rpower r a.
Proof. intros s r a Hs Hr. unfold Rpower. rewrite ln_mult by assumption. rewrite Rmult_plus_distr_l, exp_plus. reflexivity. Qed.

Lemma guderley_selfsimilar_proof : forall s r rho0 gamma lambda_ x y0 y1 y2,
  0 < s -> 0 < r -> gamma <> 0 -> gamma - 1 <> 0 -> rho0 <> 0 -> y2 <> 0 -> lambda_ <> 0 -> x <> 0 ->
  let a := Rpower s (1 - lambda_) in
  (gud_conv_den rho0 y2 = gud_conv_den rho0 y2 /\
   gud_conv_vel (s * r) lambda_ x y0 = a * gud_conv_vel r lambda_ x y0 /\
   gud_conv_snd (s * r) lambda_ x y1 = a * gud_conv_snd r lambda_ x y1 /\
   gud_conv_pres (s * r) rho0 gamma lambda_ x y1 y2 = a ^ 2 * gud_conv_pres r rho0 gamma lambda_ x y1 y2 /\
   gud_conv_sie (s * r) rho0 gamma lambda_ x y1 y2 = a ^ 2 * gud_conv_sie r rho0 gamma lambda_ x y1 y2) /\
  (gud_pre_vel (s * r) lambda_ x y0 = a * gud_pre_vel r lambda_ x y0 /\
   gud_pre_snd (s * r) lambda_ x y1 = a * gud_pre_snd r lambda_ x y1 /\
   gud_pre_pres (s * r) rho0 gamma lambda_ x y1 y2 = a ^ 2 * gud_pre_pres r rho0 gamma lambda_ x y1 y2 /\
   gud_pre_sie (s * r) rho0 gamma lambda_ x y1 y2 = a ^ 2 * gud_pre_sie r rho0 gamma lambda_ x y1 y2) /\
  (gud_refl_vel (s * r) lambda_ x y0 = a * gud_refl_vel r lambda_ x y0 /\
   gud_refl_snd (s * r) lambda_ x y1 = a * gud_refl_snd r lambda_ x y1 /\
   gud_refl_pres (s * r) rho0 gamma lambda_ x y1 y2 = a ^ 2 * gud_refl_pres r rho0 gamma lambda_ x y1 y2 /\
   gud_refl_sie (s * r) rho0 gamma lambda_ x y1 y2 = a ^ 2 * gud_refl_sie r rho0 gamma lambda_ x y1 y2).
Proof.
  intros s r rho0 gamma lambda_ x y0 y1 y2 Hs Hr Hg Hg1 Hr0 H2 Hl Hx a.
  autounfold with epgen. rewrite (Rpower_scale s r (1 - lambda_)) by assumption. fold a.
  set (q := Rpower r (1 - lambda_)).
  split; [ | split ].
  - split; [ reflexivity | ]. split; [ | split; [ | split ] ]; field; repeat split; assumption.
  - split; [ | split; [ | split ] ]; field; repeat split; assumption.
  - split; [ | split; [ | split ] ]; field; repeat split; assumption.
Qed.

(* the similarity coordinate of guderley_1d is unchanged when r is multiplied by s and the Lazarus time t / factorC - 1 by s^lambda *)
Lemma guderley_targetx_proof : forall s r lambda_ t t',
  0 < s -> 0 < r ->
  t' / (375012161 / 500000000) - 1 = Rpower s lambda_ * (t / (375012161 / 500000000) - 1) ->
  gud_targetx (s * r) lambda_ t' = gud_targetx r lambda_ t.
Proof.
  intros s r lambda_ t t' Hs Hr E. unfold gud_targetx. rewrite E, Rpower_scale by assumption.
  field. split; apply Rgt_not_eq; unfold Rpower; apply exp_pos.
Qed.

(* the hypotheses of the reflected-shock theorem are satisfiable: gamma = 3, V = -1/2, C = 1/5 ahead of the shock *)
Example reflected_shock_hypotheses_satisfiable :
  1 + gud_jump_V 3 (-1 / 2) (1 / 5) <> 0 /\
  0 <= (1 / 5) ^ 2 + 1 / 2 * (3 - 1) * ((1 + -1 / 2) ^ 2 - (1 + gud_jump_V 3 (-1 / 2) (1 / 5)) ^ 2).
Proof. unfold gud_jump_V. split; [ | ]; lra. Qed.

(* the three integrated branches of state() map similarity variables to physical fields by the same formulas *)
Lemma guderley_branches_same_proof : forall r rho0 gamma lambda_ x y0 y1 y2,
  (gud_pre_den rho0 y2 = gud_conv_den rho0 y2 /\ gud_pre_vel r lambda_ x y0 = gud_conv_vel r lambda_ x y0 /\
   gud_pre_pres r rho0 gamma lambda_ x y1 y2 = gud_conv_pres r rho0 gamma lambda_ x y1 y2 /\
   gud_pre_snd r lambda_ x y1 = gud_conv_snd r lambda_ x y1 /\ gud_pre_sie r rho0 gamma lambda_ x y1 y2 = gud_conv_sie r rho0 gamma lambda_ x y1 y2) /\
  (gud_refl_den rho0 y2 = gud_conv_den rho0 y2 /\ gud_refl_vel r lambda_ x y0 = gud_conv_vel r lambda_ x y0 /\
   gud_refl_pres r rho0 gamma lambda_ x y1 y2 = gud_conv_pres r rho0 gamma lambda_ x y1 y2 /\
   gud_refl_snd r lambda_ x y1 = gud_conv_snd r lambda_ x y1 /\ gud_refl_sie r rho0 gamma lambda_ x y1 y2 = gud_conv_sie r rho0 gamma lambda_ x y1 y2).
Proof. intros. repeat split; reflexivity. Qed.

(* ---- C17: the coded reflected-shock jump is compressive exactly when the flow ahead is supersonic relative to the shock ---- *)
Lemma guderley_reflected_shock_compressive_proof : forall gamma y0 y1 y2,
  1 < gamma -> 1 + y0 <> 0 -> 0 < y2 -> y1 ^ 2 < (1 + y0) ^ 2 ->
  y2 < gud_jump_R gamma y0 y1 y2 /\
  (* the flow behind is subsonic relative to the shock: Prandtl's relation w0 w1 = c*^2 with w1 < c* < w0 *)
  (1 + gud_jump_V gamma y0 y1) ^ 2 < (1 + y0) ^ 2 /\ 0 < (1 + gud_jump_V gamma y0 y1) * (1 + y0).
Proof.
  intros gamma y0 y1 y2 Hg Hw0 H2 Hsup.
  set (w0 := 1 + y0) in *.
  assert (Hw0sq : 0 < w0 ^ 2) by (apply pow2_gt_0; exact Hw0).
  assert (Hy : 0 <= y1 ^ 2) by apply pow2_ge_0.
  assert (Hden : 0 < (gamma - 1) * w0 ^ 2 + 2 * y1 ^ 2) by nra.
  assert (HV : 1 + gud_jump_V gamma y0 y1 = ((gamma - 1) * w0 ^ 2 + 2 * y1 ^ 2) / ((gamma + 1) * w0)).
  { unfold gud_jump_V. fold w0. field. repeat split; first [ exact Hw0 | lra ]. }
  assert (Hprod : (1 + gud_jump_V gamma y0 y1) * w0 = ((gamma - 1) * w0 ^ 2 + 2 * y1 ^ 2) / (gamma + 1)).
  { rewrite HV. field. repeat split; first [ exact Hw0 | lra ]. }
  split; [ | split ].
  - assert (HR : gud_jump_R gamma y0 y1 y2 - y2 = y2 * (2 * (w0 ^ 2 - y1 ^ 2)) / ((gamma - 1) * w0 ^ 2 + 2 * y1 ^ 2)).
    { unfold gud_jump_R. fold w0. field. repeat split; first [ exact Hw0 | lra ]. }
    assert (0 < y2 * (2 * (w0 ^ 2 - y1 ^ 2)) / ((gamma - 1) * w0 ^ 2 + 2 * y1 ^ 2)).
    { apply Rdiv_lt_0_compat; [ | exact Hden ]. apply Rmult_lt_0_compat; [ exact H2 | lra ]. }
    lra.
  - (* w1^2 < w0^2  <=  (w1 w0)^2 < w0^4 *)
    assert (Hp : 0 < (1 + gud_jump_V gamma y0 y1) * w0).
    { rewrite Hprod. apply Rdiv_lt_0_compat; lra. }
    assert (Hlt : (1 + gud_jump_V gamma y0 y1) * w0 < w0 ^ 2).
    { rewrite Hprod. apply (Rmult_lt_reg_r (gamma + 1)); [ lra | ]. replace (((gamma - 1) * w0 ^ 2 + 2 * y1 ^ 2) / (gamma + 1) * (gamma + 1)) with ((gamma - 1) * w0 ^ 2 + 2 * y1 ^ 2) by (field; lra). nra. }
    set (w1 := 1 + gud_jump_V gamma y0 y1) in *.
    set (a := w1 * w0) in *. set (b := w0 ^ 2) in *.
    assert (Hsq : a * a < b * b) by nra.
    apply (Rmult_lt_reg_r b); [ exact Hw0sq | ].
    replace (w1 ^ 2 * b) with (a * a) by (unfold a, b; ring). replace (w0 ^ 2 * b) with (b * b) by (unfold b; ring). exact Hsq.
  - rewrite Hprod. apply Rdiv_lt_0_compat; lra.
Qed.

Lemma guderley_converging_shock_compressive_proof : forall gamma, 1 < gamma ->
  1 < gud_start_R gamma /\ gud_start_V gamma < 0 /\ 0 < gud_start_C gamma.
Proof.
  intros gamma Hg. unfold gud_start_R, gud_start_V, gud_start_C. split; [ | split ].
  - apply (Rmult_lt_reg_r (gamma - 1)); [ lra | ]. replace ((gamma + 1) / (gamma - 1) * (gamma - 1)) with (gamma + 1) by (field; lra). lra.
  - apply Ropp_lt_cancel. rewrite Ropp_0. replace (- (-2 / (gamma + 1))) with (2 / (gamma + 1)) by (field; lra). apply Rdiv_lt_0_compat; lra.
  - apply Rdiv_lt_0_compat; [ apply sqrt_lt_R0; nra | lra ].
Qed.
