(* Escape of HE products (ehep.py regions I-V, generated: gen/Ehep.v): in every region the returned density, velocity, pressure and
   energy satisfy the planar Euler equations (C01); the detonation front x = D t carries the CJ state of a gamma = 3 gas and satisfies
   the jump conditions with the unreacted explosive at rest (C02); the fields satisfy the gamma-law EOS and c^2 = 3 p / rho (C03);
   neighbouring regions join continuously along the characteristics that separate them. *)
From Coq Require Import Reals Lra Psatz.
From Coquelicot Require Import Coquelicot.
From EP Require Import lib.Base lib.Euler lib.Tactics lib.RH gen.Ehep.
Open Scope R_scope.

Section Ehep.
Variables D rho_0 up xtilde ttilde gamma : R.
Hypothesis HD : 0 < D.
Hypothesis Hr : 0 < rho_0.
Hypothesis Hg : gamma = 3.

Definition e_of (p rho : R -> R -> R) : R -> R -> R := fun x t => ehep_sie gamma (p x t) (rho x t).

Lemma ehep_I_euler : forall x t, 0 < t -> x <> 0 -> 0 < ehep_I_cs x t D ->
  euler_at 0 (fun x t => ehep_I_rho x t D rho_0) (fun x t => ehep_I_u x t D) (fun x t => ehep_I_p x t D rho_0)
             (e_of (fun x t => ehep_I_p x t D rho_0) (fun x t => ehep_I_rho x t D rho_0)) x t.
Proof.
  intros x t Ht Hx Hc. unfold ehep_I_cs in Hc.
  assert (H2 : 0 < x * 2 + D * t).
  { replace (x * 2 + D * t) with (4 * t * (1 / 2 * (x / t + D / 2))) by (field; lra). apply Rmult_lt_0_compat; lra. }
  assert (Htn : t <> 0) by lra.
  unfold e_of, ehep_sie. rewrite Hg. euler_solve; apply Rgt_not_eq; exact H2.
Qed.

(* region III: a uniform state *)
Lemma ehep_III_euler : forall x t, x <> 0 -> 0 < ehep_III_cs D up ->
  euler_at 0 (fun _ _ => ehep_III_rho D rho_0 up) (fun _ _ => ehep_III_u up) (fun _ _ => ehep_III_p D rho_0 up)
             (e_of (fun _ _ => ehep_III_p D rho_0 up) (fun _ _ => ehep_III_rho D rho_0 up)) x t.
Proof.
  intros x t Hx Hc. unfold ehep_III_cs in Hc. unfold e_of, ehep_sie. rewrite Hg. euler_solve.
Qed.

(* region IV: simple wave centred at (xtilde, ttilde) riding on the piston state *)
Lemma ehep_IV_euler : forall x t, x <> 0 -> D * t - xtilde <> 0 -> 0 < ehep_IV_cs x t D up xtilde ->
  euler_at 0 (fun x t => ehep_IV_rho x t D rho_0 up xtilde) (fun x t => ehep_IV_u x t D up xtilde) (fun x t => ehep_IV_p x t D rho_0 up xtilde)
             (e_of (fun x t => ehep_IV_p x t D rho_0 up xtilde) (fun x t => ehep_IV_rho x t D rho_0 up xtilde)) x t.
Proof.
  intros x t Hx Hd Hc. unfold ehep_IV_cs in Hc. unfold e_of, ehep_sie. rewrite Hg.
  assert (Hnz : up * (2 * (2 * (D * t - xtilde))) + D * (D * t - xtilde - (x - xtilde) * 2) <> 0).
  { replace (up * (2 * (2 * (D * t - xtilde))) + D * (D * t - xtilde - (x - xtilde) * 2))
      with (4 * (D * t - xtilde) * (up + 1 / 2 * D * (1 / 2 - (x - xtilde) / (D * t - xtilde)))) by (field; exact Hd).
    apply Rmult_integral_contrapositive_currified; [ apply Rmult_integral_contrapositive_currified; [ lra | exact Hd ] | lra ]. }
  euler_solve; exact Hnz.
Qed.

(* region V *)
Lemma ehep_V_euler : forall x t, x <> 0 -> t - ttilde <> 0 -> 0 < ehep_V_cs t D up ttilde ->
  euler_at 0 (fun x t => ehep_V_rho t D rho_0 up ttilde) (fun x t => ehep_V_u x t up ttilde) (fun x t => ehep_V_p t D rho_0 up ttilde)
             (e_of (fun x t => ehep_V_p t D rho_0 up ttilde) (fun x t => ehep_V_rho t D rho_0 up ttilde)) x t.
Proof.
  intros x t Hx Hd Hc. unfold ehep_V_cs in Hc. unfold e_of, ehep_sie. rewrite Hg. euler_solve.
Qed.

(* region II: the centred wave reflected at the free surface; the coded sound speed carries a clamp max(., 0): where the unclamped
   value is positive the coded fields are the unclamped ones, and those satisfy the Euler equations *)
Definition cs2 (x t : R) : R := 1 / 2 * (x / t - (x - xtilde) / (t - ttilde)).
Definition rho2u (x t : R) : R := 16 / 9 * rho_0 * cs2 x t / D.
Definition p2u (x t : R) : R := 16 / 27 * rho_0 * D ^ 2 * (cs2 x t / D) ^ 3.

Lemma ehep_II_unclamped : forall x t, 0 <= cs2 x t ->
  ehep_II_cs x t xtilde ttilde = cs2 x t /\ ehep_II_rho x t D rho_0 xtilde ttilde = rho2u x t /\ ehep_II_p x t D rho_0 xtilde ttilde = p2u x t.
Proof.
  intros x t H. unfold ehep_II_cs, ehep_II_rho, ehep_II_p, rho2u, p2u. fold (cs2 x t). rewrite Rmax_left by exact H. repeat split; reflexivity.
Qed.

Lemma ehep_II_euler : forall x t, t <> 0 -> t - ttilde <> 0 -> x <> 0 -> 0 < cs2 x t ->
  euler_at 0 rho2u (fun x t => ehep_II_u x t xtilde ttilde) p2u (e_of p2u rho2u) x t.
Proof.
  intros x t Ht Hd Hx Hc. unfold cs2 in Hc. unfold e_of, ehep_sie, rho2u, p2u, cs2. rewrite Hg.
  assert (Hnz : x * (t - ttilde) - (x - xtilde) * t <> 0).
  { replace (x * (t - ttilde) - (x - xtilde) * t) with (2 * t * (t - ttilde) * (1 / 2 * (x / t - (x - xtilde) / (t - ttilde)))) by (field; split; assumption).
    apply Rmult_integral_contrapositive_currified; [ apply Rmult_integral_contrapositive_currified; [ lra | exact Hd ] | lra ]. }
  euler_solve; exact Hnz.
Qed.

(* ---- detonation front x = D t: region I returns the CJ state; jump conditions with the explosive at rest (rho_0, 0, 0, 0) ---- *)
Lemma ehep_front_cj : forall t, t <> 0 ->
  ehep_I_u (D * t) t D = D / 4 /\ ehep_I_cs (D * t) t D = 3 * D / 4 /\
  ehep_I_rho (D * t) t D rho_0 = 4 / 3 * rho_0 /\ ehep_I_p (D * t) t D rho_0 = rho_0 * D ^ 2 / 4.
Proof.
  intros t Ht. unfold ehep_I_u, ehep_I_cs, ehep_I_rho, ehep_I_p. repeat split; field; lra.
Qed.

(* mass and momentum across the front (the heat of reaction is not returned, so the energy relation is not observable), and the CJ condition *)
Lemma ehep_front_rh : forall t, t <> 0 ->
  let x := D * t in
  ehep_I_rho x t D rho_0 * (ehep_I_u x t D - D) = rho_0 * (0 - D) /\
  ehep_I_rho x t D rho_0 * (ehep_I_u x t D - D) * ehep_I_u x t D + ehep_I_p x t D rho_0 = rho_0 * (0 - D) * 0 + 0 /\
  ehep_I_u x t D + ehep_I_cs x t D = D.
Proof.
  intros t Ht x. destruct (ehep_front_cj t Ht) as (Eu & Ec & Er & Ep). fold x in Eu, Ec, Er, Ep.
  rewrite Eu, Ec, Er, Ep. repeat split; field.
Qed.

(* ---- equation of state in every region: p = (gamma - 1) rho e and c^2 = 3 p / rho (the region formulas hard-code gamma = 3) ---- *)
Lemma ehep_eos : forall p rho, rho <> 0 -> p = (gamma - 1) * rho * ehep_sie gamma p rho.
Proof. intros p rho Hrho. unfold ehep_sie. rewrite Hg. field. exact Hrho. Qed.

Lemma ehep_sound_speed : forall cs, 0 < cs ->
  let p := 16 / 27 * rho_0 * D ^ 2 * (cs / D) ^ 3 in let rho := 16 / 9 * rho_0 * cs / D in
  cs ^ 2 = 3 * p / rho /\ p / rho ^ 3 = 16 / 27 * rho_0 * D ^ 2 / D ^ 3 / (16 / 9 * rho_0 / D) ^ 3.
Proof. intros cs Hc p rho. unfold p, rho. split; field; repeat split; lra. Qed.

(* every region's (p, rho) is that pair evaluated at the region's sound speed *)
Lemma ehep_p_rho_of_cs : forall x t,
  ehep_I_p x t D rho_0 = 16 / 27 * rho_0 * D ^ 2 * (ehep_I_cs x t D / D) ^ 3 /\ ehep_I_rho x t D rho_0 = 16 / 9 * rho_0 * ehep_I_cs x t D / D /\
  ehep_II_p x t D rho_0 xtilde ttilde = 16 / 27 * rho_0 * D ^ 2 * (ehep_II_cs x t xtilde ttilde / D) ^ 3 /\
  ehep_II_rho x t D rho_0 xtilde ttilde = 16 / 9 * rho_0 * ehep_II_cs x t xtilde ttilde / D /\
  ehep_III_p D rho_0 up = 16 / 27 * rho_0 * D ^ 2 * (ehep_III_cs D up / D) ^ 3 /\ ehep_III_rho D rho_0 up = 16 / 9 * rho_0 * ehep_III_cs D up / D /\
  ehep_IV_p x t D rho_0 up xtilde = 16 / 27 * rho_0 * D ^ 2 * (ehep_IV_cs x t D up xtilde / D) ^ 3 /\
  ehep_IV_rho x t D rho_0 up xtilde = 16 / 9 * rho_0 * ehep_IV_cs x t D up xtilde / D /\
  ehep_V_p t D rho_0 up ttilde = 16 / 27 * rho_0 * D ^ 2 * (ehep_V_cs t D up ttilde / D) ^ 3 /\
  ehep_V_rho t D rho_0 up ttilde = 16 / 9 * rho_0 * ehep_V_cs t D up ttilde / D.
Proof. intros. repeat split; reflexivity. Qed.

(* ---- neighbouring regions join continuously along the characteristics that separate them ---- *)
Lemma ehep_I_III_boundary : forall t, t <> 0 ->
  let x := (2 * up + D / 2) * t in ehep_I_cs x t D = ehep_III_cs D up /\ ehep_I_u x t D = ehep_III_u up.
Proof. intros t Ht x. unfold x, ehep_I_cs, ehep_I_u, ehep_III_cs, ehep_III_u. split; field; exact Ht. Qed.

Lemma ehep_I_II_boundary : forall t, t <> 0 -> t - ttilde <> 0 -> ttilde = xtilde / D ->
  (* boundary D: the C- characteristic through (xtilde, ttilde): (x - xtilde) = -(D/2) (t - ttilde) *)
  let x := xtilde - D / 2 * (t - ttilde) in
  ehep_I_cs x t D = cs2 x t /\ ehep_I_u x t D = ehep_II_u x t xtilde ttilde.
Proof.
  intros t Ht Hd Htt x. unfold x, ehep_I_cs, ehep_I_u, cs2, ehep_II_u. split; field; repeat split; assumption.
Qed.

(* ---- self-similarity of region I, positivity ---- *)
Lemma ehep_I_selfsimilar : forall lam x t, lam <> 0 -> t <> 0 ->
  ehep_I_cs (lam * x) (lam * t) D = ehep_I_cs x t D /\ ehep_I_u (lam * x) (lam * t) D = ehep_I_u x t D /\
  ehep_I_p (lam * x) (lam * t) D rho_0 = ehep_I_p x t D rho_0 /\ ehep_I_rho (lam * x) (lam * t) D rho_0 = ehep_I_rho x t D rho_0.
Proof.
  intros lam x t Hl Ht. unfold ehep_I_cs, ehep_I_u, ehep_I_p, ehep_I_rho.
  replace (lam * x / (lam * t)) with (x / t) by (field; split; assumption). repeat split; reflexivity.
Qed.

Lemma ehep_positive : forall cs, 0 <= cs -> 0 <= 16 / 27 * rho_0 * D ^ 2 * (cs / D) ^ 3 /\ 0 <= 16 / 9 * rho_0 * cs / D.
Proof.
  intros cs Hc. assert (0 <= cs / D) by (apply Rmult_le_pos; [ exact Hc | apply Rlt_le, Rinv_0_lt_compat; exact HD ]).
  split.
  - apply Rmult_le_pos; [ apply Rmult_le_pos; [ lra | apply pow_le; lra ] | apply pow_le; assumption ].
  - replace (16 / 9 * rho_0 * cs / D) with (16 / 9 * rho_0 * (cs / D)) by (field; lra). apply Rmult_le_pos; [ lra | assumption ].
Qed.
End Ehep.
