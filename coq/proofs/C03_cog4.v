(* C03 for cog4: returned thermodynamic fields satisfy the declared EOS. P = Gamma rho T, e = Gamma T/(gamma-1) *)
From Coq Require Import Reals Lra.
From EP Require Import lib.Base lib.Tactics gen.Cog4.
Open Scope R_scope.

Lemma cog4_eos_proof :
  forall geometry gamma rho0 u0 Gamma r t,
  cog4_defined geometry gamma rho0 u0 Gamma r t ->
  cog4_density geometry gamma rho0 u0 Gamma r t <> 0 ->
  gamma - 1 <> 0 ->
  cog4_pressure geometry gamma rho0 u0 Gamma r t = Gamma * (cog4_density geometry gamma rho0 u0 Gamma r t) * (cog4_temperature geometry gamma rho0 u0 Gamma r t) /\
  cog4_specific_internal_energy geometry gamma rho0 u0 Gamma r t = Gamma * (cog4_temperature geometry gamma rho0 u0 Gamma r t) / (gamma - 1) /\
  cog4_pressure geometry gamma rho0 u0 Gamma r t = (gamma - 1) * (cog4_density geometry gamma rho0 u0 Gamma r t) * (cog4_specific_internal_energy geometry gamma rho0 u0 Gamma r t).
Proof. unfold cog4_defined. eos_solve. Qed.
