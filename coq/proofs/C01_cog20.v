(* C01 for Coggeshall 20: both smooth regions (regions as delimited by the coded shock location). *)
From Coq Require Import Reals Lra Psatz.
From Coquelicot Require Import Coquelicot.
From EP Require Import lib.Base lib.Euler lib.Tactics lib.Piecewise gen.Cog20.
Open Scope R_scope.

Definition cog20_shock (gamma u0 a t : R) : R :=
  u0 * (gamma - 1) / (4 * a) * t * (1 - 2 * a * t) / (1 - a * t).

Section Cog20.
Variables geometry gamma rho0 u0 a Gamma : R.
Hypothesis Hg : 1 < gamma.
Hypothesis HG : Gamma <> 0.
Hypothesis Hrho : rho0 <> 0.
Hypothesis Ha : a <> 0.

(* Region 1 is a uniform adiabatic compression: T ~ (1-at)^(-2) solves the energy equation only when
   (k+1)(gamma-1) = 2, i.e. gamma = (k+3)/(k+1).  The solver accepts any gamma: see cog20_energy_refuted. *)
Lemma cog20_post_proof : forall r t, 0 < r -> 0 < 1 - a * t -> geometry * (gamma - 1) = 2 -> r < cog20_shock gamma u0 a t ->
  euler_at (geometry - 1) (cog20_density geometry gamma rho0 u0 a Gamma) (cog20_velocity geometry gamma rho0 u0 a Gamma)
    (cog20_pressure geometry gamma rho0 u0 a Gamma) (cog20_specific_internal_energy geometry gamma rho0 u0 a Gamma) r t.
Proof.
  intros r t Hr Hc Hgam Hreg. unfold cog20_shock in Hreg.
  assert (Hc' : 0 < 1 + - (a * t)) by lra.
  assert (Hgeo : geometry = 2 / (gamma - 1)) by (apply (Rmult_eq_reg_r (gamma - 1)); [ rewrite Hgam; field; lra | lra ]).
  clear Hgam. subst geometry.
  euler_unfold. repeat match goal with |- _ /\ _ => split end;
  exders2 (fun y => y < u0 * (gamma - 1) / (4 * a) * t * (1 - 2 * a * t) / (1 - a * t))
          (fun y => r < u0 * (gamma - 1) / (4 * a) * y * (1 - 2 * a * y) / (1 - a * y));
  kill_ifs; fsolveA.
Qed.

Lemma cog20_pre_proof : forall r t, 0 < r -> 0 < 1 - a * t -> 0 < (r - u0 * t) / r -> cog20_shock gamma u0 a t < r ->
  euler_at (geometry - 1) (cog20_density geometry gamma rho0 u0 a Gamma) (cog20_velocity geometry gamma rho0 u0 a Gamma)
    (cog20_pressure geometry gamma rho0 u0 a Gamma) (cog20_specific_internal_energy geometry gamma rho0 u0 a Gamma) r t.
Proof.
  intros r t Hr Hc Hpos Hreg. unfold cog20_shock in Hreg.
  assert (Hc' : 0 < 1 + - (a * t)) by lra.
  assert (Hpos' : 0 < (r - u0 * t) * / r) by exact Hpos.
  assert (Hpos2 : 0 < (r + - (u0 * t)) * / r).
  { replace (r + - (u0 * t)) with (r - u0 * t) by ring. exact Hpos. }
  euler_unfold. repeat match goal with |- _ /\ _ => split end;
  exders2 (fun y => u0 * (gamma - 1) / (4 * a) * t * (1 - 2 * a * t) / (1 - a * t) < y)
          (fun y => u0 * (gamma - 1) / (4 * a) * y * (1 - 2 * a * y) / (1 - a * y) < r);
  kill_ifs; fsolveA.
Qed.
End Cog20.
