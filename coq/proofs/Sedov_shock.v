(* Sedov: the shock radius, its speed and the post-shock state regenerated from sedov.py:_run satisfy the strong-shock
   Rankine-Hugoniot relations with the undisturbed state rho0 r^-omega ahead (C02); the shock radius and the post-shock
   amplitudes have the documented similarity exponents (C10). *)
From Coq Require Import Reals Lra Psatz.
From Coquelicot Require Import Coquelicot.
From EP Require Import lib.Base lib.Tactics lib.RH gen.Sedov proofs.C11_sedov.
Open Scope R_scope.

Section Shock.
Variables t rho0 eblast alpha omega xg2 gamma : R.
Hypothesis Ht : 0 < t.
Hypothesis Hg : 1 < gamma.
Hypothesis Hx : xg2 <> 0.

Let gamp1 := gamma + 1.
Let gpogm := (gamma + 1) / (gamma - 1).
Let r2 := sed_r2 t rho0 eblast alpha xg2.
Let us := sed_us t rho0 eblast alpha xg2.
Let rho1 := sed_rho1 t rho0 eblast alpha omega xg2.
Let rho2 := sed_rho2 t rho0 eblast alpha omega xg2 gpogm.
Let u2 := sed_u2 t rho0 eblast alpha xg2 gamp1.
Let p2 := sed_p2 t rho0 eblast alpha omega xg2 gamp1.

(* the ambient density at the shock is the initial profile evaluated there *)
Lemma sedov_rho1_is_profile : rho1 = rho0 * Rpower r2 (- omega).
Proof. reflexivity. Qed.

(* the coded shock speed is the time derivative of the coded shock radius *)
Lemma sedov_shock_speed_proof : is_derive (fun y => sed_r2 y rho0 eblast alpha xg2) t us.
Proof.
  unfold sed_r2, us, sed_us.
  evar_last.
  - apply (is_derive_scal (fun y => Rpower y (2 / xg2)) t (Rpower (eblast / (alpha * rho0)) (1 / xg2))).
    unfold Rpower. auto_derive; [ exact Ht | reflexivity ].
  - unfold scal; simpl; unfold mult; simpl. unfold Rpower. field. lra.
Qed.

Lemma sedov_shock_rh_proof : 0 < rho0 ->
  rh_jump us rho2 u2 p2 (p2 / (gamma - 1) / rho2) rho1 0 0 0.
Proof.
  intros Hr.
  assert (Hrho1 : 0 < rho1) by (unfold rho1, sed_rho1; apply Rmult_lt_0_compat; [ exact Hr | unfold Rpower; apply exp_pos ]).
  unfold rh_jump, rho2, u2, p2, sed_rho2, sed_u2, sed_p2.
  change (rho0 * Rpower (Rpower (eblast / (alpha * rho0)) (1 / xg2) * Rpower t (2 / xg2)) (- omega)) with rho1.
  change (2 / xg2 * (Rpower (eblast / (alpha * rho0)) (1 / xg2) * Rpower t (2 / xg2)) / t) with us.
  set (R1 := rho1) in *. set (U := us). clearbody R1 U.
  unfold gpogm, gamp1. repeat split; field; repeat split; lra.
Qed.
End Shock.

(* similarity exponents: r2 ~ t^(2/xg2); at fixed parameters rho2 ~ r2^-omega, u2 ~ r2/t, p2 ~ r2^-omega (r2/t)^2 *)
Lemma sedov_r2_scaling_proof : forall lam t rho0 eblast alpha xg2, 0 < lam -> 0 < t ->
  sed_r2 (lam * t) rho0 eblast alpha xg2 = Rpower lam (2 / xg2) * sed_r2 t rho0 eblast alpha xg2.
Proof.
  intros lam t rho0 eblast alpha xg2 Hl Ht. unfold sed_r2. rewrite <- Rpower_mult_distr by assumption. ring.
Qed.

Lemma sedov_amplitudes_proof : forall t rho0 eblast alpha omega xg2 gamp1 gpogm, 0 < t -> xg2 <> 0 -> gamp1 <> 0 ->
  let r2 := sed_r2 t rho0 eblast alpha xg2 in
  sed_rho2 t rho0 eblast alpha omega xg2 gpogm = gpogm * rho0 * Rpower r2 (- omega) /\
  sed_u2 t rho0 eblast alpha xg2 gamp1 = 4 / (xg2 * gamp1) * (r2 / t) /\
  sed_p2 t rho0 eblast alpha omega xg2 gamp1 = 8 / (xg2 ^ 2 * gamp1) * rho0 * Rpower r2 (- omega) * (r2 / t) ^ 2.
Proof.
  intros t rho0 eblast alpha omega xg2 gamp1 gpogm Ht Hx Hgp r2.
  unfold sed_rho2, sed_u2, sed_p2. fold (sed_r2 t rho0 eblast alpha xg2). fold r2.
  set (A := Rpower r2 (- omega)). clearbody A r2.
  repeat split; field; repeat split; lra.
Qed.
