From Coq Require Import Reals List Lra Psatz Sorted.
From EP Require Import model.Interp.
Import ListNotations.
Open Scope R_scope.

Lemma interp_aux_shift : forall c rest x k0 v0,
  interp_aux (x + c) (k0 + c) v0 (shift_knots c rest) = interp_aux x k0 v0 rest.
Proof.
  intros c rest. induction rest as [| [k1 v1] r IH]; intros x k0 v0; cbn [shift_knots map interp_aux fst snd]; [ reflexivity | ].
  destruct (Rle_dec (x + c) (k1 + c)) as [H | H]; destruct (Rle_dec x k1) as [H' | H']; try (exfalso; lra).
  - f_equal. f_equal; [ f_equal; ring | ring ].
  - apply IH.
Qed.

(* moving every knot by c moves the interpolant by c: interp (x + c) (knots + c) = interp x knots *)
Lemma interp_shift_proof : forall c pts x, interp (x + c) (shift_knots c pts) = interp x pts.
Proof.
  intros c [| [k0 v0] r] x; cbn [shift_knots map interp fst snd]; [ reflexivity | ].
  destruct (Rle_dec (x + c) (k0 + c)) as [H | H]; destruct (Rle_dec x k0) as [H' | H']; try (exfalso; lra); [ reflexivity | ].
  apply interp_aux_shift.
Qed.

(* travelling-wave form: the solution at time t is the time-0 profile displaced by c *)
Lemma travelling_wave_proof : forall c pts x, interp x (shift_knots c pts) = interp (x - c) pts.
Proof. intros c pts x. replace x with ((x - c) + c) at 1 by ring. apply interp_shift_proof. Qed.

(* an interpolated value lies between the two neighbouring knot values (used by C17) *)
Lemma interp_between_proof : forall rest x k0 v0 lo hi,
  k0 < x -> lo <= v0 <= hi -> Forall (fun kv => lo <= snd kv <= hi) rest ->
  (forall k1 v1 r, rest = (k1, v1) :: r -> k0 < k1) ->
  StronglySorted (fun a b => fst a < fst b) rest ->
  lo <= interp_aux x k0 v0 rest <= hi.
Proof.
  induction rest as [| [k1 v1] r IH]; intros x k0 v0 lo hi Hx Hv HF Hk HS; cbn [interp_aux]; [ exact Hv | ].
  inversion HF as [| ? ? Hv1 HFr]; subst. cbn [snd] in Hv1.
  assert (Hk01 : k0 < k1) by (apply (Hk k1 v1 r eq_refl)).
  destruct (Rle_dec x k1) as [Hle | Hgt].
  - set (th := (x - k0) / (k1 - k0)).
    assert (Hth : 0 <= th <= 1).
    { unfold th. split.
      - apply Rmult_le_pos; [ lra | apply Rlt_le, Rinv_0_lt_compat; lra ].
      - apply (Rmult_le_reg_r (k1 - k0)); [ lra | ]. unfold Rdiv. rewrite Rmult_assoc, Rinv_l by lra. lra. }
    replace (v0 + (v1 - v0) * (x - k0) / (k1 - k0)) with ((1 - th) * v0 + th * v1) by (unfold th; field; lra).
    destruct Hth as [H0 H1]. destruct Hv as [Hv0 Hv0']. destruct Hv1 as [Hv1 Hv1']. split; nra.
  - apply IH; [ lra | exact Hv1 | exact HFr | | ].
    + intros k2 v2 r' E. subst r. inversion HS as [| ? ? HS' HF']; subst. inversion HF' as [| ? ? Hlt ?]; subst. exact Hlt.
    + inversion HS; assumption.
Qed.
