(* C01 for Coggeshall 8. Heat conduction with lambda = lambda0 rho^alpha T^beta, any coefficient K0 = 4 a c lambda0/3. *)
From Coq Require Import Reals Lra.
From Coquelicot Require Import Coquelicot.
From EP Require Import lib.Base lib.Euler lib.Tactics gen.Cog8.
Open Scope R_scope.

Lemma cog8_pde_proof :
  forall geometry gamma alpha beta rho0 temp0 Gamma K0 r t,
  0 < r -> 0 < t -> 0 < rho0 -> 0 < temp0 -> gamma <> 1 -> Gamma <> 0 -> beta - alpha + 4 <> 0 ->
  euler_heat_at (geometry - 1) K0 alpha beta
    (cog8_density geometry gamma alpha beta rho0 temp0 Gamma)
    (cog8_velocity geometry gamma alpha beta rho0 temp0 Gamma)
    (cog8_temperature geometry gamma alpha beta rho0 temp0 Gamma)
    (cog8_pressure geometry gamma alpha beta rho0 temp0 Gamma)
    (cog8_specific_internal_energy geometry gamma alpha beta rho0 temp0 Gamma) r t.
Proof. intros. heat_solve (- ((geometry - 1 - 1) / (beta - alpha + 4))). Qed.
