(* C01 for Coggeshall 16 (steady power-law flow with conduction, alpha = 1 - 1/k, beta = alpha/2 - 3): rho = R0 r^(-k-b), u = u0 r^b, T = T0 r^(2b);
   the amplitude condition is proved by taking logarithms of the coded product of real powers; instance of lib/SteadyPowerLaw. *)
From Coq Require Import Reals Lra Psatz.
From Coquelicot Require Import Coquelicot.
From EP Require Import lib.Base lib.Euler lib.Tactics lib.ExpAtoms lib.SteadyPowerLaw gen.Cog16.
Open Scope R_scope.

Lemma ln_Rpower' : forall x y, ln (Rpower x y) = y * ln x.
Proof. intros. unfold Rpower. apply ln_exp. Qed.

Ltac posR :=
  repeat match goal with
  | H : ?g |- ?g => exact H
  | |- 0 < Rpower _ _ => unfold Rpower; apply exp_pos
  | |- 0 < exp _ => apply exp_pos
  | |- 0 < ?a * ?b => apply Rmult_lt_0_compat
  | |- 0 < ?a / ?b => apply Rdiv_lt_0_compat
  | |- 0 < / _ => apply Rinv_0_lt_compat
  end; try lra.

Ltac ln_expand :=
  repeat first
  [ rewrite ln_Rpower'
  | rewrite ln_mult by posR
  | rewrite ln_Rinv by posR ].

Definition KC16 (lambda0 : R) : R := 119880000000 * lambda0 * (686 / 5) / 3.

Section Cog16.
Variables geometry gamma u0 b lambda0 Gamma : R.
Let k := geometry - 1.
Let x1 := 2 * b + (gamma - 1) * (k + b).
Let Q := 479520000000 * lambda0 * (686 / 5) * (gamma - 1) / 3.
Let R0 := Rpower Q k * Rpower b ((5 * k - 1) / 2) / (u0 * Rpower (k - b) ((k - 1) / 2) * Rpower Gamma ((3 * k - 1) / 2) * Rpower x1 k).
Let T0 := u0 ^ 2 * b / Gamma / (k - b).
Let al := 1 - 1 / k.
Let be := (1 - 1 / k) / 2 - 3.

Hypothesis Hk : 0 < k.
Hypothesis Hb : 0 < b.
Hypothesis Hkb : 0 < k - b.
Hypothesis Hg : 1 < gamma.
Hypothesis HG : 0 < Gamma.
Hypothesis Hu : 0 < u0.
Hypothesis Hl : 0 < lambda0.

Lemma c16_x1_pos : 0 < x1.
Proof. unfold x1. assert (0 < (gamma - 1) * (k + b)) by (apply Rmult_lt_0_compat; lra). lra. Qed.

Lemma c16_Q_pos : 0 < Q.
Proof. unfold Q. apply Rdiv_lt_0_compat; [ | lra ]. repeat apply Rmult_lt_0_compat; lra. Qed.

Lemma c16_R0_pos : 0 < R0.
Proof. assert (Hx := c16_x1_pos). unfold R0. posR. Qed.

Lemma c16_T0_pos : 0 < T0.
Proof. unfold T0. apply Rdiv_lt_0_compat; [ | exact Hkb ]. apply Rdiv_lt_0_compat; [ | exact HG ]. apply Rmult_lt_0_compat; [ apply pow_lt; exact Hu | exact Hb ]. Qed.

Lemma c16_key :
  Gamma * u0 * x1 / (gamma - 1) = KC16 lambda0 * Rpower R0 (al - 1) * Rpower T0 (be + 3) * (4 * b ^ 2).
Proof.
  assert (Hx := c16_x1_pos). assert (HQ := c16_Q_pos). assert (HR := c16_R0_pos). assert (HT := c16_T0_pos).
  assert (HK : 0 < KC16 lambda0) by (unfold KC16; apply Rdiv_lt_0_compat; [ repeat apply Rmult_lt_0_compat; lra | lra ]).
  assert (Hg1 : 0 < gamma - 1) by lra.
  apply ln_inv.
  - posR.
  - posR. replace (b ^ 2) with (b * b) by ring. posR.
  - replace (Gamma * u0 * x1 / (gamma - 1)) with (Gamma * u0 * x1 * / (gamma - 1)) by (field; lra).
    replace (4 * b ^ 2) with (4 * (b * b)) by ring.
    ln_expand.
    assert (HlnR0 : ln R0 = k * (ln 4 + ln (KC16 lambda0) + ln (gamma - 1)) + (5 * k - 1) / 2 * ln b
                             - (ln u0 + (k - 1) / 2 * ln (k - b) + (3 * k - 1) / 2 * ln Gamma + k * ln x1)).
    { unfold R0. unfold Rdiv at 1.
      replace Q with (4 * (KC16 lambda0 * (gamma - 1))) by (unfold Q, KC16; field).
      ln_expand. ring. }
    assert (HlnT0 : ln T0 = ln u0 + ln u0 + ln b - ln Gamma - ln (k - b)).
    { unfold T0. replace (u0 ^ 2 * b / Gamma / (k - b)) with (u0 * u0 * b * / Gamma * / (k - b)) by (field; lra).
      ln_expand. ring. }
    rewrite HlnR0, HlnT0. unfold al, be. field. lra.
Qed.

Lemma cog16_pde_section : forall r t, 0 < r ->
  euler_heat_at k (KC16 lambda0) al be
    (cog16_density geometry gamma u0 b lambda0 Gamma)
    (cog16_velocity geometry gamma u0 b lambda0 Gamma)
    (cog16_temperature geometry gamma u0 b lambda0 Gamma)
    (cog16_pressure geometry gamma u0 b lambda0 Gamma)
    (cog16_specific_internal_energy geometry gamma u0 b lambda0 Gamma) r t.
Proof.
  intros r t Hr.
  assert (Hmom : u0 * u0 * b = Gamma * T0 * (k - b)) by (unfold T0; field; lra).
  assert (Hexp : (- k - b) * al + 2 * b * (be + 3) + 2 * b - 1 = 3 * b + (- k - b)) by (unfold al, be; field; lra).
  exact (steady_powerlaw_heat k (KC16 lambda0) al be Gamma gamma R0 T0 u0 b r t Hr c16_R0_pos c16_T0_pos
           (Rgt_not_eq _ _ HG) (Rgt_not_eq _ _ Hg) (Rgt_not_eq _ _ Hb) Hmom Hexp c16_key).
Qed.
End Cog16.


Lemma cog16_pde_proof :
  forall geometry gamma u0 b lambda0 Gamma r t,
  0 < geometry - 1 -> 0 < b -> 0 < geometry - 1 - b -> 1 < gamma -> 0 < Gamma -> 0 < u0 -> 0 < lambda0 -> 0 < r ->
  euler_heat_at (geometry - 1) (KC16 lambda0) (1 - 1 / (geometry - 1)) ((1 - 1 / (geometry - 1)) / 2 - 3)
    (cog16_density geometry gamma u0 b lambda0 Gamma)
    (cog16_velocity geometry gamma u0 b lambda0 Gamma)
    (cog16_temperature geometry gamma u0 b lambda0 Gamma)
    (cog16_pressure geometry gamma u0 b lambda0 Gamma)
    (cog16_specific_internal_energy geometry gamma u0 b lambda0 Gamma) r t.
Proof. intros geometry gamma u0 b lambda0 Gamma r t H1 H2 H3 H4 H5 H6 H7 Hr. exact (cog16_pde_section geometry gamma u0 b lambda0 Gamma H1 H2 H3 H4 H5 H6 H7 r t Hr). Qed.
