(* C02 for Coggeshall 19: Rankine-Hugoniot relations at the coded shock location. *)
From Coq Require Import Reals Lra Psatz.
From Coquelicot Require Import Coquelicot.
From EP Require Import lib.Base lib.Tactics lib.RH gen.Cog19 proofs.C01_cog19.
Open Scope R_scope.

Lemma cog19_rh_proof :
  forall geometry gamma rho0 u0 Gamma t, u0 < 0 -> 1 < gamma -> 0 < t -> Gamma <> 0 -> rho0 <> 0 ->
  exists s J,
    is_derive (cog19_shock gamma u0) t s /\
    fields_jump (fun r => cog19_density geometry gamma rho0 u0 Gamma r t) (fun r => cog19_velocity geometry gamma rho0 u0 Gamma r t)
                (fun r => cog19_pressure geometry gamma rho0 u0 Gamma r t)
                (fun r => cog19_specific_internal_energy geometry gamma rho0 u0 Gamma r t) (cog19_shock gamma u0 t) J /\
    rh_holds s J.
Proof.
  intros geometry gamma rho0 u0 Gamma t Hu Hg Ht HG Hrho.
  assert (Hxs : 0 < cog19_shock gamma u0 t).
  { unfold cog19_shock. apply Rdiv_lt_0_compat; [ | lra ].
    replace (- (gamma - 1) * u0 * t) with ((gamma - 1) * (- u0) * t) by ring.
    apply Rmult_lt_0_compat; [ apply Rmult_lt_0_compat | ]; lra. }
  eexists. eexists (Build_jump_states _ _ _ _ _ _ _ _).
  split; [ unfold cog19_shock; auto_derive; [ exact I | reflexivity ] | ].
  assert (HX : (- (gamma - 1) * u0 * t / 2 - u0 * t) / (- (gamma - 1) * u0 * t / 2) = (gamma + 1) / (gamma - 1)) by (field; nra).
  assert (HXpos : 0 < (gamma + 1) / (gamma - 1)) by (apply Rdiv_lt_0_compat; lra).
  split.
  - unfold cog19_shock in *.
    assert (0 < (- (gamma - 1) * u0 * t / 2 - u0 * t) / (- (gamma - 1) * u0 * t / 2)) by (rewrite HX; exact HXpos).
    assert (0 < (- (gamma - 1) * u0 * t / 2 - u0 * t) * / (- (gamma - 1) * u0 * t / 2)) by assumption.
    assert (0 < (- (gamma - 1) * u0 * t / 2 + - (u0 * t)) * / (- (gamma - 1) * u0 * t / 2)).
    { replace (- (gamma - 1) * u0 * t / 2 + - (u0 * t)) with (- (gamma - 1) * u0 * t / 2 - u0 * t) by ring. assumption. }
    jump_solve.
  - unfold rh_holds, rh_jump; cbn [jl_rho jl_u jl_p jl_e jr_rho jr_u jr_p jr_e].
    unfold cog19_shock. rewrite HX.
    replace (Rpower ((gamma + 1) / (gamma - 1)) (geometry - 1 + 1))
      with (Rpower ((gamma + 1) / (gamma - 1)) (geometry - 1) * ((gamma + 1) / (gamma - 1))).
    2:{ rewrite <- (Rpower_1 ((gamma + 1) / (gamma - 1))) at 2; [ | exact HXpos ].
        rewrite <- Rpower_plus. reflexivity. }
    assert (Rpower ((gamma + 1) / (gamma - 1)) (geometry - 1) <> 0) by (unfold Rpower; apply Rgt_not_eq, exp_pos).
    repeat split; field; repeat split; try lra; try assumption.
Qed.
