(* C01 for Coggeshall 2.  *)
From Coq Require Import Reals Lra.
From Coquelicot Require Import Coquelicot.
From EP Require Import lib.Base lib.Euler lib.Tactics gen.Cog2.
Open Scope R_scope.

Lemma cog2_pde_proof :
  forall geometry gamma rho0 b Gamma r t,
  0 < r -> 0 < t -> rho0 <> 0 -> gamma <> 1 -> Gamma <> 0 -> b + 2 <> 0 -> 2 + (gamma - 1) * (geometry - 1 + 1) <> 0 -> geometry - 1 + 1 <> 0 ->
  euler_at (geometry - 1)
    (cog2_density geometry gamma rho0 b Gamma)
    (cog2_velocity geometry gamma rho0 b Gamma)
    (cog2_pressure geometry gamma rho0 b Gamma)
    (cog2_specific_internal_energy geometry gamma rho0 b Gamma) r t.
Proof. intros. euler_solve. Qed.
