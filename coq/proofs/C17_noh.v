(* C17 for Noh: positive density, non-negative pressure and energy everywhere; the shock is compressive
   (density and pressure rise from the pre-shock side to the post-shock side). *)
From Coq Require Import Reals Lra Psatz.
From EP Require Import lib.Base gen.Noh1.
Open Scope R_scope.

Lemma noh_admissible_proof : forall geometry gamma u0 rho0 r t,
  1 < gamma -> 0 < rho0 -> 0 < r -> 0 <= t ->
  0 < noh_density geometry gamma u0 rho0 r t /\ 0 <= noh_pressure geometry gamma u0 rho0 r t /\
  0 <= noh_specific_internal_energy geometry gamma u0 rho0 r t.
Proof.
  intros geometry gamma u0 rho0 r t Hg Hrho Hr Ht.
  unfold noh_density, noh_pressure, noh_specific_internal_energy.
  destruct (Rlt_dec r (Rabs u0 * t * (gamma - 1) / 2)) as [H | H].
  - repeat split.
    + apply Rmult_lt_0_compat; [ exact Hrho | unfold Rpower; apply exp_pos ].
    + assert (0 < Rpower ((gamma + 1) / (gamma - 1)) geometry) by (unfold Rpower; apply exp_pos).
      assert (0 <= u0 ^ 2) by (apply pow2_ge_0).
      set (q := u0 ^ 2) in *. set (P := Rpower ((gamma + 1) / (gamma - 1)) geometry) in *. clearbody q P.
      assert (0 <= (gamma - 1) * rho0 * P) by (apply Rlt_le; repeat apply Rmult_lt_0_compat; lra).
      apply Rmult_le_pos; [ apply Rmult_le_pos; assumption | lra ].
    + assert (0 <= u0 ^ 2) by (apply pow2_ge_0). nra.
  - repeat split; try lra.
    apply Rmult_lt_0_compat; [ exact Hrho | unfold Rpower; apply exp_pos ].
Qed.

(* compressive: for geometry k+1 with k >= 0 the post-shock density exceeds the pre-shock density at the shock,
   rho0 ((gamma+1)/(gamma-1))^(k+1) > rho0 (1 + 2/(gamma-1))^k, and the pressure rises from 0 *)
Lemma noh_shock_compressive_proof : forall geometry gamma u0 rho0 t,
  1 < gamma -> 0 < rho0 -> u0 < 0 -> 0 < t -> 1 <= geometry ->
  let rs := Rabs u0 * t * (gamma - 1) / 2 in
  rho0 * Rpower (1 + Rabs u0 * t / rs) (geometry - 1) < rho0 * Rpower ((gamma + 1) / (gamma - 1)) geometry /\
  0 < (gamma - 1) * rho0 * Rpower ((gamma + 1) / (gamma - 1)) geometry * u0 ^ 2 * (1 / 2).
Proof.
  intros geometry gamma u0 rho0 t Hg Hrho Hu Ht Hgeo rs.
  assert (Habs : 0 < Rabs u0) by (apply Rabs_pos_lt; lra).
  assert (Hrs : 0 < rs) by (unfold rs; repeat apply Rmult_lt_0_compat; lra).
  assert (Hbase : 1 + Rabs u0 * t / rs = (gamma + 1) / (gamma - 1)).
  { unfold rs. field. repeat split; try lra. }
  assert (Hq : 1 < (gamma + 1) / (gamma - 1)).
  { apply (Rmult_lt_reg_r (gamma - 1)); [ lra | ]. replace ((gamma + 1) / (gamma - 1) * (gamma - 1)) with (gamma + 1) by (field; lra). lra. }
  rewrite Hbase. split.
  - apply Rmult_lt_compat_l; [ exact Hrho | ].
    replace geometry with ((geometry - 1) + 1) at 2 by ring.
    rewrite Rpower_plus, Rpower_1 by lra.
    assert (0 < Rpower ((gamma + 1) / (gamma - 1)) (geometry - 1)) by (unfold Rpower; apply exp_pos). nra.
  - assert (0 < Rpower ((gamma + 1) / (gamma - 1)) geometry) by (unfold Rpower; apply exp_pos).
    assert (0 < u0 ^ 2) by nra.
    set (q := u0 ^ 2) in *. set (P := Rpower ((gamma + 1) / (gamma - 1)) geometry) in *. clearbody q P.
    apply Rmult_lt_0_compat; [ apply Rmult_lt_0_compat; [ repeat apply Rmult_lt_0_compat; lra | assumption ] | lra ].
Qed.

(* on the generated fields: everywhere behind the shock the density and pressure exceed those anywhere ahead of it *)
Lemma noh_compressive_fields_proof : forall geometry gamma u0 rho0 t r_in r_out,
  1 < gamma -> 0 < rho0 -> u0 < 0 -> 0 < t -> 1 <= geometry ->
  0 < r_in -> r_in < Rabs u0 * t * (gamma - 1) / 2 -> Rabs u0 * t * (gamma - 1) / 2 <= r_out ->
  noh_density geometry gamma u0 rho0 r_out t < noh_density geometry gamma u0 rho0 r_in t /\
  noh_pressure geometry gamma u0 rho0 r_out t < noh_pressure geometry gamma u0 rho0 r_in t.
Proof.
  intros geometry gamma u0 rho0 t r_in r_out Hg Hrho Hu Ht Hgeo Hin Hlt Hout.
  destruct (noh_shock_compressive_proof geometry gamma u0 rho0 t Hg Hrho Hu Ht Hgeo) as (A & B).
  cbv zeta in A.
  set (rs := Rabs u0 * t * (gamma - 1) / 2) in *.
  assert (Habs : 0 < Rabs u0) by (apply Rabs_pos_lt; lra).
  assert (Hrs : 0 < rs) by (unfold rs; repeat apply Rmult_lt_0_compat; lra).
  unfold noh_density, noh_pressure. fold rs.
  destruct (Rlt_dec r_in rs) as [_ | N]; [ | contradiction ].
  destruct (Rlt_dec r_out rs) as [N | _]; [ lra | ].
  split; [ | exact B ].
  apply (Rle_lt_trans _ (rho0 * Rpower (1 + Rabs u0 * t / rs) (geometry - 1))); [ | exact A ].
  apply Rmult_le_compat_l; [ lra | ].
  apply Rle_Rpower_l; [ lra | ].
  assert (0 < Rabs u0 * t) by (apply Rmult_lt_0_compat; lra).
  assert (Rabs u0 * t / r_out <= Rabs u0 * t / rs).
  { apply Rmult_le_compat_l; [ lra | ]. apply Rinv_le_contravar; lra. }
  assert (0 < Rabs u0 * t / r_out) by (apply Rdiv_lt_0_compat; lra).
  split; lra.
Qed.
