(* C17 for the elastic-plastic piston: on the constructor algebra regenerated from ep_piston.py, the plastic wave compresses the material
   (rho2 > rho_y) whenever the piston is faster than the particle velocity behind the elastic precursor and slower than the plastic wave, and the
   elastic precursor sets the material moving towards the plastic wave (vel_y >= 0) whenever it compresses it (rho_y >= rho0).  The density at yield
   rho_y (three elasticity models) and the plastic wave speed wv_pl (fsolve) are free variables. *)
From Coq Require Import Reals Lra Psatz.
From EP Require Import lib.Base gen.Piston.
Open Scope R_scope.

Lemma piston_rho2_form : forall gamma c0 s0 Y rho0 up rho_y wv_pl,
  epp_rho2 gamma c0 s0 Y rho0 up rho_y wv_pl = rho_y * ((wv_pl - epp_vel_y gamma c0 s0 Y rho0 rho_y) / (wv_pl - up)).
Proof. reflexivity. Qed.

Lemma piston_vel_y_form : forall gamma c0 s0 Y rho0 rho_y,
  epp_vel_y gamma c0 s0 Y rho0 rho_y = epp_wv_el gamma c0 s0 Y rho0 rho_y * (rho_y - rho0) / rho_y.
Proof. reflexivity. Qed.

Lemma piston_waves_compressive_proof : forall gamma c0 s0 Y rho0 up rho_y wv_pl,
  0 < rho_y ->
  (epp_vel_y gamma c0 s0 Y rho0 rho_y < up -> up < wv_pl -> rho_y < epp_rho2 gamma c0 s0 Y rho0 up rho_y wv_pl) /\
  (rho0 <= rho_y -> 0 <= epp_vel_y gamma c0 s0 Y rho0 rho_y).
Proof.
  intros gamma c0 s0 Y rho0 up rho_y wv_pl Hr. split.
  - intros Hv Hu. rewrite piston_rho2_form. set (vy := epp_vel_y gamma c0 s0 Y rho0 rho_y) in *.
    assert (H1 : 1 < (wv_pl - vy) / (wv_pl - up)).
    { apply Rmult_lt_reg_r with (wv_pl - up); [ lra | ]. unfold Rdiv. rewrite Rmult_assoc, Rinv_l by lra. lra. }
    nra.
  - intros Hc. rewrite piston_vel_y_form. unfold epp_wv_el.
    match goal with |- 0 <= sqrt ?a * _ / _ => assert (Hs : 0 <= sqrt a) by apply sqrt_pos; set (w := sqrt a) in * end.
    apply Rmult_le_pos; [ apply Rmult_le_pos; [ exact Hs | lra ] | apply Rlt_le, Rinv_0_lt_compat; exact Hr ].
Qed.
