(* C03 for cog8: returned thermodynamic fields satisfy the declared EOS. P = Gamma rho T, e = Gamma T/(gamma-1) *)
From Coq Require Import Reals Lra.
From EP Require Import lib.Base lib.Tactics gen.Cog8.
Open Scope R_scope.

Lemma cog8_eos_proof :
  forall geometry gamma alpha beta rho0 temp0 Gamma r t,
  cog8_defined geometry gamma alpha beta rho0 temp0 Gamma r t ->
  cog8_density geometry gamma alpha beta rho0 temp0 Gamma r t <> 0 ->
  gamma - 1 <> 0 ->
  cog8_pressure geometry gamma alpha beta rho0 temp0 Gamma r t = Gamma * (cog8_density geometry gamma alpha beta rho0 temp0 Gamma r t) * (cog8_temperature geometry gamma alpha beta rho0 temp0 Gamma r t) /\
  cog8_specific_internal_energy geometry gamma alpha beta rho0 temp0 Gamma r t = Gamma * (cog8_temperature geometry gamma alpha beta rho0 temp0 Gamma r t) / (gamma - 1) /\
  cog8_pressure geometry gamma alpha beta rho0 temp0 Gamma r t = (gamma - 1) * (cog8_density geometry gamma alpha beta rho0 temp0 Gamma r t) * (cog8_specific_internal_energy geometry gamma alpha beta rho0 temp0 Gamma r t).
Proof. unfold cog8_defined. eos_solve. Qed.
