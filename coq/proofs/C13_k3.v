(* Kenamond 3 (inert disc / sphere of radius R_ at the origin, one detonator): theorems on the per-point models k3_bt2 / k3_bt3 of model/Burn.v.
   - the model depends on the point and the detonator only through |p|, |x_d|, p.x_d and |p - x_d|  (k3_core);
   - invariance under every orthogonal map of the plane / of space (C09);
   - burn time at the detonator is t_d, nowhere earlier (C13);
   - at the shadow boundary (theta = 0) the line-of-sight time and the tangent-arc-tangent time agree (C13, continuity across the shadow boundary);
   - in the shadow zone the burn time, as a function of the polar coordinates (a, phi) of the point about the axis origin-detonator, has radial
     derivative sqrt(a^2 - R^2) / (a D) and angular derivative R / D, hence gradient of magnitude exactly 1 / D (C13, eikonal). *)
From Coq Require Import Reals Lra Psatz.
From Coquelicot Require Import Coquelicot.
From EP Require Import lib.Base lib.Tactics lib.Euclid model.Burn.
Open Scope R_scope.

Definition k3_theta_core (R_ a d c : R) : R := PI - acos (- c / (d * a)) - acos (R_ / a) - acos (R_ / d).
Definition k3_core (R_ D td a d c dist : R) : R :=
  if Rlt_dec 0 (k3_theta_core R_ a d c)
  then td + (sqrt (d ^ 2 - R_ ^ 2) + R_ * k3_theta_core R_ a d c + sqrt (a ^ 2 - R_ ^ 2)) / D
  else td + dist / D.

Lemma k3_bt2_core : forall R_ D xd yd td x y,
  k3_bt2 R_ D xd yd td x y = k3_core R_ D td (norm2 x y) (norm2 xd yd) (x * xd + y * yd) (norm2 (x - xd) (y - yd)).
Proof. intros. reflexivity. Qed.
Lemma k3_bt3_core : forall R_ D xd yd zd td x y z,
  k3_bt3 R_ D xd yd zd td x y z = k3_core R_ D td (norm3 x y z) (norm3 xd yd zd) (x * xd + y * yd + z * zd) (norm3 (x - xd) (y - yd) (z - zd)).
Proof. intros. reflexivity. Qed.

(* ---- orthogonal invariance ---- *)
Lemma k3_orthogonal2_proof : forall R_ D xd yd td x y a b c d,
  a * a + c * c = 1 -> b * b + d * d = 1 -> a * b + c * d = 0 ->
  k3_bt2 R_ D (a * xd + b * yd) (c * xd + d * yd) td (a * x + b * y) (c * x + d * y) = k3_bt2 R_ D xd yd td x y.
Proof.
  intros R_ D xd yd td x y a b c d H1 H2 H3. rewrite !k3_bt2_core.
  assert (N : forall u v, norm2 (a * u + b * v) (c * u + d * v) = norm2 u v).
  { intros u v. unfold norm2. f_equal.
    replace ((a * u + b * v) ^ 2 + (c * u + d * v) ^ 2) with ((a * a + c * c) * u ^ 2 + (b * b + d * d) * v ^ 2 + 2 * (a * b + c * d) * u * v) by ring.
    rewrite H1, H2, H3. ring. }
  rewrite !N.
  replace (a * x + b * y - (a * xd + b * yd)) with (a * (x - xd) + b * (y - yd)) by ring.
  replace (c * x + d * y - (c * xd + d * yd)) with (c * (x - xd) + d * (y - yd)) by ring. rewrite N.
  replace ((a * x + b * y) * (a * xd + b * yd) + (c * x + d * y) * (c * xd + d * yd))
    with ((a * a + c * c) * (x * xd) + (b * b + d * d) * (y * yd) + (a * b + c * d) * (x * yd + y * xd)) by ring.
  rewrite H1, H2, H3. replace (1 * (x * xd) + 1 * (y * yd) + 0 * (x * yd + y * xd)) with (x * xd + y * yd) by ring. reflexivity.
Qed.

(* 3-D: any matrix with orthonormal columns *)
Lemma k3_orthogonal3_proof : forall R_ D xd yd zd td x y z m11 m12 m13 m21 m22 m23 m31 m32 m33,
  m11 * m11 + m21 * m21 + m31 * m31 = 1 -> m12 * m12 + m22 * m22 + m32 * m32 = 1 -> m13 * m13 + m23 * m23 + m33 * m33 = 1 ->
  m11 * m12 + m21 * m22 + m31 * m32 = 0 -> m11 * m13 + m21 * m23 + m31 * m33 = 0 -> m12 * m13 + m22 * m23 + m32 * m33 = 0 ->
  k3_bt3 R_ D (m11 * xd + m12 * yd + m13 * zd) (m21 * xd + m22 * yd + m23 * zd) (m31 * xd + m32 * yd + m33 * zd) td
              (m11 * x + m12 * y + m13 * z) (m21 * x + m22 * y + m23 * z) (m31 * x + m32 * y + m33 * z)
  = k3_bt3 R_ D xd yd zd td x y z.
Proof.
  intros R_ D xd yd zd td x y z m11 m12 m13 m21 m22 m23 m31 m32 m33 H1 H2 H3 H4 H5 H6. rewrite !k3_bt3_core.
  assert (Dt : forall u v w u' v' w',
    (m11 * u + m12 * v + m13 * w) * (m11 * u' + m12 * v' + m13 * w') + (m21 * u + m22 * v + m23 * w) * (m21 * u' + m22 * v' + m23 * w')
    + (m31 * u + m32 * v + m33 * w) * (m31 * u' + m32 * v' + m33 * w') = u * u' + v * v' + w * w').
  { intros u v w u' v' w'.
    replace ((m11 * u + m12 * v + m13 * w) * (m11 * u' + m12 * v' + m13 * w') + (m21 * u + m22 * v + m23 * w) * (m21 * u' + m22 * v' + m23 * w')
             + (m31 * u + m32 * v + m33 * w) * (m31 * u' + m32 * v' + m33 * w'))
      with ((m11 * m11 + m21 * m21 + m31 * m31) * (u * u') + (m12 * m12 + m22 * m22 + m32 * m32) * (v * v') + (m13 * m13 + m23 * m23 + m33 * m33) * (w * w')
            + (m11 * m12 + m21 * m22 + m31 * m32) * (u * v' + v * u') + (m11 * m13 + m21 * m23 + m31 * m33) * (u * w' + w * u')
            + (m12 * m13 + m22 * m23 + m32 * m33) * (v * w' + w * v')) by ring.
    rewrite H1, H2, H3, H4, H5, H6. ring. }
  assert (N : forall u v w, norm3 (m11 * u + m12 * v + m13 * w) (m21 * u + m22 * v + m23 * w) (m31 * u + m32 * v + m33 * w) = norm3 u v w).
  { intros u v w. unfold norm3. f_equal. specialize (Dt u v w u v w). lra. }
  rewrite !N, Dt.
  replace (m11 * x + m12 * y + m13 * z - (m11 * xd + m12 * yd + m13 * zd)) with (m11 * (x - xd) + m12 * (y - yd) + m13 * (z - zd)) by ring.
  replace (m21 * x + m22 * y + m23 * z - (m21 * xd + m22 * yd + m23 * zd)) with (m21 * (x - xd) + m22 * (y - yd) + m23 * (z - zd)) by ring.
  replace (m31 * x + m32 * y + m33 * z - (m31 * xd + m32 * yd + m33 * zd)) with (m31 * (x - xd) + m32 * (y - yd) + m33 * (z - zd)) by ring.
  rewrite N. reflexivity.
Qed.

(* ---- causality ---- *)
Lemma acos_nonneg : forall z, 0 <= acos z.
Proof. intros z. destruct (acos_bound z) as [H _]. exact H. Qed.

Lemma k3_core_causal : forall R_ D td a d c dist, 0 < D -> 0 < R_ -> 0 <= dist -> td <= k3_core R_ D td a d c dist.
Proof.
  intros R_ D td a d c dist HD HR Hd. unfold k3_core. destruct (Rlt_dec 0 (k3_theta_core R_ a d c)) as [Ht | Ht].
  - assert (0 <= (sqrt (d ^ 2 - R_ ^ 2) + R_ * k3_theta_core R_ a d c + sqrt (a ^ 2 - R_ ^ 2)) / D).
    { apply Rmult_le_pos; [ | apply Rlt_le, Rinv_0_lt_compat; exact HD ].
      assert (0 <= sqrt (d ^ 2 - R_ ^ 2)) by apply sqrt_pos. assert (0 <= sqrt (a ^ 2 - R_ ^ 2)) by apply sqrt_pos.
      assert (0 < R_ * k3_theta_core R_ a d c) by (apply Rmult_lt_0_compat; assumption). lra. }
    lra.
  - assert (0 <= dist / D) by (apply Rmult_le_pos; [ exact Hd | apply Rlt_le, Rinv_0_lt_compat; exact HD ]). lra.
Qed.

(* at the detonator: the angle between p and x_d vanishes, theta = - 2 acos (R / |x_d|) <= 0, the line-of-sight branch gives t_d *)
Lemma k3_core_detonator : forall R_ D td d, 0 < D -> 0 < d -> k3_core R_ D td d d (d * d) 0 = td.
Proof.
  intros R_ D td d HD Hd. unfold k3_core.
  assert (Hth : k3_theta_core R_ d d (d * d) <= 0).
  { unfold k3_theta_core. replace (- (d * d) / (d * d)) with (-1) by (field; lra).
    change (acos (-1)) with (acos (- (1))). rewrite acos_opp, acos_1.
    assert (H := acos_nonneg (R_ / d)). lra. }
  destruct (Rlt_dec 0 (k3_theta_core R_ d d (d * d))) as [Ht | Ht]; [ lra | ]. unfold Rdiv. ring.
Qed.

Lemma k3_causal_proof : forall R_ D xd yd td, 0 < D -> 0 < R_ -> 0 < norm2 xd yd ->
  k3_bt2 R_ D xd yd td xd yd = td /\ (forall x y, td <= k3_bt2 R_ D xd yd td x y).
Proof.
  intros R_ D xd yd td HD HR Hd. split.
  - rewrite k3_bt2_core. replace (xd - xd) with 0 by ring. replace (yd - yd) with 0 by ring.
    replace (norm2 0 0) with 0 by (unfold norm2; replace (0 ^ 2 + 0 ^ 2) with 0 by ring; rewrite sqrt_0; reflexivity).
    replace (xd * xd + yd * yd) with (norm2 xd yd * norm2 xd yd) by (rewrite norm2_sqr; ring).
    apply k3_core_detonator; assumption.
  - intros x y. rewrite k3_bt2_core. apply k3_core_causal; try assumption. apply norm2_nonneg.
Qed.

Lemma norm3_nonneg : forall a b c, 0 <= norm3 a b c.
Proof. intros. unfold norm3. apply sqrt_pos. Qed.
Lemma norm3_sqr : forall a b c, norm3 a b c * norm3 a b c = a ^ 2 + b ^ 2 + c ^ 2.
Proof. intros. unfold norm3. apply sqrt_sqrt. nra. Qed.

Lemma k3_causal3_proof : forall R_ D xd yd zd td, 0 < D -> 0 < R_ -> 0 < norm3 xd yd zd ->
  k3_bt3 R_ D xd yd zd td xd yd zd = td /\ (forall x y z, td <= k3_bt3 R_ D xd yd zd td x y z).
Proof.
  intros R_ D xd yd zd td HD HR Hd. split.
  - rewrite k3_bt3_core. replace (xd - xd) with 0 by ring. replace (yd - yd) with 0 by ring. replace (zd - zd) with 0 by ring.
    replace (norm3 0 0 0) with 0 by (unfold norm3; replace (0 ^ 2 + 0 ^ 2 + 0 ^ 2) with 0 by ring; rewrite sqrt_0; reflexivity).
    replace (xd * xd + yd * yd + zd * zd) with (norm3 xd yd zd * norm3 xd yd zd) by (rewrite norm3_sqr; ring).
    apply k3_core_detonator; assumption.
  - intros x y z. rewrite k3_bt3_core. apply k3_core_causal; try assumption. apply norm3_nonneg.
Qed.

(* ---- continuity across the shadow boundary ---- *)
Lemma sin_acos_ratio : forall R_ a, 0 < R_ -> R_ <= a -> sin (acos (R_ / a)) = sqrt (a ^ 2 - R_ ^ 2) / a.
Proof.
  intros R_ a HR Ha. assert (Hap : 0 < a) by lra.
  assert (Hq : 0 < R_ / a <= 1).
  { split; [ apply Rdiv_lt_0_compat; lra | ]. apply (Rmult_le_reg_r a); [ exact Hap | ]. replace (R_ / a * a) with R_ by (field; lra). lra. }
  rewrite sin_acos by lra.
  replace (1 - (R_ / a)²) with ((a ^ 2 - R_ ^ 2) / (a ^ 2)) by (unfold Rsqr; field; lra).
  rewrite sqrt_div_alt by (apply pow_lt; exact Hap).
  replace (sqrt (a ^ 2)) with a; [ reflexivity | ]. symmetry. replace (a ^ 2) with (a * a) by ring. apply sqrt_square. lra.
Qed.

Lemma k3_shadow_boundary_core : forall R_ a d c dist,
  0 < R_ -> R_ <= a -> R_ <= d -> - (d * a) <= c <= d * a -> 0 <= dist -> dist ^ 2 = a ^ 2 + d ^ 2 - 2 * c ->
  k3_theta_core R_ a d c = 0 ->
  sqrt (d ^ 2 - R_ ^ 2) + R_ * k3_theta_core R_ a d c + sqrt (a ^ 2 - R_ ^ 2) = dist.
Proof.
  intros R_ a d c dist HR Ha Hd Hc Hdist Hd2 Hth. rewrite Hth, Rmult_0_r, Rplus_0_r.
  assert (Hap : 0 < a) by lra. assert (Hdp : 0 < d) by lra. assert (Hda : 0 < d * a) by (apply Rmult_lt_0_compat; assumption).
  assert (Hz : -1 <= - c / (d * a) <= 1).
  { split; apply (Rmult_le_reg_r (d * a)); try exact Hda; replace (- c / (d * a) * (d * a)) with (- c) by (field; lra); lra. }
  assert (Hra : -1 <= R_ / a <= 1).
  { split; [ assert (0 < R_ / a) by (apply Rdiv_lt_0_compat; lra); lra | ].
    apply (Rmult_le_reg_r a); [ exact Hap | ]. replace (R_ / a * a) with R_ by (field; lra). lra. }
  assert (Hrd : -1 <= R_ / d <= 1).
  { split; [ assert (0 < R_ / d) by (apply Rdiv_lt_0_compat; lra); lra | ].
    apply (Rmult_le_reg_r d); [ exact Hdp | ]. replace (R_ / d * d) with R_ by (field; lra). lra. }
  unfold k3_theta_core in Hth.
  assert (E : acos (- c / (d * a)) = PI - (acos (R_ / a) + acos (R_ / d))) by lra.
  apply (f_equal cos) in E. rewrite cos_acos in E by exact Hz.
  rewrite Rtrigo_facts.cos_pi_minus, cos_plus in E.
  rewrite !cos_acos in E by assumption. rewrite (sin_acos_ratio R_ a), (sin_acos_ratio R_ d) in E by assumption.
  set (la := sqrt (a ^ 2 - R_ ^ 2)) in *. set (ld := sqrt (d ^ 2 - R_ ^ 2)) in *.
  assert (Hla : la * la = a ^ 2 - R_ ^ 2) by (unfold la; apply sqrt_sqrt; nra).
  assert (Hld : ld * ld = d ^ 2 - R_ ^ 2) by (unfold ld; apply sqrt_sqrt; nra).
  assert (Hc' : c = R_ * R_ - la * ld).
  { assert (E2 : - c = - (R_ / a * (R_ / d) - la / a * (ld / d)) * (d * a)).
    { rewrite <- E. field. split; lra. }
    replace c with (- - c) by ring. rewrite E2. field. split; lra. }
  assert (H0la : 0 <= la) by (unfold la; apply sqrt_pos). assert (H0ld : 0 <= ld) by (unfold ld; apply sqrt_pos).
  apply Rsqr_inj; [ lra | exact Hdist | ]. unfold Rsqr.
  replace (dist * dist) with (dist ^ 2) by ring. rewrite Hd2, Hc'. nra.
Qed.

Lemma k3_shadow_boundary_proof : forall R_ D xd yd td x y,
  0 < R_ -> R_ <= norm2 x y -> R_ <= norm2 xd yd -> k3_theta R_ xd yd x y = 0 ->
  td + (sqrt (norm2 xd yd ^ 2 - R_ ^ 2) + R_ * k3_theta R_ xd yd x y + sqrt (norm2 x y ^ 2 - R_ ^ 2)) / D = td + norm2 (x - xd) (y - yd) / D.
Proof.
  intros R_ D xd yd td x y HR Ha Hd Hth. f_equal. f_equal.
  change (k3_theta R_ xd yd x y) with (k3_theta_core R_ (norm2 x y) (norm2 xd yd) (x * xd + y * yd)) in *.
  apply k3_shadow_boundary_core; try assumption.
  - split.
    + assert (H := cauchy_schwarz2 (- x) (- y) xd yd). replace (norm2 (- x) (- y)) with (norm2 x y) in H by (unfold norm2; f_equal; ring). lra.
    + assert (H := cauchy_schwarz2 x y xd yd). lra.
  - apply norm2_nonneg.
  - replace (norm2 (x - xd) (y - yd) ^ 2) with (norm2 (x - xd) (y - yd) * norm2 (x - xd) (y - yd)) by ring.
    replace (norm2 x y ^ 2) with (norm2 x y * norm2 x y) by ring. replace (norm2 xd yd ^ 2) with (norm2 xd yd * norm2 xd yd) by ring.
    rewrite !norm2_sqr. ring.
Qed.

(* ---- eikonal equation in the shadow zone, in polar coordinates (a = |p|, phi = angle between p and x_d) ---- *)
Definition k3_shadow_time (R_ D td d a phi : R) : R := td + (sqrt (d ^ 2 - R_ ^ 2) + R_ * (phi - acos (R_ / a) - acos (R_ / d)) + sqrt (a ^ 2 - R_ ^ 2)) / D.

Lemma k3_theta_as_angle : forall R_ a d c, -1 <= c / (d * a) <= 1 ->
  k3_theta_core R_ a d c = acos (c / (d * a)) - acos (R_ / a) - acos (R_ / d).
Proof.
  intros R_ a d c Hc. unfold k3_theta_core. replace (- c / (d * a)) with (- (c / (d * a))) by (unfold Rdiv; ring).
  rewrite acos_opp. ring.
Qed.

Lemma is_derive_acos : forall z, -1 < z < 1 -> is_derive acos z (- / sqrt (1 - z ^ 2)).
Proof.
  intros z Hz. apply is_derive_Reals.
  replace (- / sqrt (1 - z ^ 2)) with (derive_pt acos z (derivable_pt_acos z Hz)).
  - apply derive_pt_eq_1 with (pr := derivable_pt_acos z Hz). reflexivity.
  - rewrite derive_pt_acos. unfold Rsqr. replace (z * z) with (z ^ 2) by ring. unfold Rdiv. ring.
Qed.

Lemma is_derive_acos_ratio : forall R_ a, 0 < R_ -> R_ < a ->
  is_derive (fun a' => acos (R_ / a')) a (R_ / (a * sqrt (a ^ 2 - R_ ^ 2))).
Proof.
  intros R_ a HR Ha. assert (Hap : 0 < a) by lra. assert (Hpos : 0 < a ^ 2 - R_ ^ 2) by nra.
  assert (Hq : -1 < R_ / a < 1).
  { split; [ assert (0 < R_ / a) by (apply Rdiv_lt_0_compat; lra); lra | ].
    apply (Rmult_lt_reg_r a); [ exact Hap | ]. replace (R_ / a * a) with R_ by (field; lra). lra. }
  assert (Hs : sqrt (1 - (R_ / a) ^ 2) = sqrt (a ^ 2 - R_ ^ 2) / a).
  { replace (1 - (R_ / a) ^ 2) with ((a ^ 2 - R_ ^ 2) / (a ^ 2)) by (field; lra).
    rewrite sqrt_div_alt by (apply pow_lt; exact Hap). replace (sqrt (a ^ 2)) with a; [ reflexivity | ].
    symmetry. replace (a ^ 2) with (a * a) by ring. apply sqrt_square. lra. }
  assert (Hl : 0 < sqrt (a ^ 2 - R_ ^ 2)) by (apply sqrt_lt_R0; exact Hpos).
  assert (Hin : is_derive (fun a' : R => R_ / a') a (- R_ / a ^ 2)) by (auto_derive; [ lra | field; lra ]).
  assert (Hout := is_derive_acos (R_ / a) Hq).
  assert (Hc := is_derive_comp acos (fun a' : R => R_ / a') a _ _ Hout Hin).
  replace (R_ / (a * sqrt (a ^ 2 - R_ ^ 2))) with (scal (- R_ / a ^ 2) (- / sqrt (1 - (R_ / a) ^ 2))); [ exact Hc | ].
  change (scal (- R_ / a ^ 2) (- / sqrt (1 - (R_ / a) ^ 2))) with ((- R_ / a ^ 2) * (- / sqrt (1 - (R_ / a) ^ 2))).
  rewrite Hs. match goal with |- @eq _ ?x ?y => change (@eq R x y) end. field. split; lra.
Qed.

Lemma shadow_time_derive_abstract : forall (B : R -> R) R_ D td K P phi a l, 0 < a ^ 2 - R_ ^ 2 -> 0 < D -> is_derive B a l ->
  is_derive (fun a' => td + (K + R_ * (phi - B a' - P) + sqrt (a' ^ 2 - R_ ^ 2)) / D) a ((R_ * (- l) + a / sqrt (a ^ 2 - R_ ^ 2)) / D).
Proof.
  intros B R_ D td K P phi a l Hpos HD HB. auto_derive.
  - split; [ eexists; exact HB | ]. split; [ | exact I ]. replace (a * (a * 1) + - (R_ * (R_ * 1))) with (a ^ 2 - R_ ^ 2) by ring. exact Hpos.
  - change (fun x : R => B x) with B. rewrite (is_derive_unique _ _ _ HB).
    replace (a * (a * 1) + - (R_ * (R_ * 1))) with (a ^ 2 - R_ ^ 2) by ring.
    assert (0 < sqrt (a ^ 2 - R_ ^ 2)) by (apply sqrt_lt_R0; exact Hpos).
    match goal with |- @eq _ ?x ?y => change (@eq R x y) end. field. split; lra.
Qed.

Lemma k3_shadow_eikonal_proof : forall R_ D td d a phi, 0 < D -> 0 < R_ -> R_ < a ->
  is_derive (fun a' => k3_shadow_time R_ D td d a' phi) a (sqrt (a ^ 2 - R_ ^ 2) / (a * D)) /\
  is_derive (fun phi' => k3_shadow_time R_ D td d a phi') phi (R_ / D) /\
  (sqrt (a ^ 2 - R_ ^ 2) / (a * D)) ^ 2 + (/ a * (R_ / D)) ^ 2 = (/ D) ^ 2.
Proof.
  intros R_ D td d a phi HD HR Ha. assert (Hap : 0 < a) by lra.
  assert (Hpos : 0 < a ^ 2 - R_ ^ 2) by nra.
  assert (Hl : 0 < sqrt (a ^ 2 - R_ ^ 2)) by (apply sqrt_lt_R0; exact Hpos).
  assert (Hll : sqrt (a ^ 2 - R_ ^ 2) * sqrt (a ^ 2 - R_ ^ 2) = a ^ 2 - R_ ^ 2) by (apply sqrt_sqrt; lra).
  split; [ | split ].
  - assert (Hb := is_derive_acos_ratio R_ a HR Ha).
    unfold k3_shadow_time.
    replace (sqrt (a ^ 2 - R_ ^ 2) / (a * D)) with ((R_ * (- (R_ / (a * sqrt (a ^ 2 - R_ ^ 2)))) + a / sqrt (a ^ 2 - R_ ^ 2)) / D).
    + apply (shadow_time_derive_abstract (fun a' : R => acos (R_ / a')) R_ D td (sqrt (d ^ 2 - R_ ^ 2)) (acos (R_ / d)) phi a); assumption.
    + set (l := sqrt (a ^ 2 - R_ ^ 2)) in *.
      apply (Rmult_eq_reg_r (a * D * l)); [ | repeat apply Rmult_integral_contrapositive_currified; lra ].
      field_simplify; [ | repeat split; lra | repeat split; lra ].
      replace (l ^ 2) with (l * l) by ring. rewrite Hll. ring.
  - unfold k3_shadow_time. auto_derive; [ exact I | field; lra ].
  - replace ((sqrt (a ^ 2 - R_ ^ 2) / (a * D)) ^ 2) with (sqrt (a ^ 2 - R_ ^ 2) * sqrt (a ^ 2 - R_ ^ 2) / (a * D) ^ 2) by (field; lra).
    rewrite Hll. field. lra.
Qed.
