(* C11 - Sedov (standard, non-special case): away from the two clamps of sedov_funcs_standard,
   (i) the coded dlamdv is the derivative of the coded lambda;
   (ii) g lambda^j x4 / (b_val (j - omega)) is an antiderivative of g lambda^(j-1) dlambda/dv, i.e. the mass behind
        radius r2*lambda(v) has the closed form  S_j rho2 r2^j g lambda^j x4 / (b_val (j-omega)), and at the shock it
        equals the mass the initial profile rho0 r^-omega held inside r2;
   (iii) at v = v2 all similarity functions equal 1 (the solution joins the post-shock state). *)
From Coq Require Import Reals Lra Psatz.
From Coquelicot Require Import Coquelicot.
From EP Require Import lib.Base lib.Tactics lib.Piecewise lib.SimpleWaveInt gen.Sedov proofs.C11_sedov.
Open Scope R_scope.

Definition tiny30 : R := 1 / 1000000000000000000000000000000.
Definition tiny12 : R := 1 / 1000000000000.

Section Std.
Variables a0 a1 a2 a_val b_val c_val d_val e_val : R.

(* clamp-free lambda *)
Definition lam0 (v : R) : R :=
  Rpower (a_val * v) (- a0) * Rpower (b_val * (c_val * v - 1)) (- a2) * Rpower (d_val * (1 - e_val * v)) (- a1).

Definition no_clamp2 (v : R) : Prop := tiny30 < c_val * v - 1.

Lemma lam_is_lam0 : forall v, no_clamp2 v -> sed_std_lam v a0 a1 a2 a_val b_val c_val d_val e_val = lam0 v.
Proof.
  intros v H. unfold sed_std_lam, lam0, no_clamp2, tiny30 in *. rewrite Rmax_right by lra. reflexivity.
Qed.

Lemma locally_no_clamp2 : forall v, no_clamp2 v -> locally v no_clamp2.
Proof.
  intros v H. unfold no_clamp2 in *.
  apply (locally_lt_cont (fun _ => tiny30) (fun y => c_val * y - 1) v); [ apply continuous_const | | exact H ].
  apply (ex_derive_continuous (fun y => c_val * y - 1) v). auto_derive. exact I.
Qed.

Theorem dlamdv_is_derivative : forall v,
  no_clamp2 v -> 0 < a_val * v -> 0 < b_val * (c_val * v - 1) -> 0 < d_val * (1 - e_val * v) ->
  is_derive (fun y => sed_std_lam y a0 a1 a2 a_val b_val c_val d_val e_val) v (sed_std_dlamdv v a0 a1 a2 a_val b_val c_val d_val e_val).
Proof.
  intros v Hc H1 H2 H3.
  apply (is_derive_ext_loc lam0).
  { generalize (locally_no_clamp2 v Hc). apply filter_imp. intros y Hy. symmetry. apply lam_is_lam0. exact Hy. }
  unfold sed_std_dlamdv. unfold no_clamp2, tiny30 in Hc. rewrite Rmax_right by (unfold tiny30 in *; lra).
  unfold lam0, Rpower.
  auto_derive.
  - repeat split; assumption.
  - change (c_val * v + - (1)) with (c_val * v - 1). change (1 + - (e_val * v)) with (1 - e_val * v).
    set (E1 := exp (- a0 * ln (a_val * v))). set (E2 := exp (- a2 * ln (b_val * (c_val * v - 1)))). set (E3 := exp (- a1 * ln (d_val * (1 - e_val * v)))).
    assert (a_val * v <> 0) by lra. assert (b_val * (c_val * v - 1) <> 0) by lra. assert (d_val * (1 - e_val * v) <> 0) by lra.
    assert (a_val <> 0) by (intro E; rewrite E in *; lra).
    assert (v <> 0) by (intro E; rewrite E in *; lra).
    assert (b_val <> 0) by (intro E; rewrite E in *; lra).
    assert (d_val <> 0) by (intro E; rewrite E in *; lra).
    assert (c_val * v - 1 <> 0) by (intro E; rewrite E in *; lra).
    assert (1 - e_val * v <> 0) by (intro E; rewrite E in *; lra).
    field. repeat split; assumption.
Qed.
End Std.

Section Mass.
Variables j gamma omega : R.
Hypothesis Hg : 1 < gamma.

Let gamm1 := sed_gamm1 gamma.
Let gamp1 := sed_gamp1 gamma.
Let gpogm := sed_gpogm gamma.
Let xg2 := sed_xg2 j omega.
Let a0 := sed_a0 j omega.
Let a1 := sed_a1 j gamma omega.
Let a2 := sed_a2 j gamma omega.
Let a3 := sed_a3 j gamma omega.
Let a4 := sed_a4 j gamma omega.
Let a5 := sed_a5 j gamma omega.
Let a_val := sed_a_val j gamma omega.
Let b_val := sed_b_val gamma.
Let c_val := sed_c_val j gamma omega.
Let d_val := sed_d_val j gamma omega.
Let e_val := sed_e_val j gamma.

Let lam := fun v => sed_std_lam v a0 a1 a2 a_val b_val c_val d_val e_val.
Let dlam := fun v => sed_std_dlamdv v a0 a1 a2 a_val b_val c_val d_val e_val.
Let gf := fun v => sed_std_g v omega xg2 a0 a1 a2 a3 a4 a5 a_val b_val c_val d_val e_val.

Definition x4_of (v : R) : R := b_val * (1 - 1 / 2 * xg2 * v).
Definition g0 (v : R) : R :=
  Rpower (a_val * v) (a0 * omega) * Rpower (b_val * (c_val * v - 1)) (a3 + a2 * omega) *
  Rpower (d_val * (1 - e_val * v)) (a4 + a1 * omega) * Rpower (x4_of v) a5.
Definition no_clamp4 (v : R) : Prop := tiny12 < x4_of v.

(* mass inside radius r2*lambda(v), in units of S_j rho2 r2^j *)
Definition mass_fn (v : R) : R := gf v * (Rpower (lam v) (j - 1) * lam v) * x4_of v / (b_val * (j - omega)).

Lemma g_is_g0 : forall v, no_clamp2 c_val v -> no_clamp4 v -> gf v = g0 v.
Proof.
  intros v H2 H4. unfold gf, sed_std_g, g0, no_clamp2, no_clamp4, x4_of, tiny30, tiny12 in *.
  rewrite Rmax_right by lra. rewrite Rmax_left by lra. reflexivity.
Qed.

Lemma locally_no_clamp4 : forall v, no_clamp4 v -> locally v no_clamp4.
Proof.
  intros v H. unfold no_clamp4 in *.
  apply (locally_lt_cont (fun _ => tiny12) x4_of v); [ apply continuous_const | | exact H ].
  apply (ex_derive_continuous x4_of v). unfold x4_of. auto_derive. exact I.
Qed.

Theorem mass_antiderivative : forall v,
  j <> omega -> j + 2 - omega <> 0 -> 2 + j * (gamma - 1) <> 0 ->
  2 * (gamma - 1) + j - gamma * omega <> 0 -> j * (2 - gamma) - omega <> 0 ->
  (j + 2 - omega) * (gamma + 1) - 2 * (2 + j * (gamma - 1)) <> 0 ->
  no_clamp2 c_val v -> no_clamp4 v ->
  0 < a_val * v -> 0 < b_val * (c_val * v - 1) -> 0 < d_val * (1 - e_val * v) ->
  is_derive mass_fn v (gf v * Rpower (lam v) (j - 1) * dlam v).
Proof.
  intros v Hjw Hx He Hd2 Hd3 Hdd Hc2 Hc4 H1 H2 H3.
  assert (H4 : 0 < x4_of v) by (unfold no_clamp4, tiny12 in Hc4; lra).
  apply (is_derive_ext_loc (fun y => g0 y * (Rpower (lam0 a0 a1 a2 a_val b_val c_val d_val e_val y) (j - 1) * lam0 a0 a1 a2 a_val b_val c_val d_val e_val y) * x4_of y / (b_val * (j - omega)))).
  { generalize (filter_and _ _ (locally_no_clamp2 c_val v Hc2) (locally_no_clamp4 v Hc4)). apply filter_imp.
    intros y (Hy2 & Hy4). unfold mass_fn, lam. rewrite (g_is_g0 y Hy2 Hy4), (lam_is_lam0 a0 a1 a2 a_val b_val c_val d_val e_val y Hy2). reflexivity. }
  rewrite (g_is_g0 v Hc2 Hc4). unfold lam, dlam. rewrite (lam_is_lam0 a0 a1 a2 a_val b_val c_val d_val e_val v Hc2).
  unfold sed_std_dlamdv. rewrite Rmax_right by (unfold no_clamp2, tiny30 in Hc2; unfold tiny30; lra).
  fold (lam0 a0 a1 a2 a_val b_val c_val d_val e_val v).
  unfold g0, lam0, x4_of, Rpower.
  auto_derive.
  - repeat split; try assumption; try (repeat apply Rmult_lt_0_compat; apply exp_pos).
  - change (c_val * v + - (1)) with (c_val * v - 1). change (1 + - (e_val * v)) with (1 - e_val * v).
    change (1 + - (1 / 2 * xg2 * v)) with (1 - 1 / 2 * xg2 * v).
    set (E1 := exp (- a0 * ln (a_val * v))). set (E2 := exp (- a2 * ln (b_val * (c_val * v - 1)))). set (E3 := exp (- a1 * ln (d_val * (1 - e_val * v)))).
    set (G1 := exp (a0 * omega * ln (a_val * v))). set (G2 := exp ((a3 + a2 * omega) * ln (b_val * (c_val * v - 1)))).
    set (G3 := exp ((a4 + a1 * omega) * ln (d_val * (1 - e_val * v)))). set (G4 := exp (a5 * ln (b_val * (1 - 1 / 2 * xg2 * v)))).
    set (PW := exp ((j - 1) * ln (E1 * E2 * E3))).
    assert (0 < E1) by apply exp_pos. assert (0 < E2) by apply exp_pos. assert (0 < E3) by apply exp_pos.
    assert (N1 : a_val * v <> 0) by lra. assert (N2 : b_val * (c_val * v - 1) <> 0) by lra. assert (N3 : d_val * (1 - e_val * v) <> 0) by lra.
    assert (N4 : b_val * (1 - 1 / 2 * xg2 * v) <> 0) by (unfold x4_of in H4; lra).
    assert (Na : a_val <> 0) by (intro E; rewrite E in *; lra).
    assert (Nv : v <> 0) by (intro E; rewrite E in *; lra).
    assert (Nb : b_val <> 0) by (intro E; rewrite E in *; lra).
    assert (Nd : d_val <> 0) by (intro E; rewrite E in *; lra).
    assert (Nc : c_val * v - 1 <> 0) by (intro E; rewrite E in *; lra).
    assert (Ne : 1 - e_val * v <> 0) by (intro E; rewrite E in *; lra).
    assert (Nx : 1 - 1 / 2 * xg2 * v <> 0) by (intro E; rewrite E in *; lra).
    clearbody E1 E2 E3 G1 G2 G3 G4 PW.
    unfold a_val, b_val, c_val, d_val, e_val, a0, a1, a2, a3, a4, a5, xg2, sed_a_val, sed_b_val, sed_c_val, sed_d_val, sed_e_val,
      sed_a0, sed_a1, sed_a2, sed_a3, sed_a4, sed_a5, sed_xg2 in *.
    field.
    repeat split; try assumption; try lra; try (apply Rgt_not_eq; assumption);
      first [ intro E; apply Ne; nra | intro E; apply Nc; nra | intro E; apply Nx; nra ].
Qed.

(* ---- at v = v2 every similarity function equals 1 ---- *)
Theorem shock_values : 
  0 < j + 2 - omega -> (j + 2 - omega) * (gamma + 1) - 2 * (2 + j * (gamma - 1)) <> 0 ->
  tiny30 < (gamma - 1) / (gamma + 1) ->
  let v2 := sed_v2 j gamma omega in
  lam v2 = 1 /\ sed_std_f v2 a0 a1 a2 a_val b_val c_val d_val e_val = 1 /\ gf v2 = 1 /\
  sed_std_h v2 j omega xg2 a0 a1 a4 a5 a_val b_val d_val e_val = 1 /\ x4_of v2 = 1.
Proof.
  intros Hx Hdd Htiny v2.
  assert (B1 : a_val * v2 = 1).
  { unfold a_val, v2, sed_a_val, sed_v2. field. split; lra. }
  assert (B2' : c_val * v2 - 1 = (gamma - 1) / (gamma + 1)).
  { unfold c_val, v2, sed_c_val, sed_v2. field. split; lra. }
  assert (B2 : b_val * Rmax tiny30 (c_val * v2 - 1) = 1).
  { rewrite B2', Rmax_right by lra. unfold b_val, sed_b_val. field. split; lra. }
  assert (B3 : d_val * (1 - e_val * v2) = 1).
  { unfold d_val, e_val, v2, sed_d_val, sed_e_val, sed_v2. field. repeat split; lra. }
  assert (B4' : b_val * (1 - 1 / 2 * xg2 * v2) = 1).
  { unfold b_val, xg2, v2, sed_b_val, sed_xg2, sed_v2. field. repeat split; lra. }
  assert (B4 : Rmax (b_val * (1 - 1 / 2 * xg2 * v2)) tiny12 = 1).
  { rewrite B4', Rmax_left by (unfold tiny12; lra). reflexivity. }
  unfold lam, gf, sed_std_f, sed_std_lam, sed_std_g, sed_std_h, x4_of.
  fold tiny30 tiny12. rewrite B1, B2, B3, B4, B4', !Rpower_one_l. repeat split; ring.
Qed.

(* mass behind the shock in units of S_j rho2 r2^j, and the mass the initial profile held inside r2 *)
Theorem mass_at_shock : forall t rho0 eblast alpha,
  0 < j + 2 - omega -> (j + 2 - omega) * (gamma + 1) - 2 * (2 + j * (gamma - 1)) <> 0 -> tiny30 < (gamma - 1) / (gamma + 1) ->
  j <> omega ->
  let r2 := sed_r2 t rho0 eblast alpha xg2 in
  let rho2 := sed_rho2 t rho0 eblast alpha omega xg2 gpogm in
  rho2 * Rpower r2 j * mass_fn (sed_v2 j gamma omega) = rho0 * Rpower r2 (j - omega) / (j - omega).
Proof.
  intros t rho0 eblast alpha Hx Hdd Htiny Hjw r2 rho2.
  destruct (shock_values Hx Hdd Htiny) as (L1 & _ & G1 & _ & X1).
  unfold mass_fn. cbv zeta in L1, G1, X1. rewrite L1, G1, X1, Rpower_one_l.
  pose proof (r2_pos t rho0 eblast alpha xg2) as Hr2. fold r2 in Hr2.
  unfold rho2, sed_rho2. fold r2.
  assert (HP : Rpower r2 (j - omega) = Rpower r2 (- omega) * Rpower r2 j).
  { replace (j - omega) with (- omega + j) by ring. apply Rpower_plus. }
  rewrite HP.
  unfold r2, sed_r2 in *. set (R := Rpower (eblast / (alpha * rho0)) (1 / xg2) * Rpower t (2 / xg2)) in *.
  set (P1 := Rpower R (- omega)). set (P2 := Rpower R j). clearbody P1 P2.
  unfold b_val, gpogm, sed_b_val, sed_gpogm, sed_gamp1, sed_gamm1. field. repeat split; lra.
Qed.
End Mass.
