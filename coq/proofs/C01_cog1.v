(* C01 for Coggeshall 1: the generated fields satisfy the Euler equations (no heat flux). *)
From Coq Require Import Reals Lra.
From Coquelicot Require Import Coquelicot.
From EP Require Import lib.Base lib.Euler lib.Tactics gen.Cog1.
Open Scope R_scope.

Lemma cog1_euler_proof :
  forall geometry gamma rho0 temp0 b Gamma r t,
  0 < r -> 0 < t -> rho0 <> 0 -> gamma <> 1 ->
  euler_at (geometry - 1)
    (cog1_density geometry gamma rho0 temp0 b Gamma)
    (cog1_velocity geometry gamma rho0 temp0 b Gamma)
    (cog1_pressure geometry gamma rho0 temp0 b Gamma)
    (cog1_specific_internal_energy geometry gamma rho0 temp0 b Gamma) r t.
Proof. intros. euler_solve. Qed.
