(* C10 (self-similarity) for Coggeshall 19 (every geometry) and for the Mader cell function rare().
   Cog19: generated fields at (lam r, lam t) equal the fields at (r, t).
   Mader: the returned values are cell averages, so the image scales the cell size with t as well:
   rare(lam t, lam xlab, lam dx) = rare(t, xlab, dx), proved on the mirror of proofs/C17_mader.v
   (which is convertible to the generated code). *)
From Coq Require Import Reals Lra Psatz.
From Coquelicot Require Import Coquelicot.
From EP Require Import lib.Base lib.Tactics gen.Cog19 gen.Mader proofs.C17_mader.
Open Scope R_scope.

Lemma cog19_selfsimilar_proof : forall lam geometry gamma rho0 u0 Gamma r t,
  0 < lam -> 0 < r ->
  cog19_density geometry gamma rho0 u0 Gamma (lam * r) (lam * t) = cog19_density geometry gamma rho0 u0 Gamma r t /\
  cog19_velocity geometry gamma rho0 u0 Gamma (lam * r) (lam * t) = cog19_velocity geometry gamma rho0 u0 Gamma r t /\
  cog19_temperature geometry gamma rho0 u0 Gamma (lam * r) (lam * t) = cog19_temperature geometry gamma rho0 u0 Gamma r t /\
  cog19_pressure geometry gamma rho0 u0 Gamma (lam * r) (lam * t) = cog19_pressure geometry gamma rho0 u0 Gamma r t /\
  cog19_specific_internal_energy geometry gamma rho0 u0 Gamma (lam * r) (lam * t) = cog19_specific_internal_energy geometry gamma rho0 u0 Gamma r t.
Proof.
  intros lam geometry gamma rho0 u0 Gamma r t Hl Hr.
  autounfold with epgen.
  replace ((- (gamma - 1)) * u0 * (lam * t) / 2) with (lam * ((- (gamma - 1)) * u0 * t / 2)) by field.
  replace ((lam * r - u0 * (lam * t)) / (lam * r)) with ((r - u0 * t) / r) by (field; lra).
  set (S := (- (gamma - 1)) * u0 * t / 2).
  destruct (Rlt_dec (lam * r) (lam * S)) as [H1 | H1]; destruct (Rlt_dec r S) as [H2 | H2]; try (repeat split; reflexivity).
  - exfalso. apply H2. apply (Rmult_lt_reg_l lam); assumption.
  - exfalso. apply H1. apply Rmult_lt_compat_l; assumption.
Qed.

Section MaderScale.
Variables lam t xlab dx p_cj d_cj gam u_piston : R.
Hypothesis Hl : 0 < lam.
Hypothesis Ht : t <> 0.
Hypothesis Hdx : dx <> 0.
Hypothesis Hg0 : gam <> 0.
Hypothesis Hg1 : gam - 1 <> 0.
Hypothesis Hgp : gam + 1 <> 0.
Hypothesis Hd : d_cj <> 0.

Lemma s_xp : xp (lam * t) d_cj gam u_piston = lam * xp t d_cj gam u_piston.
Proof. unfold xp. ring. Qed.
Lemma s_xdet : xdet (lam * t) (lam * xlab) d_cj = lam * xdet t xlab d_cj.
Proof. unfold xdet. ring. Qed.
Lemma s_x1 : x1 (lam * t) (lam * xlab) (lam * dx) d_cj = lam * x1 t xlab dx d_cj.
Proof. unfold x1. rewrite s_xdet. ring. Qed.
Lemma s_x2 : x2 (lam * t) (lam * xlab) (lam * dx) d_cj = lam * x2 t xlab dx d_cj.
Proof. unfold x2. rewrite s_x1. ring. Qed.
Lemma s_dxp : dxp (lam * t) (lam * xlab) (lam * dx) d_cj gam u_piston = lam * dxp t xlab dx d_cj gam u_piston.
Proof. unfold dxp. rewrite s_x2, s_xp. ring. Qed.
Lemma s_hh : hh (lam * t) (lam * xlab) (lam * dx) d_cj gam u_piston = lam * hh t xlab dx d_cj gam u_piston.
Proof. unfold hh. rewrite s_dxp. field. Qed.
Lemma s_arg : forall y, fan_arg (lam * t) d_cj gam (lam * y) = fan_arg t d_cj gam y.
Proof. intros y. unfold fan_arg, aa, bb, c_cj, u_cj, gamm1, gamp1. field. repeat split; try assumption; lra. Qed.
Lemma s_fan_u : forall y, fan_u (lam * t) d_cj gam (lam * y) = fan_u t d_cj gam y.
Proof. intros y. unfold fan_u, dd, um, c_cj, u_cj, gamm1, gamp1. field. repeat split; try assumption; lra. Qed.
Lemma s_fan_c : forall y, fan_c (lam * t) d_cj gam (lam * y) = fan_c t d_cj gam y.
Proof. intros y. unfold fan_c. rewrite s_arg. reflexivity. Qed.
Lemma s_avg : forall coef n ya w, w <> 0 -> n + 1 <> 0 ->
  avg_pow (lam * t) d_cj gam coef n (lam * ya) (lam * w) = avg_pow t d_cj gam coef n ya w.
Proof.
  intros coef n ya w Hw Hn. unfold avg_pow.
  replace (lam * ya + lam * w) with (lam * (ya + w)) by ring. rewrite !s_arg.
  unfold aa, c_cj, gamm1, gamp1. field. repeat split; try assumption; lra.
Qed.

Lemma s_sel : forall A B C, sel (lam * t) (lam * xlab) (lam * dx) d_cj gam u_piston A B C = sel t xlab dx d_cj gam u_piston A B C.
Proof.
  intros A B C. unfold sel. rewrite s_xdet, s_xp.
  replace (lam * xdet t xlab d_cj - lam * xp t d_cj gam u_piston) with (lam * (xdet t xlab d_cj - xp t d_cj gam u_piston)) by ring.
  rewrite Rabs_mult, (Rabs_right lam) by lra.
  set (r := Rabs (xdet t xlab d_cj - xp t d_cj gam u_piston)). set (a := xp t d_cj gam u_piston). set (b := xdet t xlab d_cj).
  replace (1 / 10 * (lam * dx)) with (lam * (1 / 10 * dx)) by ring. set (e := 1 / 10 * dx).
  destruct (Rlt_dec (lam * e) (lam * r)) as [H1 | H1]; destruct (Rlt_dec e r) as [H1' | H1'];
    try (exfalso; apply H1'; apply (Rmult_lt_reg_l lam); assumption);
    try (exfalso; apply H1; apply Rmult_lt_compat_l; assumption);
  destruct (Rlt_dec (lam * a) (lam * b)) as [H2 | H2]; destruct (Rlt_dec a b) as [H2' | H2'];
    try (exfalso; apply H2'; apply (Rmult_lt_reg_l lam); assumption);
    try (exfalso; apply H2; apply Rmult_lt_compat_l; assumption);
  destruct (Rle_dec (lam * r) (lam * e)) as [H3 | H3]; destruct (Rle_dec r e) as [H3' | H3'];
    try (exfalso; apply H3'; apply (Rmult_le_reg_l lam); assumption);
    try (exfalso; apply H3; apply Rmult_le_compat_l; [ lra | assumption ]);
  reflexivity.
Qed.

(* the transition-cell blend divides by the fan part's width dxp and multiplies by it again: dxp <> 0 is needed only
   where the blended value is selected *)
Lemma s_blend : forall cst f f', f' = f ->
  blend (lam * t) (lam * xlab) (lam * dx) d_cj gam u_piston cst f' = blend t xlab dx d_cj gam u_piston cst f.
Proof. intros cst f f' E. unfold blend. rewrite s_hh, E. field. repeat split; try assumption; lra. Qed.

Hypothesis Hb : bexp gam + 1 <> 0.
Hypothesis He : dexp gam + 1 <> 0.
Hypothesis Hw : dxp t xlab dx d_cj gam u_piston <> 0.

Lemma mader_selfsimilar_section :
  mr_u (lam * t) (lam * xlab) (lam * dx) d_cj gam u_piston = mr_u t xlab dx d_cj gam u_piston /\
  mr_p (lam * t) (lam * xlab) (lam * dx) p_cj d_cj gam u_piston = mr_p t xlab dx p_cj d_cj gam u_piston /\
  mr_c (lam * t) (lam * xlab) (lam * dx) d_cj gam u_piston = mr_c t xlab dx d_cj gam u_piston /\
  mr_rho (lam * t) (lam * xlab) (lam * dx) p_cj d_cj gam u_piston = mr_rho t xlab dx p_cj d_cj gam u_piston.
Proof.
  unfold mr_u, mr_p, mr_c, mr_rho, tr_u, tr_p, tr_c, tr_rho.
  rewrite !s_sel.
  assert (E1 : x1 (lam * t) (lam * xlab) (lam * dx) d_cj + 1 / 2 * (lam * dx) = lam * (x1 t xlab dx d_cj + 1 / 2 * dx)) by (rewrite s_x1; ring).
  assert (E2 : xp (lam * t) d_cj gam u_piston + hh (lam * t) (lam * xlab) (lam * dx) d_cj gam u_piston
               = lam * (xp t d_cj gam u_piston + hh t xlab dx d_cj gam u_piston)) by (rewrite s_xp, s_hh; ring).
  rewrite E1, E2, !s_fan_u, !s_fan_c, s_x1, s_xp, s_dxp.
  rewrite !s_avg by assumption.
  rewrite (s_blend u_piston (fan_u t d_cj gam (xp t d_cj gam u_piston + hh t xlab dx d_cj gam u_piston))) by reflexivity.
  rewrite (s_blend (cs_p p_cj d_cj gam u_piston) (avg_pow t d_cj gam p_cj (bexp gam) (xp t d_cj gam u_piston) (dxp t xlab dx d_cj gam u_piston))) by reflexivity.
  rewrite (s_blend (cs_c d_cj gam u_piston) (fan_c t d_cj gam (xp t d_cj gam u_piston + hh t xlab dx d_cj gam u_piston))) by reflexivity.
  rewrite (s_blend (cs_rho p_cj d_cj gam u_piston) (avg_pow t d_cj gam (rho_cj p_cj d_cj gam) (dexp gam) (xp t d_cj gam u_piston) (dxp t xlab dx d_cj gam u_piston))) by reflexivity.
  repeat split; reflexivity.
Qed.
End MaderScale.

Lemma mader_selfsimilar_proof : forall lam t xlab dx p_cj d_cj gam u_piston,
  0 < lam -> 0 < t -> 0 < dx -> 1 < gam -> 0 < d_cj ->
  dxp t xlab dx d_cj gam u_piston <> 0 ->
  mader_u (lam * t) (lam * xlab) (lam * dx) p_cj d_cj gam u_piston = mader_u t xlab dx p_cj d_cj gam u_piston /\
  mader_p (lam * t) (lam * xlab) (lam * dx) p_cj d_cj gam u_piston = mader_p t xlab dx p_cj d_cj gam u_piston /\
  mader_c (lam * t) (lam * xlab) (lam * dx) p_cj d_cj gam u_piston = mader_c t xlab dx p_cj d_cj gam u_piston /\
  mader_rho (lam * t) (lam * xlab) (lam * dx) p_cj d_cj gam u_piston = mader_rho t xlab dx p_cj d_cj gam u_piston /\
  mader_xdet (lam * t) (lam * xlab) (lam * dx) p_cj d_cj gam u_piston = lam * mader_xdet t xlab dx p_cj d_cj gam u_piston.
Proof.
  intros lam t xlab dx p_cj d_cj gam u_piston Hl Ht Hdx Hg Hd Hw.
  rewrite !mirror_u, !mirror_p, !mirror_c, !mirror_rho.
  assert (Hb : bexp gam + 1 <> 0).
  { unfold bexp, gamm1. assert (0 < 2 * gam / (gam - 1)) by (apply Rdiv_lt_0_compat; lra). lra. }
  assert (He : dexp gam + 1 <> 0).
  { unfold dexp, gamm1. assert (0 < 2 / (gam - 1)) by (apply Rdiv_lt_0_compat; lra). lra. }
  destruct (mader_selfsimilar_section lam t xlab dx p_cj d_cj gam u_piston) as (A & B & C & D); try lra; try assumption.
  repeat split; try assumption. unfold mader_xdet. ring.
Qed.
