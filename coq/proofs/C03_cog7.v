(* C03 for cog7: returned thermodynamic fields satisfy the declared EOS. P = Gamma rho T, e = Gamma T/(gamma-1) with the built-in gamma = (((geometry - 1) + 3) / ((geometry - 1) + 1)) *)
From Coq Require Import Reals Lra.
From EP Require Import lib.Base lib.Tactics gen.Cog7.
Open Scope R_scope.

Lemma cog7_eos_proof :
  forall geometry tau b R0 Ri Gamma r t,
  cog7_defined geometry tau b R0 Ri Gamma r t ->
  cog7_density geometry tau b R0 Ri Gamma r t <> 0 ->
  (((geometry - 1) + 3) / ((geometry - 1) + 1)) - 1 <> 0 ->
  cog7_pressure geometry tau b R0 Ri Gamma r t = Gamma * (cog7_density geometry tau b R0 Ri Gamma r t) * (cog7_temperature geometry tau b R0 Ri Gamma r t) /\
  cog7_specific_internal_energy geometry tau b R0 Ri Gamma r t = Gamma * (cog7_temperature geometry tau b R0 Ri Gamma r t) / ((((geometry - 1) + 3) / ((geometry - 1) + 1)) - 1) /\
  cog7_pressure geometry tau b R0 Ri Gamma r t = ((((geometry - 1) + 3) / ((geometry - 1) + 1)) - 1) * (cog7_density geometry tau b R0 Ri Gamma r t) * (cog7_specific_internal_energy geometry tau b R0 Ri Gamma r t).
Proof. unfold cog7_defined. eos_solve. Qed.
