(* C03 for cog17: returned thermodynamic fields satisfy the declared EOS. P = Gamma rho T, e = Gamma T/(gamma-1) *)
From Coq Require Import Reals Lra.
From EP Require Import lib.Base lib.Tactics gen.Cog17.
Open Scope R_scope.

Lemma cog17_eos_proof :
  forall geometry gamma alpha beta lambda0 Gamma r t,
  cog17_defined geometry gamma alpha beta lambda0 Gamma r t ->
  cog17_density geometry gamma alpha beta lambda0 Gamma r t <> 0 ->
  gamma - 1 <> 0 ->
  cog17_pressure geometry gamma alpha beta lambda0 Gamma r t = Gamma * (cog17_density geometry gamma alpha beta lambda0 Gamma r t) * (cog17_temperature geometry gamma alpha beta lambda0 Gamma r t) /\
  cog17_specific_internal_energy geometry gamma alpha beta lambda0 Gamma r t = Gamma * (cog17_temperature geometry gamma alpha beta lambda0 Gamma r t) / (gamma - 1) /\
  cog17_pressure geometry gamma alpha beta lambda0 Gamma r t = (gamma - 1) * (cog17_density geometry gamma alpha beta lambda0 Gamma r t) * (cog17_specific_internal_energy geometry gamma alpha beta lambda0 Gamma r t).
Proof. unfold cog17_defined. eos_solve. Qed.
