(* C01 for Coggeshall 11.  *)
From Coq Require Import Reals Lra.
From Coquelicot Require Import Coquelicot.
From EP Require Import lib.Base lib.Euler lib.Tactics gen.Cog11.
Open Scope R_scope.

Lemma cog11_pde_proof :
  forall geometry gamma beta rho0 temp0 Gamma K0 r t,
  0 < r -> 0 < t -> 0 < rho0 -> 0 < temp0 -> gamma <> 1 -> Gamma <> 0 -> (2 - (gamma - 1) * (geometry - 1 + 1)) <> 0 ->
  euler_heat_at (geometry - 1) K0 (beta + 4 + (geometry - 1 - 1) / (2 - (gamma - 1) * (geometry - 1 + 1))) beta
    (cog11_density geometry gamma beta rho0 temp0 Gamma)
    (cog11_velocity geometry gamma beta rho0 temp0 Gamma)
    (cog11_temperature geometry gamma beta rho0 temp0 Gamma)
    (cog11_pressure geometry gamma beta rho0 temp0 Gamma)
    (cog11_specific_internal_energy geometry gamma beta rho0 temp0 Gamma) r t.
Proof. intros. heat_solve (2 - (gamma - 1) * (geometry - 1 + 1)). Qed.
