(* C01 for the uniform collapse problem (Noh2) and its Coggeshall form (Noh2Cog). *)
From Coq Require Import Reals Lra Psatz.
From Coquelicot Require Import Coquelicot.
From EP Require Import lib.Base lib.Euler lib.Tactics gen.Noh2 gen.Noh2Cog.
Open Scope R_scope.

Lemma noh2_pde_proof :
  forall geometry gamma rho0 e0 r t,
  0 < r -> t < 1 -> rho0 <> 0 -> gamma <> 1 ->
  euler_at (geometry - 1) (noh2_density geometry gamma rho0 e0) (noh2_velocity geometry gamma rho0 e0)
    (noh2_pressure geometry gamma rho0 e0) (noh2_specific_internal_energy geometry gamma rho0 e0) r t.
Proof. intros. assert (0 < 1 - t) by lra. assert (0 < 1 + - t) by lra. euler_solve. Qed.

Lemma noh2cog_pde_proof :
  forall geometry gamma rho0 e0 r t,
  0 < r -> t < 1 -> rho0 <> 0 -> gamma <> 1 ->
  euler_at (geometry - 1) (noh2cog_density geometry gamma rho0 e0) (noh2cog_velocity geometry gamma rho0 e0)
    (noh2cog_pressure geometry gamma rho0 e0) (noh2cog_specific_internal_energy geometry gamma rho0 e0) r t.
Proof. intros. assert (0 < 1 - t) by lra. assert (0 < 1 + - t) by lra. euler_solve. Qed.
