(* C08 (heat rod family): re-expressing lengths (x ell), times (x tau) and temperatures (x theta) in other units
   rescales the returned temperature by theta, for every truncation order.  alpha is dimensionless, beta a length,
   gamma a temperature, kappa length^2/time. *)
From Coq Require Import Reals Lra Lia.
From Coquelicot Require Import Coquelicot.
From EP Require Import lib.Base lib.Series gen.Heat.
Open Scope R_scope.

Lemma rod_term_units : forall a b kappa k t x a' b' kappa' k' t' x' th,
  a' = th * a -> b' = th * b -> k' * x' = k * x -> kappa' * k' ^ 2 * t' = kappa * k ^ 2 * t ->
  rod_term a' b' kappa' k' t' x' = th * rod_term a b kappa k t x.
Proof.
  intros a b kappa k t x a' b' kappa' k' t' x' th Ha Hb Hkx He. unfold rod_term.
  rewrite Hkx, Ha, Hb. replace (- kappa' * k' ^ 2 * t') with (- kappa * k ^ 2 * t) by lra. ring.
Qed.

Lemma rod_bc1_units_proof : forall ell tau th L Nsum TL TR alpha1 alpha2 gamma1 gamma2 kappa x t,
  0 < ell -> 0 < tau -> L <> 0 -> alpha1 <> 0 -> alpha2 <> 0 ->
  rod_bc1_temperature (ell * L) Nsum (th * TL) (th * TR) alpha1 alpha2 (th * gamma1) (th * gamma2) (kappa * ell ^ 2 / tau) (ell * x) (tau * t) =
  th * rod_bc1_temperature L Nsum TL TR alpha1 alpha2 gamma1 gamma2 kappa x t.
Proof.
  intros ell tau th L Nsum TL TR alpha1 alpha2 gamma1 gamma2 kappa x t Hl Ht HL Ha1 Ha2.
  unfold rod_bc1_temperature. rewrite Rmult_plus_distr_l, <- sum_range_scal. f_equal.
  - unfold rod_bc1_static. field. repeat split; lra.
  - apply sum_range_ext. intros n. apply rod_term_units.
    + unfold rod_bc1_An. ring.
    + unfold rod_bc1_Bn. destruct (Req_EM_T (INR n) 0); [ ring | field; repeat split; try lra; try assumption; apply PI_neq0 ].
    + unfold rod_bc1_kn. field. split; lra.
    + unfold rod_bc1_kn. field. repeat split; lra.
Qed.

Lemma rod_bc2_units_proof : forall ell tau th L Nsum TL TR beta1 beta2 gamma1 gamma2 kappa x t,
  0 < ell -> 0 < tau -> L <> 0 -> beta1 <> 0 ->
  rod_bc2_temperature (ell * L) Nsum (th * TL) (th * TR) (ell * beta1) (ell * beta2) (th * gamma1) (th * gamma2) (kappa * ell ^ 2 / tau) (ell * x) (tau * t) =
  th * rod_bc2_temperature L Nsum TL TR beta1 beta2 gamma1 gamma2 kappa x t.
Proof.
  intros ell tau th L Nsum TL TR beta1 beta2 gamma1 gamma2 kappa x t Hl Ht HL Hb1.
  unfold rod_bc2_temperature. rewrite Rmult_plus_distr_l, <- sum_range_scal. f_equal.
  - unfold rod_bc2_static. field. repeat split; lra.
  - apply sum_range_ext. intros n. apply rod_term_units.
    + unfold rod_bc2_An. destruct (Req_EM_T (INR n) 0); field; repeat split; try lra; try assumption; apply PI_neq0.
    + unfold rod_bc2_Bn. ring.
    + unfold rod_bc2_kn. field. split; lra.
    + unfold rod_bc2_kn. field. repeat split; lra.
Qed.

Lemma rod_bc3_units_proof : forall ell tau th L Nsum TL TR alpha1 beta2 gamma1 gamma2 kappa x t,
  0 < ell -> 0 < tau -> L <> 0 -> alpha1 <> 0 -> beta2 <> 0 ->
  rod_bc3_temperature (ell * L) Nsum (th * TL) (th * TR) alpha1 (ell * beta2) (th * gamma1) (th * gamma2) (kappa * ell ^ 2 / tau) (ell * x) (tau * t) =
  th * rod_bc3_temperature L Nsum TL TR alpha1 beta2 gamma1 gamma2 kappa x t.
Proof.
  intros ell tau th L Nsum TL TR alpha1 beta2 gamma1 gamma2 kappa x t Hl Ht HL Ha1 Hb2.
  unfold rod_bc3_temperature. rewrite Rmult_plus_distr_l, <- sum_range_scal. f_equal.
  - unfold rod_bc3_static. field. repeat split; lra.
  - apply sum_range_ext. intros n.
    assert (H2n : 2 * INR n + 1 <> 0) by (pose proof (pos_INR n); lra).
    apply rod_term_units.
    + unfold rod_bc3_An. ring.
    + unfold rod_bc3_Bn. field. repeat split; try lra; try assumption; apply PI_neq0.
    + unfold rod_bc3_kn. field. split; lra.
    + unfold rod_bc3_kn. field. repeat split; lra.
Qed.

Lemma rod_bc4_units_proof : forall ell tau th L Nsum TL TR alpha2 beta1 gamma1 gamma2 kappa x t,
  0 < ell -> 0 < tau -> L <> 0 -> alpha2 <> 0 -> beta1 <> 0 ->
  rod_bc4_temperature (ell * L) Nsum (th * TL) (th * TR) alpha2 (ell * beta1) (th * gamma1) (th * gamma2) (kappa * ell ^ 2 / tau) (ell * x) (tau * t) =
  th * rod_bc4_temperature L Nsum TL TR alpha2 beta1 gamma1 gamma2 kappa x t.
Proof.
  intros ell tau th L Nsum TL TR alpha2 beta1 gamma1 gamma2 kappa x t Hl Ht HL Ha2 Hb1.
  unfold rod_bc4_temperature. rewrite Rmult_plus_distr_l, <- sum_range_scal. f_equal.
  - unfold rod_bc4_static. field. repeat split; lra.
  - apply sum_range_ext. intros n.
    assert (H2n : 2 * INR n + 1 <> 0) by (pose proof (pos_INR n); lra).
    apply rod_term_units.
    + unfold rod_bc4_An. field. repeat split; try lra; try assumption; apply PI_neq0.
    + unfold rod_bc4_Bn. ring.
    + unfold rod_bc4_kn. field. split; lra.
    + unfold rod_bc4_kn. field. repeat split; lra.
Qed.
