(* C20: inside the documented domain the generated expressions are defined (no division by zero, no power of
   a non-positive base, no root of a negative number): valid requests produce finite real numbers. *)
From Coq Require Import Reals Lra Psatz.
From EP Require Import lib.Base lib.Tactics gen.Noh1 gen.Noh2 gen.Cog1 gen.Cog8 gen.Cog19 spec.Restrictions.
Open Scope R_scope.

Lemma noh_defined_proof : forall geometry gamma u0 rho0 r t,
  noh_doc_ok geometry gamma u0 rho0 -> 1 < gamma -> 0 < r -> 0 < t ->
  noh_defined geometry gamma u0 rho0 r t.
Proof.
  intros geometry gamma u0 rho0 r t [_ Hu] Hg Hr Ht. unfold noh_defined.
  assert (Habs : 0 < Rabs u0) by (apply Rabs_pos_lt; lra).
  repeat split; intros; try lra.
  - apply Rlt_gt. apply Rdiv_lt_0_compat; lra.
  - assert (0 < Rabs u0 * t / r) by (apply Rdiv_lt_0_compat; [ apply Rmult_lt_0_compat | ]; lra). lra.
Qed.

Lemma noh2_defined_proof : forall geometry gamma rho0 e0 r t,
  noh2_doc_ok geometry gamma rho0 e0 -> t < 1 ->
  noh2_defined geometry gamma rho0 e0 r t.
Proof. intros. unfold noh2_defined. repeat split; try lra; unfold Rpower; apply Rgt_not_eq, exp_pos. Qed.

Lemma cog1_defined_proof : forall geometry gamma rho0 temp0 b Gamma r t,
  cog_any_geom geometry -> gamma <> 1 -> rho0 <> 0 -> 0 < r -> 0 < t ->
  cog1_defined geometry gamma rho0 temp0 b Gamma r t.
Proof.
  intros. unfold cog1_defined. repeat split; try lra.
  unfold Rpower. nz.
Qed.

Lemma cog19_defined_proof : forall geometry gamma rho0 u0 Gamma r t,
  cog19_doc_ok geometry u0 -> 1 < gamma -> rho0 <> 0 -> Gamma <> 0 -> 0 < r -> 0 < t ->
  cog19_defined geometry gamma rho0 u0 Gamma r t.
Proof.
  intros geometry gamma rho0 u0 Gamma r t [_ Hu] Hg Hrho HG Hr Ht. unfold cog19_defined.
  assert (HX : 0 < (gamma + 1) / (gamma - 1)) by (apply Rdiv_lt_0_compat; lra).
  assert (HY : 0 < (r - u0 * t) / r) by (apply Rdiv_lt_0_compat; nra).
  repeat split; intros; try lra; try (apply Rlt_gt; assumption).
  all: split_ifs; unfold Rpower; nz.
Qed.
