(* C03 for cog13: returned thermodynamic fields satisfy the declared EOS. P = Gamma rho T, e = Gamma T/(gamma-1) *)
From Coq Require Import Reals Lra.
From EP Require Import lib.Base lib.Tactics gen.Cog13.
Open Scope R_scope.

Lemma cog13_eos_proof :
  forall geometry gamma rho0 alpha beta lambda0 Gamma r t,
  cog13_defined geometry gamma rho0 alpha beta lambda0 Gamma r t ->
  cog13_density geometry gamma rho0 alpha beta lambda0 Gamma r t <> 0 ->
  gamma - 1 <> 0 ->
  cog13_pressure geometry gamma rho0 alpha beta lambda0 Gamma r t = Gamma * (cog13_density geometry gamma rho0 alpha beta lambda0 Gamma r t) * (cog13_temperature geometry gamma rho0 alpha beta lambda0 Gamma r t) /\
  cog13_specific_internal_energy geometry gamma rho0 alpha beta lambda0 Gamma r t = Gamma * (cog13_temperature geometry gamma rho0 alpha beta lambda0 Gamma r t) / (gamma - 1) /\
  cog13_pressure geometry gamma rho0 alpha beta lambda0 Gamma r t = (gamma - 1) * (cog13_density geometry gamma rho0 alpha beta lambda0 Gamma r t) * (cog13_specific_internal_energy geometry gamma rho0 alpha beta lambda0 Gamma r t).
Proof. unfold cog13_defined. eos_solve. Qed.
