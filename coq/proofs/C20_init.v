(* C20: the constructor guard chains regenerated from the source accept exactly the documented parameter sets. *)
From Coq Require Import Reals Lra.
From EP Require Import lib.Base gen.Init spec.Restrictions.
Open Scope R_scope.

Lemma NNPP_R : forall a b : R, ~ (a <> b) -> a = b.
Proof. intros a b H. destruct (Req_dec a b) as [E | E]; [ exact E | contradiction ]. Qed.

Ltac guard_solve :=
  intros; unfold geom123, geom23; split; intro H;
  repeat match goal with
  | H : _ /\ _ |- _ => destruct H
  end;
  repeat match goal with
  | H : ~ (_ <> _) |- _ => apply NNPP_R in H
  end;
  repeat split; try tauto; try lra;
  try (intro; lra); try (intros [?|?]; lra).

Lemma noh_guards_proof : forall geometry gamma u0 rho0,
  i_Noh geometry gamma u0 rho0 <-> noh_doc_ok geometry gamma u0 rho0.
Proof. unfold i_Noh, noh_doc_ok. guard_solve. Qed.

Lemma noh2_guards_proof : forall geometry gamma rho0 e0,
  i_Noh2 geometry gamma rho0 e0 <-> noh2_doc_ok geometry gamma rho0 e0.
Proof. unfold i_Noh2, noh2_doc_ok. guard_solve. Qed.

Lemma cog_geometry_guards_proof :
  (forall geometry gamma rho0 temp0 b Gamma, i_Cog1 geometry gamma rho0 temp0 b Gamma <-> cog_any_geom geometry) /\
  (forall geometry gamma rho0 b Gamma, i_Cog2 geometry gamma rho0 b Gamma <-> cog_any_geom geometry) /\
  (forall geometry rho0 b v Gamma, i_Cog3 geometry rho0 b v Gamma <-> cog_any_geom geometry) /\
  (forall geometry gamma rho0 u0 Gamma, i_Cog4 geometry gamma rho0 u0 Gamma <-> cog_any_geom geometry) /\
  (forall geometry rho0 tau b Gamma, i_Cog6 geometry rho0 tau b Gamma <-> cog_any_geom geometry) /\
  (forall geometry tau b R0 Ri Gamma, i_Cog7 geometry tau b R0 Ri Gamma <-> cog_any_geom geometry) /\
  (forall geometry gamma alpha beta rho0 temp0 Gamma, i_Cog8 geometry gamma alpha beta rho0 temp0 Gamma <-> cog_any_geom geometry) /\
  (forall geometry gamma alpha beta rho0 Gamma, i_Cog9 geometry gamma alpha beta rho0 Gamma <-> cog_any_geom geometry) /\
  (forall geometry gamma beta lambda0 rho0 temp0 Gamma, i_Cog10 geometry gamma beta lambda0 rho0 temp0 Gamma <-> cog_23_geom geometry) /\
  (forall geometry gamma beta rho0 temp0 Gamma, i_Cog11 geometry gamma beta rho0 temp0 Gamma <-> cog_any_geom geometry) /\
  (forall geometry gamma beta rho0 u0 Gamma, i_Cog12 geometry gamma beta rho0 u0 Gamma <-> cog_23_geom geometry) /\
  (forall geometry gamma alpha beta lambda0 Gamma, i_Cog17 geometry gamma alpha beta lambda0 Gamma <-> cog_any_geom geometry).
Proof.
  unfold i_Cog1, i_Cog2, i_Cog3, i_Cog4, i_Cog6, i_Cog7, i_Cog8, i_Cog9, i_Cog10, i_Cog11, i_Cog12, i_Cog17,
    cog_any_geom, cog_23_geom, geom123, geom23.
  repeat split; tauto.
Qed.

Lemma cog_special_guards_proof :
  (forall geometry gamma rho0 alpha beta lambda0 Gamma, i_Cog13 geometry gamma rho0 alpha beta lambda0 Gamma <-> cog13_doc_ok geometry gamma) /\
  (forall geometry gamma u0 b lambda0 Gamma, i_Cog16 geometry gamma u0 b lambda0 Gamma <-> cog16_doc_ok geometry b) /\
  (forall geometry alpha beta rho0 tau Gamma, i_Cog18 geometry alpha beta rho0 tau Gamma <-> cog18_doc_ok geometry alpha) /\
  (forall geometry gamma rho0 u0 Gamma, i_Cog19 geometry gamma rho0 u0 Gamma <-> cog19_doc_ok geometry u0) /\
  (forall geometry gamma rho0 u0 a Gamma, i_Cog20 geometry gamma rho0 u0 a Gamma <-> cog20_doc_ok geometry a).
Proof.
  unfold i_Cog13, i_Cog16, i_Cog18, i_Cog19, i_Cog20, cog13_doc_ok, cog16_doc_ok, cog18_doc_ok, cog19_doc_ok, cog20_doc_ok.
  split; [ | split; [ | split; [ | split ] ] ]; guard_solve.
Qed.

Lemma cog14_guards_proof : forall geometry gamma rho0 alpha beta lambda0 Gamma,
  i_Cog14 geometry gamma rho0 alpha beta lambda0 Gamma <-> cog14_doc_ok geometry alpha beta.
Proof.
  intros. unfold i_Cog14, cog14_doc_ok, cog14_b, geom123.
  split.
  - intros [[Hg Hd] Hb]. repeat split; try tauto.
    apply Rnot_le_lt. intro E. apply Hb. right. exact E.
  - intros (Hg & Hd & Hb & Hp). repeat split; try tauto.
    intros [E | E]; [ exact (Hb E) | lra ].
Qed.

Lemma ehep_guards_proof : forall geometry gamma D_ rho_0 up xtilde xmax tmax,
  i_EscapeOfHEProducts geometry gamma D_ rho_0 up xtilde xmax tmax <-> ehep_doc_ok geometry gamma D_ rho_0 up xtilde xmax tmax.
Proof. unfold i_EscapeOfHEProducts, ehep_doc_ok. guard_solve. Qed.

Lemma sdrz_guards_proof : forall geometry D_ rho_0 gamma,
  i_SteadyDetonationReactionZone geometry D_ rho_0 gamma <-> sdrz_doc_ok geometry D_ rho_0 gamma.
Proof. unfold i_SteadyDetonationReactionZone, sdrz_doc_ok. guard_solve. Qed.

Lemma cylexp_guards_proof : forall geometry r_1 r_2 D_CJ_1 D_CJ_2 alpha_1 alpha_2 t_d,
  i_CylindricalExpansion geometry r_1 r_2 D_CJ_1 D_CJ_2 alpha_1 alpha_2 t_d <-> cylexp_doc_ok geometry r_1 r_2 D_CJ_1 D_CJ_2 alpha_1 alpha_2 t_d.
Proof. unfold i_CylindricalExpansion, cylexp_doc_ok. guard_solve. Qed.

Lemma ratestick_guards_proof : forall geometry R_ omega_c D_CJ alpha IC r_d t_f xnodes ynodes,
  i_RateStick geometry R_ omega_c D_CJ alpha IC r_d t_f xnodes ynodes <->
  ratestick_doc_ok geometry R_ omega_c D_CJ alpha IC r_d t_f xnodes ynodes.
Proof.
  intros geometry R_ omega_c D_CJ alpha IC r_d t_f xnodes ynodes. unfold i_RateStick, ratestick_doc_ok. split; intro H.
  - repeat match goal with H : _ /\ _ |- _ => destruct H end.
    repeat split; try tauto; try lra.
  - repeat match goal with H : _ /\ _ |- _ => destruct H end.
    repeat split; try tauto; try lra; try (intro; lra).
    all: intros [HIC Hlt]; match goal with Hx : _ = 1 -> _ |- _ => specialize (Hx HIC) end; lra.
Qed.

Lemma explosivearc_guards_proof : forall geometry r_1 r_2 omega_in omega_out x_d D_CJ alpha t_f xnodes ynodes,
  i_ExplosiveArc geometry r_1 r_2 omega_in omega_out x_d D_CJ alpha t_f xnodes ynodes <->
  explosivearc_doc_ok geometry r_1 r_2 omega_in omega_out x_d D_CJ alpha t_f xnodes ynodes.
Proof. unfold i_ExplosiveArc, explosivearc_doc_ok. guard_solve. Qed.
