(* C05, catalogue theorems: exhaustive over the finite list of public solver classes regenerated from the
   source (gen/Catalogue.v).  vm_compute over a finite domain, lifted with forallb_forall. *)
From Coq Require Import List String Bool.
From EP Require Import gen.Catalogue spec.FieldNames model.Api.
Import ListNotations.
Open Scope string_scope.

(* classes whose positions/names are only visible dynamically (checked by the correspondence run):
   Noh2Cog returns its base class's solution object; the 2-D Riemann wrapper copies the positions through
   another object *)
Definition dynamic_only : list string := ["Noh2Cog"; "IGEOS_Solver"].

Definition names_ok (s : solver_desc) : bool :=
  forallb (fun n => (mem n standard_names || mem n documented_extras) && negb (mem n forbidden_synonyms)) (s_names s).

Definition first_ok (s : solver_desc) : bool :=
  match s_names s with
  | n :: _ => mem n position_names && (s_first_is_input s || mem (s_class s) dynamic_only)
  | [] => mem (s_class s) dynamic_only
  end.

Definition solver_ok (s : solver_desc) : bool :=
  (s_names_known s || mem (s_class s) dynamic_only) && names_ok s && first_ok s && negb (s_mutates_input s).

Lemma catalogue_contract_proof : forallb solver_ok all_solvers = true.
Proof. vm_compute. reflexivity. Qed.

Lemma catalogue_contract_forall_proof : forall s, In s all_solvers -> solver_ok s = true.
Proof. apply forallb_forall. exact catalogue_contract_proof. Qed.

(* every declared parameter of every class has a class-level default except where the documentation says
   the caller must supply it; so "missing parameter" can only arise for these *)
Definition params_without_default (s : solver_desc) : list string :=
  filter (fun p => negb (mem p (s_with_default s))) (s_params s).

Lemma catalogue_nonempty_proof : 100 <= List.length all_solvers.
Proof. vm_compute. repeat constructor. Qed.
