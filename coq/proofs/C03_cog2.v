(* C03 for cog2: returned thermodynamic fields satisfy the declared EOS. P = Gamma rho T, e = Gamma T/(gamma-1) *)
From Coq Require Import Reals Lra.
From EP Require Import lib.Base lib.Tactics gen.Cog2.
Open Scope R_scope.

Lemma cog2_eos_proof :
  forall geometry gamma rho0 b Gamma r t,
  cog2_defined geometry gamma rho0 b Gamma r t ->
  cog2_density geometry gamma rho0 b Gamma r t <> 0 ->
  gamma - 1 <> 0 ->
  cog2_pressure geometry gamma rho0 b Gamma r t = Gamma * (cog2_density geometry gamma rho0 b Gamma r t) * (cog2_temperature geometry gamma rho0 b Gamma r t) /\
  cog2_specific_internal_energy geometry gamma rho0 b Gamma r t = Gamma * (cog2_temperature geometry gamma rho0 b Gamma r t) / (gamma - 1) /\
  cog2_pressure geometry gamma rho0 b Gamma r t = (gamma - 1) * (cog2_density geometry gamma rho0 b Gamma r t) * (cog2_specific_internal_energy geometry gamma rho0 b Gamma r t).
Proof. unfold cog2_defined. eos_solve. Qed.
