(* C16: the EOS library closures are mutual inverses and every coded partial derivative is the derivative
   of the corresponding closure (ideal, stiffened, Noble-Abel, Carnahan-Starling). *)
From Coq Require Import Reals Lra Psatz.
From Coquelicot Require Import Coquelicot.
From Interval Require Import Tactic.
From EP Require Import lib.Base lib.Tactics lib.Piecewise gen.EosLibrary.
Open Scope R_scope.

Ltac splits6 := split; [ | split; [ | split; [ | split; [ | split ] ] ] ].
Ltac dgoal := auto_derive; [ nz | field; nz ].

(* ---------- ideal gas ---------- *)
Lemma eos_ideal_consistent_proof : forall gamma rho e P, gamma <> 1 -> rho <> 0 ->
  eos_ideal_P rho (eos_ideal_e rho P gamma) gamma = P /\
  eos_ideal_e rho (eos_ideal_P rho e gamma) gamma = e /\
  is_derive (fun x => eos_ideal_P x e gamma) rho (eos_ideal_dP_drho rho e gamma) /\
  is_derive (fun x => eos_ideal_P rho x gamma) e (eos_ideal_dP_de rho e gamma) /\
  is_derive (fun x => eos_ideal_e x P gamma) rho (eos_ideal_de_drho rho P gamma) /\
  is_derive (fun x => eos_ideal_e rho x gamma) P (eos_ideal_de_dP rho P gamma).
Proof.
  intros gamma rho e P Hg Hr. autounfold with epgen.
  splits6; try (field; nz); try dgoal.
Qed.

(* ---------- stiffened gas ---------- *)
Lemma eos_stiff_consistent_proof : forall gamma c_s rho_inf rho e P, gamma <> 1 -> rho <> 0 ->
  eos_stiff_P rho (eos_stiff_e rho P gamma c_s rho_inf) gamma c_s rho_inf = P /\
  eos_stiff_e rho (eos_stiff_P rho e gamma c_s rho_inf) gamma c_s rho_inf = e /\
  is_derive (fun x => eos_stiff_P x e gamma c_s rho_inf) rho (eos_stiff_dP_drho rho e gamma c_s rho_inf) /\
  is_derive (fun x => eos_stiff_P rho x gamma c_s rho_inf) e (eos_stiff_dP_de rho e gamma c_s rho_inf) /\
  is_derive (fun x => eos_stiff_e x P gamma c_s rho_inf) rho (eos_stiff_de_drho rho P gamma c_s rho_inf) /\
  is_derive (fun x => eos_stiff_e rho x gamma c_s rho_inf) P (eos_stiff_de_dP rho P gamma c_s rho_inf).
Proof.
  intros gamma c_s rho_inf rho e P Hg Hr. autounfold with epgen.
  splits6; try (field; nz); try dgoal.
Qed.

(* ---------- Noble-Abel ---------- *)
Lemma eos_na_consistent_proof : forall gamma b rho e P, gamma <> 1 -> rho <> 0 -> 1 - b * rho <> 0 ->
  eos_na_P rho (eos_na_e rho P gamma b) gamma b = P /\
  eos_na_e rho (eos_na_P rho e gamma b) gamma b = e /\
  is_derive (fun x => eos_na_P x e gamma b) rho (eos_na_dP_drho rho e gamma b) /\
  is_derive (fun x => eos_na_P rho x gamma b) e (eos_na_dP_de rho e gamma b) /\
  is_derive (fun x => eos_na_e x P gamma b) rho (eos_na_de_drho rho P gamma b) /\
  is_derive (fun x => eos_na_e rho x gamma b) P (eos_na_de_dP rho P gamma b).
Proof.
  intros gamma b rho e P Hg Hr Hb. autounfold with epgen.
  assert (Hb' : 1 + - (b * rho) <> 0) by lra.
  splits6; try (field; nz); try dgoal.
Qed.

(* ---------- Carnahan-Starling (all but de_drho, see the refutation below) ---------- *)
Lemma eos_cs_consistent_proof : forall gamma b rho e P, gamma <> 1 -> rho <> 0 -> 1 - b * rho <> 0 ->
  1 + b * rho + (b * rho) ^ 2 - (b * rho) ^ 3 <> 0 ->
  eos_cs_P rho (eos_cs_e rho P gamma b) gamma b = P /\
  eos_cs_e rho (eos_cs_P rho e gamma b) gamma b = e /\
  is_derive (fun x => eos_cs_P x e gamma b) rho (eos_cs_dP_drho rho e gamma b) /\
  is_derive (fun x => eos_cs_P rho x gamma b) e (eos_cs_dP_de rho e gamma b) /\
  is_derive (fun x => eos_cs_e rho x gamma b) P (eos_cs_de_dP rho P gamma b) /\
  is_derive (fun x => eos_cs_Z x gamma b) (b * rho) (eos_cs_dZ_deta (b * rho) gamma b).
Proof.
  intros gamma b rho e P Hg Hr Hb HZ. autounfold with epgen.
  assert (Hb' : 1 + - (b * rho) <> 0) by lra.
  splits6; try (field; nz); try dgoal.
Qed.

(* ---------- findings ---------- *)
(* Carnahan-Starling de_drho, called (as every residual function does) with (rho, P): not the derivative of e *)
Lemma eos_cs_de_drho_refuted_proof :
  let gamma := 5 / 3 in let b := 1 in let rho := 1 / 2 in let P := 2 in
  rho <> 0 /\ 1 - b * rho <> 0 /\
  ~ is_derive (fun x => eos_cs_e x P gamma b) rho (eos_cs_de_drho rho P gamma b).
Proof.
  cbv zeta. split; [ lra | split; [ lra | ] ].
  intro H.
  eassert (D : is_derive (fun x => eos_cs_e x 2 (5 / 3) 1) (1 / 2) _).
  { autounfold with epgen. auto_derive; [ repeat split; try exact I; apply Rgt_not_eq; interval | reflexivity ]. }
  pose proof (is_derive_unique _ _ _ H) as E1. pose proof (is_derive_unique _ _ _ D) as E2.
  rewrite E1 in E2. revert E2. autounfold with epgen.
  first [ apply Rlt_not_eq; interval | apply Rgt_not_eq; interval ].
Qed.

(* ---------- Steinberg / Mie-Gruneisen ---------- *)
Lemma eos_st_closures_proof : forall rd rp rg b c0 s1 s2 s3 rho e P,
  rho <> 0 -> eos_st_gruneisen rho rd rp rg b c0 s1 s2 s3 <> 0 ->
  eos_st_P rho (eos_st_e rho P rd rp rg b c0 s1 s2 s3) rd rp rg b c0 s1 s2 s3 = P /\
  eos_st_e rho (eos_st_P rho e rd rp rg b c0 s1 s2 s3) rd rp rg b c0 s1 s2 s3 = e.
Proof.
  intros rd rp rg b c0 s1 s2 s3 rho e P Hr Hg.
  unfold eos_st_P, eos_st_e. fold (eos_st_gruneisen rho rd rp rg b c0 s1 s2 s3).
  fold (eos_st_P_inf rho rd rp rg b c0 s1 s2 s3). fold (eos_st_e_inf rho rd rp rg b c0 s1 s2 s3).
  set (G := eos_st_gruneisen rho rd rp rg b c0 s1 s2 s3) in *.
  set (PI_ := eos_st_P_inf rho rd rp rg b c0 s1 s2 s3). set (EI := eos_st_e_inf rho rd rp rg b c0 s1 s2 s3).
  split; field; split; assumption.
Qed.

(* expansion side (rho < reference density): the coded dPinf_drho is the derivative of P_inf *)
Lemma eos_st_dPinf_expansion_proof : forall rd rp rg b c0 s1 s2 s3 rho, 0 < rho -> rho < rd ->
  is_derive (fun x => eos_st_P_inf x rd rp rg b c0 s1 s2 s3) rho (eos_st_dPinf_drho rho rd rp rg b c0 s1 s2 s3).
Proof.
  intros rd rp rg b c0 s1 s2 s3 rho H0 H1.
  apply (is_derive_loc_region (fun y => 0 < y /\ y < rd) _
           (fun y => rp + c0 ^ 2 * (1 - rd / y) * y)).
  - apply locally_and; [ apply (locally_gt_id_const 0 rho H0) | apply (locally_lt_id_const rd rho H1) ].
  - intros y [Hy0 Hy1]. unfold eos_st_P_inf. destruct (Rlt_dec y rd); [ reflexivity | lra ].
  - unfold eos_st_dPinf_drho. destruct (Rlt_dec rho rd); [ | lra ].
    auto_derive; [ lra | field; lra ].
Qed.

(* compression side (rho > reference density): the coded dPinf_drho is the derivative of P_inf
   (holds since the fix of the quotient-rule sign; before it this lemma was a machine-checked refutation) *)
Lemma eos_st_dPinf_compression_proof : forall rd rp rg b c0 s1 s2 s3 rho, 0 < rd -> rd < rho ->
  1 - s1 * (1 - rd / rho) - s2 * (1 - rd / rho) ^ 2 - s3 * (1 - rd / rho) ^ 3 <> 0 ->
  is_derive (fun x => eos_st_P_inf x rd rp rg b c0 s1 s2 s3) rho (eos_st_dPinf_drho rho rd rp rg b c0 s1 s2 s3).
Proof.
  intros rd rp rg b c0 s1 s2 s3 rho H0 H1 Hpoly.
  apply (is_derive_loc_region (fun y => rd < y) _
           (fun y => rp + c0 ^ 2 * (1 - rd / y) *
                     (rd / (1 - s1 * (1 - rd / y) - s2 * (1 - rd / y) ^ 2 - s3 * (1 - rd / y) ^ 3) ^ 2))).
  - apply locally_gt_id_const. exact H1.
  - intros y Hy. unfold eos_st_P_inf. destruct (Rlt_dec y rd); [ lra | reflexivity ].
  - unfold eos_st_dPinf_drho. destruct (Rlt_dec rho rd); [ lra | ].
    set (q := 1 - s1 * (1 - rd / rho) - s2 * (1 - rd / rho) ^ 2 - s3 * (1 - rd / rho) ^ 3) in *.
    auto_derive.
    + repeat split; try exact I; try lra.
      replace (1 + - (s1 * (1 + - (rd * / rho))) + - (s2 * ((1 + - (rd * / rho)) * ((1 + - (rd * / rho)) * 1))) +
               - (s3 * ((1 + - (rd * / rho)) * ((1 + - (rd * / rho)) * ((1 + - (rd * / rho)) * 1))))) with q by (unfold q; field; lra).
      apply Rmult_integral_contrapositive_currified; [ exact Hpoly | ]. apply Rmult_integral_contrapositive_currified; [ exact Hpoly | lra ].
    + assert (Hq3 : ((rho - s1 * (rho - rd)) * rho - s2 * (rho - rd) ^ 2) * rho - s3 * (rho - rd) ^ 3 <> 0).
      { replace (((rho - s1 * (rho - rd)) * rho - s2 * (rho - rd) ^ 2) * rho - s3 * (rho - rd) ^ 3) with (q * rho ^ 3) by (unfold q; field; lra).
        apply Rmult_integral_contrapositive_currified; [ exact Hpoly | apply pow_nonzero; lra ]. }
      unfold q. field. repeat split; try lra; try exact Hq3.
Qed.
