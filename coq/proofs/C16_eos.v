(* C16: the EOS library closures are mutual inverses and every coded partial derivative is the derivative
   of the corresponding closure (ideal, stiffened, Noble-Abel, Carnahan-Starling). *)
From Coq Require Import Reals Lra Psatz.
From Coquelicot Require Import Coquelicot.
From Interval Require Import Tactic.
From EP Require Import lib.Base lib.Tactics gen.EosLibrary.
Open Scope R_scope.

Ltac splits6 := split; [ | split; [ | split; [ | split; [ | split ] ] ] ].
Ltac dgoal := auto_derive; [ nz | field; nz ].

(* ---------- ideal gas ---------- *)
Lemma eos_ideal_consistent_proof : forall gamma rho e P, gamma <> 1 -> rho <> 0 ->
  eos_ideal_P rho (eos_ideal_e rho P gamma) gamma = P /\
  eos_ideal_e rho (eos_ideal_P rho e gamma) gamma = e /\
  is_derive (fun x => eos_ideal_P x e gamma) rho (eos_ideal_dP_drho rho e gamma) /\
  is_derive (fun x => eos_ideal_P rho x gamma) e (eos_ideal_dP_de rho e gamma) /\
  is_derive (fun x => eos_ideal_e x P gamma) rho (eos_ideal_de_drho rho P gamma) /\
  is_derive (fun x => eos_ideal_e rho x gamma) P (eos_ideal_de_dP rho P gamma).
Proof.
  intros gamma rho e P Hg Hr. autounfold with epgen.
  splits6; try (field; nz); try dgoal.
Qed.

(* ---------- stiffened gas ---------- *)
Lemma eos_stiff_consistent_proof : forall gamma c_s rho_inf rho e P, gamma <> 1 -> rho <> 0 ->
  eos_stiff_P rho (eos_stiff_e rho P gamma c_s rho_inf) gamma c_s rho_inf = P /\
  eos_stiff_e rho (eos_stiff_P rho e gamma c_s rho_inf) gamma c_s rho_inf = e /\
  is_derive (fun x => eos_stiff_P x e gamma c_s rho_inf) rho (eos_stiff_dP_drho rho e gamma c_s rho_inf) /\
  is_derive (fun x => eos_stiff_P rho x gamma c_s rho_inf) e (eos_stiff_dP_de rho e gamma c_s rho_inf) /\
  is_derive (fun x => eos_stiff_e x P gamma c_s rho_inf) rho (eos_stiff_de_drho rho P gamma c_s rho_inf) /\
  is_derive (fun x => eos_stiff_e rho x gamma c_s rho_inf) P (eos_stiff_de_dP rho P gamma c_s rho_inf).
Proof.
  intros gamma c_s rho_inf rho e P Hg Hr. autounfold with epgen.
  splits6; try (field; nz); try dgoal.
Qed.

(* ---------- Noble-Abel ---------- *)
Lemma eos_na_consistent_proof : forall gamma b rho e P, gamma <> 1 -> rho <> 0 -> 1 - b * rho <> 0 ->
  eos_na_P rho (eos_na_e rho P gamma b) gamma b = P /\
  eos_na_e rho (eos_na_P rho e gamma b) gamma b = e /\
  is_derive (fun x => eos_na_P x e gamma b) rho (eos_na_dP_drho rho e gamma b) /\
  is_derive (fun x => eos_na_P rho x gamma b) e (eos_na_dP_de rho e gamma b) /\
  is_derive (fun x => eos_na_e x P gamma b) rho (eos_na_de_drho rho P gamma b) /\
  is_derive (fun x => eos_na_e rho x gamma b) P (eos_na_de_dP rho P gamma b).
Proof.
  intros gamma b rho e P Hg Hr Hb. autounfold with epgen.
  assert (Hb' : 1 + - (b * rho) <> 0) by lra.
  splits6; try (field; nz); try dgoal.
Qed.

(* ---------- Carnahan-Starling (all but de_drho, see the refutation below) ---------- *)
Lemma eos_cs_consistent_proof : forall gamma b rho e P, gamma <> 1 -> rho <> 0 -> 1 - b * rho <> 0 ->
  1 + b * rho + (b * rho) ^ 2 - (b * rho) ^ 3 <> 0 ->
  eos_cs_P rho (eos_cs_e rho P gamma b) gamma b = P /\
  eos_cs_e rho (eos_cs_P rho e gamma b) gamma b = e /\
  is_derive (fun x => eos_cs_P x e gamma b) rho (eos_cs_dP_drho rho e gamma b) /\
  is_derive (fun x => eos_cs_P rho x gamma b) e (eos_cs_dP_de rho e gamma b) /\
  is_derive (fun x => eos_cs_e rho x gamma b) P (eos_cs_de_dP rho P gamma b) /\
  is_derive (fun x => eos_cs_Z x gamma b) (b * rho) (eos_cs_dZ_deta (b * rho) gamma b).
Proof.
  intros gamma b rho e P Hg Hr Hb HZ. autounfold with epgen.
  assert (Hb' : 1 + - (b * rho) <> 0) by lra.
  splits6; try (field; nz); try dgoal.
Qed.
