(* C17 for Sedov: the post-shock state regenerated from sedov.py:_run is a compression of the ambient profile
   rho0 r^-omega evaluated at the coded shock radius, by exactly (gamma+1)/(gamma-1) > 1, with positive pressure and
   outward velocity behind an outward-moving front - for every geometry exponent xg2 > 0, gamma > 1, omega, rho0, eblast, alpha, t > 0. *)
From Coq Require Import Reals Lra Psatz.
From Coquelicot Require Import Coquelicot.
From EP Require Import lib.Base lib.Tactics gen.Sedov.
Open Scope R_scope.

Lemma sedov_shock_compressive_proof :
  forall t rho0 eblast alpha omega xg2 gamma,
  0 < t -> 1 < gamma -> 0 < xg2 -> 0 < rho0 ->
  let r2 := sed_r2 t rho0 eblast alpha xg2 in
  let ambient := rho0 * Rpower r2 (- omega) in
  let rho2 := sed_rho2 t rho0 eblast alpha omega xg2 ((gamma + 1) / (gamma - 1)) in
  0 < r2 /\ 0 < ambient /\
  rho2 = (gamma + 1) / (gamma - 1) * ambient /\ ambient < rho2 /\
  0 < sed_us t rho0 eblast alpha xg2 /\
  0 < sed_u2 t rho0 eblast alpha xg2 (gamma + 1) /\ sed_u2 t rho0 eblast alpha xg2 (gamma + 1) < sed_us t rho0 eblast alpha xg2 /\
  0 < sed_p2 t rho0 eblast alpha omega xg2 (gamma + 1).
Proof.
  intros t rho0 eblast alpha omega xg2 gamma Ht Hg Hx Hr r2 ambient rho2.
  assert (Hr2 : 0 < r2) by (unfold r2, sed_r2; apply Rmult_lt_0_compat; unfold Rpower; apply exp_pos).
  assert (Ha : 0 < ambient) by (unfold ambient; apply Rmult_lt_0_compat; [ exact Hr | unfold Rpower; apply exp_pos ]).
  assert (Hus : 0 < sed_us t rho0 eblast alpha xg2).
  { unfold sed_us. fold (sed_r2 t rho0 eblast alpha xg2). fold r2.
    apply Rdiv_lt_0_compat; [ | exact Ht ]. apply Rmult_lt_0_compat; [ apply Rdiv_lt_0_compat; lra | exact Hr2 ]. }
  assert (Hk : 1 < (gamma + 1) / (gamma - 1)).
  { apply Rmult_lt_reg_r with (gamma - 1); [ lra | ]. unfold Rdiv. rewrite Rmult_assoc, Rinv_l by lra. lra. }
  assert (Hrho2 : rho2 = (gamma + 1) / (gamma - 1) * ambient) by (unfold rho2, sed_rho2, sed_rho1, ambient, r2, sed_r2; reflexivity).
  assert (Hu2 : sed_u2 t rho0 eblast alpha xg2 (gamma + 1) = 2 * sed_us t rho0 eblast alpha xg2 / (gamma + 1)) by reflexivity.
  assert (Hp2 : sed_p2 t rho0 eblast alpha omega xg2 (gamma + 1) = 2 * ambient * sed_us t rho0 eblast alpha xg2 ^ 2 / (gamma + 1)) by reflexivity.
  set (us := sed_us t rho0 eblast alpha xg2) in *.
  assert (Hig : 0 < / (gamma + 1)) by (apply Rinv_0_lt_compat; lra).
  assert (Hig1 : / (gamma + 1) < / 2) by (apply Rinv_lt_contravar; lra).
  split; [ exact Hr2 | ]. split; [ exact Ha | ]. split; [ exact Hrho2 | ].
  split; [ rewrite Hrho2; nra | ]. split; [ exact Hus | ].
  split; [ rewrite Hu2; unfold Rdiv; nra | ].
  split; [ rewrite Hu2; unfold Rdiv; nra | ].
  rewrite Hp2. unfold Rdiv. apply Rmult_lt_0_compat; [ | exact Hig ].
  apply Rmult_lt_0_compat; [ lra | apply pow_lt; exact Hus ].
Qed.
