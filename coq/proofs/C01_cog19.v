(* C01 for Coggeshall 19 (Noh in Coggeshall form): both smooth regions. *)
From Coq Require Import Reals Lra Psatz.
From Coquelicot Require Import Coquelicot.
From EP Require Import lib.Base lib.Euler lib.Tactics lib.Piecewise gen.Cog19.
Open Scope R_scope.

Definition cog19_shock (gamma u0 t : R) : R := - (gamma - 1) * u0 * t / 2.

Section Cog19.
Variables geometry gamma rho0 u0 Gamma : R.
Hypothesis Hu0 : u0 < 0.
Hypothesis Hg : 1 < gamma.
Hypothesis HG : Gamma <> 0.
Hypothesis Hrho : rho0 <> 0.

Lemma cog19_post_proof : forall r t, 0 < r -> 0 < t -> r < cog19_shock gamma u0 t ->
  euler_at (geometry - 1) (cog19_density geometry gamma rho0 u0 Gamma) (cog19_velocity geometry gamma rho0 u0 Gamma)
    (cog19_pressure geometry gamma rho0 u0 Gamma) (cog19_specific_internal_energy geometry gamma rho0 u0 Gamma) r t.
Proof.
  intros r t Hr Ht Hreg. unfold cog19_shock in Hreg.
  euler_unfold. repeat match goal with |- _ /\ _ => split end;
  exders2 (fun y => y < - (gamma - 1) * u0 * t / 2) (fun y => r < - (gamma - 1) * u0 * y / 2);
  kill_ifs; fsolveA.
Qed.

Lemma cog19_pre_proof : forall r t, 0 < r -> 0 < t -> cog19_shock gamma u0 t < r ->
  euler_at (geometry - 1) (cog19_density geometry gamma rho0 u0 Gamma) (cog19_velocity geometry gamma rho0 u0 Gamma)
    (cog19_pressure geometry gamma rho0 u0 Gamma) (cog19_specific_internal_energy geometry gamma rho0 u0 Gamma) r t.
Proof.
  intros r t Hr Ht Hreg. unfold cog19_shock in Hreg.
  assert (Hpos : 0 < (r - u0 * t) * / r).
  { apply Rmult_lt_0_compat; [ nra | apply Rinv_0_lt_compat; lra ]. }
  assert (Hpos' : 0 < (r - u0 * t) / r) by exact Hpos.
  assert (Hpos2 : 0 < (r + - (u0 * t)) * / r).
  { replace (r + - (u0 * t)) with (r - u0 * t) by ring. exact Hpos. }
  euler_unfold.
  repeat match goal with |- _ /\ _ => split end;
  exders2 (fun y => - (gamma - 1) * u0 * t / 2 < y) (fun y => - (gamma - 1) * u0 * y / 2 < r);
  kill_ifs; fsolveA.
Qed.
End Cog19.
