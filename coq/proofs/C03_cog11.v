(* C03 for cog11: returned thermodynamic fields satisfy the declared EOS. P = Gamma rho T, e = Gamma T/(gamma-1) *)
From Coq Require Import Reals Lra.
From EP Require Import lib.Base lib.Tactics gen.Cog11.
Open Scope R_scope.

Lemma cog11_eos_proof :
  forall geometry gamma beta rho0 temp0 Gamma r t,
  cog11_defined geometry gamma beta rho0 temp0 Gamma r t ->
  cog11_density geometry gamma beta rho0 temp0 Gamma r t <> 0 ->
  gamma - 1 <> 0 ->
  cog11_pressure geometry gamma beta rho0 temp0 Gamma r t = Gamma * (cog11_density geometry gamma beta rho0 temp0 Gamma r t) * (cog11_temperature geometry gamma beta rho0 temp0 Gamma r t) /\
  cog11_specific_internal_energy geometry gamma beta rho0 temp0 Gamma r t = Gamma * (cog11_temperature geometry gamma beta rho0 temp0 Gamma r t) / (gamma - 1) /\
  cog11_pressure geometry gamma beta rho0 temp0 Gamma r t = (gamma - 1) * (cog11_density geometry gamma beta rho0 temp0 Gamma r t) * (cog11_specific_internal_energy geometry gamma beta rho0 temp0 Gamma r t).
Proof. unfold cog11_defined. eos_solve. Qed.
