(* C03 for cog16: returned thermodynamic fields satisfy the declared EOS. P = Gamma rho T, e = Gamma T/(gamma-1) *)
From Coq Require Import Reals Lra.
From EP Require Import lib.Base lib.Tactics gen.Cog16.
Open Scope R_scope.

Lemma cog16_eos_proof :
  forall geometry gamma u0 b lambda0 Gamma r t,
  cog16_defined geometry gamma u0 b lambda0 Gamma r t ->
  cog16_density geometry gamma u0 b lambda0 Gamma r t <> 0 ->
  gamma - 1 <> 0 ->
  cog16_pressure geometry gamma u0 b lambda0 Gamma r t = Gamma * (cog16_density geometry gamma u0 b lambda0 Gamma r t) * (cog16_temperature geometry gamma u0 b lambda0 Gamma r t) /\
  cog16_specific_internal_energy geometry gamma u0 b lambda0 Gamma r t = Gamma * (cog16_temperature geometry gamma u0 b lambda0 Gamma r t) / (gamma - 1) /\
  cog16_pressure geometry gamma u0 b lambda0 Gamma r t = (gamma - 1) * (cog16_density geometry gamma u0 b lambda0 Gamma r t) * (cog16_specific_internal_energy geometry gamma u0 b lambda0 Gamma r t).
Proof. unfold cog16_defined. eos_solve. Qed.
