(* C01 for Coggeshall 6.  *)
From Coq Require Import Reals Lra.
From Coquelicot Require Import Coquelicot.
From EP Require Import lib.Base lib.Euler lib.Tactics gen.Cog6.
Open Scope R_scope.

Lemma cog6_pde_proof :
  forall geometry rho0 tau b Gamma r t,
  0 < r -> 0 < t -> rho0 <> 0 -> Gamma <> 0 -> b + 2 <> 0 -> t < tau -> geometry - 1 + 1 <> 0 ->
  euler_at (geometry - 1)
    (cog6_density geometry rho0 tau b Gamma)
    (cog6_velocity geometry rho0 tau b Gamma)
    (cog6_pressure geometry rho0 tau b Gamma)
    (cog6_specific_internal_energy geometry rho0 tau b Gamma) r t.
Proof. intros. euler_solve. Qed.
