(* C03 for cog5: returned thermodynamic fields satisfy the declared EOS. P = Gamma rho T, e = Gamma T/(gamma-1) with the built-in gamma = (1 / 2) *)
From Coq Require Import Reals Lra.
From EP Require Import lib.Base lib.Tactics gen.Cog5.
Open Scope R_scope.

Lemma cog5_eos_proof :
  forall rho0 u0 Gamma r t,
  cog5_defined rho0 u0 Gamma r t ->
  cog5_density rho0 u0 Gamma r t <> 0 ->
  (1 / 2) - 1 <> 0 ->
  cog5_pressure rho0 u0 Gamma r t = Gamma * (cog5_density rho0 u0 Gamma r t) * (cog5_temperature rho0 u0 Gamma r t) /\
  cog5_specific_internal_energy rho0 u0 Gamma r t = Gamma * (cog5_temperature rho0 u0 Gamma r t) / ((1 / 2) - 1) /\
  cog5_pressure rho0 u0 Gamma r t = ((1 / 2) - 1) * (cog5_density rho0 u0 Gamma r t) * (cog5_specific_internal_energy rho0 u0 Gamma r t).
Proof. unfold cog5_defined. eos_solve. Qed.
