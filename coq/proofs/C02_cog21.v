(* C02 for Coggeshall 21: Rankine-Hugoniot relations at the coded shock location R = 2/(Gamma T0 t^2). *)
From Coq Require Import Reals Lra Psatz.
From Coquelicot Require Import Coquelicot.
From EP Require Import lib.Base lib.Tactics lib.RH gen.Cog21 proofs.C01_cog21.
Open Scope R_scope.

Lemma cog21_rh_proof :
  forall rho0 temp0 Gamma t, 0 < t -> 0 < Gamma -> 0 < temp0 -> rho0 <> 0 ->
  exists s J,
    is_derive (cog21_shock temp0 Gamma) t s /\
    fields_jump (fun r => cog21_density rho0 temp0 Gamma r t) (fun r => cog21_velocity rho0 temp0 Gamma r t)
                (fun r => cog21_pressure rho0 temp0 Gamma r t)
                (fun r => cog21_specific_internal_energy rho0 temp0 Gamma r t) (cog21_shock temp0 Gamma t) J /\
    rh_holds s J.
Proof.
  intros rho0 temp0 Gamma t Ht HG HT Hrho.
  assert (Hxs : 0 < cog21_shock temp0 Gamma t).
  { unfold cog21_shock. apply Rdiv_lt_0_compat; [ lra | ].
    apply Rmult_lt_0_compat; [ apply Rmult_lt_0_compat; lra | apply pow_lt; lra ]. }
  eexists. eexists (Build_jump_states _ _ _ _ _ _ _ _).
  split; [ unfold cog21_shock; auto_derive; [ nz | reflexivity ] | ].
  split.
  - unfold cog21_shock in *. jump_solve.
  - unfold rh_holds, rh_jump; cbn [jl_rho jl_u jl_p jl_e jr_rho jr_u jr_p jr_e].
    unfold cog21_shock.
    repeat split; field; repeat split; lra.
Qed.
