(* C03 for noh2cog: returned thermodynamic fields satisfy the declared EOS. P = Gamma rho T with Gamma = 1 class default *)
From Coq Require Import Reals Lra.
From EP Require Import lib.Base lib.Tactics gen.Noh2Cog.
Open Scope R_scope.

Lemma noh2cog_eos_proof :
  forall geometry gamma rho0 e0 r t,
  noh2cog_defined geometry gamma rho0 e0 r t ->
  noh2cog_density geometry gamma rho0 e0 r t <> 0 ->
  gamma - 1 <> 0 ->
  noh2cog_pressure geometry gamma rho0 e0 r t = 1 * (noh2cog_density geometry gamma rho0 e0 r t) * (noh2cog_temperature geometry gamma rho0 e0 r t) /\
  noh2cog_specific_internal_energy geometry gamma rho0 e0 r t = 1 * (noh2cog_temperature geometry gamma rho0 e0 r t) / (gamma - 1) /\
  noh2cog_pressure geometry gamma rho0 e0 r t = (gamma - 1) * (noh2cog_density geometry gamma rho0 e0 r t) * (noh2cog_specific_internal_energy geometry gamma rho0 e0 r t).
Proof. unfold noh2cog_defined. eos_solve. Qed.
