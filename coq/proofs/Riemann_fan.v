(* Ideal-gas Riemann solver: the rarefaction-fan formulas (rho_p_u_rarefaction) as the driver calls them
   for the left and for the right state are the centred simple wave, hence satisfy the planar Euler
   equations (C01); they depend on (x - xd0)/t only (C10). *)
From Coq Require Import Reals Lra Psatz FunctionalExtensionality.
From Coquelicot Require Import Coquelicot.
From EP Require Import lib.Base lib.Euler lib.Tactics lib.SimpleWave gen.Riemann.
Open Scope R_scope.

Definition fan_sie (g : R) (p rho : R -> R -> R) : R -> R -> R := fun x t => rie_sie (p x t) (rho x t) g.

Lemma fan_sie_sw : forall g P0 R0 u0 xd0 s, fan_sie g (sw_p g P0 R0 u0 xd0 s) (sw_rho g P0 R0 u0 xd0 s) = sw_e g P0 R0 u0 xd0 s.
Proof.
  intros. apply functional_extensionality; intro x; apply functional_extensionality; intro t.
  unfold fan_sie, rie_sie, sw_e. unfold Rdiv. ring.
Qed.

Lemma fanL_is_simple_wave : forall xd0 gl pl rl ul,
  (fun x t => rie_fanL_rho x xd0 t gl pl rl ul) = sw_rho gl pl rl ul xd0 1 /\
  (fun x t => rie_fanL_u x xd0 t gl pl rl ul) = sw_u gl pl rl ul xd0 1 /\
  (fun x t => rie_fanL_p x xd0 t gl pl rl ul) = sw_p gl pl rl ul xd0 1.
Proof.
  intros. repeat split; apply functional_extensionality; intro x; apply functional_extensionality; intro t;
    unfold rie_fanL_rho, rie_fanL_u, rie_fanL_p, sw_rho, sw_u, sw_p, sw_Y, sw_a.
  - f_equal. f_equal. unfold Rdiv. ring.
  - unfold Rdiv. ring.
  - f_equal. f_equal. unfold Rdiv. ring.
Qed.

Lemma fanR_is_simple_wave : forall xd0 gr pl pr rl rr ul ur, ~ (pr = pl /\ ur = ul /\ rr = rl) ->
  (fun x t => rie_fanR_rho x xd0 t gr pl pr rl rr ul ur) = sw_rho gr pr rr ur xd0 (-1) /\
  (fun x t => rie_fanR_u x xd0 t gr pl pr rl rr ul ur) = sw_u gr pr rr ur xd0 (-1) /\
  (fun x t => rie_fanR_p x xd0 t gr pl pr rl rr ul ur) = sw_p gr pr rr ur xd0 (-1).
Proof.
  intros xd0 gr pl pr rl rr ul ur Hd.
  repeat split; apply functional_extensionality; intro x; apply functional_extensionality; intro t;
    unfold rie_fanR_rho, rie_fanR_u, rie_fanR_p, sw_rho, sw_u, sw_p, sw_Y, sw_a;
    (destruct (Req_EM_T pr pl); [ destruct (Req_EM_T ur ul); [ destruct (Req_EM_T rr rl); [ exfalso; apply Hd; auto | ] | ] | ]).
  all: try (f_equal; f_equal; unfold Rdiv; ring).
  all: unfold Rdiv; ring.
Qed.

Lemma igeos_left_fan_euler_proof :
  forall xd0 gl pl rl ul x t, 0 < t -> 0 < pl -> 0 < rl -> 1 < gl ->
  0 < sw_Y gl pl rl ul xd0 1 x t ->
  euler_at 0 (fun x t => rie_fanL_rho x xd0 t gl pl rl ul) (fun x t => rie_fanL_u x xd0 t gl pl rl ul)
             (fun x t => rie_fanL_p x xd0 t gl pl rl ul)
             (fan_sie gl (fun x t => rie_fanL_p x xd0 t gl pl rl ul) (fun x t => rie_fanL_rho x xd0 t gl pl rl ul)) x t.
Proof.
  intros xd0 gl pl rl ul x t Ht Hp Hr Hg HY.
  destruct (fanL_is_simple_wave xd0 gl pl rl ul) as [E1 [E2 E3]].
  rewrite E1, E2, E3, fan_sie_sw.
  apply (simple_wave_euler gl pl rl ul xd0 1); try assumption. ring.
Qed.

Lemma igeos_right_fan_euler_proof :
  forall xd0 gr pl pr rl rr ul ur x t, 0 < t -> 0 < pr -> 0 < rr -> 1 < gr ->
  ~ (pr = pl /\ ur = ul /\ rr = rl) ->
  0 < sw_Y gr pr rr ur xd0 (-1) x t ->
  euler_at 0 (fun x t => rie_fanR_rho x xd0 t gr pl pr rl rr ul ur) (fun x t => rie_fanR_u x xd0 t gr pl pr rl rr ul ur)
             (fun x t => rie_fanR_p x xd0 t gr pl pr rl rr ul ur)
             (fan_sie gr (fun x t => rie_fanR_p x xd0 t gr pl pr rl rr ul ur) (fun x t => rie_fanR_rho x xd0 t gr pl pr rl rr ul ur)) x t.
Proof.
  intros xd0 gr pl pr rl rr ul ur x t Ht Hp Hr Hg Hd HY.
  destruct (fanR_is_simple_wave xd0 gr pl pr rl rr ul ur Hd) as [E1 [E2 E3]].
  rewrite E1, E2, E3, fan_sie_sw.
  apply (simple_wave_euler gr pr rr ur xd0 (-1)); try assumption. ring.
Qed.

(* isentropy: p / rho^gamma is the constant of the anchoring state throughout the fan *)
Lemma igeos_left_fan_isentropic_proof :
  forall xd0 gl pl rl ul x t, 0 < pl -> 0 < rl -> 1 < gl -> 0 < sw_Y gl pl rl ul xd0 1 x t ->
  rie_fanL_p x xd0 t gl pl rl ul / Rpower (rie_fanL_rho x xd0 t gl pl rl ul) gl = pl / Rpower rl gl.
Proof.
  intros xd0 gl pl rl ul x t Hp Hr Hg HY.
  destruct (fanL_is_simple_wave xd0 gl pl rl ul) as [E1 [E2 E3]].
  pose proof (f_equal (fun f => f x t) E1) as H1. pose proof (f_equal (fun f => f x t) E3) as H3.
  cbv beta in H1, H3. rewrite H1, H3. unfold sw_p, sw_rho.
  set (Y := sw_Y gl pl rl ul xd0 1 x t) in *.
  rewrite <- Rpower_mult_distr; [ | exact Hr | unfold Rpower; apply exp_pos ].
  rewrite Rpower_mult. replace (2 / (gl - 1) * gl) with (2 * gl / (gl - 1)) by (field; lra).
  assert (0 < Rpower Y (2 * gl / (gl - 1))) by (unfold Rpower; apply exp_pos).
  assert (0 < Rpower rl gl) by (unfold Rpower; apply exp_pos).
  field. split; lra.
Qed.
