(* C18 - Su-Olson: every integrand of the transform solution coded in suolson/timmes.py (generated: gen/SuOlson.v) is, as a
   function of (x, tau), a separated mode  A(eta) exp(s tau) sin(gamma x + theta)  whose (s, gamma) satisfy the dispersion
   relation of the non-equilibrium Marshak diffusion system and whose phase satisfies the homogeneous Marshak condition;
   the material partner of a mode is the mode divided by (1 + s); the dimensionalisation of so_wave is the documented one. *)
From Coq Require Import Reals Lra Psatz.
From Coquelicot Require Import Coquelicot.
From Interval Require Import Tactic.
From EP Require Import lib.Base lib.Tactics gen.SuOlson.
Open Scope R_scope.

(* ---- a separated mode of  eps u_t = u_xx + (v - u),  v_t = u - v ---- *)
Section Mode.
Variables eps s g th : R.
Definition mode_u (x t : R) : R := exp (s * t) * sin (g * x + th).
Definition mode_v (x t : R) : R := mode_u x t / (1 + s).

Theorem mode_solves_system : forall x t, 1 + s <> 0 -> g * g = - (eps * s + s / (1 + s)) ->
  exists ut ux uxx vt,
    is_derive (fun y => mode_u x y) t ut /\ is_derive (fun y => mode_u y t) x ux /\
    is_derive (fun y => g * (exp (s * t) * cos (g * y + th))) x uxx /\ ux = g * (exp (s * t) * cos (g * x + th)) /\
    is_derive (fun y => mode_v x y) t vt /\
    eps * ut = uxx + (mode_v x t - mode_u x t) /\ vt = mode_u x t - mode_v x t.
Proof.
  intros x t Hs Hdisp.
  exists (s * mode_u x t), (g * (exp (s * t) * cos (g * x + th))), (- (g * g) * mode_u x t), (s * mode_v x t).
  split; [ unfold mode_u; auto_derive; [ exact I | ring ] | ].
  split; [ unfold mode_u; auto_derive; [ exact I | ring ] | ].
  split; [ unfold mode_u; auto_derive; [ exact I | ring ] | ].
  split; [ reflexivity | ].
  split; [ unfold mode_v, mode_u; auto_derive; [ exact I | field; exact Hs ] | ].
  split.
  - rewrite Hdisp. unfold mode_v. field. exact Hs.
  - unfold mode_v. change (@eq R (s * (mode_u x t / (1 + s))) (mode_u x t - mode_u x t / (1 + s))). field. exact Hs.
Qed.

(* homogeneous Marshak condition  u - (2/sqrt 3) u_x = 0  at x = 0 for the coded phase *)
Theorem mode_marshak : forall t, 0 <= g -> th = acos (sqrt (3 / (3 + 4 * g ^ 2))) ->
  mode_u 0 t - 2 / sqrt 3 * (g * (exp (s * t) * cos (g * 0 + th))) = 0.
Proof.
  intros t Hg Hth. unfold mode_u. rewrite Rmult_0_r, Rplus_0_l.
  assert (Hq : 0 < 3 + 4 * g ^ 2) by nra.
  assert (Hy : 0 <= sqrt (3 / (3 + 4 * g ^ 2)) <= 1).
  { split; [ apply sqrt_pos | ]. rewrite <- sqrt_1. apply sqrt_le_1_alt.
    apply (Rmult_le_reg_r (3 + 4 * g ^ 2)); [ exact Hq | ]. replace (3 / (3 + 4 * g ^ 2) * (3 + 4 * g ^ 2)) with 3 by (field; lra). nra. }
  assert (Hc : cos th = sqrt (3 / (3 + 4 * g ^ 2))) by (rewrite Hth; apply cos_acos; lra).
  assert (Hs : sin th = 2 * g / sqrt (3 + 4 * g ^ 2)).
  { rewrite Hth, sin_acos by lra. rewrite Rsqr_sqrt by (apply Rlt_le, Rdiv_lt_0_compat; lra).
    replace (1 - 3 / (3 + 4 * g ^ 2)) with ((2 * g) ^ 2 / (3 + 4 * g ^ 2)) by (field; lra).
    rewrite sqrt_div_alt by exact Hq. f_equal. rewrite <- (sqrt_pow2 (2 * g)) at 2 by lra. reflexivity. }
  rewrite Hc, Hs. rewrite sqrt_div_alt by exact Hq.
  assert (H3 : 0 < sqrt 3) by (apply sqrt_lt_R0; lra).
  assert (Hq' : 0 < sqrt (3 + 4 * g ^ 2)) by (apply sqrt_lt_R0; exact Hq).
  field. split; lra.
Qed.
End Mode.

(* ---- the coded dispersion functions, inside the clamps ---- *)
Definition tiny14 : R := 1 / 100000000000000.
Definition inside (eta : R) : Prop := tiny14 <= eta <= 99999999999999 / 100000000000000.

Lemma ein_is_eta : forall eta, inside eta -> Rmax (1 / 100000000000000) (Rmin eta (99999999999999 / 100000000000000)) = eta.
Proof. intros eta (A & B). unfold tiny14 in A. rewrite Rmin_left by lra. rewrite Rmax_right by lra. reflexivity. Qed.

(* decay rates of the three families, as they appear in the coded integrands *)
Definition s_one (eta : R) : R := - (eta * eta).
Definition s_two (eta eps : R) : R := - 1 - 1 / (eta * eps).
Definition s_three (eta : R) : R := - (1 - eta * eta).

Lemma gamma_one_dispersion : forall eta eps, inside eta -> 0 < eps ->
  0 <= so_gamma_one eta eps /\
  so_gamma_one eta eps * so_gamma_one eta eps = - (eps * s_one eta + s_one eta / (1 + s_one eta)) /\ 1 + s_one eta <> 0.
Proof.
  intros eta eps Hin He. unfold so_gamma_one. rewrite (ein_is_eta eta Hin).
  destruct Hin as (A & B). unfold tiny14 in A.
  assert (H1 : 0 < 1 - eta * eta) by nra.
  assert (Hr : 0 <= eps + 1 / (1 - eta * eta)) by (apply Rlt_le; assert (0 < 1 / (1 - eta * eta)) by (apply Rdiv_lt_0_compat; lra); lra).
  repeat split.
  - apply Rmult_le_pos; [ lra | apply sqrt_pos ].
  - replace (eta * sqrt (eps + 1 / (1 - eta * eta)) * (eta * sqrt (eps + 1 / (1 - eta * eta))))
      with (eta * eta * (sqrt (eps + 1 / (1 - eta * eta)) * sqrt (eps + 1 / (1 - eta * eta)))) by ring.
    rewrite sqrt_sqrt by exact Hr. unfold s_one. field. lra.
  - unfold s_one. lra.
Qed.

Lemma gamma_two_dispersion : forall eta eps, inside eta -> 0 < eps ->
  0 <= so_gamma_two eta eps /\
  so_gamma_two eta eps * so_gamma_two eta eps = - (eps * s_two eta eps + s_two eta eps / (1 + s_two eta eps)) /\ 1 + s_two eta eps <> 0.
Proof.
  intros eta eps Hin He. unfold so_gamma_two. rewrite (ein_is_eta eta Hin).
  destruct Hin as (A & B). unfold tiny14 in A.
  assert (Hr : 0 <= (1 - eta) * (eps + 1 / eta)).
  { apply Rmult_le_pos; [ lra | ]. assert (0 < 1 / eta) by (apply Rdiv_lt_0_compat; lra). lra. }
  assert (Hee : 0 < eta * eps) by (apply Rmult_lt_0_compat; lra).
  repeat split.
  - apply sqrt_pos.
  - rewrite sqrt_sqrt by exact Hr. unfold s_two. field. repeat split; lra.
  - unfold s_two. assert (0 < 1 / (eta * eps)) by (apply Rdiv_lt_0_compat; lra). lra.
Qed.

Lemma gamma_three_dispersion : forall eta eps, inside eta -> 0 < eps ->
  0 <= so_gamma_three eta eps /\
  so_gamma_three eta eps * so_gamma_three eta eps = - (eps * s_three eta + s_three eta / (1 + s_three eta)) /\ 1 + s_three eta <> 0.
Proof.
  intros eta eps Hin He. unfold so_gamma_three. rewrite (ein_is_eta eta Hin).
  destruct Hin as (A & B). unfold tiny14 in A.
  assert (H1 : 0 < 1 - eta * eta) by nra. assert (H2 : 0 < eta * eta) by nra.
  assert (Hr : 0 <= (1 - eta * eta) * (eps + 1 / (eta * eta))).
  { apply Rmult_le_pos; [ lra | ]. assert (0 < 1 / (eta * eta)) by (apply Rdiv_lt_0_compat; lra). lra. }
  repeat split.
  - apply sqrt_pos.
  - rewrite sqrt_sqrt by exact Hr. unfold s_three. field. split; lra.
  - unfold s_three. lra.
Qed.

(* the coded phases are the Marshak phases of the coded gammas *)
Lemma theta_is_marshak_phase : forall eta eps,
  so_theta_one eta eps = acos (sqrt (3 / (3 + 4 * so_gamma_one eta eps ^ 2))) /\
  so_theta_two eta eps = acos (sqrt (3 / (3 + 4 * so_gamma_two eta eps ^ 2))) /\
  so_theta_three eta eps = acos (sqrt (3 / (3 + 4 * so_gamma_three eta eps ^ 2))).
Proof. intros. repeat split; reflexivity. Qed.

(* ---- the coded integrands are amplitude(eta) x mode(x, tau) ---- *)
Lemma upart1_is_mode : forall eta x tau eps,
  so_upart1 eta x tau eps =
  mode_u (s_one eta) (so_gamma_one eta eps) (so_theta_one eta eps) x tau
  / Rmax (1 / 100000000000000) (eta * sqrt (3 + 4 * so_gamma_one eta eps ^ 2)).
Proof.
  intros. unfold so_upart1, mode_u, s_one. fold (so_gamma_one eta eps).
  replace (- tau * eta * eta) with (- (eta * eta) * tau) by ring.
  replace (x * so_gamma_one eta eps) with (so_gamma_one eta eps * x) by ring. reflexivity.
Qed.

(* the factor exp(-tau) multiplying the second quadrature in usolution / vsolution belongs to the mode *)
Lemma upart2_is_mode : forall eta x tau eps, tiny14 <= eta * eps ->
  exp (- tau) * so_upart2 eta x tau eps =
  mode_u (s_two eta eps) (so_gamma_two eta eps) (so_theta_two eta eps) x tau
  / Rmax (1 / 100000000000000) (eta * (1 + eps * eta) * sqrt (3 + 4 * so_gamma_two eta eps ^ 2)).
Proof.
  intros eta x tau eps Hee. unfold tiny14 in Hee. unfold so_upart2, mode_u, s_two. fold (so_gamma_two eta eps).
  rewrite Rmax_right by lra.
  replace (x * so_gamma_two eta eps) with (so_gamma_two eta eps * x) by ring.
  replace (exp ((- 1 - 1 / (eta * eps)) * tau)) with (exp (- tau) * exp (- tau / (eta * eps))).
  2:{ rewrite <- exp_plus. f_equal.
      assert (eta <> 0) by (intro E; rewrite E, Rmult_0_l in Hee; lra).
      assert (eps <> 0) by (intro E; rewrite E, Rmult_0_r in Hee; lra).
      field. split; assumption. }
  unfold so_theta_two. fold (so_gamma_two eta eps). unfold Rdiv. ring.
Qed.

Lemma vpart1_is_mode : forall eta x tau eps,
  so_vpart1 eta x tau eps =
  mode_u (s_three eta) (so_gamma_three eta eps) (so_theta_three eta eps) x tau
  / Rmax (1 / 100000000000000) (sqrt (4 - eta * eta + 4 * eps * (eta * eta) * (1 - eta * eta))).
Proof.
  intros. unfold so_vpart1, mode_u, s_three. fold (so_gamma_three eta eps).
  replace (- tau * (1 - eta * eta)) with (- (1 - eta * eta) * tau) by ring.
  replace (x * so_gamma_three eta eps) with (so_gamma_three eta eps * x) by ring. reflexivity.
Qed.

(* amplitude consistency: v - u of the exp(-tau) family is -(1 + eps eta) = -(1 - 1/(1+s_two))... times the u integrand *)
Lemma vpart2_vs_upart2 : forall eta x tau eps, inside eta -> 0 < eps ->
  tiny14 <= eta * sqrt (3 + 4 * so_gamma_two eta eps ^ 2) ->
  so_vpart2 eta x tau eps = (1 + eps * eta) * so_upart2 eta x tau eps /\
  1 + eps * eta = - (1 / (1 + s_two eta eps) - 1).
Proof.
  intros eta x tau eps Hin He Hamp. destruct Hin as (A & B). unfold tiny14 in *.
  assert (Hq : 1 <= 1 + eps * eta) by nra.
  split.
  - unfold so_vpart2, so_upart2. fold (so_gamma_two eta eps).
    set (S := sqrt (3 + 4 * so_gamma_two eta eps ^ 2)) in *.
    assert (HS : 0 < eta * S) by lra.
    rewrite (Rmax_right _ (eta * S)) by lra.
    assert (eta * S <= eta * (1 + eps * eta) * S) by nra.
    rewrite (Rmax_right _ (eta * (1 + eps * eta) * S)) by lra.
    assert (S <> 0) by (intro E; rewrite E, Rmult_0_r in HS; lra).
    field. repeat split; try lra; try assumption.
  - unfold s_two. field. split; lra.
Qed.

(* the amplitude of the v-quadrature's first family is the image of upart1's under eta -> sqrt(1 - eta^2) *)
Lemma vpart1_amplitude : forall eta eps, inside eta -> 0 < eps ->
  sqrt (4 - eta * eta + 4 * eps * (eta * eta) * (1 - eta * eta)) = eta * sqrt (3 + 4 * so_gamma_three eta eps ^ 2).
Proof.
  intros eta eps Hin He.
  destruct (gamma_three_dispersion eta eps Hin He) as (_ & Hd & _).
  destruct Hin as (A & B). unfold tiny14 in A.
  replace (so_gamma_three eta eps ^ 2) with (so_gamma_three eta eps * so_gamma_three eta eps) by ring.
  rewrite Hd. unfold s_three.
  assert (H1 : 0 < eta * eta) by nra. assert (H2 : 0 < 1 - eta * eta) by nra.
  set (G2 := - (eps * - (1 - eta * eta) + - (1 - eta * eta) / (1 + - (1 - eta * eta)))).
  assert (HG : G2 = (1 - eta * eta) * (eps + 1 / (eta * eta))) by (unfold G2; field; lra).
  assert (HGp : 0 < G2).
  { rewrite HG. apply Rmult_lt_0_compat; [ lra | ]. assert (0 < 1 / (eta * eta)) by (apply Rdiv_lt_0_compat; lra). lra. }
  apply Rsqr_inj.
  - apply sqrt_pos.
  - apply Rmult_le_pos; [ lra | apply sqrt_pos ].
  - unfold Rsqr.
    replace (eta * sqrt (3 + 4 * G2) * (eta * sqrt (3 + 4 * G2))) with (eta * eta * (sqrt (3 + 4 * G2) * sqrt (3 + 4 * G2))) by ring.
    assert (Hp4 : 0 <= 4 - eta * eta + 4 * eps * (eta * eta) * (1 - eta * eta)).
    { assert (0 <= 4 * eps * (eta * eta) * (1 - eta * eta)) by (repeat apply Rmult_le_pos; lra). lra. }
    rewrite sqrt_sqrt by exact Hp4. rewrite sqrt_sqrt by lra. rewrite HG. field. lra.
Qed.

(* ---- dimensionalisation (so_wave) ---- *)
Definition clight : R := 29979245800.
Definition ssol : R := 567051 / 10000000000.
Definition asol : R := 4 * ssol / clight.
Definition kev : R := 8617385 / 100000000000.

Lemma so_wave_arguments : forall time zpos opac alpha, alpha <> 0 ->
  so_wave_epsilon alpha = 4 * asol / alpha /\
  so_wave_tau time opac alpha = 4 * asol * clight * opac * time / alpha /\
  (exists rt3, so_wave_xpos zpos opac = rt3 * opac * zpos /\ Rabs (rt3 - sqrt 3) <= 1 / 1000000000000000).
Proof.
  intros time zpos opac alpha Ha. unfold so_wave_epsilon, so_wave_tau, so_wave_xpos, asol, ssol, clight.
  split; [ field; exact Ha | split; [ field; exact Ha | ] ].
  exists (4330127018922193 / 2500000000000000). split; [ reflexivity | interval with (i_prec 80) ].
Qed.

(* radiation / material energy densities are u, v times the incoming energy density a T_bc^4 *)
Lemma so_wave_temperatures : forall tbc uans vans, 0 < tbc -> 0 < uans -> 0 < vans ->
  asol * (so_wave_trad_ev tbc uans / kev) ^ 4 = uans * (asol * (tbc / kev) ^ 4) /\
  asol * (so_wave_tmat_ev tbc vans / kev) ^ 4 = vans * (asol * (tbc / kev) ^ 4) /\
  so_wave_erad tbc uans = uans * (asol * (tbc / kev) ^ 4).
Proof.
  intros tbc uans vans Ht Hu Hv.
  assert (Hk : 0 < kev) by (unfold kev; lra).
  assert (Ha : 0 < asol) by (unfold asol, ssol, clight; lra).
  assert (P4 : forall y, 0 < y -> (Rpower y (1 / 4)) ^ 4 = y).
  { intros y Hy. rewrite <- Rpower_pow by (unfold Rpower; apply exp_pos). rewrite Rpower_mult.
    replace (1 / 4 * INR 4) with 1 by (simpl; field). apply Rpower_1. exact Hy. }
  unfold so_wave_trad_ev, so_wave_tmat_ev, so_wave_erad.
  change (567051 / 74948114500000000000) with (567051 / 74948114500000000000) in *.
  assert (Easol : asol = 567051 / 74948114500000000000) by (unfold asol, ssol, clight; field).
  assert (Ekev : kev = 1723477 / 20000000000) by (unfold kev; field).
  rewrite <- Easol, <- Ekev.
  assert (Hin : 0 < asol * (tbc / kev) ^ 4) by (apply Rmult_lt_0_compat; [ exact Ha | apply pow_lt; apply Rdiv_lt_0_compat; assumption ]).
  repeat split.
  - replace (Rpower (uans * (asol * (tbc / kev) ^ 4) / asol) (1 / 4) * kev / kev) with (Rpower (uans * (asol * (tbc / kev) ^ 4) / asol) (1 / 4)) by (field; lra).
    rewrite P4; [ field; lra | ]. apply Rdiv_lt_0_compat; [ apply Rmult_lt_0_compat; assumption | exact Ha ].
  - replace (Rpower (vans * (asol * (tbc / kev) ^ 4) / asol) (1 / 4) * kev / kev) with (Rpower (vans * (asol * (tbc / kev) ^ 4) / asol) (1 / 4)) by (field; lra).
    rewrite P4; [ field; lra | ]. apply Rdiv_lt_0_compat; [ apply Rmult_lt_0_compat; assumption | exact Ha ].
Qed.

(* ---- how the quadratures are combined: every family enters u and v as a mode and its material partner ---- *)
Definition rt3opi : R := 4330127018922193 / 2500000000000000 / PI.

Lemma combine_linear : forall uans sum1 sum2 tau,
  so_usolution_combine sum1 sum2 tau = 1 + (- 2 * rt3opi) * sum1 + (- rt3opi) * (exp (- tau) * sum2) /\
  so_vsolution_combine uans sum1 sum2 tau = uans + (- 2 * rt3opi) * sum1 + rt3opi * (exp (- tau) * sum2).
Proof. intros. unfold so_usolution_combine, so_vsolution_combine, rt3opi. split; ring. Qed.

(* family 2 (decay exp(-tau - tau/(eps eta))): u receives  U = -rt3opi exp(-tau) upart2, v - u receives +rt3opi exp(-tau) vpart2,
   and that is U (1/(1+s) - 1): the material partner of the mode is U / (1 + s) *)
Theorem family2_partner : forall eta x tau eps, inside eta -> 0 < eps ->
  tiny14 <= eta * sqrt (3 + 4 * so_gamma_two eta eps ^ 2) ->
  let U := (- rt3opi) * (exp (- tau) * so_upart2 eta x tau eps) in
  rt3opi * (exp (- tau) * so_vpart2 eta x tau eps) = U / (1 + s_two eta eps) - U.
Proof.
  intros eta x tau eps Hin He Hamp U.
  destruct (vpart2_vs_upart2 eta x tau eps Hin He Hamp) as (Hv & Hs).
  destruct (gamma_two_dispersion eta eps Hin He) as (_ & _ & Hn).
  unfold U. rewrite Hv.
  replace (rt3opi * (exp (- tau) * ((1 + eps * eta) * so_upart2 eta x tau eps)))
    with ((1 + eps * eta) * (rt3opi * (exp (- tau) * so_upart2 eta x tau eps))) by ring.
  rewrite Hs. field. exact Hn.
Qed.

(* families 1 and 3 are the same modes seen through eta1 = sqrt(1 - eta3^2): gamma, phase and decay rate coincide, and the
   v - u integrand (vpart1, weight -2 rt3opi like upart1) is upart1 times (1/(1+s) - 1) = eta1^2/(1-eta1^2) times |d eta1 / d eta3| *)
Theorem family13_partner : forall eta3 x tau eps, inside eta3 -> inside (sqrt (1 - eta3 * eta3)) -> 0 < eps ->
  tiny14 <= sqrt (4 - eta3 * eta3 + 4 * eps * (eta3 * eta3) * (1 - eta3 * eta3)) ->
  tiny14 <= sqrt (1 - eta3 * eta3) * sqrt (3 + 4 * so_gamma_one (sqrt (1 - eta3 * eta3)) eps ^ 2) ->
  let eta1 := sqrt (1 - eta3 * eta3) in
  s_one eta1 = s_three eta3 /\ so_gamma_one eta1 eps = so_gamma_three eta3 eps /\ so_theta_one eta1 eps = so_theta_three eta3 eps /\
  so_vpart1 eta3 x tau eps = so_upart1 eta1 x tau eps * (1 / (1 + s_one eta1) - 1) * (eta3 / eta1).
Proof.
  intros eta3 x tau eps Hin3 Hin1 He Hamp3 Hamp1 eta1.
  assert (H3 : tiny14 <= eta3 <= 99999999999999 / 100000000000000) by exact Hin3.
  unfold tiny14 in H3.
  assert (Hsq : 0 < 1 - eta3 * eta3) by nra.
  assert (He1 : eta1 * eta1 = 1 - eta3 * eta3) by (unfold eta1; apply sqrt_sqrt; lra).
  assert (He1p : 0 < eta1) by (unfold eta1; apply sqrt_lt_R0; exact Hsq).
  assert (Hs : s_one eta1 = s_three eta3) by (unfold s_one, s_three; rewrite He1; ring).
  destruct (gamma_one_dispersion eta1 eps Hin1 He) as (G1p & G1d & N1).
  destruct (gamma_three_dispersion eta3 eps Hin3 He) as (G3p & G3d & N3).
  assert (Hg : so_gamma_one eta1 eps = so_gamma_three eta3 eps).
  { apply Rsqr_inj; try assumption. unfold Rsqr. rewrite G1d, G3d, Hs. reflexivity. }
  assert (Hth : so_theta_one eta1 eps = so_theta_three eta3 eps).
  { destruct (theta_is_marshak_phase eta1 eps) as (T1 & _ & _). destruct (theta_is_marshak_phase eta3 eps) as (_ & _ & T3).
    rewrite T1, T3, Hg. reflexivity. }
  repeat split; try assumption.
  rewrite upart1_is_mode, vpart1_is_mode. fold eta1. rewrite Hs, Hg, Hth.
  fold eta1 in Hamp1. rewrite Hg in Hamp1.
  rewrite (vpart1_amplitude eta3 eps Hin3 He) in *.
  unfold tiny14 in Hamp1, Hamp3.
  rewrite (Rmax_right _ (eta3 * sqrt (3 + 4 * so_gamma_three eta3 eps ^ 2))) by lra.
  rewrite (Rmax_right _ (eta1 * sqrt (3 + 4 * so_gamma_three eta3 eps ^ 2))) by lra.
  set (M := mode_u (s_three eta3) (so_gamma_three eta3 eps) (so_theta_three eta3 eps) x tau).
  set (S := sqrt (3 + 4 * so_gamma_three eta3 eps ^ 2)) in *.
  assert (HS : S <> 0) by (intro E; rewrite E, Rmult_0_r in Hamp3; lra).
  unfold s_three. replace (1 + - (1 - eta3 * eta3)) with (eta3 * eta3) by ring.
  assert (eta3 <> 0) by lra.
  replace (1 / (eta3 * eta3) - 1) with (eta1 * eta1 / (eta3 * eta3)) by (rewrite He1; field; assumption).
  field. repeat split; try assumption; lra.
Qed.

Lemma inside_example : inside (1 / 2) /\ inside (sqrt (1 - 1 / 2 * (1 / 2))).
Proof.
  unfold inside, tiny14. split; [ lra | ]. split; interval with (i_prec 80).
Qed.
