(* C01 for Coggeshall 18.  *)
From Coq Require Import Reals Lra.
From Coquelicot Require Import Coquelicot.
From EP Require Import lib.Base lib.Euler lib.Tactics gen.Cog18.
Open Scope R_scope.

Lemma cog18_pde_proof :
  forall geometry alpha beta rho0 tau Gamma K0 r t,
  0 < r -> 0 < t -> t < tau -> 0 < rho0 -> 0 < Gamma -> alpha <> 0 -> geometry - 1 + 1 <> 0 -> 2 * alpha - 2 * beta - (geometry - 1) - 7 <> 0 -> 0 < alpha * tau ^ 2 / Gamma / (2 * alpha - 2 * beta - (geometry - 1) - 7) ->
  euler_heat_at (geometry - 1) K0 alpha beta
    (cog18_density geometry alpha beta rho0 tau Gamma)
    (cog18_velocity geometry alpha beta rho0 tau Gamma)
    (cog18_temperature geometry alpha beta rho0 tau Gamma)
    (cog18_pressure geometry alpha beta rho0 tau Gamma)
    (cog18_specific_internal_energy geometry alpha beta rho0 tau Gamma) r t.
Proof. intros. assert (0 < tau ^ 2 - t ^ 2) by nra; heat_solve 2. Qed.
