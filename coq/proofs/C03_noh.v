(* C03 for noh: returned thermodynamic fields satisfy the declared EOS. P = (gamma-1) rho e *)
From Coq Require Import Reals Lra.
From EP Require Import lib.Base lib.Tactics gen.Noh1.
Open Scope R_scope.

Lemma noh_eos_proof :
  forall geometry gamma u0 rho0 r t,
  noh_defined geometry gamma u0 rho0 r t ->
  noh_density geometry gamma u0 rho0 r t <> 0 ->
  gamma - 1 <> 0 ->
  noh_pressure geometry gamma u0 rho0 r t = (gamma - 1) * (noh_density geometry gamma u0 rho0 r t) * (noh_specific_internal_energy geometry gamma u0 rho0 r t).
Proof. unfold noh_defined. eos_solve. Qed.
