(* C03 for cog10: returned thermodynamic fields satisfy the declared EOS. P = Gamma rho T, e = Gamma T/(gamma-1) *)
From Coq Require Import Reals Lra.
From EP Require Import lib.Base lib.Tactics gen.Cog10.
Open Scope R_scope.

Lemma cog10_eos_proof :
  forall geometry gamma beta lambda0 rho0 temp0 Gamma r t,
  cog10_defined geometry gamma beta lambda0 rho0 temp0 Gamma r t ->
  cog10_density geometry gamma beta lambda0 rho0 temp0 Gamma r t <> 0 ->
  gamma - 1 <> 0 ->
  cog10_pressure geometry gamma beta lambda0 rho0 temp0 Gamma r t = Gamma * (cog10_density geometry gamma beta lambda0 rho0 temp0 Gamma r t) * (cog10_temperature geometry gamma beta lambda0 rho0 temp0 Gamma r t) /\
  cog10_specific_internal_energy geometry gamma beta lambda0 rho0 temp0 Gamma r t = Gamma * (cog10_temperature geometry gamma beta lambda0 rho0 temp0 Gamma r t) / (gamma - 1) /\
  cog10_pressure geometry gamma beta lambda0 rho0 temp0 Gamma r t = (gamma - 1) * (cog10_density geometry gamma beta lambda0 rho0 temp0 Gamma r t) * (cog10_specific_internal_energy geometry gamma beta lambda0 rho0 temp0 Gamma r t).
Proof. unfold cog10_defined. eos_solve. Qed.
