(* C03 for cog19: returned thermodynamic fields satisfy the declared EOS. P = Gamma rho T, e = Gamma T/(gamma-1) *)
From Coq Require Import Reals Lra.
From EP Require Import lib.Base lib.Tactics gen.Cog19.
Open Scope R_scope.

Lemma cog19_eos_proof :
  forall geometry gamma rho0 u0 Gamma r t,
  cog19_defined geometry gamma rho0 u0 Gamma r t ->
  cog19_density geometry gamma rho0 u0 Gamma r t <> 0 ->
  gamma - 1 <> 0 ->
  cog19_pressure geometry gamma rho0 u0 Gamma r t = Gamma * (cog19_density geometry gamma rho0 u0 Gamma r t) * (cog19_temperature geometry gamma rho0 u0 Gamma r t) /\
  cog19_specific_internal_energy geometry gamma rho0 u0 Gamma r t = Gamma * (cog19_temperature geometry gamma rho0 u0 Gamma r t) / (gamma - 1) /\
  cog19_pressure geometry gamma rho0 u0 Gamma r t = (gamma - 1) * (cog19_density geometry gamma rho0 u0 Gamma r t) * (cog19_specific_internal_energy geometry gamma rho0 u0 Gamma r t).
Proof. unfold cog19_defined. eos_solve. Qed.
