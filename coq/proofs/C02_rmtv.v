(* C02 for RMTV: the shock map of rmtv_1d (Kamm 2000, eq. 15), regenerated from the source, followed by the conversion tail of the same
   function, conserves mass and momentum across the isothermal shock and leaves the temperature continuous - for every pre-shock state the
   integrator may deliver (u <> 1, t <> 0), every gamma, Gruneisen coefficient, g0, and the similarity shock speed alpha r_s / time
   (r_s = zeta time^alpha; velocities carry the factor 1e8 cm/s per cm/sh, pressures 1e16 = its square). *)
From Coq Require Import Reals Lra Psatz.
From Coquelicot Require Import Coquelicot.
From EP Require Import lib.Base lib.Tactics gen.Rmtv.
Open Scope R_scope.

Lemma rmtv_shock_jump_proof :
  forall alpha bigamma gamma g0 kappa sigma rs time xis u1 h1 t1,
  0 < time -> 0 < rs -> alpha <> 0 -> gamma <> 1 -> t1 <> 0 -> u1 <> 1 ->
  let s := alpha * rs / time * 100000000 in
  let rhoA := rmtv_density g0 kappa rs sigma xis h1 in
  let uA := rmtv_velocity alpha rs time u1 in
  let pA := rmtv_pressure alpha g0 gamma kappa rs sigma time xis h1 t1 in
  let rhoB := rmtv_density g0 kappa rs sigma xis (rmtv_shock_y1 h1 t1 u1) in
  let uB := rmtv_velocity alpha rs time (rmtv_shock_y0 t1 u1) in
  let pB := rmtv_pressure alpha g0 gamma kappa rs sigma time xis (rmtv_shock_y1 h1 t1 u1) (rmtv_shock_y3 t1) in
  rhoB * (uB - s) = rhoA * (uA - s) /\
  pB + rhoB * (uB - s) ^ 2 = pA + rhoA * (uA - s) ^ 2 /\
  rmtv_temperature alpha bigamma rs time (rmtv_shock_y3 t1) = rmtv_temperature alpha bigamma rs time t1.
Proof.
  intros alpha bigamma gamma g0 kappa sigma rs time xis u1 h1 t1 Ht Hr Ha Hg Ht1 Hu1. cbv zeta.
  unfold rmtv_density, rmtv_velocity, rmtv_pressure, rmtv_temperature, rmtv_shock_y0, rmtv_shock_y1, rmtv_shock_y3.
  set (A := Rpower rs kappa). set (B := Rpower xis sigma). clearbody A B.
  repeat split; field; repeat split; lra.
Qed.

(* the shock is compressive when the flow ahead is supersonic relative to it in the isothermal sense: (1-u)^2 > t  =>  density rises *)
Lemma rmtv_shock_compressive_proof :
  forall h1 t1 u1, 0 < h1 -> 0 < t1 -> t1 < (1 - u1) ^ 2 -> h1 < rmtv_shock_y1 h1 t1 u1.
Proof.
  intros h1 t1 u1 Hh Ht Hs. unfold rmtv_shock_y1.
  assert (1 < (1 - u1) ^ 2 / t1).
  { apply Rmult_lt_reg_r with t1; [ exact Ht | ]. unfold Rdiv. rewrite Rmult_assoc, Rinv_l by lra. lra. }
  nra.
Qed.
