(* C01 for Noh: both smooth regions satisfy the Euler equations. *)
From Coq Require Import Reals Lra Psatz.
From Coquelicot Require Import Coquelicot.
From EP Require Import lib.Base lib.Euler lib.Tactics lib.Piecewise gen.Noh1.
Open Scope R_scope.

Definition noh_shock (gamma u0 t : R) : R := Rabs u0 * t * (gamma - 1) / 2.

Section Noh.
Variables geometry gamma u0 rho0 : R.
Hypothesis Hu0 : u0 < 0.
Hypothesis Hg : 1 < gamma.

Lemma noh_post_proof : forall r t, 0 < r -> 0 < t -> rho0 <> 0 -> r < noh_shock gamma u0 t ->
  euler_at (geometry - 1) (noh_density geometry gamma u0 rho0) (noh_velocity geometry gamma u0 rho0)
    (noh_pressure geometry gamma u0 rho0) (noh_specific_internal_energy geometry gamma u0 rho0) r t.
Proof.
  intros r t Hr Ht Hrho Hreg. unfold noh_shock in Hreg.
  euler_unfold. repeat match goal with |- _ /\ _ => split end;
  exders2 (fun y => y < Rabs u0 * t * (gamma - 1) / 2) (fun y => r < Rabs u0 * y * (gamma - 1) / 2);
  kill_ifs; fsolveA.
Qed.

Lemma noh_pre_proof : forall r t, 0 < r -> 0 < t -> rho0 <> 0 -> noh_shock gamma u0 t < r ->
  euler_at (geometry - 1) (noh_density geometry gamma u0 rho0) (noh_velocity geometry gamma u0 rho0)
    (noh_pressure geometry gamma u0 rho0) (noh_specific_internal_energy geometry gamma u0 rho0) r t.
Proof.
  intros r t Hr Ht Hrho Hreg. unfold noh_shock in Hreg.
  assert (Habs : Rabs u0 = - u0) by (apply Rabs_left; exact Hu0).
  assert (Hpos : 0 < 1 + - u0 * t * / r).
  { assert (0 < - u0 * t * / r); [ | lra ].
    apply Rmult_lt_0_compat; [ nra | apply Rinv_0_lt_compat; lra ]. }
  assert (Hpos' : 0 < 1 + - u0 * t / r) by exact Hpos.
  euler_unfold. rewrite Habs in *.
  repeat match goal with |- _ /\ _ => split end;
  exders2 (fun y => - u0 * t * (gamma - 1) / 2 < y) (fun y => - u0 * y * (gamma - 1) / 2 < r);
  kill_ifs; fsolveA.
Qed.
End Noh.
