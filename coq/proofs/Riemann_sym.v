(* Ideal-gas Riemann solver: mirror and Galilean symmetry of the star-pressure equations and of the
   wave-pattern thresholds (C09), contact conditions and fan-edge continuity (C02). *)
From Coq Require Import Reals Lra Psatz List.
From Coquelicot Require Import Coquelicot.
From EP Require Import lib.Base lib.Tactics gen.Riemann model.RiemannIG.
Open Scope R_scope.

(* mirror image: new left state = (pr, rr, -ur, gr), new right state = (pl, rl, -ul, gl) *)
Lemma igeos_mirror_calls_proof : forall px gl gr pl pr rl rr ul ur,
  rie_SCS_call px gr gl pr pl rr rl (- ur) (- ul) = rie_SCS_call px gl gr pl pr rl rr ul ur /\
  rie_RCR_call px gr gl pr pl rr rl (- ur) (- ul) = rie_RCR_call px gl gr pl pr rl rr ul ur /\
  rie_RCS_call px gr gl pr pl rr rl (- ur) (- ul) = rie_SCR_call px gl gr pl pr rl rr ul ur /\
  rie_SCR_call px gr gl pr pl rr rl (- ur) (- ul) = rie_RCS_call px gl gr pl pr rl rr ul ur.
Proof.
  intros. unfold rie_SCS_call, rie_RCR_call, rie_RCS_call, rie_SCR_call.
  repeat split; rewrite ?Ropp_involutive; ring.
Qed.

(* Galilean boost: the star-pressure equations see the velocities only through ur - ul *)
Lemma igeos_boost_calls_proof : forall v px gl gr pl pr rl rr ul ur,
  rie_SCS_call px gl gr pl pr rl rr (ul + v) (ur + v) = rie_SCS_call px gl gr pl pr rl rr ul ur /\
  rie_SCR_call px gl gr pl pr rl rr (ul + v) (ur + v) = rie_SCR_call px gl gr pl pr rl rr ul ur /\
  rie_RCS_call px gl gr pl pr rl rr (ul + v) (ur + v) = rie_RCS_call px gl gr pl pr rl rr ul ur /\
  rie_RCR_call px gl gr pl pr rl rr (ul + v) (ur + v) = rie_RCR_call px gl gr pl pr rl rr ul ur.
Proof.
  intros. unfold rie_SCS_call, rie_RCR_call, rie_RCS_call, rie_SCR_call.
  repeat split; ring.
Qed.

(* the thresholds of the wave-pattern chain shift with the boost, so the chosen pattern is unchanged *)
Lemma igeos_boost_classify_proof : forall v pl rl ul gl pr rr ur gr,
  ig_classify pl rl (ul + v) gl pr rr (ur + v) gr = ig_classify pl rl ul gl pr rr ur gr.
Proof.
  intros v pl rl ul gl pr rr ur gr. unfold ig_classify, ig_ul_tilde, ig_al.
  replace (rie_u_SCN pr (rie_sound_speed pl rl gl) gl pl (ul + v)) with (rie_u_SCN pr (rie_sound_speed pl rl gl) gl pl ul + v) by (unfold rie_u_SCN; ring).
  replace (rie_u_NCR pr gr pl rr (ul + v)) with (rie_u_NCR pr gr pl rr ul + v) by (unfold rie_u_NCR; ring).
  replace (rie_u_NCS pr gr pl rr (ul + v)) with (rie_u_NCS pr gr pl rr ul + v) by (unfold rie_u_NCS; ring).
  replace (rie_u_RCN pr (rie_sound_speed pl rl gl) gl pl (ul + v)) with (rie_u_RCN pr (rie_sound_speed pl rl gl) gl pl ul + v) by (unfold rie_u_RCN; ring).
  replace (rie_u_RCVR pr gr rr (ul + v + 2 * rie_sound_speed pl rl gl / (gl - 1)))
     with (rie_u_RCVR pr gr rr (ul + 2 * rie_sound_speed pl rl gl / (gl - 1)) + v) by (unfold rie_u_RCVR; ring).
  repeat match goal with
  | |- context [Rle_dec (?a + ?w) (?b + ?w)] =>
      destruct (Rle_dec (a + w) (b + w)); destruct (Rle_dec a b); try (exfalso; lra)
  end; destruct (Rle_dec pl pr); reflexivity.
Qed.

(* boosted wave speeds and star velocity shift by v, star densities do not change *)
Lemma igeos_boost_speeds_proof : forall v pl rl ul gl pr rr ur gr pat px,
  map (fun w => w + v) (ig_Vregs pl rl ul gl pr rr ur gr pat px) = ig_Vregs pl rl (ul + v) gl pr rr (ur + v) gr pat px /\
  ig_ux pl rl (ul + v) gl pat px = ig_ux pl rl ul gl pat px + v /\
  ig_rx1 pl rl gl pat px = ig_rx1 pl rl gl pat px.
Proof.
  intros v pl rl ul gl pr rr ur gr pat px. split; [ | split; [ | reflexivity ] ].
  - unfold ig_Vregs, ig_ux, ig_ax1, ig_ax2, ig_al, ig_ar, rie_shock_velocityL, rie_shock_velocityR.
    destruct pat; cbn [map]; cbv iota;
      repeat match goal with |- cons _ _ = cons _ _ => apply f_equal2 end; try reflexivity; try ring.
    all: repeat match goal with |- context [Req_EM_T (?a + ?w) (?b + ?w)] =>
           destruct (Req_EM_T (a + w) (b + w)); destruct (Req_EM_T a b); try (exfalso; lra) end;
         repeat match goal with |- context [Req_EM_T ?a ?b] => destruct (Req_EM_T a b) end; try ring.
  - unfold ig_ux. destruct pat; cbv beta iota; unfold rie_shock, rie_rarefaction; ring.
Qed.

(* contact: the two star regions carry the same pressure and velocity (read off the assembly) *)
Lemma igeos_contact_proof : forall (pl rl ul gl pr rr gr : R) pat (px e1 e2 x : R),
  f_p (star1 pl rl ul gl pat px e1) x = f_p (star2 pl rl ul gl pr rr gr pat px e2) x /\
  f_u (star1 pl rl ul gl pat px e1) x = f_u (star2 pl rl ul gl pr rr gr pat px e2) x.
Proof. intros. repeat split; reflexivity. Qed.

(* no jump at the head of a left fan: at x = xd0 + t (ul - al) the fan formulas return the left state *)
Lemma igeos_left_fan_head_proof : forall xd0 t pl rl ul gl, 0 < t -> 0 < pl -> 0 < rl -> 1 < gl ->
  let x := xd0 + t * (ul - rie_sound_speed pl rl gl) in
  rie_fanL_rho x xd0 t gl pl rl ul = rl /\ rie_fanL_p x xd0 t gl pl rl ul = pl /\ rie_fanL_u x xd0 t gl pl rl ul = ul.
Proof.
  intros xd0 t pl rl ul gl Ht Hp Hr Hg x. unfold x, rie_fanL_rho, rie_fanL_p, rie_fanL_u, rie_sound_speed.
  assert (Ha : 0 < sqrt (gl * pl / rl)) by (apply sqrt_lt_R0; apply Rdiv_lt_0_compat; nra).
  set (a := sqrt (gl * pl / rl)) in *.
  replace (2 / (gl + 1) + (gl - 1) / a / (gl + 1) * (ul - (xd0 + t * (ul - a) - xd0) / t)) with 1 by (field; lra).
  unfold Rpower. rewrite ln_1, !Rmult_0_r, exp_0. repeat split; try ring. field. lra.
Qed.
