(* C03 for cog18: returned thermodynamic fields satisfy the declared EOS. P = Gamma rho T, e = Gamma T/(gamma-1) with the built-in gamma = (((geometry - 1) + 3) / ((geometry - 1) + 1)) *)
From Coq Require Import Reals Lra.
From EP Require Import lib.Base lib.Tactics gen.Cog18.
Open Scope R_scope.

Lemma cog18_eos_proof :
  forall geometry alpha beta rho0 tau Gamma r t,
  cog18_defined geometry alpha beta rho0 tau Gamma r t ->
  cog18_density geometry alpha beta rho0 tau Gamma r t <> 0 ->
  (((geometry - 1) + 3) / ((geometry - 1) + 1)) - 1 <> 0 ->
  cog18_pressure geometry alpha beta rho0 tau Gamma r t = Gamma * (cog18_density geometry alpha beta rho0 tau Gamma r t) * (cog18_temperature geometry alpha beta rho0 tau Gamma r t) /\
  cog18_specific_internal_energy geometry alpha beta rho0 tau Gamma r t = Gamma * (cog18_temperature geometry alpha beta rho0 tau Gamma r t) / ((((geometry - 1) + 3) / ((geometry - 1) + 1)) - 1) /\
  cog18_pressure geometry alpha beta rho0 tau Gamma r t = ((((geometry - 1) + 3) / ((geometry - 1) + 1)) - 1) * (cog18_density geometry alpha beta rho0 tau Gamma r t) * (cog18_specific_internal_energy geometry alpha beta rho0 tau Gamma r t).
Proof. unfold cog18_defined. eos_solve. Qed.
