(* C16 (Steinberg / Mie-Gruneisen): the coded partial derivatives of the full closures P(rho,e) and e(rho,P) are their derivatives on both sides of the reference density. *)
From Coq Require Import Reals Lra Psatz.
From Coquelicot Require Import Coquelicot.
From EP Require Import lib.Base lib.Tactics lib.Piecewise gen.EosLibrary proofs.C16_eos.
Open Scope R_scope.

(* Mie-Gruneisen form P = P_inf + rho Gamma (e - e_inf): derivative in rho from the derivatives of the three reference curves *)
Lemma mie_gruneisen_dP_drho : forall (Pinf G Einf : R -> R) e x a b c,
  is_derive Pinf x a -> is_derive G x b -> is_derive Einf x c ->
  is_derive (fun y => Pinf y + y * G y * (e - Einf y)) x (a + e * (G x + x * b) - (G x * Einf x + x * (Einf x * b + G x * c))).
Proof.
  intros Pinf G Einf e x a b c HP HG HE.
  evar_last.
  - apply (is_derive_plus Pinf (fun y => y * G y * (e - Einf y)) x a); [ exact HP | ].
    apply (is_derive_mult (fun y => y * G y) (fun y => e - Einf y) x (1 * G x + x * b) (0 - c)).
    + apply (is_derive_mult (fun y => y) G x 1 b); [ apply (is_derive_id x) | exact HG | intros; apply Rmult_comm ].
    + apply (is_derive_minus (fun _ => e) Einf x 0 c); [ apply (is_derive_const e x) | exact HE ].
    + intros; apply Rmult_comm.
  - unfold plus, minus, opp, mult; simpl. match goal with |- ?p = ?q => change (@eq R p q) end. ring.
Qed.

(* e = (P - P_inf)/(rho Gamma) + e_inf: derivative in rho *)
Lemma mie_gruneisen_de_drho : forall (Pinf G Einf : R -> R) P x a b c, x <> 0 -> G x <> 0 ->
  is_derive Pinf x a -> is_derive G x b -> is_derive Einf x c ->
  is_derive (fun y => (P - Pinf y) / (y * G y) + Einf y) x
            ((- a * x * G x - (P - Pinf x) * (G x + b * x)) / (x ^ 2 * G x ^ 2) + c).
Proof.
  intros Pinf G Einf P x a b c Hx HGx HP HG HE.
  evar_last.
  - apply (is_derive_plus (fun y => (P - Pinf y) / (y * G y)) Einf x); [ | exact HE ].
    apply (is_derive_div (fun y => P - Pinf y) (fun y => y * G y) x (0 - a) (1 * G x + x * b)).
    + apply (is_derive_minus (fun _ => P) Pinf x 0 a); [ apply (is_derive_const P x) | exact HP ].
    + apply (is_derive_mult (fun y => y) G x 1 b); [ apply (is_derive_id x) | exact HG | intros; apply Rmult_comm ].
    + apply Rmult_integral_contrapositive_currified; assumption.
  - unfold plus, minus, opp, mult, scal; simpl. unfold mult; simpl. match goal with |- ?p = ?q => change (@eq R p q) end. field. split; assumption.
Qed.

Section Steinberg.
Variables rd rp rg b c0 s1 s2 s3 : R.
Let Pinf x := eos_st_P_inf x rd rp rg b c0 s1 s2 s3.
Let G x := eos_st_gruneisen x rd rp rg b c0 s1 s2 s3.
Let Einf x := eos_st_e_inf x rd rp rg b c0 s1 s2 s3.
Let dPinf x := eos_st_dPinf_drho x rd rp rg b c0 s1 s2 s3.
Let dG x := eos_st_dgru_drho x rd rp rg b c0 s1 s2 s3.
Let dEinf x := eos_st_deinf_drho x rd rp rg b c0 s1 s2 s3.

(* Gruneisen coefficient *)
Lemma st_dgru_expansion : forall rho, 0 < rho -> rho < rd -> is_derive G rho (dG rho).
Proof.
  intros rho H0 H1.
  apply (is_derive_loc_region (fun y => 0 < y /\ y < rd) _ (fun _ => rg)).
  - apply locally_and; [ apply (locally_gt_id_const 0 rho H0) | apply (locally_lt_id_const rd rho H1) ].
  - intros y [Hy0 Hy1]. unfold G, eos_st_gruneisen. destruct (Rle_dec (1 - rd / y) 0) as [_ | Hn]; [ reflexivity | ].
    exfalso. apply Hn. assert (1 < rd / y) by (apply (Rmult_lt_reg_r y); [ lra | ]; replace (rd / y * y) with rd by (field; lra); lra). lra.
  - unfold dG, eos_st_dgru_drho. destruct (Rle_dec (1 - rd / rho) 0) as [_ | Hn].
    + apply (is_derive_const rg rho).
    + exfalso. apply Hn. assert (1 < rd / rho) by (apply (Rmult_lt_reg_r rho); [ lra | ]; replace (rd / rho * rho) with rd by (field; lra); lra). lra.
Qed.

Lemma eta_pos : forall y, 0 < rd -> rd < y -> 0 < 1 - rd / y.
Proof.
  intros y H0 H1. assert (rd / y < 1) by (apply (Rmult_lt_reg_r y); [ lra | ]; replace (rd / y * y) with rd by (field; lra); lra). lra.
Qed.

Lemma st_dgru_compression : forall rho, 0 < rd -> rd < rho -> is_derive G rho (dG rho).
Proof.
  intros rho H0 H1.
  apply (is_derive_loc_region (fun y => rd < y) _ (fun y => rg * (1 - (1 - rd / y)) + b * (1 - rd / y))).
  - apply locally_gt_id_const. exact H1.
  - intros y Hy. unfold G, eos_st_gruneisen. destruct (Rle_dec (1 - rd / y) 0) as [Hle | _]; [ | reflexivity ].
    pose proof (eta_pos y H0 Hy). lra.
  - unfold dG, eos_st_dgru_drho. destruct (Rle_dec (1 - rd / rho) 0) as [Hle | _]; [ pose proof (eta_pos rho H0 H1); lra | ].
    auto_derive; [ lra | field; lra ].
Qed.

(* reference energy curve *)
Lemma st_deinf_expansion : forall rho, 0 < rho -> rho < rd -> is_derive Einf rho (dEinf rho).
Proof.
  intros rho H0 H1.
  apply (is_derive_loc_region (fun y => 0 < y /\ y < rd) _ (fun _ => 0)).
  - apply locally_and; [ apply (locally_gt_id_const 0 rho H0) | apply (locally_lt_id_const rd rho H1) ].
  - intros y [Hy0 Hy1]. unfold Einf, eos_st_e_inf. destruct (Rlt_dec y rd); [ reflexivity | lra ].
  - unfold dEinf, eos_st_deinf_drho. destruct (Rlt_dec rho rd); [ | lra ]. apply (is_derive_const 0 rho).
Qed.

Lemma st_einf_form : forall y, ~ y < rd -> Einf y = (1 - rd / y) * (Pinf y + rp) / (2 * rd).
Proof. intros y Hy. unfold Einf, eos_st_e_inf, Pinf, eos_st_P_inf. destruct (Rlt_dec y rd); [ contradiction | reflexivity ]. Qed.

Lemma st_deinf_form : forall y, ~ y < rd ->
  dEinf y = (rd / y ^ 2 * Pinf y + (1 - rd / y) * dPinf y + rp * (rd / y ^ 2)) / (2 * rd).
Proof. intros y Hy. unfold dEinf, eos_st_deinf_drho, Pinf, eos_st_P_inf, dPinf, eos_st_dPinf_drho. destruct (Rlt_dec y rd); [ contradiction | reflexivity ]. Qed.

Lemma st_deinf_compression : forall rho, 0 < rd -> rd < rho ->
  1 - s1 * (1 - rd / rho) - s2 * (1 - rd / rho) ^ 2 - s3 * (1 - rd / rho) ^ 3 <> 0 ->
  is_derive Einf rho (dEinf rho).
Proof.
  intros rho H0 H1 Hpoly.
  pose proof (eos_st_dPinf_compression_proof rd rp rg b c0 s1 s2 s3 rho H0 H1 Hpoly) as HP. fold Pinf in HP. fold (dPinf rho) in HP.
  apply (is_derive_loc_region (fun y => rd < y) _ (fun y => / (2 * rd) * ((1 - rd / y) * (Pinf y + rp)))).
  - apply locally_gt_id_const. exact H1.
  - intros y Hy. rewrite st_einf_form by lra. field. split; lra.
  - rewrite st_deinf_form by lra.
    evar_last.
    + apply (is_derive_scal (fun y => (1 - rd / y) * (Pinf y + rp)) rho (/ (2 * rd))).
      apply (is_derive_mult (fun y => 1 - rd / y) (fun y => Pinf y + rp) rho (rd / rho ^ 2) (dPinf rho + 0)).
      * auto_derive; [ lra | field; lra ].
      * apply (is_derive_plus Pinf (fun _ => rp) rho (dPinf rho) 0); [ exact HP | apply (is_derive_const rp rho) ].
      * intros; apply Rmult_comm.
    + unfold plus, mult, scal; simpl. unfold mult; simpl. match goal with |- ?p = ?q => change (@eq R p q) end. field. lra.
Qed.

(* the coded dP_drho is the rho-derivative of the coded P(rho, e) on both sides of the reference density *)
Lemma eos_st_dP_drho_expansion_proof : forall rho e, 0 < rho -> rho < rd ->
  is_derive (fun x => eos_st_P x e rd rp rg b c0 s1 s2 s3) rho (eos_st_dP_drho rho e rd rp rg b c0 s1 s2 s3).
Proof.
  intros rho e H0 H1.
  change (is_derive (fun x => Pinf x + x * G x * (e - Einf x)) rho
            (dPinf rho + e * (G rho + rho * dG rho) - (G rho * Einf rho + rho * (Einf rho * dG rho + G rho * dEinf rho)))).
  apply mie_gruneisen_dP_drho.
  - apply eos_st_dPinf_expansion_proof; assumption.
  - apply st_dgru_expansion; assumption.
  - apply st_deinf_expansion; assumption.
Qed.

Lemma eos_st_dP_drho_compression_proof : forall rho e, 0 < rd -> rd < rho ->
  1 - s1 * (1 - rd / rho) - s2 * (1 - rd / rho) ^ 2 - s3 * (1 - rd / rho) ^ 3 <> 0 ->
  is_derive (fun x => eos_st_P x e rd rp rg b c0 s1 s2 s3) rho (eos_st_dP_drho rho e rd rp rg b c0 s1 s2 s3).
Proof.
  intros rho e H0 H1 Hpoly.
  change (is_derive (fun x => Pinf x + x * G x * (e - Einf x)) rho
            (dPinf rho + e * (G rho + rho * dG rho) - (G rho * Einf rho + rho * (Einf rho * dG rho + G rho * dEinf rho)))).
  apply mie_gruneisen_dP_drho.
  - apply eos_st_dPinf_compression_proof; assumption.
  - apply st_dgru_compression; assumption.
  - apply st_deinf_compression; assumption.
Qed.

(* and dP_de is the e-derivative, for every rho *)
Lemma eos_st_dP_de_proof : forall rho e,
  is_derive (fun y => eos_st_P rho y rd rp rg b c0 s1 s2 s3) e (eos_st_dP_de rho e rd rp rg b c0 s1 s2 s3).
Proof.
  intros rho e.
  change (is_derive (fun y => Pinf rho + rho * G rho * (y - Einf rho)) e (rho * G rho)).
  auto_derive; [ exact I | ring ].
Qed.

Lemma st_e_form : forall x P, eos_st_e x P rd rp rg b c0 s1 s2 s3 = (P - Pinf x) / (x * G x) + Einf x.
Proof. intros. reflexivity. Qed.
Lemma st_de_drho_form : forall x P, eos_st_de_drho x P rd rp rg b c0 s1 s2 s3 =
  (- dPinf x * x * G x - (P - Pinf x) * (G x + dG x * x)) / (x ^ 2 * G x ^ 2) + dEinf x.
Proof. intros. reflexivity. Qed.

Lemma eos_st_de_drho_expansion_proof : forall rho P, 0 < rho -> rho < rd -> G rho <> 0 ->
  is_derive (fun x => eos_st_e x P rd rp rg b c0 s1 s2 s3) rho (eos_st_de_drho rho P rd rp rg b c0 s1 s2 s3).
Proof.
  intros rho P H0 H1 HG. rewrite st_de_drho_form.
  apply (is_derive_ext (fun x => (P - Pinf x) / (x * G x) + Einf x)); [ intros; symmetry; apply st_e_form | ].
  apply mie_gruneisen_de_drho; try assumption; try lra.
  - apply eos_st_dPinf_expansion_proof; assumption.
  - apply st_dgru_expansion; assumption.
  - apply st_deinf_expansion; assumption.
Qed.

Lemma eos_st_de_drho_compression_proof : forall rho P, 0 < rd -> rd < rho -> G rho <> 0 ->
  1 - s1 * (1 - rd / rho) - s2 * (1 - rd / rho) ^ 2 - s3 * (1 - rd / rho) ^ 3 <> 0 ->
  is_derive (fun x => eos_st_e x P rd rp rg b c0 s1 s2 s3) rho (eos_st_de_drho rho P rd rp rg b c0 s1 s2 s3).
Proof.
  intros rho P H0 H1 HG Hpoly. rewrite st_de_drho_form.
  apply (is_derive_ext (fun x => (P - Pinf x) / (x * G x) + Einf x)); [ intros; symmetry; apply st_e_form | ].
  apply mie_gruneisen_de_drho; try assumption; try lra.
  - apply eos_st_dPinf_compression_proof; assumption.
  - apply st_dgru_compression; assumption.
  - apply st_deinf_compression; assumption.
Qed.

Lemma eos_st_de_dP_proof : forall rho P, rho <> 0 -> G rho <> 0 ->
  is_derive (fun y => eos_st_e rho y rd rp rg b c0 s1 s2 s3) P (eos_st_de_dP rho P rd rp rg b c0 s1 s2 s3).
Proof.
  intros rho P Hr HG.
  change (is_derive (fun y => (y - Pinf rho) / (rho * G rho) + Einf rho) P (1 / (rho * G rho))).
  auto_derive; [ exact I | field; split; assumption ].
Qed.
End Steinberg.
