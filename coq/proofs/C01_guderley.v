(* C01 for Guderley (ramsey.py): IF the similarity variables V, C, R returned by the integrator solve the coded ODEs y' = g(x, y),
   THEN the physical fields that state() builds from them satisfy the Euler equations (mass, momentum, energy with F = 0) in the
   variables (r, tau), tau = Lazarus time, in geometry n = nu + 1 - for every gamma, lambda, rho0.
   The caller's time is t = factorC (tau + 1): the fields as functions of (r, t) do NOT satisfy the mass equation wherever the density
   changes in time (second theorem; known finding, the returned velocities are per unit of Lazarus time). *)
From Coq Require Import Reals Lra Psatz.
From Coquelicot Require Import Coquelicot.
From EP Require Import lib.Base lib.Tactics lib.Euler gen.Guderley.
Open Scope R_scope.

Ltac side := repeat match goal with |- _ /\ _ => split | |- True => exact I | |- ex_derive _ _ => eexists; eassumption | |- 0 < _ => assumption
  | |- exp _ <> 0 => apply Rgt_not_eq, exp_pos | |- _ / _ <> 0 => unfold Rdiv | |- _ * _ <> 0 => apply Rmult_integral_contrapositive_currified | |- / _ <> 0 => apply Rinv_neq_0_compat
  | |- _ <> 0 => first [ assumption | lra ] end.

Section GudPDE.
Variables rho0 gamma lambda_ nu : R.
Variables V C Rf : R -> R.
Definition xs (r tau : R) : R := tau / Rpower r lambda_.
Definition g_den (r tau : R) := gud_conv_den rho0 (Rf (xs r tau)).
Definition g_vel (r tau : R) := gud_conv_vel r lambda_ (xs r tau) (V (xs r tau)).
Definition g_prs (r tau : R) := gud_conv_pres r rho0 gamma lambda_ (xs r tau) (C (xs r tau)) (Rf (xs r tau)).
Definition g_sie (r tau : R) := gud_conv_sie r rho0 gamma lambda_ (xs r tau) (C (xs r tau)) (Rf (xs r tau)).

Variables r tau : R.
Hypothesis Hr : 0 < r.
Hypothesis Ht : tau <> 0.
Hypothesis Hr0 : rho0 <> 0.
Hypothesis Hg : gamma <> 0.
Hypothesis Hg1 : gamma - 1 <> 0.
Hypothesis Hl : lambda_ <> 0.
Let x := xs r tau.
Hypothesis HV : is_derive V x (gud_g_V x (V x) (C x) nu gamma lambda_).
Hypothesis HC : is_derive C x (gud_g_C x (V x) (C x) nu gamma lambda_).
Hypothesis HR : is_derive Rf x (gud_g_R x (V x) (C x) (Rf x) nu gamma lambda_).
Hypothesis Hs : C x * C x - (V x + 1) ^ 2 <> 0.
Hypothesis Hv : V x + 1 <> 0.
Hypothesis HRf : Rf x <> 0.

Lemma guderley_mass : mass_eq nu g_den g_vel r tau.
Proof.
  unfold mass_eq. eexists. eexists. eexists. split; [ | split; [ | split ] ].
  - unfold g_den, gud_conv_den, xs, Rpower. auto_derive; [ side | reflexivity ].
  - unfold g_den, gud_conv_den, xs, Rpower. auto_derive; [ side | reflexivity ].
  - unfold g_vel, gud_conv_vel, xs, Rpower. auto_derive; [ side | reflexivity ].
  - try (match goal with |- @eq _ ?a ?b => change (@eq R a b) end).
    change (fun x0 : R => Rf x0) with Rf; change (fun x0 : R => V x0) with V; change (fun x0 : R => C x0) with C.
    change (tau * / exp (lambda_ * ln r)) with x.
    rewrite ?(is_derive_unique _ _ _ HR), ?(is_derive_unique _ _ _ HV), ?(is_derive_unique _ _ _ HC).
    unfold g_vel, g_den, g_prs, g_sie, gud_conv_vel, gud_conv_den, gud_conv_pres, gud_conv_sie, gud_g_R, gud_g_V, gud_g_C; fold x.
    assert (Hq : exp ((1 - lambda_) * ln r) = r / exp (lambda_ * ln r)).
    { replace ((1 - lambda_) * ln r) with (ln r + - (lambda_ * ln r)) by ring. rewrite exp_plus, exp_Ropp, exp_ln by exact Hr. reflexivity. }
    unfold Rpower; rewrite ?Hq.
    assert (HE : exp (lambda_ * ln r) <> 0) by (apply Rgt_not_eq, exp_pos).
    unfold x, xs, Rpower in *.
    set (E := exp (lambda_ * ln r)) in *.
    set (v := V (tau / E)) in *; set (c := C (tau / E)) in *; set (R0 := Rf (tau / E)) in *.
    field. repeat split; first [ assumption | lra ].
Qed.

Lemma guderley_momentum : momentum_eq g_den g_vel g_prs r tau.
Proof.
  unfold momentum_eq. eexists. eexists. eexists. split; [ | split; [ | split ] ].
  - unfold g_vel, gud_conv_vel, xs, Rpower. auto_derive; [ side | reflexivity ].
  - unfold g_vel, gud_conv_vel, xs, Rpower. auto_derive; [ side | reflexivity ].
  - unfold g_prs, gud_conv_pres, xs, Rpower. auto_derive; [ side | reflexivity ].
  - try (match goal with |- @eq _ ?a ?b => change (@eq R a b) end).
    change (fun x0 : R => Rf x0) with Rf; change (fun x0 : R => V x0) with V; change (fun x0 : R => C x0) with C.
    change (tau * / exp (lambda_ * ln r)) with x.
    rewrite ?(is_derive_unique _ _ _ HR), ?(is_derive_unique _ _ _ HV), ?(is_derive_unique _ _ _ HC).
    unfold g_vel, g_den, g_prs, g_sie, gud_conv_vel, gud_conv_den, gud_conv_pres, gud_conv_sie, gud_g_R, gud_g_V, gud_g_C; fold x.
    assert (Hq : exp ((1 - lambda_) * ln r) = r / exp (lambda_ * ln r)).
    { replace ((1 - lambda_) * ln r) with (ln r + - (lambda_ * ln r)) by ring. rewrite exp_plus, exp_Ropp, exp_ln by exact Hr. reflexivity. }
    unfold Rpower; rewrite ?Hq.
    assert (HE : exp (lambda_ * ln r) <> 0) by (apply Rgt_not_eq, exp_pos).
    unfold x, xs, Rpower in *.
    set (E := exp (lambda_ * ln r)) in *.
    set (v := V (tau / E)) in *; set (c := C (tau / E)) in *; set (R0 := Rf (tau / E)) in *.
    field. repeat split; first [ assumption | lra ].
Qed.

Lemma guderley_energy : energy_eq nu g_den g_vel g_prs g_sie (fun _ _ => 0) r tau.
Proof.
  unfold energy_eq. eexists. eexists. eexists. eexists. split; [ | split; [ | split; [ | split ] ] ].
  - unfold g_sie, gud_conv_sie, xs, Rpower. auto_derive; [ side | reflexivity ].
  - unfold g_sie, gud_conv_sie, xs, Rpower. auto_derive; [ side | reflexivity ].
  - unfold g_vel, gud_conv_vel, xs, Rpower. auto_derive; [ side | reflexivity ].
  - auto_derive; [ exact I | reflexivity ].
  - try (match goal with |- @eq _ ?a ?b => change (@eq R a b) end).
    change (fun x0 : R => Rf x0) with Rf; change (fun x0 : R => V x0) with V; change (fun x0 : R => C x0) with C.
    change (tau * / exp (lambda_ * ln r)) with x.
    rewrite ?(is_derive_unique _ _ _ HR), ?(is_derive_unique _ _ _ HV), ?(is_derive_unique _ _ _ HC).
    unfold g_vel, g_den, g_prs, g_sie, gud_conv_vel, gud_conv_den, gud_conv_pres, gud_conv_sie, gud_g_R, gud_g_V, gud_g_C; fold x.
    assert (Hq : exp ((1 - lambda_) * ln r) = r / exp (lambda_ * ln r)).
    { replace ((1 - lambda_) * ln r) with (ln r + - (lambda_ * ln r)) by ring. rewrite exp_plus, exp_Ropp, exp_ln by exact Hr. reflexivity. }
    unfold Rpower; rewrite ?Hq.
    assert (HE : exp (lambda_ * ln r) <> 0) by (apply Rgt_not_eq, exp_pos).
    unfold x, xs, Rpower in *.
    set (E := exp (lambda_ * ln r)) in *.
    set (v := V (tau / E)) in *; set (c := C (tau / E)) in *; set (R0 := Rf (tau / E)) in *.
    field. repeat split; first [ assumption | lra ].
Qed.

Lemma guderley_euler_section : euler_at nu g_den g_vel g_prs g_sie r tau.
Proof. split; [ exact guderley_mass | split; [ exact guderley_momentum | exact guderley_energy ] ]. Qed.

(* ---- the caller's time: t = fC (tau + 1).  Same fields, read as functions of (r, t). ---- *)
Definition fCt : R := 375012161 / 500000000.
Definition lazarus (t : R) : R := t / fCt - 1.
Definition c_den (r' t : R) := g_den r' (lazarus t).
Definition c_vel (r' t : R) := g_vel r' (lazarus t).

Lemma guderley_caller_time_mass_refuted_section : forall t, lazarus t = tau ->
  gud_g_R x (V x) (C x) (Rf x) nu gamma lambda_ <> 0 ->
  ~ mass_eq nu c_den c_vel r t.
Proof.
  intros t Et HdR.
  destruct guderley_mass as (rt & rr & ur & D1 & D2 & D3 & E).
  assert (Hrt : rt = 1 * / exp (lambda_ * ln r) * gud_g_R x (V x) (C x) (Rf x) nu gamma lambda_ * rho0).
  { assert (D1' := D1). apply is_derive_unique in D1'. rewrite <- D1'. apply is_derive_unique.
    unfold g_den, gud_conv_den, xs, Rpower. auto_derive; [ side | ].
    change (fun x0 : R => Rf x0) with Rf. change (tau * / exp (lambda_ * ln r)) with x. rewrite (is_derive_unique _ _ _ HR). reflexivity. }
  apply (not_mass_eq nu c_den c_vel r t (rt * / fCt) rr ur).
  - unfold c_den. apply (is_derive_ext (fun t' => g_den r (lazarus t'))); [ reflexivity | ].
    replace (rt * / fCt) with (/ fCt * rt) by ring.
    apply (is_derive_comp (fun tau' => g_den r tau') lazarus t rt (/ fCt)); [ rewrite Et; exact D1 | ].
    unfold lazarus. auto_derive; [ exact I | unfold fCt; field ].
  - unfold c_den. rewrite Et. exact D2.
  - unfold c_vel. rewrite Et. exact D3.
  - unfold c_den, c_vel. rewrite Et.
    replace (rt * / fCt + g_vel r tau * rr + g_den r tau * ur + nu * g_den r tau * g_vel r tau / r)
      with (rt * (/ fCt - 1) + (rt + g_vel r tau * rr + g_den r tau * ur + nu * g_den r tau * g_vel r tau / r)) by ring.
    rewrite E, Rplus_0_r. apply Rmult_integral_contrapositive_currified; [ | unfold fCt; lra ].
    rewrite Hrt. side.
Qed.
End GudPDE.

Lemma guderley_euler_proof : forall rho0 gamma lambda_ nu (V C Rf : R -> R) r tau,
  0 < r -> tau <> 0 -> rho0 <> 0 -> gamma <> 0 -> gamma - 1 <> 0 -> lambda_ <> 0 ->
  let x := xs lambda_ r tau in
  is_derive V x (gud_g_V x (V x) (C x) nu gamma lambda_) ->
  is_derive C x (gud_g_C x (V x) (C x) nu gamma lambda_) ->
  is_derive Rf x (gud_g_R x (V x) (C x) (Rf x) nu gamma lambda_) ->
  C x * C x - (V x + 1) ^ 2 <> 0 -> V x + 1 <> 0 -> Rf x <> 0 ->
  euler_at nu (g_den rho0 lambda_ Rf) (g_vel lambda_ V) (g_prs rho0 gamma lambda_ C Rf) (g_sie rho0 gamma lambda_ C Rf) r tau.
Proof. intros. apply guderley_euler_section; assumption. Qed.

Lemma guderley_caller_time_mass_refuted_proof : forall rho0 gamma lambda_ nu (V C Rf : R -> R) r t,
  let tau := lazarus t in
  0 < r -> tau <> 0 -> rho0 <> 0 -> gamma <> 0 -> gamma - 1 <> 0 -> lambda_ <> 0 ->
  let x := xs lambda_ r tau in
  is_derive V x (gud_g_V x (V x) (C x) nu gamma lambda_) ->
  is_derive C x (gud_g_C x (V x) (C x) nu gamma lambda_) ->
  is_derive Rf x (gud_g_R x (V x) (C x) (Rf x) nu gamma lambda_) ->
  C x * C x - (V x + 1) ^ 2 <> 0 -> V x + 1 <> 0 -> Rf x <> 0 ->
  gud_g_R x (V x) (C x) (Rf x) nu gamma lambda_ <> 0 ->
  ~ mass_eq nu (c_den rho0 lambda_ Rf) (c_vel lambda_ V) r t.
Proof. intros. apply (guderley_caller_time_mass_refuted_section rho0 gamma lambda_ nu V C Rf r tau); try assumption. reflexivity. Qed.
