(* C08 (dimensional consistency) and C10 (self-similarity) for Noh and Noh2. *)
From Coq Require Import Reals Lra Psatz.
From EP Require Import lib.Base lib.Tactics gen.Noh1 gen.Noh2.
Open Scope R_scope.

(* units: mass mu, length ell, time tau (all > 0).  rho0 ~ M L^-3, u0 ~ L T^-1, r ~ L, t ~ T, gamma, geometry ~ 1 *)
Lemma noh_units_proof : forall mu ell tau geometry gamma u0 rho0 r t,
  0 < mu -> 0 < ell -> 0 < tau -> 0 < r ->
  let u0' := ell / tau * u0 in let rho0' := mu / ell ^ 3 * rho0 in
  noh_density geometry gamma u0' rho0' (ell * r) (tau * t) = mu / ell ^ 3 * noh_density geometry gamma u0 rho0 r t /\
  noh_velocity geometry gamma u0' rho0' (ell * r) (tau * t) = ell / tau * noh_velocity geometry gamma u0 rho0 r t /\
  noh_pressure geometry gamma u0' rho0' (ell * r) (tau * t) = mu / ell / tau ^ 2 * noh_pressure geometry gamma u0 rho0 r t /\
  noh_specific_internal_energy geometry gamma u0' rho0' (ell * r) (tau * t) = (ell / tau) ^ 2 * noh_specific_internal_energy geometry gamma u0 rho0 r t.
Proof.
  intros mu ell tau geometry gamma u0 rho0 r t Hmu Hell Htau Hr u0' rho0'. unfold u0', rho0'.
  assert (Hs : 0 < ell / tau) by (apply Rdiv_lt_0_compat; lra).
  assert (Habs : Rabs (ell / tau * u0) = ell / tau * Rabs u0) by (rewrite Rabs_mult, (Rabs_right (ell / tau)); [ reflexivity | lra ]).
  autounfold with epgen. rewrite Habs.
  replace (ell / tau * Rabs u0 * (tau * t) * (gamma - 1) / 2) with (ell * (Rabs u0 * t * (gamma - 1) / 2)) by (field; lra).
  replace (1 + ell / tau * Rabs u0 * (tau * t) / (ell * r)) with (1 + Rabs u0 * t / r) by (field; lra).
  set (S := Rabs u0 * t * (gamma - 1) / 2).
  destruct (Rlt_dec (ell * r) (ell * S)) as [H1 | H1]; destruct (Rlt_dec r S) as [H2 | H2].
  - repeat split; field; lra.
  - exfalso. apply H2. apply (Rmult_lt_reg_l ell); assumption.
  - exfalso. apply H1. apply Rmult_lt_compat_l; assumption.
  - repeat split; field; lra.
Qed.

(* self-similarity: the Noh fields depend on (r, t) through r/t only *)
Lemma noh_selfsimilar_proof : forall lam geometry gamma u0 rho0 r t,
  0 < lam -> 0 < r ->
  noh_density geometry gamma u0 rho0 (lam * r) (lam * t) = noh_density geometry gamma u0 rho0 r t /\
  noh_velocity geometry gamma u0 rho0 (lam * r) (lam * t) = noh_velocity geometry gamma u0 rho0 r t /\
  noh_pressure geometry gamma u0 rho0 (lam * r) (lam * t) = noh_pressure geometry gamma u0 rho0 r t /\
  noh_specific_internal_energy geometry gamma u0 rho0 (lam * r) (lam * t) = noh_specific_internal_energy geometry gamma u0 rho0 r t.
Proof.
  intros lam geometry gamma u0 rho0 r t Hl Hr.
  autounfold with epgen.
  replace (Rabs u0 * (lam * t) * (gamma - 1) / 2) with (lam * (Rabs u0 * t * (gamma - 1) / 2)) by field.
  replace (1 + Rabs u0 * (lam * t) / (lam * r)) with (1 + Rabs u0 * t / r) by (field; lra).
  set (S := Rabs u0 * t * (gamma - 1) / 2).
  destruct (Rlt_dec (lam * r) (lam * S)) as [H1 | H1]; destruct (Rlt_dec r S) as [H2 | H2]; try (repeat split; reflexivity).
  - exfalso. apply H2. apply (Rmult_lt_reg_l lam); assumption.
  - exfalso. apply H1. apply Rmult_lt_compat_l; assumption.
Qed.

(* Noh2: rho0 ~ M L^-3, e0 ~ L^2 T^-2; time enters only as the dimensionless 1 - t (collapse time = 1),
   so the admissible unit changes are those of mass and length with time fixed by the unit collapse time *)
Lemma noh2_units_proof : forall mu ell geometry gamma rho0 e0 r t,
  0 < mu -> 0 < ell -> t < 1 ->
  noh2_density geometry gamma (mu / ell ^ 3 * rho0) (ell ^ 2 * e0) (ell * r) t = mu / ell ^ 3 * noh2_density geometry gamma rho0 e0 r t /\
  noh2_velocity geometry gamma (mu / ell ^ 3 * rho0) (ell ^ 2 * e0) (ell * r) t = ell * noh2_velocity geometry gamma rho0 e0 r t /\
  noh2_pressure geometry gamma (mu / ell ^ 3 * rho0) (ell ^ 2 * e0) (ell * r) t = mu / ell * noh2_pressure geometry gamma rho0 e0 r t /\
  noh2_specific_internal_energy geometry gamma (mu / ell ^ 3 * rho0) (ell ^ 2 * e0) (ell * r) t = ell ^ 2 * noh2_specific_internal_energy geometry gamma rho0 e0 r t.
Proof.
  intros mu ell geometry gamma rho0 e0 r t Hmu Hell Ht.
  autounfold with epgen.
  assert (HA : 0 < Rpower (1 - t) geometry) by (unfold Rpower; apply exp_pos).
  assert (HB : 0 < Rpower (1 - t) ((gamma - 1) * geometry)) by (unfold Rpower; apply exp_pos).
  repeat split; field; repeat split; lra.
Qed.
