(* C03 for cog1: returned thermodynamic fields satisfy the declared EOS. P = Gamma rho T, e = Gamma T/(gamma-1) *)
From Coq Require Import Reals Lra.
From EP Require Import lib.Base lib.Tactics gen.Cog1.
Open Scope R_scope.

Lemma cog1_eos_proof :
  forall geometry gamma rho0 temp0 b Gamma r t,
  cog1_defined geometry gamma rho0 temp0 b Gamma r t ->
  cog1_density geometry gamma rho0 temp0 b Gamma r t <> 0 ->
  gamma - 1 <> 0 ->
  cog1_pressure geometry gamma rho0 temp0 b Gamma r t = Gamma * (cog1_density geometry gamma rho0 temp0 b Gamma r t) * (cog1_temperature geometry gamma rho0 temp0 b Gamma r t) /\
  cog1_specific_internal_energy geometry gamma rho0 temp0 b Gamma r t = Gamma * (cog1_temperature geometry gamma rho0 temp0 b Gamma r t) / (gamma - 1) /\
  cog1_pressure geometry gamma rho0 temp0 b Gamma r t = (gamma - 1) * (cog1_density geometry gamma rho0 temp0 b Gamma r t) * (cog1_specific_internal_energy geometry gamma rho0 temp0 b Gamma r t).
Proof. unfold cog1_defined. eos_solve. Qed.
