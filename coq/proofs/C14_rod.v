From Coq Require Import Reals Lra Lia Psatz FunctionalExtensionality.
From Coquelicot Require Import Coquelicot.
From EP Require Import lib.Base lib.Series lib.Piecewise gen.Heat.
Open Scope R_scope.

(* derivatives of one series term *)
Definition rod_term_x (a b kappa k t x : R) : R := (- a * k * sin (k * x) + b * k * cos (k * x)) * exp (- kappa * k ^ 2 * t).

Lemma rod_term_dx : forall a b kappa k t x, is_derive (fun y => rod_term a b kappa k t y) x (rod_term_x a b kappa k t x).
Proof. intros. unfold rod_term, rod_term_x. auto_derive; try exact I. replace (- kappa * (k * (k * 1)) * t) with (- kappa * k ^ 2 * t) by ring. ring. Qed.

Lemma rod_term_dxx : forall a b kappa k t x, is_derive (fun y => rod_term_x a b kappa k t y) x (- k ^ 2 * rod_term a b kappa k t x).
Proof. intros. unfold rod_term, rod_term_x. auto_derive; try exact I. replace (- kappa * (k * (k * 1)) * t) with (- kappa * k ^ 2 * t) by ring. ring. Qed.

Lemma rod_term_dt : forall a b kappa k t x, is_derive (fun s => rod_term a b kappa k s x) t (- kappa * k ^ 2 * rod_term a b kappa k t x).
Proof. intros. unfold rod_term. auto_derive; try exact I. replace (- kappa * (k * (k * 1)) * t) with (- kappa * k ^ 2 * t) by ring. ring. Qed.

(* the series part satisfies the heat equation term by term, for any coefficients, mode numbers and number of terms *)
Lemma rod_series_heat : forall (A B k : R -> R) kappa lo hi x t,
  let U := fun y s => sum_range (fun n => rod_term (A n) (B n) kappa (k n) s y) lo hi in
  exists (Ux : R -> R) (Uxx Ut : R),
    (forall y, is_derive (fun z => U z t) y (Ux y)) /\ is_derive Ux x Uxx /\ is_derive (fun s => U x s) t Ut /\ Ut = kappa * Uxx.
Proof.
  intros A B k kappa lo hi x t U.
  exists (fun y => sum_range (fun n => rod_term_x (A n) (B n) kappa (k n) t y) lo hi),
         (sum_range (fun n => - k n ^ 2 * rod_term (A n) (B n) kappa (k n) t x) lo hi),
         (sum_range (fun n => - kappa * k n ^ 2 * rod_term (A n) (B n) kappa (k n) t x) lo hi).
  split; [ | split; [ | split ] ].
  - intros y. unfold U. apply (is_derive_sum_range (fun n z => rod_term (A n) (B n) kappa (k n) t z)). intros n. apply rod_term_dx.
  - apply (is_derive_sum_range (fun n z => rod_term_x (A n) (B n) kappa (k n) t z)). intros n. apply rod_term_dxx.
  - unfold U. apply (is_derive_sum_range (fun n s => rod_term (A n) (B n) kappa (k n) s x)). intros n. apply rod_term_dt.
  - rewrite <- sum_range_scal. apply sum_range_ext. intros n. ring.
Qed.

(* static part with constant slope + series: the heat equation holds exactly, for every truncation order *)
Lemma affine_plus_series_heat : forall (st : R -> R) c1 (A B k : R -> R) kappa lo hi x t,
  (forall y, is_derive st y c1) ->
  let T := fun y s => st y + sum_range (fun n => rod_term (A n) (B n) kappa (k n) s y) lo hi in
  exists (Tx : R -> R) (Txx Tt : R),
    (forall y, is_derive (fun z => T z t) y (Tx y)) /\ is_derive Tx x Txx /\ is_derive (fun s => T x s) t Tt /\ Tt = kappa * Txx.
Proof.
  intros st c1 A B k kappa lo hi x t Hst T.
  destruct (rod_series_heat A B k kappa lo hi x t) as (Ux & Uxx & Ut & H1 & H2 & H3 & H4).
  exists (fun y => c1 + Ux y), Uxx, Ut.
  split; [ | split; [ | split ] ].
  - intros y. unfold T. apply (is_derive_plus st); [ apply Hst | apply H1 ].
  - replace Uxx with (0 + Uxx) by ring. apply (is_derive_plus (fun _ => c1) Ux); [ apply (is_derive_const c1 x) | exact H2 ].
  - unfold T. replace Ut with (0 + Ut) by ring.
    apply (is_derive_plus (fun _ => st x) (fun s => sum_range (fun n => rod_term (A n) (B n) kappa (k n) s x) lo hi)); [ apply (is_derive_const (st x) t) | exact H3 ].
  - exact H4.
Qed.


Lemma affine_plus_series_dx : forall (st : R -> R) c1 (A B k : R -> R) kappa lo hi t y,
  is_derive st y c1 ->
  is_derive (fun z => st z + sum_range (fun n => rod_term (A n) (B n) kappa (k n) t z) lo hi) y
            (c1 + sum_range (fun n => rod_term_x (A n) (B n) kappa (k n) t y) lo hi).
Proof.
  intros. apply (is_derive_plus st); [ assumption | ].
  apply (is_derive_sum_range (fun n z => rod_term (A n) (B n) kappa (k n) t z)). intros n. apply rod_term_dx.
Qed.

(* ---- t -> infinity *)
Lemma exp_decay_lim : forall c, 0 < c -> is_lim (fun t => exp (- c * t)) p_infty 0.
Proof.
  intros c Hc.
  apply (is_lim_comp exp (fun t => - c * t) p_infty 0 m_infty).
  - apply is_lim_exp_m.
  - replace m_infty with (Rbar_mult (Finite (- c)) p_infty).
    + apply (is_lim_scal_l (fun t => t) (- c) p_infty p_infty). apply is_lim_id.
    + simpl. destruct (Rle_dec 0 (- c)) as [H | H]; [ exfalso; lra | reflexivity ].
  - exists 0. intros y _ Hy. discriminate Hy.
Qed.

Lemma rod_term_lim : forall a b kappa k x, 0 < kappa ->
  is_lim (fun t => rod_term a b kappa k t x) p_infty (Finite (if Req_EM_T k 0 then a else 0)).
Proof.
  intros a b kappa k x Hk. unfold rod_term. destruct (Req_EM_T k 0) as [H0 | H0].
  - subst k. apply (is_lim_ext (fun _ => a)); [ | apply is_lim_const ].
    intros t. rewrite !Rmult_0_l, cos_0, sin_0. replace (- kappa * 0 ^ 2 * t) with 0 by ring. rewrite exp_0. ring.
  - apply (is_lim_ext (fun t => (a * cos (k * x) + b * sin (k * x)) * exp (- (kappa * k ^ 2) * t))).
    + intros t. f_equal. f_equal. ring.
    + replace (Finite 0) with (Rbar_mult (Finite (a * cos (k * x) + b * sin (k * x))) (Finite 0)) by (simpl; f_equal; ring).
      apply is_lim_scal_l. apply exp_decay_lim.
      apply Rmult_lt_0_compat; [ exact Hk | ]. apply pow2_gt_0. exact H0.
Qed.

Lemma is_lim_sum_from : forall (f : R -> R -> R) (l : R -> R) s len,
  (forall n : nat, is_lim (fun t => f (INR n) t) p_infty (l (INR n))) ->
  is_lim (fun t => sum_from (fun n => f n t) s len) p_infty (sum_from l s len).
Proof.
  intros f l s len H. revert s. induction len as [|len IH]; intros s; simpl.
  - apply is_lim_const.
  - apply (is_lim_plus' (fun t => f (INR s) t) (fun t => sum_from (fun n => f n t) (S s) len)); [ apply H | apply IH ].
Qed.

Lemma rod_series_lim : forall (A B k : R -> R) kappa lo hi x, 0 < kappa ->
  is_lim (fun t => sum_range (fun n => rod_term (A n) (B n) kappa (k n) t x) lo hi) p_infty
         (sum_range (fun n => if Req_EM_T (k n) 0 then A n else 0) lo hi).
Proof.
  intros. unfold sum_range.
  apply (is_lim_sum_from (fun n t => rod_term (A n) (B n) kappa (k n) t x) (fun n => if Req_EM_T (k n) 0 then A n else 0)).
  intros n. apply rod_term_lim. assumption.
Qed.

(* ---- Fourier coefficients of an affine profile on [0, L] *)
Lemma RInt_affine_sin : forall c0 c1 k L, k <> 0 ->
  is_RInt (fun x => (c0 + c1 * x) * sin (k * x)) 0 L
    ((- (c0 + c1 * L) * cos (k * L) / k + c1 * sin (k * L) / k ^ 2) - (- c0 / k)).
Proof.
  intros c0 c1 k L Hk.
  replace (- c0 / k) with (- (c0 + c1 * 0) * cos (k * 0) / k + c1 * sin (k * 0) / k ^ 2)
    by (rewrite !Rmult_0_r, cos_0, sin_0; field; exact Hk).
  apply (is_RInt_derive (fun x => - (c0 + c1 * x) * cos (k * x) / k + c1 * sin (k * x) / k ^ 2) (fun x => (c0 + c1 * x) * sin (k * x))).
  - intros x _. auto_derive; [ exact I | ]. field. exact Hk.
  - intros x _. apply continuous_of_ex_derive. auto_derive. exact I.
Qed.

Lemma RInt_affine_cos : forall c0 c1 k L, k <> 0 ->
  is_RInt (fun x => (c0 + c1 * x) * cos (k * x)) 0 L
    (((c0 + c1 * L) * sin (k * L) / k + c1 * cos (k * L) / k ^ 2) - (c1 / k ^ 2)).
Proof.
  intros c0 c1 k L Hk.
  replace (c1 / k ^ 2) with ((c0 + c1 * 0) * sin (k * 0) / k + c1 * cos (k * 0) / k ^ 2)
    by (rewrite !Rmult_0_r, cos_0, sin_0; field; exact Hk).
  apply (is_RInt_derive (fun x => (c0 + c1 * x) * sin (k * x) / k + c1 * cos (k * x) / k ^ 2) (fun x => (c0 + c1 * x) * cos (k * x))).
  - intros x _. auto_derive; [ exact I | ]. field. exact Hk.
  - intros x _. apply continuous_of_ex_derive. auto_derive. exact I.
Qed.

(* ======================================================================= BC1: T(0) and T(L) prescribed *)
Section BC1.
Variables L Nsum TL TR alpha1 alpha2 gamma1 gamma2 kappa : R.
Hypothesis Ha1 : alpha1 <> 0.
Hypothesis Ha2 : alpha2 <> 0.
Hypothesis HL : L <> 0.
Let T := fun x t => rod_bc1_temperature L Nsum TL TR alpha1 alpha2 gamma1 gamma2 kappa x t.
Let st := rod_bc1_static L TL TR alpha1 alpha2 gamma1 gamma2.
Let A := rod_bc1_An L TL TR alpha1 alpha2 gamma1 gamma2.
Let B := rod_bc1_Bn L TL TR alpha1 alpha2 gamma1 gamma2.
Let k := rod_bc1_kn L TL TR alpha1 alpha2 gamma1 gamma2.

Lemma rod_bc1_heat_equation_proof : forall x t,
  exists (Tx : R -> R) (Txx Tt : R),
    (forall y, is_derive (fun z => T z t) y (Tx y)) /\ is_derive Tx x Txx /\ is_derive (fun s => T x s) t Tt /\ Tt = kappa * Txx.
Proof.
  intros x t. unfold T, rod_bc1_temperature.
  apply (affine_plus_series_heat st ((gamma2 / alpha2 - gamma1 / alpha1) / L)).
  intros y. unfold st, rod_bc1_static. auto_derive; [ exact I | field; auto ].
Qed.

Lemma rod_bc1_boundary_proof : forall t, T 0 t = gamma1 / alpha1 /\ T L t = gamma2 / alpha2.
Proof.
  intros t. unfold T, rod_bc1_temperature. split.
  - rewrite sum_range_zero.
    + unfold rod_bc1_static. field. auto.
    + intros n. unfold rod_term, rod_bc1_An. rewrite Rmult_0_r, sin_0. ring.
  - rewrite sum_range_zero.
    + unfold rod_bc1_static. field. auto.
    + intros n. unfold rod_term, rod_bc1_An, rod_bc1_kn.
      replace (INR n * PI / L * L) with (INR n * PI) by (field; exact HL). rewrite sin_INR_PI. ring.
Qed.

Lemma rod_bc1_steady_proof : forall x, 0 < kappa -> is_lim (fun t => T x t) p_infty (st x).
Proof.
  intros x Hk. unfold T, rod_bc1_temperature. fold st.
  evar_last.
  - apply (is_lim_plus' (fun _ => st x) (fun t => sum_range (fun n => rod_term (A n) (B n) kappa (k n) t x) 0 Nsum) p_infty (st x)
             (sum_range (fun n => if Req_EM_T (k n) 0 then A n else 0) 0 Nsum)); [ apply is_lim_const | apply (rod_series_lim A B k kappa 0 Nsum x Hk) ].
  - rewrite sum_range_zero; [ f_equal; ring | ]. intros n. unfold A, rod_bc1_An. destruct (Req_EM_T _ _); reflexivity.
Qed.

(* the coefficients are the sine-Fourier coefficients of (initial profile - static part):  int_0^L (T0 - static) sin(k_m x) dx = (L/2) B_m *)
Lemma rod_bc1_fourier_proof : forall m : nat, (1 <= m)%nat ->
  is_RInt (fun x => (TL + (TR - TL) * x / L - st x) * sin (k (INR m) * x)) 0 L (L / 2 * B (INR m)).
Proof.
  intros m Hm.
  assert (Hm0 : INR m <> 0) by (apply not_0_INR; lia).
  assert (Hk : k (INR m) <> 0).
  { unfold k, rod_bc1_kn, Rdiv. apply Rmult_integral_contrapositive_currified; [ apply Rmult_integral_contrapositive_currified; [ exact Hm0 | apply PI_neq0 ] | apply Rinv_neq_0_compat; exact HL ]. }
  pose (c0 := TL - gamma1 / alpha1). pose (c1 := ((TR - TL) - (gamma2 / alpha2 - gamma1 / alpha1)) / L).
  apply (is_RInt_ext (fun x => (c0 + c1 * x) * sin (k (INR m) * x))).
  { intros x _. unfold st, rod_bc1_static, c0, c1. f_equal. field. auto. }
  replace (L / 2 * B (INR m)) with ((- (c0 + c1 * L) * cos (k (INR m) * L) / k (INR m) + c1 * sin (k (INR m) * L) / k (INR m) ^ 2) - (- c0 / k (INR m))).
  { apply RInt_affine_sin. exact Hk. }
  unfold B, rod_bc1_Bn. destruct (Req_EM_T (INR m) 0) as [H0 | _]; [ contradiction | ].
  rewrite altsign_INR. unfold k, rod_bc1_kn.
  replace (INR m * PI / L * L) with (INR m * PI) by (field; exact HL).
  rewrite sin_INR_PI, cos_INR_PI. unfold c0, c1. field. repeat split; auto. apply PI_neq0.
Qed.
End BC1.

Lemma sum_range_0_S : forall (f : R -> R) N, sum_range f 0 (INR (S N)) = f 0 + sum_from f 1 N.
Proof.
  intros f N. change 0 with (INR 0) at 1. rewrite sum_range_INR. replace (S N - 0)%nat with (S N) by lia. reflexivity.
Qed.

(* ======================================================================= BC2: flux prescribed at both ends *)
Section BC2.
Variables L Nsum TL TR beta1 beta2 gamma1 gamma2 kappa : R.
Hypothesis Hb1 : beta1 <> 0.
Hypothesis HL : L <> 0.
Let T := fun x t => rod_bc2_temperature L Nsum TL TR beta1 beta2 gamma1 gamma2 kappa x t.
Let st := rod_bc2_static L TL TR beta1 beta2 gamma1 gamma2.
Let A := rod_bc2_An L TL TR beta1 beta2 gamma1 gamma2.
Let B := rod_bc2_Bn L TL TR beta1 beta2 gamma1 gamma2.
Let k := rod_bc2_kn L TL TR beta1 beta2 gamma1 gamma2.

Lemma st2_derive : forall y, is_derive st y (gamma1 / beta1).
Proof. intros y. unfold st, rod_bc2_static. auto_derive; [ exact I | field; auto ]. Qed.

Lemma rod_bc2_heat_equation_proof : forall x t,
  exists (Tx : R -> R) (Txx Tt : R),
    (forall y, is_derive (fun z => T z t) y (Tx y)) /\ is_derive Tx x Txx /\ is_derive (fun s => T x s) t Tt /\ Tt = kappa * Txx.
Proof. intros x t. unfold T, rod_bc2_temperature. apply (affine_plus_series_heat st (gamma1 / beta1)). apply st2_derive. Qed.

(* the flux gamma1/beta1 at both ends (the solver refuses to run unless gamma2/beta2 is the same number) *)
Lemma rod_bc2_boundary_proof : forall t,
  is_derive (fun z => T z t) 0 (gamma1 / beta1) /\ is_derive (fun z => T z t) L (gamma1 / beta1).
Proof.
  intros t. unfold T, rod_bc2_temperature. split.
  - evar_last; [ apply (affine_plus_series_dx st (gamma1 / beta1) A B k kappa 0 Nsum t 0); apply st2_derive | ].
    rewrite sum_range_zero; [ apply Rplus_0_r | ]. intros n. unfold rod_term_x, B, rod_bc2_Bn. rewrite Rmult_0_r, sin_0. ring.
  - evar_last; [ apply (affine_plus_series_dx st (gamma1 / beta1) A B k kappa 0 Nsum t L); apply st2_derive | ].
    rewrite sum_range_zero; [ apply Rplus_0_r | ]. intros n. unfold rod_term_x, B, rod_bc2_Bn, k, rod_bc2_kn.
    replace (INR n * PI / L * L) with (INR n * PI) by (field; exact HL). rewrite sin_INR_PI. ring.
Qed.

Lemma k2_nonzero : forall n : nat, (1 <= n)%nat -> k (INR n) <> 0.
Proof.
  intros n Hn. unfold k, rod_bc2_kn, Rdiv.
  apply Rmult_integral_contrapositive_currified; [ apply Rmult_integral_contrapositive_currified; [ apply not_0_INR; lia | apply PI_neq0 ] | apply Rinv_neq_0_compat; exact HL ].
Qed.

(* t -> infinity: the static profile plus the mean of (initial - static), which insulated ends conserve *)
Lemma rod_bc2_steady_proof : forall (N : nat) x, Nsum = INR (S N) -> 0 < kappa ->
  is_lim (fun t => T x t) p_infty (st x + (TL + (TR - gamma1 / beta1 * L)) / 2).
Proof.
  intros N x HN Hk. unfold T, rod_bc2_temperature. fold st.
  evar_last.
  - apply (is_lim_plus' (fun _ => st x) (fun t => sum_range (fun n => rod_term (A n) (B n) kappa (k n) t x) 0 Nsum) p_infty (st x)
             (sum_range (fun n => if Req_EM_T (k n) 0 then A n else 0) 0 Nsum)); [ apply is_lim_const | apply (rod_series_lim A B k kappa 0 Nsum x Hk) ].
  - f_equal. f_equal. rewrite HN, sum_range_0_S.
    rewrite sum_from_zero.
    + destruct (Req_EM_T (k 0) 0) as [_ | Hne]; [ | exfalso; apply Hne; unfold k, rod_bc2_kn; field; exact HL ].
      unfold A, rod_bc2_An. destruct (Req_EM_T 0 0) as [_ | Hne]; [ ring | exfalso; apply Hne; reflexivity ].
    + intros n Hn. destruct (Req_EM_T (k (INR n)) 0) as [He | _]; [ exfalso; apply (k2_nonzero n); [ lia | exact He ] | reflexivity ].
Qed.

(* cosine-Fourier coefficients of (initial profile - static part) *)
Lemma rod_bc2_fourier_proof : forall m : nat, (1 <= m)%nat ->
  is_RInt (fun x => (TL + (TR - TL) * x / L - st x) * cos (k (INR m) * x)) 0 L (L / 2 * A (INR m)).
Proof.
  intros m Hm.
  assert (Hm0 : INR m <> 0) by (apply not_0_INR; lia).
  pose proof (k2_nonzero m Hm) as Hk.
  pose (c0 := TL). pose (c1 := (TR - TL) / L - gamma1 / beta1).
  apply (is_RInt_ext (fun x => (c0 + c1 * x) * cos (k (INR m) * x))).
  { intros x _. unfold st, rod_bc2_static, c0, c1. f_equal. field. auto. }
  replace (L / 2 * A (INR m)) with (((c0 + c1 * L) * sin (k (INR m) * L) / k (INR m) + c1 * cos (k (INR m) * L) / k (INR m) ^ 2) - (c1 / k (INR m) ^ 2)).
  { apply RInt_affine_cos. exact Hk. }
  unfold A, rod_bc2_An. destruct (Req_EM_T (INR m) 0) as [H0 | _]; [ contradiction | ].
  rewrite altsign_INR. unfold k, rod_bc2_kn.
  replace (INR m * PI / L * L) with (INR m * PI) by (field; exact HL).
  rewrite sin_INR_PI, cos_INR_PI. unfold c0, c1. field. repeat split; auto. apply PI_neq0.
Qed.

Lemma rod_bc2_fourier0_proof :
  is_RInt (fun x => TL + (TR - TL) * x / L - st x) 0 L (L * A 0).
Proof.
  pose (c0 := TL). pose (c1 := (TR - TL) / L - gamma1 / beta1).
  apply (is_RInt_ext (fun x => c0 + c1 * x)).
  { intros x _. unfold st, rod_bc2_static, c0, c1. match goal with |- ?a = ?b => change (@eq R a b) end. field. auto. }
  replace (L * A 0) with ((c0 * L + c1 * L ^ 2 / 2) - (c0 * 0 + c1 * 0 ^ 2 / 2)).
  - apply (is_RInt_derive (fun x => c0 * x + c1 * x ^ 2 / 2) (fun x => c0 + c1 * x)).
    + intros x _. auto_derive; [ exact I | field ].
    + intros x _. apply continuous_of_ex_derive. auto_derive. exact I.
  - unfold A, rod_bc2_An. destruct (Req_EM_T 0 0) as [_ | Hne]; [ | exfalso; apply Hne; reflexivity ].
    unfold c0, c1. field. auto.
Qed.
End BC2.

Lemma half_odd_nonzero : forall (n : nat) L, L <> 0 -> (2 * INR n + 1) * PI / (2 * L) <> 0.
Proof.
  intros n L HL. unfold Rdiv.
  apply Rmult_integral_contrapositive_currified; [ apply Rmult_integral_contrapositive_currified; [ | apply PI_neq0 ] | apply Rinv_neq_0_compat; lra ].
  pose proof (pos_INR n). lra.
Qed.

(* ======================================================================= BC3: T(0) and flux at L prescribed *)
Section BC3.
Variables L Nsum TL TR alpha1 beta2 gamma1 gamma2 kappa : R.
Hypothesis Ha1 : alpha1 <> 0.
Hypothesis Hb2 : beta2 <> 0.
Hypothesis HL : L <> 0.
Let T := fun x t => rod_bc3_temperature L Nsum TL TR alpha1 beta2 gamma1 gamma2 kappa x t.
Let st := rod_bc3_static L TL TR alpha1 beta2 gamma1 gamma2.
Let A := rod_bc3_An L TL TR alpha1 beta2 gamma1 gamma2.
Let B := rod_bc3_Bn L TL TR alpha1 beta2 gamma1 gamma2.
Let k := rod_bc3_kn L TL TR alpha1 beta2 gamma1 gamma2.

Lemma st3_derive : forall y, is_derive st y (gamma2 / beta2).
Proof. intros y. unfold st, rod_bc3_static. auto_derive; [ exact I | field; auto ]. Qed.

Lemma rod_bc3_heat_equation_proof : forall x t,
  exists (Tx : R -> R) (Txx Tt : R),
    (forall y, is_derive (fun z => T z t) y (Tx y)) /\ is_derive Tx x Txx /\ is_derive (fun s => T x s) t Tt /\ Tt = kappa * Txx.
Proof. intros x t. unfold T, rod_bc3_temperature. apply (affine_plus_series_heat st (gamma2 / beta2)). apply st3_derive. Qed.

Lemma rod_bc3_boundary_proof : forall t,
  T 0 t = gamma1 / alpha1 /\ is_derive (fun z => T z t) L (gamma2 / beta2).
Proof.
  intros t. unfold T, rod_bc3_temperature. split.
  - rewrite sum_range_zero.
    + unfold rod_bc3_static. field. auto.
    + intros n. unfold rod_term, rod_bc3_An. rewrite Rmult_0_r, sin_0. ring.
  - evar_last; [ apply (affine_plus_series_dx st (gamma2 / beta2) A B k kappa 0 Nsum t L); apply st3_derive | ].
    rewrite sum_range_zero; [ apply Rplus_0_r | ]. intros n. unfold rod_term_x, A, rod_bc3_An, k, rod_bc3_kn.
    replace ((2 * INR n + 1) * PI / (2 * L) * L) with ((2 * INR n + 1) * PI / 2) by (field; exact HL).
    rewrite cos_half_odd_PI. ring.
Qed.

Lemma rod_bc3_steady_proof : forall x, 0 < kappa -> is_lim (fun t => T x t) p_infty (st x).
Proof.
  intros x Hk. unfold T, rod_bc3_temperature. fold st.
  evar_last.
  - apply (is_lim_plus' (fun _ => st x) (fun t => sum_range (fun n => rod_term (A n) (B n) kappa (k n) t x) 0 Nsum) p_infty (st x)
             (sum_range (fun n => if Req_EM_T (k n) 0 then A n else 0) 0 Nsum)); [ apply is_lim_const | apply (rod_series_lim A B k kappa 0 Nsum x Hk) ].
  - rewrite sum_range_zero; [ f_equal; ring | ]. intros n. unfold A, rod_bc3_An. destruct (Req_EM_T _ _); reflexivity.
Qed.

(* sine-Fourier coefficients on the eigenfunctions sin((2m+1) pi x / 2L) *)
Lemma rod_bc3_fourier_proof : forall m : nat,
  is_RInt (fun x => (TL + (TR - TL) * x / L - st x) * sin (k (INR m) * x)) 0 L (L / 2 * B (INR m)).
Proof.
  intros m.
  assert (Hk : k (INR m) <> 0) by (unfold k, rod_bc3_kn; apply half_odd_nonzero; exact HL).
  pose (c0 := TL - gamma1 / alpha1). pose (c1 := (TR - TL) / L - gamma2 / beta2).
  apply (is_RInt_ext (fun x => (c0 + c1 * x) * sin (k (INR m) * x))).
  { intros x _. unfold st, rod_bc3_static, c0, c1. f_equal. field. auto. }
  replace (L / 2 * B (INR m)) with ((- (c0 + c1 * L) * cos (k (INR m) * L) / k (INR m) + c1 * sin (k (INR m) * L) / k (INR m) ^ 2) - (- c0 / k (INR m))).
  { apply RInt_affine_sin. exact Hk. }
  unfold B, rod_bc3_Bn. rewrite altsign_INR. unfold k, rod_bc3_kn.
  replace ((2 * INR m + 1) * PI / (2 * L) * L) with ((2 * INR m + 1) * PI / 2) by (field; exact HL).
  rewrite sin_half_odd_PI, cos_half_odd_PI. unfold c0, c1.
  assert (H2m : 2 * INR m + 1 <> 0) by (pose proof (pos_INR m); lra).
  field. repeat split; auto. apply PI_neq0.
Qed.
End BC3.

(* ======================================================================= BC4: flux at 0 and T(L) prescribed *)
Section BC4.
Variables L Nsum TL TR alpha2 beta1 gamma1 gamma2 kappa : R.
Hypothesis Ha2 : alpha2 <> 0.
Hypothesis Hb1 : beta1 <> 0.
Hypothesis HL : L <> 0.
Let T := fun x t => rod_bc4_temperature L Nsum TL TR alpha2 beta1 gamma1 gamma2 kappa x t.
Let st := rod_bc4_static L TL TR alpha2 beta1 gamma1 gamma2.
Let A := rod_bc4_An L TL TR alpha2 beta1 gamma1 gamma2.
Let B := rod_bc4_Bn L TL TR alpha2 beta1 gamma1 gamma2.
Let k := rod_bc4_kn L TL TR alpha2 beta1 gamma1 gamma2.

Lemma st4_derive : forall y, is_derive st y (gamma1 / beta1).
Proof. intros y. unfold st, rod_bc4_static. auto_derive; [ exact I | field; auto ]. Qed.

Lemma rod_bc4_heat_equation_proof : forall x t,
  exists (Tx : R -> R) (Txx Tt : R),
    (forall y, is_derive (fun z => T z t) y (Tx y)) /\ is_derive Tx x Txx /\ is_derive (fun s => T x s) t Tt /\ Tt = kappa * Txx.
Proof. intros x t. unfold T, rod_bc4_temperature. apply (affine_plus_series_heat st (gamma1 / beta1)). apply st4_derive. Qed.

Lemma rod_bc4_boundary_proof : forall t,
  is_derive (fun z => T z t) 0 (gamma1 / beta1) /\ T L t = gamma2 / alpha2.
Proof.
  intros t. unfold T, rod_bc4_temperature. split.
  - evar_last; [ apply (affine_plus_series_dx st (gamma1 / beta1) A B k kappa 0 Nsum t 0); apply st4_derive | ].
    rewrite sum_range_zero; [ apply Rplus_0_r | ]. intros n. unfold rod_term_x, B, rod_bc4_Bn. rewrite Rmult_0_r, sin_0. ring.
  - rewrite sum_range_zero.
    + unfold rod_bc4_static. field. auto.
    + intros n. unfold rod_term, rod_bc4_Bn, rod_bc4_kn.
      replace ((2 * INR n + 1) * PI / (2 * L) * L) with ((2 * INR n + 1) * PI / 2) by (field; exact HL).
      rewrite cos_half_odd_PI. ring.
Qed.

Lemma rod_bc4_steady_proof : forall x, 0 < kappa -> is_lim (fun t => T x t) p_infty (st x).
Proof.
  intros x Hk. unfold T, rod_bc4_temperature. fold st.
  evar_last.
  - apply (is_lim_plus' (fun _ => st x) (fun t => sum_range (fun n => rod_term (A n) (B n) kappa (k n) t x) 0 Nsum) p_infty (st x)
             (sum_range (fun n => if Req_EM_T (k n) 0 then A n else 0) 0 Nsum)); [ apply is_lim_const | apply (rod_series_lim A B k kappa 0 Nsum x Hk) ].
  - rewrite sum_range_zero; [ f_equal; ring | ]. intros n.
    destruct (Req_EM_T (k (INR n)) 0) as [He | _]; [ | reflexivity ].
    exfalso. revert He. unfold k, rod_bc4_kn. apply half_odd_nonzero. exact HL.
Qed.

(* cosine-Fourier coefficients on the eigenfunctions cos((2m+1) pi x / 2L) *)
Lemma rod_bc4_fourier_proof : forall m : nat,
  is_RInt (fun x => (TL + (TR - TL) * x / L - st x) * cos (k (INR m) * x)) 0 L (L / 2 * A (INR m)).
Proof.
  intros m.
  assert (Hk : k (INR m) <> 0) by (unfold k, rod_bc4_kn; apply half_odd_nonzero; exact HL).
  pose (c0 := TL - (gamma2 / alpha2 - L * (gamma1 / beta1))). pose (c1 := (TR - TL) / L - gamma1 / beta1).
  apply (is_RInt_ext (fun x => (c0 + c1 * x) * cos (k (INR m) * x))).
  { intros x _. unfold st, rod_bc4_static, c0, c1. f_equal. field. auto. }
  replace (L / 2 * A (INR m)) with (((c0 + c1 * L) * sin (k (INR m) * L) / k (INR m) + c1 * cos (k (INR m) * L) / k (INR m) ^ 2) - (c1 / k (INR m) ^ 2)).
  { apply RInt_affine_cos. exact Hk. }
  unfold A, rod_bc4_An. rewrite altsign_INR. unfold k, rod_bc4_kn.
  replace ((2 * INR m + 1) * PI / (2 * L) * L) with ((2 * INR m + 1) * PI / 2) by (field; exact HL).
  rewrite sin_half_odd_PI, cos_half_odd_PI. unfold c0, c1.
  assert (H2m : 2 * INR m + 1 <> 0) by (pose proof (pos_INR m); lra).
  field. repeat split; auto. apply PI_neq0.
Qed.
End BC4.

(* ======================================================================= the planar sandwiches (Rod1D with fixed alpha, beta) *)
Lemma R1_neq_0' : (1 : R) <> 0. Proof. lra. Qed.

Lemma psandwich_proof : forall L Nsum TL TR kappa TB TT x t, L <> 0 ->
  let T := psandwich_temperature L Nsum TL TR kappa TB TT in
  (exists (Tx : R -> R) (Txx Tt : R),
     (forall y, is_derive (fun z => T z t) y (Tx y)) /\ is_derive Tx x Txx /\ is_derive (fun s => T x s) t Tt /\ Tt = kappa * Txx) /\
  T 0 t = TB /\ T L t = TT /\
  (0 < kappa -> is_lim (fun s => T x s) p_infty (TB + (TT - TB) * x / L)).
Proof.
  intros L Nsum TL TR kappa TB TT x t HL T. unfold T, psandwich_temperature.
  split; [ apply rod_bc1_heat_equation_proof; first [ exact R1_neq_0' | exact HL ] | ].
  destruct (rod_bc1_boundary_proof L Nsum TL TR 1 1 TB TT kappa R1_neq_0' R1_neq_0' HL t) as [H0 H1].
  split; [ rewrite H0; field | ]. split; [ rewrite H1; field | ].
  intros Hk. evar_last; [ apply (rod_bc1_steady_proof L Nsum TL TR 1 1 TB TT kappa x Hk) | ].
  unfold rod_bc1_static. f_equal. field. exact HL.
Qed.

Lemma psandwich_hot_proof : forall L Nsum TL TR kappa F x t, L <> 0 ->
  let T := psandwich_hot_temperature L Nsum TL TR kappa F in
  (exists (Tx : R -> R) (Txx Tt : R),
     (forall y, is_derive (fun z => T z t) y (Tx y)) /\ is_derive Tx x Txx /\ is_derive (fun s => T x s) t Tt /\ Tt = kappa * Txx) /\
  is_derive (fun z => T z t) 0 F /\ is_derive (fun z => T z t) L F.
Proof.
  intros L Nsum TL TR kappa F x t HL T. unfold T, psandwich_hot_temperature.
  split; [ apply rod_bc2_heat_equation_proof; first [ exact R1_neq_0' | exact HL ] | ].
  destruct (rod_bc2_boundary_proof L Nsum TL TR 1 1 F F kappa R1_neq_0' HL t) as [H0 H1].
  replace (F / 1) with F in H0, H1 by field. split; assumption.
Qed.

Lemma psandwich_half_proof : forall L Nsum TL TR kappa FT TB x t, L <> 0 ->
  let T := psandwich_half_temperature L Nsum TL TR kappa FT TB in
  (exists (Tx : R -> R) (Txx Tt : R),
     (forall y, is_derive (fun z => T z t) y (Tx y)) /\ is_derive Tx x Txx /\ is_derive (fun s => T x s) t Tt /\ Tt = kappa * Txx) /\
  T 0 t = TB /\ is_derive (fun z => T z t) L FT /\
  (0 < kappa -> is_lim (fun s => T x s) p_infty (TB + FT * x)).
Proof.
  intros L Nsum TL TR kappa FT TB x t HL T. unfold T, psandwich_half_temperature.
  split; [ apply rod_bc3_heat_equation_proof; first [ exact R1_neq_0' | exact HL ] | ].
  destruct (rod_bc3_boundary_proof L Nsum TL TR 1 1 TB FT kappa R1_neq_0' R1_neq_0' HL t) as [H0 H1].
  split; [ rewrite H0; field | ]. split; [ replace (FT / 1) with FT in H1 by field; exact H1 | ].
  intros Hk. evar_last; [ apply (rod_bc3_steady_proof L Nsum TL TR 1 1 TB FT kappa x Hk) | ].
  unfold rod_bc3_static. f_equal. field.
Qed.
