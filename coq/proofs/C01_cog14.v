(* C01 for Coggeshall 14 (steady power-law flow with conduction): rho = rho0 r^(-k-b), u = c2 r^b, T = T0 r^(2b) with the coded exponent b and
   amplitudes T0 (a real power of a positive base) and c2 = sqrt(Gamma T0 (k-b)/b); instance of lib/SteadyPowerLaw. *)
From Coq Require Import Reals Lra Psatz.
From Coquelicot Require Import Coquelicot.
From EP Require Import lib.Base lib.Euler lib.Tactics lib.ExpAtoms lib.SteadyPowerLaw gen.Cog14.
Open Scope R_scope.


Definition KC14 (lambda0 : R) : R := 119880000000 * lambda0 * (686 / 5) / 3.

Section Cog14.
Variables geometry gamma rho0 alpha beta lambda0 Gamma : R.
Let k := geometry - 1.
Let b := (k - 1 - alpha * k) / (2 + alpha - 2 * (beta + 4)).
Let x2 := 2 * b + (gamma - 1) * (k + b).
Let BASE := b / Gamma / (k - b) * ((119880000000 * lambda0 * (686 / 5) * (gamma - 1) / 3 / Gamma) ^ 2) *
            (Rpower rho0 (2 * alpha - 2) * 16 * b ^ 4 / x2 ^ 2).
Let T0 := Rpower BASE ((- 1) / (5 + (2 * beta))).
Let c2 := sqrt (Gamma * T0 * (k - b) / b).

Hypothesis Hd : 2 + alpha - 2 * (beta + 4) <> 0.
Hypothesis Hb : 0 < b / (k - b).
Hypothesis Hkb : k - b <> 0.
Hypothesis Hg : 1 < gamma.
Hypothesis HG : 0 < Gamma.
Hypothesis Hrho : 0 < rho0.
Hypothesis Hl : 0 < lambda0.
Hypothesis Hx2 : 0 < x2.
Hypothesis Hbeta : 5 + 2 * beta <> 0.

Lemma c14_b_nz : b <> 0.
Proof. intro E. rewrite E in Hb. unfold Rdiv in Hb. rewrite Rmult_0_l in Hb. lra. Qed.

Lemma c14_kb_over_b : 0 < (k - b) / b.
Proof.
  assert (Hb0 := c14_b_nz).
  replace ((k - b) / b) with (/ (b / (k - b))) by (field; split; assumption).
  apply Rinv_0_lt_compat. exact Hb.
Qed.

Lemma c14_BASE_pos : 0 < BASE.
Proof.
  assert (Hb0 := c14_b_nz).
  unfold BASE.
  apply Rmult_lt_0_compat; [ apply Rmult_lt_0_compat | ].
  - replace (b / Gamma / (k - b)) with (b / (k - b) * / Gamma) by (field; split; lra).
    apply Rmult_lt_0_compat; [ exact Hb | apply Rinv_0_lt_compat; exact HG ].
  - apply pow_lt. apply Rdiv_lt_0_compat; [ | exact HG ]. apply Rdiv_lt_0_compat; [ | lra ].
    apply Rmult_lt_0_compat; [ | lra ]. apply Rmult_lt_0_compat; [ | lra ]. apply Rmult_lt_0_compat; lra.
  - apply Rdiv_lt_0_compat; [ | apply pow_lt; exact Hx2 ].
    apply Rmult_lt_0_compat; [ apply Rmult_lt_0_compat; [ unfold Rpower; apply exp_pos | lra ] | ].
    replace (b ^ 4) with ((b * b) * (b * b)) by ring. apply Rmult_lt_0_compat; nra.
Qed.

Lemma c14_T0_pos : 0 < T0.
Proof. unfold T0, Rpower. apply exp_pos. Qed.

Lemma c14_T0_eq : BASE * Rpower T0 (2 * beta + 5) = 1.
Proof.
  unfold T0. rewrite Rpower_mult.
  replace ((- 1) / (5 + (2 * beta)) * (2 * beta + 5)) with (- (1)) by (field; exact Hbeta).
  rewrite Rpower_Ropp, Rpower_1 by exact c14_BASE_pos. field. apply Rgt_not_eq, c14_BASE_pos.
Qed.

Lemma c14_c2_sq : c2 * c2 = Gamma * T0 * (k - b) / b.
Proof.
  unfold c2. apply sqrt_sqrt.
  assert (H := c14_kb_over_b). assert (HT := c14_T0_pos).
  replace (Gamma * T0 * (k - b) / b) with (Gamma * T0 * ((k - b) / b)) by (field; exact c14_b_nz).
  apply Rlt_le. apply Rmult_lt_0_compat; [ apply Rmult_lt_0_compat; assumption | exact H ].
Qed.

Lemma c14_c2_pos : 0 < c2.
Proof.
  unfold c2. apply sqrt_lt_R0.
  assert (H := c14_kb_over_b). assert (HT := c14_T0_pos).
  replace (Gamma * T0 * (k - b) / b) with (Gamma * T0 * ((k - b) / b)) by (field; exact c14_b_nz).
  apply Rmult_lt_0_compat; [ apply Rmult_lt_0_compat; assumption | exact H ].
Qed.

(* the amplitude condition that makes the conduction term balance the convective terms *)
Lemma c14_key :
  Gamma * c2 * x2 / (gamma - 1) = KC14 lambda0 * Rpower rho0 (alpha - 1) * Rpower T0 (beta + 3) * (4 * b ^ 2).
Proof.
  assert (Hb0 := c14_b_nz). assert (HT := c14_T0_pos). assert (Hc := c14_c2_pos). assert (HB := c14_BASE_pos).
  set (L := Gamma * c2 * x2 / (gamma - 1)).
  set (Rr := KC14 lambda0 * Rpower rho0 (alpha - 1) * Rpower T0 (beta + 3) * (4 * b ^ 2)).
  assert (HL : 0 < L).
  { unfold L. apply Rdiv_lt_0_compat; [ | lra ]. apply Rmult_lt_0_compat; [ apply Rmult_lt_0_compat; assumption | exact Hx2 ]. }
  assert (HR : 0 < Rr).
  { unfold Rr, KC14. apply Rmult_lt_0_compat; [ apply Rmult_lt_0_compat; [ apply Rmult_lt_0_compat | ] | ].
    - apply Rdiv_lt_0_compat; [ | lra ]. apply Rmult_lt_0_compat; [ | lra ]. apply Rmult_lt_0_compat; lra.
    - unfold Rpower; apply exp_pos.
    - unfold Rpower; apply exp_pos.
    - assert (0 < b ^ 2) by (replace (b ^ 2) with (b * b) by ring; nra). lra. }
  assert (Hsq : L * L = Rr * Rr).
  { unfold L, Rr.
    replace (Gamma * c2 * x2 / (gamma - 1) * (Gamma * c2 * x2 / (gamma - 1)))
      with (Gamma ^ 2 * x2 ^ 2 / (gamma - 1) ^ 2 * (c2 * c2)) by (field; lra).
    rewrite c14_c2_sq.
    replace (KC14 lambda0 * Rpower rho0 (alpha - 1) * Rpower T0 (beta + 3) * (4 * b ^ 2) *
             (KC14 lambda0 * Rpower rho0 (alpha - 1) * Rpower T0 (beta + 3) * (4 * b ^ 2)))
      with (KC14 lambda0 ^ 2 * (Rpower rho0 (alpha - 1) * Rpower rho0 (alpha - 1)) * (Rpower T0 (beta + 3) * Rpower T0 (beta + 3)) * 16 * b ^ 4) by ring.
    rewrite <- !Rpower_plus.
    replace (alpha - 1 + (alpha - 1)) with (2 * alpha - 2) by ring.
    replace (beta + 3 + (beta + 3)) with (1 + (2 * beta + 5)) by ring.
    rewrite Rpower_plus, Rpower_1 by exact HT.
    assert (HE := c14_T0_eq).
    assert (HP : Rpower T0 (2 * beta + 5) = / BASE).
    { apply Rmult_eq_reg_l with BASE; [ | lra ]. rewrite HE. field. lra. }
    rewrite HP. unfold BASE, KC14.
    set (Rh := Rpower rho0 (2 * alpha - 2)). assert (0 < Rh) by (unfold Rh, Rpower; apply exp_pos). clearbody Rh.
    field. repeat split; try lra. }
  destruct (Rsqr_eq L Rr Hsq) as [E | E]; [ exact E | lra ].
Qed.

Lemma cog14_pde_section : forall r t, 0 < r ->
  euler_heat_at k (KC14 lambda0) alpha beta
    (cog14_density geometry gamma rho0 alpha beta lambda0 Gamma)
    (cog14_velocity geometry gamma rho0 alpha beta lambda0 Gamma)
    (cog14_temperature geometry gamma rho0 alpha beta lambda0 Gamma)
    (cog14_pressure geometry gamma rho0 alpha beta lambda0 Gamma)
    (cog14_specific_internal_energy geometry gamma rho0 alpha beta lambda0 Gamma) r t.
Proof.
  intros r t Hr.
  assert (Hb0 := c14_b_nz).
  assert (Hmom : c2 * c2 * b = Gamma * T0 * (k - b)) by (rewrite c14_c2_sq; field; exact Hb0).
  assert (Hexp : (- k - b) * alpha + 2 * b * (beta + 3) + 2 * b - 1 = 3 * b + (- k - b)) by (unfold b; field; exact Hd).
  exact (steady_powerlaw_heat k (KC14 lambda0) alpha beta Gamma gamma rho0 T0 c2 b r t Hr Hrho c14_T0_pos
           (Rgt_not_eq _ _ HG) (Rgt_not_eq _ _ Hg) Hb0 Hmom Hexp c14_key).
Qed.
End Cog14.


Definition cog14_hyps (geometry gamma rho0 alpha beta lambda0 Gamma : R) : Prop :=
  let k := geometry - 1 in
  let b := (k - 1 - alpha * k) / (2 + alpha - 2 * (beta + 4)) in
  2 + alpha - 2 * (beta + 4) <> 0 /\ 0 < b / (k - b) /\ k - b <> 0 /\ 1 < gamma /\ 0 < Gamma /\ 0 < rho0 /\ 0 < lambda0 /\
  0 < 2 * b + (gamma - 1) * (k + b) /\ 5 + 2 * beta <> 0.

Lemma cog14_pde_proof :
  forall geometry gamma rho0 alpha beta lambda0 Gamma r t,
  cog14_hyps geometry gamma rho0 alpha beta lambda0 Gamma -> 0 < r ->
  euler_heat_at (geometry - 1) (KC14 lambda0) alpha beta
    (cog14_density geometry gamma rho0 alpha beta lambda0 Gamma)
    (cog14_velocity geometry gamma rho0 alpha beta lambda0 Gamma)
    (cog14_temperature geometry gamma rho0 alpha beta lambda0 Gamma)
    (cog14_pressure geometry gamma rho0 alpha beta lambda0 Gamma)
    (cog14_specific_internal_energy geometry gamma rho0 alpha beta lambda0 Gamma) r t.
Proof.
  intros geometry gamma rho0 alpha beta lambda0 Gamma r t (H1 & H2 & H3 & H4 & H5 & H6 & H7 & H8 & H9) Hr.
  exact (cog14_pde_section geometry gamma rho0 alpha beta lambda0 Gamma H1 H2 H3 H4 H5 H6 H7 H8 H9 r t Hr).
Qed.

(* the hypotheses hold for the class defaults (geometry 3, gamma 1.4, rho0 1.8, alpha 2, beta 1, lambda0 0.1, Gamma 40): b = 1/2 *)
Lemma cog14_hyps_example : cog14_hyps 3 (7/5) (9/5) 2 1 (1/10) 40.
Proof. unfold cog14_hyps. cbv zeta. repeat split; lra. Qed.
