(* C06: the access programs regenerated from the source are dominated (vm_compute over the finite list), and the
   only class-level shared mutable state is the reviewed list below. *)
From Coq Require Import List String Bool ZArith.
From EP Require Import model.History model.Api gen.Footprint.
Import ListNotations.
Open Scope string_scope.

Lemma all_global_programs_dominated_proof :
  forallb (fun e => dominated (snd e)) global_programs = true.
Proof. vm_compute. reflexivity. Qed.

Lemma global_programs_nonempty_proof : 5 <= List.length global_programs.
Proof. vm_compute. repeat constructor. Qed.

(* reviewed class-level objects: class-level default VALUES that every instance replaces or never mutates
   (Blake.elas_param_values, Kenamond2.dets / t_d, 2-D Riemann bottom_state / top_state), the default
   initial_conditions dictionaries of the black-box Noh wrappers (each wrapper re-writes the same key with the
   same value: idempotent) -- and NohBlackBoxEos.solver / initial_guess, which IS shared mutable state:
   known finding blackbox-shared-newton-solver. *)
Definition reviewed_shared_state : list string :=
  ["exactpack.solvers.blake.blake.Blake";
   "exactpack.solvers.kenamond.kenamond2.Kenamond2";
   "exactpack.solvers.nohblackboxeos.blackboxnoh.CylindricalNohBlackBox";
   "exactpack.solvers.nohblackboxeos.blackboxnoh.NohBlackBoxEos";
   "exactpack.solvers.nohblackboxeos.blackboxnoh.PlanarNohBlackBox";
   "exactpack.solvers.nohblackboxeos.blackboxnoh.SphericalNohBlackBox";
   "exactpack.solvers.riemann2D_2section_steadystate.ep_riemann2D_2section_steadystate.IGEOS_Solver"].

Lemma class_shared_state_reviewed_proof :
  forallb (fun e => mem (fst e) reviewed_shared_state) class_shared_state = true.
Proof. vm_compute. reflexivity. Qed.

(* no module of exactpack/solvers keeps a module-level container that a function mutates (no caches / registries that survive a call) *)
Lemma no_module_caches_proof : module_mutated_containers = [].
Proof. reflexivity. Qed.

(* attributes read before being written inside a non-constructor method, reviewed: both re-store the value they were given
   (nED_Solver.setup_solver runs during construction and stores prob.problem = the problem it was passed; the 2-D Riemann
   IGEOS_Solver._run stores back prob.bottom_state / prob.top_state, the states it has just passed in) - idempotent; exercised by the
   dynamic history run *)
Definition reviewed_carried_state : list string :=
  ["exactpack.solvers.radshocks.nED_radshocks.nED_Solver";
   "exactpack.solvers.riemann2D_2section_steadystate.ep_riemann2D_2section_steadystate.IGEOS_Solver"].

Lemma instance_carried_state_reviewed_proof :
  forallb (fun e => mem (fst e) reviewed_carried_state) instance_carried_state = true.
Proof. vm_compute. reflexivity. Qed.
