(* C01 for Coggeshall 17: the momentum equation holds; the mass equation does NOT (the coded density
   time-exponent has the wrong sign) -- machine-checked refutation at an admissible parameter set
   with positive density and temperature. *)
From Coq Require Import Reals Lra Psatz.
From Coquelicot Require Import Coquelicot.
From Interval Require Import Tactic.
From EP Require Import lib.Base lib.Euler lib.Tactics gen.Cog17.
Open Scope R_scope.

Lemma cog17_mass_refuted_proof :
  let geometry := 3 in let gamma := 2 in let alpha := -1 in let beta := - (1 / 2) in
  let lambda0 := 1 / 10 in let Gamma := 40 in let r := 1 in let t := 1 in
  cog17_init_ok geometry gamma alpha beta lambda0 Gamma /\
  0 < cog17_density geometry gamma alpha beta lambda0 Gamma r t /\
  0 < cog17_temperature geometry gamma alpha beta lambda0 Gamma r t /\
  ~ mass_eq (geometry - 1) (cog17_density geometry gamma alpha beta lambda0 Gamma)
      (cog17_velocity geometry gamma alpha beta lambda0 Gamma) r t.
Proof.
  cbv zeta. unfold cog17_init_ok.
  split; [ right; reflexivity | ].
  split; [ autounfold with epgen; unfold Rpower; interval with (i_prec 60) | ].
  split; [ autounfold with epgen; unfold Rpower; interval with (i_prec 60) | ].
  eapply not_mass_eq; autounfold with epgen.
  1-3: dsolve.
  unfold Rpower. interval with (i_prec 60).
Qed.

Lemma cog17_momentum_proof :
  forall geometry gamma alpha beta lambda0 Gamma r t,
  0 < r -> 0 < t -> gamma <> 1 -> Gamma <> 0 -> alpha <> 1 ->
  2 * beta - 4 + (1 - alpha) * (geometry - 1 + 1) <> 0 -> 2 * beta - 4 + 2 * (1 - alpha) <> 0 ->
  0 < cog17_density geometry gamma alpha beta lambda0 Gamma r t ->
  momentum_eq (cog17_density geometry gamma alpha beta lambda0 Gamma)
     (cog17_velocity geometry gamma alpha beta lambda0 Gamma)
     (cog17_pressure geometry gamma alpha beta lambda0 Gamma) r t.
Proof.
  intros geometry gamma alpha beta lambda0 Gamma r t Hr Ht Hg HG Ha H3 H5 Hrho.
  unfold momentum_eq. revert Hrho. autounfold with epgen.
  set (RHO0 := Rpower _ (1 / (1 - alpha))).
  intros Hrho. exders.
  assert (HR : RHO0 <> 0).
  { intro E. rewrite E in Hrho. rewrite !Rmult_0_l in Hrho. lra. }
  fsolveA.
Qed.
