(* C03 for noh2: returned thermodynamic fields satisfy the declared EOS. P = (gamma-1) rho e *)
From Coq Require Import Reals Lra.
From EP Require Import lib.Base lib.Tactics gen.Noh2.
Open Scope R_scope.

Lemma noh2_eos_proof :
  forall geometry gamma rho0 e0 r t,
  noh2_defined geometry gamma rho0 e0 r t ->
  noh2_density geometry gamma rho0 e0 r t <> 0 ->
  gamma - 1 <> 0 ->
  noh2_pressure geometry gamma rho0 e0 r t = (gamma - 1) * (noh2_density geometry gamma rho0 e0 r t) * (noh2_specific_internal_energy geometry gamma rho0 e0 r t).
Proof. unfold noh2_defined. eos_solve. Qed.
