(* C01 for Coggeshall 13: mass and momentum hold; the energy equation (with the documented heat flux and the
   constants c, a coded in the solver) does NOT hold -- machine-checked refutation at the default parameters. *)
From Coq Require Import Reals Lra Psatz.
From Coquelicot Require Import Coquelicot.
From Interval Require Import Tactic.
From EP Require Import lib.Base lib.Euler lib.Tactics gen.Cog13.
Open Scope R_scope.

Lemma cog13_mass_momentum_proof :
  forall geometry gamma rho0 alpha beta lambda0 Gamma r t,
  0 < r -> 0 < t -> rho0 <> 0 -> gamma <> 1 -> alpha - beta - 4 <> 0 ->
  mass_eq (geometry - 1) (cog13_density geometry gamma rho0 alpha beta lambda0 Gamma)
     (cog13_velocity geometry gamma rho0 alpha beta lambda0 Gamma) r t /\
  momentum_eq (cog13_density geometry gamma rho0 alpha beta lambda0 Gamma)
     (cog13_velocity geometry gamma rho0 alpha beta lambda0 Gamma)
     (cog13_pressure geometry gamma rho0 alpha beta lambda0 Gamma) r t.
Proof.
  intros. split.
  - unfold mass_eq; autounfold with epgen; exders; fsolveA.
  - unfold momentum_eq; autounfold with epgen; exders; fsolveA.
Qed.

(* K0 = 4 a c lambda0 / 3 with c = 2.997e10, a = 137.20 as coded *)
Definition cog_K0 (lambda0 : R) : R := 4 * (2997 * 10 ^ 7) * lambda0 * (1372 / 10) / 3.

Lemma cog13_energy_refuted_proof :
  let geometry := cog13_default_geometry in let gamma := cog13_default_gamma in
  let rho0 := cog13_default_rho0 in let alpha := cog13_default_alpha in let beta := cog13_default_beta in
  let lambda0 := cog13_default_lambda0 in let Gamma := cog13_default_Gamma in
  let r := 1 in let t := 1 in
  cog13_init_ok geometry gamma rho0 alpha beta lambda0 Gamma /\
  ~ (exists F, is_heat_flux (cog_K0 lambda0) alpha beta (cog13_density geometry gamma rho0 alpha beta lambda0 Gamma)
                 (cog13_temperature geometry gamma rho0 alpha beta lambda0 Gamma) F t /\
     energy_eq (geometry - 1) (cog13_density geometry gamma rho0 alpha beta lambda0 Gamma)
      (cog13_velocity geometry gamma rho0 alpha beta lambda0 Gamma)
      (cog13_pressure geometry gamma rho0 alpha beta lambda0 Gamma)
      (cog13_specific_internal_energy geometry gamma rho0 alpha beta lambda0 Gamma) F r t).
Proof.
  cbv zeta. unfold cog13_default_geometry, cog13_default_gamma, cog13_default_rho0, cog13_default_alpha,
    cog13_default_beta, cog13_default_lambda0, cog13_default_Gamma, cog13_init_ok, cog_K0.
  split; [ split; [ right; reflexivity | lra ] | ].
  apply (heat_energy_refute _ _ _ _ (- (2 / (2 - 1 - 4)))); [ lra | | ].
  - intros r' Hr'. autounfold with epgen. unfold Rpower. auto_derive; [ nz | fsolveA ].
  - eapply not_energy_eq; unfold powerlaw_flux; autounfold with epgen.
    1-4: dsolve.
    unfold Rpower. interval with (i_prec 60).
Qed.
