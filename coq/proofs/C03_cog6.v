(* C03 for cog6: returned thermodynamic fields satisfy the declared EOS. P = Gamma rho T, e = Gamma T/(gamma-1) with the built-in gamma = (((geometry - 1) + 3) / ((geometry - 1) + 1)) *)
From Coq Require Import Reals Lra.
From EP Require Import lib.Base lib.Tactics gen.Cog6.
Open Scope R_scope.

Lemma cog6_eos_proof :
  forall geometry rho0 tau b Gamma r t,
  cog6_defined geometry rho0 tau b Gamma r t ->
  cog6_density geometry rho0 tau b Gamma r t <> 0 ->
  (((geometry - 1) + 3) / ((geometry - 1) + 1)) - 1 <> 0 ->
  cog6_pressure geometry rho0 tau b Gamma r t = Gamma * (cog6_density geometry rho0 tau b Gamma r t) * (cog6_temperature geometry rho0 tau b Gamma r t) /\
  cog6_specific_internal_energy geometry rho0 tau b Gamma r t = Gamma * (cog6_temperature geometry rho0 tau b Gamma r t) / ((((geometry - 1) + 3) / ((geometry - 1) + 1)) - 1) /\
  cog6_pressure geometry rho0 tau b Gamma r t = ((((geometry - 1) + 3) / ((geometry - 1) + 1)) - 1) * (cog6_density geometry rho0 tau b Gamma r t) * (cog6_specific_internal_energy geometry rho0 tau b Gamma r t).
Proof. unfold cog6_defined. eos_solve. Qed.
