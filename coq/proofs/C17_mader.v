(* C17 for the Mader rarefaction: the per-cell function rare() of mader/rarefaction.py (generated: gen/Mader.v).
   A readable mirror of the Python code is shown to be convertible to the generated expressions, and
   the admissibility statements are proved on it: constant state positive; a fan cell's averaged pressure,
   density lie between the point values at the cell's two edges; the cell that straddles the tail of the
   Taylor wave returns values between the constant state behind the wave and the fan value at the cell's
   front edge. *)
From Coq Require Import Reals Lra Psatz.
From Coquelicot Require Import Coquelicot.
From EP Require Import lib.Base lib.Tactics gen.Mader.
Open Scope R_scope.

Section Rare.
Variables t xlab dx p_cj d_cj gam u_piston : R.

Definition gamp1 := gam + 1.
Definition rho_0 := gamp1 * p_cj / d_cj ^ 2.
Definition rho_cj := rho_0 * gamp1 / gam.
Definition c_cj := gam * d_cj / gamp1.
Definition u_cj := d_cj / gamp1.
Definition gamm1 := gam - 1.
Definition aa := gamm1 / (gamp1 * c_cj * t).
Definition bb := (2 - gamm1 * u_cj / c_cj) / gamp1.
Definition bexp := 2 * gam / gamm1.
Definition dexp := 2 / gamm1.
Definition dd := 2 / (t * gamp1).
Definition um := gamm1 * (u_cj - 2 * c_cj / gamm1) / gamp1.
Definition xp := 1 / 2 * gamp1 * t * (u_piston - um).
Definition xdet := d_cj * t - xlab.
Definition x1 := xdet - 1 / 2 * dx.
Definition x2 := x1 + dx.
Definition in_fan : Prop := 1 / 10 * dx < Rabs (xdet - xp) /\ xp < xdet.
Definition in_transition : Prop := Rabs (xdet - xp) <= 1 / 10 * dx.

(* point values of the Taylor wave at distance y from the rear *)
Definition fan_arg (y : R) := aa * y + bb.
Definition fan_u (y : R) := dd * y + um.
Definition fan_p (y : R) := p_cj * Rpower (fan_arg y) bexp.
Definition fan_c (y : R) := c_cj * fan_arg y.
Definition fan_rho (y : R) := rho_cj * Rpower (fan_arg y) dexp.
(* averages over [ya, ya + w] as coded *)
Definition avg_pow (coef n ya w : R) := coef * (Rpower (fan_arg (ya + w)) (n + 1) - Rpower (fan_arg ya) (n + 1)) / (w * aa * (n + 1)).

(* constant state behind the wave *)
Definition cs_arg := 1 + gamm1 * (u_piston - u_cj) / (2 * c_cj).
Definition cs_p := p_cj * Rpower cs_arg (2 * gam / gamm1).
Definition cs_c := c_cj * cs_arg.
Definition cs_rho := rho_cj * Rpower (cs_p / p_cj) (1 / gam).

(* the transition cell: fan part over [xp, x2] (width dxp, half width h), blended with the constant state *)
Definition dxp := x2 - xp.
Definition hh := dxp / 2.
Definition blend (cst fanpart : R) := cst + (fanpart - cst) * 2 * hh / dx.
Definition tr_u := blend u_piston (fan_u (xp + hh)).
Definition tr_p := blend cs_p (avg_pow p_cj bexp xp dxp).
Definition tr_c := blend cs_c (fan_c (xp + hh)).
Definition tr_rho := blend cs_rho (avg_pow rho_cj dexp xp dxp).

Definition sel (A B C : R) : R :=
  if Rlt_dec (1 / 10 * dx) (Rabs (xdet - xp))
  then (if Rlt_dec xp xdet then A else (if Rle_dec (Rabs (xdet - xp)) (1 / 10 * dx) then B else C))
  else (if Rle_dec (Rabs (xdet - xp)) (1 / 10 * dx) then B else C).

Definition mr_u := sel (fan_u (x1 + 1 / 2 * dx)) tr_u u_piston.
Definition mr_p := sel (avg_pow p_cj bexp x1 dx) tr_p cs_p.
Definition mr_c := sel (fan_c (x1 + 1 / 2 * dx)) tr_c cs_c.
Definition mr_rho := sel (avg_pow rho_cj dexp x1 dx) tr_rho cs_rho.
End Rare.


(* the mirror IS the generated code (definitional unfolding only) *)
Lemma mirror_u : forall t xlab dx p_cj d_cj gam u_piston, mader_u t xlab dx p_cj d_cj gam u_piston = mr_u t xlab dx d_cj gam u_piston.
Proof. intros. reflexivity. Qed.
Lemma mirror_p : forall t xlab dx p_cj d_cj gam u_piston, mader_p t xlab dx p_cj d_cj gam u_piston = mr_p t xlab dx p_cj d_cj gam u_piston.
Proof. intros. reflexivity. Qed.
Lemma mirror_c : forall t xlab dx p_cj d_cj gam u_piston, mader_c t xlab dx p_cj d_cj gam u_piston = mr_c t xlab dx d_cj gam u_piston.
Proof. intros. reflexivity. Qed.
Lemma mirror_rho : forall t xlab dx p_cj d_cj gam u_piston, mader_rho t xlab dx p_cj d_cj gam u_piston = mr_rho t xlab dx p_cj d_cj gam u_piston.
Proof. intros. reflexivity. Qed.

(* ---- the average of a power over an interval lies between the end values ---- *)
Lemma power_mean_between : forall n y1 y2, 0 <= n -> 0 < y1 -> y1 < y2 ->
  Rpower y1 n <= (Rpower y2 (n + 1) - Rpower y1 (n + 1)) / ((y2 - y1) * (n + 1)) <= Rpower y2 n.
Proof.
  intros n y1 y2 Hn Hy1 Hlt.
  destruct (MVT_cor2 (fun y => Rpower y (n + 1)) (fun y => (n + 1) * Rpower y (n + 1 - 1)) y1 y2 Hlt) as (c & Hc & Hin).
  { intros c Hc. apply derivable_pt_lim_power. lra. }
  replace (n + 1 - 1) with n in Hc by ring.
  rewrite Hc.
  replace ((n + 1) * Rpower c n * (y2 - y1) / ((y2 - y1) * (n + 1))) with (Rpower c n) by (field; lra).
  destruct (Req_dec n 0) as [E | E].
  - subst n. rewrite !Rpower_O by lra. lra.
  - split; apply Rlt_le; apply Rlt_Rpower_l; lra.
Qed.

Section Admissible.
Variables t xlab dx p_cj d_cj gam u_piston : R.
Hypothesis Ht : 0 < t.
Hypothesis Hdx : 0 < dx.
Hypothesis Hp : 0 < p_cj.
Hypothesis Hd : 0 < d_cj.
Hypothesis Hg : 1 < gam.

Let A := aa t d_cj gam.
Let B := bb d_cj gam.
Let arg := fan_arg t d_cj gam.

Lemma c_cj_pos : 0 < c_cj d_cj gam.
Proof. unfold c_cj, gamp1. apply Rdiv_lt_0_compat; nra. Qed.
Lemma rho_cj_pos : 0 < rho_cj p_cj d_cj gam.
Proof.
  unfold rho_cj, rho_0, gamp1. apply Rdiv_lt_0_compat; [ | lra ]. apply Rmult_lt_0_compat; [ | lra ].
  apply Rdiv_lt_0_compat; [ apply Rmult_lt_0_compat; lra | nra ].
Qed.
Lemma aa_pos : 0 < A.
Proof. pose proof c_cj_pos. unfold A, aa, gamm1, gamp1. apply Rdiv_lt_0_compat; [ lra | ]. apply Rmult_lt_0_compat; nra. Qed.

(* the fan joins the constant state at xp (for every gamma) *)
Lemma fan_arg_xp : arg (xp t d_cj gam u_piston) = cs_arg d_cj gam u_piston.
Proof.
  pose proof c_cj_pos as Hc.
  unfold arg, fan_arg, aa, bb, xp, um, cs_arg, u_cj, gamm1, gamp1 in *.
  set (c := c_cj d_cj gam) in *. clearbody c. field. repeat split; lra.
Qed.
Lemma fan_u_xp : fan_u t d_cj gam (xp t d_cj gam u_piston) = u_piston.
Proof. unfold fan_u, dd, xp, gamp1. field. split; lra. Qed.

Lemma arg_increasing : forall y1 y2, y1 < y2 -> arg y1 < arg y2.
Proof. intros y1 y2 H. pose proof aa_pos. unfold arg, fan_arg. fold A. nra. Qed.

(* averaged power over a cell [ya, ya+w] of the fan, as coded, between the values at the cell edges *)
Lemma avg_pow_between : forall coef n ya w, 0 < coef -> 0 <= n -> 0 < w -> 0 < arg ya ->
  coef * Rpower (arg ya) n <= avg_pow t d_cj gam coef n ya w <= coef * Rpower (arg (ya + w)) n.
Proof.
  intros coef n ya w Hc Hn Hw Hpos.
  pose proof aa_pos as Ha.
  assert (Hlt : arg ya < arg (ya + w)) by (apply arg_increasing; lra).
  pose proof (power_mean_between n (arg ya) (arg (ya + w)) Hn Hpos Hlt) as (L & U).
  assert (Hdiff : arg (ya + w) - arg ya = w * A) by (unfold arg, fan_arg; fold A; ring).
  unfold avg_pow. fold arg. fold A.
  replace (coef * (Rpower (arg (ya + w)) (n + 1) - Rpower (arg ya) (n + 1)) / (w * A * (n + 1)))
    with (coef * ((Rpower (arg (ya + w)) (n + 1) - Rpower (arg ya) (n + 1)) / ((arg (ya + w) - arg ya) * (n + 1)))).
  2:{ rewrite Hdiff. field. repeat split; lra. }
  split; apply Rmult_le_compat_l; lra.
Qed.

(* constant state: positive pressure, density, sound speed whenever the piston does not outrun the escape speed *)
Lemma const_state_positive : 0 < cs_arg d_cj gam u_piston ->
  0 < cs_p p_cj d_cj gam u_piston /\ 0 < cs_c d_cj gam u_piston /\ 0 < cs_rho p_cj d_cj gam u_piston.
Proof.
  intros H. pose proof c_cj_pos. pose proof rho_cj_pos.
  unfold cs_p, cs_c, cs_rho. repeat split.
  - apply Rmult_lt_0_compat; [ exact Hp | unfold Rpower; apply exp_pos ].
  - apply Rmult_lt_0_compat; assumption.
  - apply Rmult_lt_0_compat; [ assumption | unfold Rpower; apply exp_pos ].
Qed.

(* cs_rho is the fan density law at the junction: rho_cj * arg^(2/(gam-1)) *)
Lemma cs_rho_is_fan : 0 < cs_arg d_cj gam u_piston ->
  cs_rho p_cj d_cj gam u_piston = rho_cj p_cj d_cj gam * Rpower (cs_arg d_cj gam u_piston) (dexp gam).
Proof.
  intros H. unfold cs_rho, cs_p, dexp, gamm1.
  replace (p_cj * Rpower (cs_arg d_cj gam u_piston) (2 * gam / (gam - 1)) / p_cj) with (Rpower (cs_arg d_cj gam u_piston) (2 * gam / (gam - 1))) by (field; lra).
  rewrite Rpower_mult. f_equal. f_equal. field. lra.
Qed.

(* ---- a fan cell ---- *)
Theorem fan_cell_between :
  in_fan t xlab dx d_cj gam u_piston -> 0 < arg (x1 t xlab dx d_cj) ->
  let xa := x1 t xlab dx d_cj in let xb := x2 t xlab dx d_cj in
  fan_p t p_cj d_cj gam xa <= mr_p t xlab dx p_cj d_cj gam u_piston <= fan_p t p_cj d_cj gam xb /\
  fan_rho t p_cj d_cj gam xa <= mr_rho t xlab dx p_cj d_cj gam u_piston <= fan_rho t p_cj d_cj gam xb /\
  fan_u t d_cj gam xa <= mr_u t xlab dx d_cj gam u_piston <= fan_u t d_cj gam xb /\
  fan_c t d_cj gam xa <= mr_c t xlab dx d_cj gam u_piston <= fan_c t d_cj gam xb.
Proof.
  intros (F1 & F2) Hpos xa xb.
  pose proof rho_cj_pos as Hr. pose proof c_cj_pos as Hc. pose proof aa_pos as Ha.
  assert (Hb : 0 <= bexp gam) by (unfold bexp, gamm1; apply Rlt_le, Rdiv_lt_0_compat; lra).
  assert (Hdx' : 0 <= dexp gam) by (unfold dexp, gamm1; apply Rlt_le, Rdiv_lt_0_compat; lra).
  unfold mr_p, mr_rho, mr_u, mr_c, sel.
  destruct (Rlt_dec (1 / 10 * dx) (Rabs (xdet t xlab d_cj - xp t d_cj gam u_piston))) as [G1 | G1]; [ | contradiction ].
  destruct (Rlt_dec (xp t d_cj gam u_piston) (xdet t xlab d_cj)) as [G2 | G2]; [ | contradiction ].
  unfold xb, x2. fold xa.
  split; [ | split; [ | split ] ].
  - unfold fan_p. fold arg. apply avg_pow_between; assumption.
  - unfold fan_rho. fold arg. apply avg_pow_between; assumption.
  - unfold fan_u, dd, gamp1. assert (0 < 2 / (t * (gam + 1))) by (apply Rdiv_lt_0_compat; nra). split; nra.
  - unfold fan_c. fold arg.
    pose proof (arg_increasing xa (xa + 1 / 2 * dx)). pose proof (arg_increasing (xa + 1 / 2 * dx) (xa + dx)).
    split; apply Rmult_le_compat_l; lra.
Qed.

(* ---- the cell that straddles the tail of the Taylor wave ---- *)
Lemma blend_between : forall cst fanpart top, cst <= fanpart -> fanpart <= top ->
  0 <= 2 * hh t xlab dx d_cj gam u_piston / dx <= 1 ->
  cst <= blend t xlab dx d_cj gam u_piston cst fanpart <= top.
Proof.
  intros cst fanpart top H1 H2 (W1 & W2). unfold blend.
  replace (cst + (fanpart - cst) * 2 * hh t xlab dx d_cj gam u_piston / dx)
    with (cst + (fanpart - cst) * (2 * hh t xlab dx d_cj gam u_piston / dx)) by (field; lra).
  set (w := 2 * hh t xlab dx d_cj gam u_piston / dx) in *. nra.
Qed.

Theorem transition_cell_between :
  in_transition t xlab dx d_cj gam u_piston -> 0 < cs_arg d_cj gam u_piston ->
  let xb := x2 t xlab dx d_cj in
  cs_p p_cj d_cj gam u_piston <= mr_p t xlab dx p_cj d_cj gam u_piston <= fan_p t p_cj d_cj gam xb /\
  cs_rho p_cj d_cj gam u_piston <= mr_rho t xlab dx p_cj d_cj gam u_piston <= fan_rho t p_cj d_cj gam xb /\
  u_piston <= mr_u t xlab dx d_cj gam u_piston <= fan_u t d_cj gam xb /\
  cs_c d_cj gam u_piston <= mr_c t xlab dx d_cj gam u_piston <= fan_c t d_cj gam xb.
Proof.
  intros Htr Hcs xb.
  pose proof rho_cj_pos as Hr. pose proof c_cj_pos as Hc. pose proof aa_pos as Ha.
  assert (Hb : 0 <= bexp gam) by (unfold bexp, gamm1; apply Rlt_le, Rdiv_lt_0_compat; lra).
  assert (Hdx' : 0 <= dexp gam) by (unfold dexp, gamm1; apply Rlt_le, Rdiv_lt_0_compat; lra).
  unfold in_transition in Htr.
  set (XP := xp t d_cj gam u_piston) in *. set (XD := xdet t xlab d_cj) in *.
  assert (Habs : - (1 / 10 * dx) <= XD - XP <= 1 / 10 * dx) by (apply Rabs_le_between; exact Htr).
  assert (Hdxp : dxp t xlab dx d_cj gam u_piston = XD + 1 / 2 * dx - XP) . { unfold dxp, x2, x1, XD, XP. lra. }
  assert (Hdxp_pos : 0 < dxp t xlab dx d_cj gam u_piston) by lra.
  assert (Hw : 0 <= 2 * hh t xlab dx d_cj gam u_piston / dx <= 1).
  { unfold hh. replace (2 * (dxp t xlab dx d_cj gam u_piston / 2) / dx) with (dxp t xlab dx d_cj gam u_piston / dx) by (field; lra).
    split; [ apply Rlt_le, Rdiv_lt_0_compat; lra | ].
    apply (Rmult_le_reg_r dx); [ exact Hdx | ]. replace (dxp t xlab dx d_cj gam u_piston / dx * dx) with (dxp t xlab dx d_cj gam u_piston) by (field; lra). lra. }
  assert (Hxb : XP + dxp t xlab dx d_cj gam u_piston = xb) by (unfold xb, dxp; fold XP; ring).
  assert (Hargxp : arg XP = cs_arg d_cj gam u_piston) by (apply fan_arg_xp).
  assert (Hargpos : 0 < arg XP) by lra.
  unfold mr_p, mr_rho, mr_u, mr_c, sel. fold XP XD.
  assert (Hsel : forall A0 B0 C0 : R,
     (if Rlt_dec (1 / 10 * dx) (Rabs (XD - XP)) then (if Rlt_dec XP XD then A0 else (if Rle_dec (Rabs (XD - XP)) (1 / 10 * dx) then B0 else C0))
      else (if Rle_dec (Rabs (XD - XP)) (1 / 10 * dx) then B0 else C0)) = B0).
  { intros A0 B0 C0. destruct (Rlt_dec (1 / 10 * dx) (Rabs (XD - XP))) as [G | G]; [ exfalso; lra | ].
    destruct (Rle_dec (Rabs (XD - XP)) (1 / 10 * dx)) as [G' | G']; [ reflexivity | contradiction ]. }
  rewrite !Hsel.
  unfold tr_p, tr_rho, tr_u, tr_c. fold XP.
  split; [ | split; [ | split ] ].
  - (* pressure *)
    pose proof (avg_pow_between p_cj (bexp gam) XP (dxp t xlab dx d_cj gam u_piston) Hp Hb Hdxp_pos Hargpos) as (L & U).
    rewrite Hxb in U.
    apply blend_between; try assumption.
    unfold cs_p. rewrite <- Hargxp. exact L.
  - (* density *)
    pose proof (avg_pow_between (rho_cj p_cj d_cj gam) (dexp gam) XP (dxp t xlab dx d_cj gam u_piston) Hr Hdx' Hdxp_pos Hargpos) as (L & U).
    rewrite Hxb in U.
    apply blend_between; try assumption.
    rewrite (cs_rho_is_fan Hcs), <- Hargxp. exact L.
  - (* velocity *)
    apply blend_between; try assumption.
    + rewrite <- (fan_u_xp) at 1. fold XP. unfold fan_u, dd, gamp1, hh.
      assert (0 < 2 / (t * (gam + 1))) by (apply Rdiv_lt_0_compat; nra). nra.
    + unfold fan_u, dd, gamp1, hh. rewrite <- Hxb.
      assert (0 < 2 / (t * (gam + 1))) by (apply Rdiv_lt_0_compat; nra). nra.
  - (* sound speed *)
    apply blend_between; try assumption.
    + unfold cs_c, fan_c. rewrite <- Hargxp. fold arg.
      pose proof (arg_increasing XP (XP + hh t xlab dx d_cj gam u_piston)). unfold hh in *.
      apply Rmult_le_compat_l; lra.
    + unfold fan_c. fold arg. rewrite <- Hxb.
      pose proof (arg_increasing (XP + hh t xlab dx d_cj gam u_piston) (XP + dxp t xlab dx d_cj gam u_piston)). unfold hh in *.
      apply Rmult_le_compat_l; lra.
Qed.
End Admissible.

(* ---- CJ state coded in rare(): jump conditions across the detonation front, sonic condition, and the
   gamma-law sound speed of the Taylor wave (used by C02 / C03) ---- *)
Lemma mader_cj_state_proof : forall p_cj d_cj gam, 0 < p_cj -> 0 < d_cj -> 1 < gam ->
  (* mass *)     rho_0 p_cj d_cj gam * d_cj = rho_cj p_cj d_cj gam * (d_cj - u_cj d_cj gam) /\
  (* momentum *) p_cj = rho_0 p_cj d_cj gam * d_cj * u_cj d_cj gam /\
  (* sonic *)    u_cj d_cj gam + c_cj d_cj gam = d_cj /\
  (* c^2 = gamma p / rho at CJ *) c_cj d_cj gam ^ 2 = gam * p_cj / rho_cj p_cj d_cj gam.
Proof.
  intros p_cj d_cj gam Hp Hd Hg. unfold rho_cj, rho_0, u_cj, c_cj, gamp1.
  split; [ field; split; lra | split; [ field; split; lra | split; [ field; lra | field; repeat split; lra ] ] ].
Qed.

Lemma mader_fan_sound_speed_proof : forall t p_cj d_cj gam y, 0 < p_cj -> 0 < d_cj -> 1 < gam -> 0 < fan_arg t d_cj gam y ->
  fan_c t d_cj gam y ^ 2 = gam * fan_p t p_cj d_cj gam y / fan_rho t p_cj d_cj gam y /\
  fan_p t p_cj d_cj gam y / Rpower (fan_rho t p_cj d_cj gam y) gam = p_cj / Rpower (rho_cj p_cj d_cj gam) gam.
Proof.
  intros t p_cj d_cj gam y Hp Hd Hg Ha.
  destruct (mader_cj_state_proof p_cj d_cj gam Hp Hd Hg) as (_ & _ & _ & Hc).
  assert (Hr : 0 < rho_cj p_cj d_cj gam).
  { unfold rho_cj, rho_0, gamp1. apply Rdiv_lt_0_compat; [ | lra ]. apply Rmult_lt_0_compat; [ | lra ].
    apply Rdiv_lt_0_compat; [ apply Rmult_lt_0_compat; lra | nra ]. }
  unfold fan_c, fan_p, fan_rho, bexp, dexp, gamm1. set (A := fan_arg t d_cj gam y) in *.
  assert (HB : Rpower A (2 * gam / (gam - 1)) = Rpower A (2 / (gam - 1)) * (A * A)).
  { replace (2 * gam / (gam - 1)) with (2 / (gam - 1) + 1 + 1) by (field; lra). rewrite !Rpower_plus, Rpower_1 by exact Ha. ring. }
  assert (HP : 0 < Rpower A (2 / (gam - 1))) by (unfold Rpower; apply exp_pos).
  split.
  - rewrite HB. replace ((c_cj d_cj gam * A) ^ 2) with (c_cj d_cj gam ^ 2 * (A * A)) by ring. rewrite Hc. field. split; lra.
  - rewrite <- Rpower_mult_distr by assumption. rewrite Rpower_mult.
    replace (2 / (gam - 1) * gam) with (2 * gam / (gam - 1)) by (field; lra).
    assert (0 < Rpower A (2 * gam / (gam - 1))) by (unfold Rpower; apply exp_pos).
    assert (0 < Rpower (rho_cj p_cj d_cj gam) gam) by (unfold Rpower; apply exp_pos).
    field. split; lra.
Qed.
