(* C01 for Coggeshall 9.  *)
From Coq Require Import Reals Lra.
From Coquelicot Require Import Coquelicot.
From EP Require Import lib.Base lib.Euler lib.Tactics gen.Cog9.
Open Scope R_scope.

Lemma cog9_pde_proof :
  forall geometry gamma alpha beta rho0 Gamma K0 r t,
  0 < r -> 0 < t -> 0 < rho0 -> gamma <> 1 -> Gamma <> 0 -> alpha <> 0 -> 2 + (gamma - 1) * (geometry - 1 + 1) <> 0 -> 2 * alpha - 2 * beta - (geometry - 1) - 7 <> 0 -> geometry - 1 + 1 <> 0 -> 0 < 2 * alpha * (gamma - 1) * (geometry - 1 + 1) / Gamma / (2 + (gamma - 1) * (geometry - 1 + 1)) ^ 2 / (2 * alpha - 2 * beta - (geometry - 1) - 7) ->
  euler_heat_at (geometry - 1) K0 alpha beta
    (cog9_density geometry gamma alpha beta rho0 Gamma)
    (cog9_velocity geometry gamma alpha beta rho0 Gamma)
    (cog9_temperature geometry gamma alpha beta rho0 Gamma)
    (cog9_pressure geometry gamma alpha beta rho0 Gamma)
    (cog9_specific_internal_energy geometry gamma alpha beta rho0 Gamma) r t.
Proof. intros. heat_solve 2. Qed.
