(* Ideal-gas Riemann solver: the shock functions of riemann/utils.py satisfy the three Rankine-Hugoniot
   relations for EVERY star pressure (C02), with the velocity/density/shock-speed formulas as the
   driver combines them for the left and for the right state. *)
From Coq Require Import Reals Lra Psatz.
From Coquelicot Require Import Coquelicot.
From EP Require Import lib.Base lib.Tactics lib.RH gen.Riemann.
Open Scope R_scope.

Section Shock.
Variables p r u g px : R.
Hypothesis Hp : 0 < p.
Hypothesis Hr : 0 < r.
Hypothesis Hg : 1 < g.
Hypothesis Hpx : 0 < px.

(* mass flux through the shock *)
Definition mflux : R := sqrt (r * ((g + 1) / 2 * px + (g - 1) / 2 * p)).

Lemma mflux_sq : mflux * mflux = r * ((g + 1) / 2 * px + (g - 1) / 2 * p).
Proof. unfold mflux. apply sqrt_sqrt. apply Rlt_le. apply Rmult_lt_0_compat; nra. Qed.

Lemma mflux_pos : 0 < mflux.
Proof. unfold mflux. apply sqrt_lt_R0. apply Rmult_lt_0_compat; nra. Qed.

Lemma shock_fn_eq : rie_shock px p r u g = (px - p) / mflux + u.
Proof.
  pose proof mflux_pos as Hm. pose proof mflux_sq as Hm2.
  assert (Hs : sqrt (2 / (g + 1) / r / (px + (g - 1) / (g + 1) * p)) = / mflux).
  { apply Rsqr_inj; [ apply sqrt_pos | apply Rlt_le, Rinv_0_lt_compat; exact Hm | ].
    unfold Rsqr. rewrite sqrt_sqrt.
    - rewrite <- Rinv_mult. rewrite Hm2. field. repeat split; nra.
    - apply Rlt_le. apply Rdiv_lt_0_compat.
      + apply Rdiv_lt_0_compat; [ apply Rdiv_lt_0_compat; lra | lra ].
      + assert (0 < (g - 1) / (g + 1)) by (apply Rdiv_lt_0_compat; lra). nra. }
  unfold rie_shock. rewrite Hs. field. lra.
Qed.

Lemma sound_times_sqrt : rie_sound_speed p r g * sqrt ((g + 1) * px / 2 / g / p + (g - 1) / 2 / g) = mflux / r.
Proof.
  pose proof mflux_pos as Hm. pose proof mflux_sq as Hm2.
  unfold rie_sound_speed. rewrite <- sqrt_mult.
  - apply Rsqr_inj; [ apply sqrt_pos | apply Rlt_le, Rdiv_lt_0_compat; assumption | ].
    unfold Rsqr. rewrite sqrt_sqrt.
    + replace (mflux / r * (mflux / r)) with (mflux * mflux / (r * r)) by (field; lra).
      rewrite Hm2. field. repeat split; lra.
    + apply Rlt_le. apply Rmult_lt_0_compat.
      * apply Rdiv_lt_0_compat; nra.
      * assert (0 < (g + 1) * px / 2 / g / p) by (repeat apply Rdiv_lt_0_compat; nra).
        assert (0 < (g - 1) / 2 / g) by (repeat apply Rdiv_lt_0_compat; lra). lra.
  - apply Rlt_le, Rdiv_lt_0_compat; nra.
  - assert (0 < (g + 1) * px / 2 / g / p) by (repeat apply Rdiv_lt_0_compat; nra).
    assert (0 < (g - 1) / 2 / g) by (repeat apply Rdiv_lt_0_compat; lra). lra.
Qed.

(* px expressed through the mass flux *)
Lemma px_of_mflux : px = (2 * (mflux * mflux) / r - (g - 1) * p) / (g + 1).
Proof. rewrite mflux_sq. field. split; lra. Qed.

(* left-facing shock: pre-shock state (r,u,p) on the left, star state on the right, speed u - m/r *)
Lemma left_shock_rh :
  rh_jump (u - mflux / r) r u p (rie_sie p r g)
          (rie_rho_star_shock px p r g) (u - (px - p) / mflux) px (rie_sie px (rie_rho_star_shock px p r g) g).
Proof.
  pose proof mflux_pos as Hm. pose proof px_of_mflux as Hx.
  unfold rh_jump, rie_sie, rie_rho_star_shock.
  set (m := mflux) in *. clearbody m. subst px.
  assert (Hd : (2 * (m * m) / r - (g - 1) * p) / (g + 1) * (g - 1) + p * (g + 1) <> 0).
  { apply Rgt_not_eq. assert (0 < (2 * (m * m) / r - (g - 1) * p) / (g + 1)) by exact Hpx.
    assert (0 < (2 * (m * m) / r - (g - 1) * p) / (g + 1) * (g - 1)) by (apply Rmult_lt_0_compat; lra). nra. }
  assert (Hn : p * (g - 1) + (2 * (m * m) / r - (g - 1) * p) / (g + 1) * (g + 1) <> 0).
  { apply Rgt_not_eq. replace (p * (g - 1) + (2 * (m * m) / r - (g - 1) * p) / (g + 1) * (g + 1)) with (2 * (m * m) / r) by (field; lra).
    apply Rdiv_lt_0_compat; nra. }
  assert (Hq : 0 < 2 * (m * m) - (g - 1) * p * r).
  { assert (H1 : 0 < 2 * (m * m) / r - (g - 1) * p).
    { apply (Rmult_lt_reg_r (/ (g + 1))); [ apply Rinv_0_lt_compat; lra | rewrite Rmult_0_l; exact Hpx ]. }
    replace (2 * (m * m) - (g - 1) * p * r) with ((2 * (m * m) / r - (g - 1) * p) * r) by (field; lra).
    apply Rmult_lt_0_compat; assumption. }
  repeat split; field; repeat split; try lra; try assumption;
    try (apply Rgt_not_eq; apply Rplus_lt_0_compat;
         [ apply Rmult_lt_0_compat; lra | repeat apply Rmult_lt_0_compat; lra ]);
    try (apply Rgt_not_eq; nra).
Qed.

(* right-facing shock: star state on the left, pre-shock state (r,u,p) on the right, speed u + m/r *)
Lemma right_shock_rh :
  rh_jump (u + mflux / r)
          (rie_rho_star_shock px p r g) (u + (px - p) / mflux) px (rie_sie px (rie_rho_star_shock px p r g) g)
          r u p (rie_sie p r g).
Proof.
  pose proof mflux_pos as Hm. pose proof px_of_mflux as Hx.
  unfold rh_jump, rie_sie, rie_rho_star_shock.
  set (m := mflux) in *. clearbody m. subst px.
  assert (Hd : (2 * (m * m) / r - (g - 1) * p) / (g + 1) * (g - 1) + p * (g + 1) <> 0).
  { apply Rgt_not_eq. assert (0 < (2 * (m * m) / r - (g - 1) * p) / (g + 1)) by exact Hpx.
    assert (0 < (2 * (m * m) / r - (g - 1) * p) / (g + 1) * (g - 1)) by (apply Rmult_lt_0_compat; lra). nra. }
  assert (Hn : p * (g - 1) + (2 * (m * m) / r - (g - 1) * p) / (g + 1) * (g + 1) <> 0).
  { apply Rgt_not_eq. replace (p * (g - 1) + (2 * (m * m) / r - (g - 1) * p) / (g + 1) * (g + 1)) with (2 * (m * m) / r) by (field; lra).
    apply Rdiv_lt_0_compat; nra. }
  assert (Hq : 0 < 2 * (m * m) - (g - 1) * p * r).
  { assert (H1 : 0 < 2 * (m * m) / r - (g - 1) * p).
    { apply (Rmult_lt_reg_r (/ (g + 1))); [ apply Rinv_0_lt_compat; lra | rewrite Rmult_0_l; exact Hpx ]. }
    replace (2 * (m * m) - (g - 1) * p * r) with ((2 * (m * m) / r - (g - 1) * p) * r) by (field; lra).
    apply Rmult_lt_0_compat; assumption. }
  repeat split; field; repeat split; try lra; try assumption;
    try (apply Rgt_not_eq; apply Rplus_lt_0_compat;
         [ apply Rmult_lt_0_compat; lra | repeat apply Rmult_lt_0_compat; lra ]);
    try (apply Rgt_not_eq; nra).
Qed.
End Shock.

(* ---- as used by RiemannIGEOS.driver ---- *)
Lemma igeos_left_shock_rh_proof :
  forall pl rl ul gl px, 0 < pl -> 0 < rl -> 1 < gl -> 0 < px ->
  rh_jump (rie_shock_velocityL px gl pl rl ul)
          rl ul pl (rie_sie pl rl gl)
          (rie_rho_star_shock px pl rl gl) (ul + (-1) * rie_shock px pl rl 0 gl) px
          (rie_sie px (rie_rho_star_shock px pl rl gl) gl).
Proof.
  intros pl rl ul gl px Hp Hr Hg Hpx.
  rewrite (shock_fn_eq pl rl 0 gl px Hp Hr Hg Hpx).
  replace (rie_shock_velocityL px gl pl rl ul) with (ul - mflux pl rl gl px / rl).
  2:{ unfold rie_shock_velocityL. rewrite <- (sound_times_sqrt pl rl gl px Hp Hr Hg Hpx).
      unfold rie_sound_speed. ring. }
  replace (ul + -1 * ((px - pl) / mflux pl rl gl px + 0)) with (ul - (px - pl) / mflux pl rl gl px) by ring.
  apply left_shock_rh; assumption.
Qed.

Lemma igeos_right_shock_rh_proof :
  forall pl rl ul pr rr ur gr px, 0 < pr -> 0 < rr -> 1 < gr -> 0 < px ->
  ~ (pr = pl /\ ur = ul /\ rr = rl) ->
  rh_jump (rie_shock_velocityR px gr pl pr rl rr ul ur)
          (rie_rho_star_shock px pr rr gr) (ur + rie_shock px pr rr 0 gr) px
          (rie_sie px (rie_rho_star_shock px pr rr gr) gr)
          rr ur pr (rie_sie pr rr gr).
Proof.
  intros pl rl ul pr rr ur gr px Hp Hr Hg Hpx Hdiff.
  rewrite (shock_fn_eq pr rr 0 gr px Hp Hr Hg Hpx).
  replace (rie_shock_velocityR px gr pl pr rl rr ul ur) with (ur + mflux pr rr gr px / rr).
  2:{ unfold rie_shock_velocityR. rewrite <- (sound_times_sqrt pr rr gr px Hp Hr Hg Hpx).
      unfold rie_sound_speed.
      destruct (Req_EM_T pr pl); [ destruct (Req_EM_T ur ul); [ destruct (Req_EM_T rr rl) | ] | ];
        try ring. exfalso. apply Hdiff. auto. }
  replace (ur + ((px - pr) / mflux pr rr gr px + 0)) with (ur + (px - pr) / mflux pr rr gr px) by ring.
  apply right_shock_rh; assumption.
Qed.
