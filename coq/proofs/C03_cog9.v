(* C03 for cog9: returned thermodynamic fields satisfy the declared EOS. P = Gamma rho T, e = Gamma T/(gamma-1) *)
From Coq Require Import Reals Lra.
From EP Require Import lib.Base lib.Tactics gen.Cog9.
Open Scope R_scope.

Lemma cog9_eos_proof :
  forall geometry gamma alpha beta rho0 Gamma r t,
  cog9_defined geometry gamma alpha beta rho0 Gamma r t ->
  cog9_density geometry gamma alpha beta rho0 Gamma r t <> 0 ->
  gamma - 1 <> 0 ->
  cog9_pressure geometry gamma alpha beta rho0 Gamma r t = Gamma * (cog9_density geometry gamma alpha beta rho0 Gamma r t) * (cog9_temperature geometry gamma alpha beta rho0 Gamma r t) /\
  cog9_specific_internal_energy geometry gamma alpha beta rho0 Gamma r t = Gamma * (cog9_temperature geometry gamma alpha beta rho0 Gamma r t) / (gamma - 1) /\
  cog9_pressure geometry gamma alpha beta rho0 Gamma r t = (gamma - 1) * (cog9_density geometry gamma alpha beta rho0 Gamma r t) * (cog9_specific_internal_energy geometry gamma alpha beta rho0 Gamma r t).
Proof. unfold cog9_defined. eos_solve. Qed.
