(* C19: closed-form state functions of the steady 2-D Riemann solver, regenerated from the source.
   Oblique shock parameterised by the downstream pressure: Rankine-Hugoniot energy relation, conservation of total
   enthalpy, and the theta-beta-M relation; Prandtl-Meyer fan: isentropic, total enthalpy conserved. *)
From Coq Require Import Reals Lra Psatz.
From Coquelicot Require Import Coquelicot.
From Interval Require Import Tactic.
From EP Require Import lib.Base gen.Riemann2D.
Open Scope R_scope.

(* the solver recomputes the upstream Mach number from the velocity components *)
Lemma mach_recomputed_sq : forall M0 q a, 0 < q ->
  (sqrt (((M0 * sqrt q * cos a) ^ 2 + (M0 * sqrt q * sin a) ^ 2) / q)) ^ 2 = M0 ^ 2.
Proof.
  intros M0 q a Hq.
  assert (Hs : sqrt q * sqrt q = q) by (apply sqrt_sqrt; lra).
  assert (Hsc : sin a ^ 2 + cos a ^ 2 = 1) by (pose proof (sin2_cos2 a) as H; unfold Rsqr in H; simpl; lra).
  replace (((M0 * sqrt q * cos a) ^ 2 + (M0 * sqrt q * sin a) ^ 2) / q) with (M0 ^ 2).
  - apply pow2_sqrt. apply pow2_ge_0.
  - replace ((M0 * sqrt q * cos a) ^ 2 + (M0 * sqrt q * sin a) ^ 2) with (M0 ^ 2 * (sqrt q * sqrt q) * (sin a ^ 2 + cos a ^ 2)) by ring.
    rewrite Hs, Hsc. field. lra.
Qed.

Section Shock.
Variables ps p0 r0 M0 th g : R.
Hypothesis Hp0 : 0 < p0.
Hypothesis Hps : 0 < ps.
Hypothesis Hr0 : 0 < r0.
Hypothesis Hg : 1 < g.
Let alpha := ps / p0.
Let rho2 := r2d_shock_density ps p0 r0 g.
Let M2 := r2d_shock_Mach ps p0 r0 M0 th g.

Lemma q_pos : 0 < g * p0 / r0.
Proof. apply Rdiv_lt_0_compat; nra. Qed.

Lemma alpha_pos : 0 < alpha.
Proof. unfold alpha. apply Rdiv_lt_0_compat; assumption. Qed.

(* Rankine-Hugoniot energy relation for the ideal gas e = p / ((g-1) rho) *)
Lemma r2d_shock_hugoniot_proof :
  ps / ((g - 1) * rho2) - p0 / ((g - 1) * r0) = (p0 + ps) / 2 * (1 / r0 - 1 / rho2).
Proof.
  unfold rho2, r2d_shock_density. pose proof alpha_pos as Ha. unfold alpha in Ha.
  assert (H1 : 0 < (g + 1) * (ps / p0) + g - 1) by nra.
  assert (H2 : 0 < (g - 1) * (ps / p0) + g + 1) by nra.
  assert (H3 : (g + 1) * ps + g * p0 - p0 <> 0) by nra.
  assert (H4 : (g - 1) * ps + g * p0 + p0 <> 0) by nra.
  field. repeat split; lra.
Qed.

(* total enthalpy  c^2/(g-1) + q^2/2  is the same on both sides, provided the downstream Mach number is real *)
Lemma r2d_shock_total_enthalpy_proof :
  0 <= ((M0 ^ 2 * ((g + 1) * alpha + g - 1) - 2 * (alpha ^ 2 - 1)) / alpha) / ((g - 1) * alpha + g + 1) ->
  g * p0 / r0 / (g - 1) + M0 ^ 2 * (g * p0 / r0) / 2 = g * ps / rho2 / (g - 1) + M2 ^ 2 * (g * ps / rho2) / 2.
Proof.
  intros Hrad. unfold M2, r2d_shock_Mach.
  replace (g * p0 / r0) with (g * p0 / r0) by reflexivity.
  replace (M0 * sqrt (g * p0 / r0) * cos (th / 180 * PI)) with (M0 * sqrt (g * p0 / r0) * cos (th / 180 * PI)) by reflexivity.
  rewrite (mach_recomputed_sq M0 (g * p0 / r0) (th / 180 * PI) q_pos).
  fold alpha.
  match goal with |- context [sqrt ?y ^ 2] => replace (sqrt y ^ 2) with y by (symmetry; apply pow2_sqrt; exact Hrad) end.
  unfold rho2, r2d_shock_density. fold alpha. pose proof alpha_pos as Ha.
  assert (H1 : 0 < (g + 1) * alpha + g - 1) by nra.
  assert (H2 : 0 < (g - 1) * alpha + g + 1) by nra.
  unfold alpha in *.
  assert (H3 : (g + 1) * ps + g * p0 - p0 <> 0) by nra.
  assert (H4 : (g - 1) * ps + g * p0 + p0 <> 0) by nra.
  field. repeat split; lra.
Qed.

(* theta-beta-M: with beta the wave angle that produces this pressure ratio, sin^2 beta = ((g+1) alpha + g - 1) / (2 g M0^2)
   (equivalently alpha = 1 + 2g/(g+1) (M0^2 sin^2 beta - 1)), the coded deflection angle satisfies the oblique-shock relation
   the solver itself uses to locate the shock (get_shock_contact_angle) *)
Lemma r2d_shock_theta_beta_M_proof : forall beta, 0 < M0 -> 0 < beta < PI / 2 ->
  sin beta ^ 2 = ((g + 1) * alpha + g - 1) / (2 * g * M0 ^ 2) ->
  g * M0 ^ 2 - alpha + 1 <> 0 ->
  tan (r2d_shock_deflection ps p0 r0 M0 th g) = r2d_theta_beta_M beta M0 g.
Proof.
  intros beta HM [Hb0 Hb1] Hs Hden.
  unfold r2d_shock_deflection. rewrite tan_atan.
  rewrite (mach_recomputed_sq M0 (g * p0 / r0) (th / 180 * PI) q_pos). fold alpha.
  assert (Hsb : 0 < sin beta) by (apply sin_gt_0; lra).
  assert (Hcb : 0 < cos beta) by (apply cos_gt_0; lra).
  assert (Hsc : sin beta ^ 2 + cos beta ^ 2 = 1) by (pose proof (sin2_cos2 beta) as H; unfold Rsqr in H; simpl; lra).
  assert (HM2 : 0 < M0 ^ 2) by (apply pow_lt; exact HM).
  assert (Hnum : (g + 1) * alpha + g - 1 = 2 * g * M0 ^ 2 * sin beta ^ 2) by (rewrite Hs; field; nra).
  replace (2 * g * M0 ^ 2 / ((g + 1) * alpha + g - 1) - 1) with ((cos beta / sin beta) ^ 2).
  2:{ rewrite Hnum. replace (cos beta ^ 2) with (1 - sin beta ^ 2) by lra || idtac. field_simplify_eq; [ nra | repeat split; nra ]. }
  replace (sqrt ((cos beta / sin beta) ^ 2)) with (cos beta / sin beta).
  2:{ symmetry. simpl. rewrite Rmult_1_r. apply sqrt_square. apply Rlt_le, Rdiv_lt_0_compat; assumption. }
  assert (Halpha : alpha = (2 * g * M0 ^ 2 * sin beta ^ 2 - g + 1) / (g + 1)) by (apply (Rmult_eq_reg_l (g + 1)); [ | lra ]; field_simplify_eq; lra).
  unfold r2d_theta_beta_M, tan. rewrite cos_2a_sin.
  rewrite Halpha in Hden |- *.
  field. repeat split; try lra; try nra.
Qed.
End Shock.

Section Fan.
Variables ps p0 r0 M0 th g : R.
Hypothesis Hp0 : 0 < p0.
Hypothesis Hps : 0 < ps.
Hypothesis Hr0 : 0 < r0.
Hypothesis Hg : 1 < g.
Let alpha := ps / p0.
Let rho2 := r2d_fan_density ps p0 r0 g.
Let M2 := r2d_fan_Mach ps p0 r0 M0 th g.

Lemma fan_alpha_pos : 0 < alpha.
Proof. unfold alpha. apply Rdiv_lt_0_compat; assumption. Qed.

(* the fan is isentropic: p / rho^g is unchanged *)
Lemma r2d_fan_isentropic_proof : ps / Rpower rho2 g = p0 / Rpower r0 g.
Proof.
  unfold rho2, r2d_fan_density. fold alpha. pose proof fan_alpha_pos as Ha.
  rewrite <- Rpower_mult_distr by (try assumption; apply exp_pos).
  rewrite Rpower_mult. replace (1 / g * g) with 1 by (field; lra). rewrite Rpower_1 by assumption.
  unfold alpha. field. repeat split; try lra; apply Rgt_not_eq, exp_pos.
Qed.

(* and conserves total enthalpy, provided the downstream Mach number is real *)
Lemma r2d_fan_total_enthalpy_proof :
  0 <= (((g - 1) * M0 ^ 2 / 2 + 1) / Rpower alpha ((g - 1) / g) - 1) * 2 / (g - 1) ->
  g * p0 / r0 / (g - 1) + M0 ^ 2 * (g * p0 / r0) / 2 = g * ps / rho2 / (g - 1) + M2 ^ 2 * (g * ps / rho2) / 2.
Proof.
  intros Hrad. unfold M2, r2d_fan_Mach.
  assert (Hq : 0 < g * p0 / r0) by (apply Rdiv_lt_0_compat; nra).
  rewrite (mach_recomputed_sq M0 (g * p0 / r0) (th / 180 * PI) Hq). fold alpha.
  match goal with |- context [sqrt ?y ^ 2] => replace (sqrt y ^ 2) with y by (symmetry; apply pow2_sqrt; exact Hrad) end.
  unfold rho2, r2d_fan_density. fold alpha. pose proof fan_alpha_pos as Ha.
  (* alpha = A^(g/(g-1)) with A = alpha^((g-1)/g);  alpha^(1/g) = alpha / A *)
  set (A := Rpower alpha ((g - 1) / g)).
  assert (HA : 0 < A) by apply exp_pos.
  assert (H1g : Rpower alpha (1 / g) = alpha / A).
  { unfold A. replace (alpha / Rpower alpha ((g - 1) / g)) with (Rpower alpha 1 * / Rpower alpha ((g - 1) / g)) by (rewrite Rpower_1 by assumption; reflexivity).
    rewrite <- Rpower_Ropp, <- Rpower_plus. f_equal. field. lra. }
  rewrite H1g. replace ps with (alpha * p0) by (unfold alpha; field; lra).
  field. repeat split; lra.
Qed.
End Fan.

(* ---- Prandtl-Meyer function.  nu(M) = sqrt((g+1)/(g-1)) atan(sqrt((g-1)/(g+1) (M^2-1))) - atan(sqrt(M^2-1)) *)
Definition prandtl_meyer (M g : R) : R :=
  sqrt ((g + 1) / (g - 1)) * atan (sqrt ((g - 1) / (g + 1) * (M ^ 2 - 1))) - atan (sqrt (M ^ 2 - 1)).

(* the coded function is a different function: at M = 2, g = 1.4 it gives 0.2586 instead of 0.4604 rad
   (second term arctan(M^2-1) instead of arctan(sqrt(M^2-1)); the test-suite pins the coded value) *)
Lemma r2d_prandtl_meyer_refuted_proof :
  Rabs (prandtl_meyer 2 (7 / 5) - 4604 / 10000) <= 1 / 10000 /\ Rabs (r2d_prandtl_meyer 2 (7 / 5) - 2586 / 10000) <= 1 / 10000.
Proof.
  unfold prandtl_meyer, r2d_prandtl_meyer. split; interval with (i_prec 60).
Qed.

(* the two agree in their first term ... *)
Lemma r2d_prandtl_meyer_difference_proof : forall M g, 1 < g -> 1 <= M ->
  r2d_prandtl_meyer M g - prandtl_meyer M g = atan (sqrt (M ^ 2 - 1)) - atan (M ^ 2 - 1).
Proof.
  intros M g Hg HM. unfold r2d_prandtl_meyer, prandtl_meyer.
  assert (H0 : 0 <= M ^ 2 - 1) by nra.
  assert (Hq : 0 < (g + 1) / (g - 1)) by (apply Rdiv_lt_0_compat; lra).
  replace (sqrt (M ^ 2 - 1) / sqrt ((g + 1) / (g - 1))) with (sqrt ((g - 1) / (g + 1) * (M ^ 2 - 1))); [ ring | ].
  rewrite <- sqrt_div_alt by exact Hq. f_equal. field. lra.
Qed.

(* the reference function satisfies the defining differential relation of the Prandtl-Meyer angle, d nu / dM = sqrt(M^2-1) / (M (1 + (g-1)/2 M^2)) *)
Lemma prandtl_meyer_ode_proof : forall M g, 1 < g -> 1 < M ->
  is_derive (fun m => prandtl_meyer m g) M (sqrt (M ^ 2 - 1) / (M * (1 + (g - 1) / 2 * M ^ 2))).
Proof.
  intros M g Hg HM. unfold prandtl_meyer.
  assert (H0 : 0 < M ^ 2 - 1) by nra.
  assert (Hk : 0 < (g - 1) / (g + 1)) by (apply Rdiv_lt_0_compat; lra).
  auto_derive.
  - repeat split; try exact I; try nra.
  - set (s := sqrt (M ^ 2 - 1)).
    assert (Hs2 : s * s = M ^ 2 - 1) by (apply sqrt_sqrt; lra).
    assert (Hs : 0 < s) by (apply sqrt_lt_R0; exact H0).
    replace (M * (M * 1) + - (1)) with (M ^ 2 - 1) by ring. fold s.
    replace (sqrt ((g - 1) / (g + 1) * (M ^ 2 - 1))) with (sqrt ((g - 1) / (g + 1)) * s) by (unfold s; rewrite sqrt_mult; [ reflexivity | lra | lra ]).
    set (k := sqrt ((g - 1) / (g + 1))).
    assert (Hk2 : k * k = (g - 1) / (g + 1)) by (apply sqrt_sqrt; lra).
    assert (Hkp : 0 < k) by (apply sqrt_lt_R0; exact Hk).
    replace (sqrt ((g + 1) / (g - 1))) with (/ k).
    2:{ unfold k. rewrite <- sqrt_inv. f_equal. field. lra. }
    rewrite <- Hk2.
    assert (Hk1 : k * k < 1) by (rewrite Hk2; apply (Rmult_lt_reg_r (g + 1)); [ lra | ]; replace ((g - 1) / (g + 1) * (g + 1)) with (g - 1) by (field; lra); lra).
    assert (Hgk : g = (1 + k * k) / (1 - k * k)) by (rewrite Hk2; field; lra).
    rewrite Hgk. replace (M ^ 2) with (s * s + 1) by lra.
    field_simplify_eq; [ | repeat split; nra ].
    replace (M ^ 2) with (s * s + 1) by lra || idtac.
    nra.
Qed.
