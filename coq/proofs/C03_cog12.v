(* C03 for cog12: returned thermodynamic fields satisfy the declared EOS. P = Gamma rho T, e = Gamma T/(gamma-1) *)
From Coq Require Import Reals Lra.
From EP Require Import lib.Base lib.Tactics gen.Cog12.
Open Scope R_scope.

Lemma cog12_eos_proof :
  forall geometry gamma beta rho0 u0 Gamma r t,
  cog12_defined geometry gamma beta rho0 u0 Gamma r t ->
  cog12_density geometry gamma beta rho0 u0 Gamma r t <> 0 ->
  gamma - 1 <> 0 ->
  cog12_pressure geometry gamma beta rho0 u0 Gamma r t = Gamma * (cog12_density geometry gamma beta rho0 u0 Gamma r t) * (cog12_temperature geometry gamma beta rho0 u0 Gamma r t) /\
  cog12_specific_internal_energy geometry gamma beta rho0 u0 Gamma r t = Gamma * (cog12_temperature geometry gamma beta rho0 u0 Gamma r t) / (gamma - 1) /\
  cog12_pressure geometry gamma beta rho0 u0 Gamma r t = (gamma - 1) * (cog12_density geometry gamma beta rho0 u0 Gamma r t) * (cog12_specific_internal_energy geometry gamma beta rho0 u0 Gamma r t).
Proof. unfold cog12_defined. eos_solve. Qed.
