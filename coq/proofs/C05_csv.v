From Coq Require Import List Ascii Bool Arith Lia.
From EP Require Import model.Csv.
Import ListNotations.

(* ---- CSV ---- *)
Lemma split_aux_plain : forall c s cur, has_char c s = false -> split_aux c s cur = [cur ++ s].
Proof.
  intros c s. induction s as [|a rest IH]; intros cur H; cbn in *.
  - now rewrite app_nil_r.
  - apply orb_false_iff in H. destruct H as [H1 H2]. rewrite H1. rewrite (IH _ H2).
    now rewrite <- app_assoc.
Qed.

Lemma split_aux_sep : forall c x rest cur, has_char c x = false ->
  split_aux c (x ++ c :: rest) cur = (cur ++ x) :: split_aux c rest [].
Proof.
  intros c x. induction x as [|a xs IH]; intros rest cur H; cbn in *.
  - rewrite Ascii.eqb_refl. now rewrite app_nil_r.
  - apply orb_false_iff in H. destruct H as [H1 H2]. rewrite H1. rewrite (IH _ _ H2).
    now rewrite <- app_assoc.
Qed.

Lemma split_join : forall c (l : list text), l <> [] -> forallb (fun x => negb (has_char c x)) l = true ->
  split c (join [c] l) = l.
Proof.
  intros c l. unfold split. induction l as [|x rest IH]; intros Hne Hall; [ contradiction | ].
  cbn in Hall. apply andb_prop in Hall. destruct Hall as [Hx Hrest]. apply negb_true_iff in Hx.
  destruct rest as [|y rest'].
  - cbn. rewrite (split_aux_plain c x [] Hx). reflexivity.
  - cbn [join]. cbn [app]. rewrite (split_aux_sep c x _ [] Hx). cbn [app]. f_equal.
    apply IH; [ discriminate | exact Hrest ].
Qed.

Lemma has_char_join : forall c d (l : list text), c <> d ->
  forallb (fun x => negb (has_char c x)) l = true -> has_char c (join [d] l) = false.
Proof.
  intros c d l Hcd. induction l as [|x rest IH]; intros Hall; cbn in *; [ reflexivity | ].
  apply andb_prop in Hall. destruct Hall as [Hx Hrest]. apply negb_true_iff in Hx.
  destruct rest as [|y rest']; [ exact Hx | ].
  unfold has_char in *. rewrite existsb_app. rewrite Hx. cbn.
  assert (Ascii.eqb d c = false) by (apply Ascii.eqb_neq; congruence). rewrite H. cbn.
  apply IH. exact Hrest.
Qed.

Lemma csv_roundtrip_proof : forall t : list (list text),
  t <> [] -> forallb plain_row t = true -> parse_table (print_table t) = t.
Proof.
  intros t Hne Hall. unfold parse_table, print_table.
  rewrite split_join.
  - rewrite map_map. rewrite <- (map_id t) at 2. apply map_ext_in.
    intros r Hr. rewrite forallb_forall in Hall. specialize (Hall r Hr).
    unfold plain_row in Hall. apply andb_prop in Hall. destruct Hall as [Hc Hn].
    unfold print_row. apply split_join.
    + destruct r; [ discriminate | discriminate ].
    + rewrite forallb_forall in *. intros x Hx. specialize (Hc x Hx). unfold plain_cell in Hc.
      apply andb_prop in Hc. tauto.
  - destruct t; [ contradiction | discriminate ].
  - rewrite forallb_forall. intros s Hs. apply in_map_iff in Hs. destruct Hs as [r [Hr Hin]]. subst s.
    rewrite forallb_forall in Hall. specialize (Hall r Hin).
    unfold plain_row in Hall. apply andb_prop in Hall. destruct Hall as [Hc _].
    apply negb_true_iff. unfold print_row. apply has_char_join.
    + discriminate.
    + rewrite forallb_forall in *. intros x Hx. specialize (Hc x Hx). unfold plain_cell in Hc.
      apply andb_prop in Hc. tauto.
Qed.
