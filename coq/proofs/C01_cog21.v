(* C01 for Coggeshall 21 (k = 2, gamma = 5 built in): both smooth regions. *)
From Coq Require Import Reals Lra Psatz.
From Coquelicot Require Import Coquelicot.
From EP Require Import lib.Base lib.Euler lib.Tactics lib.Piecewise gen.Cog21.
Open Scope R_scope.

Definition cog21_shock (temp0 Gamma t : R) : R := 2 / (Gamma * temp0 * t ^ 2).

Section Cog21.
Variables rho0 temp0 Gamma : R.
Hypothesis HG : 0 < Gamma.
Hypothesis HT : 0 < temp0.
Hypothesis Hrho : rho0 <> 0.

Lemma cog21_post_proof : forall r t, 0 < r -> 0 < t -> r < cog21_shock temp0 Gamma t ->
  euler_at 2 (cog21_density rho0 temp0 Gamma) (cog21_velocity rho0 temp0 Gamma)
    (cog21_pressure rho0 temp0 Gamma) (cog21_specific_internal_energy rho0 temp0 Gamma) r t.
Proof.
  intros r t Hr Ht Hreg. unfold cog21_shock in Hreg.
  euler_unfold. repeat match goal with |- _ /\ _ => split end;
  exders2 (fun y => y < 2 / (Gamma * temp0 * t ^ 2)) (fun y => r < 2 / (Gamma * temp0 * y ^ 2));
  kill_ifs; fsolveA.
Qed.

Lemma cog21_pre_proof : forall r t, 0 < r -> 0 < t -> cog21_shock temp0 Gamma t < r ->
  euler_at 2 (cog21_density rho0 temp0 Gamma) (cog21_velocity rho0 temp0 Gamma)
    (cog21_pressure rho0 temp0 Gamma) (cog21_specific_internal_energy rho0 temp0 Gamma) r t.
Proof.
  intros r t Hr Ht Hreg. unfold cog21_shock in Hreg.
  euler_unfold. repeat match goal with |- _ /\ _ => split end;
  exders2 (fun y => 2 / (Gamma * temp0 * t ^ 2) < y) (fun y => 2 / (Gamma * temp0 * y ^ 2) < r);
  kill_ifs; fsolveA.
Qed.
End Cog21.
