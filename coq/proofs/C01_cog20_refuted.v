(* Finding: with an admissible gamma other than (k+3)/(k+1) the post-shock region of Cog20 does not
   satisfy the energy equation (default parameters). *)
From Coq Require Import Reals Lra Psatz.
From Coquelicot Require Import Coquelicot.
From Interval Require Import Tactic.
From EP Require Import lib.Base lib.Euler lib.Tactics lib.Piecewise gen.Cog20 proofs.C01_cog20.
Open Scope R_scope.

Lemma cog20_energy_refuted_proof :
  let geometry := cog20_default_geometry in let gamma := cog20_default_gamma in
  let rho0 := cog20_default_rho0 in let u0 := cog20_default_u0 in
  let a := cog20_default_a in let Gamma := cog20_default_Gamma in
  let r := 1 / 10 in let t := 1 in
  cog20_init_ok geometry gamma rho0 u0 a Gamma /\ 0 < r /\ 0 < 1 - a * t /\ r < cog20_shock gamma u0 a t /\
  ~ energy_eq (geometry - 1) (cog20_density geometry gamma rho0 u0 a Gamma) (cog20_velocity geometry gamma rho0 u0 a Gamma)
      (cog20_pressure geometry gamma rho0 u0 a Gamma) (cog20_specific_internal_energy geometry gamma rho0 u0 a Gamma)
      (fun _ _ => 0) r t.
Proof.
  cbv zeta. unfold cog20_default_geometry, cog20_default_gamma, cog20_default_rho0, cog20_default_u0,
    cog20_default_a, cog20_default_Gamma, cog20_init_ok, cog20_shock.
  split; [ split; [ right; reflexivity | lra ] | ].
  split; [ lra | ]. split; [ lra | ]. split; [ lra | ].
  eapply not_energy_eq; autounfold with epgen.
  - rderive (fun y => 1 / 10 < 23 / 10 * (7 / 5 - 1) / (4 * (3 / 10)) * y * (1 - 2 * (3 / 10) * y) / (1 - 3 / 10 * y)).
  - rderive (fun y => y < 23 / 10 * (7 / 5 - 1) / (4 * (3 / 10)) * 1 * (1 - 2 * (3 / 10) * 1) / (1 - 3 / 10 * 1)).
  - rderive (fun y => y < 23 / 10 * (7 / 5 - 1) / (4 * (3 / 10)) * 1 * (1 - 2 * (3 / 10) * 1) / (1 - 3 / 10 * 1)).
  - auto_derive; [ exact I | reflexivity ].
  - kill_ifs. interval.
Qed.
