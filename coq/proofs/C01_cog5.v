(* C01 for Coggeshall 5.  *)
From Coq Require Import Reals Lra.
From Coquelicot Require Import Coquelicot.
From EP Require Import lib.Base lib.Euler lib.Tactics gen.Cog5.
Open Scope R_scope.

Lemma cog5_pde_proof :
  forall rho0 u0 Gamma r t,
  0 < r -> 0 < t -> rho0 <> 0 -> u0 <> 0 -> Gamma <> 0 ->
  euler_at 2
    (cog5_density rho0 u0 Gamma)
    (cog5_velocity rho0 u0 Gamma)
    (cog5_pressure rho0 u0 Gamma)
    (cog5_specific_internal_energy rho0 u0 Gamma) r t.
Proof. intros. euler_solve. Qed.
