(* Tactics for correspondence goals: decide which branch of every data-dependent
   `if` is taken (by interval arithmetic on the guard), then bound the distance
   between the model value and the implementation's double. *)
From Coq Require Import Reals Lra.
From Interval Require Import Tactic.
Open Scope R_scope.

Ltac resolve_ifs :=
  repeat match goal with
  | |- context [Req_EM_T ?a ?b] =>
      let Hn := fresh "Hif" in
      destruct (Req_EM_T a b) as [Hn|Hn];
      [ try (exfalso; revert Hn; apply Rlt_not_eq; interval with (i_prec 80));
        try (exfalso; revert Hn; apply Rgt_not_eq; interval with (i_prec 80))
      | try (exfalso; apply Hn; lra) ]
  | |- context [Rlt_dec ?a ?b] =>
      let Hn := fresh "Hif" in
      destruct (Rlt_dec a b) as [Hn|Hn];
      [ try (exfalso; apply (Rlt_not_le _ _ Hn); interval with (i_prec 80))
      | try (exfalso; apply Hn; interval with (i_prec 80)) ]
  | |- context [Rle_dec ?a ?b] =>
      let Hn := fresh "Hif" in
      destruct (Rle_dec a b) as [Hn|Hn];
      [ try (exfalso; apply (Rle_not_lt _ _ Hn); interval with (i_prec 80))
      | try (exfalso; apply Hn; interval with (i_prec 80)) ]
  end.

Ltac corr_solve := unfold Rmin, Rmax; resolve_ifs; interval with (i_prec 90).
