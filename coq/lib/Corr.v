(* Tactics for correspondence goals: decide which branch of every data-dependent
   `if` is taken (by interval arithmetic on the guard), then bound the distance
   between the model value and the implementation's double. *)
From Coq Require Import Reals Lra.
From Interval Require Import Tactic.
Open Scope R_scope.

(* a comparison is decided only when its operands contain no undecided `if` (innermost first) *)
Ltac no_if t :=
  lazymatch t with
  | context [Rle_dec _ _] => fail
  | context [Rlt_dec _ _] => fail
  | context [Req_EM_T _ _] => fail
  | _ => idtac
  end.

Ltac resolve_ifs :=
  repeat match goal with
  | |- context [Req_EM_T ?a ?b] =>
      no_if a; no_if b;
      let Hn := fresh "Hif" in
      destruct (Req_EM_T a b) as [Hn|Hn];
      [ try (exfalso; revert Hn; apply Rlt_not_eq; interval with (i_prec 80));
        try (exfalso; revert Hn; apply Rgt_not_eq; interval with (i_prec 80))
      | try (exfalso; apply Hn; lra) ]
  | |- context [Rlt_dec ?a ?b] =>
      no_if a; no_if b;
      let Hn := fresh "Hif" in
      destruct (Rlt_dec a b) as [Hn|Hn];
      [ try (exfalso; apply (Rlt_not_le _ _ Hn); interval with (i_prec 80))
      | try (exfalso; apply Hn; interval with (i_prec 80)) ]
  | |- context [Rle_dec ?a ?b] =>
      no_if a; no_if b;
      let Hn := fresh "Hif" in
      destruct (Rle_dec a b) as [Hn|Hn];
      [ try (exfalso; apply (Rle_not_lt _ _ Hn); interval with (i_prec 80))
      | try (exfalso; apply Hn; interval with (i_prec 80)) ]
  end.

(* min / max: decide innermost first which operand wins, without duplicating terms *)
Ltac no_minmax t :=
  lazymatch t with
  | context [Rmin _ _] => fail
  | context [Rmax _ _] => fail
  | _ => idtac
  end.

Ltac minmax_solve :=
  repeat match goal with
  | |- context [Rmin ?a ?b] =>
      no_minmax a; no_minmax b;
      first [ rewrite (Rmin_left a b) by interval with (i_prec 80)
            | rewrite (Rmin_right a b) by interval with (i_prec 80) ]
  | |- context [Rmax ?a ?b] =>
      no_minmax a; no_minmax b;
      first [ rewrite (Rmax_left a b) by interval with (i_prec 80)
            | rewrite (Rmax_right a b) by interval with (i_prec 80) ]
  end.

Ltac corr_solve := minmax_solve; unfold Rmin, Rmax; resolve_ifs; interval with (i_prec 90).
