(* Tactics for correspondence goals: decide which branch of every data-dependent
   `if` is taken (by interval arithmetic on the guard), then bound the distance
   between the model value and the implementation's double. *)
From Coq Require Import Reals Lra.
From Interval Require Import Tactic.
Open Scope R_scope.

Ltac resolve_ifs :=
  repeat match goal with
  | |- context [Rlt_dec ?a ?b] =>
      destruct (Rlt_dec a b) as [?H|?H];
      [ try (exfalso; apply (Rlt_not_le _ _ H); interval with (i_prec 80))
      | try (exfalso; apply H; interval with (i_prec 80)) ]
  | |- context [Rle_dec ?a ?b] =>
      destruct (Rle_dec a b) as [?H|?H];
      [ try (exfalso; apply (Rle_not_lt _ _ H); interval with (i_prec 80))
      | try (exfalso; apply H; interval with (i_prec 80)) ]
  | |- context [Req_EM_T ?a ?b] =>
      destruct (Req_EM_T a b) as [?H|?H];
      [ try (exfalso; revert H; apply Rlt_not_eq; interval with (i_prec 80));
        try (exfalso; revert H; apply Rgt_not_eq; interval with (i_prec 80))
      | try (exfalso; apply H; lra) ]
  end.

Ltac corr_solve := unfold Rmin, Rmax; resolve_ifs; interval with (i_prec 90).
