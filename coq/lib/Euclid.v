(* Euclidean distance in the plane and in space; triangle inequality (from Coquelicot's product norm). *)
From Coq Require Import Reals Lra Psatz.
From Coquelicot Require Import Coquelicot.
Open Scope R_scope.

Definition norm2 (a b : R) : R := sqrt (a ^ 2 + b ^ 2).
Definition norm3 (a b c : R) : R := sqrt (a ^ 2 + b ^ 2 + c ^ 2).

Lemma norm2_nonneg : forall a b, 0 <= norm2 a b.
Proof. intros. apply sqrt_pos. Qed.

Lemma norm2_sqr : forall a b, norm2 a b * norm2 a b = a ^ 2 + b ^ 2.
Proof. intros. unfold norm2. apply sqrt_sqrt. nra. Qed.

Lemma cauchy_schwarz2 : forall a b c d, a * c + b * d <= norm2 a b * norm2 c d.
Proof.
  intros a b c d.
  destruct (Rle_dec (a * c + b * d) 0) as [Hn | Hp].
  - apply Rle_trans with 0; [ exact Hn | ]. apply Rmult_le_pos; apply norm2_nonneg.
  - apply Rsqr_incr_0_var; [ | apply Rmult_le_pos; apply norm2_nonneg ].
    unfold Rsqr. replace (norm2 a b * norm2 c d * (norm2 a b * norm2 c d))
      with ((norm2 a b * norm2 a b) * (norm2 c d * norm2 c d)) by ring.
    rewrite !norm2_sqr. pose proof (pow2_ge_0 (a * d - b * c)). nra.
Qed.

Lemma norm2_triangle : forall a b c d, norm2 (a + c) (b + d) <= norm2 a b + norm2 c d.
Proof.
  intros a b c d.
  apply Rsqr_incr_0_var.
  - unfold Rsqr. rewrite norm2_sqr.
    replace ((norm2 a b + norm2 c d) * (norm2 a b + norm2 c d))
      with (norm2 a b * norm2 a b + norm2 c d * norm2 c d + 2 * (norm2 a b * norm2 c d)) by ring.
    rewrite !norm2_sqr. pose proof (cauchy_schwarz2 a b c d). nra.
  - pose proof (norm2_nonneg a b). pose proof (norm2_nonneg c d). lra.
Qed.

(* reverse triangle inequality for distances to a common point *)
Lemma norm2_lipschitz : forall x y x' y' xd yd,
  Rabs (norm2 (x - xd) (y - yd) - norm2 (x' - xd) (y' - yd)) <= norm2 (x - x') (y - y').
Proof.
  intros x y x' y' xd yd.
  assert (H1 := norm2_triangle (x' - xd) (y' - yd) (x - x') (y - y')).
  assert (H2 := norm2_triangle (x - xd) (y - yd) (x' - x) (y' - y)).
  replace (x' - xd + (x - x')) with (x - xd) in H1 by ring.
  replace (y' - yd + (y - y')) with (y - yd) in H1 by ring.
  replace (x - xd + (x' - x)) with (x' - xd) in H2 by ring.
  replace (y - yd + (y' - y)) with (y' - yd) in H2 by ring.
  assert (Hs : norm2 (x' - x) (y' - y) = norm2 (x - x') (y - y')).
  { unfold norm2. f_equal. ring. }
  rewrite Hs in H2. apply Rabs_le. lra.
Qed.

Lemma norm3_as_norm2 : forall a b c, norm3 a b c = norm2 (norm2 a b) c.
Proof.
  intros. unfold norm3, norm2. f_equal. rewrite <- (Rsqr_pow2 (sqrt _)). rewrite Rsqr_sqrt; [ ring | nra ].
Qed.

Lemma norm3_triangle : forall a b c a' b' c', norm3 (a + a') (b + b') (c + c') <= norm3 a b c + norm3 a' b' c'.
Proof.
  intros. rewrite !norm3_as_norm2.
  apply Rle_trans with (norm2 (norm2 a b + norm2 a' b') (c + c')).
  - unfold norm2 at 1 3. apply sqrt_le_1_alt.
    assert (H := norm2_triangle a b a' b'). assert (H0 := norm2_nonneg (a + a') (b + b')).
    apply Rplus_le_compat_r. rewrite <- !Rsqr_pow2. apply Rsqr_incr_1; [ exact H | exact H0 | ].
    assert (Ha := norm2_nonneg a b). assert (Hb := norm2_nonneg a' b'). lra.
  - apply norm2_triangle.
Qed.

Lemma norm3_lipschitz : forall x y z x' y' z' xd yd zd,
  Rabs (norm3 (x - xd) (y - yd) (z - zd) - norm3 (x' - xd) (y' - yd) (z' - zd)) <= norm3 (x - x') (y - y') (z - z').
Proof.
  intros.
  assert (H1 := norm3_triangle (x' - xd) (y' - yd) (z' - zd) (x - x') (y - y') (z - z')).
  assert (H2 := norm3_triangle (x - xd) (y - yd) (z - zd) (x' - x) (y' - y) (z' - z)).
  replace (x' - xd + (x - x')) with (x - xd) in H1 by ring.
  replace (y' - yd + (y - y')) with (y - yd) in H1 by ring.
  replace (z' - zd + (z - z')) with (z - zd) in H1 by ring.
  replace (x - xd + (x' - x)) with (x' - xd) in H2 by ring.
  replace (y - yd + (y' - y)) with (y' - yd) in H2 by ring.
  replace (z - zd + (z' - z)) with (z' - zd) in H2 by ring.
  assert (Hs : norm3 (x' - x) (y' - y) (z' - z) = norm3 (x - x') (y - y') (z - z')).
  { unfold norm3. f_equal. ring. }
  rewrite Hs in H2. apply Rabs_le. lra.
Qed.

(* min / max of Lipschitz quantities *)
Lemma Rmin_lip : forall a b a' b' L, Rabs (a - a') <= L -> Rabs (b - b') <= L -> Rabs (Rmin a b - Rmin a' b') <= L.
Proof.
  intros a b a' b' L Ha Hb. apply Rabs_le_between in Ha. apply Rabs_le_between in Hb. apply Rabs_le.
  unfold Rmin. destruct (Rle_dec a b); destruct (Rle_dec a' b'); lra.
Qed.

Lemma Rmax_lip : forall a b a' b' L, Rabs (a - a') <= L -> Rabs (b - b') <= L -> Rabs (Rmax a b - Rmax a' b') <= L.
Proof.
  intros a b a' b' L Ha Hb. apply Rabs_le_between in Ha. apply Rabs_le_between in Hb. apply Rabs_le.
  unfold Rmax. destruct (Rle_dec a b); destruct (Rle_dec a' b'); lra.
Qed.
