(* small facts about quotients under Coq's total division (x / 0 = 0), used to turn the acceptance conditions the
   code states on computed quotients into polynomial facts *)
From Coq Require Import Reals Lra Psatz.
Open Scope R_scope.

Lemma div_pos_den : forall a b, 0 < a -> 0 < a / b -> 0 < b.
Proof.
  intros a b Ha H. destruct (Rtotal_order b 0) as [Hb | [Hb | Hb]]; [ | | exact Hb ].
  - apply Rinv_lt_0_compat in Hb. unfold Rdiv in H. nra.
  - subst b. unfold Rdiv in H. rewrite Rinv_0 in H. lra.
Qed.

Lemma div_pos_num : forall a b, 0 < b -> 0 < a / b -> 0 < a.
Proof.
  intros a b Hb H. assert (0 < / b) by (apply Rinv_0_lt_compat; exact Hb).
  unfold Rdiv in H. nra.
Qed.

Lemma div_gt_den : forall a b c, 0 < b -> c < a / b -> c * b < a.
Proof.
  intros a b c Hb H. replace a with (a / b * b) by (field; lra). nra.
Qed.

Lemma div_lt_den : forall a b c, 0 < b -> a / b < c -> a < c * b.
Proof.
  intros a b c Hb H. replace a with (a / b * b) by (field; lra). nra.
Qed.

Lemma sqrt_sq_eq : forall x, 0 <= x -> sqrt x * sqrt x = x /\ 0 <= sqrt x.
Proof. intros x Hx. split; [ apply sqrt_sqrt; exact Hx | apply sqrt_pos ]. Qed.

Lemma div_lt_neg_den : forall a b c, b < 0 -> a / b < c -> c * b < a.
Proof.
  intros a b c Hb H. replace a with (a / b * b) by (field; lra). nra.
Qed.

Lemma div_gt_neg_den : forall a b c, b < 0 -> c < a / b -> a < c * b.
Proof.
  intros a b c Hb H. replace a with (a / b * b) by (field; lra). nra.
Qed.

(* numpy.isclose(a, b, rtol, atol=0) is true when a = b *)
Lemma not_isclose_neq : forall a b rt, 0 <= rt -> ~ (Rabs (a - b) <= 0 + rt * Rabs b) -> a <> b.
Proof.
  intros a b rt Hrt H Heq. apply H. subst a. replace (b - b) with 0 by ring. rewrite Rabs_R0.
  pose proof (Rabs_pos b). nra.
Qed.
