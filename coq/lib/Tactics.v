From Coq Require Import Reals Lra Psatz.
From Coquelicot Require Import Coquelicot.
From EP Require Import lib.Euler.
Open Scope R_scope.

(* side conditions: non-vanishing / positivity of products of exponentials and hypotheses *)
Ltac nz :=
  repeat match goal with
  | |- _ /\ _ => split
  | |- True => exact I
  | H : ?g |- ?g => exact H
  | |- exp _ <> 0 => apply Rgt_not_eq, exp_pos
  | |- 0 < exp _ => apply exp_pos
  | |- exp _ > 0 => apply exp_pos
  | |- ?a > 0 => apply Rlt_gt
  | H : 0 < ?y |- 0 < ?x =>
      solve [ replace x with y by (field; nz); exact H ]
  | H : 0 < ?y |- ?x <> 0 =>
      solve [ apply Rgt_not_eq; replace x with y by (field; nz); exact H ]
  | H : 0 < ?y |- ?x <> 0 =>
      solve [ replace x with (y * y) by ring; apply Rgt_not_eq, Rmult_lt_0_compat; exact H ]
  | |- ?a * ?b <> 0 => apply Rmult_integral_contrapositive_currified
  | |- / _ <> 0 => apply Rinv_neq_0_compat
  | |- ?a / ?b <> 0 => unfold Rdiv
  | |- 0 < ?a * ?b => apply Rmult_lt_0_compat
  | |- 0 < / _ => apply Rinv_0_lt_compat
  | |- 0 < ?a / ?b => unfold Rdiv
  | |- ?a ^ _ <> 0 => apply pow_nonzero
  | |- 0 < ?a ^ _ => apply pow_lt
  | |- sqrt _ <> 0 => apply Rgt_not_eq, sqrt_lt_R0
  | |- 0 < sqrt _ => apply sqrt_lt_R0
  end; try assumption; try lra; try nra; auto.

(* derivative of a generated closed form: instantiates the evar with auto_derive's result *)
Ltac dsolve := unfold Rpower; auto_derive; first [ reflexivity | solve [nz] | nz ].

(* merge syntactically different but ring-equal arguments of ln / exp so that `field` sees one atom *)
Ltac ln_merge :=
  repeat match goal with
  | |- context [ln ?a] =>
     match goal with
     | |- context [ln ?b] =>
        first [ constr_eq a b; fail 1
              | replace (ln b) with (ln a) by (f_equal; ring) ]
     end
  end.

Ltac exp_merge :=
  repeat match goal with
  | |- context [exp ?a] =>
     match goal with
     | |- context [exp ?b] =>
        first [ constr_eq a b; fail 1
              | replace (exp b) with (exp a) by (f_equal; ring) ]
     end
  end.

(* cheap canonicalisation: ring-normalise every argument of ln, then of exp *)
Ltac inv_norm := repeat match goal with |- context [/ ?a] => progress ring_simplify a end.
Ltac ln_norm := repeat match goal with |- context [ln ?a] => progress ring_simplify a end.
Ltac exp_norm := repeat match goal with |- context [exp ?a] => progress ring_simplify a end.

(* multiplicative relations between exponential atoms already present:
   exp(2a) = (exp a)^2, exp(-a) = /exp a *)
Ltac exp_rel :=
  repeat match goal with
  | |- context [exp ?a] =>
     match goal with
     | |- context [exp ?b] =>
        first [ constr_eq a b; fail 1
              | replace (exp b) with (exp a * exp a) by (rewrite <- exp_plus; f_equal; ring)
              | replace (exp b) with (/ exp a) by (rewrite <- exp_Ropp; f_equal; ring) ]
     end
  end.

Ltac fsolve :=
  unfold Rpower; rewrite ?ln_exp;
  first [ solve [ field; nz ]
        | solve [ inv_norm; ln_norm; exp_norm; field; nz ]
        | solve [ ln_merge; exp_merge; field; nz ]
        | field; nz ].
Ltac fsolve2 :=
  unfold Rpower; rewrite ?ln_exp;
  first [ solve [ inv_norm; ln_norm; exp_norm; exp_rel; field; nz ]
        | solve [ ln_merge; exp_merge; exp_rel; field; nz ]
        | ln_norm; exp_norm; exp_rel; field; nz ].

Ltac fsolveA := first [ solve [ fsolve ] | solve [ fsolve2 ] | fsolve ].

(* whole-PDE tactics for closed forms without region guards *)
Ltac exders :=
  repeat match goal with
  | |- exists _, _ => eexists
  end;
  repeat match goal with
  | |- is_derive _ _ _ /\ _ => split; [ dsolve | ]
  end.

Ltac euler_unfold :=
  unfold euler_at, euler_heat_at, mass_eq, momentum_eq, energy_eq; autounfold with epgen.

Ltac euler_solve :=
  euler_unfold; repeat match goal with |- _ /\ _ => split end; exders; fsolveA.

(* conduction solutions whose temperature is a power law r^p: F is the power-law flux *)
Ltac heat_solve p :=
  unfold euler_heat_at; split; [ | split ];
  [ unfold mass_eq; autounfold with epgen; exders; fsolveA
  | unfold momentum_eq; autounfold with epgen; exders; fsolveA
  | match goal with |- exists F, is_heat_flux ?K0 ?al ?be ?rho ?T F ?t /\ _ =>
      exists (powerlaw_flux K0 al be p rho T); split;
      [ apply heat_flux_powerlaw; intros; autounfold with epgen; unfold Rpower; auto_derive; [ nz | fsolveA ]
      | unfold energy_eq, powerlaw_flux; autounfold with epgen; exders; fsolveA ]
    end ].

From EP Require Import lib.Piecewise.

(* derivative of a region-wise field strictly inside the region described by P (P holds near x) *)
Ltac kill_ifs :=
  repeat match goal with
  | |- context [Rlt_dec ?a ?b] => destruct (Rlt_dec a b); try (exfalso; lra); try (exfalso; nra)
  | |- context [Rle_dec ?a ?b] => destruct (Rle_dec a b); try (exfalso; lra); try (exfalso; nra)
  end.

Ltac cont_solve := apply continuous_of_ex_derive; unfold Rpower; auto_derive; nz.

Ltac loc_solve :=
  first [ apply locally_lt_id_const; solve [nz]
        | apply locally_gt_id_const; solve [nz]
        | apply locally_lt_cont; [ cont_solve | cont_solve | solve [nz] ] ].

Ltac rderive P :=
  eapply (is_derive_loc_region P);
  [ loc_solve
  | let y := fresh "y" in let Hy := fresh "Hy" in
    intros y Hy; cbv beta in Hy |- *; kill_ifs; reflexivity
  | dsolve ].

(* try the r-region predicate, then the t-region predicate *)
Ltac exders2 Pr Pt :=
  repeat match goal with
  | |- exists _, _ => eexists
  end;
  repeat match goal with
  | |- is_derive _ _ _ /\ _ => split; [ first [ rderive Pr | rderive Pt ] | ]
  end.

(* EOS identities between generated fields: split region guards, abstract the density, field *)
Ltac split_ifs :=
  repeat match goal with
  | |- context [Rlt_dec ?a ?b] => destruct (Rlt_dec a b)
  | H : context [Rlt_dec ?a ?b] |- _ => destruct (Rlt_dec a b)
  | |- context [Rle_dec ?a ?b] => destruct (Rle_dec a b)
  | H : context [Rle_dec ?a ?b] |- _ => destruct (Rle_dec a b)
  end.

Ltac abstract_nz :=
  repeat match goal with
  | H : ?d <> 0 |- _ =>
      lazymatch d with
      | _ * _ => let D := fresh "D" in set (D := d) in *; clearbody D
      | _ / _ => let D := fresh "D" in set (D := d) in *; clearbody D
      end
  end.

Ltac use_defined :=
  repeat match goal with
  | H : _ /\ _ |- _ => destruct H
  | H : ?P -> _, H2 : ?P |- _ => specialize (H H2)
  | H : (~ ?P) -> _, H2 : ~ ?P |- _ => specialize (H H2)
  end.

(* from a*b <> 0 derive a <> 0 and b <> 0 (recursively); from a/b <> 0 derive a <> 0 *)
Ltac split_nz :=
  repeat match goal with
  | H : ?a * ?b <> 0 |- _ =>
      let Ha := fresh "Hnz" in let Hb := fresh "Hnz" in
      assert (Ha : a <> 0) by (let E := fresh in intro E; apply H; rewrite E; ring);
      assert (Hb : b <> 0) by (let E := fresh in intro E; apply H; rewrite E; ring);
      clear H
  | H : ?a / ?b <> 0 |- _ =>
      let Ha := fresh "Hnz" in
      assert (Ha : a <> 0) by (let E := fresh in intro E; apply H; rewrite E; unfold Rdiv; ring);
      clear H
  end.

Ltac eos_solve :=
  intros; autounfold with epgen in *; split_ifs; use_defined;
  repeat match goal with |- _ /\ _ => split end;
  first [ solve [ field; nz ]
        | solve [ split_nz; field; nz ]
        | solve [ abstract_nz; field; nz ]
        | lra
        | split_nz; field; nz ].

From EP Require Import lib.RH.

(* one-sided limits of a region-wise field at the region boundary *)
Ltac branch_eq :=
  let y := fresh "y" in let Hy := fresh "Hy" in
  intros y Hy; cbv beta; autounfold with epgen; kill_ifs; reflexivity.

Ltac lim_solve :=
  match goal with
  | |- left_lim _ _ _ => eapply left_lim_of_branch; [ branch_eq | cont_solve | reflexivity ]
  | |- right_lim _ _ _ => eapply right_lim_of_branch; [ branch_eq | cont_solve | reflexivity ]
  end.

Ltac jump_solve :=
  unfold fields_jump; cbn [jl_rho jl_u jl_p jl_e jr_rho jr_u jr_p jr_e];
  repeat match goal with |- _ /\ _ => split end; lim_solve.
