From Coq Require Import Reals Lra.
From Coquelicot Require Import Coquelicot.
Open Scope R_scope.

(* side conditions: non-vanishing / positivity of products of exponentials and hypotheses *)
Ltac nz :=
  repeat match goal with
  | |- _ /\ _ => split
  | |- True => exact I
  | |- exp _ <> 0 => apply Rgt_not_eq, exp_pos
  | |- 0 < exp _ => apply exp_pos
  | |- exp _ > 0 => apply exp_pos
  | |- ?a * ?b <> 0 => apply Rmult_integral_contrapositive_currified
  | |- / _ <> 0 => apply Rinv_neq_0_compat
  | |- ?a / ?b <> 0 => unfold Rdiv
  | |- 0 < ?a * ?b => apply Rmult_lt_0_compat
  | |- 0 < / _ => apply Rinv_0_lt_compat
  | |- 0 < ?a / ?b => unfold Rdiv
  | |- ?a ^ _ <> 0 => apply pow_nonzero
  | |- 0 < ?a ^ _ => apply pow_lt
  | |- sqrt _ <> 0 => apply Rgt_not_eq, sqrt_lt_R0
  | |- 0 < sqrt _ => apply sqrt_lt_R0
  end; try assumption; try lra; auto.

(* derivative of a generated closed form: instantiates the evar with auto_derive's result *)
Ltac dsolve := unfold Rpower; auto_derive; first [ reflexivity | solve [nz] | nz ].

Ltac fsolve := unfold Rpower; field; nz.

From EP Require Import lib.Euler.

(* whole-PDE tactic for closed forms without region guards *)
Ltac exders :=
  repeat match goal with
  | |- exists _, _ => eexists
  end;
  repeat match goal with
  | |- is_derive _ _ _ /\ _ => split; [ dsolve | ]
  end.

Ltac euler_solve :=
  unfold euler_at, mass_eq, momentum_eq, energy_eq; autounfold with epgen;
  repeat match goal with |- _ /\ _ => split end; exders; fsolve.
