(* Steady power-law conduction solutions (Coggeshall 14, 16): rho = R0 r^(-k-b), u = U0 r^b, T = T0 r^(2b). *)
From Coq Require Import Reals Lra Psatz.
From Coquelicot Require Import Coquelicot.
From EP Require Import lib.Base lib.Euler lib.Tactics lib.ExpAtoms.
Open Scope R_scope.

Lemma Rpower_scaled : forall a r p q, 0 < a -> 0 < r -> Rpower (a * Rpower r p) q = Rpower a q * Rpower r (p * q).
Proof.
  intros a r p q Ha Hr. rewrite <- Rpower_mult. rewrite Rpower_mult_distr; [ reflexivity | exact Ha | unfold Rpower; apply exp_pos ].
Qed.

Lemma steady_powerlaw_heat :
  forall k K0 al be G gam R0 T0 U0 b r t,
  0 < r -> 0 < R0 -> 0 < T0 -> G <> 0 -> gam <> 1 -> b <> 0 ->
  (* momentum: U0^2 b = G T0 (k - b) *)
  U0 * U0 * b = G * T0 * (k - b) ->
  (* exponents: the conduction term scales like the convective terms *)
  (- k - b) * al + 2 * b * (be + 3) + 2 * b - 1 = 3 * b + (- k - b) ->
  (* amplitudes *)
  G * U0 * (2 * b + (gam - 1) * (k + b)) / (gam - 1) = K0 * Rpower R0 (al - 1) * Rpower T0 (be + 3) * (4 * b ^ 2) ->
  euler_heat_at k K0 al be
    (fun r _ => R0 * Rpower r (- k - b))
    (fun r _ => U0 * Rpower r b)
    (fun r _ => T0 * Rpower r (2 * b))
    (fun r _ => G * (R0 * Rpower r (- k - b)) * (T0 * Rpower r (2 * b)))
    (fun r _ => G * (R0 * Rpower r (- k - b)) * (T0 * Rpower r (2 * b)) / (R0 * Rpower r (- k - b)) / (gam - 1)) r t.
Proof.
  intros k K0 al be G gam R0 T0 U0 b r t Hr HR0 HT0 HG Hgam Hb Hmom Hexp Hamp.
  split; [ | split ].
  - unfold mass_eq. exders. fsolveA.
  - unfold momentum_eq. exders.
    unfold Rpower. rewrite ?ln_exp.
    replace (exp (2 * b * ln r)) with (exp (b * ln r) * exp (b * ln r)) by (rewrite <- exp_plus; f_equal; ring).
    abstract_exp.
    apply Rmult_eq_reg_r with (b * r); [ | apply Rmult_integral_contrapositive_currified; lra ].
    rewrite Rmult_0_l.
    match goal with |- ?l = 0 => replace l with ((U0 * U0 * b - G * T0 * (k - b)) * (b * E * E)) by (field; repeat split; lra) end.
    rewrite Hmom. ring.
  - (* F = - K0 R0^al T0^(be+3) (2 b T0) r^(3b) r^(-k-b) *)
    exists (fun x _ => - K0 * (Rpower R0 (al - 1) * R0) * (Rpower T0 (be + 3) * T0) * (2 * b) * (Rpower x b * Rpower x b * Rpower x b * Rpower x (- k - b))).
    split.
    + intros r' Hr'. exists (2 * b / r' * (T0 * Rpower r' (2 * b))). split.
      * unfold Rpower. auto_derive; [ exact Hr' | ]. field. lra.
      * rewrite (Rpower_scaled R0 r' (- k - b) al HR0 Hr'), (Rpower_scaled T0 r' (2 * b) (be + 3) HT0 Hr').
        replace (Rpower R0 al) with (Rpower R0 (al - 1) * R0)
          by (rewrite <- (Rpower_1 R0 HR0) at 2; rewrite <- Rpower_plus; f_equal; ring).
        assert (Hone : Rpower r' ((- k - b) * al) * Rpower r' (2 * b * (be + 3)) * Rpower r' (2 * b) =
                       r' * (Rpower r' b * Rpower r' b * Rpower r' b * Rpower r' (- k - b))).
        { rewrite <- (Rpower_1 r' Hr') at 4. rewrite <- !Rpower_plus. f_equal. lra. }
        transitivity (- K0 * (Rpower R0 (al - 1) * R0) * (Rpower T0 (be + 3) * T0) * (2 * b) *
                      ((Rpower r' ((- k - b) * al) * Rpower r' (2 * b * (be + 3)) * Rpower r' (2 * b)) / r')).
        { rewrite Hone. field. lra. }
        field. lra.
    + unfold energy_eq. exders.
      unfold Rpower. rewrite ?ln_exp.
      replace (exp (2 * b * ln r)) with (exp (b * ln r) * exp (b * ln r)) by (rewrite <- exp_plus; f_equal; ring).
      fold (Rpower R0 (al - 1)). fold (Rpower T0 (be + 3)).
      set (A := Rpower R0 (al - 1)) in *. set (B := Rpower T0 (be + 3)) in *.
      abstract_exp.
      match goal with |- ?l = 0 =>
        replace l with (T0 * (E * E * E) / r * (G * U0 * (2 * b + (gam - 1) * (k + b)) / (gam - 1) - K0 * A * B * (4 * b ^ 2)))
          by (field; repeat split; lra) end.
      rewrite Hamp. ring.
Qed.
