(* Tactic for definedness goals: a conjunction of side conditions (x <> 0, x > 0, x >= 0) of a generated closed
   form, to be derived from the parameter-only conjuncts (in context) and r > 0, t > 0. *)
From Coq Require Import Reals Lra Psatz.
From EP Require Import lib.Base lib.Tactics.
Open Scope R_scope.

Ltac destruct_ands :=
  repeat match goal with H : _ /\ _ |- _ => destruct H end.

Ltac pos_step :=
  match goal with
  | |- _ > 0 => apply Rlt_gt
  | |- _ >= 0 => apply Rle_ge, Rlt_le
  | |- _ <> 0 => first [ assumption | apply Rgt_not_eq, Rlt_gt ]
  end.

Ltac pos_solve :=
  repeat match goal with
  | H : ?g |- ?g => exact H
  | |- 0 < exp _ => apply exp_pos
  | |- 0 < Rpower _ _ => unfold Rpower; apply exp_pos
  | |- 0 < ?a * ?b => apply Rmult_lt_0_compat
  | |- 0 < ?a / ?b => apply Rdiv_lt_0_compat
  | |- 0 < / _ => apply Rinv_0_lt_compat
  | |- 0 < sqrt _ => apply sqrt_lt_R0
  | |- 0 < ?a ^ _ => apply pow_lt
  end; try assumption; try lra; try nra.

Ltac defined_one :=
  first
  [ assumption
  | lra
  | solve [ unfold Rpower; nz ]
  | solve [ pos_step; pos_solve ]
  | solve [ apply Rgt_not_eq; unfold Rpower; apply exp_pos ]
  | solve [ nra ]
  | solve [ split_ifs; unfold Rpower; nz ] ].

Ltac defined_solve :=
  destruct_ands; repeat split; intros; defined_one.
