(* Rankine-Hugoniot relations at a located discontinuity; one-sided limits of region-wise fields. *)
From Coq Require Import Reals Lra.
From Coquelicot Require Import Coquelicot.
Open Scope R_scope.

(* lab-frame jump conditions for a discontinuity moving with speed s (planar form; geometric source
   terms are bounded and do not contribute at a point) *)
Definition rh_jump (s rhoL uL pL eL rhoR uR pR eR : R) : Prop :=
  rhoL * (uL - s) = rhoR * (uR - s) /\
  rhoL * (uL - s) * uL + pL = rhoR * (uR - s) * uR + pR /\
  rhoL * (uL - s) * (eL + uL ^ 2 / 2) + pL * uL = rhoR * (uR - s) * (eR + uR ^ 2 / 2) + pR * uR.

Definition left_lim (f : R -> R) (x l : R) : Prop := filterlim f (at_left x) (locally l).
Definition right_lim (f : R -> R) (x l : R) : Prop := filterlim f (at_right x) (locally l).

Lemma left_lim_of_branch : forall (f A : R -> R) x l,
  (forall y, y < x -> f y = A y) -> continuous A x -> A x = l -> left_lim f x l.
Proof.
  intros f A x l Heq Hc Hl. unfold left_lim. subst l.
  apply (filterlim_ext_loc A f).
  - unfold at_left, within. exists (mkposreal 1 Rlt_0_1). intros y _ Hy. symmetry. apply Heq. exact Hy.
  - apply (filterlim_filter_le_1 (F := locally x) (G := at_left x)).
    + apply filter_le_within.
    + exact Hc.
Qed.

Lemma right_lim_of_branch : forall (f A : R -> R) x l,
  (forall y, x < y -> f y = A y) -> continuous A x -> A x = l -> right_lim f x l.
Proof.
  intros f A x l Heq Hc Hl. unfold right_lim. subst l.
  apply (filterlim_ext_loc A f).
  - unfold at_right, within. exists (mkposreal 1 Rlt_0_1). intros y _ Hy. symmetry. apply Heq. exact Hy.
  - apply (filterlim_filter_le_1 (F := locally x) (G := at_right x)).
    + apply filter_le_within.
    + exact Hc.
Qed.

(* the discontinuity of the hydrodynamic fields at position x (time fixed) with its one-sided states *)
Record jump_states := { jl_rho : R; jl_u : R; jl_p : R; jl_e : R; jr_rho : R; jr_u : R; jr_p : R; jr_e : R }.

Definition fields_jump (rho u p e : R -> R) (x : R) (J : jump_states) : Prop :=
  left_lim rho x (jl_rho J) /\ right_lim rho x (jr_rho J) /\
  left_lim u x (jl_u J) /\ right_lim u x (jr_u J) /\
  left_lim p x (jl_p J) /\ right_lim p x (jr_p J) /\
  left_lim e x (jl_e J) /\ right_lim e x (jr_e J).

Definition rh_holds (s : R) (J : jump_states) : Prop :=
  rh_jump s (jl_rho J) (jl_u J) (jl_p J) (jl_e J) (jr_rho J) (jr_u J) (jr_p J) (jr_e J).
