(* Conservation-form antiderivatives of the centred simple wave (lib/SimpleWave.v).

   For a self-similar profile U(xi), xi = (x - xd0)/t, the function
       H(x) = - t * ( D(x) * (u(x) - xi) + Ppart(x) )            (D: conserved density, D*u + Ppart: its flux)
   is an antiderivative in x of D, exactly when the profile solves the conservation law.
   Proved here for the fan formulas used by riemann/utils.py:rho_p_u_rarefaction, together with the
   values of the fan at its head and at its tail (the star state), for s = +1 (left) and s = -1 (right). *)
From Coq Require Import Reals Lra Psatz.
From Coquelicot Require Import Coquelicot.
From EP Require Import lib.SimpleWave.
Open Scope R_scope.

Inductive comp := Mass | Mom | Ener.

(* conserved density and the pressure part of its flux, from the returned fields (p, rho, u, e) *)
Definition dens (c : comp) (p r u e : R) : R :=
  match c with Mass => r | Mom => r * u | Ener => r * (e + u ^ 2 / 2) end.
Definition pflux (c : comp) (p r u e : R) : R :=
  match c with Mass => 0 | Mom => p | Ener => p * u end.
Definition flux (c : comp) (p r u e : R) : R := dens c p r u e * u + pflux c p r u e.

(* the antiderivative built from field functions of x *)
Definition Hanti (c : comp) (xd0 t : R) (fp fr fu fe : R -> R) (x : R) : R :=
  - t * (dens c (fp x) (fr x) (fu x) (fe x) * (fu x - (x - xd0) / t) + pflux c (fp x) (fr x) (fu x) (fe x)).

Lemma Hanti_const : forall c xd0 t p r u e x, t <> 0 ->
  is_derive (Hanti c xd0 t (fun _ => p) (fun _ => r) (fun _ => u) (fun _ => e)) x (dens c p r u e).
Proof.
  intros c xd0 t p r u e x Ht. unfold Hanti. auto_derive; [ exact I | ]. field. exact Ht.
Qed.

Lemma Rpower_one_l : forall y, Rpower 1 y = 1.
Proof. intros y. unfold Rpower. rewrite ln_1, Rmult_0_r. apply exp_0. Qed.

Section Fan.
Variables g P0 R0 u0 xd0 s : R.
Hypothesis Hg : 1 < g.
Hypothesis HP : 0 < P0.
Hypothesis HR : 0 < R0.
Hypothesis Hs : s * s = 1.

Let a := sw_a g P0 R0.
Let Y := sw_Y g P0 R0 u0 xd0 s.
Let rho := sw_rho g P0 R0 u0 xd0 s.
Let p := sw_p g P0 R0 u0 xd0 s.
Let u := sw_u g P0 R0 u0 xd0 s.
Let e := sw_e g P0 R0 u0 xd0 s.

Lemma a_pos : 0 < a. Proof. apply sw_a_pos; assumption. Qed.
Lemma a_sq : a * a = g * P0 / R0. Proof. apply sw_a_sq; assumption. Qed.

(* u - xi = s * a * Y : the fan is sonic relative to the ray *)
Lemma fan_u_minus_xi : forall x t, t <> 0 -> u x t - (x - xd0) / t = s * a * Y x t.
Proof.
  intros x t Ht. pose proof a_pos as Ha. unfold u, Y, sw_u, sw_Y. fold a.
  transitivity (2 * s * a / (g + 1) + (s * s) * (g - 1) * (u0 - (x - xd0) / t) / (g + 1)).
  - rewrite Hs. field. split; lra.
  - field. repeat split; lra.
Qed.

Lemma fan_rho_pos : forall x t, 0 < rho x t.
Proof. intros. unfold rho, sw_rho. apply Rmult_lt_0_compat; [ exact HR | unfold Rpower; apply exp_pos ]. Qed.

(* rho * e = p / (g - 1) everywhere *)
Lemma fan_rho_e : forall x t, rho x t * e x t = p x t / (g - 1).
Proof. intros x t. pose proof (fan_rho_pos x t). unfold e, sw_e. fold p rho. field. split; lra. Qed.

Lemma fan_p_split : forall x t, 0 < Y x t -> p x t = P0 * (Rpower (Y x t) (2 / (g - 1)) * (Y x t * Y x t)).
Proof.
  intros x t HY. unfold p, sw_p. fold Y.
  replace (2 * g / (g - 1)) with (2 / (g - 1) + 1 + 1) by (field; lra).
  rewrite !Rpower_plus, Rpower_1 by exact HY. ring.
Qed.

Lemma fan_Y_dx : forall x t, t <> 0 -> is_derive (fun y => Y y t) x (- (s * (g - 1) / a / (g + 1)) / t).
Proof. intros. apply sw_Y_dx; assumption. Qed.

Lemma fan_rho_dx : forall x t, t <> 0 -> 0 < Y x t ->
  is_derive (fun y => rho y t) x (R0 * (2 / (g - 1) * (- (s * (g - 1) / a / (g + 1)) / t) / Y x t * Rpower (Y x t) (2 / (g - 1)))).
Proof.
  intros x t Ht HY. unfold rho, sw_rho.
  apply (is_derive_scal (fun y => Rpower (sw_Y g P0 R0 u0 xd0 s y t) (2 / (g - 1))) x R0).
  apply (is_derive_Rpower_comp (fun y => sw_Y g P0 R0 u0 xd0 s y t)); [ exact HY | apply fan_Y_dx; exact Ht ].
Qed.

Lemma fan_p_dx : forall x t, t <> 0 -> 0 < Y x t ->
  is_derive (fun y => p y t) x (P0 * (2 * g / (g - 1) * (- (s * (g - 1) / a / (g + 1)) / t) / Y x t * Rpower (Y x t) (2 * g / (g - 1)))).
Proof.
  intros x t Ht HY. unfold p, sw_p.
  apply (is_derive_scal (fun y => Rpower (sw_Y g P0 R0 u0 xd0 s y t) (2 * g / (g - 1))) x P0).
  apply (is_derive_Rpower_comp (fun y => sw_Y g P0 R0 u0 xd0 s y t)); [ exact HY | apply fan_Y_dx; exact Ht ].
Qed.

Lemma fan_u_dx : forall x t, t <> 0 -> is_derive (fun y => u y t) x (2 / (g + 1) / t).
Proof.
  intros x t Ht. unfold u, sw_u. auto_derive; [ first [ exact I | exact Ht ] | field; repeat split; lra ].
Qed.

(* the three antiderivatives, written with rho*E = p/(g-1) + rho*u^2/2 *)
Definition fanH (c : comp) (t x : R) : R :=
  Hanti c xd0 t (fun y => p y t) (fun y => rho y t) (fun y => u y t) (fun y => e y t) x.

Lemma fanH_alt : forall c t x, fanH c t x =
  - t * (match c with
         | Mass => rho x t
         | Mom => rho x t * u x t
         | Ener => p x t / (g - 1) + rho x t * (u x t) ^ 2 / 2
         end * (u x t - (x - xd0) / t)
         + match c with Mass => 0 | Mom => p x t | Ener => p x t * u x t end).
Proof.
  intros c t x. unfold fanH, Hanti, dens, pflux. destruct c; try reflexivity.
  replace (rho x t * (e x t + u x t ^ 2 / 2)) with (p x t / (g - 1) + rho x t * u x t ^ 2 / 2)
    by (rewrite <- fan_rho_e; unfold Rdiv; ring).
  reflexivity.
Qed.

Lemma fan_dens_alt : forall c t x,
  dens c (p x t) (rho x t) (u x t) (e x t) =
  match c with
  | Mass => rho x t
  | Mom => rho x t * u x t
  | Ener => p x t / (g - 1) + rho x t * (u x t) ^ 2 / 2
  end.
Proof.
  intros c t x. unfold dens. destruct c; try reflexivity.
  replace (rho x t * (e x t + u x t ^ 2 / 2)) with (p x t / (g - 1) + rho x t * u x t ^ 2 / 2)
    by (rewrite <- fan_rho_e; unfold Rdiv; ring).
  reflexivity.
Qed.

Theorem fanH_derive : forall c t x, 0 < t -> 0 < Y x t ->
  is_derive (fanH c t) x (dens c (p x t) (rho x t) (u x t) (e x t)).
Proof.
  intros c t x Ht HY.
  assert (Htn : t <> 0) by lra.
  pose proof a_pos as Ha. pose proof a_sq as Ha2.
  pose proof (fan_rho_dx x t Htn HY) as Dr. pose proof (fan_p_dx x t Htn HY) as Dp.
  pose proof (fan_u_dx x t Htn) as Du.
  pose proof (fan_u_minus_xi x t Htn) as Hux.
  pose proof (fan_p_split x t HY) as HB.
  assert (HB' : Rpower (Y x t) (2 * g / (g - 1)) = Rpower (Y x t) (2 / (g - 1)) * (Y x t * Y x t)).
  { replace (2 * g / (g - 1)) with (2 / (g - 1) + 1 + 1) by (field; lra).
    rewrite !Rpower_plus, Rpower_1 by exact HY. ring. }
  assert (HP0 : P0 = a * a * R0 / g) by (rewrite Ha2; field; lra).
  assert (Hs12 : s = 1 \/ s = -1) by nra.
  rewrite fan_dens_alt.
  apply (is_derive_ext (fun y =>
     - t * (match c with
         | Mass => rho y t
         | Mom => rho y t * u y t
         | Ener => p y t / (g - 1) + rho y t * (u y t) ^ 2 / 2
         end * (u y t - (y - xd0) / t)
         + match c with Mass => 0 | Mom => p y t | Ener => p y t * u y t end))).
  { intros y. symmetry. apply fanH_alt. }
  set (r' := R0 * (2 / (g - 1) * (- (s * (g - 1) / a / (g + 1)) / t) / Y x t * Rpower (Y x t) (2 / (g - 1)))) in *.
  set (p' := P0 * (2 * g / (g - 1) * (- (s * (g - 1) / a / (g + 1)) / t) / Y x t * Rpower (Y x t) (2 * g / (g - 1)))) in *.
  set (u' := 2 / (g + 1) / t) in *.
  assert (Exr : ex_derive (fun y => rho y t) x) by (eexists; exact Dr).
  assert (Exp : ex_derive (fun y => p y t) x) by (eexists; exact Dp).
  assert (Exu : ex_derive (fun y => u y t) x) by (eexists; exact Du).
  (* the self-similar conservation laws, as algebraic identities between the derivative values *)
  set (W := s * a * Y x t) in *.
  assert (HW : W <> 0).
  { unfold W. destruct Hs12 as [E | E]; rewrite E; [ apply Rgt_not_eq | apply Rlt_not_eq ]; nra. }
  assert (Hr' : r' = - rho x t * u' / W).
  { unfold r', u', W, rho, sw_rho. fold Y. set (A := Rpower (Y x t) (2 / (g - 1))).
    destruct Hs12 as [E | E]; rewrite E; field; repeat split; lra. }
  assert (Hpv : p x t = rho x t * W * W / g).
  { rewrite HB. unfold W, rho, sw_rho. fold Y. rewrite HP0.
    replace (R0 * Rpower (Y x t) (2 / (g - 1)) * (s * a * Y x t) * (s * a * Y x t) / g)
      with (s * s * (R0 * Rpower (Y x t) (2 / (g - 1)) * (a * Y x t) * (a * Y x t) / g)) by (field; lra).
    rewrite Hs. field. lra. }
  assert (Hp' : p' = - rho x t * W * u').
  { unfold p', u', W, rho, sw_rho. fold Y. rewrite HB'. set (A := Rpower (Y x t) (2 / (g - 1))).
    rewrite HP0. destruct Hs12 as [E | E]; rewrite E; field; repeat split; lra. }
  assert (Er : Derive (fun y : R => rho y t) x = r') by (apply is_derive_unique; exact Dr).
  assert (Eu : Derive (fun y : R => u y t) x = u') by (apply is_derive_unique; exact Du).
  assert (Ep : Derive (fun y : R => p y t) x = p') by (apply is_derive_unique; exact Dp).
  clearbody W r' p' u'.
  destruct c.
  - evar_last; [ auto_derive; [ repeat split; try assumption | reflexivity ] | ].
    rewrite Er, Eu.
    change (u x t + - ((x + - xd0) * / t)) with (u x t - (x - xd0) / t). rewrite Hux, Hr'.
    field. split; assumption.
  - evar_last; [ auto_derive; [ repeat split; try assumption | reflexivity ] | ].
    rewrite Er, Eu, Ep.
    change (u x t + - ((x + - xd0) * / t)) with (u x t - (x - xd0) / t). rewrite Hux, Hp', Hr'.
    field. split; assumption.
  - evar_last; [ auto_derive; [ repeat split; try assumption | reflexivity ] | ].
    rewrite Er, Eu, Ep.
    change (u x t + - ((x + - xd0) * / t)) with (u x t - (x - xd0) / t). rewrite Hux, Hp', Hr', Hpv.
    field. repeat split; try assumption; lra.
Qed.

(* ---- values at the head and at the tail of the fan, positivity of Y inside ---- *)
Lemma fan_Y_affine : forall x x' t, t <> 0 ->
  Y x t = Y x' t - s * (g - 1) / a / (g + 1) * (x - x') / t.
Proof.
  intros x x' t Ht. pose proof a_pos as Ha. unfold Y, sw_Y. fold a. field. repeat split; lra.
Qed.

Lemma fan_Y_head : forall t, t <> 0 -> Y (xd0 + t * (u0 - s * a)) t = 1.
Proof.
  intros t Ht. pose proof a_pos as Ha. unfold Y, sw_Y. fold a.
  transitivity (2 / (g + 1) + (s * s) * (g - 1) / (g + 1)).
  - field. repeat split; lra.
  - rewrite Hs. field. lra.
Qed.

Variable px : R.
Hypothesis Hpx : 0 < px.
Definition fan_pi : R := Rpower (px / P0) ((g - 1) / 2 / g).
Definition fan_ustar : R := u0 + s * (2 * a / (g - 1) * (1 - fan_pi)).
Definition fan_xtail (t : R) : R := xd0 + t * (fan_ustar - s * (a * fan_pi)).

Lemma fan_pi_pos : 0 < fan_pi. Proof. unfold fan_pi, Rpower. apply exp_pos. Qed.

Lemma fan_Y_tail : forall t, t <> 0 -> Y (fan_xtail t) t = fan_pi.
Proof.
  intros t Ht. pose proof a_pos as Ha. unfold Y, sw_Y, fan_xtail, fan_ustar. fold a.
  set (q := fan_pi).
  transitivity (2 / (g + 1) - (s * s) * (2 * (1 - q) - (g - 1) * q) / (g + 1)).
  - field. repeat split; lra.
  - rewrite Hs. field. lra.
Qed.

Lemma fan_rho_tail : forall t, t <> 0 -> rho (fan_xtail t) t = R0 * Rpower (px / P0) (1 / g).
Proof.
  intros t Ht. unfold rho, sw_rho. fold Y. rewrite (fan_Y_tail t Ht). unfold fan_pi.
  rewrite Rpower_mult. f_equal. f_equal. field. lra.
Qed.

Lemma fan_p_tail : forall t, t <> 0 -> p (fan_xtail t) t = px.
Proof.
  intros t Ht. unfold p, sw_p. fold Y. rewrite (fan_Y_tail t Ht). unfold fan_pi.
  rewrite Rpower_mult. replace ((g - 1) / 2 / g * (2 * g / (g - 1))) with 1 by (field; lra).
  rewrite Rpower_1; [ field; lra | apply Rdiv_lt_0_compat; assumption ].
Qed.

Lemma fan_u_tail : forall t, t <> 0 -> u (fan_xtail t) t = fan_ustar.
Proof.
  intros t Ht.
  pose proof (fan_u_minus_xi (fan_xtail t) t Ht) as H. rewrite (fan_Y_tail t Ht) in H.
  replace ((fan_xtail t - xd0) / t) with (fan_ustar - s * (a * fan_pi)) in H by (unfold fan_xtail; field; exact Ht).
  lra.
Qed.

Lemma fan_rho_head : forall t, t <> 0 -> rho (xd0 + t * (u0 - s * a)) t = R0.
Proof. intros t Ht. unfold rho, sw_rho. fold Y. rewrite (fan_Y_head t Ht), Rpower_one_l. ring. Qed.
Lemma fan_p_head : forall t, t <> 0 -> p (xd0 + t * (u0 - s * a)) t = P0.
Proof. intros t Ht. unfold p, sw_p. fold Y. rewrite (fan_Y_head t Ht), Rpower_one_l. ring. Qed.
Lemma fan_u_head : forall t, t <> 0 -> u (xd0 + t * (u0 - s * a)) t = u0.
Proof.
  intros t Ht. pose proof (fan_u_minus_xi (xd0 + t * (u0 - s * a)) t Ht) as H. rewrite (fan_Y_head t Ht) in H.
  replace ((xd0 + t * (u0 - s * a) - xd0) / t) with (u0 - s * a) in H by (field; exact Ht). lra.
Qed.

(* inside the fan (between tail and head, on the side given by s) Y stays >= pi > 0 *)
Lemma fan_Y_inside : forall x t, 0 < t -> 0 <= s * (fan_xtail t - x) -> fan_pi <= Y x t.
Proof.
  intros x t Ht Hx. pose proof a_pos as Ha.
  rewrite (fan_Y_affine x (fan_xtail t) t) by lra. rewrite (fan_Y_tail t) by lra.
  assert (0 <= s * (g - 1) / a / (g + 1) * (fan_xtail t - x) / t).
  { replace (s * (g - 1) / a / (g + 1) * (fan_xtail t - x) / t) with ((s * (fan_xtail t - x)) * ((g - 1) / a / (g + 1) / t)) by (field; repeat split; lra).
    apply Rmult_le_pos; [ exact Hx | ]. apply Rlt_le. repeat apply Rdiv_lt_0_compat; lra. }
  replace (s * (g - 1) / a / (g + 1) * (x - fan_xtail t) / t) with (- (s * (g - 1) / a / (g + 1) * (fan_xtail t - x) / t)) by (field; repeat split; lra).
  lra.
Qed.

(* the tail lies on the expansion side of the head exactly when px <= P0 *)
Lemma fan_head_tail_order : forall t, 0 < t -> px <= P0 -> 0 <= s * (fan_xtail t - (xd0 + t * (u0 - s * a))).
Proof.
  intros t Ht Hle. pose proof a_pos as Ha.
  assert (Hq : fan_pi <= 1).
  { unfold fan_pi. apply (Rle_trans _ (Rpower 1 ((g - 1) / 2 / g))); [ | rewrite Rpower_one_l; lra ].
    apply Rle_Rpower_l.
    - apply Rlt_le. repeat apply Rdiv_lt_0_compat; lra.
    - split; [ apply Rdiv_lt_0_compat; assumption | ].
      apply (Rmult_le_reg_r P0); [ exact HP | ]. replace (px / P0 * P0) with px by (field; lra). lra. }
  unfold fan_xtail, fan_ustar.
  replace (s * (xd0 + t * (u0 + s * (2 * a / (g - 1) * (1 - fan_pi)) - s * (a * fan_pi)) - (xd0 + t * (u0 - s * a))))
    with ((s * s) * (t * a * (1 - fan_pi) * (2 / (g - 1) + 1))) by (field; lra).
  rewrite Hs, Rmult_1_l.
  apply Rmult_le_pos; [ apply Rmult_le_pos; [ apply Rmult_le_pos; lra | lra ] | ].
  assert (0 < 2 / (g - 1)) by (apply Rdiv_lt_0_compat; lra). lra.
Qed.

Lemma fan_dens_continuous : forall c t x, t <> 0 -> 0 < Y x t ->
  continuous (fun y => dens c (p y t) (rho y t) (u y t) (e y t)) x.
Proof.
  intros c t x Ht HY.
  assert (Exr : ex_derive (fun y => rho y t) x) by (eexists; apply fan_rho_dx; assumption).
  assert (Exp : ex_derive (fun y => p y t) x) by (eexists; apply fan_p_dx; assumption).
  assert (Exu : ex_derive (fun y => u y t) x) by (eexists; apply fan_u_dx; assumption).
  apply (continuous_ext (fun y => match c with
         | Mass => rho y t
         | Mom => rho y t * u y t
         | Ener => p y t / (g - 1) + rho y t * (u y t) ^ 2 / 2
         end)).
  { intros y. symmetry. apply fan_dens_alt. }
  destruct c.
  - apply (ex_derive_continuous (fun y : R => rho y t) x). exact Exr.
  - apply (ex_derive_continuous (fun y : R => rho y t * u y t) x). auto_derive; repeat split; assumption.
  - apply (ex_derive_continuous (fun y : R => p y t / (g - 1) + rho y t * (u y t) ^ 2 / 2) x).
    auto_derive; repeat split; assumption.
Qed.
End Fan.
