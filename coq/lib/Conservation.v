(* Integral of a region-wise assembled profile.

   The Riemann drivers assemble each returned field by successive overwriting
   ("the last region whose left edge is <= x wins").  This file proves, for ANY number of regions,
   that if every region carries a density U_i with an antiderivative H_i on its interval, and
   neighbouring antiderivatives agree at the common edge (this is what the jump conditions say,
   see proofs/C04_riemann.v), then the integral of the assembled profile over a window that contains
   all edges telescopes to  H_last(xb) - H_first(xa). *)
From Coq Require Import Reals Lra List.
From Coquelicot Require Import Coquelicot.
Open Scope R_scope.
Import ListNotations.

Record piece := { pe : R; pU : R -> R; pH : R -> R }.

Definition over (x : R) (acc : R) (q : piece) : R := if Rle_dec (pe q) x then pU q x else acc.

(* the assembled profile: start from the value of the leftmost piece, overwrite in order *)
Definition asm (q0 : piece) (ps : list piece) (x : R) : R := fold_left (over x) ps (pU q0 x).

(* q0 is active on [xa, edge of the next piece]; each piece has H' = U and U continuous on its closed
   interval; antiderivatives match at the edges *)
Fixpoint chain (q0 : piece) (ps : list piece) (xa xb : R) : Prop :=
  match ps with
  | [] => xa <= xb /\
          (forall x, xa <= x <= xb -> is_derive (pH q0) x (pU q0 x)) /\
          (forall x, xa <= x <= xb -> continuous (pU q0) x)
  | q1 :: rest =>
          xa <= pe q1 /\
          (forall x, xa <= x <= pe q1 -> is_derive (pH q0) x (pU q0 x)) /\
          (forall x, xa <= x <= pe q1 -> continuous (pU q0) x) /\
          pH q0 (pe q1) = pH q1 (pe q1) /\
          chain q1 rest (pe q1) xb
  end.


Lemma chain_cons : forall q0 q1 rest xa xb,
  xa <= pe q1 ->
  (forall x, xa <= x <= pe q1 -> is_derive (pH q0) x (pU q0 x)) ->
  (forall x, xa <= x <= pe q1 -> continuous (pU q0) x) ->
  pH q0 (pe q1) = pH q1 (pe q1) ->
  chain q1 rest (pe q1) xb -> chain q0 (q1 :: rest) xa xb.
Proof. intros. simpl. auto. Qed.

Lemma chain_nil : forall q0 xa xb,
  xa <= xb ->
  (forall x, xa <= x <= xb -> is_derive (pH q0) x (pU q0 x)) ->
  (forall x, xa <= x <= xb -> continuous (pU q0) x) -> chain q0 [] xa xb.
Proof. intros. simpl. auto. Qed.

Lemma chain_le : forall ps q0 xa xb, chain q0 ps xa xb -> xa <= xb.
Proof.
  induction ps as [|q1 rest IH]; intros q0 xa xb H; simpl in H.
  - tauto.
  - destruct H as (H1 & _ & _ & _ & H5). apply IH in H5. lra.
Qed.

Lemma chain_edges_ge : forall ps q0 xa xb, chain q0 ps xa xb -> List.Forall (fun q => xa <= pe q) ps.
Proof.
  induction ps as [|q1 rest IH]; intros q0 xa xb H; simpl in H.
  - constructor.
  - destruct H as (H1 & _ & _ & _ & H5). constructor; [ exact H1 | ].
    apply IH in H5. revert H5. apply List.Forall_impl. intros q Hq. lra.
Qed.

Lemma fold_over_before : forall ps x acc, List.Forall (fun q => x < pe q) ps -> fold_left (over x) ps acc = acc.
Proof.
  induction ps as [|q rest IH]; intros x acc H; simpl; [ reflexivity | ].
  inversion H as [|q' l' Hq Hrest]; subst.
  replace (over x acc q) with acc; [ apply IH; exact Hrest | ].
  unfold over. destruct (Rle_dec (pe q) x) as [Hle|Hn]; [ lra | reflexivity ].
Qed.

Definition last_piece (q0 : piece) (ps : list piece) : piece := last ps q0.

Lemma last_nonempty_indep : forall (ps : list piece) q a b, last (q :: ps) a = last (q :: ps) b.
Proof.
  induction ps as [|q2 rest IH]; intros q a b; [ reflexivity | ].
  change (last (q :: q2 :: rest) a) with (last (q2 :: rest) a).
  change (last (q :: q2 :: rest) b) with (last (q2 :: rest) b). apply IH.
Qed.

Lemma last_piece_cons : forall ps q0 q1, last_piece q0 (q1 :: ps) = last_piece q1 ps.
Proof.
  intros ps q0 q1. unfold last_piece. destruct ps as [|q2 rest]; [ reflexivity | ].
  change (last (q1 :: q2 :: rest) q0) with (last (q2 :: rest) q0). apply last_nonempty_indep.
Qed.

Theorem chain_integral : forall ps q0 xa xb,
  chain q0 ps xa xb ->
  is_RInt (asm q0 ps) xa xb (pH (last_piece q0 ps) xb - pH q0 xa).
Proof.
  induction ps as [|q1 rest IH]; intros q0 xa xb H.
  - simpl in H. destruct H as (Hle & Hd & Hc).
    unfold asm, last_piece; simpl.
    apply (is_RInt_derive (pH q0) (pU q0) xa xb).
    + intros x Hx. rewrite Rmin_left, Rmax_right in Hx by lra. apply Hd. exact Hx.
    + intros x Hx. rewrite Rmin_left, Rmax_right in Hx by lra. apply Hc. exact Hx.
  - pose proof (chain_le _ _ _ _ H) as Hab.
    simpl in H. destruct H as (Hle & Hd & Hc & Hm & Hrest).
    pose proof (chain_le _ _ _ _ Hrest) as Hle2.
    pose proof (chain_edges_ge _ _ _ _ Hrest) as Hedges.
    rewrite last_piece_cons.
    replace (pH (last_piece q1 rest) xb - pH q0 xa)
      with (@plus R_NormedModule (pH q0 (pe q1) - pH q0 xa) (pH (last_piece q1 rest) xb - pH q1 (pe q1)))
      by (unfold plus; simpl; rewrite Hm; ring).
    apply (@is_RInt_Chasles R_NormedModule (asm q0 (q1 :: rest)) xa (pe q1) xb).
    + (* left of the first edge the assembled profile is the leftmost piece *)
      apply (is_RInt_ext (pU q0)).
      * intros x Hx. rewrite Rmin_left, Rmax_right in Hx by lra.
        unfold asm. symmetry. apply fold_over_before.
        constructor; [ lra | ]. revert Hedges. apply List.Forall_impl. intros q Hq. lra.
      * apply (is_RInt_derive (pH q0) (pU q0) xa (pe q1)).
        -- intros x Hx. rewrite Rmin_left, Rmax_right in Hx by lra. apply Hd. exact Hx.
        -- intros x Hx. rewrite Rmin_left, Rmax_right in Hx by lra. apply Hc. exact Hx.
    + (* right of it the first overwrite has happened *)
      apply (is_RInt_ext (asm q1 rest)).
      * intros x Hx. rewrite Rmin_left, Rmax_right in Hx by lra.
        unfold asm. cbn [fold_left]. replace (over x (pU q0 x) q1) with (pU q1 x); [ reflexivity | ].
        unfold over. destruct (Rle_dec (pe q1) x) as [Hl|Hn]; [ reflexivity | lra ].
      * apply IH. exact Hrest.
Qed.

(* ---- fields assembled component-wise combine into an assembled conserved density *)
Lemma fold_over_combine4 :
  forall (phi : R -> R -> R -> R -> R) (ps : list (R * (R -> R) * (R -> R) * (R -> R) * (R -> R))) x a b c d,
  phi (fold_left (fun acc q => if Rle_dec (fst (fst (fst (fst q)))) x then snd (fst (fst (fst q))) x else acc) ps a)
      (fold_left (fun acc q => if Rle_dec (fst (fst (fst (fst q)))) x then snd (fst (fst q)) x else acc) ps b)
      (fold_left (fun acc q => if Rle_dec (fst (fst (fst (fst q)))) x then snd (fst q) x else acc) ps c)
      (fold_left (fun acc q => if Rle_dec (fst (fst (fst (fst q)))) x then snd q x else acc) ps d)
  = fold_left (fun acc q => if Rle_dec (fst (fst (fst (fst q)))) x
                            then phi (snd (fst (fst (fst q))) x) (snd (fst (fst q)) x) (snd (fst q) x) (snd q x) else acc)
              ps (phi a b c d).
Proof.
  intros phi ps x. induction ps as [|q rest IH]; intros a b c d; simpl; [ reflexivity | ].
  destruct (Rle_dec (fst (fst (fst (fst q)))) x); apply IH.
Qed.
