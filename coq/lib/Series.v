(* Finite sums sum_from / sum_range: differentiation term by term, pointwise rewriting, limits. *)
From Coq Require Import Reals Lra Lia.
From Coquelicot Require Import Coquelicot.
From EP Require Import lib.Base.
Open Scope R_scope.

Lemma sum_from_ext : forall (f g : R -> R) s l,
  (forall n : nat, (s <= n < s + l)%nat -> f (INR n) = g (INR n)) -> sum_from f s l = sum_from g s l.
Proof.
  intros f g s l. revert s. induction l as [|l IH]; intros s H; simpl; [ reflexivity | ].
  rewrite (H s) by lia. f_equal. apply IH. intros n Hn. apply H. lia.
Qed.

Lemma sum_from_zero : forall (f : R -> R) s l,
  (forall n : nat, (s <= n < s + l)%nat -> f (INR n) = 0) -> sum_from f s l = 0.
Proof.
  intros f s l. revert s. induction l as [|l IH]; intros s H; simpl; [ reflexivity | ].
  rewrite (H s) by lia. rewrite IH; [ ring | ]. intros n Hn. apply H. lia.
Qed.

Lemma sum_from_scal : forall (f : R -> R) c s l, sum_from (fun n => c * f n) s l = c * sum_from f s l.
Proof. intros f c s l. revert s. induction l as [|l IH]; intros s; simpl; [ ring | rewrite IH; ring ]. Qed.

Lemma sum_from_plus : forall (f g : R -> R) s l, sum_from (fun n => f n + g n) s l = sum_from f s l + sum_from g s l.
Proof. intros f g s l. revert s. induction l as [|l IH]; intros s; simpl; [ ring | rewrite IH; ring ]. Qed.

(* term-by-term differentiation of a finite sum whose terms depend on a real variable *)
Lemma is_derive_sum_from : forall (f : R -> R -> R) (g : R -> R) x s l,
  (forall n : nat, (s <= n < s + l)%nat -> is_derive (fun y => f (INR n) y) x (g (INR n))) ->
  is_derive (fun y => sum_from (fun n => f n y) s l) x (sum_from g s l).
Proof.
  intros f g x s l. revert s. induction l as [|l IH]; intros s H; simpl.
  - apply (is_derive_const 0 x).
  - apply (is_derive_plus (fun y => f (INR s) y) (fun y => sum_from (fun n => f n y) (S s) l)).
    + apply H. lia.
    + apply IH. intros n Hn. apply H. lia.
Qed.

Lemma is_derive_sum_range : forall (f : R -> R -> R) (g : R -> R) x lo hi,
  (forall n : nat, is_derive (fun y => f (INR n) y) x (g (INR n))) ->
  is_derive (fun y => sum_range (fun n => f n y) lo hi) x (sum_range g lo hi).
Proof. intros. unfold sum_range. apply is_derive_sum_from. intros n _. apply H. Qed.

Lemma sum_range_ext : forall (f g : R -> R) lo hi,
  (forall n : nat, f (INR n) = g (INR n)) -> sum_range f lo hi = sum_range g lo hi.
Proof. intros. unfold sum_range. apply sum_from_ext. intros n _. apply H. Qed.

Lemma sum_range_zero : forall (f : R -> R) lo hi, (forall n : nat, f (INR n) = 0) -> sum_range f lo hi = 0.
Proof. intros. unfold sum_range. apply sum_from_zero. intros n _. apply H. Qed.

Lemma sum_range_scal : forall (f : R -> R) c lo hi, sum_range (fun n => c * f n) lo hi = c * sum_range f lo hi.
Proof. intros. unfold sum_range. apply sum_from_scal. Qed.

(* limit of a finite sum, term by term *)
Lemma filterlim_sum_from : forall (F : (R -> Prop) -> Prop) {FF : Filter F} (f : R -> R -> R) (l : R -> R) s len,
  (forall n : nat, (s <= n < s + len)%nat -> filterlim (fun t => f (INR n) t) F (locally (l (INR n)))) ->
  filterlim (fun t => sum_from (fun n => f n t) s len) F (locally (sum_from l s len)).
Proof.
  intros F FF f l s len. revert s. induction len as [|len IH]; intros s H; simpl.
  - apply filterlim_const.
  - apply (filterlim_comp_2 (G := locally (l (INR s))) (H := locally (sum_from l (S s) len))
             (fun t => f (INR s) t) (fun t => sum_from (fun n => f n t) (S s) len) Rplus).
    + apply H. lia.
    + apply IH. intros n Hn. apply H. lia.
    + apply (filterlim_plus (l (INR s)) (sum_from l (S s) len)).
Qed.

(* trigonometric values at the mode numbers *)
Lemma sin_INR_PI : forall n : nat, sin (INR n * PI) = 0.
Proof.
  induction n as [|n IH]; [ simpl; rewrite Rmult_0_l; apply sin_0 | ].
  rewrite S_INR. replace ((INR n + 1) * PI) with (INR n * PI + PI) by ring.
  rewrite neg_sin, IH. ring.
Qed.

Lemma cos_INR_PI : forall n : nat, cos (INR n * PI) = (-1) ^ n.
Proof.
  induction n as [|n IH]; [ simpl; rewrite Rmult_0_l; apply cos_0 | ].
  rewrite S_INR. replace ((INR n + 1) * PI) with (INR n * PI + PI) by ring.
  rewrite neg_cos, IH. simpl. ring.
Qed.

Lemma cos_half_odd_PI : forall n : nat, cos ((2 * INR n + 1) * PI / 2) = 0.
Proof.
  intros n. replace ((2 * INR n + 1) * PI / 2) with (PI / 2 + INR n * PI) by field.
  rewrite cos_plus, cos_PI2, sin_PI2, sin_INR_PI. ring.
Qed.

Lemma sin_half_odd_PI : forall n : nat, sin ((2 * INR n + 1) * PI / 2) = (-1) ^ n.
Proof.
  intros n. replace ((2 * INR n + 1) * PI / 2) with (PI / 2 + INR n * PI) by field.
  rewrite sin_plus, cos_PI2, sin_PI2, cos_INR_PI. ring.
Qed.

(* literal bounds: Python range(N) with N written as INR N *)
Lemma R2nat_0 : R2nat 0 = 0%nat.
Proof. change 0 with (INR 0). apply R2nat_INR. Qed.

Lemma sum_range_0_INR : forall f N, sum_range f 0 (INR N) = sum_from f 0 N.
Proof. intros f N. unfold sum_range. rewrite R2nat_0, R2nat_INR. f_equal. lia. Qed.

Lemma sum_range_1_INR : forall f N, sum_range f 1 (INR N) = sum_from f 1 (N - 1).
Proof. intros f N. unfold sum_range. replace (R2nat 1) with 1%nat by (change 1 with (INR 1); now rewrite R2nat_INR). now rewrite R2nat_INR. Qed.
