(* Base definitions shared by generated files and proofs. *)
From Coq Require Import Reals List String Lra Lia.
From Coquelicot Require Import Coquelicot.
Open Scope R_scope.

(* Sum of f(i) for integers lo <= i < hi, where lo and hi are reals that hold
   natural numbers (Python: for i in range(lo, hi)).  Totalised through
   Z.to_nat (up x - 1): theorems that use it assume lo = INR a, hi = INR b. *)
Definition R2nat (x : R) : nat := Z.to_nat (up x - 1).

Fixpoint sum_from (f : R -> R) (start : nat) (len : nat) : R :=
  match len with
  | O => 0
  | S n => f (INR start) + sum_from f (S start) n
  end.

Definition sum_range (f : R -> R) (lo hi : R) : R :=
  sum_from f (R2nat lo) (R2nat hi - R2nat lo).

Lemma R2nat_INR : forall n, R2nat (INR n) = n.
Proof.
  intros n. unfold R2nat.
  assert (H : up (INR n) = (Z.of_nat n + 1)%Z).
  { symmetry. apply tech_up; rewrite plus_IZR, <- INR_IZR_INZ; simpl; lra. }
  rewrite H. lia.
Qed.

Lemma sum_range_INR : forall f a b, sum_range f (INR a) (INR b) = sum_from f a (b - a).
Proof. intros. unfold sum_range. now rewrite !R2nat_INR. Qed.

(* (-1)**k for an integer-valued real k (Python: (-1)**n with n a loop index or 2*n+1) *)
Definition altsign (x : R) : R := (-1) ^ (R2nat x).

Lemma altsign_INR : forall n, altsign (INR n) = (-1) ^ n.
Proof. intros n. unfold altsign. now rewrite R2nat_INR. Qed.
