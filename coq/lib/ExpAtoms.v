(* Closing PDE residuals of closed forms built from nested real powers:
   after differentiation (auto_derive on exp/ln), every maximal exponential is abstracted as a
   positive real atom, innermost first, so that the residual becomes a rational identity for `field`.
   Relations between atoms (exponents that add up to an integer, sqrt x * sqrt x = x) are rewritten
   by the caller before the abstraction. *)
From Coq Require Import Reals Lra.
From Coquelicot Require Import Coquelicot.
Open Scope R_scope.

Ltac abstract_exp :=
  repeat match goal with
  | |- context [exp ?a] =>
     lazymatch a with
     | context [exp _] => fail
     | _ => let e := fresh "E" in set (e := exp a) in *;
            assert (0 < e) by apply exp_pos; clearbody e
     end
  end.

(* exp (p * ln y) * exp (q * ln y) = y ^ 4 when p + q = 4 (used as: exp (p ln y) = y^4 / exp (q ln y)) *)
Lemma exp_ln_pow4 : forall y p q, 0 < y -> p + q = 4 ->
  exp (p * ln y) = y ^ 4 * / exp (q * ln y).
Proof.
  intros y p q Hy Hpq. rewrite <- exp_Ropp.
  replace (y ^ 4) with (exp (ln y + ln y + ln y + ln y))
    by (rewrite !exp_plus, exp_ln by exact Hy; ring).
  rewrite <- exp_plus. f_equal. replace p with (4 - q) by lra. ring.
Qed.

Lemma exp_ln_pow2 : forall y p q, 0 < y -> p + q = 2 ->
  exp (p * ln y) = y ^ 2 * / exp (q * ln y).
Proof.
  intros y p q Hy Hpq. rewrite <- exp_Ropp.
  replace (y ^ 2) with (exp (ln y + ln y))
    by (rewrite !exp_plus, exp_ln by exact Hy; ring).
  rewrite <- exp_plus. f_equal. replace p with (2 - q) by lra. ring.
Qed.
