(* The centred isentropic simple wave of a gamma-law gas, in the algebraic form used by
   riemann/utils.py:rho_p_u_rarefaction, satisfies the planar Euler equations.  s = +1: left-facing
   fan anchored at the left state; s = -1: right-facing fan anchored at the right state. *)
From Coq Require Import Reals Lra Psatz FunctionalExtensionality.
From Coquelicot Require Import Coquelicot.
From EP Require Import lib.Euler lib.Piecewise.
Open Scope R_scope.

Section SimpleWave.
Variables g P0 R0 u0 xd0 s : R.
Hypothesis Hg : 1 < g.
Hypothesis HP : 0 < P0.
Hypothesis HR : 0 < R0.
Hypothesis Hs : s * s = 1.

Definition sw_a : R := sqrt (g * P0 / R0).
Definition sw_Y (x t : R) : R := 2 / (g + 1) + s * (g - 1) / sw_a / (g + 1) * (u0 - (x - xd0) / t).
Definition sw_rho (x t : R) : R := R0 * Rpower (sw_Y x t) (2 / (g - 1)).
Definition sw_p (x t : R) : R := P0 * Rpower (sw_Y x t) (2 * g / (g - 1)).
Definition sw_u (x t : R) : R := 2 * (s * sw_a + (g - 1) * u0 / 2 + (x - xd0) / t) / (g + 1).
Definition sw_e (x t : R) : R := sw_p x t / (g - 1) / sw_rho x t.

Lemma sw_a_pos : 0 < sw_a.
Proof. unfold sw_a. apply sqrt_lt_R0. apply Rdiv_lt_0_compat; nra. Qed.

Lemma sw_a_sq : sw_a * sw_a = g * P0 / R0.
Proof. unfold sw_a. apply sqrt_sqrt. apply Rlt_le. apply Rdiv_lt_0_compat; nra. Qed.

Lemma sw_Y_dx : forall x t, t <> 0 -> is_derive (fun y => sw_Y y t) x (- (s * (g - 1) / sw_a / (g + 1)) / t).
Proof.
  intros x t Ht. pose proof sw_a_pos as Ha. unfold sw_Y. auto_derive; [ first [ exact I | exact Ht ] | field; repeat split; try lra; try exact Ht ].
Qed.

Lemma sw_Y_dt : forall x t, t <> 0 -> is_derive (fun y => sw_Y x y) t (s * (g - 1) / sw_a / (g + 1) * (x - xd0) / (t * t)).
Proof.
  intros x t Ht. pose proof sw_a_pos as Ha. unfold sw_Y. auto_derive; [ first [ exact I | exact Ht ] | field; repeat split; try lra; try exact Ht ].
Qed.

(* log-derivative of a power of a positive differentiable function *)
Lemma is_derive_Rpower_comp : forall (f : R -> R) x l n, 0 < f x -> is_derive f x l ->
  is_derive (fun y => Rpower (f y) n) x (n * l / f x * Rpower (f x) n).
Proof.
  intros f x l n Hpos Hd. unfold Rpower.
  evar_last.
  - apply (is_derive_comp (fun z => exp z) (fun y => n * ln (f y)) x).
    + apply is_derive_Reals, derivable_pt_lim_exp.
    + apply (is_derive_scal (fun y => ln (f y)) x n).
      apply (is_derive_comp ln f x); [ apply is_derive_Reals, derivable_pt_lim_ln; exact Hpos | exact Hd ].
  - unfold scal; simpl; unfold mult; simpl. field. lra.
Qed.

Theorem simple_wave_euler : forall x t, 0 < t -> 0 < sw_Y x t ->
  euler_at 0 sw_rho sw_u sw_p sw_e x t.
Proof.
  intros x t Ht HY.
  pose proof sw_a_pos as Ha. pose proof sw_a_sq as Ha2.
  assert (Htn : t <> 0) by lra.
  pose proof (sw_Y_dx x t Htn) as Ydx. pose proof (sw_Y_dt x t Htn) as Ydt.
  set (c1 := s * (g - 1) / sw_a / (g + 1)) in *.
  (* derivatives of the fields *)
  assert (Drx : is_derive (fun y => sw_rho y t) x (R0 * (2 / (g - 1) * (- c1 / t) / sw_Y x t * Rpower (sw_Y x t) (2 / (g - 1))))).
  { unfold sw_rho. apply (is_derive_scal (fun y => Rpower (sw_Y y t) (2 / (g - 1))) x R0).
    apply (is_derive_Rpower_comp (fun y => sw_Y y t)); assumption. }
  assert (Drt : is_derive (fun y => sw_rho x y) t (R0 * (2 / (g - 1) * (c1 * (x - xd0) / (t * t)) / sw_Y x t * Rpower (sw_Y x t) (2 / (g - 1))))).
  { unfold sw_rho. apply (is_derive_scal (fun y => Rpower (sw_Y x y) (2 / (g - 1))) t R0).
    apply (is_derive_Rpower_comp (fun y => sw_Y x y)); assumption. }
  assert (Dpx : is_derive (fun y => sw_p y t) x (P0 * (2 * g / (g - 1) * (- c1 / t) / sw_Y x t * Rpower (sw_Y x t) (2 * g / (g - 1))))).
  { unfold sw_p. apply (is_derive_scal (fun y => Rpower (sw_Y y t) (2 * g / (g - 1))) x P0).
    apply (is_derive_Rpower_comp (fun y => sw_Y y t)); assumption. }
  assert (Dpt : is_derive (fun y => sw_p x y) t (P0 * (2 * g / (g - 1) * (c1 * (x - xd0) / (t * t)) / sw_Y x t * Rpower (sw_Y x t) (2 * g / (g - 1))))).
  { unfold sw_p. apply (is_derive_scal (fun y => Rpower (sw_Y x y) (2 * g / (g - 1))) t P0).
    apply (is_derive_Rpower_comp (fun y => sw_Y x y)); assumption. }
  assert (Dux : is_derive (fun y => sw_u y t) x (2 / (g + 1) / t)).
  { unfold sw_u. auto_derive; [ first [ exact I | exact Htn ] | field; repeat split; lra ]. }
  assert (Dut : is_derive (fun y => sw_u x y) t (- 2 / (g + 1) * (x - xd0) / (t * t))).
  { unfold sw_u. auto_derive; [ first [ exact I | exact Htn ] | field; repeat split; lra ]. }
  (* Y^(2g/(g-1)) = Y^(2/(g-1)) * Y^2 *)
  assert (HB : Rpower (sw_Y x t) (2 * g / (g - 1)) = Rpower (sw_Y x t) (2 / (g - 1)) * (sw_Y x t * sw_Y x t)).
  { replace (2 * g / (g - 1)) with (2 / (g - 1) + 1 + 1) by (field; lra).
    rewrite !Rpower_plus, Rpower_1 by exact HY. ring. }
  set (A := Rpower (sw_Y x t) (2 / (g - 1))) in *.
  assert (HA : 0 < A) by (unfold A, Rpower; apply exp_pos).
  (* express Y through xi and P0 through a *)
  assert (HYdef : sw_Y x t = 2 / (g + 1) + c1 * (u0 - (x - xd0) / t)) by reflexivity.
  assert (HP0 : P0 = sw_a * sw_a * R0 / g) by (rewrite Ha2; field; lra).
  assert (Hc1 : c1 = s * (g - 1) / sw_a / (g + 1)) by reflexivity.
  assert (Heq : forall y z, 0 < sw_Y y z -> sw_e y z = P0 / R0 / (g - 1) * (sw_Y y z * sw_Y y z)).
  { intros y z Hyz. unfold sw_e, sw_p, sw_rho.
    replace (2 * g / (g - 1)) with (2 / (g - 1) + 1 + 1) by (field; lra).
    rewrite !Rpower_plus, Rpower_1 by exact Hyz.
    assert (0 < Rpower (sw_Y y z) (2 / (g - 1))) by (unfold Rpower; apply exp_pos).
    field. repeat split; lra. }
  assert (Heder_x : is_derive (fun y => sw_e y t) x (P0 / R0 / (g - 1) * (2 * sw_Y x t * (- c1 / t)))).
  { apply (is_derive_ext_loc (fun y => P0 / R0 / (g - 1) * (sw_Y y t * sw_Y y t))).
    - assert (Hl : locally x (fun y => 0 < sw_Y y t)).
      { apply (locally_lt_cont (fun _ => 0) (fun y => sw_Y y t) x).
        - apply continuous_const.
        - apply (ex_derive_continuous (fun y => sw_Y y t)). eexists; exact Ydx.
        - exact HY. }
      revert Hl. apply filter_imp. intros y Hy. symmetry. apply Heq. exact Hy.
    - evar_last.
      + apply (is_derive_scal (fun y => sw_Y y t * sw_Y y t) x (P0 / R0 / (g - 1))).
        apply (is_derive_mult (fun y => sw_Y y t) (fun y => sw_Y y t) x _ _ Ydx Ydx). intros; apply Rmult_comm.
      + unfold plus, scal, mult; simpl; unfold mult; simpl. ring. }
  assert (Heder_t : is_derive (fun y => sw_e x y) t (P0 / R0 / (g - 1) * (2 * sw_Y x t * (c1 * (x - xd0) / (t * t))))).
  { apply (is_derive_ext_loc (fun y => P0 / R0 / (g - 1) * (sw_Y x y * sw_Y x y))).
    - assert (Hl : locally t (fun y => 0 < sw_Y x y)).
      { apply (locally_lt_cont (fun _ => 0) (fun y => sw_Y x y) t).
        - apply continuous_const.
        - apply (ex_derive_continuous (fun y => sw_Y x y)). eexists; exact Ydt.
        - exact HY. }
      revert Hl. apply filter_imp. intros y Hy. symmetry. apply Heq. exact Hy.
    - evar_last.
      + apply (is_derive_scal (fun y => sw_Y x y * sw_Y x y) t (P0 / R0 / (g - 1))).
        apply (is_derive_mult (fun y => sw_Y x y) (fun y => sw_Y x y) t _ _ Ydt Ydt). intros; apply Rmult_comm.
      + unfold plus, scal, mult; simpl; unfold mult; simpl. ring. }
  assert (Hs12 : s = 1 \/ s = -1) by nra.
  assert (HY2 : 0 < 2 * (sw_a * t) + s * (g - 1) * (u0 * t - (x - xd0))).
  { replace (2 * (sw_a * t) + s * (g - 1) * (u0 * t - (x - xd0))) with (sw_Y x t * (sw_a * (g + 1) * t))
      by (unfold sw_Y; field; repeat split; lra).
    apply Rmult_lt_0_compat; [ exact HY | ]. apply Rmult_lt_0_compat; [ apply Rmult_lt_0_compat; lra | lra ]. }
  unfold euler_at, mass_eq, momentum_eq, energy_eq.
  split; [ | split ].
  - do 3 eexists. split; [ exact Drt | ]. split; [ exact Drx | ]. split; [ exact Dux | ].
    unfold sw_rho, sw_u. fold A. clearbody A. unfold c1, sw_Y.
    match goal with |- context [0 * ?a1 * ?b1 / x] => replace (0 * a1 * b1 / x) with 0 by (unfold Rdiv; ring) end.
    unfold sw_Y in HY. set (a := sw_a) in *. clearbody a.
    destruct Hs12 as [E | E]; rewrite E in *; field; repeat split; try lra.
  - do 3 eexists. split; [ exact Dut | ]. split; [ exact Dux | ]. split; [ exact Dpx | ].
    unfold sw_rho, sw_u. rewrite HB. fold A. clearbody A. unfold c1, sw_Y.
    unfold sw_Y in HY. set (a := sw_a) in *. clearbody a. rewrite HP0.
    destruct Hs12 as [E | E]; rewrite E in *; field; repeat split; try lra.
  - exists (P0 / R0 / (g - 1) * (2 * sw_Y x t * (c1 * (x - xd0) / (t * t)))),
           (P0 / R0 / (g - 1) * (2 * sw_Y x t * (- c1 / t))), (2 / (g + 1) / t), 0.
    split; [ exact Heder_t | ]. split; [ exact Heder_x | ]. split; [ exact Dux | ].
    split; [ apply (is_derive_const 0 x) | ].
    unfold sw_rho, sw_u, sw_p. rewrite HB. fold A. clearbody A. unfold c1, sw_Y.
    repeat match goal with |- context [0 * ?a1 / x] => replace (0 * a1 / x) with 0 by (unfold Rdiv; ring) end.
    unfold sw_Y in HY. set (a := sw_a) in *. clearbody a. rewrite HP0.
    destruct Hs12 as [E | E]; rewrite E in *; field; repeat split; try lra.
Qed.
End SimpleWave.
