(* acos is not known to the Interval tactic: the Marshak phase acos(sqrt(3/(3+4 g^2))) of the Su-Olson solver is
   rewritten as atan(2 g / sqrt 3) in correspondence goals. *)
From Coq Require Import Reals Lra Psatz.
From Interval Require Import Tactic.
Open Scope R_scope.

Lemma acos_marshak : forall g, 0 <= g -> acos (sqrt (3 / (3 + 4 * g ^ 2))) = atan (2 * g / sqrt 3).
Proof.
  intros g Hg.
  assert (H3 : 0 < sqrt 3) by (apply sqrt_lt_R0; lra).
  assert (Hx : 0 <= 2 * g / sqrt 3) by (apply Rmult_le_pos; [ lra | apply Rlt_le, Rinv_0_lt_compat; exact H3 ]).
  assert (Hb : 0 <= atan (2 * g / sqrt 3) <= PI).
  { pose proof (atan_bound (2 * g / sqrt 3)) as (B1 & B2). split; [ | lra ].
    rewrite <- atan_0. destruct Hx as [Hx | Hx]; [ apply Rlt_le, atan_increasing; exact Hx | rewrite <- Hx; lra ]. }
  rewrite <- (acos_cos (atan (2 * g / sqrt 3))) by exact Hb.
  f_equal. rewrite cos_atan.
  assert (Hq : 0 < 3 + 4 * g ^ 2) by nra.
  replace (1 + (2 * g / sqrt 3)²) with ((3 + 4 * g ^ 2) / 3).
  2:{ unfold Rsqr. replace (2 * g / sqrt 3 * (2 * g / sqrt 3)) with (4 * g ^ 2 / (sqrt 3 * sqrt 3)) by (field; lra).
      rewrite sqrt_sqrt by lra. field. }
  rewrite !sqrt_div_alt by (first [ lra | exact Hq ]).
  assert (0 < sqrt (3 + 4 * g ^ 2)) by (apply sqrt_lt_R0; exact Hq).
  field. split; lra.
Qed.

Ltac acos_to_atan :=
  repeat match goal with
  | |- context [acos (sqrt (3 / (3 + 4 * ?g ^ 2)))] =>
      rewrite (acos_marshak g) by (first [ apply sqrt_pos | apply Rmult_le_pos; [ interval with (i_prec 60) | apply sqrt_pos ] ])
  end.
