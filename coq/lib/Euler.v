(* The documented governing equations, as predicates on returned fields.
   (rho, u, P, e, F : position -> time -> value; k = geometry - 1.)
   Each predicate asserts that the needed partial derivatives EXIST (is_derive)
   and that the residual built from them vanishes. *)
From Coq Require Import Reals Lra.
From Coquelicot Require Import Coquelicot.
Open Scope R_scope.

Definition mass_eq (k : R) (rho u : R -> R -> R) (r t : R) : Prop :=
  exists rt rr ur,
    is_derive (fun x => rho r x) t rt /\ is_derive (fun x => rho x t) r rr /\
    is_derive (fun x => u x t) r ur /\
    rt + u r t * rr + rho r t * ur + k * rho r t * u r t / r = 0.

Definition momentum_eq (rho u P : R -> R -> R) (r t : R) : Prop :=
  exists ut ur pr,
    is_derive (fun x => u r x) t ut /\ is_derive (fun x => u x t) r ur /\
    is_derive (fun x => P x t) r pr /\
    ut + u r t * ur + pr / rho r t = 0.

(* energy in conservation form with the returned e and P and a heat flux F *)
Definition energy_eq (k : R) (rho u P e F : R -> R -> R) (r t : R) : Prop :=
  exists et er ur Fr,
    is_derive (fun x => e r x) t et /\ is_derive (fun x => e x t) r er /\
    is_derive (fun x => u x t) r ur /\ is_derive (fun x => F x t) r Fr /\
    et + u r t * er + P r t / rho r t * (ur + k * u r t / r)
      + (Fr + k * F r t / r) / rho r t = 0.

(* F = -(c lambda0 / 3) rho^alpha T^beta d(a T^4)/dr = - K0 rho^alpha T^(beta+3) dT/dr,
   K0 = 4 a c lambda0 / 3, required on a neighbourhood (every r' > 0) so that dF/dr means
   the derivative of this very function *)
Definition is_heat_flux (K0 alpha beta : R) (rho T F : R -> R -> R) (t : R) : Prop :=
  forall r', 0 < r' -> exists Tr, is_derive (fun x => T x t) r' Tr /\
     F r' t = - K0 * Rpower (rho r' t) alpha * Rpower (T r' t) (beta + 3) * Tr.

Definition euler_at (k : R) (rho u P e : R -> R -> R) (r t : R) : Prop :=
  mass_eq k rho u r t /\ momentum_eq rho u P r t /\ energy_eq k rho u P e (fun _ _ => 0) r t.

Definition euler_heat_at (k K0 alpha beta : R) (rho u T P e : R -> R -> R) (r t : R) : Prop :=
  mass_eq k rho u r t /\ momentum_eq rho u P r t /\
  exists F, is_heat_flux K0 alpha beta rho T F t /\ energy_eq k rho u P e F r t.

(* heat flux of a temperature field that is a power law in r (log-derivative form) *)
Definition powerlaw_flux (K0 alpha beta p : R) (rho T : R -> R -> R) : R -> R -> R :=
  fun r t => - K0 * Rpower (rho r t) alpha * Rpower (T r t) (beta + 3) * (p / r * T r t).

Lemma heat_flux_powerlaw : forall K0 alpha beta p rho T t,
  (forall r, 0 < r -> is_derive (fun x => T x t) r (p / r * T r t)) ->
  is_heat_flux K0 alpha beta rho T (powerlaw_flux K0 alpha beta p rho T) t.
Proof.
  intros K0 alpha beta p rho T t H r Hr. exists (p / r * T r t). split; [apply H; exact Hr | reflexivity].
Qed.

(* ---- refutation helpers: derivatives are unique, so a non-zero residual built from ANY valid
   derivative values refutes the equation *)
Lemma not_mass_eq : forall k rho u r t rt rr ur,
  is_derive (fun x => rho r x) t rt -> is_derive (fun x => rho x t) r rr ->
  is_derive (fun x => u x t) r ur ->
  rt + u r t * rr + rho r t * ur + k * rho r t * u r t / r <> 0 ->
  ~ mass_eq k rho u r t.
Proof.
  intros k rho u r t rt rr ur H1 H2 H3 Hne [rt' [rr' [ur' [G1 [G2 [G3 Heq]]]]]].
  apply Hne.
  rewrite <- (is_derive_unique _ _ _ H1), <- (is_derive_unique _ _ _ H2), <- (is_derive_unique _ _ _ H3).
  rewrite (is_derive_unique _ _ _ G1), (is_derive_unique _ _ _ G2), (is_derive_unique _ _ _ G3).
  exact Heq.
Qed.

Lemma not_momentum_eq : forall rho u P r t ut ur pr,
  is_derive (fun x => u r x) t ut -> is_derive (fun x => u x t) r ur ->
  is_derive (fun x => P x t) r pr ->
  ut + u r t * ur + pr / rho r t <> 0 ->
  ~ momentum_eq rho u P r t.
Proof.
  intros rho u P r t ut ur pr H1 H2 H3 Hne [ut' [ur' [pr' [G1 [G2 [G3 Heq]]]]]].
  apply Hne.
  rewrite <- (is_derive_unique _ _ _ H1), <- (is_derive_unique _ _ _ H2), <- (is_derive_unique _ _ _ H3).
  rewrite (is_derive_unique _ _ _ G1), (is_derive_unique _ _ _ G2), (is_derive_unique _ _ _ G3).
  exact Heq.
Qed.

Lemma not_energy_eq : forall k rho u P e F r t et er ur Fr,
  is_derive (fun x => e r x) t et -> is_derive (fun x => e x t) r er ->
  is_derive (fun x => u x t) r ur -> is_derive (fun x => F x t) r Fr ->
  et + u r t * er + P r t / rho r t * (ur + k * u r t / r) + (Fr + k * F r t / r) / rho r t <> 0 ->
  ~ energy_eq k rho u P e F r t.
Proof.
  intros k rho u P e F r t et er ur Fr H1 H2 H3 H4 Hne [et' [er' [ur' [Fr' [G1 [G2 [G3 [G4 Heq]]]]]]]].
  apply Hne.
  rewrite <- (is_derive_unique _ _ _ H1), <- (is_derive_unique _ _ _ H2), <- (is_derive_unique _ _ _ H3),
          <- (is_derive_unique _ _ _ H4).
  rewrite (is_derive_unique _ _ _ G1), (is_derive_unique _ _ _ G2), (is_derive_unique _ _ _ G3),
          (is_derive_unique _ _ _ G4).
  exact Heq.
Qed.

(* the heat flux is determined by T: any F satisfying is_heat_flux agrees with the power-law flux *)
Lemma heat_energy_refute : forall k K0 alpha beta p rho u T P e r t, 0 < r ->
  (forall r', 0 < r' -> is_derive (fun x => T x t) r' (p / r' * T r' t)) ->
  ~ energy_eq k rho u P e (powerlaw_flux K0 alpha beta p rho T) r t ->
  ~ (exists F, is_heat_flux K0 alpha beta rho T F t /\ energy_eq k rho u P e F r t).
Proof.
  intros k K0 alpha beta p rho u T P e r t Hr HT Hne [F [HF He]].
  apply Hne.
  assert (Heq : forall x, 0 < x -> F x t = powerlaw_flux K0 alpha beta p rho T x t).
  { intros x Hx. destruct (HF x Hx) as [Tr [Hd HFx]].
    rewrite HFx. unfold powerlaw_flux.
    rewrite <- (is_derive_unique _ _ _ Hd), (is_derive_unique _ _ _ (HT x Hx)). reflexivity. }
  destruct He as [et [er [ur [Fr [G1 [G2 [G3 [G4 G5]]]]]]]].
  exists et, er, ur, Fr.
  split; [ exact G1 | ]. split; [ exact G2 | ]. split; [ exact G3 | ]. split.
  - apply (is_derive_ext_loc (fun x => F x t)); [ | exact G4 ].
    assert (Hloc : locally r (fun x => 0 < x)) by (apply (open_gt 0 r Hr)).
    revert Hloc. apply filter_imp. intros x Hx. apply Heq. exact Hx.
  - rewrite <- (Heq r Hr). exact G5.
Qed.
