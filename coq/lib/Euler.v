(* The documented governing equations, as predicates on returned fields.
   (rho, u, P, e, F : position -> time -> value; k = geometry - 1.)
   Each predicate asserts that the needed partial derivatives EXIST (is_derive)
   and that the residual built from them vanishes. *)
From Coq Require Import Reals Lra.
From Coquelicot Require Import Coquelicot.
Open Scope R_scope.

Definition mass_eq (k : R) (rho u : R -> R -> R) (r t : R) : Prop :=
  exists rt rr ur,
    is_derive (fun x => rho r x) t rt /\ is_derive (fun x => rho x t) r rr /\
    is_derive (fun x => u x t) r ur /\
    rt + u r t * rr + rho r t * ur + k * rho r t * u r t / r = 0.

Definition momentum_eq (rho u P : R -> R -> R) (r t : R) : Prop :=
  exists ut ur pr,
    is_derive (fun x => u r x) t ut /\ is_derive (fun x => u x t) r ur /\
    is_derive (fun x => P x t) r pr /\
    ut + u r t * ur + pr / rho r t = 0.

(* energy in conservation form with the returned e and P and a heat flux F *)
Definition energy_eq (k : R) (rho u P e F : R -> R -> R) (r t : R) : Prop :=
  exists et er ur Fr,
    is_derive (fun x => e r x) t et /\ is_derive (fun x => e x t) r er /\
    is_derive (fun x => u x t) r ur /\ is_derive (fun x => F x t) r Fr /\
    et + u r t * er + P r t / rho r t * (ur + k * u r t / r)
      + (Fr + k * F r t / r) / rho r t = 0.

(* F = -(c lambda0 / 3) rho^alpha T^beta d(a T^4)/dr = - K0 rho^alpha T^(beta+3) dT/dr,
   K0 = 4 a c lambda0 / 3, required on a neighbourhood (every r' > 0) so that dF/dr means
   the derivative of this very function *)
Definition is_heat_flux (K0 alpha beta : R) (rho T F : R -> R -> R) (t : R) : Prop :=
  forall r', 0 < r' -> exists Tr, is_derive (fun x => T x t) r' Tr /\
     F r' t = - K0 * Rpower (rho r' t) alpha * Rpower (T r' t) (beta + 3) * Tr.

Definition euler_at (k : R) (rho u P e : R -> R -> R) (r t : R) : Prop :=
  mass_eq k rho u r t /\ momentum_eq rho u P r t /\ energy_eq k rho u P e (fun _ _ => 0) r t.

Definition euler_heat_at (k K0 alpha beta : R) (rho u T P e : R -> R -> R) (r t : R) : Prop :=
  mass_eq k rho u r t /\ momentum_eq rho u P r t /\
  exists F, is_heat_flux K0 alpha beta rho T F t /\ energy_eq k rho u P e F r t.

(* heat flux of a temperature field that is a power law in r (log-derivative form) *)
Definition powerlaw_flux (K0 alpha beta p : R) (rho T : R -> R -> R) : R -> R -> R :=
  fun r t => - K0 * Rpower (rho r t) alpha * Rpower (T r t) (beta + 3) * (p / r * T r t).

Lemma heat_flux_powerlaw : forall K0 alpha beta p rho T t,
  (forall r, 0 < r -> is_derive (fun x => T x t) r (p / r * T r t)) ->
  is_heat_flux K0 alpha beta rho T (powerlaw_flux K0 alpha beta p rho T) t.
Proof.
  intros K0 alpha beta p rho T t H r Hr. exists (p / r * T r t). split; [apply H; exact Hr | reflexivity].
Qed.
