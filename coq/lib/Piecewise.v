(* Derivatives of region-wise (np.where) fields strictly inside a region. *)
From Coq Require Import Reals Lra.
From Coquelicot Require Import Coquelicot.
Open Scope R_scope.

Lemma is_derive_loc_region (P : R -> Prop) (f g : R -> R) (x l : R) :
  locally x P -> (forall y, P y -> g y = f y) -> is_derive g x l -> is_derive f x l.
Proof.
  intros HP Heq Hd.
  apply (is_derive_ext_loc g f x l); [ | exact Hd ].
  revert HP. apply filter_imp. exact Heq.
Qed.

Lemma locally_lt_cont (f g : R -> R) (x : R) :
  continuous f x -> continuous g x -> f x < g x -> locally x (fun y => f y < g y).
Proof.
  intros Hf Hg Hlt.
  assert (Hc : continuous (fun y => g y - f y) x).
  { apply (continuous_minus g f x); assumption. }
  assert (Hpos : 0 < g x - f x) by lra.
  pose proof (Hc (fun z => 0 < z) (open_gt 0 (g x - f x) Hpos)) as H.
  unfold filtermap in H. revert H. apply filter_imp. intros y Hy. lra.
Qed.

Lemma locally_lt_id_const (s x : R) : x < s -> locally x (fun y => y < s).
Proof. intros H. apply (open_lt s x H). Qed.

Lemma locally_gt_id_const (s x : R) : s < x -> locally x (fun y => s < y).
Proof. intros H. apply (open_gt s x H). Qed.

Lemma locally_and (P Q : R -> Prop) x : locally x P -> locally x Q -> locally x (fun y => P y /\ Q y).
Proof. intros. now apply filter_and. Qed.

Lemma continuous_of_ex_derive (f : R -> R) x : ex_derive f x -> continuous f x.
Proof. intros H. apply (ex_derive_continuous f x H). Qed.
