From Coq Require Import Reals Lra Psatz.
From EP Require Import lib.Base lib.Tactics lib.Defined gen.Cog17.
Open Scope R_scope.
Lemma x : forall geometry gamma alpha beta lambda0 Gamma r t, cog17_defined_params geometry gamma alpha beta lambda0 Gamma -> 0 < r -> 0 < t -> cog17_defined geometry gamma alpha beta lambda0 Gamma r t.
Proof. intros geometry gamma alpha beta lambda0 Gamma r t HP Hr Ht. unfold cog17_defined, cog17_defined_params in *. destruct_ands; repeat split; intros; try defined_one. Show. Qed.
