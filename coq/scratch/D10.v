From Coq Require Import Reals Lra Psatz.
From EP Require Import lib.Base lib.Tactics lib.Defined gen.Cog10.
Open Scope R_scope.
Lemma x : forall geometry gamma beta lambda0 rho0 temp0 Gamma r t, cog10_defined_params geometry gamma beta lambda0 rho0 temp0 Gamma -> 0 < r -> 0 < t -> cog10_defined geometry gamma beta lambda0 rho0 temp0 Gamma r t.
Proof. intros geometry gamma beta lambda0 rho0 temp0 Gamma r t HP Hr Ht. unfold cog10_defined, cog10_defined_params in *. destruct_ands; repeat split; intros; try defined_one. Show. Qed.
