From Coq Require Import Reals Lra Psatz.
From EP Require Import lib.Base lib.Tactics lib.Defined gen.Cog3.
Open Scope R_scope.
Lemma x : forall geometry rho0 b v Gamma r t, cog3_defined_params geometry rho0 b v Gamma -> 0 < r -> 0 < t -> cog3_defined geometry rho0 b v Gamma r t.
Proof. intros geometry rho0 b v Gamma r t HP Hr Ht. unfold cog3_defined, cog3_defined_params in *. destruct_ands; repeat split; intros; try defined_one. Show. Qed.
