From Coq Require Import Reals Lra Psatz.
From EP Require Import lib.Base lib.Tactics lib.Defined gen.Cog18.
Open Scope R_scope.
Lemma x : forall geometry alpha beta rho0 tau Gamma r t, cog18_defined_params geometry alpha beta rho0 tau Gamma -> 0 < r -> 0 < t -> t < tau -> cog18_defined geometry alpha beta rho0 tau Gamma r t.
Proof. intros geometry alpha beta rho0 tau Gamma r t HP Hr Ht Htau. unfold cog18_defined, cog18_defined_params in *. destruct_ands; repeat split; intros; try defined_one. Show. Qed.
