From Coq Require Import Reals Lra Psatz.
From EP Require Import lib.Base lib.Tactics lib.Defined gen.Cog6.
Open Scope R_scope.
Lemma x : forall geometry rho0 tau b Gamma r t, cog6_defined_params geometry rho0 tau b Gamma -> 0 < r -> 0 < t -> t < tau -> cog6_defined geometry rho0 tau b Gamma r t.
Proof. intros geometry rho0 tau b Gamma r t HP Hr Ht Htau. unfold cog6_defined, cog6_defined_params in *. destruct_ands; repeat split; intros; try defined_one. Show. Qed.
