From Coq Require Import Reals Lra Psatz.
From EP Require Import lib.Base lib.Tactics lib.Defined gen.Cog21.
Open Scope R_scope.
Lemma x : forall rho0 temp0 Gamma r t, cog21_defined_params rho0 temp0 Gamma -> 0 < r -> 0 < t -> cog21_defined rho0 temp0 Gamma r t.
Proof. intros rho0 temp0 Gamma r t HP Hr Ht. unfold cog21_defined, cog21_defined_params in *. destruct_ands; repeat split; intros; try defined_one. Show. Qed.
