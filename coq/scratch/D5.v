From Coq Require Import Reals Lra Psatz.
From EP Require Import lib.Base lib.Tactics lib.Defined gen.Cog5.
Open Scope R_scope.
Lemma x : forall rho0 u0 Gamma r t, cog5_defined_params rho0 u0 Gamma -> 0 < r -> 0 < t -> cog5_defined rho0 u0 Gamma r t.
Proof. intros rho0 u0 Gamma r t HP Hr Ht. unfold cog5_defined, cog5_defined_params in *. destruct_ands; repeat split; intros; try defined_one. Show. Qed.
