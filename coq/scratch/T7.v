From Coq Require Import Reals Lra Nsatz.
From Coquelicot Require Import Coquelicot.
From EP Require Import lib.Base lib.Euler lib.Tactics gen.Cog7.
Open Scope R_scope.

Ltac sq_atoms tau t s :=
  replace (tau * (tau * 1) + - (t * (t * 1))) with (s * s) by (ring_simplify; lra);
  replace (tau * (tau * 1) - t * (t * 1)) with (s * s) by (ring_simplify; lra);
  replace (tau ^ 2 - t ^ 2) with (s * s) by (ring_simplify; lra).

Ltac abstract_exp :=
  repeat match goal with
  | |- context [exp ?a] =>
     lazymatch a with
     | context [exp _] => fail
     | _ => let e := fresh "E" in set (e := exp a) in *;
            assert (0 < e) by apply exp_pos; clearbody e
     end
  end.

Lemma cog7_mass :
  forall geometry tau b R0 Ri Gamma r t,
  0 < r -> 0 < t -> t < tau -> 0 < R0 -> 0 < Ri -> 0 < geometry ->
  0 < Rpower R0 (2 - b / ((geometry - 1 + 3) / (geometry - 1 + 1))) - Rpower Ri (2 - b / ((geometry - 1 + 3) / (geometry - 1 + 1))) ->
  0 < Rpower (r / sqrt (tau ^ 2 - t ^ 2)) (2 - b / ((geometry - 1 + 3) / (geometry - 1 + 1))) - Rpower (Ri / tau) (2 - b / ((geometry - 1 + 3) / (geometry - 1 + 1))) ->
  mass_eq (geometry - 1) (cog7_density geometry tau b R0 Ri Gamma) (cog7_velocity geometry tau b R0 Ri Gamma) r t.
Proof.
  intros geometry tau b R0 Ri Gamma r t Hr Ht Htt HR0 HRi Hg HX0 HX.
  assert (Hx1 : 0 < tau ^ 2 - t ^ 2) by nra.
  assert (Hs : 0 < sqrt (tau ^ 2 - t ^ 2)) by (apply sqrt_lt_R0; exact Hx1).
  assert (Htau : 0 < tau) by lra.
  unfold mass_eq; autounfold with epgen.
  exders.
  assert (Hss : sqrt (tau ^ 2 - t ^ 2) * sqrt (tau ^ 2 - t ^ 2) = tau ^ 2 - t ^ 2) by (apply sqrt_sqrt; lra).
  unfold Rpower in HX0, HX.
  revert HX Hss Hs. 
  replace (tau * (tau * 1) + - (t * (t * 1))) with (tau ^ 2 - t ^ 2) by ring.
  replace (tau * (tau * 1) - t * (t * 1)) with (tau ^ 2 - t ^ 2) by ring.
  generalize (sqrt (tau ^ 2 - t ^ 2)). intros s HX Hss Hs.
  rewrite <- Hss. clear Hss Hx1.
  unfold Rdiv in *.
  unfold Rpower, Rminus in *.
  abstract_exp.

  field; nz.
Qed.

Lemma cog7_energy :
  forall geometry tau b R0 Ri Gamma r t,
  0 < r -> 0 < t -> t < tau -> 0 < R0 -> 0 < Ri -> 0 < geometry -> Gamma <> 0 ->
  2 * ((geometry - 1 + 3) / (geometry - 1 + 1)) - b <> 0 ->
  0 < Rpower R0 (2 - b / ((geometry - 1 + 3) / (geometry - 1 + 1))) - Rpower Ri (2 - b / ((geometry - 1 + 3) / (geometry - 1 + 1))) ->
  0 < Rpower (r / sqrt (tau ^ 2 - t ^ 2)) (2 - b / ((geometry - 1 + 3) / (geometry - 1 + 1))) - Rpower (Ri / tau) (2 - b / ((geometry - 1 + 3) / (geometry - 1 + 1))) ->
  energy_eq (geometry - 1) (cog7_density geometry tau b R0 Ri Gamma) (cog7_velocity geometry tau b R0 Ri Gamma)
     (cog7_pressure geometry tau b R0 Ri Gamma) (cog7_specific_internal_energy geometry tau b R0 Ri Gamma) (fun _ _ => 0) r t.
Proof.
  intros geometry tau b R0 Ri Gamma r t Hr Ht Htt HR0 HRi Hg HG Hgb HX0 HX.
  assert (Hx1 : 0 < tau ^ 2 - t ^ 2) by nra.
  assert (Hs : 0 < sqrt (tau ^ 2 - t ^ 2)) by (apply sqrt_lt_R0; exact Hx1).
  assert (Htau : 0 < tau) by lra.
  unfold energy_eq; autounfold with epgen.
  exders.
  assert (Hss : sqrt (tau ^ 2 - t ^ 2) * sqrt (tau ^ 2 - t ^ 2) = tau ^ 2 - t ^ 2) by (apply sqrt_sqrt; lra).
  unfold Rpower in HX0, HX.
  revert HX Hss Hs. 
  replace (tau * (tau * 1) + - (t * (t * 1))) with (tau ^ 2 - t ^ 2) by ring.
  replace (tau * (tau * 1) - t * (t * 1)) with (tau ^ 2 - t ^ 2) by ring.
  generalize (sqrt (tau ^ 2 - t ^ 2)). intros s HX Hss Hs.
  rewrite <- Hss. clear Hss Hx1.
  unfold Rdiv in *.
  unfold Rpower, Rminus in *.
  abstract_exp.
  field; nz.
  intro Hc; apply Hgb.
  match goal with |- ?l = 0 => replace l with ((2 * (geometry + -1 + 3) + - b * (geometry + -1 + 1)) * / (geometry + -1 + 1)) by (field; lra) end.
  rewrite Hc; ring.
Qed.

Lemma cog7_momentum :
  forall geometry tau b R0 Ri Gamma r t,
  0 < r -> 0 < t -> t < tau -> 0 < R0 -> 0 < Ri -> 0 < geometry -> Gamma <> 0 ->
  2 * ((geometry - 1 + 3) / (geometry - 1 + 1)) - b <> 0 ->
  0 < Rpower R0 (2 - b / ((geometry - 1 + 3) / (geometry - 1 + 1))) - Rpower Ri (2 - b / ((geometry - 1 + 3) / (geometry - 1 + 1))) ->
  0 < Rpower (r / sqrt (tau ^ 2 - t ^ 2)) (2 - b / ((geometry - 1 + 3) / (geometry - 1 + 1))) - Rpower (Ri / tau) (2 - b / ((geometry - 1 + 3) / (geometry - 1 + 1))) ->
  momentum_eq (cog7_density geometry tau b R0 Ri Gamma) (cog7_velocity geometry tau b R0 Ri Gamma)
     (cog7_pressure geometry tau b R0 Ri Gamma) r t.
Proof.
  intros geometry tau b R0 Ri Gamma r t Hr Ht Htt HR0 HRi Hg HG Hgb HX0 HX.
  assert (Hx1 : 0 < tau ^ 2 - t ^ 2) by nra.
  assert (Hs : 0 < sqrt (tau ^ 2 - t ^ 2)) by (apply sqrt_lt_R0; exact Hx1).
  assert (Htau : 0 < tau) by lra.
  unfold momentum_eq; autounfold with epgen.
  exders.
  assert (Hss : sqrt (tau ^ 2 - t ^ 2) * sqrt (tau ^ 2 - t ^ 2) = tau ^ 2 - t ^ 2) by (apply sqrt_sqrt; lra).
  unfold Rpower in HX0, HX.
  revert HX Hss Hs. 
  replace (tau * (tau * 1) + - (t * (t * 1))) with (tau ^ 2 - t ^ 2) by ring.
  replace (tau * (tau * 1) - t * (t * 1)) with (tau ^ 2 - t ^ 2) by ring.
  generalize (sqrt (tau ^ 2 - t ^ 2)). intros s HX Hss Hs.
  rewrite <- Hss.
  unfold Rdiv in *.
  unfold Rpower, Rminus in *.
  assert (Hy : 0 < r * / s) by nz.
  match goal with |- context [exp ((2 + ?q) * ln (r * / s))] =>
    match goal with |- context [exp ((2 + - q) * ln (r * / s))] =>
      replace (exp ((2 + q) * ln (r * / s))) with ((r * / s) ^ 4 * / exp ((2 + - q) * ln (r * / s)))
    end
  end.
  2:{ rewrite <- exp_Ropp.
      replace ((r * / s) ^ 4) with (exp (ln (r * / s) + ln (r * / s) + ln (r * / s) + ln (r * / s)))
        by (rewrite !exp_plus, exp_ln by exact Hy; ring).
      rewrite <- exp_plus. f_equal. ring. }
  abstract_exp.
  field_simplify_eq; [ | nz ].
  assert (Ht2 : tau ^ 2 = s ^ 2 + t ^ 2) by (replace (s ^ 2) with (s * s) by ring; lra).
  rewrite Ht2; ring.
  intro Hc; apply Hgb.
  match goal with |- ?l = 0 => replace l with ((2 * (geometry + -1 + 3) + - b * (geometry + -1 + 1)) * / (geometry + -1 + 1)) by (field; lra) end.
  rewrite Hc; ring.
Qed.
