From Coq Require Import Reals Lra Psatz.
From EP Require Import lib.Base lib.Tactics lib.Defined gen.Cog2.
Open Scope R_scope.
Lemma x : forall geometry gamma rho0 b Gamma r t, cog2_defined_params geometry gamma rho0 b Gamma -> 0 < r -> 0 < t -> cog2_defined geometry gamma rho0 b Gamma r t.
Proof. intros geometry gamma rho0 b Gamma r t HP Hr Ht. unfold cog2_defined, cog2_defined_params in *. destruct_ands; repeat split; intros; try defined_one. Show. Qed.
