From Coq Require Import Reals Lra Psatz.
From EP Require Import lib.Base lib.Tactics lib.Defined gen.Cog8.
Open Scope R_scope.
Lemma x : forall geometry gamma alpha beta rho0 temp0 Gamma r t, cog8_defined_params geometry gamma alpha beta rho0 temp0 Gamma -> 0 < r -> 0 < t -> cog8_defined geometry gamma alpha beta rho0 temp0 Gamma r t.
Proof. intros geometry gamma alpha beta rho0 temp0 Gamma r t HP Hr Ht. unfold cog8_defined, cog8_defined_params in *. destruct_ands; repeat split; intros; try defined_one. Show. Qed.
