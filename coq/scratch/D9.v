From Coq Require Import Reals Lra Psatz.
From EP Require Import lib.Base lib.Tactics lib.Defined gen.Cog9.
Open Scope R_scope.
Lemma x : forall geometry gamma alpha beta rho0 Gamma r t, cog9_defined_params geometry gamma alpha beta rho0 Gamma -> 0 < r -> 0 < t -> cog9_defined geometry gamma alpha beta rho0 Gamma r t.
Proof. intros geometry gamma alpha beta rho0 Gamma r t HP Hr Ht. unfold cog9_defined, cog9_defined_params in *. destruct_ands; repeat split; intros; try defined_one. Show. Qed.
