From Coq Require Import Reals Lra Psatz.
From EP Require Import lib.Base lib.Tactics lib.Defined gen.Cog11.
Open Scope R_scope.
Lemma x : forall geometry gamma beta rho0 temp0 Gamma r t, cog11_defined_params geometry gamma beta rho0 temp0 Gamma -> 0 < r -> 0 < t -> cog11_defined geometry gamma beta rho0 temp0 Gamma r t.
Proof. intros geometry gamma beta rho0 temp0 Gamma r t HP Hr Ht. unfold cog11_defined, cog11_defined_params in *. destruct_ands; repeat split; intros; try defined_one. Show. Qed.
