From Coq Require Import Reals Lra Psatz.
From EP Require Import lib.Base lib.Tactics lib.Defined gen.Cog16.
Open Scope R_scope.
Lemma x : forall geometry gamma u0 b lambda0 Gamma r t, cog16_defined_params geometry gamma u0 b lambda0 Gamma -> 0 < r -> 0 < t -> cog16_defined geometry gamma u0 b lambda0 Gamma r t.
Proof. intros geometry gamma u0 b lambda0 Gamma r t HP Hr Ht. unfold cog16_defined, cog16_defined_params in *. destruct_ands; repeat split; intros; try defined_one. Show. Qed.
