From Coq Require Import Reals Lra Psatz.
From EP Require Import lib.Base lib.Tactics lib.Defined gen.Cog4.
Open Scope R_scope.
Lemma x : forall geometry gamma rho0 u0 Gamma r t, cog4_defined_params geometry gamma rho0 u0 Gamma -> 0 < r -> 0 < t -> cog4_defined geometry gamma rho0 u0 Gamma r t.
Proof. intros geometry gamma rho0 u0 Gamma r t HP Hr Ht. unfold cog4_defined, cog4_defined_params in *. destruct_ands; repeat split; intros; try defined_one. Show. Qed.
