(* Documented field names (transcribed from exactpack/base.py "Standardized Variable Names" and from the
   per-solver documentation).  This is property text, not derived from code. *)
From Coq Require Import List String.
Import ListNotations.
Open Scope string_scope.

(* names under which the first field(s) - the positions handed to the solver - are returned *)
Definition position_names : list string :=
  ["position"; "position_x"; "position_y"; "position_z";
   (* documented per-solver deviations *)
   "radius" (* heat.Hutchens1 *); "position_r"; "angle_theta" (* heat.CylindricalSandwich *);
   "x_position"; "y_position" (* riemann2D *)].

Definition standard_names : list string :=
  ["density"; "pressure"; "specific_internal_energy"; "velocity"; "position"; "position_x"; "position_y"; "position_z"].

(* problem-specific variables described in the documentation of the individual solvers *)
Definition documented_extras : list string :=
  ["temperature"; "sound_speed"; "burntime"; "reaction_progress"; "position_relative"; "region"; "xdet";
   "displacement"; "strain_rr"; "strain_qq"; "strain_vol"; "stress_rr"; "stress_qq"; "stress_diff";
   "stress_dev_rr"; "stress_dev_qq"; "deviatoric stress"; "curr_posn"; "energy"; "rade"; "VEF";
   "temperature_mat"; "temperature_rad"; "temperature_elec"; "temperature_ion";
   "Mach"; "speed"; "x_velocity"; "y_velocity";
   "radius"; "position_r"; "angle_theta"; "x_position"; "y_position"].

(* spellings that would shadow a standardized name *)
Definition forbidden_synonyms : list string :=
  ["rho"; "dens"; "p"; "pres"; "press"; "sie"; "e"; "internal_energy"; "specific_energy"; "u"; "vel"; "v"; "x"; "r"; "pos"; "xpos"].
