(* Isotropic linear elasticity: the six parameters (first Lame modulus lambda, shear modulus G, Young's modulus E,
   Poisson's ratio nu, bulk modulus K, longitudinal modulus M) of ONE positive-definite material.  Positive
   definiteness of the strain energy is Gurtin's condition G > 0, 3 lambda + 2 G > 0 (equivalently K > 0). *)
From Coq Require Import Reals Lra.
Open Scope R_scope.

Definition iso_material (lam G E nu K M : R) : Prop :=
  0 < G /\ 0 < 3 * lam + 2 * G /\
  E = G * (3 * lam + 2 * G) / (lam + G) /\
  nu = lam / (2 * (lam + G)) /\
  K = lam + 2 * G / 3 /\
  M = lam + 2 * G.

(* consequences used by the Blake field theorems and by readers of the moduli *)
Lemma iso_material_facts : forall lam G E nu K M, iso_material lam G E nu K M ->
  0 < K /\ 0 < E /\ 0 < M /\ -1 < nu /\ nu < 1 / 2 /\ 0 < lam + G /\
  E = 2 * G * (1 + nu) /\ E = 3 * K * (1 - 2 * nu) /\ lam = nu / (1 - nu) * M.
Proof.
  intros lam G E nu K M (HG & HK & HE & Hnu & HKd & HM).
  assert (HlG : 0 < lam + G) by lra.
  assert (Hnu' : nu * (2 * (lam + G)) = lam) by (rewrite Hnu; field; lra).
  assert (HE' : E * (lam + G) = G * (3 * lam + 2 * G)) by (rewrite HE; field; lra).
  assert (Hn1 : -1 < nu) by nra. assert (Hn2 : nu < 1 / 2) by nra.
  assert (HEpos : 0 < E) by (rewrite HE; apply Rdiv_lt_0_compat; [ apply Rmult_lt_0_compat; lra | lra ]).
  assert (H1 : E = 2 * G * (1 + nu)) by (rewrite HE, Hnu; field; lra).
  assert (H2 : E = 3 * K * (1 - 2 * nu)) by (rewrite HE, Hnu, HKd; field; lra).
  assert (H3 : lam = nu / (1 - nu) * M) by (rewrite Hnu, HM; field; split; lra).
  repeat split; solve [ assumption | lra ].
Qed.
