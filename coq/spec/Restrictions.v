(* Documented restrictions on constructor parameters, transcribed by hand from the `parameters` help
   strings, class docstrings and the text of the ValueError messages of /repo/exactpack/solvers.
   This is the property text for C20 (not derived from the code's conditions). *)
From Coq Require Import Reals.
Open Scope R_scope.

Definition geom123 (g : R) : Prop := g = 1 \/ g = 2 \/ g = 3.
Definition geom23 (g : R) : Prop := g = 2 \/ g = 3.

(* Noh: geometry 1/2/3; "incident velocity (negative)" *)
Definition noh_doc_ok (geometry gamma u0 rho0 : R) : Prop := geom123 geometry /\ u0 < 0.
(* Noh2: geometry 1/2/3 *)
Definition noh2_doc_ok (geometry gamma rho0 e0 : R) : Prop := geom123 geometry.
(* Coggeshall: geometry sets as listed in each `parameters` entry *)
Definition cog_any_geom (geometry : R) : Prop := geom123 geometry.
Definition cog_23_geom (geometry : R) : Prop := geom23 geometry.
(* Cog13: gamma = 1 excluded ("gamma cannot be 1") *)
Definition cog13_doc_ok (geometry gamma : R) : Prop := geom123 geometry /\ gamma <> 1.
(* Cog14: "2 + alpha - 2 (beta + 4) must be nonzero"; "no real solution: b / (k - b) must be positive" with
   b = (k - 1 - alpha k) / (2 + alpha - 2 (beta + 4)) as in the class documentation (the temperature amplitude T0 is the real
   power of a quantity with the sign of b / (k - b); planar geometry gives -1) *)
Definition cog14_b (geometry alpha beta : R) : R := (geometry - 1 - 1 - alpha * (geometry - 1)) / (2 + alpha - 2 * (beta + 4)).
Definition cog14_doc_ok (geometry alpha beta : R) : Prop :=
  geom123 geometry /\ 2 + alpha - 2 * (beta + 4) <> 0 /\
  cog14_b geometry alpha beta <> geometry - 1 /\ 0 < cog14_b geometry alpha beta / (geometry - 1 - cog14_b geometry alpha beta).
(* Cog16: geometry 2/3 and b <> k *)
Definition cog16_doc_ok (geometry b : R) : Prop := geom23 geometry /\ geometry - 1 <> b.
(* Cog18: alpha <> 0 *)
Definition cog18_doc_ok (geometry alpha : R) : Prop := geom123 geometry /\ alpha <> 0.
(* Cog19: "u0 must be strictly negative" *)
Definition cog19_doc_ok (geometry u0 : R) : Prop := geom123 geometry /\ u0 < 0.
(* Cog20: "parameter a cannot be zero" *)
Definition cog20_doc_ok (geometry a : R) : Prop := geom123 geometry /\ a <> 0.

(* EscapeOfHEProducts: geometry 1=axial; "adiabatic index, must be 3.0"; D>0; rho_0>0; 0<=up<D/(gamma+1);
   0 < xtilde <= xmax; tmax > 0 *)
Definition ehep_doc_ok (geometry gamma D_ rho_0 up xtilde xmax tmax : R) : Prop :=
  geometry = 1 /\ gamma = 3 /\ 0 < D_ /\ 0 < rho_0 /\ 0 <= up /\ up < D_ / (gamma + 1) /\
  0 < xtilde /\ xtilde <= xmax /\ 0 < tmax.

(* SteadyDetonationReactionZone: geometry 1=planar; D, rho_0, gamma positive *)
Definition sdrz_doc_ok (geometry D_ rho_0 gamma : R) : Prop :=
  geometry = 1 /\ 0 < D_ /\ 0 < rho_0 /\ 0 < gamma.

(* DSD CylindricalExpansion: geometry 2; 0 < r_1 < r_2; D_CJ_i > 0; alpha_i >= 0 *)
Definition cylexp_doc_ok (geometry r_1 r_2 D_CJ_1 D_CJ_2 alpha_1 alpha_2 t_d : R) : Prop :=
  geometry = 2 /\ 0 < r_1 /\ 0 < r_2 /\ r_1 < r_2 /\ 0 < D_CJ_1 /\ 0 < D_CJ_2 /\ 0 <= alpha_1 /\ 0 <= alpha_2.

(* DSD RateStick: geometry 1/2; R > 0; 0 < omega_c < pi/2; D_CJ > 0; alpha >= 0; IC in {1,2,3};
   "if IC = 1 the radius of the detonation front must satisfy r_d >= R / cos(omega_c)"; t_f, xnodes, ynodes > 0 *)
Definition ratestick_doc_ok (geometry R_ omega_c D_CJ alpha IC r_d t_f xnodes ynodes : R) : Prop :=
  (geometry = 1 \/ geometry = 2) /\ 0 < R_ /\ 0 < omega_c /\ omega_c < PI / 2 /\ 0 < D_CJ /\ 0 <= alpha /\
  (IC = 1 \/ IC = 2 \/ IC = 3) /\ (IC = 1 -> R_ / cos omega_c <= r_d) /\ 0 < t_f /\ 0 < xnodes /\ 0 < ynodes.

(* DSD ExplosiveArc: geometry 1; 0 < r_1 < r_2; 0 < omega_in <= omega_out <= pi/2 with omega_in < pi/2; detonator x_d < 0;
   D_CJ > 0; alpha >= 0; t_f, xnodes, ynodes > 0 *)
Definition explosivearc_doc_ok (geometry r_1 r_2 omega_in omega_out x_d D_CJ alpha t_f xnodes ynodes : R) : Prop :=
  geometry = 1 /\ 0 < r_1 /\ 0 < r_2 /\ r_1 < r_2 /\ 0 < omega_in /\ omega_in < PI / 2 /\ omega_in <= omega_out /\
  omega_out <= PI / 2 /\ x_d < 0 /\ 0 < D_CJ /\ 0 <= alpha /\ 0 < t_f /\ 0 < xnodes /\ 0 < ynodes.
