#!/bin/sh
# Build the hand-written Coq library once (offline). Checks rebuild everything that depends on /repo.
set -e
cd "$(dirname "$0")"
python3 tools/translate.py >/dev/null 2>&1 || true
python3 - <<'PY'
import sys
sys.path.insert(0, 'tools')
import harness as H, glob, os
libs = sorted(glob.glob(os.path.join(H.COQ, 'lib', '*.v')) + glob.glob(os.path.join(H.COQ, 'model', '*.v')) + glob.glob(os.path.join(H.COQ, 'spec', '*.v')))
targets = [os.path.relpath(f, H.COQ)[:-2] + '.vo' for f in libs]
with H.Lock():
    ok, missing, bad, out = H.coq_make(targets)
print('setup: built %d library files, %d missing' % (len(ok), len(missing)))
for f, t in bad.items():
    print(f, t)
sys.exit(1 if missing else 0)
PY
