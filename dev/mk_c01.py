#!/usr/bin/env python3
"""Developer helper (not used by checks): writes proofs/C01_cogN.v + props/C01_cogN.v boilerplate
from the generated JSON and a table of hypotheses."""
import json, os, sys
ROOT = os.path.dirname(os.path.dirname(os.path.abspath(__file__)))
COQ = os.path.join(ROOT, 'coq')

def mk(i, hyps, k='(geometry - 1)', comment='', tactic='euler_solve', heat=None):
    nm = 'cog%d' % i
    cj = json.load(open(os.path.join(COQ, 'gen', 'Cog%d.json' % i)))[nm]
    ps = ' '.join(cj['params'])
    app = lambda f: '(%s_%s %s)' % (nm, f, ps)
    H = ' -> '.join(hyps)
    if heat is None:
        concl = 'euler_at %s\n    %s\n    %s\n    %s\n    %s r t' % (k, app('density'), app('velocity'), app('pressure'), app('specific_internal_energy'))
        quant = 'forall %s r t' % ps
    else:
        K0, al, be = heat
        concl = 'euler_heat_at %s %s %s %s\n    %s\n    %s\n    %s\n    %s\n    %s r t' % (k, K0, al, be, app('density'), app('velocity'), app('temperature'), app('pressure'), app('specific_internal_energy'))
        quant = 'forall %s%s r t' % (ps, ' K0' if K0 == 'K0' else '')
    stmt = '  %s,\n  %s ->\n  %s' % (quant, H, concl)
    proof = '''(* C01 for Coggeshall %d. %s *)
From Coq Require Import Reals Lra.
From Coquelicot Require Import Coquelicot.
From EP Require Import lib.Base lib.Euler lib.Tactics gen.Cog%d.
Open Scope R_scope.

Lemma %s_pde_proof :
%s.
Proof. intros. %s. Qed.
''' % (i, comment, i, nm, stmt, tactic)
    prop = '''From Coq Require Import Reals.
From EP Require Import lib.Euler gen.Cog%d proofs.C01_%s.
Open Scope R_scope.

(* Coggeshall %d: the returned fields satisfy the documented conservation equations. %s *)
Theorem %s_pde :
%s.
Proof. exact %s_pde_proof. Qed.
Print Assumptions %s_pde.
''' % (i, nm, i, comment, nm, stmt, nm, nm)
    pf = os.path.join(COQ, 'proofs', 'C01_%s.v' % nm)
    if not os.path.exists(pf) or '--force' in sys.argv:
        open(pf, 'w').write(proof)
    open(os.path.join(COQ, 'props', 'C01_%s.v' % nm), 'w').write(prop)

POS = ['0 < r', '0 < t']
mk(2, POS + ['rho0 <> 0', 'gamma <> 1', 'Gamma <> 0', 'b + 2 <> 0', '2 + (gamma - 1) * (geometry - 1 + 1) <> 0', 'geometry - 1 + 1 <> 0'])
mk(3, POS + ['rho0 <> 0', 'v <> 0', 'b <> 0', 'Gamma <> 0', 'geometry - 1 - v - 1 <> 0', 'geometry <> 0', 'geometry <> 2'])
mk(4, POS + ['rho0 <> 0', 'u0 <> 0', 'gamma <> 1', 'gamma <> 0', 'gamma + 1 <> 0', 'Gamma <> 0'])
mk(5, POS + ['rho0 <> 0', 'u0 <> 0', 'Gamma <> 0'], k='2')
mk(6, POS + ['rho0 <> 0', 'Gamma <> 0', 'b + 2 <> 0', 't < tau', 'geometry - 1 + 1 <> 0'])
mk(7, POS + ['t < tau'])
c1_8 = '((geometry - 1 - 1) / (beta - alpha + 4))'
mk(8, POS + ['0 < rho0', '0 < temp0', 'gamma <> 1', 'Gamma <> 0', 'beta - alpha + 4 <> 0'], heat=('K0', 'alpha', 'beta'),
   tactic='heat_solve (- %s)' % c1_8, comment='Heat conduction with lambda = lambda0 rho^alpha T^beta, any coefficient K0 = 4 a c lambda0/3.')
K = '(geometry - 1)'
mk(9, POS + ['0 < rho0', 'gamma <> 1', 'Gamma <> 0', 'alpha <> 0', '2 + (gamma - 1) * (geometry - 1 + 1) <> 0',
             '2 * alpha - 2 * beta - (geometry - 1) - 7 <> 0', 'geometry - 1 + 1 <> 0',
             '0 < 2 * alpha * (gamma - 1) * (geometry - 1 + 1) / Gamma / (2 + (gamma - 1) * (geometry - 1 + 1)) ^ 2 / (2 * alpha - 2 * beta - (geometry - 1) - 7)'],
   heat=('K0', 'alpha', 'beta'), tactic='heat_solve 2')
c3_11 = '(2 - (gamma - 1) * (geometry - 1 + 1))'
mk(11, POS + ['0 < rho0', '0 < temp0', 'gamma <> 1', 'Gamma <> 0', '%s <> 0' % c3_11],
   heat=('K0', '(beta + 4 + (geometry - 1 - 1) / %s)' % c3_11, 'beta'), tactic='heat_solve %s' % c3_11)
c2_12 = '((geometry - 1) * (1 - gamma) / (1 + gamma))'
mk(12, POS + ['0 < rho0', 'u0 <> 0', '0 < gamma', 'gamma < 1', '0 < Gamma', 'geometry - 1 <> 0', '0 < u0 ^ 2 * (1 - gamma) / (2 * Gamma * gamma)'],
   heat=('K0', '((beta + 4) * (1 - gamma) + (geometry - 1 - 1) * (gamma + 1) / (2 * (geometry - 1)))', 'beta'),
   tactic='heat_solve (2 * %s)' % c2_12, comment='alpha as documented: (beta+4)(1-gamma) + (k-1)(gamma+1)/(2k).')
mk(18, POS + ['t < tau', '0 < rho0', '0 < Gamma', 'alpha <> 0', 'geometry - 1 + 1 <> 0', '2 * alpha - 2 * beta - (geometry - 1) - 7 <> 0',
              '0 < alpha * tau ^ 2 / Gamma / (2 * alpha - 2 * beta - (geometry - 1) - 7)'],
   heat=('K0', 'alpha', 'beta'), tactic='assert (0 < tau ^ 2 - t ^ 2) by nra; heat_solve 2')
mk(7, ['0 < r', '0 < t', 't < tau', '0 < tau', '0 < Ri', '0 < R0', '0 < Gamma', 'geometry = 1 \\/ geometry = 2 \\/ geometry = 3',
       '0 < Rpower (r / sqrt (tau ^ 2 - t ^ 2)) (2 - b / ((geometry - 1 + 3) / (geometry - 1 + 1))) - Rpower (Ri / tau) (2 - b / ((geometry - 1 + 3) / (geometry - 1 + 1)))',
       '0 < Rpower R0 (2 - b / ((geometry - 1 + 3) / (geometry - 1 + 1))) - Rpower Ri (2 - b / ((geometry - 1 + 3) / (geometry - 1 + 1)))',
       '2 * ((geometry - 1 + 3) / (geometry - 1 + 1)) - b <> 0'],
   tactic='assert (0 < tau ^ 2 - t ^ 2) by nra; euler_solve')
