OVR = {
1: '''  destruct Hpre as [Hl HE]. destruct Hok as [HG HK].
  assert (HX : 0 <= g1 ^ 2 + 9 * g0 ^ 2 + 2 * g1 * g0) by nra.
  destruct (sqrt_sq_eq _ HX) as [HRR HR0].
  autounfold with epgen; unfold iso_material.
  set (S := sqrt (g1 ^ 2 + 9 * g0 ^ 2 + 2 * g1 * g0)) in *.
  repeat split; try lra.
  - field_simplify_eq; [ | nra ]. nra.
  - field; nra.''',
2: '''  destruct Hpre as [Hl [Hn1 Hn2]]. destruct Hok as [_ [HG HK]].
  assert (Hnu : 0 < g1).
  { assert (H : 0 < 2 * g1) by (apply (div_pos_den (g0 * (1 - 2 * g1))); [ nra | lra ]). lra. }
  el_finish.''',
5: '''  destruct Hpre as [Hg HE]. destruct Hok as [_ [_ [Hn1 Hn2]]].
  assert (Hd : 0 < 3 * g0 - g1) by (pose proof (div_lt_den g1 (2 * g0) (3 / 2) ltac:(lra) ltac:(lra)); lra).
  el_finish.
  replace (3 * (g0 * (g1 - 2 * g0) / (3 * g0 - g1)) + 2 * g0) with (g0 * g1 / (3 * g0 - g1)) by (field; lra).
  apply Rdiv_lt_0_compat; nra.''',
6: '''  destruct Hpre as [Hg [Hn1 Hn2]].
  el_finish.
  replace (3 * (2 * g0 * g1 / (1 - 2 * g1)) + 2 * g0) with (2 * g0 * (1 + g1) / (1 - 2 * g1)) by (field; lra).
  apply Rdiv_lt_0_compat; nra.''',
8: '''  destruct Hpre as [Hg HM]. destruct Hok as [Hc [_ [Hn1 Hn2]]].
  apply not_isclose_neq in Hc; [ | lra ].
  assert (Hd : 0 < 2 * g1 - 2 * g0).
  { destruct (Rtotal_order (2 * g1 - 2 * g0) 0) as [H | [H | H]]; [ | lra | exact H ].
    pose proof (div_lt_neg_den _ _ _ H Hn2). lra. }
  pose proof (div_gt_den _ _ _ Hd Hn1).
  el_finish.''',
9: '''  destruct Hpre as [Hg [Hn1 Hn2]].
  assert (Hp : 0 < (1 + g1) * (1 - 2 * g1)) by nra.
  el_finish.
  - apply Rmult_lt_0_compat; [ lra | apply Rinv_0_lt_compat; lra ].
  - replace (3 * (g0 * g1 / ((1 + g1) * (1 - 2 * g1))) + 2 * (1 / 2 * g0 / (1 + g1))) with (g0 / (1 - 2 * g1)) by (field; lra).
    apply Rdiv_lt_0_compat; lra.''',
10: '''  destruct Hpre as [HE HK]. destruct Hok as [_ [_ [Hn1 Hn2]]].
  assert (H6 : 0 < 6 * g1) by lra.
  assert (Hd : 0 < 9 * g1 - g0) by (pose proof (div_gt_den _ _ _ H6 Hn1); lra).
  el_finish.
  - apply Rdiv_lt_0_compat; nra.
  - replace (3 * (3 * g1 * (3 * g1 - g0) / (9 * g1 - g0)) + 2 * (3 * g1 * g0 / (9 * g1 - g0))) with (3 * g1) by (field; lra). lra.''',
11: '''  destruct Hpre as [HE HM]. destruct Hok as [HX [_ [Hn1 Hn2]]].
  apply Rnot_lt_le in HX.
  destruct (sqrt_sq_eq _ HX) as [HRR HR0].
  autounfold with epgen; unfold iso_material.
  set (S := sqrt (g0 ^ 2 + 9 * g1 ^ 2 - 10 * g0 * g1)) in *.
  assert (HM' : 0 < g1) by lra.
  pose proof (div_lt_den _ _ _ HM' Hn2) as Hu.
  assert (HS : S < 3 * g1 + g0) by nra.
  repeat split; try lra.
  - field_simplify_eq; [ | nra ]. nra.
  - field_simplify_eq; [ | split; nra ]. nra.''',
12: '''  destruct Hpre as [[Hn1 Hn2] HK]. destruct Hok as [HG _].
  el_finish.
  replace (3 * (3 * g1 * g0 / (1 + g0)) + 2 * (3 * g1 * (1 - 2 * g0) / (2 * (1 + g0)))) with (3 * g1) by (field; lra). lra.''',
13: '''  destruct Hpre as [[Hn1 Hn2] HM]. destruct Hok as [HG _].
  el_finish.
  replace (3 * (g1 * g0 / (1 - g0)) + 2 * (1 / 2 * g1 * (1 - 2 * g0) / (1 - g0))) with (g1 * (1 + g0) / (1 - g0)) by (field; lra).
  apply Rdiv_lt_0_compat; nra.''',
}
