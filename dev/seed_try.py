#!/usr/bin/env python3
"""Developer helper: try a seeded change.  usage: seed_try.py <dir with patch.diff, demo.py> <property> [pytest files...]
applies the patch to /repo, runs the demo, the given tests and ./check <property>, and reverts /repo."""
import os, subprocess, sys
d, prop, tests = sys.argv[1], sys.argv[2], sys.argv[3:]
env = dict(os.environ, PYTHONPATH='/repo', PYTHONHASHSEED='0')
def sh(cmd, **kw):
    return subprocess.run(cmd, shell=True, capture_output=True, text=True, **kw)
print('clean demo  :', sh('/venv/bin/python %s/demo.py' % d, env=env, cwd='/tmp').stdout.strip().splitlines()[-1:])
r = sh('git -C /repo apply %s/patch.diff' % d)
if r.returncode: print('APPLY FAILED', r.stderr); sys.exit(1)
try:
    print('seeded demo :', sh('/venv/bin/python %s/demo.py' % d, env=env, cwd='/tmp').stdout.strip().splitlines()[-1:])
    if tests:
        print('tests       :', sh('cd /repo && /venv/bin/python -m pytest -q -p no:cacheprovider %s' % ' '.join(tests), env=env).stdout.strip().splitlines()[-1:])
    c = sh('cd /verif && ./check %s' % prop)
    print('check       :', [l for l in c.stdout.splitlines() if 'VIOLATION' in l or l.startswith(prop)], 'exit', c.returncode)
finally:
    sh('git -C /repo checkout -- .')
    print('reverted    :', sh('git -C /repo status --short').stdout.strip() or 'clean')
    sh('cd /verif && python3 tools/translate.py')      # regenerate the models from the clean tree
