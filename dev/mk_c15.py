#!/usr/bin/env python3
"""writes coq/proofs/C15_elastic.v: one lemma per prmcase of set_elastic_params (generic proof script, with
per-case overrides)"""
import json, os
ROOT = os.path.dirname(os.path.dirname(os.path.abspath(__file__)))
js = json.load(open(os.path.join(ROOT, 'coq/gen/Elastic.json')))
VARS = ['plda', 'pg', 'pe', 'pnu', 'pk', 'pm']
OVR = {}
exec(open(os.path.join(ROOT, 'dev/c15_overrides.py')).read())
out = ['''(* C15 (moduli): whichever two of the six elastic parameters are given, the six values set_elastic_params returns
   reproduce the two given values and are the parameters of one positive-definite isotropic material
   (spec.Elasticity.iso_material), whenever the case's acceptance condition holds (otherwise ValueError). *)
From Coq Require Import Reals Lra Psatz.
From EP Require Import lib.Base lib.Quot spec.Elasticity gen.Elastic.
Open Scope R_scope.

Ltac el_given :=
  unfold elastic_given_lame_mod, elastic_given_shear_mod, elastic_given_youngs_mod, elastic_given_poisson_ratio,
         elastic_given_bulk_mod, elastic_given_long_mod in *.
Ltac el_defined :=
  repeat split; intros;
  repeat match goal with H : _ /\\ _ |- _ => destruct H end;
  try match goal with H : ~ (Rabs _ <= _) |- _ => apply not_isclose_neq in H; [ | lra ] end;
  try lra; try nra;
  try (match goal with |- context [sqrt ?x] => pose proof (sqrt_pos x) end; nra).
Ltac el_finish := autounfold with epgen; unfold iso_material; repeat split; try lra; try (field; lra); try (field; repeat split; nra).
''']
for N in range(15):
    c = js['cases'][str(N)]
    v0, v1 = c['given_vars']
    args = ' '.join('(elastic_%d_%s g0 g1)' % (N, v) for v in VARS)
    out.append('(* prmcase %d: %s, %s given *)' % (N, c['given'][0], c['given'][1]))
    out.append('Lemma elastic_case_%d_proof : forall g0 g1, elastic_%d_pre g0 g1 -> elastic_%d_ok g0 g1 ->' % (N, N, N))
    out.append('  iso_material %s /\\' % args)
    out.append('  elastic_%d_%s g0 g1 = g0 /\\ elastic_%d_%s g0 g1 = g1.' % (N, v0, N, v1))
    out.append('Proof.')
    out.append('  intros g0 g1 Hpre Hok. unfold elastic_%d_pre, elastic_%d_ok in *. el_given.' % (N, N))
    out.append(OVR.get(N, '  el_finish.'))
    out.append('Qed.\n')
    out.append('(* every division and square root prmcase %d evaluates is defined for every accepted pair of given values:\n   no ZeroDivisionError and no complex intermediate, so the only failure mode is the ValueError of elastic_%d_ok *)' % (N, N))
    out.append('Lemma elastic_case_%d_total_proof : forall g0 g1, elastic_%d_pre g0 g1 -> elastic_%d_defined g0 g1.' % (N, N, N))
    out.append('Proof. intros g0 g1 Hpre. unfold elastic_%d_pre, elastic_%d_defined in *. el_given. el_defined. Qed.\n' % (N, N))
open(os.path.join(ROOT, 'coq/proofs/C15_elastic.v'), 'w').write('\n'.join(out))
