#!/bin/sh
# usage: dev/seed_vprun.sh <seed dir with patch.diff, demo.py> <property>   -- run a seeded change against a snapshot of /verif and /repo (vp run --with-repo)
d=$1; p=$2
vp run --timeout 50m --with-repo -- sh -c "cd \$VP_RUN_REPO && git apply $d/patch.diff && git status --short | head -5; cd - >/dev/null; ./setup.sh >/dev/null 2>&1; echo SEED $d $p; PYTHONPATH=\$VP_RUN_REPO /venv/bin/python $d/demo.py > demo.out 2>&1; echo \"demo exit \$?\"; tail -3 demo.out; EXACTPACK_REPO=\$VP_RUN_REPO VERIF_EVIDENCE_DIR=\$PWD/ev ./check $p --tier quick 2>&1 | grep -v WARNING | tail -12; echo \"check exit \$?\""
