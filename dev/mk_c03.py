#!/usr/bin/env python3
"""Developer helper: writes proofs/C03_<unit>.v and props/C03_<unit>.v for solvers whose fields come from one generated class."""
import json, os, sys
ROOT = os.path.dirname(os.path.dirname(os.path.abspath(__file__)))
COQ = os.path.join(ROOT, 'coq')
K = '(geometry - 1)'
GAM = {3: '((%s - 1) / (%s + 1))' % (K, K), 5: '(1 / 2)', 6: '((%s + 3) / (%s + 1))' % (K, K),
       7: '((%s + 3) / (%s + 1))' % (K, K), 18: '((%s + 3) / (%s + 1))' % (K, K), 21: '5'}

def mk(genfile, pfx, kind, gamma='gamma', doc=''):
    cj = json.load(open(os.path.join(COQ, 'gen', genfile + '.json')))[pfx]
    ps = ' '.join(cj['params'])
    f = lambda n: '%s_%s %s r t' % (pfx, n, ps)
    hyps = '%s_defined %s r t ->\n  %s <> 0 ->\n  %s - 1 <> 0 ->' % (pfx, ps, f('density'), gamma)
    G_ = 'Gamma'
    if kind == 'cog1':
        kind, G_ = 'cog', '1'
    if kind == 'cog':
        concl = ('%s = GG * (%s) * (%s) /\\\n  %s = GG * (%s) / (%s - 1) /\\\n  %s = (%s - 1) * (%s) * (%s)'.replace('GG', G_)
                 % (f('pressure'), f('density'), f('temperature'), f('specific_internal_energy'), f('temperature'), gamma,
                    f('pressure'), gamma, f('density'), f('specific_internal_energy')))
    else:
        concl = '%s = (%s - 1) * (%s) * (%s)' % (f('pressure'), gamma, f('density'), f('specific_internal_energy'))
    stmt = '  forall %s r t,\n  %s\n  %s' % (ps, hyps, concl)
    proof = '''(* C03 for %s: returned thermodynamic fields satisfy the declared EOS. %s *)
From Coq Require Import Reals Lra.
From EP Require Import lib.Base lib.Tactics gen.%s.
Open Scope R_scope.

Lemma %s_eos_proof :
%s.
Proof. unfold %s_defined. eos_solve. Qed.
''' % (pfx, doc, genfile, pfx, stmt, pfx)
    prop = '''From Coq Require Import Reals.
From EP Require Import lib.Base gen.%s proofs.C03_%s.
Open Scope R_scope.

(* %s: at every point where the returned expressions are defined (no division by zero, see %s_defined)
   the returned pressure, density, temperature and specific internal energy satisfy the declared EOS. %s *)
Theorem %s_eos :
%s.
Proof. exact %s_eos_proof. Qed.
Print Assumptions %s_eos.
''' % (genfile, pfx, pfx, pfx, doc, pfx, stmt, pfx, pfx)
    open(os.path.join(COQ, 'proofs', 'C03_%s.v' % pfx), 'w').write(proof)
    open(os.path.join(COQ, 'props', 'C03_%s.v' % pfx), 'w').write(prop)

for i in list(range(1, 15)) + [16, 17, 18, 19, 20, 21]:
    g = GAM.get(i, 'gamma')
    mk('Cog%d' % i, 'cog%d' % i, 'cog', g, 'P = Gamma rho T, e = Gamma T/(gamma-1)' + (' with the built-in gamma = %s' % g if i in GAM else ''))
mk('Noh1', 'noh', 'gammalaw', doc='P = (gamma-1) rho e')
mk('Noh2', 'noh2', 'gammalaw', doc='P = (gamma-1) rho e')
mk('Noh2Cog', 'noh2cog', 'cog1', doc='P = Gamma rho T with Gamma = 1 class default')
