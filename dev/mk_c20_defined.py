#!/usr/bin/env python3
"""Developer helper: emit coq/proofs/C20_defined_cog.v and coq/props/C20_defined_cog.v - one definedness theorem per
Coggeshall base class: the parameter-only conjuncts of the generated cogN_defined imply the whole of cogN_defined at every
r > 0, t > 0 (t < tau where the class has a collapse time tau)."""
import json, os, sys
GEN = '/verif/coq/gen'
classes = [int(a) for a in sys.argv[1:]] or [2, 3, 4, 5, 6, 8, 9, 10, 11, 12, 13, 14, 16, 17, 18, 21]
proofs = ['(* C20: definedness of the Coggeshall closed forms inside their documented domain (generated statements, dev/mk_c20_defined.py). *)',
          'From Coq Require Import Reals Lra Psatz.', 'From EP Require Import lib.Base lib.Tactics lib.Defined %s.' % ' '.join('gen.Cog%d' % i for i in classes),
          'Open Scope R_scope.', '']
props = ['From Coq Require Import Reals.', 'From EP Require Import %s proofs.C20_defined_cog.' % ' '.join('gen.Cog%d' % i for i in classes), 'Open Scope R_scope.', '',
         '(* Inside the documented domain (r > 0, t > 0, t < tau where there is a collapse time) every generated Coggeshall field',
         '   expression is defined - no division by zero, no real power of a non-positive base, no root of a negative number - as soon as',
         '   the conjuncts of the generated definedness condition that constrain the PARAMETERS ALONE hold: no valid request can hit a',
         '   position- or time-dependent singularity. *)', '']
for i in classes:
    d = json.load(open(os.path.join(GEN, 'Cog%d.json' % i)))['cog%d' % i]
    ps = d['all_params']
    sig = ' '.join(ps)
    extra = ' t < tau ->' if 'tau' in ps else ''
    # parameter conditions hidden in conjuncts that also mention r or t (the density divides the pressure)
    more = [h for h, need in (('rho0 <> 0', 'rho0' in ps), ('Gamma <> 0', i == 21), ('temp0 <> 0', i == 21)) if need]
    mh = ''.join(' %s ->' % h for h in more)
    mi = ' '.join('HM%d' % j for j in range(len(more)))
    stmt = ('forall %s r t,\n  cog%d_defined_params %s ->%s 0 < r -> 0 < t ->%s\n  cog%d_defined %s r t' % (sig, i, sig, mh, extra, i, sig))
    proofs.append('Lemma cog%d_defined_proof : %s.\nProof. intros %s r t HP %s Hr Ht%s. unfold cog%d_defined, cog%d_defined_params in *. defined_solve. Qed.\n'
                  % (i, stmt, sig, mi, ' Htau' if extra else '', i, i))
    props.append('Theorem cog%d_defined_inside : %s.\nProof. exact cog%d_defined_proof. Qed.\nPrint Assumptions cog%d_defined_inside.\n' % (i, stmt, i, i))
proofs.append('(* non-vacuity: the class defaults satisfy the parameter-only conjuncts *)\nFrom Interval Require Import Tactic.')
for i in classes:
    if i == 17:
        # the defaults make the temperature amplitude's base negative with the integer exponent -beta-3 = -4: numpy's pow is
        # defined there, the real-power model (Rpower, positive bases only) is deliberately conservative - no example
        continue
    d = json.load(open(os.path.join(GEN, 'Cog%d.json' % i)))['cog%d' % i]
    args = ' '.join(('cog%d_default_%s' % (i, p_)) if p_ in d['defaults'] else '40' for p_ in d['all_params'])
    unf = ', '.join('cog%d_default_%s' % (i, p_) for p_ in d['all_params'] if p_ in d['defaults'])
    proofs.append('Lemma cog%d_defaults_defined_proof : cog%d_defined_params %s.\nProof. unfold cog%d_defined_params, %s. repeat split; try lra; try interval; try (apply Rlt_gt, exp_pos). Qed.\n' % (i, i, args, i, unf))
    props.append('Example cog%d_defaults_defined : cog%d_defined_params %s.\nProof. exact cog%d_defaults_defined_proof. Qed.\n' % (i, i, args, i))
open('/verif/coq/proofs/C20_defined_cog.v', 'w').write('\n'.join(proofs))
open('/verif/coq/props/C20_defined_cog.v', 'w').write('\n'.join(props))
