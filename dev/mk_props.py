#!/usr/bin/env python3
"""Developer helper: write props/<out>.v restating lemmas of a proofs file with their full printed statements.
usage: mk_props.py <out-name> <imports (space separated, e.g. gen.Noh1 proofs.C01_noh)> <lemma>... """
import os, re, subprocess, sys
ROOT = os.path.dirname(os.path.dirname(os.path.abspath(__file__)))
COQ = os.path.join(ROOT, 'coq')
out, imports, lemmas = sys.argv[1], sys.argv[2], sys.argv[3:]
hdr = 'From Coq Require Import Reals.\nFrom Coquelicot Require Import Coquelicot.\nFrom EP Require Import lib.Base lib.Euler lib.RH lib.Euclid %s.\nOpen Scope R_scope.\n' % imports
tmp = os.path.join(COQ, 'tmp_check.v')
body = hdr + 'Set Printing Width 110.\nSet Printing Depth 100000.\n' + ''.join('Check %s.\n' % l for l in lemmas)
open(tmp, 'w').write(body)
p = subprocess.run(['coqc', '-Q', '.', 'EP', 'tmp_check.v'], cwd=COQ, capture_output=True, text=True)
for ext in ('.v', '.vo', '.glob', '.vok', '.vos'):
    try: os.remove(os.path.join(COQ, 'tmp_check' + ext))
    except OSError: pass
try: os.remove(os.path.join(COQ, '.tmp_check.aux'))
except OSError: pass
if p.returncode != 0:
    print(p.stdout, p.stderr); sys.exit(1)
txt = p.stdout
parts = re.split(r'^(\w+)\n\s+: ', txt, flags=re.M)
# parts: ['', name, type, name, type ...]
res = hdr + '\n'
for i in range(1, len(parts), 2):
    name, ty = parts[i], parts[i + 1].rstrip()
    assert name.endswith('_proof'), name
    th = name[:-6]
    res += 'Theorem %s :\n  %s.\nProof. exact %s. Qed.\nPrint Assumptions %s.\n\n' % (th, ty.replace('\n', '\n  '), name, th)
open(os.path.join(COQ, 'props', out + '.v'), 'w').write(res)
print('wrote props/%s.v with %d theorems' % (out, len(lemmas)))
