#!/usr/bin/env python3
"""C08 oracle on the REAL implementation for the solvers the theorems do not reach: re-express every dimensional
input in another consistent unit system (mass x mu, length x ell, time x tau, temperature x theta) and compare every
output field with the original output re-expressed in those units.  The dimension tables below are the specification
(hand-written from the parameter documentation of each solver)."""
import math
import harness as H
import scaling_oracle as SO


def r4(rng, lo, hi):
    return float('%.4g' % rng.uniform(lo, hi))


def dim(mu, ell, tau, th, m=0, l=0, t=0, k=0):
    return mu ** m * ell ** l * tau ** t * th ** k


def scale_params(P, dims, sc):
    out = {}
    for k, v in P.items():
        d = dims.get(k)
        if d is None:
            out[k] = v
        else:
            f = dim(*sc, **d)
            out[k] = [x * f for x in v] if isinstance(v, (list, tuple)) else v * f
    return out


HYD = {'density': dict(m=1, l=-3), 'pressure': dict(m=1, l=-1, t=-2), 'specific_internal_energy': dict(l=2, t=-2), 'velocity': dict(l=1, t=-1),
       'sound_speed': dict(l=1, t=-1), 'position': dict(l=1)}
LEN, TIME, VEL, PRES, DENS, TEMP = dict(l=1), dict(t=1), dict(l=1, t=-1), dict(m=1, l=-1, t=-2), dict(m=1, l=-3), dict(k=1)


def cases(rng, n, only=None):
    out = []

    def add(what, mod, cls, P, pdims, pts, t, fdims, tol=1e-7, ptdim=LEN, tdim=TIME):
        if only and what not in only:
            return
        scs = [tuple(r4(rng, 0.05, 20) for _ in range(4))]
        if not what.startswith('GenEOS'):     # GenEOS: absolute tolerances (known finding geneos-absolute-tolerances), replayed separately
            # and a change to very different units (cm -> km, s -> us, g -> t ...): a hidden dimensional constant (floor, offset, absolute
            # tolerance) shows only then; one of the three factors is pushed to an extreme in turn
            for k in range(3):
                for sgn in (-1, 1):
                    ext = [float('%.3g' % (10 ** rng.uniform(-1.5, 1.5))) for _ in range(3)]
                    ext[k] = float('%.3g' % (10 ** (sgn * rng.uniform(3, 5))))
                    scs.append(tuple(ext) + (scs[0][3],))
        for sc in scs:
            S = scale_params(P, pdims, sc)
            fl = dim(*sc, **ptdim)
            spts = [[x * fl for x in p] if isinstance(p, (list, tuple)) else p * fl for p in pts]
            out.append({'what': what + ' units', 'a': [mod, cls, P, pts, t], 'b': [mod, cls, S, spts, t * dim(*sc, **tdim)],
                        'factors': {f: dim(*sc, **d) for f, d in fdims.items()}, 'tol': tol, 'scales': list(sc)})
    # Guderley: the similarity solution fixes length and time (collapse at t = 0.75, shock at r = 1 at t = 0); the only free unit is mass, through rho0:
    # density and pressure scale with it, velocity / sound speed / specific internal energy do not - before and after the reflection, on both
    # sides of both shocks (gamma = 3: the eigenvalue search is fast)
    if not only or 'Guderley' in only:
        mu = r4(rng, 0.05, 20); geo = rng.choice([2, 3]); r0 = r4(rng, 0.5, 2)
        for tg in (0.3, 1.125):
            Pg = {'geometry': geo, 'gamma': 3.0, 'rho0': r0}
            out.append({'what': 'Guderley mass units', 'a': ['exactpack.solvers.guderley', 'Guderley', Pg, [0.1, 0.2, 0.5, 1.0, 3.0], tg],
                        'b': ['exactpack.solvers.guderley', 'Guderley', dict(Pg, rho0=r0 * mu), [0.1, 0.2, 0.5, 1.0, 3.0], tg],
                        'factors': {'density': mu, 'pressure': mu, 'velocity': 1.0, 'sound_speed': 1.0, 'specific_internal_energy': 1.0}, 'tol': 1e-8, 'scales': [mu]})
    for _ in range(n):
        g = rng.choice([1, 2, 3]); gam = r4(rng, 1.2, 2.2)
        # Sedov (points on both sides of the shock)
        om = rng.choice([0.0, 0.0, r4(rng, 0.1, 0.8)])
        P = {'geometry': g, 'gamma': gam, 'rho0': r4(rng, 0.3, 3), 'omega': om, 'eblast': r4(rng, 0.3, 2)}
        add('Sedov', 'exactpack.solvers.sedov', 'Sedov', P, {'rho0': dict(m=1, l=om - 3), 'eblast': dict(m=1, l=g - 1, t=-2)},
            sorted(r4(rng, 0.05, 3.0) for _ in range(8)), r4(rng, 0.1, 1.5), {k: HYD[k] for k in ('density', 'pressure', 'specific_internal_energy', 'velocity', 'sound_speed')}, tol=1e-5)
        # escape of HE products
        D = r4(rng, 0.3, 2); P = {'D': D, 'rho_0': r4(rng, 0.5, 3), 'up': r4(rng, 0.0, 0.2) * D, 'xtilde': r4(rng, 0.5, 1.5), 'xmax': 10.0, 'tmax': 10.0}
        add('EscapeOfHEProducts', 'exactpack.solvers.ehep', 'EscapeOfHEProducts', P, {'D': VEL, 'rho_0': DENS, 'up': VEL, 'xtilde': LEN, 'xmax': LEN, 'tmax': TIME},
            sorted(r4(rng, 0.01, 4.0) for _ in range(8)), r4(rng, 0.3, 3),
            {k: HYD[k] for k in ('density', 'pressure', 'specific_internal_energy', 'velocity', 'sound_speed')}, tol=1e-8)
        # Mader
        P = {'p_cj': r4(rng, 0.1, 1), 'd_cj': r4(rng, 0.3, 1.5), 'gamma': r4(rng, 2.5, 3.5), 'u_piston': 0.0}
        add('Mader', 'exactpack.solvers.mader', 'Mader', P, {'p_cj': PRES, 'd_cj': VEL, 'u_piston': VEL},
            sorted(r4(rng, 0.0, 6.0) for _ in range(8)), r4(rng, 1, 8), {'velocity': VEL, 'pressure': PRES, 'sound_speed': VEL, 'density': DENS}, tol=1e-8)
        # Kenamond 1, 3; DSD cylindrical expansion
        geo = rng.choice([2, 3])
        xd = [r4(rng, -2, 2) for _ in range(geo)]
        pts = [[r4(rng, -5, 5) for _ in range(geo)] for _ in range(6)]
        add('Kenamond1', 'exactpack.solvers.kenamond.kenamond1', 'Kenamond1', {'geometry': geo, 'D': r4(rng, 0.5, 3), 'x_d': xd, 't_d': r4(rng, -1, 2)},
            {'D': VEL, 'x_d': LEN, 't_d': TIME}, pts, 0.0, {'burntime': TIME}, tol=1e-10)
        R_ = r4(rng, 1, 3)
        xd3 = [r4(rng, 1.5, 3) * R_ * rng.choice([-1, 1]) for _ in range(geo)]
        p3 = []
        while len(p3) < 6:
            q = [r4(rng, -4, 4) * R_ for _ in range(geo)]
            if math.sqrt(sum(v * v for v in q)) > 1.05 * R_:
                p3.append(q)
        add('Kenamond3', 'exactpack.solvers.kenamond.kenamond3', 'Kenamond3', {'geometry': geo, 'R': R_, 'D': r4(rng, 0.5, 3), 'x_d': xd3, 't_d': r4(rng, -1, 2)},
            {'R': LEN, 'D': VEL, 'x_d': LEN, 't_d': TIME}, p3, 0.0, {'burntime': TIME}, tol=1e-10)
        D2 = r4(rng, 0.5, 1.5); D1 = r4(rng, 1.0, 3.0) * D2
        d = [R_ * r4(rng, 1.5, 4), R_ * r4(rng, 1.1, 1.5), -R_ * r4(rng, 1.1, 1.5), -R_ * r4(rng, 1.5, 4)]
        t3 = r4(rng, -1, 1)
        td = [t3 + R_ * (1 / D1 + 1 / D2) - abs(x) / D2 + r4(rng, 0, 1.5) for x in d]
        td5 = [td[0], td[1], t3, td[2], td[3]]
        add('Kenamond2', 'exactpack.solvers.kenamond.kenamond2', 'Kenamond2', {'geometry': geo, 'R': R_, 'D1': D1, 'D2': D2, 'dets': d, 't_d': td5},
            {'R': LEN, 'D1': VEL, 'D2': VEL, 'dets': LEN, 't_d': TIME}, [[r4(rng, -1.3, 1.3) * d[0] for _ in range(geo)] for _ in range(6)], 0.0, {'burntime': TIME}, tol=1e-10)
        r1 = r4(rng, 0.5, 2); r2 = r1 * r4(rng, 1.3, 3); DC1, DC2 = r4(rng, 0.5, 2), r4(rng, 0.5, 2)
        add('CylindricalExpansion', 'exactpack.solvers.dsd.cylexpansion', 'CylindricalExpansion',
            {'r_1': r1, 'r_2': r2, 'D_CJ_1': DC1, 'D_CJ_2': DC2, 'alpha_1': r4(rng, 0, 0.6) * r1 * DC1, 'alpha_2': r4(rng, 0, 0.6) * r2 * DC2, 't_d': r4(rng, -1, 1)},
            {'r_1': LEN, 'r_2': LEN, 'D_CJ_1': VEL, 'D_CJ_2': VEL, 'alpha_1': dict(l=2, t=-1), 'alpha_2': dict(l=2, t=-1), 't_d': TIME},
            [[r4(rng, -1.6, 1.6) * r2, r4(rng, -1.6, 1.6) * r2] for _ in range(6)], 0.0, {'burntime': TIME}, tol=1e-10)
        # Blake
        G_ = r4(rng, 1e9, 5e10); nu = r4(rng, 0.1, 0.45); lam = 2 * G_ * nu / (1 - 2 * nu)
        a = r4(rng, 0.05, 1); rho = r4(rng, 1000, 8000); cl = math.sqrt((lam + 2 * G_) / rho)
        t = r4(rng, 0.5, 5) * a / cl
        P = {'lame_mod': lam, 'shear_mod': G_, 'ref_density': rho, 'cavity_radius': a, 'pressure_scale': r4(rng, 1e4, 1e6)}
        add('Blake', 'exactpack.solvers.blake', 'Blake', P, {'lame_mod': PRES, 'shear_mod': PRES, 'ref_density': DENS, 'cavity_radius': LEN, 'pressure_scale': PRES},
            sorted(a * (1 + r4(rng, 0, 1.3) * cl * t / a) for _ in range(6)), t,
            {'curr_posn': LEN, 'displacement': LEN, 'strain_rr': {}, 'strain_qq': {}, 'strain_vol': {}, 'density': DENS, 'stress_rr': PRES, 'stress_qq': PRES,
             'pressure': PRES, 'stress_dev_rr': PRES, 'stress_dev_qq': PRES, 'stress_diff': PRES}, tol=1e-8)
        # elastic-plastic piston
        for model in ('hyperIfin', 'hypo', 'hyperFin'):
            P = {'gamma': r4(rng, 1.5, 2.5), 'c0': r4(rng, 0.3, 0.8), 's0': r4(rng, 1.1, 1.6), 'model': model, 'G': r4(rng, 0.1, 0.5), 'Y': r4(rng, 0.001, 0.005),
                 'rho0': r4(rng, 2, 9), 'up': r4(rng, 0.005, 0.03)}
            add('EPpiston-' + model, 'exactpack.solvers.ep_piston', 'EPpiston', P, {'c0': VEL, 'G': PRES, 'Y': PRES, 'rho0': DENS, 'up': VEL},
                sorted(r4(rng, 0.0, 2.0) for _ in range(8)), r4(rng, 0.5, 2.5),
                {'density': DENS, 'pressure': PRES, 'specific_internal_energy': dict(l=2, t=-2), 'velocity': VEL, 'deviatoric stress': PRES}, tol=1e-6)
        # heat: rod family and Hutchens 1
        kap, L = r4(rng, 0.3, 3), r4(rng, 0.5, 3)
        base = dict(kappa=kap, L=L, TL=r4(rng, -2, 5), TR=r4(rng, -2, 5), Nsum=60)
        g1, g2, a1, a2, b1, b2 = (r4(rng, 0.5, 2) for _ in range(6))
        rd = {'kappa': dict(l=2, t=-1), 'L': LEN, 'TL': TEMP, 'TR': TEMP, 'beta1': LEN, 'beta2': LEN, 'gamma1': TEMP, 'gamma2': TEMP}
        xs = sorted(r4(rng, 0.0, 1.0) * L for _ in range(6)); th = r4(rng, 0.02, 0.4) * L * L / kap
        for tag, bc in (('BC1', dict(alpha1=a1, beta1=0, gamma1=g1, alpha2=a2, beta2=0, gamma2=g2)), ('BC2', dict(alpha1=0, beta1=1.0, gamma1=g1, alpha2=0, beta2=1.0, gamma2=g1)),
                        ('BC3', dict(alpha1=a1, beta1=0, gamma1=g1, alpha2=0, beta2=b2, gamma2=g2)), ('BC4', dict(alpha1=0, beta1=b1, gamma1=g1, alpha2=a2, beta2=0, gamma2=g2))):
            if tag == 'BC2':
                continue      # exact float equality gamma1/beta1 == gamma2/beta2 does not survive rescaling of beta (floating point, outside the real model)
            add('Rod1D-' + tag, 'exactpack.solvers.heat', 'Rod1D', dict(base, **bc), rd, xs, th, {'temperature': TEMP}, tol=1e-9)
        add('PlanarSandwich', 'exactpack.solvers.heat', 'PlanarSandwich', dict(base, TB=g1, TT=g2), dict(rd, TB=TEMP, TT=TEMP), xs, th, {'temperature': TEMP}, tol=1e-9)
        add('PlanarSandwichHot', 'exactpack.solvers.heat', 'PlanarSandwichHot', dict(base, F=g1), dict(rd, F=dict(k=1, l=-1)), xs, th, {'temperature': TEMP}, tol=1e-9)
        add('PlanarSandwichHalf', 'exactpack.solvers.heat', 'PlanarSandwichHalf', dict(base, TB=g1, FT=g2), dict(rd, TB=TEMP, FT=dict(k=1, l=-1)), xs, th, {'temperature': TEMP}, tol=1e-9)
        kk, cp, rho, b = r4(rng, 0.5, 3), r4(rng, 0.5, 3), r4(rng, 0.5, 3), r4(rng, 0.5, 2)
        add('Hutchens1', 'exactpack.solvers.heat', 'Hutchens1', dict(k=kk, cp=cp, rho=rho, b=b, Tb=r4(rng, 2, 6), T0=r4(rng, 0, 1.5), Nsum=60),
            {'k': dict(l=2, t=-1), 'b': LEN, 'Tb': TEMP, 'T0': TEMP}, [0.0] + sorted(r4(rng, 0.05, 1.0) * b for _ in range(6)), r4(rng, 0.02, 0.4) * b * b * rho * cp / kk, {'temperature': TEMP}, tol=1e-9)
        # general-EOS Riemann driver with different gammas on the two sides
        Pq = {'pl': r4(rng, 0.3, 3), 'pr': r4(rng, 0.3, 3), 'rl': r4(rng, 0.3, 3), 'rr': r4(rng, 0.3, 3), 'ul': r4(rng, -1, 1), 'ur': r4(rng, -1, 1),
              'gl': r4(rng, 1.2, 2.2), 'gr': r4(rng, 1.2, 2.2), 'xmin': -3.0, 'xd0': 0.2, 'xmax': 3.0, 't': 0.25}
        add('GenEOS_Solver', 'exactpack.solvers.riemann.ep_riemann', 'GenEOS_Solver', Pq,
            {'pl': PRES, 'pr': PRES, 'rl': DENS, 'rr': DENS, 'ul': VEL, 'ur': VEL, 'xmin': LEN, 'xd0': LEN, 'xmax': LEN, 't': TIME},
            sorted(r4(rng, -1.0, 1.4) for _ in range(7)), 0.25, {k: HYD[k] for k in ('density', 'pressure', 'specific_internal_energy', 'velocity')}, tol=1e-4)
    return out


def oracle(rng, tier, reasons, only=None):
    return SO.make(lambda r, n: cases(r, max(1, n // 4), only))(rng, tier, reasons)


if __name__ == '__main__':
    import random, sys, json
    rng = random.Random(int(sys.argv[1]) if len(sys.argv) > 1 else 0)
    ps = cases(rng, 1)
    res = H.run_real(SO.SCRIPT, ps, timeout=1800)
    for p, r in zip(ps, res):
        print('%-28s' % p['what'], 'ok' if not r else json.dumps(r)[:300])


GENEOS_WITNESS = {'pl': 1.0, 'pr': 0.1, 'rl': 1.0, 'rr': 0.125, 'ul': 0.0, 'ur': 0.0, 'gl': 1.4, 'gr': 1.4, 'xmin': 0.0, 'xd0': 0.5, 'xmax': 1.0, 't': 0.25}
GENEOS_SCALES = (395.0, 24300.0, 94900.0, 1.0)


def replay_geneos():
    """Sod problem re-expressed in units in which the densities are ~3e-11 and the pressures ~2e-18"""
    P = GENEOS_WITNESS
    dims = {'pl': PRES, 'pr': PRES, 'rl': DENS, 'rr': DENS, 'ul': VEL, 'ur': VEL, 'xmin': LEN, 'xd0': LEN, 'xmax': LEN, 't': TIME}
    S = scale_params(P, dims, GENEOS_SCALES)
    pts = [0.1, 0.3, 0.45, 0.6, 0.7, 0.8, 0.95]
    fl = dim(*GENEOS_SCALES, **LEN)
    c = {'what': 'GenEOS witness', 'a': ['exactpack.solvers.riemann.ep_riemann', 'GenEOS_Solver', P, pts, 0.25],
         'b': ['exactpack.solvers.riemann.ep_riemann', 'GenEOS_Solver', S, [x * fl for x in pts], 0.25 * dim(*GENEOS_SCALES, **TIME)],
         'factors': {k: dim(*GENEOS_SCALES, **HYD[k]) for k in ('density', 'pressure', 'specific_internal_energy', 'velocity')}, 'tol': 1e-3}
    r = H.run_real(SO.SCRIPT, [c], timeout=900)[0]
    if r and 'error' not in r:
        return {'problem': P, 'unit_factors(mass,length,time)': list(GENEOS_SCALES[:3]), 'fields_that_do_not_transform': {k: v['max_rel_diff'] for k, v in r.items()}}
    if r and 'error' in r:
        return {'problem': P, 'unit_factors(mass,length,time)': list(GENEOS_SCALES[:3]), 'error_in_rescaled_units': r['error']}
    return None
