#!/usr/bin/env python3
"""C14: correspondence between the real Hutchens1 solver and gen/Hutchens1.v, decided inside Coq (series unrolled for a small Nsum, Interval)."""
import json
import os
from fractions import Fraction
import harness as H
from harness import qlit
from py2coq import coq_num
import heat_corr as HC

REAL = r'''
from exactpack.solvers.heat import Hutchens1
def main(payload):
    out = []
    for c in payload:
        try:
            s = Hutchens1(**c['params'])
            sol = s(np.array(c['rs'], dtype=float), c['t'])
            out.append([float(v) for v in sol['temperature']])
        except Exception as ex:
            out.append({'error': type(ex).__name__ + ': ' + str(ex)[:200]})
    return out
'''


def unit_corr(rng, tier, prop):
    js = json.load(open(os.path.join(H.COQ, 'gen', 'Hutchens1.json')))
    r4 = lambda lo, hi: float('%.4g' % rng.uniform(lo, hi))
    cases = []
    for _ in range(2 if tier == 'quick' else 10):
        p = dict(k=r4(0.5, 3), cp=r4(0.5, 3), rho=r4(0.5, 3), b=r4(0.5, 2.5), Tb=r4(2, 6), T0=r4(0, 1.5), Nsum=rng.choice([3, 5, 6]))
        alpha = p['k'] / (p['rho'] * p['cp'])
        cases.append({'params': p, 'rs': [0.0, r4(0.1, 0.9) * p['b'], p['b'], r4(0.1, 0.9) * p['b']], 't': r4(0.02, 0.3) * p['b'] ** 2 / alpha})
    res = H.run_real(REAL, cases)
    goals, dis = [], []
    for c, r in zip(cases, res):
        if isinstance(r, dict):
            dis.append({'case': c, 'real': r, 'why': 'real implementation raised'})
            continue
        p = c['params']
        args = ' '.join('(INR %d)' % p['Nsum'] if a == 'Nsum' else qlit(p[a]) for a in js['h1_temperature']['args'][:-2])
        for x, v in zip(c['rs'], r):
            tol = Fraction(1, 10 ** 9) * (abs(Fraction(v)) + 1)
            goals.append('Goal Rabs (h1_temperature %s %s %s - %s) <= %s.\nProof. series_unroll. corr_solve. Qed.' % (args, qlit(x), qlit(c['t']), qlit(v), coq_num(tol)))
    files = H.write_case_files('%s_hutchens1' % prop, 'lib.Series gen.Hutchens1', goals, per_file=12)
    for fn in files:
        pth = os.path.join(H.COQ, fn)
        s = open(pth).read().replace('Open Scope R_scope.\n', 'Open Scope R_scope.\n' + HC.TACTIC, 1)
        open(pth, 'w').write(s)
    return files, len(goals), dis, (cases[0] if cases else None)


if __name__ == '__main__':
    import random
    print(unit_corr(random.Random(0), 'quick', 'CXX')[:3])
