#!/usr/bin/env python3
"""Translate the closed-form parts of /repo into coq/gen/*.v (+ .json side-cars).

usage: translate.py [--out DIR] [group ...]       (no group = all)
Exit status 0 = all requested groups translated; 2 = translator stopped
(fail-closed); the diagnostic names file, line and construct.
"""
import ast
import copy
import json
import os
import sys
import traceback

sys.path.insert(0, os.path.dirname(os.path.abspath(__file__)))
import gen
from gen import (REPO, HEADER, translate_class, emit_class, class_json, translate_function, emit_function,
                 expr_to_json)
from py2coq import Module, Unsupported, Obj, num, is_expr

S = os.path.join(REPO, 'exactpack', 'solvers')

GROUPS = {}


def group(name):
    def deco(f):
        GROUPS[name] = f
        return f
    return deco


def classes_group(relpath, classes, outname):
    """generic: translate a list of (class, prefix) from one module"""
    mod = Module(os.path.join(S, relpath))
    text = HEADER % ('exactpack/solvers/' + relpath)
    js = {}
    for cname, pfx in classes:
        info = translate_class(mod, cname)
        text += '\n' + emit_class(info, pfx)
        js[pfx] = class_json(info, pfx)
    return {outname: (text, js)}


def wrappers_of(mod, base):
    out = []
    for cn, node in mod.classes.items():
        if cn == base:
            continue
        for b in node.bases:
            if getattr(b, 'id', None) == base:
                out.append(cn)
    return out


def family(relpath, base, pfx, outname):
    mod = Module(os.path.join(S, relpath))
    cl = [(base, pfx)] + [(w, w.lower()) for w in wrappers_of(mod, base)]
    return classes_group(relpath, cl, outname)


@group('noh')
def g_noh():
    return family('noh/noh1.py', 'Noh', 'noh', 'Noh1')


@group('noh2')
def g_noh2():
    out = family('noh2/noh2.py', 'Noh2', 'noh2', 'Noh2')
    out.update(family('noh2/noh2_cog.py', 'Noh2Cog', 'noh2cog', 'Noh2Cog'))
    return out


def _cog(i):
    def f():
        return family('cog/cog%d.py' % i, 'Cog%d' % i, 'cog%d' % i, 'Cog%d' % i)
    return f


for _i in list(range(1, 15)) + [16, 17, 18, 19, 20, 21]:
    GROUPS['cog%d' % _i] = _cog(_i)


def functions_group(relpath, outname, specs, inst_attrs=None, header_extra=''):
    """specs: list of (coq_name, python function, [(pyarg, binding)], outputs) where binding is a free-variable name
    (str), the string '@inst' for the instance object, or ('attr', name) to bind the argument to inst.<name>;
    outputs: None (single value) or list of suffixes for a returned tuple."""
    mod = Module(os.path.join(S, relpath))
    text = HEADER % ('exactpack/solvers/' + relpath) + header_extra
    js = {}
    for coqname, fname, binds, outs in specs:
        inst = Obj('', dict(inst_attrs or {}), frozen=False, name='inst')
        argspec = []
        args = []
        for a, b in binds:
            if b == '@inst':
                argspec.append((a, inst))
            elif isinstance(b, tuple) and b[0] == 'attr':
                argspec.append((a, ('var', b[1])))
            elif isinstance(b, tuple) and b[0] == 'const':
                argspec.append((a, num(b[1])))
            else:
                argspec.append((a, b))
                if b not in args:
                    args.append(b)
        ret, interp = translate_function(mod, fname, argspec)
        if interp.raises:
            raise Unsupported('%s.%s raises on some path' % (relpath, fname))
        vals = [ret] if outs is None else list(ret)
        names = [coqname] if outs is None else ['%s_%s' % (coqname, o) for o in outs]
        if len(vals) != len(names):
            raise Unsupported('%s.%s: returns %d values, expected %d' % (relpath, fname, len(vals), len(names)))
        for nm, e in zip(names, vals):
            if not is_expr(e):
                raise Unsupported('%s.%s: result %s is not a scalar expression' % (relpath, fname, nm))
            from py2coq import free_vars
            fv = free_vars(e)
            allargs = list(args) + sorted(v for v in fv if v not in args)
            text += '\n' + emit_function(nm, allargs, e, comment='%s(%s)' % (fname, ', '.join('%s=%s' % (a, b if isinstance(b, str) else b[1]) for a, b in binds)))
            text += '#[global] Hint Unfold %s : epgen.\n' % nm
            js[nm] = {'args': allargs, 'expr': expr_to_json(e), 'python': fname}
    return {outname: (text, js)}


IG = {'problem': 'igeos'}
L4 = [('p', ('attr', 'pl')), ('r', ('attr', 'rl')), ('u', ('attr', 'ul')), ('g', ('attr', 'gl'))]
R4 = [('p', ('attr', 'pr')), ('r', ('attr', 'rr')), ('u', ('attr', 'ur')), ('g', ('attr', 'gr'))]


@group('riemann')
def g_riemann():
    I = ('inst', '@inst')
    specs = [
        ('rie_sound_speed', 'sound_speed', [('p', 'p'), ('r', 'r'), ('g', 'g'), I], None),
        ('rie_sie', 'sie', [('p', 'p'), ('r', 'r'), ('g', 'g'), I], None),
        ('rie_rarefaction', 'rarefaction', [('px', 'px'), ('p', 'p'), ('r', 'r'), ('u', 'u'), ('g', 'g'), I], None),
        ('rie_shock', 'shock', [('px', 'px'), ('p', 'p'), ('r', 'r'), ('u', 'u'), ('g', 'g'), I], None),
        ('rie_rho_star_shock', 'rho_star_shock', [('px', 'px'), ('p', 'p'), ('r', 'r'), ('g', 'g'), I], None),
        ('rie_rho_star_rarefaction', 'rho_star_rarefaction', [('px', 'px'), ('p', 'p'), ('r', 'r'), ('g', 'g'), I], None),
        ('rie_SCS_call', 'SCS_call', [('p', 'px'), I], None),
        ('rie_SCR_call', 'SCR_call', [('p', 'px'), I], None),
        ('rie_RCS_call', 'RCS_call', [('p', 'px'), I], None),
        ('rie_RCR_call', 'RCR_call', [('p', 'px'), I], None),
        # the fan and the shock speed as the driver calls them for the left and for the right state
        ('rie_fanL', 'rho_p_u_rarefaction', L4 + [('x', 'x'), ('xd0', 'xd0'), ('t', 't'), I], ['rho', 'p', 'u']),
        ('rie_fanR', 'rho_p_u_rarefaction', R4 + [('x', 'x'), ('xd0', 'xd0'), ('t', 't'), I], ['rho', 'p', 'u']),
        ('rie_shock_velocityL', 'shock_velocity', [('px', 'px')] + L4 + [I], None),
        ('rie_shock_velocityR', 'shock_velocity', [('px', 'px')] + R4 + [I], None),
        ('rie_u_SCN', 'u_SCN', [('px', 'px'), I], None),
        ('rie_u_NCS', 'u_NCS', [('px', 'px'), I], None),
        ('rie_u_NCR', 'u_NCR', [('px', 'px'), I], None),
        ('rie_u_RCN', 'u_RCN', [('px', 'px'), I], None),
        ('rie_u_RCVR', 'u_RCVR', [('p', 'px'), I], None),
    ]
    return functions_group('riemann/utils.py', 'Riemann', specs, inst_attrs=IG)



@group('mader')
def g_mader():
    """Mader rarefaction: the per-cell function rare() (fan cell average, transition cell that straddles the tail of the
    Taylor wave, constant state); the loop over cells in mader() is a map with dx = (x[-1]-x[0])/len(x)"""
    specs = [('mader', 'rare', [('time', 't'), ('xlab', 'xlab'), ('dx', 'dx'), ('p_cj', 'p_cj'), ('d_cj', 'd_cj'), ('gam', 'gam'), ('u_piston', 'u_piston')],
              ['u', 'p', 'c', 'rho', 'xdet'])]
    return functions_group('mader/rarefaction.py', 'Mader', specs)


@group('sedov')
def g_sedov():
    """Sedov: constructor constants (straight-line self.X = ... assignments of __init__), the similarity functions
    sedov_funcs_standard for each special_singularity value, the energy integrands efun01 / efun02, the shock radius
    and post-shock state of _run, and physical(); quad, fminbound and the interpolation loop are outside the subset"""
    from gen import translate_method
    from py2coq import Interp, free_vars
    mod = Module(os.path.join(S, 'sedov/sedov.py'))
    cn = mod.classes['Sedov']
    meth = {st.name: st for st in cn.body if isinstance(st, ast.FunctionDef)}
    text = HEADER % 'exactpack/solvers/sedov/sedov.py'
    js = {}
    PARAMS = ['geometry', 'gamma', 'omega', 'rho0', 'eblast']

    def emit(nm, args, e, comment):
        nonlocal text
        fv = free_vars(e)
        for v in fv:
            if v not in args:
                raise Unsupported('sedov: %s has stray variable %s' % (nm, v))
        args = [a for a in args if a in fv]
        text += '\n' + emit_function(nm, args, e, comment=comment)
        text += '#[global] Hint Unfold %s : epgen.\n' % nm
        js[nm] = {'args': args, 'expr': expr_to_json(e)}

    # --- constructor constants: the unconditional top-level assignments self.X = <expr> of __init__, in order
    CONSTS = ['gamm1', 'gamp1', 'gpogm', 'xg2', 'denom2', 'denom3', 'v2', 'vstar', 'a0', 'a2', 'a1', 'a3', 'a4', 'a5',
              'a_val', 'b_val', 'c_val', 'd_val', 'e_val']
    selfo = Obj('', {a: ('var', a) for a in PARAMS}, frozen=True, name='self')
    interp = Interp(mod, {})
    env = {'self': selfo}
    seen = []
    for st in meth['__init__'].body:
        if isinstance(st, ast.Assign) and len(st.targets) == 1 and isinstance(st.targets[0], ast.Attribute) \
                and isinstance(st.targets[0].value, ast.Name) and st.targets[0].value.id == 'self' and st.targets[0].attr in CONSTS:
            nm = st.targets[0].attr
            if nm in seen:
                raise Unsupported('sedov.__init__: %s assigned twice at top level' % nm)
            v = interp.ev(st.value, env)
            selfo.attrs[nm] = v
            seen.append(nm)
            emit('sed_' + nm, PARAMS, v, 'Sedov.__init__: self.%s' % nm)
    missing = [c for c in CONSTS if c not in seen]
    if missing:
        raise Unsupported('sedov.__init__: no top-level assignment of %s' % missing)

    # --- similarity functions, for each special_singularity value; constants are free variables here
    SV = ['geometry', 'gamma', 'omega', 'gamm1', 'gamp1', 'gpogm', 'xg2', 'a0', 'a1', 'a2', 'a3', 'a4', 'a5', 'a_val', 'b_val', 'c_val', 'd_val', 'e_val']
    for sing, tag in (('none', 'std'), ('omega2', 'om2'), ('omega3', 'om3')):
        ret, it = translate_method(mod, 'Sedov', 'sedov_funcs_standard', ['v'], SV, self_consts={'special_singularity': sing})
        if it.raises or not (isinstance(ret, (tuple, list)) and len(ret) == 5):
            raise Unsupported('sedov_funcs_standard(%s): unexpected shape' % sing)
        for nm, e in zip(('lam', 'dlamdv', 'f', 'g', 'h'), ret):
            emit('sed_%s_%s' % (tag, nm), ['v'] + SV, e, 'sedov_funcs_standard(v)[%s], special_singularity = %s' % (nm, sing))
        for en in ('efun01', 'efun02'):
            ret, it = translate_method(mod, 'Sedov', en, ['v'], SV, self_consts={'special_singularity': sing})
            if it.raises or not is_expr(ret):
                raise Unsupported('sedov %s(%s): unexpected shape' % (en, sing))
            emit('sed_%s_%s' % (tag, en), ['v'] + SV, ret, '%s(v), special_singularity = %s' % (en, sing))

    # --- shock radius and post-shock state: the unconditional top-level assignments of _run
    RUNV = ['r2', 'rho1', 'us', 'u2', 'rho2', 'p2']
    selfo2 = Obj('', {a: ('var', a) for a in ['rho0', 'eblast', 'alpha', 'omega', 'xg2', 'gamp1', 'gpogm', 'geometry', 'gamma', 'gamm1']}, frozen=True, name='self')
    interp2 = Interp(mod, {})
    env2 = {'self': selfo2, 't': ('var', 't')}
    seen = []
    for st in meth['_run'].body:
        if isinstance(st, ast.Assign) and len(st.targets) == 1 and isinstance(st.targets[0], ast.Attribute) \
                and isinstance(st.targets[0].value, ast.Name) and st.targets[0].value.id == 'self' and st.targets[0].attr in RUNV:
            nm = st.targets[0].attr
            v = interp2.ev(st.value, env2)
            selfo2.attrs[nm] = v
            seen.append(nm)
            emit('sed_' + nm, ['t', 'rho0', 'eblast', 'alpha', 'omega', 'xg2', 'gamp1', 'gpogm', 'geometry', 'gamma', 'gamm1'], v, 'Sedov._run: self.%s' % nm)
    missing = [c for c in RUNV if c not in seen]
    if missing:
        raise Unsupported('sedov._run: no top-level assignment of %s' % missing)

    # --- physical(): density, velocity, pressure from the similarity functions
    ret, it = translate_method(mod, 'Sedov', 'physical', ['f_fun', 'g_fun', 'h_fun'], ['rho2', 'u2', 'p2', 'gamm1', 'gamma'])
    if not (isinstance(ret, (tuple, list)) and len(ret) == 5):
        raise Unsupported('sedov.physical: unexpected shape')
    for nm, e in zip(('density', 'velocity', 'pressure'), ret[:3]):
        emit('sed_phys_' + nm, ['f_fun', 'g_fun', 'h_fun', 'rho2', 'u2', 'p2'], e, 'physical(f, g, h)[%s]' % nm)

    # --- alpha as assembled from the two quadratures: `if self.geometry == 1: self.alpha = A else: self.alpha = B` in __init__
    found = []
    for node in ast.walk(meth['__init__']):
        if isinstance(node, ast.If) and isinstance(node.test, ast.Compare) and isinstance(node.test.left, ast.Attribute) \
                and node.test.left.attr == 'geometry' and len(node.test.ops) == 1 and isinstance(node.test.ops[0], ast.Eq) \
                and isinstance(node.test.comparators[0], ast.Constant) and node.test.comparators[0].value == 1:
            def only_alpha(body):
                if len(body) == 1 and isinstance(body[0], ast.Assign) and isinstance(body[0].targets[0], ast.Attribute) and body[0].targets[0].attr == 'alpha':
                    return body[0].value
                return None
            a, b = only_alpha(node.body), only_alpha(node.orelse)
            if a is not None and b is not None:
                found.append((a, b))
    if len(found) != 1:
        raise Unsupported('sedov.__init__: expected exactly one `if self.geometry == 1: self.alpha = .. else: self.alpha = ..`, found %d' % len(found))
    selfo3 = Obj('', {a: ('var', a) for a in ['geometry', 'gamm1', 'eval1', 'eval2']}, frozen=True, name='self')
    interp3 = Interp(mod, {})
    emit('sed_alpha_planar', ['eval1', 'eval2', 'gamm1'], interp3.ev(found[0][0], {'self': selfo3}), 'Sedov.__init__: self.alpha for geometry == 1')
    emit('sed_alpha_curved', ['geometry', 'eval1', 'eval2', 'gamm1'], interp3.ev(found[0][1], {'self': selfo3}), 'Sedov.__init__: self.alpha for geometry != 1')
    return {'Sedov': (text, js)}


@group('suolson')
def g_suolson():
    """Su-Olson (timmes.py): dispersion functions gamma_*, phases theta_*, the four integrands upart1/2, vpart1/2 (the module
    globals posx, tau, epsilon they read are free variables) and the dimensionalisation so_wave with the two transform
    solutions as free variables; quad / brentq and the splitting at the zeros are outside the subset"""
    from py2coq import Interp, Func, free_vars
    mod = Module(os.path.join(S, 'suolson/timmes.py'))
    text = HEADER % 'exactpack/solvers/suolson/timmes.py'
    js = {}

    def emit(nm, args, e, comment):
        nonlocal text
        fv = free_vars(e)
        for v in fv:
            if v not in args:
                raise Unsupported('suolson: %s has stray variable %s' % (nm, v))
        args = [a for a in args if a in fv]
        text += '\n' + emit_function(nm, args, e, comment=comment)
        text += '#[global] Hint Unfold %s : epgen.\n' % nm
        js[nm] = {'args': args, 'expr': expr_to_json(e)}
    for k in ('one', 'two', 'three'):
        for fn in ('gamma_' + k, 'theta_' + k):
            ret, it = translate_function(mod, fn, [('eta', 'eta'), ('epsilon', 'epsilon')])
            if it.raises or not is_expr(ret):
                raise Unsupported('suolson.%s: unexpected shape' % fn)
            emit('so_' + fn, ['eta', 'epsilon'], ret, fn + '(eta, epsilon)')
    for fn in ('upart1', 'upart2', 'vpart1', 'vpart2'):
        mod.consts = {'posx': ('var', 'posx'), 'tau': ('var', 'tau'), 'epsilon': ('var', 'epsilon')}     # the Fortran-style common block
        ret, it = translate_function(mod, fn, [('eta', 'eta')])
        mod.consts = {}
        if it.raises or not is_expr(ret):
            raise Unsupported('suolson.%s: unexpected shape' % fn)
        emit('so_' + fn, ['eta', 'posx', 'tau', 'epsilon'], ret, fn + '(eta) with the module globals posx, tau, epsilon')
    # so_wave: the calls usolution(xpos, tau, epsilon) / vsolution(...) are recorded and replaced by free variables
    calls = {}

    def h_u(interp, args, kwargs, n):
        calls['u'] = args
        return ('var', 'uans')

    def h_v(interp, args, kwargs, n):
        calls['v'] = args
        return ('var', 'vans')
    ret, it = translate_function(mod, 'so_wave', [('time', 'time'), ('zpos', 'zpos'), ('trad_bc_ev', 'trad_bc_ev'), ('opac', 'opac'), ('alpha', 'alpha')],
                                 helpers={'usolution': h_u, 'vsolution': h_v})
    if it.raises or not (isinstance(ret, (tuple, list)) and len(ret) == 5) or 'u' not in calls or 'v' not in calls:
        raise Unsupported('suolson.so_wave: unexpected shape')
    A = ['time', 'zpos', 'trad_bc_ev', 'opac', 'alpha', 'uans', 'vans']
    for nm, e in zip(('erad', 'trad', 'trad_ev', 'tmat', 'tmat_ev'), ret):
        emit('so_wave_' + nm, A, e, 'so_wave(...)[%s]' % nm)
    if len(calls['u']) != 3 or len(calls['v']) != 4 or list(calls['v'][:3]) != list(calls['u']) or calls['v'][3] != ('var', 'uans'):
        raise Unsupported('suolson.so_wave: usolution / vsolution are not called with the same (xpos, tau, epsilon)')
    for nm, e in zip(('xpos', 'tau', 'epsilon'), calls['u']):
        emit('so_wave_' + nm, A, e, 'so_wave: argument %s passed to usolution and vsolution' % nm)
    # --- how usolution / vsolution combine their two quadratures: the constant assignments and the return expression
    for fn, args in (('usolution', ['sum1', 'sum2', 'tau']), ('vsolution', ['uans', 'sum1', 'sum2', 'tau'])):
        node = mod.funcs[fn]
        it = Interp(mod, {})
        env = {a: ('var', a) for a in args}
        rets = [st for st in node.body if isinstance(st, ast.Return)]
        if len(rets) != 1 or node.body[-1] is not rets[0]:
            raise Unsupported('suolson.%s: expected a single final return' % fn)
        for st in node.body:
            if isinstance(st, ast.Assign) and len(st.targets) == 1 and isinstance(st.targets[0], ast.Name) and st.targets[0].id in ('rt3', 'rt3opi'):
                env[st.targets[0].id] = it.ev(st.value, env)
        e = it.ev(rets[0].value, env)
        emit('so_%s_combine' % fn, args, e, '%s: return value as a function of the two quadrature sums' % fn)
    return {'SuOlson': (text, js)}


@group('sdrz')
def g_sdrz():
    """Steady detonation reaction zone: the time-independent constants of __init__ and the algebraic state (g, p, rho, u, cs) that
    run_tvec computes from the reaction progress - the straight-line array assignments, read with lambda as a free variable;
    the time grid, the particle paths and the back-interpolation of _run are outside the subset"""
    from py2coq import Interp, free_vars
    mod = Module(os.path.join(S, 'sdrz/sdrz.py'))
    cn = mod.classes['SteadyDetonationReactionZone']
    meth = {st.name: st for st in cn.body if isinstance(st, ast.FunctionDef)}
    text = HEADER % 'exactpack/solvers/sdrz/sdrz.py'
    js = {}

    def emit(nm, args, e, comment):
        nonlocal text
        fv = free_vars(e)
        for v in fv:
            if v not in args:
                raise Unsupported('sdrz: %s has stray variable %s' % (nm, v))
        args = [a for a in args if a in fv]
        text += '\n' + emit_function(nm, args, e, comment=comment)
        text += '#[global] Hint Unfold %s : epgen.\n' % nm
        js[nm] = {'args': args, 'expr': expr_to_json(e)}

    def self_assigns(fn, wanted, selfo, env):
        interp = Interp(mod, {})
        seen = []
        for st in meth[fn].body:
            if isinstance(st, ast.Assign) and len(st.targets) == 1:
                tg = st.targets[0]
                if isinstance(tg, ast.Attribute) and isinstance(tg.value, ast.Name) and tg.value.id == 'self' and tg.attr in wanted:
                    selfo.attrs[tg.attr] = interp.ev(st.value, env); seen.append(tg.attr)
                elif isinstance(tg, ast.Name) and tg.id in wanted:
                    env[tg.id] = interp.ev(st.value, env); seen.append(tg.id)
        missing = [w for w in wanted if w not in seen]
        if missing:
            raise Unsupported('sdrz.%s: no top-level assignment of %s' % (fn, missing))
    P = ['D', 'rho_0', 'gamma']
    selfo = Obj('', {a: ('var', a) for a in P}, frozen=True, name='self')
    self_assigns('__init__', ['Dj', 'f', 'Pj', 'rhoj'], selfo, {'self': selfo})
    for k in ('Dj', 'f', 'Pj', 'rhoj'):
        emit('sdrz_' + k, P, selfo.attrs[k], 'SteadyDetonationReactionZone.__init__: self.%s' % k)
    env = {'self': selfo, 'lamvec': ('var', 'lam')}
    self_assigns('run_tvec', ['gvec', 'pvec', 'rhovec', 'uvec', 'csvec'], selfo, env)
    for k in ('gvec', 'pvec', 'rhovec', 'uvec', 'csvec'):
        emit('sdrz_' + k[:-3], ['lam'] + P, env[k], 'run_tvec: %s as a function of the reaction progress' % k)
    return {'Sdrz': (text, js)}


@group('piston')
def g_piston():
    """Elastic-plastic piston: the closed-form constructor algebra - elastic precursor (e_y, p_y, wv_el, vel_y) as a function of the
    density at yield rho_y (which the three elastic models supply), and the plastic-wave state (p2, rho2, e2) as a function of the
    plastic wave speed (which fsolve supplies); the straight-line assignments of __init__ are evaluated in order, the model
    dispatch and the root finder are outside the subset"""
    from py2coq import Interp, Func, free_vars
    mod = Module(os.path.join(S, 'ep_piston/ep_piston.py'))
    cn = mod.classes['EPpiston']
    meth = {st.name: st for st in cn.body if isinstance(st, ast.FunctionDef)}
    text = HEADER % 'exactpack/solvers/ep_piston/ep_piston.py'
    js = {}
    P = ['gamma', 'c0', 's0', 'G', 'Y', 'rho0', 'up']
    selfo = Obj('', {a: ('var', a) for a in P}, frozen=True, name='self')
    selfo.attrs['rho_y'] = ('var', 'rho_y')
    selfo.attrs['wv_pl'] = ('var', 'wv_pl')

    def factory(name):
        def h(interp_, n, env, base):
            a = [interp_.ev(x, env) for x in n.args]
            return interp_.call_func(Func(meth[name], mod), [selfo] + a, {}, n)
        return h
    interp = Interp(mod, {('method', 'Gruneisen'): factory('Gruneisen')})
    env = {'self': selfo}
    done = []
    for st in meth['__init__'].body:
        if not isinstance(st, ast.Assign) or len(st.targets) != 1:
            continue
        tg = st.targets[0]
        src = ast.dump(st.value)
        if 'fsolve' in src or 'rho_hypoYield' in src or 'rho_hyperIfinYield' in src or 'rho_hyperFinYield' in src:
            continue
        if isinstance(tg, ast.Name):
            env[tg.id] = interp.ev(st.value, env)
        elif isinstance(tg, ast.Attribute) and isinstance(tg.value, ast.Name) and tg.value.id == 'self' and tg.attr not in ('rho_y', 'wv_pl'):
            selfo.attrs[tg.attr] = interp.ev(st.value, env)
            done.append(tg.attr)
    want = ['sdev_y', 'e_y', 'p_y', 'wv_el', 'vel_y', 'p2', 'rho2', 'e2']
    missing = [w for w in want if w not in done]
    if missing:
        raise Unsupported('ep_piston.__init__: no straight-line assignment of %s' % missing)
    if interp.raises:
        raise Unsupported('ep_piston: unexpected raise in the constructor algebra')
    args = P + ['rho_y', 'wv_pl']
    for k in want:
        e = selfo.attrs[k]
        fv = free_vars(e)
        a = [x for x in args if x in fv]
        text += '\n' + emit_function('epp_' + k, a, e, comment='EPpiston.__init__: self.%s' % k)
        text += '#[global] Hint Unfold epp_%s : epgen.\n' % k
        js['epp_' + k] = {'args': a, 'expr': expr_to_json(e)}
    return {'Piston': (text, js)}


@group('residuals')
def g_residuals():
    """black-box Noh residual functions: for each of the four classes the components of F, the entries of F_prime, and for the 2x2
    classes the hand-coded determinant and the adjugate entries of F_prime_inv (scaled by 1/det in the code).  Calls of the EOS
    object, self.equation_of_state.<m>(rho, P) or (rho, e), become the free variables eos_<m>; any other call shape stops the
    translation.  try/except unpacking, zero checks and numpy.linalg are outside the subset."""
    import copy
    from py2coq import Interp, free_vars
    mod = Module(os.path.join(S, 'nohblackboxeos/solution_tools/residual_functions.py'))
    text = HEADER % 'exactpack/solvers/nohblackboxeos/solution_tools/residual_functions.py'
    js = {}
    SELFV = ['u_0', 'rho_0', 'P_0', 'symmetry', 'e_0']

    class EosCalls(ast.NodeTransformer):
        def __init__(self, second):
            self.second = second
        def visit_Call(self, n):
            f = n.func
            if isinstance(f, ast.Attribute) and isinstance(f.value, ast.Attribute) and isinstance(f.value.value, ast.Name) \
                    and f.value.value.id == 'self' and f.value.attr == 'equation_of_state':
                ok = len(n.args) == 2 and all(isinstance(a, ast.Name) for a in n.args) and n.args[0].id == 'rho' and n.args[1].id == self.second and not n.keywords
                if not ok:
                    raise Unsupported('residuals: EOS method %s is not called on (rho, %s) at line %d' % (f.attr, self.second, n.lineno))
                return ast.copy_location(ast.Name(id='eos_' + f.attr, ctx=ast.Load()), n)
            return self.generic_visit(n)

    def emit(nm, e, comment):
        nonlocal text
        args = sorted(free_vars(e), key=lambda v: (not v.startswith('eos_'), v))
        order = [a for a in ['rho', 'P', 'e', 'D'] + SELFV if a in args] + [a for a in args if a.startswith('eos_')]
        text += '\n' + emit_function(nm, order, e, comment=comment)
        text += '#[global] Hint Unfold %s : epgen.\n' % nm
        js[nm] = {'args': order, 'expr': expr_to_json(e)}

    for cname, tag, second, dim in (('energy_noh_residual', 'en3', 'P', 3), ('simplified_energy_noh_residual', 'en2', 'P', 2),
                                    ('pressure_noh_residual', 'pr3', 'e', 3), ('simplified_pressure_noh_residual', 'pr2', 'e', 2)):
        cn = mod.classes[cname]
        meth = {st.name: st for st in cn.body if isinstance(st, ast.FunctionDef)}
        selfo = Obj('', {a: ('var', a) for a in SELFV}, frozen=True, name='self')
        env0 = {'self': selfo, 'rho': ('var', 'rho'), second: ('var', second), 'D': ('var', 'D')}

        def entries(fn, arr):
            out = {}
            interp = Interp(mod, {})
            env = dict(env0)
            for st in ast.walk(meth[fn]):
                if isinstance(st, ast.Assign) and len(st.targets) == 1 and isinstance(st.targets[0], ast.Subscript):
                    tg = st.targets[0]
                    if isinstance(tg.value, ast.Attribute) and isinstance(tg.value.value, ast.Name) and tg.value.value.id == 'self' and tg.value.attr == arr:
                        idx = tg.slice
                        key = tuple(i.value for i in idx.elts) if isinstance(idx, ast.Tuple) else (idx.value,)
                        val = EosCalls(second).visit(copy.deepcopy(st.value))
                        env['eos_names'] = None
                        for nmn in ast.walk(val):
                            if isinstance(nmn, ast.Name) and nmn.id.startswith('eos_'):
                                env[nmn.id] = ('var', nmn.id)
                        if key in out:
                            raise Unsupported('residuals: %s.%s assigns %s%s twice' % (cname, fn, arr, key))
                        out[key] = interp.ev(val, env)
            return out
        F = entries('F', 'result')
        DF = entries('F_prime', 'DF')
        if sorted(F) != [(i,) for i in range(dim)] or sorted(DF) != [(i, j) for i in range(dim) for j in range(dim)]:
            raise Unsupported('residuals: %s does not assign every component of F / F_prime exactly once' % cname)
        for (i,), e in sorted(F.items()):
            emit('res_%s_F%d' % (tag, i), e, '%s.F: result[%d]' % (cname, i))
        for (i, j), e in sorted(DF.items()):
            emit('res_%s_DF%d%d' % (tag, i, j), e, '%s.F_prime: DF[%d,%d]' % (cname, i, j))
        if dim == 2:
            ADJ = entries('F_prime_inv', 'DF_inv')
            if sorted(ADJ) != [(i, j) for i in range(2) for j in range(2)]:
                raise Unsupported('residuals: %s.F_prime_inv does not assign the four entries' % cname)
            # the scaling statement self.DF_inv = (1/det)*self.DF_inv must be present
            src = ast.get_source_segment(mod.src, meth['F_prime_inv'])
            if '(1/det)*self.DF_inv' not in src.replace(' ', '').replace('(1/det)*self.DF_inv', '(1/det)*self.DF_inv'):
                raise Unsupported('residuals: %s.F_prime_inv no longer scales the adjugate by 1/det' % cname)
            for (i, j), e in sorted(ADJ.items()):
                emit('res_%s_ADJ%d%d' % (tag, i, j), e, '%s.F_prime_inv: DF_inv[%d,%d] before the scaling by 1/det' % (cname, i, j))
            # determinant: the single assignment det_result = ...
            det = None
            interp = Interp(mod, {})
            for st in ast.walk(meth['determinant']):
                if isinstance(st, ast.Assign) and len(st.targets) == 1 and isinstance(st.targets[0], ast.Name) and st.targets[0].id == 'det_result':
                    val = EosCalls(second).visit(copy.deepcopy(st.value))
                    env = dict(env0)
                    for nmn in ast.walk(val):
                        if isinstance(nmn, ast.Name) and nmn.id.startswith('eos_'):
                            env[nmn.id] = ('var', nmn.id)
                    det = interp.ev(val, env)
            if det is None:
                raise Unsupported('residuals: %s.determinant has no det_result assignment' % cname)
            emit('res_%s_det' % tag, det, '%s.determinant' % cname)
    return {'Residuals': (text, js)}


@group('ehep')
def g_ehep():
    """Escape of HE products: for each of the regions I-V of _run (branches of the if/elif chain selected by corners['<region>']) the sound speed,
    velocity, pressure and density as functions of (x, t) and the parameters, the energy assembly e = p / rho / (gamma - 1), and the
    constructor's ttilde; the point-in-polygon region lookup (matplotlib.path, point_on_boundary) is outside the subset"""
    from py2coq import Interp, Func, free_vars
    mod = Module(os.path.join(S, 'ehep/ehep.py'))
    cn = mod.classes['EscapeOfHEProducts']
    meth = {st.name: st for st in cn.body if isinstance(st, ast.FunctionDef)}
    text = HEADER % 'exactpack/solvers/ehep/ehep.py'
    js = {}
    P = ['D', 'rho_0', 'up', 'xtilde', 'ttilde', 'gamma']
    selfo = Obj('', {a: ('var', a) for a in P}, frozen=True, name='self')

    def emit(nm, e, comment):
        nonlocal text
        fv = free_vars(e)
        args = [a for a in ['x', 't'] + P + ['p', 'rho'] if a in fv]
        for v in fv:
            if v not in args:
                raise Unsupported('ehep: %s has stray variable %s' % (nm, v))
        text += '\n' + emit_function(nm, args, e, comment=comment)
        text += '#[global] Hint Unfold %s : epgen.\n' % nm
        js[nm] = {'args': args, 'expr': expr_to_json(e)}

    def factory(name):
        def h(interp_, n, env, base):
            a = [interp_.ev(x, env) for x in n.args]
            return interp_.call_func(Func(meth[name], mod), [selfo] + a, {}, n)
        return h
    # the for loop over points and its if/elif chain
    loops = [st for st in meth['_run'].body if isinstance(st, ast.For)]
    if len(loops) != 1:
        raise Unsupported('ehep._run: expected one loop over the points')
    node = [st for st in loops[0].body if isinstance(st, ast.If)][0]
    found = {}
    while isinstance(node, ast.If):
        keys = [n.slice.value for n in ast.walk(node.test) if isinstance(n, ast.Subscript) and isinstance(n.value, ast.Name) and n.value.id == 'corners'
                and isinstance(n.slice, ast.Constant)]
        if keys and keys[0] in ('I', 'II', 'III', 'IV', 'V'):
            interp = Interp(mod, {('method', 'p_rho'): factory('p_rho')})
            env = {'self': selfo, 'x': ('var', 'x'), 't': ('var', 't')}
            for a in P:
                env[{'rho_0': 'rho_0'}.get(a, a)] = ('var', a)
            r = interp.exec_body([st for st in node.body if not (isinstance(st, ast.Assign) and isinstance(st.targets[0], ast.Name) and st.targets[0].id == 'reg')], env)
            found[keys[0]] = {k: env[k] for k in ('cs', 'u', 'p', 'rho')}
        node = node.orelse[0] if node.orelse and isinstance(node.orelse[0], ast.If) else None
    if sorted(found) != ['I', 'II', 'III', 'IV', 'V']:
        raise Unsupported('ehep._run: regions found %s' % sorted(found))
    for reg in ('I', 'II', 'III', 'IV', 'V'):
        for k in ('cs', 'u', 'p', 'rho'):
            emit('ehep_%s_%s' % (reg, k), found[reg][k], 'EscapeOfHEProducts._run, region %s: %s' % (reg, k))
    # energy assembly: the statement e = p / rho / (gamma - 1.0) inside `if rho != 0`
    interp = Interp(mod, {})
    ee = None
    for st in ast.walk(loops[0]):
        if isinstance(st, ast.Assign) and isinstance(st.targets[0], ast.Name) and st.targets[0].id == 'e' and not isinstance(st.value, ast.Constant):
            ee = interp.ev(st.value, {'p': ('var', 'p'), 'rho': ('var', 'rho'), 'gamma': ('var', 'gamma')})
    if ee is None:
        raise Unsupported('ehep._run: energy assembly not found')
    emit('ehep_sie', ee, 'EscapeOfHEProducts._run: specific internal energy from p, rho')
    # constructor: ttilde
    interp = Interp(mod, {})
    tt = None
    for st in meth['__init__'].body:
        if isinstance(st, ast.Assign) and isinstance(st.targets[0], ast.Attribute) and st.targets[0].attr == 'ttilde':
            tt = interp.ev(st.value, {'self': Obj('', {a: ('var', a) for a in P if a != 'ttilde'}, frozen=True, name='self')})
    if tt is None:
        raise Unsupported('ehep.__init__: ttilde not found')
    emit('ehep_ttilde', tt, 'EscapeOfHEProducts.__init__: self.ttilde')
    return {'Ehep': (text, js)}


@group('guderley')
def g_guderley():
    """Guderley (ramsey.py): the algebra around the ODE integration in state() - strong-shock start values at x = -1, the general-strength
    jump applied at the reflected shock x = B, and the map from similarity variables (V, C, R) = y[0..2] at the target x back to physical
    fields in each of the three integrated branches, with the values returned by solve_ivp as free variables y0, y1, y2; the constant state
    ahead of the converging shock; the similarity coordinate targetx(t, r) of guderley_1d.  solve_ivp, eexp, brentq are outside the subset."""
    from py2coq import Interp, free_vars
    mod = Module(os.path.join(S, 'guderley/ramsey.py'))
    fn = mod.funcs['state']
    text = HEADER % 'exactpack/solvers/guderley/ramsey.py'
    js = {}
    ORDER = ['r', 'rho0', 'gamma', 'lambda_', 'B', 'targetx', 'y0', 'y1', 'y2', 't', 'factorC']

    def emit(nm, e, comment):
        nonlocal text
        if not is_expr(e):
            raise Unsupported('guderley: %s is not a scalar expression' % nm)
        fv = free_vars(e)
        for v in fv:
            if v not in ORDER:
                raise Unsupported('guderley: %s has stray variable %s' % (nm, v))
        args = [a for a in ORDER if a in fv]
        text += '\n' + emit_function(nm, args, e, comment=comment)
        text += '#[global] Hint Unfold %s : epgen.\n' % nm
        js[nm] = {'args': args, 'expr': expr_to_json(e)}

    class Ren(ast.NodeTransformer):
        def visit_Subscript(self, n):
            if isinstance(n.value, ast.Name) and n.value.id == 'y' and isinstance(n.slice, ast.Constant) and n.slice.value in (0, 1, 2):
                return ast.copy_location(ast.Name(id='y%d' % n.slice.value, ctx=n.ctx), n)
            return self.generic_visit(n)

    def is_y_assign(st):
        return isinstance(st, ast.Assign) and len(st.targets) == 1 and isinstance(st.targets[0], ast.Name) and st.targets[0].id == 'y'

    def is_soln(st):
        return isinstance(st, ast.Assign) and len(st.targets) == 1 and isinstance(st.targets[0], ast.Name) and st.targets[0].id == 'soln'

    body = [st for st in fn.body if not (isinstance(st, ast.Expr) and isinstance(st.value, ast.Constant))]
    ifs = [i for i, st in enumerate(body) if isinstance(st, ast.If)]
    if len(ifs) != 1:
        raise Unsupported('guderley.state: expected one if-chain')
    pro = body[:ifs[0]]
    # prologue: parameters renamed, start values at the converging shock
    env0 = {'r': ('var', 'r'), 'rho0': ('var', 'rho0'), 'n': ('var', 'n'), 'gamma_d': ('var', 'gamma'), 'lambda_d': ('var', 'lambda_'),
            'B': ('var', 'B'), 'targetxd': ('var', 'targetx')}
    interp = Interp(mod, {})
    stm = []
    for st in pro:
        if isinstance(st, ast.Global):
            continue
        if is_y_assign(st):
            if ast.unparse(st.value) != 'np.zeros(3)':
                raise Unsupported('guderley.state: y initialised by %s' % ast.unparse(st.value))
            continue
        stm.append(Ren().visit(copy.deepcopy(st)))
    interp.exec_body(stm, env0)
    if interp.raises:
        raise Unsupported('guderley.state: prologue raises')
    for k, nm in ((0, 'V'), (1, 'C'), (2, 'R')):
        emit('gud_start_%s' % nm, env0['y%d' % k], 'state(): similarity variable y[%d] at the converging shock x = -1' % k)
    if not (is_expr(env0.get('t')) and env0['t'] == num(-1)):
        raise Unsupported('guderley.state: integration does not start at x = -1')
    base = {k: v for k, v in env0.items() if k not in ('y0', 'y1', 'y2')}
    # the chain
    node = body[ifs[0]]
    tests = ['targetx < -1.0', '-1.0 <= targetx < 0.0', '0.0 <= targetx < B', 'targetx >= B']
    names = ['ahead', 'conv', 'pre', 'refl']
    FIELDS = ('den', 'vel', 'pres', 'snd', 'sie')
    seen = []
    while isinstance(node, ast.If):
        src = ast.unparse(node.test)
        if len(seen) >= 4 or src != tests[len(seen)]:
            raise Unsupported('guderley.state: branch %d has test %s' % (len(seen), src))
        nm = names[len(seen)]
        sts = list(node.body)
        env = dict(base)
        interp = Interp(mod, {})
        if nm == 'ahead':
            interp.exec_body(sts, env)
        else:
            solves = [i for i, st in enumerate(sts) if is_soln(st)]
            reads = [i for i, st in enumerate(sts) if is_y_assign(st)]
            for i in reads:
                if ast.unparse(sts[i].value) != 'soln.y[:, -1]':
                    raise Unsupported('guderley.state: y read as %s' % ast.unparse(sts[i].value))
            want = ['solve_ivp(g, (t, targetx), y, rtol=relerr, atol=abserr)'] if nm != 'refl' else \
                ['solve_ivp(g, (t, B), y, rtol=relerr, atol=abserr)', 'solve_ivp(g, (B, targetx), y, rtol=relerr, atol=abserr)']
            got = [ast.unparse(sts[i].value) for i in solves]
            if got != want or len(reads) != len(solves) or any(r_ != s_ + 1 for r_, s_ in zip(reads, solves)):
                raise Unsupported('guderley.state: branch %s integrates %s' % (nm, got))
            if nm == 'refl':
                jump = [Ren().visit(copy.deepcopy(st)) for st in sts[reads[0] + 1:solves[1]]]
                envj = dict(base, y0=('var', 'y0'), y1=('var', 'y1'), y2=('var', 'y2'))
                interp.exec_body(jump, envj)
                for k, vn in ((0, 'V'), (1, 'C'), (2, 'R')):
                    emit('gud_jump_%s' % vn, envj['y%d' % k], 'state(): y[%d] just behind the reflected shock from (y0, y1, y2) just ahead of it' % k)
            tail = [Ren().visit(copy.deepcopy(st)) for st in sts[reads[-1] + 1:]]
            env.update(y0=('var', 'y0'), y1=('var', 'y1'), y2=('var', 'y2'))
            interp.exec_body(tail, env)
        if interp.raises:
            raise Unsupported('guderley.state: branch %s raises' % nm)
        for f in FIELDS:
            if f not in env:
                raise Unsupported('guderley.state: branch %s does not set %s' % (nm, f))
            emit('gud_%s_%s' % (nm, f), env[f], 'state(), branch %s (%s): %s' % (nm, src, f))
        seen.append(nm)
        node = node.orelse[0] if len(node.orelse) == 1 and isinstance(node.orelse[0], ast.If) else None
    if seen != names:
        raise Unsupported('guderley.state: branches %s' % seen)
    # the right-hand side g(t, y) of the similarity ODEs (globals lambda_, nu, gamma are set by state(): nu = n - 1)
    fg = mod.funcs['g']
    if [a.arg for a in fg.args.args] != ['t', 'y']:
        raise Unsupported('guderley.g: signature')

    class RenG(ast.NodeTransformer):
        def visit_Subscript(self, n):
            if isinstance(n.value, ast.Name) and n.value.id in ('y', 'num', 'yp') and isinstance(n.slice, ast.Constant) and n.slice.value in (0, 1, 2):
                return ast.copy_location(ast.Name(id='%s%d' % (n.value.id, n.slice.value), ctx=n.ctx), n)
            return self.generic_visit(n)
    gbody = []
    for st in fg.body:
        if isinstance(st, ast.Expr) and isinstance(st.value, ast.Constant):
            continue
        if isinstance(st, ast.Assign) and isinstance(st.targets[0], ast.Name) and st.targets[0].id in ('num', 'yp'):
            if ast.unparse(st.value) != 'np.zeros(3)':
                raise Unsupported('guderley.g: %s' % ast.unparse(st))
            continue
        if isinstance(st, ast.Return):
            if ast.unparse(st.value) != 'yp':
                raise Unsupported('guderley.g: returns %s' % ast.unparse(st.value))
            continue
        gbody.append(RenG().visit(copy.deepcopy(st)))
    envg = {'t': ('var', 'x'), 'y0': ('var', 'V'), 'y1': ('var', 'C'), 'y2': ('var', 'Rr'), 'lambda_': ('var', 'lambda_'), 'nu': ('var', 'nu'), 'gamma': ('var', 'gamma')}
    interp = Interp(mod, {})
    interp.exec_body(gbody, envg)
    if interp.raises:
        raise Unsupported('guderley.g raises')
    ORDER[:] = ['x', 'V', 'C', 'Rr', 'nu'] + ORDER
    for k, vn in ((0, 'V'), (1, 'C'), (2, 'R')):
        emit('gud_g_%s' % vn, envg['yp%d' % k], 'g(t, y): d y[%d] / dx with x = t, (V, C, Rr) = y' % k)
    nus = [st for st in pro if isinstance(st, ast.Assign) and isinstance(st.targets[0], ast.Name) and st.targets[0].id == 'nu']
    if len(nus) != 1 or ast.unparse(nus[0].value) != 'n - 1':
        raise Unsupported('guderley.state: nu is not n - 1')
    # what state() returns
    ret = [st for st in body[ifs[0] + 1:] if isinstance(st, ast.Return)]
    if len(ret) != 1 or ast.unparse(ret[0].value) not in ('(den, vel, pres, snd, sie)', 'den, vel, pres, snd, sie'):
        raise Unsupported('guderley.state: return statement')
    # guderley_1d: similarity coordinate of (t, r)
    fd = mod.funcs['guderley_1d']
    interp = Interp(mod, {})
    envd = {'t': ('var', 't'), 'lambda_': ('var', 'lambda_')}
    tee = tx = None
    for st in ast.walk(fd):
        if isinstance(st, ast.Assign) and isinstance(st.targets[0], ast.Name):
            if st.targets[0].id == 'factorC':
                envd['factorC'] = interp.ev(st.value, envd)
            elif st.targets[0].id == 'tee':
                tee = st
            elif st.targets[0].id == 'targetx':
                tx = st
    if tee is None or tx is None or 'factorC' not in envd:
        raise Unsupported('guderley_1d: tee / targetx not found')
    envd['tee'] = interp.ev(tee.value, envd)
    envd['rpos'] = ('var', 'r')
    emit('gud_targetx', interp.ev(tx.value, envd), 'guderley_1d: similarity coordinate x = (t / factorC - 1) / r**lambda')
    calls = [n for n in ast.walk(fd) if isinstance(n, ast.Call) and isinstance(n.func, ast.Name) and n.func.id == 'state']
    if len(calls) != 1 or ast.unparse(calls[0]) != 'state(rpos, rho0, ngeom, gamma, lambda_, B, targetx)':
        raise Unsupported('guderley_1d: call of state()')
    return {'Guderley': (text, js)}


@group('hutchens1')
def g_hutchens1():
    """Hutchens 1 (heat/hutchens1.py): sphere of radius b, surface held at Tb, uniform initial temperature T0: the series term (with its r = 0 branch),
    the assembly Tb + (Tb - T0) * sum and the diffusivity; the loop `for n in range(1, self.Nsum)` becomes sum_range ... 1 Nsum"""
    from py2coq import Interp, free_vars
    mod = Module(os.path.join(S, 'heat/hutchens1.py'))
    cn = mod.classes['Hutchens1']
    run = [st for st in cn.body if isinstance(st, ast.FunctionDef) and st.name == '_run'][0]
    if [a.arg for a in run.args.args] != ['self', 'r', 't']:
        raise Unsupported('hutchens1._run: signature')
    body = [st for st in run.body if not (isinstance(st, ast.Expr) and isinstance(st.value, ast.Constant))]
    loops = [i for i, st in enumerate(body) if isinstance(st, ast.For)]
    if len(loops) != 1:
        raise Unsupported('hutchens1._run: expected one loop')
    L = body[loops[0]]
    if ast.unparse(L.iter) != 'range(1, self.Nsum)' or not isinstance(L.target, ast.Name):
        raise Unsupported('hutchens1._run: loop is %s' % ast.unparse(L.iter))
    idx = L.target.id
    P = ['k', 'cp', 'rho', 'b', 'Tb', 'T0']
    selfo = Obj('', {a: ('var', a) for a in P + ['Nsum']}, frozen=True, name='self')
    env = {'self': selfo, 'r': ('var', 'r'), 't': ('var', 't')}
    interp = Interp(mod, {})
    pre = []
    for st in body[:loops[0]]:
        if isinstance(st, ast.Assign) and ast.unparse(st.targets[0]) == 'temperature':
            if ast.unparse(st.value) != 'np.zeros(shape=r.shape)':
                raise Unsupported('hutchens1._run: accumulator initialised by %s' % ast.unparse(st.value))
            continue
        pre.append(st)
    interp.exec_body(pre, env)
    # loop body: flatten `with np.errstate(...)`, the last statement accumulates
    flat = []
    for st in L.body:
        if isinstance(st, ast.With):
            if [ast.unparse(i.context_expr).split('(')[0] for i in st.items] != ['np.errstate']:
                raise Unsupported('hutchens1._run: with %s' % ast.unparse(st.items[0].context_expr))
            flat += st.body
        else:
            flat.append(st)
    acc = flat[-1]
    if not (isinstance(acc, ast.AugAssign) and isinstance(acc.op, ast.Add) and ast.unparse(acc.target) == 'temperature' and isinstance(acc.value, ast.Name)):
        raise Unsupported('hutchens1._run: loop does not end with temperature += <name>')
    envl = dict(env); envl[idx] = ('var', 'n')
    interp.exec_body(flat[:-1], envl)
    term = envl[acc.value.id]
    if interp.raises or not is_expr(term):
        raise Unsupported('hutchens1._run: series term')
    # after the loop
    post = body[loops[0] + 1:]
    ret = post[-1]
    if not (isinstance(ret, ast.Return) and ast.unparse(ret.value).replace(' ', '').startswith('ExactSolution([r,temperature],')):
        raise Unsupported('hutchens1._run: return')
    envp = dict(env); envp['temperature'] = ('var', 'SUM')
    interp.exec_body(post[:-1], envp)
    fin = envp['temperature']
    text = HEADER % 'exactpack/solvers/heat/hutchens1.py'
    js = {}
    targs = [a for a in P + ['n', 'r', 't'] if a in free_vars(term)]
    if set(free_vars(term)) - set(targs):
        raise Unsupported('hutchens1: stray variables in the term')
    text += '\n' + emit_function('h1_term', targs, term, comment='Hutchens1._run: term n of the series (np.where(r != 0, ., .) is the if)')
    text += '#[global] Hint Unfold h1_term : epgen.\n'
    fargs = [a for a in P + ['SUM'] if a in free_vars(fin)]
    text += '\n' + emit_function('h1_assemble', fargs, fin, comment='Hutchens1._run: what is done with the accumulated sum SUM')
    text += '#[global] Hint Unfold h1_assemble : epgen.\n'
    allp = sorted(set(targs) - {'n', 'r', 't'} | set(fargs) - {'SUM'})
    text += 'Definition h1_temperature (%s Nsum r t : R) : R :=\n  h1_assemble %s (sum_range (fun n : R => h1_term %s) 1 Nsum).\n' % (
        ' '.join(allp), ' '.join(a for a in fargs if a != 'SUM'), ' '.join(targs))
    text += '#[global] Hint Unfold h1_temperature : epgen.\n'
    if fargs[-1] != 'SUM':
        raise Unsupported('hutchens1: argument order')
    js['h1_term'] = {'args': targs, 'expr': expr_to_json(term)}
    js['h1_assemble'] = {'args': fargs, 'expr': expr_to_json(fin)}
    js['h1_temperature'] = {'args': allp + ['Nsum', 'r', 't']}
    return {'Hutchens1': (text, js)}


@group('sedov_eos')
def g_sedov_eos():
    """Sedov: how specific internal energy and sound speed are assembled from the interpolated pressure and density at the end of _run, and in
    physical() (used for the returned jump state), with gamm1 = gamma - 1 from the constructor"""
    from py2coq import Interp, free_vars
    mod = Module(os.path.join(S, 'sedov/sedov.py'))
    cn = mod.classes['Sedov']
    meth = {st.name: st for st in cn.body if isinstance(st, ast.FunctionDef)}
    interp = Interp(mod, {})
    g1 = [st for st in ast.walk(meth['__init__']) if isinstance(st, ast.Assign) and ast.unparse(st.targets[0]) == 'self.gamm1']
    if len(g1) != 1:
        raise Unsupported('sedov.__init__: self.gamm1')
    selfo = Obj('', {'gamma': ('var', 'gamma')}, frozen=False, name='self')
    selfo.attrs['gamm1'] = interp.ev(g1[0].value, {'self': selfo})
    text = HEADER % 'exactpack/solvers/sedov/sedov.py'
    js = {}

    def emit(nm, e, comment):
        nonlocal text
        args = [a for a in ('gamma', 'rho2', 'u2', 'p2', 'f_fun', 'g_fun', 'h_fun', 'pressure', 'density') if a in free_vars(e)]
        if set(free_vars(e)) - set(args):
            raise Unsupported('sedov_eos: stray variables in %s' % nm)
        text += '\n' + emit_function(nm, args, e, comment=comment)
        text += '#[global] Hint Unfold %s : epgen.\n' % nm
        js[nm] = {'args': args, 'expr': expr_to_json(e)}
    # end of _run: the two assignments that precede the return, pressure / density being the interpolated arrays (element-wise)
    run = meth['_run']
    tail = run.body[-3:]
    if not (isinstance(tail[2], ast.Return) and all(isinstance(st, ast.Assign) for st in tail[:2])
            and [ast.unparse(st.targets[0]) for st in tail[:2]] == ['specific_internal_energy', 'sound_speed']):
        raise Unsupported('sedov._run: expected energy and sound-speed assignments right before the return')
    names = ast.unparse(tail[2].value)
    if "[r, density, pressure, specific_internal_energy, velocity, sound_speed]" not in names:
        raise Unsupported('sedov._run: returned columns')
    env = {'self': selfo, 'pressure': ('var', 'pressure'), 'density': ('var', 'density')}
    interp.exec_body(tail[:2], env)
    emit('sed_run_sie', env['specific_internal_energy'], 'Sedov._run: specific_internal_energy from the interpolated pressure and density')
    emit('sed_run_snd', env['sound_speed'], 'Sedov._run: sound_speed from the interpolated pressure and density')
    # physical(): jump state / single values
    ph = meth['physical']
    selfo2 = Obj('', dict(selfo.attrs, rho2=('var', 'rho2'), u2=('var', 'u2'), p2=('var', 'p2')), frozen=True, name='self')
    ret = interp.call_func(__import__('py2coq').Func(ph, mod), [selfo2, ('var', 'f_fun'), ('var', 'g_fun'), ('var', 'h_fun')], {}, ph)
    if not (isinstance(ret, (list, tuple)) and len(ret) == 5):
        raise Unsupported('sedov.physical: returns')
    for nm, e in zip(('den', 'vel', 'prs', 'sie', 'snd'), ret):
        emit('sed_phys_' + nm, e, 'Sedov.physical: %s' % nm)
    return {'SedovEos': (text, js)}


@group('rectangle')
def g_rectangle():
    """Rectangle (heat/rectangle.py): static term (loop n = 1 .. Nsum-1), transient term (loops n = 0 .. Nsum-1, m = 1 .. Nsum-1) and how they are added;
    the loops become sum_range"""
    from py2coq import Interp, free_vars
    mod = Module(os.path.join(S, 'heat/rectangle.py'))
    cn = mod.classes['Rectangle']
    run = [st for st in cn.body if isinstance(st, ast.FunctionDef) and st.name == '_run'][0]
    body = [st for st in run.body if not (isinstance(st, ast.Expr) and isinstance(st.value, ast.Constant))]
    src = [ast.unparse(st) for st in body]
    if src[:4] != ['x = xylist[0]', 'y = xylist[1]', 'tempnonhom = 0', 'temperature = 0']:
        raise Unsupported('rectangle._run: prologue %s' % src[:4])
    L1, IF, FIN, RET = body[4:8] if len(body) == 8 else (None,) * 4
    if not (isinstance(L1, ast.For) and ast.unparse(L1.iter) == 'range(1, self.Nsum)' and isinstance(IF, ast.If) and ast.unparse(IF.test) == 'self.NonHomogeneousOnly == False'
            and not IF.orelse and ast.unparse(FIN) == 'temperature = temperature + tempnonhom' and isinstance(RET, ast.Return)
            and ast.unparse(RET.value).replace(' ', '').startswith('ExactSolution([x,y,temperature],')):
        raise Unsupported('rectangle._run: structure')
    if not (len(IF.body) == 1 and isinstance(IF.body[0], ast.For) and ast.unparse(IF.body[0].iter) == 'range(0, self.Nsum)'):
        raise Unsupported('rectangle._run: transient outer loop')
    L2 = IF.body[0]
    inner = [st for st in L2.body if isinstance(st, ast.For)]
    if not (len(inner) == 1 and L2.body[-1] is inner[0] and ast.unparse(inner[0].iter) == 'range(1, self.Nsum)'):
        raise Unsupported('rectangle._run: transient inner loop')
    L3 = inner[0]
    P = ['kappa', 'a', 'b', 'Ttop']
    selfo = Obj('', {a: ('var', a) for a in P + ['Nsum']}, frozen=True, name='self')

    def term(stmts, env, acc_name):
        acc = stmts[-1]
        if not (isinstance(acc, ast.AugAssign) and isinstance(acc.op, ast.Add) and ast.unparse(acc.target) == acc_name and isinstance(acc.value, ast.Name)):
            raise Unsupported('rectangle._run: loop does not end with %s += <name>' % acc_name)
        interp = Interp(mod, {})
        interp.exec_body(stmts[:-1], env)
        if interp.raises or not is_expr(env[acc.value.id]):
            raise Unsupported('rectangle._run: term')
        return env[acc.value.id]
    env1 = {'self': selfo, 'x': ('var', 'x'), 'y': ('var', 'y'), 't': ('var', 't'), L1.target.id: ('var', 'n')}
    st_term = term(list(L1.body), env1, 'tempnonhom')
    env2 = {'self': selfo, 'x': ('var', 'x'), 'y': ('var', 'y'), 't': ('var', 't'), L2.target.id: ('var', 'n'), L3.target.id: ('var', 'm')}
    tr_term = term([st for st in L2.body if st is not L3] + list(L3.body), env2, 'temperature')
    text = HEADER % 'exactpack/solvers/heat/rectangle.py'
    js = {}
    a1 = [a for a in P + ['n', 'x', 'y'] if a in free_vars(st_term)]
    a2 = [a for a in P + ['n', 'm', 'x', 'y', 't'] if a in free_vars(tr_term)]
    if set(free_vars(st_term)) - set(a1) or set(free_vars(tr_term)) - set(a2):
        raise Unsupported('rectangle: stray variables')
    text += '\n' + emit_function('rect_static_term', a1, st_term, comment='Rectangle._run: term n of the static (non-homogeneous) part')
    text += '#[global] Hint Unfold rect_static_term : epgen.\n'
    text += '\n' + emit_function('rect_trans_term', a2, tr_term, comment='Rectangle._run: term (n, m) of the transient part')
    text += '#[global] Hint Unfold rect_trans_term : epgen.\n'
    p1 = [a for a in a1 if a not in ('n', 'x', 'y')]
    p2 = [a for a in a2 if a not in ('n', 'm', 'x', 'y', 't')]
    allp = [a for a in P if a in p1 or a in p2]
    text += 'Definition rect_static (%s Nsum x y : R) : R :=\n  sum_range (fun n : R => rect_static_term %s) 1 Nsum.\n' % (' '.join(p1), ' '.join(a1))
    text += 'Definition rect_transient (%s Nsum x y t : R) : R :=\n  sum_range (fun n : R => sum_range (fun m : R => rect_trans_term %s) 1 Nsum) 0 Nsum.\n' % (' '.join(p2), ' '.join(a2))
    text += '(* NonHomogeneousOnly == False (default) *)\n'
    text += 'Definition rect_temperature (%s Nsum x y t : R) : R :=\n  rect_transient %s Nsum x y t + rect_static %s Nsum x y.\n' % (' '.join(allp), ' '.join(p2), ' '.join(p1))
    text += '(* NonHomogeneousOnly == True *)\n'
    text += 'Definition rect_temperature_static_only (%s Nsum x y : R) : R :=\n  0 + rect_static %s Nsum x y.\n' % (' '.join(p1), ' '.join(p1))
    text += '#[global] Hint Unfold rect_static rect_transient rect_temperature rect_temperature_static_only : epgen.\n'
    js['static_term'] = {'args': a1, 'expr': expr_to_json(st_term)}
    js['trans_term'] = {'args': a2, 'expr': expr_to_json(tr_term)}
    js['temperature'] = {'args': allp + ['Nsum', 'x', 'y', 't'], 'static_params': p1, 'trans_params': p2}
    return {'Rectangle': (text, js)}


def methods_group(relpath, outname, specs):
    """specs: list of (coq prefix, class, [self attribute names], [(method, [arg names])])"""
    from gen import translate_method, nan_cond, strip_nan
    from py2coq import coq_prop, cnot, free_vars
    mod = Module(os.path.join(S, relpath))
    text = HEADER % ('exactpack/solvers/' + relpath)
    js = {}
    for pfx, cname, selfvars, methods in specs:
        for mname, argv in methods:
            ret, interp = translate_method(mod, cname, mname, argv, selfvars)
            if not is_expr(ret):
                raise Unsupported('%s.%s.%s does not return a number' % (relpath, cname, mname))
            nm = '%s_%s' % (pfx, mname)
            dom = cnot(nan_cond(ret))
            for (path, exc, msg, ln) in interp.raises:
                from py2coq import cand
                dom = cand(dom, cnot(path))
            e = strip_nan(ret)
            allargs = list(argv) + [a for a in selfvars]
            for v in free_vars(e):
                if v not in allargs:
                    raise Unsupported('%s.%s.%s: stray variable %s' % (relpath, cname, mname, v))
            text += '\n' + emit_function(nm, allargs, e, comment='%s.%s(%s)' % (cname, mname, ', '.join(argv)))
            text += '#[global] Hint Unfold %s : epgen.\n' % nm
            sig = '(%s : R)' % ' '.join(gen.coq_name(a) for a in allargs)
            text += 'Definition %s_dom %s : Prop := %s.\n' % (nm, sig, coq_prop(dom))
            js[nm] = {'args': allargs, 'expr': expr_to_json(e), 'dom': expr_to_json(dom), 'class': cname, 'method': mname}
    return {outname: (text, js)}


EOS_METHODS = [('P', ['rho', 'e']), ('dP_drho', ['rho', 'e']), ('dP_de', ['rho', 'e']),
               ('e', ['rho', 'P']), ('de_dP', ['rho', 'P']), ('de_drho', ['rho', 'P'])]


@group('eos')
def g_eos():
    ST = ['reference_density', 'reference_pressure', 'reference_gruneisen', 'b', 'c_0', 's_1', 's_2', 's_3']
    specs = [
        ('eos_ideal', 'ideal_gas_eos', ['gamma'], EOS_METHODS),
        ('eos_stiff', 'stiffened_gas_eos', ['gamma', 'c_s', 'rho_inf'], EOS_METHODS),
        ('eos_na', 'noble_abel_eos', ['gamma', 'b'], EOS_METHODS),
        ('eos_cs', 'carnahan_starling_eos', ['gamma', 'b'], [m for m in EOS_METHODS if m[0] != 'de_drho'] + [('de_drho', ['P', 'rho']), ('Z', ['eta']), ('dZ_deta', ['eta'])]),
        ('eos_st', 'steinberg', ST, EOS_METHODS + [('P_inf', ['rho']), ('e_inf', ['rho']), ('gruneisen', ['rho']), ('dPinf_drho', ['rho']),
                                                   ('deinf_drho', ['rho']), ('dgru_drho', ['rho']), ('eta', ['rho'])]),
    ]
    return methods_group('nohblackboxeos/equations_of_state/eos_library.py', 'EosLibrary', specs)


@group('blake')
def g_blake():
    """Blake._run: the fields as functions of the intermediate quantities cl, n, b, k1 (kept, not inlined) and those
    quantities as functions of the parameters"""
    from gen import translate_method, strip_nan, nan_cond
    from py2coq import Solution, free_vars, coq_name, coq_prop, cnot, cand
    mod = Module(os.path.join(S, 'blake/blake.py'))
    helpers = {'amin': lambda i, a, k, n: a[0],
               'greater_equal': lambda i, a, k, n: ('ge', i.want_expr(a[0], n), i.want_expr(a[1], n)),
               'greater': lambda i, a, k, n: ('gt', i.want_expr(a[0], n), i.want_expr(a[1], n)),
               'ExactSolution': lambda i, a, k, n: Solution(a[0], k.get('names'))}
    keep = ['cl', 'n', 'b', 'k1']
    ret, interp = translate_method(mod, 'Blake', '_run', ['radii', 'tsnap'], [], frozen_self=False, extra_helpers=helpers, keep=keep)
    if not isinstance(ret, Solution):
        raise Unsupported('Blake._run does not return ExactSolution')
    text = HEADER % 'exactpack/solvers/blake/blake.py'
    js = {}
    order = ['cl', 'n', 'b', 'k1']
    for nm in order:
        e = interp.kept[nm]
        args = sorted(free_vars(e))
        text += '\n' + emit_function('blake_' + nm, args, e, comment='Blake._run local %s' % nm)
        text += '#[global] Hint Unfold blake_%s : epgen.\n' % nm
        js['blake_' + nm] = {'args': args, 'expr': expr_to_json(e)}
    dom = ('true',)
    for (path, exc, msg, ln) in interp.raises:
        dom = cand(dom, cnot(path))
    for nm, e in zip(ret.names, ret.data):
        e = strip_nan(e)
        cn = coq_name(nm)
        args = sorted(free_vars(e))
        text += '\n' + emit_function('blake_' + cn, args, e, comment='Blake field %s' % nm)
        text += '#[global] Hint Unfold blake_%s : epgen.\n' % cn
        js['blake_' + cn] = {'args': args, 'expr': expr_to_json(e)}
    text += '\nDefinition blake_fields : list string := [%s].\n' % '; '.join('"%s"%%string' % n_ for n_ in ret.names)
    return {'Blake': (text, js)}


@group('elastic')
def g_elastic():
    """blake/set_check_elastic_params.set_elastic_params: the fifteen `prmcase` blocks.  The function keeps its
    working variables in a dict filled through exec(); the translator rewrites ns['x'] to a plain local x, reads the
    (eky0, eky1) -> prmcase dispatch chain to learn which two variables each case is given, builds one synthetic
    function per case (given values, the case block, the bulk/longitudinal completion at the end) and translates it
    with the ordinary interpreter.  Output per case: the six parameters as functions of the two given values and the
    acceptance condition (conjunction of the negated raise paths)."""
    import copy
    from py2coq import free_vars, coq_prop, cnot, cand, Interp, Raised
    path = os.path.join(S, 'blake/set_check_elastic_params.py')
    mod = Module(path)
    fn = mod.funcs['set_elastic_params']
    VARS = ['plda', 'pg', 'pe', 'pnu', 'pk', 'pm']

    class NS(ast.NodeTransformer):
        def visit_Subscript(self, n):
            self.generic_visit(n)
            if isinstance(n.value, ast.Name) and isinstance(n.slice, ast.Constant) and isinstance(n.slice.value, str):
                if n.value.id == 'ns':
                    return ast.copy_location(ast.Name(id=n.slice.value, ctx=n.ctx), n)
                if n.value.id == 'ivar_pnms':
                    return ast.copy_location(ast.Constant(value='<' + n.slice.value + '>'), n)
            return n

    # internal variable order <-> external names (int_var_names zipped with elas_prm_names of class Blake)
    ivn = None
    for st in fn.body:
        if isinstance(st, ast.Assign) and isinstance(st.targets[0], ast.Name) and st.targets[0].id == 'int_var_names':
            ivn = [e.value for e in st.value.elts]
    if ivn != VARS:
        raise Unsupported('set_elastic_params: int_var_names is %r' % (ivn,))
    bmod = Module(os.path.join(S, 'blake/blake.py'))
    ext = None
    for st in bmod.classes['Blake'].body:
        if isinstance(st, ast.Assign) and isinstance(st.targets[0], ast.Name) and st.targets[0].id == 'elas_prm_names':
            ext = [e.value for e in st.value.elts]
    if ext is None or len(ext) != 6:
        raise Unsupported('Blake.elas_prm_names not a 6-element literal list')
    # the return statement must zip elas_prm_names with the six internal variables in order
    last = fn.body[-1]
    ok = isinstance(last, ast.Return) and isinstance(last.value, ast.Call) and getattr(last.value.func, 'id', '') == 'dict'
    if ok:
        z = last.value.args[0]
        ok = isinstance(z, ast.Call) and getattr(z.func, 'id', '') == 'zip' and getattr(z.args[0], 'id', '') == 'elas_prm_names' \
            and isinstance(z.args[1], ast.List) and [getattr(NS().visit(copy.deepcopy(e)), 'id', None) for e in z.args[1].elts] == VARS
    if not ok:
        raise Unsupported('set_elastic_params: unexpected return statement (line %d)' % last.lineno)

    # dispatch chain: if eky0 == '<name>': ns[v0] = elas_prm_args[eky0]; if eky1 == '<name>': prmcase = N; ns[v1] = ...
    cases = {}
    chain = None
    big = None
    for st in fn.body:
        if isinstance(st, ast.If) and isinstance(st.test, ast.Compare) and isinstance(st.test.left, ast.Name):
            if st.test.left.id == 'eky0':
                chain = st
            if st.test.left.id == 'prmcase':
                big = st
    if chain is None or big is None:
        raise Unsupported('set_elastic_params: dispatch / prmcase chains not found')

    def sub_name(n):
        n = NS().visit(copy.deepcopy(n))
        return n.id if isinstance(n, ast.Name) else None

    def walk_chain(node, key):
        out = []
        while True:
            if not (isinstance(node.test, ast.Compare) and node.test.left.id == key and isinstance(node.test.ops[0], ast.Eq)):
                raise Unsupported('set_elastic_params: dispatch test line %d' % node.lineno)
            out.append((node.test.comparators[0].value, node.body))
            if len(node.orelse) == 1 and isinstance(node.orelse[0], ast.If):
                node = node.orelse[0]
            elif not node.orelse:
                return out
            else:
                raise Unsupported('set_elastic_params: dispatch else line %d' % node.lineno)
    for name0, body0 in walk_chain(chain, 'eky0'):
        if not (isinstance(body0[0], ast.Assign) and len(body0) == 2 and isinstance(body0[1], ast.If)):
            raise Unsupported('set_elastic_params: dispatch body for %s' % name0)
        v0 = sub_name(body0[0].targets[0])
        for name1, body1 in walk_chain(body0[1], 'eky1'):
            if not (len(body1) == 2 and isinstance(body1[0], ast.Assign) and body1[0].targets[0].id == 'prmcase'):
                raise Unsupported('set_elastic_params: dispatch inner body for %s,%s' % (name0, name1))
            N = body1[0].value.value
            v1 = sub_name(body1[1].targets[0])
            if ext[VARS.index(v0)] != name0 or ext[VARS.index(v1)] != name1:
                raise Unsupported('set_elastic_params: case %d stores %s,%s for %s,%s' % (N, v0, v1, name0, name1))
            cases[N] = (v0, v1, name0, name1)
    if sorted(cases) != list(range(15)):
        raise Unsupported('set_elastic_params: cases found %r' % sorted(cases))
    blocks = {}
    for cval, body in walk_chain(big, 'prmcase'):
        blocks[cval] = body
    if sorted(blocks) != list(range(15)):
        raise Unsupported('set_elastic_params: prmcase blocks %r' % sorted(blocks))
    tol = [st for st in fn.body if isinstance(st, ast.Assign) and isinstance(st.targets[0], ast.Name) and st.targets[0].id in ('abstol', 'reltol')]
    # completion of pk / pm after the chain
    tail = [st for st in fn.body if isinstance(st, ast.If) and isinstance(st.test, ast.Call) and getattr(st.test.func, 'id', '') == 'isinstance']
    comp = {}
    for st in tail:
        v = sub_name(st.test.args[0])
        comp[v] = [NS().visit(copy.deepcopy(x)) for x in st.body]
    if sorted(comp) != ['pk', 'pm']:
        raise Unsupported('set_elastic_params: completion statements %r' % sorted(comp))

    def h_isclose(interp, args, kwargs, n):
        a, b = interp.want_expr(args[0], n), interp.want_expr(args[1], n)
        rt, at = interp.want_expr(kwargs['rtol'], n), interp.want_expr(kwargs['atol'], n)
        return ('le', ('abs', ('sub', a, b)), ('add', at, ('mul', rt, ('abs', b))))
    # restrictions on the given values: `for ky in elas_prm_args:` loop, translated once per parameter name
    loop = [st for st in fn.body if isinstance(st, ast.For) and getattr(st.target, 'id', '') == 'ky' and getattr(st.iter, 'id', '') == 'elas_prm_args']
    if len(loop) != 1:
        raise Unsupported('set_elastic_params: restriction loop over elas_prm_args not found')

    class KY(ast.NodeTransformer):
        def visit_Subscript(self, n):
            if isinstance(n.value, ast.Name) and n.value.id == 'elas_prm_args' and getattr(n.slice, 'id', '') == 'ky':
                return ast.copy_location(ast.Name(id='x', ctx=ast.Load()), n)
            return self.generic_visit(n)
    given_ok = {}
    for name in ext:
        body = [KY().visit(copy.deepcopy(x)) for x in loop[0].body] + [ast.parse('return x').body[0]]
        f = ast.FunctionDef(name='elastic_given', args=ast.arguments(posonlyargs=[], args=[ast.arg(arg='x')], kwonlyargs=[], kw_defaults=[], defaults=[]), body=body, decorator_list=[])
        ast.fix_missing_locations(f)
        interp = Interp(mod, {})
        try:
            interp.exec_body(f.body, {'x': ('var', 'x'), 'ky': name})
        except Raised:
            raise Unsupported('set_elastic_params: restriction on %s always raises' % name)
        c = ('true',)
        for (pth, exc, msg, ln) in interp.raises:
            if exc != 'ValueError':
                raise Unsupported('set_elastic_params: restriction on %s raises %s' % (name, exc))
            c = cand(c, cnot(pth))
        given_ok[name] = c
    text = HEADER % 'exactpack/solvers/blake/set_check_elastic_params.py'
    for name in ext:
        text += '\n(* accepted range of a GIVEN %s *)\nDefinition elastic_given_%s (x : R) : Prop :=\n  %s.\n' % (name, name, coq_prop(given_ok[name]))
    text += '\n(* external names of the six parameters, in the internal order plda pg pe pnu pk pm *)\n'
    text += 'Definition elastic_names : list string := [%s].\n' % '; '.join('"%s"%%string' % e for e in ext)
    js = {'names': ext, 'cases': {}, 'given_ok': {k: expr_to_json(v) for k, v in given_ok.items()}}
    for N in range(15):
        v0, v1, n0, n1 = cases[N]
        body = [ast.parse('%s = g0' % v0).body[0], ast.parse('%s = g1' % v1).body[0]] + copy.deepcopy(tol)
        body += [NS().visit(copy.deepcopy(x)) for x in blocks[N]]
        assigned = {v0, v1}
        for x in body:
            for y in ast.walk(x):
                if isinstance(y, ast.Name) and isinstance(y.ctx, ast.Store):
                    assigned.add(y.id)
        for v in ('plda', 'pg', 'pe', 'pnu'):
            if v not in assigned:
                raise Unsupported('set_elastic_params: case %d never sets %s' % (N, v))
        for v in ('pk', 'pm'):
            if v not in assigned:
                body += copy.deepcopy(comp[v])
        body.append(ast.parse('return (plda, pg, pe, pnu, pk, pm)').body[0])
        f = ast.FunctionDef(name='elastic_case_%d' % N, args=ast.arguments(posonlyargs=[], args=[ast.arg(arg='g0'), ast.arg(arg='g1')], kwonlyargs=[], kw_defaults=[], defaults=[]), body=body, decorator_list=[])
        ast.fix_missing_locations(f)
        from py2coq import Func
        mod.funcs[f.name] = f
        interp = Interp(mod, {'isclose': h_isclose})
        env = {'g0': ('var', 'g0'), 'g1': ('var', 'g1'), 'blk_dbg_prm': False, 'prmcase': num(N), 'eky0': n0, 'eky1': n1}
        for v in VARS + ['ipr', 'ips']:
            if v not in (v0, v1):
                env[v] = ('var', 'UNSET_' + v)
        try:
            ret = interp.exec_body(f.body, env)
        except Raised:
            raise Unsupported('set_elastic_params case %d always raises' % N)
        if not (isinstance(ret, (tuple, list)) and len(ret) == 6):
            raise Unsupported('set_elastic_params case %d: result %r' % (N, ret))
        dom = ('true',)
        for (pth, exc, msg, ln) in interp.raises:
            if exc != 'ValueError':
                raise Unsupported('set_elastic_params case %d raises %s (line %d)' % (N, exc, ln))
            dom = cand(dom, cnot(pth))
        if set(free_vars(dom)) - {'g0', 'g1'}:
            raise Unsupported('set_elastic_params case %d: acceptance condition mentions %r' % (N, free_vars(dom)))
        text += '\n(* prmcase %d: given %s (g0) and %s (g1) *)\n' % (N, n0, n1)
        text += 'Definition elastic_%d_pre (g0 g1 : R) : Prop := elastic_given_%s g0 /\\ elastic_given_%s g1.\n' % (N, n0, n1)
        text += 'Definition elastic_%d_ok (g0 g1 : R) : Prop :=\n  %s.\n' % (N, coq_prop(dom))
        # every division / square root the case evaluates, with the path condition under which it is reached
        dconds = []
        for (pth, c, ln, nr) in interp.partial:
            for (rp, _e, _m, _l) in interp.raises[:nr]:
                pth = cand(pth, cnot(rp))            # reached only when none of the earlier raise paths was taken
            if set(free_vars(c[1])) - {'g0', 'g1'} or (pth != ('true',) and set(free_vars(pth)) - {'g0', 'g1'}):
                raise Unsupported('set_elastic_params case %d: partial operation at line %d mentions an unset variable' % (N, ln))
            item = coq_prop(c) if pth == ('true',) else '(%s -> %s)' % (coq_prop(pth), coq_prop(c))
            if item not in [d[0] for d in dconds]:
                dconds.append((item, pth, c, ln))
        text += '(* the divisions and square roots case %d evaluates are defined (no ZeroDivisionError, no complex value) *)\n' % N
        text += 'Definition elastic_%d_defined (g0 g1 : R) : Prop :=\n  %s.\n' % (N, ' /\\\n  '.join(d[0] for d in dconds) if dconds else 'True')
        cj = {'given': [n0, n1], 'given_vars': [v0, v1], 'ok': expr_to_json(dom), 'out': {},
              'defined': [[expr_to_json(d[1]), expr_to_json(d[2]), d[3]] for d in dconds]}
        for v, e in zip(VARS, ret):
            text += emit_function('elastic_%d_%s' % (N, v), ['g0', 'g1'], e)
            text += '#[global] Hint Unfold elastic_%d_%s : epgen.\n' % (N, v)
            cj['out'][v] = expr_to_json(e)
        js['cases'][str(N)] = cj
    return {'Elastic': (text, js)}


@group('heat')
def g_heat():
    import heat_tr
    return heat_tr.build()


@group('rmtv')
def g_rmtv():
    """RMTV (rmtv/timmes.py): the ODE integration is outside the translated subset; what IS translated is the tail of
    rmtv_1d that converts the integration variables to the returned physical quantities (density, temperature, energy,
    pressure, velocity), together with the checked plumbing rmtv_1d -> rmtv -> Rmtv._run -> field names."""
    import copy
    from py2coq import free_vars, Interp, Raised
    mod = Module(os.path.join(S, 'rmtv/timmes.py'))
    f1 = mod.funcs['rmtv_1d']
    order = ['den', 'tev', 'ener', 'pres', 'vel']

    def ret_names(fn):
        r = fn.body[-1]
        if not (isinstance(r, ast.Return) and isinstance(r.value, ast.Tuple)):
            raise Unsupported('rmtv: %s does not end in return of a tuple' % fn.name)
        return [getattr(e, 'id', None) for e in r.value.elts]
    if ret_names(f1) != order or ret_names(mod.funcs['rmtv']) != order:
        raise Unsupported('rmtv: return order of rmtv_1d / rmtv is not den, tev, ener, pres, vel')
    # vector wrapper: d, t, e, p, v = rmtv_1d(...); den[i] = d ...
    loop = [st for st in mod.funcs['rmtv'].body if isinstance(st, ast.For)]
    if len(loop) != 1:
        raise Unsupported('rmtv: wrapper loop')
    asg = loop[0].body[0]
    if not (isinstance(asg, ast.Assign) and isinstance(asg.targets[0], ast.Tuple) and isinstance(asg.value, ast.Call) and getattr(asg.value.func, 'id', '') == 'rmtv_1d'):
        raise Unsupported('rmtv: wrapper does not call rmtv_1d')
    tmp = [e.id for e in asg.targets[0].elts]
    got = {}
    for st in loop[0].body[1:]:
        if not (isinstance(st, ast.Assign) and isinstance(st.targets[0], ast.Subscript) and isinstance(st.value, ast.Name)):
            raise Unsupported('rmtv: wrapper loop statement line %d' % st.lineno)
        got[st.targets[0].value.id] = st.value.id
    if [got.get(n) for n in order] != tmp:
        raise Unsupported('rmtv: wrapper stores the results of rmtv_1d in a different order')
    cmod = Module(os.path.join(S, 'rmtv/rmtv.py'))
    run = [st for st in cmod.classes['Rmtv'].body if isinstance(st, ast.FunctionDef) and st.name == '_run'][0]
    a0 = run.body[0] if isinstance(run.body[0], ast.Assign) else run.body[1]
    a0 = [st for st in run.body if isinstance(st, ast.Assign)][0]
    if [e.id for e in a0.targets[0].elts] != order or getattr(a0.value.func, 'id', '') != 'rmtv':
        raise Unsupported('rmtv: Rmtv._run unpacking')
    kw = {k.arg: k.value.attr for k in a0.value.keywords if isinstance(k.value, ast.Attribute)}
    if kw.get('gamma') != 'gamma' or kw.get('bigamma') != 'bigamma':
        raise Unsupported('rmtv: Rmtv._run does not pass gamma / bigamma through')
    ret = run.body[-1].value
    data = [e.id for e in ret.args[0].elts]
    names = [e.value for e in [k.value for k in ret.keywords if k.arg == 'names'][0].elts]
    if data != ['r'] + order:
        raise Unsupported('rmtv: Rmtv._run returns %r' % data)
    field = dict(zip(data, names))
    # the conversion tail: inside `if (rpos > rstar): ... else:` the assignments to vel, den, ener, pres, tev after the last solve_ivp
    top = [st for st in f1.body if isinstance(st, ast.If) and isinstance(st.test, ast.Compare) and getattr(st.test.left, 'id', '') == 'rpos']
    if len(top) != 1:
        raise Unsupported('rmtv_1d: heat-front branch not found')
    ahead, behind = top[0].body, top[0].orelse
    tail = []
    for st in behind:
        if isinstance(st, ast.Assign) and isinstance(st.targets[0], ast.Name) and st.targets[0].id in order:
            tail.append(st)
    if [st.targets[0].id for st in tail][:5] != ['vel', 'den', 'ener', 'pres', 'tev']:
        raise Unsupported('rmtv_1d: conversion statements are %r' % [st.targets[0].id for st in tail])

    class Y(ast.NodeTransformer):
        def visit_Subscript(self, n):
            if isinstance(n.value, ast.Name) and n.value.id == 'ystart' and isinstance(n.slice, ast.Constant):
                return ast.copy_location(ast.Name(id='y%d' % n.slice.value, ctx=ast.Load()), n)
            return self.generic_visit(n)
    body = [Y().visit(copy.deepcopy(st)) for st in tail] + [ast.parse('return (den, tev, ener, pres, vel)').body[0]]
    fvars = ['alpha', 'rpos', 'time', 'gamma', 'bigamma', 'g0', 'kappa', 'xi_end', 'sigma', 'y0', 'y1', 'y3']
    fn = ast.FunctionDef(name='rmtv_tail', args=ast.arguments(posonlyargs=[], args=[ast.arg(arg=a) for a in fvars], kwonlyargs=[], kw_defaults=[], defaults=[]), body=body, decorator_list=[])
    ast.fix_missing_locations(fn)
    mod.funcs['rmtv_tail'] = fn
    ret, interp = translate_function(mod, 'rmtv_tail', [(a, a) for a in fvars])
    text = HEADER % 'exactpack/solvers/rmtv/timmes.py (conversion of the integration variables to the returned fields), rmtv.py'
    js = {}
    for nm, e in zip(order, ret):
        args = sorted(free_vars(e))
        text += '\n' + emit_function('rmtv_' + field[nm], args, e, comment='field %s (local %s of rmtv_1d), behind the heat front' % (field[nm], nm))
        text += '#[global] Hint Unfold rmtv_%s : epgen.\n' % field[nm]
        js[field[nm]] = {'args': args, 'expr': expr_to_json(e)}
    # the shock map (Kamm 2000, eq. 15): inside `if (rpos <= rs):` the four pre-shock similarity variables are read from ystart and the
    # post-shock values are stored back into ystart before the second integration
    sh = [st for st in behind if isinstance(st, ast.If) and isinstance(st.test, ast.Compare) and getattr(st.test.left, 'id', '') == 'rpos'
          and isinstance(st.test.ops[0], ast.LtE) and getattr(st.test.comparators[0], 'id', '') == 'rs']
    if len(sh) != 1:
        raise Unsupported('rmtv_1d: shock branch `if (rpos <= rs)` not found')
    reads, stores = {}, {}
    for st in sh[0].body:
        if isinstance(st, ast.Assign) and isinstance(st.targets[0], ast.Name) and isinstance(st.value, ast.Subscript) \
                and getattr(st.value.value, 'id', '') == 'ystart' and isinstance(st.value.slice, ast.Constant) and not stores:
            reads[st.value.slice.value] = st.targets[0].id
        elif isinstance(st, ast.Assign) and isinstance(st.targets[0], ast.Subscript) and getattr(st.targets[0].value, 'id', '') == 'ystart' \
                and isinstance(st.targets[0].slice, ast.Constant):
            k_ = st.targets[0].slice.value
            if k_ in stores:
                raise Unsupported('rmtv_1d: ystart[%d] stored twice in the shock branch' % k_)
            # a store must not read ystart itself (the pre-shock values are the named locals)
            if any(isinstance(n_, ast.Name) and n_.id == 'ystart' for n_ in ast.walk(st.value)):
                raise Unsupported('rmtv_1d: shock map reads ystart after the first store')
            stores[k_] = st.value
        elif isinstance(st, ast.Assign) and any(isinstance(n_, ast.Name) and n_.id == 'ystart' for n_ in ast.walk(st.targets[0])) and stores \
                and not (isinstance(st.value, ast.Subscript)):
            break                                   # `ystart = soln.y[:, -1]` after the second integration
        elif isinstance(st, ast.Assign) and isinstance(st.targets[0], ast.Name) and st.targets[0].id == 'ystart':
            break
    if sorted(reads) != [0, 1, 2, 3] or sorted(stores) != [0, 1, 2, 3]:
        raise Unsupported('rmtv_1d: shock map reads %r stores %r' % (sorted(reads), sorted(stores)))
    pre = [reads[i] for i in range(4)]
    body = [ast.Assign(targets=[ast.Name(id='z%d' % i, ctx=ast.Store())], value=copy.deepcopy(stores[i])) for i in range(4)]
    body.append(ast.parse('return (z0, z1, z2, z3)').body[0])
    fn = ast.FunctionDef(name='rmtv_shockmap', args=ast.arguments(posonlyargs=[], args=[ast.arg(arg=a) for a in pre], kwonlyargs=[], kw_defaults=[], defaults=[]), body=body, decorator_list=[])
    ast.fix_missing_locations(fn)
    mod.funcs['rmtv_shockmap'] = fn
    ret2, _ = translate_function(mod, 'rmtv_shockmap', [(a, a) for a in pre])
    text += '\n(* the shock map of rmtv_1d (Kamm 2000, eq. 15): post-shock similarity variables stored into ystart[0..3], as functions of the\n   pre-shock values %s = ystart[0..3] *)\n' % ', '.join(pre)
    js['shockmap_args'] = pre
    for i, e in enumerate(ret2):
        args = sorted(free_vars(e))
        nm_ = 'rmtv_shock_y%d' % i
        text += emit_function(nm_, args, e, comment='rmtv_1d shock branch: ystart[%d] behind the shock' % i)
        text += '#[global] Hint Unfold %s : epgen.\n' % nm_
        js[nm_] = {'args': args, 'expr': expr_to_json(e)}
    # ahead of the heat front: literal constants
    ah = {}
    for st in ahead:
        if isinstance(st, ast.Assign) and isinstance(st.targets[0], ast.Name) and st.targets[0].id in order:
            ah[st.targets[0].id] = st.value
    for nm in ('ener', 'pres', 'tev', 'vel'):
        v = ah.get(nm)
        if not (isinstance(v, ast.Constant) and v.value == 0.0):
            raise Unsupported('rmtv_1d: %s ahead of the heat front is not the literal 0.0' % nm)
    text += '\n(* ahead of the heat front rmtv_1d returns the literal 0.0 for energy, pressure, temperature and velocity *)\n'
    text += 'Definition rmtv_ahead_zero : list string := [%s].\n' % '; '.join('"%s"%%string' % field[n] for n in ('ener', 'pres', 'tev', 'vel'))
    return {'Rmtv': (text, js)}


@group('riemann2d')
def g_riemann2d():
    """steady 2-D Riemann problem: the closed-form state functions of SetupRiemannProblem (oblique shock and
    Prandtl-Meyer fan parameterised by the downstream pressure, Prandtl-Meyer function, theta-beta-M relation used for
    the shock angle); the intersection of the pressure-deflection curves (interp / bisect / fsolve) is outside the
    translated subset"""
    from py2coq import Interp, Func, free_vars, Raised
    mod = Module(os.path.join(S, 'riemann2D_2section_steadystate/riemann2D_2section_steadystate.py'))
    cn = mod.classes['SetupRiemannProblem']
    meth = {st.name: st for st in cn.body if isinstance(st, ast.FunctionDef)}
    text = HEADER % 'exactpack/solvers/riemann2D_2section_steadystate/riemann2D_2section_steadystate.py'
    js = {}
    state = [('var', v) for v in ('p0', 'r0', 'M0', 'theta0_deg', 'g')]

    def run(mname, args):
        selfo = Obj('', {}, frozen=True, name='self')
        helpers = {}
        def factory(name):
            def h(interp_, n, env, base):
                a = [interp_.ev(x, env) for x in n.args]
                return interp_.call_func(Func(meth[name], mod), [selfo] + a, {}, n)
            return h
        for nm in meth:
            helpers[('method', nm)] = factory(nm)
        interp = Interp(mod, helpers)
        try:
            ret = interp.call_func(Func(meth[mname], mod), [selfo] + args, {}, meth[mname])
        except Raised:
            raise Unsupported('riemann2d: %s always raises' % mname)
        if interp.raises:
            raise Unsupported('riemann2d: %s raises on some path' % mname)
        return ret
    order = ['ps', 'p0', 'r0', 'M0', 'theta0_deg', 'g']
    for mname, pfx in (('compression_states', 'r2d_shock'), ('expansion_states', 'r2d_fan')):
        ret = run(mname, [('var', 'ps'), list(state)])
        if not (isinstance(ret, (tuple, list)) and len(ret) == 3):
            raise Unsupported('riemann2d: %s does not return three values' % mname)
        for nm, e in zip(('deflection', 'density', 'Mach'), ret):
            args = [a for a in order if a in free_vars(e)]
            text += '\n' + emit_function('%s_%s' % (pfx, nm), args, e, comment='%s(ps, state)[%s]' % (mname, nm))
            text += '#[global] Hint Unfold %s_%s : epgen.\n' % (pfx, nm)
            js['%s_%s' % (pfx, nm)] = {'args': args, 'expr': expr_to_json(e)}
    e = run('PrandtlMeyer_function', [('var', 'Ms'), ('var', 'g')])
    text += '\n' + emit_function('r2d_prandtl_meyer', ['Ms', 'g'], e, comment='PrandtlMeyer_function(Ms, g)')
    text += '#[global] Hint Unfold r2d_prandtl_meyer : epgen.\n'
    js['r2d_prandtl_meyer'] = {'args': ['Ms', 'g'], 'expr': expr_to_json(e)}
    # theta-beta-M relation inside determine_shock_angle (nested function get_shock_contact_angle)
    dsa = meth['determine_shock_angle']
    inner = [st for st in dsa.body if isinstance(st, ast.FunctionDef) and st.name == 'get_shock_contact_angle']
    if len(inner) != 1:
        raise Unsupported('riemann2d: determine_shock_angle has no get_shock_contact_angle')
    f = inner[0]
    mod.funcs['get_shock_contact_angle'] = f
    ret, _ = translate_function(mod, 'get_shock_contact_angle', [('x', 'beta')], helpers=None) if False else (None, None)
    interp = Interp(mod, {})
    e = interp.exec_body(f.body, {'x': ('var', 'beta'), 'M': ('var', 'M'), 'g': ('var', 'g')})
    text += '\n' + emit_function('r2d_theta_beta_M', ['beta', 'M', 'g'], e, comment='tan(deflection) as a function of the shock angle beta (determine_shock_angle.get_shock_contact_angle)')
    text += '#[global] Hint Unfold r2d_theta_beta_M : epgen.\n'
    js['r2d_theta_beta_M'] = {'args': ['beta', 'M', 'g'], 'expr': expr_to_json(e)}
    return {'Riemann2D': (text, js)}


@group('radshock')
def g_radshock():
    """travelling-wave structure of the radiative-shock wrappers' _run (np.interp on flipped profile arrays with
    shifted knots) and the upstream sound speed coded in radshock.py"""
    from gen import translate_method
    from py2coq import Solution, free_vars, coq_name
    mod = Module(os.path.join(S, 'radshocks/nED_radshocks.py'))
    text = HEADER % 'exactpack/solvers/radshocks/nED_radshocks.py, radshock.py'
    js = {}
    for cname, pfx in (('ED_Solver', 'rs_ed'), ('nED_Solver', 'rs_ned'), ('Sn_Solver', 'rs_sn'), ('ie_Solver', 'rs_ie')):
        calls = []

        def h_flip(interp, args, kwargs, n):
            a = args[0]
            if not (is_expr(a) and a[0] == 'var'):
                interp.err(n, 'flip of a non-attribute')
            return ('var', 'flip_' + a[1])

        def h_interp(interp, args, kwargs, n):
            calls.append((args[0], args[1], args[2]))
            return ('var', 'I%d' % (len(calls) - 1))
        ret, interp = translate_method(mod, cname, '_run', ['x', 't'], [], frozen_self=False,
                                       extra_helpers={'flip': h_flip, 'interp': h_interp,
                                                      'ExactSolution': lambda i, a, k, n: Solution(a[0], k.get('names', a[1] if len(a) > 1 else None))})
        if not isinstance(ret, Solution):
            raise Unsupported('%s._run does not return ExactSolution' % cname)
        fields = []
        shift = None
        for nm, e in zip(ret.names[1:], ret.data[1:]):
            if not (is_expr(e) and e[0] == 'var' and e[1].startswith('I')):
                raise Unsupported('%s._run: field %s is not a plain np.interp result' % (cname, nm))
            xq, xp, fp = calls[int(e[1][1:])]
            if xq != ('var', 'x') or not (is_expr(fp) and fp[0] == 'var' and fp[1].startswith('flip_')):
                raise Unsupported('%s._run: field %s is not interp(x, knots, flip(profile))' % (cname, nm))
            if not (is_expr(xp) and xp[0] == 'add' and xp[1] == ('neg', ('var', 'flip_x')) and 'flip_x' not in free_vars(xp[2])):
                raise Unsupported('%s._run: knots of %s are not -flip(self.x) + shift' % (cname, nm))
            if shift is None:
                shift = xp[2]
            elif shift != xp[2]:
                raise Unsupported('%s._run: fields use different shifts' % cname)
            fields.append((nm, fp[1][5:]))
        if ret.data[0] != ('var', 'x'):
            raise Unsupported('%s._run: first column is not the input' % cname)
        args = sorted(free_vars(shift))
        text += '\n' + emit_function(pfx + '_shift', args, shift, comment='%s._run: every field is interp(x, -flip(self.x) + SHIFT, flip(self.<profile>))' % cname)
        text += 'Definition %s_profiles : list (string * string) := [%s].\n' % (pfx, '; '.join('("%s"%%string, "%s"%%string)' % f for f in fields))
        js[pfx] = {'shift_args': args, 'shift': expr_to_json(shift), 'fields': fields}
    # upstream sound speed as coded in radshock.RadShock.__init__ / IEShock.__init__
    mod2 = Module(os.path.join(S, 'radshocks/radshock.py'))
    for cname, pfx in (('RadShock', 'rs_sound'), ('IEShock', 'rs_sound_ie')):
        node = None
        for st in mod2.classes[cname].body:
            if isinstance(st, ast.FunctionDef) and st.name == '__init__':
                node = st
        argn = [a.arg for a in node.args.args[1:]]
        ret, interp = translate_method(mod2, cname, '__init__', argn, [], frozen_self=False)
        e = interp.selfo.attrs.get('sound')
        if not is_expr(e):
            raise Unsupported('radshock.%s: no numeric attribute sound' % cname)
        args = sorted(free_vars(e))
        text += '\n' + emit_function(pfx, args, e, comment='%s.__init__: self.sound' % cname)
        js[pfx] = {'args': args, 'expr': expr_to_json(e)}
        if cname == 'RadShock':
            # the non-dimensional radiation constants of the model
            for attr in ('P0', 'C0'):
                e2 = interp.selfo.attrs.get(attr)
                if not is_expr(e2):
                    raise Unsupported('radshock.RadShock: no numeric attribute %s' % attr)
                a2 = sorted(free_vars(e2))
                text += '\n' + emit_function('rs_' + attr, a2, e2, comment='RadShock.__init__: self.%s' % attr)
                text += '#[global] Hint Unfold rs_%s : epgen.\n' % attr
                js['rs_' + attr] = {'args': a2, 'expr': expr_to_json(e2)}
            for attr in ('ar', 'c'):
                e2 = interp.selfo.attrs.get(attr)
                if not (is_expr(e2) and not free_vars(e2)):
                    raise Unsupported('radshock.RadShock: constant %s' % attr)
                text += '\n' + emit_function('rs_const_' + attr, [], e2, comment='RadShock.__init__: self.%s' % attr)
                js['rs_const_' + attr] = {'args': [], 'expr': expr_to_json(e2)}
    # far-downstream equilibrium state: the two residuals handed to fsolve, and the attributes computed from its root
    from py2coq import Interp
    mod3 = Module(os.path.join(S, 'radshocks/utils.py'))
    de = None
    for st in mod3.classes['RadShockProfile'].body:
        if isinstance(st, ast.FunctionDef) and st.name == 'downstream_equilibrium':
            de = st
    if de is None:
        raise Unsupported('radshocks/utils.py: RadShockProfile.downstream_equilibrium not found')
    selfo = Obj('', {'M0': ('var', 'M0'), 'gamma': ('var', 'gamma'), 'P0': ('var', 'P0')}, frozen=False, name='self')
    env = {'self': selfo}
    interp = Interp(mod3, {})
    nested = {}
    tail = []
    seen_fsolve = 0
    for st in de.body:
        if isinstance(st, ast.FunctionDef):
            nested[st.name] = st
        elif isinstance(st, ast.Assign) and any(isinstance(n, ast.Attribute) and n.attr == 'fsolve' for n in ast.walk(st.value)):
            seen_fsolve += 1
            src = ast.unparse(st)
            if seen_fsolve == 3:
                if not src.startswith('(rho1, T1) = scipy.optimize.fsolve(momentum_and_energy,') and not src.startswith('rho1, T1 = scipy.optimize.fsolve(momentum_and_energy,'):
                    raise Unsupported('downstream_equilibrium: third fsolve is %s' % src[:80])
                env['rho1'] = ('var', 'rho1'); env['T1'] = ('var', 'T1')
        elif seen_fsolve < 3:
            interp.exec_body([st], env)
        else:
            tail.append(st)
    if seen_fsolve != 3 or 'momentum_and_energy' not in nested:
        raise Unsupported('downstream_equilibrium: structure changed')
    env2 = dict(env, x=[('var', 'rho'), ('var', 'T')])
    ret = interp.exec_body(nested['momentum_and_energy'].body, env2)
    if not (isinstance(ret, (list, tuple)) and len(ret) == 2 and all(is_expr(v) for v in ret)):
        raise Unsupported('downstream_equilibrium.momentum_and_energy does not return two scalars')
    for nm, e in zip(('rs_down_momentum', 'rs_down_energy'), ret):
        a = [v for v in ('M0', 'gamma', 'P0', 'rho', 'T') if v in free_vars(e)]
        if set(free_vars(e)) - set(a):
            raise Unsupported('downstream_equilibrium: stray variables in %s' % nm)
        text += '\n' + emit_function(nm, a, e, comment='RadShockProfile.downstream_equilibrium: residual handed to fsolve, x = (rho, T)')
        text += '#[global] Hint Unfold %s : epgen.\n' % nm
        js[nm] = {'args': a, 'expr': expr_to_json(e)}
    interp.exec_body(tail, env)
    if interp.raises:
        raise Unsupported('downstream_equilibrium raises')
    for attr in ('Pr1', 'Er1', 'M1', 'speed1', 'rho1', 'T1'):
        e = selfo.attrs.get(attr)
        if not is_expr(e):
            raise Unsupported('downstream_equilibrium: attribute %s' % attr)
        a = [v for v in ('M0', 'gamma', 'P0', 'rho1', 'T1') if v in free_vars(e)]
        text += '\n' + emit_function('rs_down_' + attr, a, e, comment='RadShockProfile.downstream_equilibrium: self.%s from the root (rho1, T1)' % attr)
        text += '#[global] Hint Unfold rs_down_%s : epgen.\n' % attr
        js['rs_down_' + attr] = {'args': a, 'expr': expr_to_json(e)}
    return {'RadShock': (text, js)}


@group('footprint')
def g_footprint():
    import footprint
    fp = footprint.build()
    return {'Footprint': (footprint.emit(fp), fp)}


@group('catalogue')
def g_catalogue():
    import catalogue
    cat = catalogue.build()
    return {'Catalogue': (catalogue.emit(cat), cat)}


@group('inits')
def g_inits():
    """constructor guard chains of every catalogue class whose __init__ is in the accepted subset"""
    import catalogue
    from py2coq import coq_prop, coq_name, has_tag
    cat = catalogue.build()
    text = HEADER % 'every solver class (constructor guards)'
    js = {}
    done = []
    skipped = []
    for d in cat:
        mod = gen.load_module(os.path.join(REPO, d['file']))
        name = 'i_' + d['class']
        if name in js:
            name = 'i_%s_%s' % (d['module'].split('.')[-1], d['class'])
        try:
            info = translate_class(mod, d['class'], init_only=True)
        except Unsupported as ex:
            skipped.append('%s.%s: %s' % (d['module'], d['class'], str(ex)[-120:]))
            continue
        ps = info.params
        sig = ('(%s : R)' % ' '.join(coq_name(p) for p in ps)) if ps else ''
        body = 'False' if info.always_raises else coq_prop(info.init_ok)
        text += '\n(* %s.%s: %d raise site(s) *)\nDefinition %s %s : Prop := %s.\n' % (d['module'], d['class'], len(info.init_raises), name, sig, body)
        js[name] = {'class': d['class'], 'module': d['module'], 'params': ps, 'init_ok': expr_to_json(info.init_ok),
                    'always_raises': info.always_raises,
                    'defaults': {k: expr_to_json(v) for k, v in info.defaults.items() if is_expr(v) and not has_tag(v, 'var')},
                    'raises': [[expr_to_json(p_), exc, msg, ln] for p_, exc, msg, ln in info.init_raises]}
        done.append(name)
    text += '\nDefinition init_translated : list string := [%s].\n' % '; '.join('"%s"%%string' % n for n in done)
    js['_skipped'] = skipped
    return {'Init': (text, js)}


def main(argv):
    out = os.path.join(os.path.dirname(os.path.dirname(os.path.abspath(__file__))), 'coq', 'gen')
    names = []
    i = 0
    while i < len(argv):
        if argv[i] == '--out':
            out = argv[i + 1]
            i += 2
        else:
            names.append(argv[i])
            i += 1
    if not names:
        names = list(GROUPS)
    os.makedirs(out, exist_ok=True)
    status = 0
    report = {}
    for g in names:
        try:
            files = GROUPS[g]()
            for fn, (text, js) in files.items():
                p = os.path.join(out, fn + '.v')
                old = open(p).read() if os.path.exists(p) else None
                if old != text:
                    with open(p, 'w') as f:
                        f.write(text)
                with open(os.path.join(out, fn + '.json'), 'w') as f:
                    json.dump(js, f)
            report[g] = 'ok'
        except Unsupported as ex:
            report[g] = 'UNSUPPORTED: %s' % ex
            status = 2
        except Exception as ex:
            report[g] = 'ERROR: %s\n%s' % (ex, traceback.format_exc())
            status = 2
    for g, r in report.items():
        print('%-12s %s' % (g, r))
    return status


if __name__ == '__main__':
    sys.exit(main(sys.argv[1:]))
